import Fcgi.Proofs.RunLoop
import Fcgi.Props.C03Chunk
/-!
# Helper lemmas for `Props/C08Inv.lean` (the whole-poll invariant of C08)

1. `Rest`: the states in which `stream::Parser`'s loop stops *without* having anything left it
   could process; re-parsing such a state with no new input is the identity (`Rest.loop`), and the
   loop only stops in such a state unless it delivered stream data or stopped at a record boundary
   (`loop_rest`).
2. `readWaker` bookkeeping of the scripted transport: writes and flushes never touch it, a read
   sets it only when it answers `Pending` (`read_park`).
3. The same facts lifted through `poll_output`, `poll_input`, `writeable()`, `record_boundary()`,
   `close` and the handler interpreter.
-/
namespace Fcgi.C08Inv
open Fcgi Fcgi.Req Fcgi.Str Fcgi.Async Fcgi.Run

/-! ## 1. Resting states of the stream parser -/

/-- Mid-payload of a management `GetValues` record with an incomplete name-value pair buffered. -/
def ValuesPartial (q : Str.Parser) : Prop :=
  ∃ v, q.state = .values v ∧ q.raw.length < q.pay ∧ NV.next q.raw = none

/-- Nothing buffered that the parser could still process: the raw buffer is empty, or it holds an
incomplete record header at a record boundary, or an incomplete name-value pair of a `GetValues`
record whose payload is still being received. -/
def Rest (q : Str.Parser) : Prop :=
  q.raw = [] ∨ (q.pay = 0 ∧ q.pad = 0 ∧ q.raw.length < 8) ∨ ValuesPartial q

theorem extend_nil (v : Nat) : Vars.extend v [] = v := rfl

theorem parseHead_short {q : Str.Parser} (h : q.raw.length < 8) (d : Option Nat) (r : Status) :
    parseHead q d r = .stop q r := by
  unfold parseHead
  split
  · rename_i hraw; rw [hraw] at h; simp only [List.length_cons] at h; omega
  · rfl

/-- Re-running the loop on a resting state changes nothing and reports nothing. -/
theorem rest_loop {q : Str.Parser} (h : Rest q) (dest : Option Nat) (res : Status) :
    loop q dest res = (q, .ok res) := by
  rw [loop]
  split
  · rfl
  · rename_i hne
    rcases h with h | ⟨hpay, hpad, hlen⟩ | ⟨v, hst, hlt, hnv⟩
    · rw [h] at hne; exact absurd rfl hne
    · have hit : iter q dest res = .stop q res := by
        unfold iter
        have h1 : ¬ q.pay > 0 := by omega
        have h2 : ¬ q.pad > 0 := by omega
        simp only [if_neg h1, if_neg h2]
        exact parseHead_short hlen _ _
      simp only [hit]
    · have hpay : q.pay > 0 := by omega
      have hit : iter q dest res = .stop q res := by
        unfold iter
        simp only [if_pos hpay]
        have hmin : min q.pay q.raw.length = q.raw.length := by omega
        have hpp : parsePayload q dest res = .stop q res := by
          unfold parsePayload
          simp only [hst, hmin, List.take_length, C16.all_none hnv, extend_nil, if_pos hlt,
            Nat.sub_self]
          have h0 : ¬ (0 > q.raw.length ∨ 0 > q.pay) := by omega
          rw [if_neg h0]
          have hc : ¬ ((q.pay - 0 == 0 && decide (0 < q.raw.length)) = true) := by
            simp only [Nat.sub_zero, Bool.and_eq_true, beq_iff_eq, decide_eq_true_eq, not_and]
            omega
          rw [if_neg hc]
          congr 1
          obtain ⟨⟩ := q
          simp only [] at hst
          simp [hst]
        rw [hpp]
      simp only [hit]

/-- `parseHead` stops only without consuming: at the held-back header of the next stream
(`stream_end`), or when fewer than 8 bytes are buffered. -/
theorem parseHead_stop {p p' : Str.Parser} {dest : Option Nat} {res res' : Status}
    (h : parseHead p dest res = .stop p' res') :
    p' = p ∧ (res'.streamEnd = true ∨ p.raw.length < 8) := by
  unfold parseHead at h
  split at h
  · split at h
    · cases h
    · cases h
    · rename_i head hh
      by_cases hin : (RT.isInputStream head.rtype && head.requestId == p.request.id) = true
      · rw [if_pos hin] at h
        split at h
        · cases h
        · split at h
          · cases h
          · cases h; exact ⟨rfl, Or.inl rfl⟩
        · cases h
        · cases h; exact ⟨rfl, Or.inl rfl⟩
      · rw [if_neg hin] at h
        split at h
        · cases h
        · split at h
          · cases h
          · split at h <;> cases h
    · cases h
  · rename_i hne
    cases h
    refine ⟨rfl, Or.inr ?_⟩
    rcases hr : p.raw with _ | ⟨b0, _ | ⟨b1, _ | ⟨b2, _ | ⟨b3, _ | ⟨b4, _ | ⟨b5, _ | ⟨b6, _ | ⟨b7, rest⟩⟩⟩⟩⟩⟩⟩⟩
    all_goals first | (exact absurd hr (hne _ _ _ _ _ _ _ _ _)) | (simp)

/-- What a stop of the loop looks like when it is *not* a resting state. -/
def StopShape (p' : Str.Parser) (res' : Status) : Prop :=
  Rest p' ∨ (p'.pay = 0 ∧ p'.pad = 0 ∧ res'.streamEnd = true)

theorem padHead_stop {q p' : Str.Parser} {d : Option Nat} {r res' : Status} (hpay : q.pay = 0)
    (h : (if q.pad > 0 then
        if q.raw.length ≤ q.pad then
          Iter.stop { q with raw := [], g1 := q.g1 + q.raw.length, pad := q.pad - q.raw.length } r
        else parseHead { q with raw := q.raw.drop q.pad, g1 := q.g1 + q.pad, pad := 0 } d r
      else parseHead q d r) = .stop p' res') : StopShape p' res' := by
  split at h
  · split at h
    · cases h; exact Or.inl (Or.inl rfl)
    · obtain ⟨rfl, hs | hs⟩ := parseHead_stop h
      · exact Or.inr ⟨hpay, rfl, hs⟩
      · exact Or.inl (Or.inr (Or.inl ⟨hpay, rfl, hs⟩))
  · rename_i hpad
    obtain ⟨rfl, hs | hs⟩ := parseHead_stop h
    · exact Or.inr ⟨hpay, by omega, hs⟩
    · exact Or.inl (Or.inr (Or.inl ⟨hpay, by omega, hs⟩))

theorem drop_rest {bs c r : Bytes} (h : bs = c ++ r) : bs.drop (bs.length - r.length) = r := by
  subst h; simp

/-- `parsePayload` stops the loop only in a resting state, unless it handed out stream data. -/
theorem parsePayload_stop {p p' : Str.Parser} {dest : Option Nat} {res res' : Status}
    (h : parsePayload p dest res = .stop p' res') (hraw : p.raw ≠ []) (hpay : 0 < p.pay)
    (hd : dest ≠ some 0) (hs : res'.stream = res.stream) : Rest p' := by
  have hlen : 0 < p.raw.length := List.length_pos_iff.2 hraw
  unfold parsePayload at h
  cases hst : p.state with
  | stream =>
    cases dest with
    | some c =>
      have hc : 0 < c := by
        rcases Nat.eq_zero_or_pos c with h0 | h0
        · subst h0; exact absurd rfl hd
        · exact h0
      simp only [hst] at h
      split at h
      · cases h
      · split at h
        · cases h
        · cases h
          simp only [] at hs
          omega
    | none =>
      simp only [hst] at h
      split at h
      · cases h
      · split at h
        · cases h
        · cases h
          simp only [] at hs
          omega
  | skip =>
    simp only [hst] at h
    split at h
    · cases h
    · split at h
      · cases h
      · rename_i hc
        cases h
        left
        simp only [Bool.and_eq_true, beq_iff_eq, decide_eq_true_eq, not_and, Nat.not_lt] at hc
        simp only [List.drop_eq_nil_iff]
        omega
  | values v =>
    simp only [hst] at h
    by_cases hlt : p.raw.length < p.pay
    · simp only [hlt, if_true] at h
      split at h
      · cases h
      · split at h
        · cases h
        · cases h
          have hmin : min p.pay p.raw.length = p.raw.length := by omega
          obtain ⟨c, hc⟩ := C16.rest_suffix p.raw
          have hle : (NV.all p.raw).2.length ≤ p.raw.length := nvall_rest_le _
          right; right
          refine ⟨_, rfl, ?_, ?_⟩
          · simp only [hmin, List.take_length, List.length_drop]; omega
          · simp only [hmin, List.take_length]
            rw [drop_rest hc]; exact C16.stops_for_good _
    · simp only [hlt, if_false] at h
      split at h
      · cases h
      · split at h
        · cases h
        · rename_i hc
          cases h
          left
          simp only [Bool.and_eq_true, beq_iff_eq, decide_eq_true_eq, not_and, Nat.not_lt] at hc
          simp only [List.drop_eq_nil_iff]
          omega

theorem iter_stop {p p' : Str.Parser} {dest : Option Nat} {res res' : Status}
    (h : iter p dest res = .stop p' res') (hraw : p.raw ≠ []) (hd : dest ≠ some 0)
    (hs : res'.stream = res.stream) : StopShape p' res' := by
  unfold iter at h
  by_cases hpay : p.pay > 0
  · simp only [hpay, if_true] at h
    have hp := parsePayload_good p dest res
    cases hpp : parsePayload p dest res with
    | cont q d r =>
      rw [hpp] at hp h
      exact padHead_stop hp.2.2.1 h
    | stop q r =>
      rw [hpp] at h
      cases h
      exact Or.inl (parsePayload_stop hpp hraw hpay hd hs)
    | err q e => rw [hpp] at h; cases h
    | panic s => rw [hpp] at h; cases h
  · simp only [hpay, if_false] at h
    exact padHead_stop (by omega) h

theorem Rel.stream_le {p p' : Str.Parser} {d d' : Option Nat} {r r' : Status}
    (h : Rel p d r p' d' r') : r.stream ≤ r'.stream := by
  have h1 := h.cnt
  have h2 := h.del_pre.length_le
  have h3 := h.par_pre.length_le
  omega

theorem Rel.dest_eq {p p' : Str.Parser} {d d' : Option Nat} {r r' : Status}
    (h : Rel p d r p' d' r') (hs : r'.stream = r.stream) : d' = d := by
  have h1 := h.cnt
  have h2 := h.dcap
  have h3 := h.dsome
  cases d with
  | none => cases d' with
    | none => rfl
    | some x => cases h3
  | some c =>
    cases d' with
    | none => cases h3
    | some x =>
      have h4 := h.dpar rfl
      rw [h4] at h1
      simp only [Option.getD_some] at h2
      congr 1; omega

/-- The loop returns `Ok` in a resting state or at a record boundary with `stream_end` set, unless
it handed out stream data. -/
theorem loop_rest (p : Str.Parser) (dest : Option Nat) (res : Status) {p' : Str.Parser} {res' : Status}
    (h : loop p dest res = (p', .ok res')) (hd : dest ≠ some 0) (hs : res'.stream = res.stream) :
    StopShape p' res' := by
  generalize hn : p.raw.length = n at *
  induction n using Nat.strongRecOn generalizing p dest res with
  | _ n ih =>
    rw [loop] at h
    split at h
    · rename_i he
      cases h
      exact Or.inl (Or.inl (by simpa using he))
    · rename_i hne
      have hraw : p.raw ≠ [] := by intro h0; rw [h0] at hne; exact hne rfl
      have hi := iter_good p dest res
      cases hit : iter p dest res with
      | cont p1 d1 r1 =>
        rw [hit] at hi h
        obtain ⟨h1, h2, h3⟩ := hi
        simp only [if_pos h2] at h
        have hg := loop_good p1 d1 r1
        rw [h] at hg
        obtain ⟨⟨d2, hrel2⟩, -⟩ := hg
        have hle1 := Rel.stream_le h1
        have hle2 := Rel.stream_le hrel2
        have hs1 : r1.stream = res.stream := by omega
        have hd1 : d1 = dest := Rel.dest_eq h1 hs1
        subst hd1
        exact ih _ (by omega) p1 d1 r1 h hd (by omega) rfl
      | stop p1 r1 =>
        rw [hit] at h
        cases h
        exact iter_stop hit hraw hd hs
      | err p1 e => rw [hit] at h; cases h
      | panic s => rw [hit] at h; cases h

/-! ### `parse` level -/

/-- A `parse` call that returns `Ok` passed both assertions and is the loop on the fed parser. -/
theorem parse_ok_loop {p sp : Str.Parser} {new : Bytes} {dest : Option Nat} {st : Status}
    (h : p.parse new dest = (sp, .ok st)) :
    (dest = none ∨ p.parsed = []) ∧ p.freeStart + new.length ≤ p.cap ∧
    loop (p.feed new) dest (initStatus p) = (sp, .ok st) := by
  unfold Str.Parser.parse at h
  split at h
  · cases h
  · rename_i h1
    split at h
    · cases h
    · rename_i h2
      refine ⟨?_, by omega, h⟩
      cases dest with
      | none => exact Or.inl rfl
      | some c =>
        right
        simpa using h1

theorem parse_err_boundary {p sp : Str.Parser} {new : Bytes} {dest : Option Nat} {e : PErr}
    (h : p.parse new dest = (sp, .err e)) : sp.isRecordBoundary = true := by
  unfold Str.Parser.parse at h
  split at h
  · cases h
  · split at h
    · cases h
    · have hg := loop_good { p with raw := p.raw ++ new } dest
        { stream := 0, streamEnd := p.stream.isNone, output := 0, delivered := [] }
      rw [h] at hg
      obtain ⟨-, -, h1, h2, -⟩ := hg
      simp [Str.Parser.isRecordBoundary, h1, h2]

/-- The resting state together with the two facts that make a `parse` call legal. -/
structure Quiescent (q : Str.Parser) : Prop where
  rest : Rest q
  parsed : q.parsed = []
  fits : q.freeStart ≤ q.cap

/-- **Everything buffered has been processed**: a `parse` call without new input returns `Ok`
with no stream data, no `stream_end` it did not already have, no new output, and leaves the parser
exactly as it was — for every destination. -/
theorem Quiescent.parse_nil {q : Str.Parser} (h : Quiescent q) (dest : Option Nat) :
    q.parse [] dest = (q, .ok (initStatus q)) := by
  rw [parse_eq_loop q [] dest h.fits (Or.inr h.parsed) (by simp), Parser.feed_nil]
  exact rest_loop h.rest _ _

theorem Quiescent.frame {q q' : Str.Parser} (h : Quiescent q) (h1 : q'.raw = q.raw) (h2 : q'.pay = q.pay)
    (h3 : q'.pad = q.pad) (h4 : q'.state = q.state) (h5 : q'.parsed = q.parsed) (h6 : q'.cap = q.cap)
    (h7 : q'.freeStart ≤ q.freeStart) : Quiescent q' := by
  refine ⟨?_, h5.trans h.parsed, by have := h.fits; omega⟩
  rcases h.rest with h | ⟨ha, hb, hc⟩ | ⟨v, ha, hb, hc⟩
  · exact Or.inl (h1.trans h)
  · exact Or.inr (Or.inl ⟨h2.trans ha, h3.trans hb, by rw [h1]; exact hc⟩)
  · exact Or.inr (Or.inr ⟨v, h4.trans ha, by rw [h1, h2]; exact hb, by rw [h1]; exact hc⟩)

/-- What an `Ok` of `parse` that hands out no stream data leaves behind. -/
theorem parse_ok_facts {p sp : Str.Parser} {new : Bytes} {dest : Option Nat} {st : Status}
    (h : p.parse new dest = (sp, .ok st)) (hd : dest ≠ some 0) (hs : st.stream = 0) :
    StopShape sp st ∧ sp.freeStart ≤ sp.cap ∧ (p.parsed = [] → sp.parsed = []) ∧
    (st.streamEnd = false → sp.stream ≠ none) := by
  obtain ⟨hleg, hfit, hl⟩ := parse_ok_loop h
  have hg := loop_good (p.feed new) dest (initStatus p)
  rw [hl] at hg
  obtain ⟨⟨d', hrel⟩, -⟩ := hg
  refine ⟨loop_rest _ _ _ hl hd (by rw [hs]; rfl), ?_, ?_, ?_⟩
  · rw [hrel.fs, hrel.cap]
    simp only [Parser.feed, Str.Parser.freeStart, List.length_append] at hfit ⊢
    omega
  · intro hp
    have hcnt := hrel.cnt
    cases dest with
    | some c =>
      have := hrel.dpar rfl
      rw [this]; exact hp
    | none =>
      have hdn := hrel.dnone rfl
      rw [hdn, hs] at hcnt
      simp only [Parser.feed, hp, initStatus, List.length_nil] at hcnt
      exact List.length_eq_zero_iff.1 (by omega)
  · intro hse hn
    have hps : p.stream = none := by
      have := hrel.strm; rw [hn] at this; exact this.symm
    have := hrel.se (by simp [initStatus, hps] : (initStatus p).streamEnd = true)
    rw [hse] at this; cases this

theorem parse_none_stream {p sp : Str.Parser} {new : Bytes} {st : Status}
    (h : p.parse new none = (sp, .ok st)) (hp : sp.parsed = []) : st.stream = 0 := by
  obtain ⟨-, -, hl⟩ := parse_ok_loop h
  have hg := loop_good (p.feed new) none (initStatus p)
  rw [hl] at hg
  obtain ⟨⟨d', hrel⟩, -⟩ := hg
  have hcnt := hrel.cnt
  rw [hrel.dnone rfl, hp] at hcnt
  simp only [initStatus, List.length_nil] at hcnt
  omega

/-! ## 2. The `readWaker` flag of the scripted transport -/

theorem ev_rw (t : Transport) (s : String) : (t.ev s).readWaker = t.readWaker := rfl
theorem ev_input (t : Transport) (s : String) : (t.ev s).input = t.input := rfl

/-- A read sets `readWaker` only when it answers `Pending` on an empty input. -/
theorem read_park {t t' : Transport} {cap : Nat} {res : Poll (Except IoErr Bytes)}
    (h : t.read cap = (t', res)) (h0 : t.readWaker = false) :
    t'.readWaker = false ∨ (res = .pending ∧ t'.input = []) := by
  unfold Transport.read at h
  split at h
  · cases h; exact Or.inl h0
  · split at h
    simp only at h
    split at h
    · cases h; exact Or.inl h0
    · cases h; exact Or.inl h0
    · split at h
      · rename_i hie
        have hin : t.input = [] := by simpa using hie
        split at h
        · cases h; exact Or.inr ⟨rfl, hin⟩
        · split at h
          · cases h; exact Or.inl h0
          · cases h; exact Or.inr ⟨rfl, hin⟩
          · cases h; exact Or.inl h0
      · cases h; exact Or.inl h0

theorem writeV_rw (t : Transport) (sl : List Bytes) (tag : String) :
    (t.writeV sl tag).1.readWaker = t.readWaker := by
  unfold Transport.writeV
  generalize sl.flatten = data
  by_cases hd : data.isEmpty = true
  · simp only [hd, if_true, Transport.ev]
  · simp only [hd, Bool.false_eq_true, if_false]
    rcases t.wr with _ | ⟨a, rest⟩
    · simp [Transport.ev]
    · cases a <;> simp [Transport.ev]

theorem write_rw {t t' : Transport} {buf : Bytes} {r : Poll (Except IoErr Nat)}
    (h : t.write buf = (t', r)) : t'.readWaker = t.readWaker := by
  have := writeV_rw t [buf] "W"
  unfold Transport.write at h
  rwa [h] at this

theorem writeV_rw' {t t' : Transport} {sl : List Bytes} {tag : String} {r : Poll (Except IoErr Nat)}
    (h : t.writeV sl tag = (t', r)) : t'.readWaker = t.readWaker := by
  have := writeV_rw t sl tag; rwa [h] at this

theorem flush_rw {t t' : Transport} {r : Poll (Except IoErr Unit)}
    (h : t.flush = (t', r)) : t'.readWaker = t.readWaker := by
  unfold Transport.flush at h
  repeat' (split at h)
  all_goals (cases h; rfl)

theorem writeAllLoop_rw : ∀ (fuel : Nat) (buf : Bytes) (t : Transport) {rest : Bytes} {t' : Transport} {res : ORes},
    writeAllLoop fuel buf t = (rest, t', res) → t'.readWaker = t.readWaker := by
  intro fuel
  induction fuel with
  | zero => intro buf t rest t' res h; simp only [writeAllLoop] at h; cases h; rfl
  | succ n ih =>
    intro buf t rest t' res h
    simp only [writeAllLoop] at h
    split at h
    · cases h; rfl
    · split at h
      · cases h; exact write_rw ‹_›
      · cases h; exact write_rw ‹_›
      · cases h; exact write_rw ‹_›
      · exact (ih _ _ h).trans (write_rw ‹_›)

theorem outLoop_rw : ∀ (fuel : Nat) (sp : Str.Parser) (t : Transport) {sp' : Str.Parser} {t' : Transport} {res : ORes},
    outLoop fuel sp t = (sp', t', res) → t'.readWaker = t.readWaker := by
  intro fuel
  induction fuel with
  | zero => intro sp t sp' t' res h; simp only [outLoop] at h; cases h; rfl
  | succ n ih =>
    intro sp t sp' t' res h
    simp only [outLoop] at h
    split at h
    · cases h; rfl
    · split at h
      · cases h; exact write_rw ‹_›
      · cases h; exact write_rw ‹_›
      · cases h; exact write_rw ‹_›
      · exact (ih _ _ h).trans (write_rw ‹_›)

theorem writeLoop_rw : ∀ (fuel : Nat) (w : Writer) (head buf : Bytes) (t : Transport)
    {w' : Writer} {t' : Transport} {res : WRes},
    writeLoop fuel w head buf t = (w', t', res) → t'.readWaker = t.readWaker := by
  intro fuel
  induction fuel with
  | zero => intro w head buf t w' t' res h; simp only [writeLoop] at h; cases h; rfl
  | succ n ih =>
    intro w head buf t w' t' res h
    simp only [writeLoop] at h
    split at h
    · cases h; rfl
    · split at h
      · cases h; rfl
      · split at h
        · cases h; exact writeV_rw' ‹_›
        · cases h; exact writeV_rw' ‹_›
        · cases h; exact writeV_rw' ‹_›
        · split at h
          · cases h; exact writeV_rw' ‹_›
          · exact (ih _ _ _ _ h).trans (writeV_rw' ‹_›)

theorem pollWrite_rw {w : Writer} {me : Nat} {buf : Bytes} {m : MutexSt} {t : Transport}
    {w' : Writer} {m' : MutexSt} {t' : Transport} {res : WRes}
    (h : w.pollWrite me buf m t = (w', m', t', res)) : t'.readWaker = t.readWaker := by
  simp only [Writer.pollWrite] at h
  split at h
  · cases h; rfl
  · split at h
    · cases h; rfl
    · split at h
      · cases h; rfl
      · split at h
        · cases h; rfl
        · split at h
          · cases h; rfl
          · split at h
            · cases h; exact writeLoop_rw _ _ _ _ _ ‹_›
            · cases h; exact writeLoop_rw _ _ _ _ _ ‹_›

theorem pollFlush_rw {w : Writer} {me : Nat} {m : MutexSt} {t : Transport}
    {w' : Writer} {m' : MutexSt} {t' : Transport} {res : WRes}
    (h : w.pollFlush me m t = (w', m', t', res)) : t'.readWaker = t.readWaker := by
  simp only [Writer.pollFlush] at h
  repeat' (split at h)
  all_goals (cases h; first | rfl | exact flush_rw ‹_›)

theorem pollOutput_rw {r : AReq} {m : MutexSt} {t : Transport}
    {r' : AReq} {m' : MutexSt} {t' : Transport} {res : ORes}
    (h : r.pollOutput m t = (r', m', t', res)) : t'.readWaker = t.readWaker := by
  simp only [AReq.pollOutput] at h
  repeat' (split at h)
  all_goals (cases h; first | rfl | exact outLoop_rw _ _ _ ‹_›)

/-! ## 3. `poll_input`, `writeable()`, `record_boundary()` -/

/-- The state of a `Request` whose task is parked in a read issued by `poll_input`: the reply
buffer is empty, nothing buffered is unprocessed, an input stream is active, and the transport has
no undelivered input. -/
structure Parked (r : AReq) (t : Transport) : Prop where
  out : r.sp.output = []
  quiet : Quiescent r.sp
  active : r.sp.stream ≠ none
  drained : t.input = []

theorem compress_fs (sp : Str.Parser) : sp.compress.freeStart ≤ sp.freeStart := by
  simp only [Str.Parser.compress, Str.Parser.freeStart]; omega

theorem inLoop_park : ∀ (fuel : Nat) (r : AReq) (new : Bytes) (dest : Option Nat) (m : MutexSt) (t : Transport)
    {r' : AReq} {m' : MutexSt} {t' : Transport} {res : IRes},
    inLoop fuel r new dest m t = (r', m', t', res) → t.readWaker = false → dest ≠ some 0 →
    r.sp.parsed = [] → t'.readWaker = false ∨ (res = .pending ∧ Parked r' t') := by
  intro fuel
  induction fuel with
  | zero =>
    intro r new dest m t r' m' t' res h h0 _ _
    simp only [inLoop] at h; cases h; exact Or.inl h0
  | succ k ih =>
    intro r new dest m t r' m' t' res h h0 hd hp
    simp only [inLoop] at h
    cases hparse : r.sp.parse new dest with
    | mk sp pr =>
      rw [hparse] at h
      cases pr with
      | panic s => simp only at h; cases h; exact Or.inl h0
      | err e => simp only at h; cases h; exact Or.inl h0
      | ok st =>
        simp only at h
        split at h
        · cases h; exact Or.inl h0
        · rename_i hc
          have hse : st.streamEnd = false ∧ st.stream = 0 := by
            simp only [Bool.or_eq_true, decide_eq_true_eq, not_or, Bool.not_eq_true] at hc
            exact ⟨hc.1, by omega⟩
          obtain ⟨hshape, hfit, hpar, hact⟩ := parse_ok_facts hparse hd hse.2
          have hrest : Rest sp := by
            rcases hshape with h | ⟨_, _, h⟩
            · exact h
            · rw [hse.1] at h; cases h
          cases hpo : AReq.pollOutput { r with sp := sp.compress } m t with
          | mk r1 x =>
            obtain ⟨m1, t1, ores⟩ := x
            obtain ⟨_, hsp1, _, _, hout1, _⟩ := pollOutput_spec hpo
            have hrw1 := pollOutput_rw hpo
            have hpo' : AReq.pollOutput { sp := sp.compress, lock := r.lock, writeable := r.writeable } m t
                = (r1, m1, t1, ores) := hpo
            rw [hpo'] at h
            have h01 : t1.readWaker = false := hrw1.trans h0
            cases ores with
            | pending => simp only at h; cases h; exact Or.inl h01
            | err e => simp only at h; cases h; exact Or.inl h01
            | panic s => simp only at h; cases h; exact Or.inl h01
            | ready =>
              simp only at h
              have hq1 : Quiescent r1.sp := by
                rw [hsp1]
                exact Quiescent.frame ⟨hrest, hpar hp, hfit⟩ rfl rfl rfl rfl rfl rfl (compress_fs sp)
              have hact1 : r1.sp.stream ≠ none := by rw [hsp1]; exact hact hse.1
              cases hrd : t1.read r1.sp.free with
              | mk t2 pr =>
                rw [hrd] at h
                have hpk := read_park hrd h01
                cases pr with
                | pending =>
                  simp only at h; cases h
                  rcases hpk with h | ⟨_, hin⟩
                  · exact Or.inl h
                  · exact Or.inr ⟨rfl, ⟨hout1 rfl, hq1, hact1, hin⟩⟩
                | ready ex =>
                  have h02 : t2.readWaker = false := by
                    rcases hpk with h | ⟨h, _⟩
                    · exact h
                    · cases h
                  cases ex with
                  | error e => simp only at h; cases h; exact Or.inl h02
                  | ok bs =>
                    cases bs with
                    | nil => simp only at h; cases h; exact Or.inl h02
                    | cons b bs =>
                      simp only at h
                      exact ih _ _ _ _ _ h h02 hd hq1.parsed

theorem pollInput_park {r : AReq} {dest : Option Nat} {m : MutexSt} {t : Transport}
    {r' : AReq} {m' : MutexSt} {t' : Transport} {res : IRes}
    (h : r.pollInput dest m t = (r', m', t', res)) (h0 : t.readWaker = false) :
    t'.readWaker = false ∨ (res = .pending ∧ Parked r' t') := by
  have key : ∀ (hd : dest ≠ some 0) (hp : r.sp.parsed = []),
      (match r.pollOutput m t with
        | (r, m, t, .pending) => (r, m, t, IRes.pending)
        | (r, m, t, .err e) => (r, m, t, .err e)
        | (r, m, t, .panic s) => (r, m, t, .panic s)
        | (r, m, t, .ready) => inLoop (t.input.length + 2) r [] dest m t) = (r', m', t', res) →
      t'.readWaker = false ∨ (res = .pending ∧ Parked r' t') := by
    intro hd hp h
    cases hpo : r.pollOutput m t with
    | mk r1 x =>
      obtain ⟨m1, t1, ores⟩ := x
      obtain ⟨_, hsp1, _, _, _, _⟩ := pollOutput_spec hpo
      have h01 : t1.readWaker = false := (pollOutput_rw hpo).trans h0
      rw [hpo] at h
      cases ores with
      | pending => simp only at h; cases h; exact Or.inl h01
      | err e => simp only at h; cases h; exact Or.inl h01
      | panic s => simp only at h; cases h; exact Or.inl h01
      | ready =>
        simp only at h
        exact inLoop_park _ _ _ _ _ _ h h01 hd (by rw [hsp1]; exact hp)
  simp only [AReq.pollInput] at h
  rcases hb : r.sp.parsed with _ | ⟨b, bs⟩
  · cases dest with
    | none =>
      simp only [hb] at h
      exact key (by simp) hb h
    | some n =>
      cases n with
      | zero => simp only [hb] at h; cases h; exact Or.inl h0
      | succ n =>
        simp only [hb] at h
        exact key (by simp) hb h
  · cases dest with
    | none => simp only [hb] at h; cases h; exact Or.inl h0
    | some n =>
      cases n with
      | zero => simp only [hb] at h; cases h; exact Or.inl h0
      | succ n => simp only [hb] at h; cases h; exact Or.inl h0

theorem writeablePoll_park {r : AReq} {started : Bool} {m : MutexSt} {t : Transport}
    {r' : AReq} {b : Bool} {m' : MutexSt} {t' : Transport} {res : ORes}
    (h : r.writeablePoll started m t = (r', b, m', t', res)) (h0 : t.readWaker = false) :
    t'.readWaker = false ∨ (res = .pending ∧ Parked r' t') := by
  simp only [AReq.writeablePoll] at h
  split at h
  · cases h; exact Or.inl h0
  · split at h
    · cases h; exact Or.inl h0
    · split at h
      all_goals
        have hp := pollInput_park ‹_› h0
        cases h
        rcases hp with hp | ⟨hp, hk⟩
        · exact Or.inl hp
        · first | exact Or.inr ⟨rfl, hk⟩ | cases hp

/-- The state of the stream parser when `record_boundary()` is suspended in its read: the parser
is in the middle of a record (its payload or padding is still outstanding), and nothing buffered is
unprocessed. -/
structure BParked (sp : Str.Parser) : Prop where
  mid : sp.isRecordBoundary = false
  quiet : Quiescent sp

/-- `record_boundary()`: a `Pending` leaves a `BParked` parser; the waker is parked only by a
`Pending` on an empty input. -/
abbrev BSpec (t : Transport) (sp' : Str.Parser) (t' : Transport) (res : ORes) : Prop :=
  (res = .pending → BParked sp') ∧
  (t.readWaker = false → t'.readWaker = false ∨ (res = .pending ∧ t'.input = []))

theorem boundaryCont_park {n : Nat}
    (ih : ∀ (sp : Str.Parser) (new : Bytes) (t : Transport) {sp' : Str.Parser} {t' : Transport} {res : ORes},
      boundaryLoop n sp new t = (sp', t', res) → BSpec t sp' t' res)
    {sp : Str.Parser} {t : Transport} {sp' : Str.Parser} {t' : Transport} {res : ORes}
    (hsp : sp.isRecordBoundary = false → sp.parsed = [] → Rest sp ∧ sp.freeStart ≤ sp.cap)
    (h : boundaryLoop.cont sp t n = (sp', t', res)) : BSpec t sp' t' res := by
  simp only [boundaryLoop.cont] at h
  split at h
  · cases h; exact ⟨fun hh => (nomatch hh), fun h0 => Or.inl h0⟩
  · rename_i hnb
    split at h
    · cases h; exact ⟨fun hh => (nomatch hh), fun h0 => Or.inl h0⟩
    · rename_i hpe
      have hb : sp.isRecordBoundary = false := by simpa using hnb
      have hp : sp.parsed = [] := by simpa using hpe
      obtain ⟨hrest, hfit⟩ := hsp hb hp
      have hq : BParked sp.compress :=
        ⟨hb, Quiescent.frame ⟨hrest, hp, hfit⟩ rfl rfl rfl rfl rfl rfl (compress_fs sp)⟩
      cases hrd : t.read sp.compress.free with
      | mk t2 pr =>
        rw [hrd] at h
        cases pr with
        | pending =>
          simp only at h; cases h
          refine ⟨fun _ => hq, fun h0 => ?_⟩
          rcases read_park hrd h0 with h | ⟨_, h⟩
          · exact Or.inl h
          · exact Or.inr ⟨rfl, h⟩
        | ready ex =>
          have h02 : t.readWaker = false → t2.readWaker = false := by
            intro h0
            rcases read_park hrd h0 with h | ⟨h, _⟩
            · exact h
            · cases h
          cases ex with
          | error e => simp only at h; cases h; exact ⟨fun hh => (nomatch hh), fun h0 => Or.inl (h02 h0)⟩
          | ok bs =>
            cases bs with
            | nil => simp only at h; cases h; exact ⟨fun hh => (nomatch hh), fun h0 => Or.inl (h02 h0)⟩
            | cons b bs =>
              simp only at h
              obtain ⟨h1, h2⟩ := ih _ _ _ h
              exact ⟨h1, fun h0 => h2 (h02 h0)⟩

theorem boundaryLoop_park : ∀ (fuel : Nat) (sp : Str.Parser) (new : Bytes) (t : Transport)
    {sp' : Str.Parser} {t' : Transport} {res : ORes},
    boundaryLoop fuel sp new t = (sp', t', res) → BSpec t sp' t' res := by
  intro fuel
  induction fuel with
  | zero =>
    intro sp new t sp' t' res h; simp only [boundaryLoop] at h; cases h
    exact ⟨fun hh => (nomatch hh), fun h0 => Or.inl h0⟩
  | succ n ih =>
    intro sp new t sp' t' res h
    simp only [boundaryLoop] at h
    cases hparse : sp.parse new none with
    | mk sp1 pr =>
      rw [hparse] at h
      cases pr with
      | panic s => simp only at h; cases h; exact ⟨fun hh => (nomatch hh), fun h0 => Or.inl h0⟩
      | err e =>
        simp only at h
        split at h
        · refine boundaryCont_park ih (fun hb _ => ?_) h
          rw [parse_err_boundary hparse] at hb; cases hb
        · cases h; exact ⟨fun hh => (nomatch hh), fun h0 => Or.inl h0⟩
      | ok st =>
        simp only at h
        refine boundaryCont_park ih (fun hb hp => ?_) h
        obtain ⟨hshape, hfit, -, -⟩ := parse_ok_facts hparse (by simp) (parse_none_stream hparse hp)
        refine ⟨?_, hfit⟩
        rcases hshape with h | ⟨h1, h2, -⟩
        · exact h
        · simp [Str.Parser.isRecordBoundary, h1, h2] at hb

theorem closeBoundary_park {sp : Str.Parser} {resume : Bool} {t : Transport}
    {sp' : Str.Parser} {t' : Transport} {res : ORes}
    (hinv : resume = true → BParked sp)
    (h : closeBoundary sp resume t = (sp', t', res)) : BSpec t sp' t' res := by
  simp only [closeBoundary] at h
  split at h
  · rename_i hres
    cases hrd : t.read sp.free with
    | mk t2 pr =>
      rw [hrd] at h
      cases pr with
      | pending =>
        simp only at h; cases h
        refine ⟨fun _ => hinv hres, fun h0 => ?_⟩
        rcases read_park hrd h0 with h | ⟨_, h⟩
        · exact Or.inl h
        · exact Or.inr ⟨rfl, h⟩
      | ready ex =>
        have h02 : t.readWaker = false → t2.readWaker = false := by
          intro h0
          rcases read_park hrd h0 with h | ⟨h, _⟩
          · exact h
          · cases h
        cases ex with
        | error e => simp only at h; cases h; exact ⟨fun hh => (nomatch hh), fun h0 => Or.inl (h02 h0)⟩
        | ok bs =>
          cases bs with
          | nil => simp only at h; cases h; exact ⟨fun hh => (nomatch hh), fun h0 => Or.inl (h02 h0)⟩
          | cons b bs =>
            simp only at h
            obtain ⟨h1, h2⟩ := boundaryLoop_park _ _ _ _ h
            exact ⟨h1, fun h0 => h2 (h02 h0)⟩
  · split at h
    · cases h; exact ⟨fun hh => (nomatch hh), fun h0 => Or.inl h0⟩
    · exact boundaryLoop_park _ _ _ _ h

/-! ## 4. `close` -/

theorem closeP1_park {r : AReq} {st : CloseSt} {m : MutexSt} {t : Transport} (h0 : t.readWaker = false) :
    (∀ {r1 m1 t1 st1}, closeP1 r st m t = .ok (r1, m1, t1, st1) → t1.readWaker = false) ∧
    (∀ {r' cs' m' t' res}, closeP1 r st m t = .error (r', cs', m', t', res) →
      t'.readWaker = false ∨ (res = .pending ∧ Parked r' t')) := by
  constructor
  all_goals
    intros
    rename_i h
    simp only [closeP1] at h
    repeat' (split at h)
    all_goals first
      | (cases h; exact h0)
      | (have hp := writeablePoll_park ‹_› h0
         cases h
         rcases hp with hp | ⟨hp, hk⟩
         · first | exact hp | exact Or.inl hp
         · first | exact Or.inr ⟨rfl, hk⟩ | cases hp)
      | cases h

theorem closeP2Tail_park {r : AReq} {m : MutexSt} {sp0 : Str.Parser} {resume : Bool} {t : Transport}
    (hinv : resume = true → BParked sp0) :
    (∀ {r2 m2 t2 st2}, closeP2Tail r m (closeBoundary sp0 resume t) = .ok (r2, m2, t2, st2) →
      t.readWaker = false → t2.readWaker = false) ∧
    (∀ {r' cs' m' t' res}, closeP2Tail r m (closeBoundary sp0 resume t) = .error (r', cs', m', t', res) →
      cs' = .inBoundary ∧ (res = .pending → BParked r'.sp) ∧
      (t.readWaker = false → t'.readWaker = false ∨ (res = .pending ∧ t'.input = []))) := by
  cases hb : closeBoundary sp0 resume t with
  | mk sp x =>
    obtain ⟨t1, ores⟩ := x
    obtain ⟨h1, h2⟩ := closeBoundary_park hinv hb
    constructor
    · intro r2 m2 t2 st2 h h0
      cases ores <;> simp only [closeP2Tail] at h <;> cases h
      rcases h2 h0 with h | ⟨h, _⟩
      · exact h
      · cases h
    · intro r' cs' m' t' res h
      cases ores <;> simp only [closeP2Tail] at h <;> cases h
      · refine ⟨rfl, fun _ => h1 rfl, fun h0 => ?_⟩
        rcases h2 h0 with h | ⟨_, h⟩
        · exact Or.inl h
        · exact Or.inr ⟨rfl, h⟩
      · refine ⟨rfl, fun hh => (nomatch hh), fun h0 => ?_⟩
        rcases h2 h0 with h | ⟨h, _⟩
        · exact Or.inl h
        · cases h
      · refine ⟨rfl, fun hh => (nomatch hh), fun h0 => ?_⟩
        rcases h2 h0 with h | ⟨h, _⟩
        · exact Or.inl h
        · cases h

theorem closeP2_park {r : AReq} {m : MutexSt} {t : Transport} {st : CloseSt}
    (hinv : st = .inBoundary → BParked r.sp) :
    (∀ {r2 m2 t2 st2}, closeP2 r m t st = .ok (r2, m2, t2, st2) →
      t.readWaker = false → t2.readWaker = false) ∧
    (∀ {r' cs' m' t' res}, closeP2 r m t st = .error (r', cs', m', t', res) →
      cs' = .inBoundary ∧ (res = .pending → BParked r'.sp) ∧
      (t.readWaker = false → t'.readWaker = false ∨ (res = .pending ∧ t'.input = []))) := by
  cases st with
  | start => rw [closeP2_start]; exact closeP2Tail_park (fun hh => nomatch hh)
  | inBoundary => rw [closeP2_inBoundary]; exact closeP2Tail_park (fun _ => hinv rfl)
  | inWriteable =>
    rw [closeP2_other _ _ _ _ (Or.inr rfl)]
    exact ⟨fun h h0 => by cases h; exact h0, fun h => nomatch h⟩
  | writeOut a b =>
    rw [closeP2_other _ _ _ _ (Or.inl rfl)]
    exact ⟨fun h h0 => by cases h; exact h0, fun h => nomatch h⟩
  | writeEnd a =>
    rw [closeP2_other _ _ _ _ (Or.inl rfl)]
    exact ⟨fun h h0 => by cases h; exact h0, fun h => nomatch h⟩

theorem finishEnd_rw {r : AReq} {rest : Bytes} {m : MutexSt} {t : Transport}
    {r' : AReq} {cs' : CloseSt} {m' : MutexSt} {t' : Transport} {res : CRes}
    (h : closePoll.finishEnd r rest m t = (r', cs', m', t', res)) :
    t'.readWaker = t.readWaker ∧ cs'.late = true := by
  simp only [closePoll.finishEnd] at h
  repeat' (split at h)
  all_goals (cases h; exact ⟨writeAllLoop_rw _ _ _ ‹_›, rfl⟩)

theorem closeP4_rw {r : AReq} {st : CloseSt} {m : MutexSt} {t : Transport}
    {r' : AReq} {cs' : CloseSt} {m' : MutexSt} {t' : Transport} {res : CRes}
    (h : closeP4 r m t st = (r', cs', m', t', res)) (hl : st.late = true) :
    t'.readWaker = t.readWaker ∧ cs'.late = true := by
  cases st with
  | start => cases hl
  | inWriteable => cases hl
  | inBoundary => cases hl
  | writeEnd rest => simp only [closeP4] at h; exact finishEnd_rw h
  | writeOut rest endreq =>
    simp only [closeP4] at h
    repeat' (split at h)
    all_goals first
      | (cases h; exact ⟨writeAllLoop_rw _ _ _ ‹_›, rfl⟩)
      | (obtain ⟨h1, h2⟩ := finishEnd_rw h
         exact ⟨h1.trans (writeAllLoop_rw _ _ _ ‹_›), h2⟩)

theorem closeFrom3_rw {r : AReq} {m : MutexSt} {t : Transport} {status : ExitStatus} {alive : Nat}
    {r' : AReq} {cs' : CloseSt} {m' : MutexSt} {t' : Transport} {res : CRes}
    (h : closeFrom3 r m t status alive = (r', cs', m', t', res)) :
    t'.readWaker = t.readWaker ∧ (res = .pending → cs'.late = true) := by
  unfold closeFrom3 at h
  rw [closeP3_start] at h
  by_cases ha : alive > 0
  · simp only [ha, if_true] at h
    cases h; exact ⟨rfl, fun hh => nomatch hh⟩
  · simp only [ha, if_false] at h
    obtain ⟨h1, h2⟩ := closeP4_rw h rfl
    exact ⟨h1, fun _ => h2⟩

/-- One poll of `close`, as far as C08 is concerned.  `Pending` in `inBoundary` leaves a `BParked`
parser; the waker is parked only by a `Pending` in `inWriteable` (with the `poll_input` guarantees)
or in `inBoundary`. -/
theorem closePoll_park {r : AReq} {st : CloseSt} {status : ExitStatus} {alive : Nat} {m : MutexSt}
    {t : Transport} {r' : AReq} {cs' : CloseSt} {m' : MutexSt} {t' : Transport} {res : CRes}
    (h : closePoll r st status alive m t = (r', cs', m', t', res))
    (hinv : st = .inBoundary → BParked r.sp) :
    (res = .pending → cs' = .inBoundary → BParked r'.sp) ∧
    (t.readWaker = false → t'.readWaker = false ∨
      (res = .pending ∧ t'.input = [] ∧
        ((cs' = .inWriteable ∧ Parked r' t') ∨ (cs' = .inBoundary ∧ BParked r'.sp)))) := by
  rcases closePoll_cases h with ⟨_, h1⟩ | ⟨_, r1, m1, t1, st1, h1, h2⟩ |
      ⟨_, r1, m1, t1, st1, r2, m2, t2, h1, h2, _, h3⟩ | ⟨hl, h4⟩
  · obtain ⟨hcs, _⟩ := closeP1_error h1
    subst hcs
    refine ⟨fun _ hh => (nomatch hh), fun h0 => ?_⟩
    rcases (closeP1_park h0).2 h1 with hp | ⟨hp, hk⟩
    · exact Or.inl hp
    · exact Or.inr ⟨hp, hk.drained, Or.inl ⟨rfl, hk⟩⟩
  · have hinv1 : st1 = .inBoundary → BParked r1.sp := by
      intro hs
      rcases (closeP1_ok h1).2 with ⟨_, h⟩ | ⟨_, h, hr, _⟩
      · rw [h] at hs; cases hs
      · rw [hr]; exact hinv (h ▸ hs)
    obtain ⟨hcs, hb, hp⟩ := (closeP2_park hinv1).2 h2
    subst hcs
    refine ⟨fun hr _ => hb hr, fun h0 => ?_⟩
    rcases hp ((closeP1_park h0).1 h1) with hp | ⟨hp, hin⟩
    · exact Or.inl hp
    · exact Or.inr ⟨hp, hin, Or.inr ⟨rfl, hb hp⟩⟩
  · have hinv1 : st1 = .inBoundary → BParked r1.sp := by
      intro hs
      rcases (closeP1_ok h1).2 with ⟨_, h⟩ | ⟨_, h, hr, _⟩
      · rw [h] at hs; cases hs
      · rw [hr]; exact hinv (h ▸ hs)
    obtain ⟨hrw, hlate⟩ := closeFrom3_rw h3
    refine ⟨fun hr hc => ?_, fun h0 => Or.inl ?_⟩
    · have := hlate hr; rw [hc] at this; cases this
    · rw [hrw]; exact (closeP2_park hinv1).1 h2 ((closeP1_park h0).1 h1)
  · obtain ⟨hrw, hlate⟩ := closeP4_rw h4 hl
    refine ⟨fun _ hc => ?_, fun h0 => Or.inl (hrw.trans h0)⟩
    rw [hc] at hlate; cases hlate

/-! ## 5. The handler interpreter -/

/-- the script operations that reach `poll_input` (all others never call `Transport.read`) -/
def isReadOp : HOp → Bool
  | .read _ | .readAll | .fill | .writeable => true
  | _ => false

theorem noPark {t' : Transport} {P Q : Prop} (h : t'.readWaker = false ∨ (P ∧ Q)) (hne : ¬ P) :
    t'.readWaker = false := by
  rcases h with h | ⟨h, _⟩
  · exact h
  · exact absurd h hne

macro "hp_rw" h0:ident : tactic => `(tactic| first
  | exact $h0
  | (have h1 := pollWrite_rw ‹_›; exact h1.trans $h0)
  | (have h1 := pollFlush_rw ‹_›; exact h1.trans $h0)
  | (have h1 := pollInput_park ‹_› $h0; exact noPark h1 nofun)
  | (have h1 := writeablePoll_park ‹_› $h0; exact noPark h1 nofun))

/-- One poll of the handler: the waker is parked only by a `Pending` of a reading operation (which
stays at the head of the script), with the `poll_input` guarantees. -/
theorem handlerPoll_park : ∀ (fuel : Nat) (r : AReq) (h : HState) (e : Env)
    {r' : AReq} {h' : HState} {e' : Env} {res : HRes},
    handlerPoll fuel r h e = (r', h', e', res) → e.tr.readWaker = false →
    e'.tr.readWaker = false ∨
      (res = .pending ∧ Parked r' e'.tr ∧ ∃ op rest, h'.ops = op :: rest ∧ isReadOp op = true) := by
  intro fuel
  induction fuel with
  | zero => intro r h e r' h' e' res hh h0; simp only [handlerPoll] at hh; cases hh; exact Or.inl h0
  | succ n ih =>
    intro r h e r' h' e' res hh h0
    simp only [handlerPoll] at hh
    rcases hops : h.ops with _ | ⟨op, rest⟩
    · simp only [hops] at hh; cases hh; exact Or.inl h0
    · simp only [hops] at hh
      repeat' (split at hh)
      all_goals first
        | (cases hh
           first
            | (have hpi := pollInput_park ‹_› h0
               rcases hpi with hp | ⟨_, hk⟩
               · exact Or.inl hp
               · first | exact Or.inr ⟨rfl, hk, _, _, hops, rfl⟩ | exact Or.inr ⟨rfl, hk, _, _, rfl, rfl⟩)
            | (have hpi := writeablePoll_park ‹_› h0
               rcases hpi with hp | ⟨_, hk⟩
               · exact Or.inl hp
               · first | exact Or.inr ⟨rfl, hk, _, _, hops, rfl⟩ | exact Or.inr ⟨rfl, hk, _, _, rfl, rfl⟩)
            | (apply Or.inl; hp_rw h0))
        | (refine ih _ _ _ hh ?_; hp_rw h0)

/-! ## 6. The request parser between two reads of `parse_request` -/

/-- Re-parsing with no new input is a no-op: `Ok`, not done, no output, same buffer; the state is
unchanged up to the resting-state normalisation of a completely consumed `GetValues` record
(`values c v 0 0` becomes `c.intoState`, which is what the next call would do first anyway). -/
def RpSettled (rp : Req.Parser) : Prop :=
  ∃ rp', rp.parse [] = (rp', some { done := false, output := [] }) ∧
    rp'.input = rp.input ∧ rp'.cap = rp.cap ∧ rp'.maxConns = rp.maxConns ∧
    (rp'.state = rp.state ∨
      (rp.input = [] ∧ ∃ c v, rp.state = .values c v 0 0 ∧ rp'.state = c.intoState))

theorem parse_nil_of_run (q : Req.Parser) (hp : (run q.state q.input q.maxConns).panic = none)
    (hlen : q.input.length ≤ q.cap)
    (hrem : (run q.state q.input q.maxConns).rem.length ≤ q.input.length)
    (hns : (!(run q.state q.input q.maxConns).st.isFinal &&
      (run q.state q.input q.maxConns).rem.length == q.cap) = false) :
    q.parse [] = ({ q with input := (run q.state q.input q.maxConns).rem,
                           state := (run q.state q.input q.maxConns).st },
      some { done := (run q.state q.input q.maxConns).st.isFinal,
             output := (run q.state q.input q.maxConns).out }) := by
  unfold Req.Parser.parse
  have h1 : ¬ (([] : Bytes).length > q.cap - q.input.length ∨ q.input.length > q.cap) := by
    simp only [List.length_nil]; omega
  simp only [if_neg h1, List.append_nil, hp]
  have h2 : ¬ ((run q.state q.input q.maxConns).rem.length > q.input.length) := by omega
  simp only [if_neg h2, hns, Bool.false_eq_true, if_false]

/-- A successful `parse` leaves a well-formed state, and — unless it reports `done` — a parser for
which re-parsing the buffered leftover is a no-op. -/
theorem parse_settles {rp rp' : Req.Parser} {bs : Bytes} {y : Yield} (hw : WFState rp.state)
    (h : rp.parse bs = (rp', some y)) : WFState rp'.state ∧ (y.done = false → RpSettled rp') := by
  unfold Req.Parser.parse at h
  dsimp only at h
  split at h
  · cases h
  · rename_i hc
    obtain ⟨hpan, hwf, hsuf⟩ := run_ok (rp.input ++ bs) rp.maxConns hw
    have hsn := run_split_nil hw (rp.input ++ bs) rp.maxConns
    have hsl := hsuf.length_le
    generalize run rp.state (rp.input ++ bs) rp.maxConns = R at *
    simp only [hpan] at h
    split at h
    · cases h
    · split at h
      · cases h
        exact ⟨trivial, fun hd => nomatch hd⟩
      · rename_i hstuck
        cases h
        refine ⟨hwf, fun hd => ?_⟩
        have hnf : R.st.isFinal = false := hd
        have hcap : R.rem.length ≠ rp.cap := by
          intro he
          apply hstuck
          simp [hnf, he]
        have hle : R.rem.length ≤ rp.cap := by
          simp only [List.length_append] at hsl hc
          omega
        have hq := parse_nil_of_run { rp with input := R.rem, state := R.st }
        simp only [] at hq
        rcases hsn with hn | ⟨hr, c, v, hs, hn⟩
        · rw [hn] at hq
          simp only [] at hq
          have hq' := hq trivial hle (Nat.le_refl _) (by simp [hnf, hcap])
          rw [hnf] at hq'
          exact ⟨_, hq', rfl, rfl, rfl, Or.inl rfl⟩
        · have hc0 : rp.cap ≠ 0 := by rw [hr] at hcap; simpa using Ne.symm hcap
          have hcnf : c.intoState.isFinal = false := by
            rw [hs] at hwf
            obtain ⟨_, _, _, hdn, _⟩ := hwf
            cases c with
            | hdr => rfl
            | par i => rfl
            | dn r => exact absurd rfl (hdn r)
          rw [hn] at hq
          simp only [] at hq
          have hq' := hq trivial hle (by simp) (by simp [hcnf]; exact Ne.symm hc0)
          rw [hcnf] at hq'
          exact ⟨_, hq', hr.symm, rfl, rfl, Or.inr ⟨hr, c, v, hs, rfl⟩⟩

/-! ## 7. The exact flag discipline of one poll (`woken`, `readWaker`, the mutex)

Every (sub-)call either completes without touching `woken`/`readWaker`, or returns `Pending` for
exactly one of three reasons: a scripted transient `Pending` (sets `woken`, leaves `readWaker`), a
read parked on an empty input (sets `readWaker`, leaves `woken`), or a lock future that found the
mutex taken (touches neither flag; nobody will wake the task).  Unlike section 3 this needs no
hypothesis on the flags before the call, so it also covers a poll started with a stale `readWaker`. -/

/-- neither flag was touched -/
def Same (t t' : Transport) : Prop := t'.woken = t.woken ∧ t'.readWaker = t.readWaker

/-- `p`: the call returned `Pending`; `m'`: the mutex afterwards; `P`: what holds when a read parked. -/
def Outcome (t t' : Transport) (m' : MutexSt) (p : Bool) (P : Prop) : Prop :=
  (Same t t' ∧ (p = true → m' ≠ none)) ∨
  (p = true ∧ t'.woken = true ∧ t'.readWaker = t.readWaker) ∨
  (p = true ∧ t'.readWaker = true ∧ t'.woken = t.woken ∧ P)

theorem Same.refl (t : Transport) : Same t t := ⟨rfl, rfl⟩
theorem Same.trans {a b c : Transport} (h1 : Same a b) (h2 : Same b c) : Same a c :=
  ⟨h2.1.trans h1.1, h2.2.trans h1.2⟩

theorem Outcome.idle (t : Transport) (m : MutexSt) (P : Prop) : Outcome t t m false P :=
  Or.inl ⟨Same.refl t, nofun⟩

theorem Outcome.idle' {t t' : Transport} (h : Same t t') (m : MutexSt) (P : Prop) : Outcome t t' m false P :=
  Or.inl ⟨h, nofun⟩

theorem Outcome.blocked (t : Transport) {m : MutexSt} (hm : m ≠ none) (P : Prop) : Outcome t t m true P :=
  Or.inl ⟨Same.refl t, fun _ => hm⟩

theorem Outcome.same {t t' : Transport} {m : MutexSt} {P : Prop} (h : Outcome t t' m false P) : Same t t' := by
  rcases h with ⟨h, _⟩ | ⟨h, _⟩ | ⟨h, _⟩
  · exact h
  · cases h
  · cases h

theorem Outcome.pre {t t1 t2 : Transport} {m : MutexSt} {p : Bool} {P : Prop} (hs : Same t t1)
    (h : Outcome t1 t2 m p P) : Outcome t t2 m p P := by
  rcases h with ⟨h, hm⟩ | ⟨hp, hw, hr⟩ | ⟨hp, hr, hw, hP⟩
  · exact Or.inl ⟨hs.trans h, hm⟩
  · exact Or.inr (Or.inl ⟨hp, hw, hr.trans hs.2⟩)
  · exact Or.inr (Or.inr ⟨hp, hr, hw.trans hs.1, hP⟩)

theorem Outcome.mono {t t' : Transport} {m : MutexSt} {p : Bool} {P Q : Prop} (h : Outcome t t' m p P)
    (f : P → Q) : Outcome t t' m p Q := by
  rcases h with h | h | ⟨hp, hr, hw, hP⟩
  · exact Or.inl h
  · exact Or.inr (Or.inl h)
  · exact Or.inr (Or.inr ⟨hp, hr, hw, f hP⟩)

/-- an outcome that never blames the mutex holds for any mutex -/
theorem Outcome.anyMutex {t t' : Transport} {p : Bool} {P : Prop} (h : Outcome t t' none p P)
    (m : MutexSt) : Outcome t t' m p P := by
  rcases h with ⟨h, hm⟩ | h | h
  · refine Or.inl ⟨h, fun hp => absurd rfl (hm hp)⟩
  · exact Or.inr (Or.inl h)
  · exact Or.inr (Or.inr h)

def pollP {α : Type} : Poll α → Bool | .pending => true | _ => false
def oP : ORes → Bool | .pending => true | _ => false
def iP : IRes → Bool | .pending => true | _ => false
def wP : WRes → Bool | .pending => true | _ => false
def cP : CRes → Bool | .pending => true | _ => false
def hP : HRes → Bool | .pending => true | _ => false
def prP : PRes → Bool | .pending => true | _ => false

/-! ### primitives -/

theorem read_oc {t t' : Transport} {cap : Nat} {res : Poll (Except IoErr Bytes)}
    (h : t.read cap = (t', res)) : Outcome t t' none (pollP res) (t'.input = []) := by
  unfold Transport.read at h
  split at h
  · cases h; exact Outcome.idle _ _ _
  · split at h
    simp only at h
    split at h
    · cases h; exact Or.inr (Or.inl ⟨rfl, rfl, rfl⟩)
    · cases h; exact Outcome.idle' ⟨rfl, rfl⟩ _ _
    · split at h
      · rename_i hie
        have hin : t.input = [] := by simpa using hie
        split at h
        · cases h; exact Or.inr (Or.inr ⟨rfl, rfl, rfl, hin⟩)
        · split at h
          · cases h; exact Outcome.idle' ⟨rfl, rfl⟩ _ _
          · cases h; exact Or.inr (Or.inr ⟨rfl, rfl, rfl, hin⟩)
          · cases h; exact Outcome.idle' ⟨rfl, rfl⟩ _ _
      · cases h; exact Outcome.idle' ⟨rfl, rfl⟩ _ _

theorem writeV_oc (t : Transport) (sl : List Bytes) (tag : String) :
    Outcome t (t.writeV sl tag).1 none (pollP (t.writeV sl tag).2) False := by
  unfold Transport.writeV
  generalize sl.flatten = data
  by_cases hd : data.isEmpty = true
  · simp only [hd, if_true]; exact Outcome.idle' ⟨rfl, rfl⟩ _ _
  · simp only [hd, Bool.false_eq_true, if_false]
    rcases t.wr with _ | ⟨a, rest⟩
    · exact Outcome.idle' ⟨rfl, rfl⟩ _ _
    · cases a
      · exact Outcome.idle' ⟨rfl, rfl⟩ _ _
      · exact Outcome.idle' ⟨rfl, rfl⟩ _ _
      · exact Or.inr (Or.inl ⟨rfl, rfl, rfl⟩)
      · exact Outcome.idle' ⟨rfl, rfl⟩ _ _
      · exact Outcome.idle' ⟨rfl, rfl⟩ _ _

theorem writeV_oc' {t t' : Transport} {sl : List Bytes} {tag : String} {r : Poll (Except IoErr Nat)}
    (h : t.writeV sl tag = (t', r)) : Outcome t t' none (pollP r) False := by
  have := writeV_oc t sl tag; rwa [h] at this

theorem write_oc {t t' : Transport} {buf : Bytes} {r : Poll (Except IoErr Nat)}
    (h : t.write buf = (t', r)) : Outcome t t' none (pollP r) False := by
  unfold Transport.write at h; exact writeV_oc' h

theorem flush_oc {t t' : Transport} {r : Poll (Except IoErr Unit)}
    (h : t.flush = (t', r)) : Outcome t t' none (pollP r) False := by
  unfold Transport.flush at h
  split at h
  simp only at h
  split at h
  · cases h; exact Outcome.idle' ⟨rfl, rfl⟩ _ _
  · cases h; exact Or.inr (Or.inl ⟨rfl, rfl, rfl⟩)
  · cases h; exact Outcome.idle' ⟨rfl, rfl⟩ _ _

/-! ### write-only loops -/

theorem writeAllLoop_oc : ∀ (fuel : Nat) (buf : Bytes) (t : Transport) {rest : Bytes} {t' : Transport} {res : ORes},
    writeAllLoop fuel buf t = (rest, t', res) → Outcome t t' none (oP res) False := by
  intro fuel
  induction fuel with
  | zero => intro buf t rest t' res h; simp only [writeAllLoop] at h; cases h; exact Outcome.idle _ _ _
  | succ n ih =>
    intro buf t rest t' res h
    simp only [writeAllLoop] at h
    split at h
    · cases h; exact Outcome.idle _ _ _
    · split at h
      · cases h; exact write_oc ‹_›
      · cases h; exact write_oc ‹_›
      · cases h; exact write_oc ‹_›
      · exact Outcome.pre (write_oc ‹_›).same (ih _ _ h)

theorem outLoop_oc : ∀ (fuel : Nat) (sp : Str.Parser) (t : Transport) {sp' : Str.Parser} {t' : Transport} {res : ORes},
    outLoop fuel sp t = (sp', t', res) → Outcome t t' none (oP res) False := by
  intro fuel
  induction fuel with
  | zero => intro sp t sp' t' res h; simp only [outLoop] at h; cases h; exact Outcome.idle _ _ _
  | succ n ih =>
    intro sp t sp' t' res h
    simp only [outLoop] at h
    split at h
    · cases h; exact Outcome.idle _ _ _
    · split at h
      · cases h; exact write_oc ‹_›
      · cases h; exact write_oc ‹_›
      · cases h; exact write_oc ‹_›
      · exact Outcome.pre (write_oc ‹_›).same (ih _ _ h)

theorem writeLoop_oc : ∀ (fuel : Nat) (w : Writer) (head buf : Bytes) (t : Transport)
    {w' : Writer} {t' : Transport} {res : WRes},
    writeLoop fuel w head buf t = (w', t', res) → Outcome t t' none (wP res) False := by
  intro fuel
  induction fuel with
  | zero => intro w head buf t w' t' res h; simp only [writeLoop] at h; cases h; exact Outcome.idle _ _ _
  | succ n ih =>
    intro w head buf t w' t' res h
    simp only [writeLoop] at h
    split at h
    · cases h; exact Outcome.idle _ _ _
    · split at h
      · cases h; exact Outcome.idle _ _ _
      · split at h
        · cases h; exact writeV_oc' ‹_›
        · cases h; exact writeV_oc' ‹_›
        · cases h; exact writeV_oc' ‹_›
        · split at h
          · cases h; exact Outcome.idle' (writeV_oc' ‹_›).same _ _
          · exact Outcome.pre (writeV_oc' ‹_›).same (ih _ _ _ _ h)

/-! ### the lock futures -/

theorem lockPoll_blocked {l : LockSt} {m : MutexSt} {me : Nat} {l' : LockSt} {m' : MutexSt}
    (h : lockPoll l m me = (l', m', false)) : m' ≠ none := by
  unfold lockPoll at h
  split at h
  · cases h
  · split at h
    · cases h
    · cases h; exact fun hh => nomatch hh

theorem pollWrite_oc {w : Writer} {me : Nat} {buf : Bytes} {m : MutexSt} {t : Transport}
    {w' : Writer} {m' : MutexSt} {t' : Transport} {res : WRes}
    (h : w.pollWrite me buf m t = (w', m', t', res)) : Outcome t t' m' (wP res) False := by
  simp only [Writer.pollWrite] at h
  split at h
  · cases h; exact Outcome.idle _ _ _
  · split at h
    · cases h; exact Outcome.idle _ _ _
    · split at h
      · cases h; exact Outcome.idle _ _ _
      · split at h
        · cases h; exact Outcome.idle _ _ _
        · rename_i w1 _ _ _
          cases hl : lockPoll w1.lock m (me + 1) with
          | mk l x =>
            obtain ⟨m1, got⟩ := x
            rw [hl] at h
            simp only at h
            cases got with
            | false =>
              simp only [Bool.not_false, if_true] at h
              cases h
              exact Outcome.blocked _ (lockPoll_blocked hl) _
            | true =>
              simp only [Bool.not_true, Bool.false_eq_true, if_false] at h
              split at h
              · cases h; exact (writeLoop_oc _ _ _ _ _ ‹_›).anyMutex _
              · cases h; exact (writeLoop_oc _ _ _ _ _ ‹_›).anyMutex _

theorem pollFlush_oc {w : Writer} {me : Nat} {m : MutexSt} {t : Transport}
    {w' : Writer} {m' : MutexSt} {t' : Transport} {res : WRes}
    (h : w.pollFlush me m t = (w', m', t', res)) : Outcome t t' m' (wP res) False := by
  simp only [Writer.pollFlush] at h
  split at h
  · cases h; exact Outcome.idle _ _ _
  · cases hl : lockPoll (if w.lock == .none then LockSt.polling else w.lock) m (me + 1) with
    | mk l x =>
      obtain ⟨m1, got⟩ := x
      rw [hl] at h
      simp only at h
      cases got with
      | false =>
        simp only [Bool.not_false, if_true] at h
        cases h
        exact Outcome.blocked _ (lockPoll_blocked hl) _
      | true =>
        simp only [Bool.not_true, Bool.false_eq_true, if_false] at h
        split at h
        · cases h; exact (flush_oc ‹_›).anyMutex _
        · cases h; exact (flush_oc ‹_›).anyMutex _
        · cases h; exact (flush_oc ‹_›).anyMutex _

theorem pollOutput_oc {r : AReq} {m : MutexSt} {t : Transport}
    {r' : AReq} {m' : MutexSt} {t' : Transport} {res : ORes}
    (h : r.pollOutput m t = (r', m', t', res)) : Outcome t t' m' (oP res) False := by
  simp only [AReq.pollOutput] at h
  split at h
  · split at h
    · cases h; exact Outcome.idle _ _ _
    · cases h; exact Outcome.idle _ _ _
  · cases hl : lockPoll (if r.lock == .none then LockSt.polling else r.lock) m 0 with
    | mk l x =>
      obtain ⟨m1, got⟩ := x
      rw [hl] at h
      simp only at h
      cases got with
      | false =>
        simp only [Bool.not_false, if_true] at h
        cases h
        exact Outcome.blocked _ (lockPoll_blocked hl) _
      | true =>
        simp only [Bool.not_true, Bool.false_eq_true, if_false] at h
        split at h
        · cases h; exact (outLoop_oc _ _ _ ‹_›).anyMutex _
        · cases h; exact (outLoop_oc _ _ _ ‹_›).anyMutex _

/-! ### `poll_input`, `writeable()`, `record_boundary()` -/

theorem inLoop_oc : ∀ (fuel : Nat) (r : AReq) (new : Bytes) (dest : Option Nat) (m : MutexSt) (t : Transport)
    {r' : AReq} {m' : MutexSt} {t' : Transport} {res : IRes},
    inLoop fuel r new dest m t = (r', m', t', res) → dest ≠ some 0 → r.sp.parsed = [] →
    Outcome t t' m' (iP res) (Parked r' t') := by
  intro fuel
  induction fuel with
  | zero =>
    intro r new dest m t r' m' t' res h _ _
    simp only [inLoop] at h; cases h; exact Outcome.idle _ _ _
  | succ k ih =>
    intro r new dest m t r' m' t' res h hd hp
    simp only [inLoop] at h
    cases hparse : r.sp.parse new dest with
    | mk sp pr =>
      rw [hparse] at h
      cases pr with
      | panic s => simp only at h; cases h; exact Outcome.idle _ _ _
      | err e => simp only at h; cases h; exact Outcome.idle _ _ _
      | ok st =>
        simp only at h
        split at h
        · cases h; exact Outcome.idle _ _ _
        · rename_i hc
          have hse : st.streamEnd = false ∧ st.stream = 0 := by
            simp only [Bool.or_eq_true, decide_eq_true_eq, not_or, Bool.not_eq_true] at hc
            exact ⟨hc.1, by omega⟩
          obtain ⟨hshape, hfit, hpar, hact⟩ := parse_ok_facts hparse hd hse.2
          have hrest : Rest sp := by
            rcases hshape with h | ⟨_, _, h⟩
            · exact h
            · rw [hse.1] at h; cases h
          cases hpo : AReq.pollOutput { r with sp := sp.compress } m t with
          | mk r1 x =>
            obtain ⟨m1, t1, ores⟩ := x
            obtain ⟨_, hsp1, _, _, hout1, _⟩ := pollOutput_spec hpo
            have hoc1 := pollOutput_oc hpo
            have hpo' : AReq.pollOutput { sp := sp.compress, lock := r.lock, writeable := r.writeable } m t
                = (r1, m1, t1, ores) := hpo
            rw [hpo'] at h
            cases ores with
            | pending => simp only at h; cases h; exact hoc1.mono (fun hf => nomatch hf)
            | err e => simp only at h; cases h; exact hoc1.mono (fun hf => nomatch hf)
            | panic s => simp only at h; cases h; exact hoc1.mono (fun hf => nomatch hf)
            | ready =>
              simp only at h
              have hs1 : Same t t1 := hoc1.same
              have hq1 : Quiescent r1.sp := by
                rw [hsp1]
                exact Quiescent.frame ⟨hrest, hpar hp, hfit⟩ rfl rfl rfl rfl rfl rfl (compress_fs sp)
              have hact1 : r1.sp.stream ≠ none := by rw [hsp1]; exact hact hse.1
              cases hrd : t1.read r1.sp.free with
              | mk t2 pr =>
                rw [hrd] at h
                have hoc2 := (read_oc hrd).anyMutex m1
                cases pr with
                | pending =>
                  simp only at h; cases h
                  exact Outcome.pre hs1 (hoc2.mono (fun hin => ⟨hout1 rfl, hq1, hact1, hin⟩))
                | ready ex =>
                  have hs2 : Same t t2 := hs1.trans hoc2.same
                  cases ex with
                  | error e => simp only at h; cases h; exact Outcome.idle' hs2 _ _
                  | ok bs =>
                    cases bs with
                    | nil => simp only at h; cases h; exact Outcome.idle' hs2 _ _
                    | cons b bs =>
                      simp only at h
                      exact Outcome.pre hs2 (ih _ _ _ _ _ h hd hq1.parsed)

theorem pollInput_oc {r : AReq} {dest : Option Nat} {m : MutexSt} {t : Transport}
    {r' : AReq} {m' : MutexSt} {t' : Transport} {res : IRes}
    (h : r.pollInput dest m t = (r', m', t', res)) : Outcome t t' m' (iP res) (Parked r' t') := by
  have key : ∀ (hd : dest ≠ some 0) (hp : r.sp.parsed = []),
      (match r.pollOutput m t with
        | (r, m, t, .pending) => (r, m, t, IRes.pending)
        | (r, m, t, .err e) => (r, m, t, .err e)
        | (r, m, t, .panic s) => (r, m, t, .panic s)
        | (r, m, t, .ready) => inLoop (t.input.length + 2) r [] dest m t) = (r', m', t', res) →
      Outcome t t' m' (iP res) (Parked r' t') := by
    intro hd hp h
    cases hpo : r.pollOutput m t with
    | mk r1 x =>
      obtain ⟨m1, t1, ores⟩ := x
      obtain ⟨_, hsp1, _, _, _, _⟩ := pollOutput_spec hpo
      have hoc1 := pollOutput_oc hpo
      rw [hpo] at h
      cases ores with
      | pending => simp only at h; cases h; exact hoc1.mono (fun hf => nomatch hf)
      | err e => simp only at h; cases h; exact hoc1.mono (fun hf => nomatch hf)
      | panic s => simp only at h; cases h; exact hoc1.mono (fun hf => nomatch hf)
      | ready =>
        simp only at h
        exact Outcome.pre hoc1.same (inLoop_oc _ _ _ _ _ _ h hd (by rw [hsp1]; exact hp))
  simp only [AReq.pollInput] at h
  rcases hb : r.sp.parsed with _ | ⟨b, bs⟩
  · cases dest with
    | none =>
      simp only [hb] at h
      exact key (by simp) hb h
    | some n =>
      cases n with
      | zero => simp only [hb] at h; cases h; exact Outcome.idle _ _ _
      | succ n =>
        simp only [hb] at h
        exact key (by simp) hb h
  · cases dest with
    | none => simp only [hb] at h; cases h; exact Outcome.idle _ _ _
    | some n =>
      cases n with
      | zero => simp only [hb] at h; cases h; exact Outcome.idle _ _ _
      | succ n => simp only [hb] at h; cases h; exact Outcome.idle _ _ _

theorem writeablePoll_oc {r : AReq} {started : Bool} {m : MutexSt} {t : Transport}
    {r' : AReq} {b : Bool} {m' : MutexSt} {t' : Transport} {res : ORes}
    (h : r.writeablePoll started m t = (r', b, m', t', res)) : Outcome t t' m' (oP res) (Parked r' t') := by
  simp only [AReq.writeablePoll] at h
  split at h
  · cases h; exact Outcome.idle _ _ _
  · split at h
    · cases h; exact Outcome.idle _ _ _
    · split at h
      all_goals
        have hp := pollInput_oc ‹_›
        cases h
        exact hp

/-- `record_boundary()`: `Pending` only by a transient `Pending` or a parked read. -/
abbrev BOc (t : Transport) (sp' : Str.Parser) (t' : Transport) (res : ORes) : Prop :=
  Outcome t t' none (oP res) (BParked sp' ∧ t'.input = [])

theorem boundaryCont_oc {n : Nat}
    (ih : ∀ (sp : Str.Parser) (new : Bytes) (t : Transport) {sp' : Str.Parser} {t' : Transport} {res : ORes},
      boundaryLoop n sp new t = (sp', t', res) → BOc t sp' t' res)
    {sp : Str.Parser} {t : Transport} {sp' : Str.Parser} {t' : Transport} {res : ORes}
    (hsp : sp.isRecordBoundary = false → sp.parsed = [] → Rest sp ∧ sp.freeStart ≤ sp.cap)
    (h : boundaryLoop.cont sp t n = (sp', t', res)) : BOc t sp' t' res := by
  simp only [boundaryLoop.cont] at h
  split at h
  · cases h; exact Outcome.idle _ _ _
  · rename_i hnb
    split at h
    · cases h; exact Outcome.idle _ _ _
    · rename_i hpe
      have hb : sp.isRecordBoundary = false := by simpa using hnb
      have hp : sp.parsed = [] := by simpa using hpe
      obtain ⟨hrest, hfit⟩ := hsp hb hp
      have hq : BParked sp.compress :=
        ⟨hb, Quiescent.frame ⟨hrest, hp, hfit⟩ rfl rfl rfl rfl rfl rfl (compress_fs sp)⟩
      cases hrd : t.read sp.compress.free with
      | mk t2 pr =>
        rw [hrd] at h
        have hoc := read_oc hrd
        cases pr with
        | pending => simp only at h; cases h; exact hoc.mono (fun hin => ⟨hq, hin⟩)
        | ready ex =>
          cases ex with
          | error e => simp only at h; cases h; exact Outcome.idle' hoc.same _ _
          | ok bs =>
            cases bs with
            | nil => simp only at h; cases h; exact Outcome.idle' hoc.same _ _
            | cons b bs =>
              simp only at h
              exact Outcome.pre hoc.same (ih _ _ _ h)

theorem boundaryLoop_oc : ∀ (fuel : Nat) (sp : Str.Parser) (new : Bytes) (t : Transport)
    {sp' : Str.Parser} {t' : Transport} {res : ORes},
    boundaryLoop fuel sp new t = (sp', t', res) → BOc t sp' t' res := by
  intro fuel
  induction fuel with
  | zero =>
    intro sp new t sp' t' res h; simp only [boundaryLoop] at h; cases h
    exact Outcome.idle _ _ _
  | succ n ih =>
    intro sp new t sp' t' res h
    simp only [boundaryLoop] at h
    cases hparse : sp.parse new none with
    | mk sp1 pr =>
      rw [hparse] at h
      cases pr with
      | panic s => simp only at h; cases h; exact Outcome.idle _ _ _
      | err e =>
        simp only at h
        split at h
        · refine boundaryCont_oc ih (fun hb _ => ?_) h
          rw [parse_err_boundary hparse] at hb; cases hb
        · cases h; exact Outcome.idle _ _ _
      | ok st =>
        simp only at h
        refine boundaryCont_oc ih (fun hb hp => ?_) h
        obtain ⟨hshape, hfit, -, -⟩ := parse_ok_facts hparse (by simp) (parse_none_stream hparse hp)
        refine ⟨?_, hfit⟩
        rcases hshape with h | ⟨h1, h2, -⟩
        · exact h
        · simp [Str.Parser.isRecordBoundary, h1, h2] at hb

theorem closeBoundary_oc {sp : Str.Parser} {resume : Bool} {t : Transport}
    {sp' : Str.Parser} {t' : Transport} {res : ORes}
    (hinv : resume = true → BParked sp)
    (h : closeBoundary sp resume t = (sp', t', res)) : BOc t sp' t' res := by
  simp only [closeBoundary] at h
  split at h
  · rename_i hres
    cases hrd : t.read sp.free with
    | mk t2 pr =>
      rw [hrd] at h
      have hoc := read_oc hrd
      cases pr with
      | pending => simp only at h; cases h; exact hoc.mono (fun hin => ⟨hinv hres, hin⟩)
      | ready ex =>
        cases ex with
        | error e => simp only at h; cases h; exact Outcome.idle' hoc.same _ _
        | ok bs =>
          cases bs with
          | nil => simp only at h; cases h; exact Outcome.idle' hoc.same _ _
          | cons b bs =>
            simp only at h
            exact Outcome.pre hoc.same (boundaryLoop_oc _ _ _ _ h)
  · split at h
    · cases h; exact Outcome.idle _ _ _
    · exact boundaryLoop_oc _ _ _ _ h

/-! ### `close` -/

theorem closeP1_oc {r : AReq} {st : CloseSt} {m : MutexSt} {t : Transport} :
    (∀ {r1 m1 t1 st1}, closeP1 r st m t = .ok (r1, m1, t1, st1) → Same t t1) ∧
    (∀ {r' cs' m' t' res}, closeP1 r st m t = .error (r', cs', m', t', res) →
      Outcome t t' m' (cP res) (cs' = .inWriteable ∧ Parked r' t')) := by
  constructor
  all_goals
    intros
    rename_i h
    simp only [closeP1] at h
    repeat' (split at h)
    all_goals first
      | (cases h; exact Same.refl _)
      | (have hp := writeablePoll_oc ‹_›
         cases h
         first
          | exact hp.same
          | exact hp.mono (fun hk => ⟨rfl, hk⟩))
      | cases h

theorem closeP2Tail_oc {r : AReq} {m : MutexSt} {sp0 : Str.Parser} {resume : Bool} {t : Transport}
    (hinv : resume = true → BParked sp0) :
    (∀ {r2 m2 t2 st2}, closeP2Tail r m (closeBoundary sp0 resume t) = .ok (r2, m2, t2, st2) → Same t t2) ∧
    (∀ {r' cs' m' t' res}, closeP2Tail r m (closeBoundary sp0 resume t) = .error (r', cs', m', t', res) →
      Outcome t t' m' (cP res) (cs' = .inBoundary ∧ BParked r'.sp ∧ t'.input = [])) := by
  cases hb : closeBoundary sp0 resume t with
  | mk sp x =>
    obtain ⟨t1, ores⟩ := x
    have hoc := (closeBoundary_oc hinv hb).anyMutex m
    constructor
    · intro r2 m2 t2 st2 h
      cases ores <;> simp only [closeP2Tail] at h <;> cases h
      exact hoc.same
    · intro r' cs' m' t' res h
      cases ores <;> simp only [closeP2Tail] at h <;> cases h
      · exact hoc.mono (fun hk => ⟨rfl, hk⟩)
      · exact hoc.mono (fun hk => ⟨rfl, hk⟩)
      · exact hoc.mono (fun hk => ⟨rfl, hk⟩)

theorem closeP2_oc {r : AReq} {m : MutexSt} {t : Transport} {st : CloseSt}
    (hinv : st = .inBoundary → BParked r.sp) :
    (∀ {r2 m2 t2 st2}, closeP2 r m t st = .ok (r2, m2, t2, st2) → Same t t2) ∧
    (∀ {r' cs' m' t' res}, closeP2 r m t st = .error (r', cs', m', t', res) →
      Outcome t t' m' (cP res) (cs' = .inBoundary ∧ BParked r'.sp ∧ t'.input = [])) := by
  cases st with
  | start => rw [closeP2_start]; exact closeP2Tail_oc (fun hh => nomatch hh)
  | inBoundary => rw [closeP2_inBoundary]; exact closeP2Tail_oc (fun _ => hinv rfl)
  | inWriteable =>
    rw [closeP2_other _ _ _ _ (Or.inr rfl)]
    exact ⟨fun h => by cases h; exact Same.refl _, fun h => nomatch h⟩
  | writeOut a b =>
    rw [closeP2_other _ _ _ _ (Or.inl rfl)]
    exact ⟨fun h => by cases h; exact Same.refl _, fun h => nomatch h⟩
  | writeEnd a =>
    rw [closeP2_other _ _ _ _ (Or.inl rfl)]
    exact ⟨fun h => by cases h; exact Same.refl _, fun h => nomatch h⟩

theorem finishEnd_oc {r : AReq} {rest : Bytes} {m : MutexSt} {t : Transport}
    {r' : AReq} {cs' : CloseSt} {m' : MutexSt} {t' : Transport} {res : CRes}
    (h : closePoll.finishEnd r rest m t = (r', cs', m', t', res)) : Outcome t t' m' (cP res) False := by
  simp only [closePoll.finishEnd] at h
  repeat' (split at h)
  all_goals first
    | (cases h; exact (writeAllLoop_oc _ _ _ ‹_›).anyMutex _)
    | (cases h; exact Outcome.idle' (writeAllLoop_oc _ _ _ ‹_›).same _ _)

theorem closeP4_oc {r : AReq} {st : CloseSt} {m : MutexSt} {t : Transport}
    {r' : AReq} {cs' : CloseSt} {m' : MutexSt} {t' : Transport} {res : CRes}
    (h : closeP4 r m t st = (r', cs', m', t', res)) : Outcome t t' m' (cP res) False := by
  simp only [closeP4] at h
  repeat' (split at h)
  all_goals first
    | (cases h; exact (writeAllLoop_oc _ _ _ ‹_›).anyMutex _)
    | (cases h; exact Outcome.idle _ _ _)
    | exact Outcome.pre (writeAllLoop_oc _ _ _ ‹_›).same (finishEnd_oc h)
    | exact finishEnd_oc h

theorem closeFrom3_oc {r : AReq} {m : MutexSt} {t : Transport} {status : ExitStatus} {alive : Nat}
    {r' : AReq} {cs' : CloseSt} {m' : MutexSt} {t' : Transport} {res : CRes}
    (h : closeFrom3 r m t status alive = (r', cs', m', t', res)) : Outcome t t' m' (cP res) False := by
  unfold closeFrom3 at h
  rw [closeP3_start] at h
  by_cases ha : alive > 0
  · simp only [ha, if_true] at h
    cases h; exact Outcome.idle _ _ _
  · simp only [ha, if_false] at h
    exact closeP4_oc h

/-- what holds when `close` has parked on a read -/
def CloseParked (r' : AReq) (cs' : CloseSt) (t' : Transport) : Prop :=
  t'.input = [] ∧ ((cs' = .inWriteable ∧ Parked r' t') ∨ (cs' = .inBoundary ∧ BParked r'.sp))

theorem closePoll_oc {r : AReq} {st : CloseSt} {status : ExitStatus} {alive : Nat} {m : MutexSt}
    {t : Transport} {r' : AReq} {cs' : CloseSt} {m' : MutexSt} {t' : Transport} {res : CRes}
    (h : closePoll r st status alive m t = (r', cs', m', t', res))
    (hinv : st = .inBoundary → BParked r.sp) :
    Outcome t t' m' (cP res) (CloseParked r' cs' t') := by
  rcases closePoll_cases h with ⟨_, h1⟩ | ⟨_, r1, m1, t1, st1, h1, h2⟩ |
      ⟨_, r1, m1, t1, st1, r2, m2, t2, h1, h2, _, h3⟩ | ⟨hl, h4⟩
  · exact (closeP1_oc.2 h1).mono (fun ⟨hc, hk⟩ => ⟨hk.drained, Or.inl ⟨hc, hk⟩⟩)
  · have hinv1 : st1 = .inBoundary → BParked r1.sp := by
      intro hs
      rcases (closeP1_ok h1).2 with ⟨_, h⟩ | ⟨_, h, hr, _⟩
      · rw [h] at hs; cases hs
      · rw [hr]; exact hinv (h ▸ hs)
    exact Outcome.pre (closeP1_oc.1 h1)
      (((closeP2_oc hinv1).2 h2).mono (fun ⟨hc, hb, hin⟩ => ⟨hin, Or.inr ⟨hc, hb⟩⟩))
  · have hinv1 : st1 = .inBoundary → BParked r1.sp := by
      intro hs
      rcases (closeP1_ok h1).2 with ⟨_, h⟩ | ⟨_, h, hr, _⟩
      · rw [h] at hs; cases hs
      · rw [hr]; exact hinv (h ▸ hs)
    exact Outcome.pre ((closeP1_oc.1 h1).trans ((closeP2_oc hinv1).1 h2))
      ((closeFrom3_oc h3).mono (fun hf => nomatch hf))
  · exact (closeP4_oc h4).mono (fun hf => nomatch hf)

/-! ### the handler interpreter -/

/-- what holds when the handler has parked on a read -/
def HandlerParked (r' : AReq) (h' : HState) (t' : Transport) : Prop :=
  Parked r' t' ∧ ∃ op rest, h'.ops = op :: rest ∧ isReadOp op = true

macro "hp_same" : tactic => `(tactic| first
  | exact Same.refl _
  | (have h1 := pollWrite_oc ‹_›; exact h1.same)
  | (have h1 := pollFlush_oc ‹_›; exact h1.same)
  | (have h1 := pollInput_oc ‹_›; exact h1.same)
  | (have h1 := writeablePoll_oc ‹_›; exact h1.same))

theorem handlerPoll_oc : ∀ (fuel : Nat) (r : AReq) (h : HState) (e : Env)
    {r' : AReq} {h' : HState} {e' : Env} {res : HRes},
    handlerPoll fuel r h e = (r', h', e', res) →
    Outcome e.tr e'.tr e'.mutex (hP res) (HandlerParked r' h' e'.tr) := by
  intro fuel
  induction fuel with
  | zero => intro r h e r' h' e' res hh; simp only [handlerPoll] at hh; cases hh; exact Outcome.idle _ _ _
  | succ n ih =>
    intro r h e r' h' e' res hh
    simp only [handlerPoll] at hh
    rcases hops : h.ops with _ | ⟨op, rest⟩
    · simp only [hops] at hh; cases hh; exact Outcome.idle _ _ _
    · simp only [hops] at hh
      repeat' (split at hh)
      all_goals first
        | (cases hh
           first
            | (have hpi := pollInput_oc ‹_›
               first
                | exact hpi.mono (fun hk => ⟨hk, _, _, hops, rfl⟩)
                | exact hpi.mono (fun hk => ⟨hk, _, _, rfl, rfl⟩))
            | (have hpi := writeablePoll_oc ‹_›
               first
                | exact hpi.mono (fun hk => ⟨hk, _, _, hops, rfl⟩)
                | exact hpi.mono (fun hk => ⟨hk, _, _, rfl, rfl⟩))
            | (have hpi := pollWrite_oc ‹_›; exact hpi.mono (fun hf => nomatch hf))
            | (have hpi := pollFlush_oc ‹_›; exact hpi.mono (fun hf => nomatch hf))
            | exact Outcome.idle _ _ _
            | (refine Outcome.idle' ?_ _ _; hp_same))
        | (refine Outcome.pre ?_ (ih _ _ _ hh); hp_same)

/-! ## 8. The peer's release step -/

/-- the first withheld segment (if any) has a gate that is not open on the write log -/
def GateClosed (e : Env) : Prop := ∀ g bs rest, e.segs = (g, bs) :: rest → g.open_ e.tr.wlog = false

theorem release_go_spec : ∀ (fuel : Nat) (e : Env) (any : Bool),
    (Env.release.go fuel e any).1.mutex = e.mutex ∧
    (Env.release.go fuel e any).1.tr.woken = e.tr.woken ∧
    (Env.release.go fuel e any).1.tr.readWaker = e.tr.readWaker ∧
    (any = true → (Env.release.go fuel e any).2 = true) ∧
    ((Env.release.go fuel e any).2 = false → (Env.release.go fuel e any).1 = e) ∧
    (e.segs.length < fuel → GateClosed (Env.release.go fuel e any).1) := by
  intro fuel
  induction fuel with
  | zero =>
    intro e any
    unfold Env.release.go
    exact ⟨rfl, rfl, rfl, id, fun _ => rfl, fun h => absurd h (Nat.not_lt_zero _)⟩
  | succ n ih =>
    intro e any
    obtain ⟨tr, mutex, segs⟩ := e
    cases segs with
    | nil =>
      unfold Env.release.go
      exact ⟨rfl, rfl, rfl, id, fun _ => rfl, fun _ g bs rest h => nomatch h⟩
    | cons p rest =>
      obtain ⟨g, bs⟩ := p
      simp only [Env.release.go]
      split
      · obtain ⟨h1, h2, h3, h4, _, h6⟩ := ih { tr := { tr with input := tr.input ++ bs }, mutex := mutex, segs := rest } true
        refine ⟨h1, h2, h3, fun _ => h4 rfl, fun hf => ?_, fun hl => h6 ?_⟩
        · rw [h4 rfl] at hf; cases hf
        · simp only [List.length_cons] at hl ⊢; omega
      · rename_i hg
        refine ⟨rfl, rfl, rfl, id, fun _ => rfl, fun _ g' bs' rest' h => ?_⟩
        simp only [List.cons.injEq, Prod.mk.injEq] at h
        obtain ⟨⟨rfl, rfl⟩, rfl⟩ := h
        simpa using hg

/-- What `Env.release` does to the parts of the environment the executor looks at. -/
theorem release_spec (e : Env) :
    e.release.1.mutex = e.mutex ∧
    e.release.1.tr.woken = (e.tr.woken || (e.release.2 && e.tr.readWaker)) ∧
    e.release.1.tr.readWaker = (if e.release.2 then false else e.tr.readWaker) ∧
    (e.release.2 = false → e.release.1.tr.input = e.tr.input ∧ e.release.1.segs = e.segs) ∧
    GateClosed e.release.1 := by
  unfold Env.release
  have := release_go_spec (e.segs.length + 1) e false
  generalize Env.release.go (e.segs.length + 1) e false = x at this
  obtain ⟨e', any⟩ := x
  obtain ⟨h1, h2, h3, _, h5, h6⟩ := this
  simp only at h1 h2 h3 h5 h6 ⊢
  refine ⟨h1, by rw [h2, h3], by rw [h3], fun ha => ?_, ?_⟩
  · rw [h5 ha]; exact ⟨rfl, rfl⟩
  · intro g bs rest hs
    exact h6 (Nat.lt_succ_self _) g bs rest hs

theorem prePoll_woken (c : Conn) (n : Nat) (sa : Option Nat) : (prePoll c n sa).env.tr.woken = false := by
  unfold prePoll
  have h : ∀ c0 : Conn,
      (match c0.env.release with
        | (env, _) => ({ c0 with env := ({ env with tr := { env.tr with woken := false } } : Env).ev s!"|{n}" } : Conn)).env.tr.woken
          = false := by
    intro c0
    generalize c0.env.release = x
    obtain ⟨e', any⟩ := x
    rfl
  split
  · exact h _
  · exact h _

end Fcgi.C08Inv
