import Fcgi.Proofs.ReqBasics
import Fcgi.Proofs.ParamsStream
import Fcgi.Proofs.Header
import Fcgi.Props.C17
import Fcgi.Spec.Wire
/-!
# Record-step lemmas for the request parser

One complete record (`Spec.Rec.ser`) at the head of the data is processed by `run` (the
`State::drive` loop) exactly as the record-level specification `Spec/Wire.lean` says.  All lemmas
have the shape

    run st (r.ser ++ rest) mc = pre o (run st' rest mc)

(`pre o res` = `res` with `o` prepended to its output) for *every* `rest`, including `rest = []`:
the states `st'` the lemmas land in are *resting* states (`Resting`: `run st' [] mc` is the
identity result), so the early return of `State::drive` on an empty remainder is covered.
-/
namespace Fcgi.Req
open Fcgi Fcgi.Spec

/-! ## Prepending output, resting states, one loop iteration -/

/-- `res` with `o` prepended to its output. -/
def pre (o : Bytes) (res : Out) : Out := { res with out := o ++ res.out }

@[simp] theorem pre_nil (res : Out) : pre [] res = res := by simp [pre]
@[simp] theorem pre_pre (a b : Bytes) (res : Out) : pre a (pre b res) = pre (a ++ b) res := by
  simp [pre]
@[simp] theorem pre_mk (o rem : Bytes) (st : State) (out : Bytes) (pn : Option String) :
    pre o ⟨rem, st, out, pn⟩ = ⟨rem, st, o ++ out, pn⟩ := rfl

/-- A state in which `State::drive` rests when the input is exhausted: driving it on no data
changes nothing. -/
def Resting (s : State) : Prop := ∀ mc, run s [] mc = ⟨[], s, [], none⟩

theorem resting_header : Resting .header := by
  intro mc
  exact run_brk (st := .header) rfl (by simp [step, headerDrive, tryHead])

theorem resting_done (r : Request) : Resting (.done r) := fun mc => run_final [] mc rfl

theorem resting_fatal (e : PErr) : Resting (.fatal e) := fun mc => run_final [] mc rfl

theorem paramsDrive_zero_rec (i : Inner) (data : Bytes) : paramsDrive i 0 0 data = recPhase i data := by
  simp [paramsDrive_eq, payloadPhase, padPhase]

theorem resting_params (i : Inner) : Resting (.params i 0 0) := by
  intro mc
  exact run_brk (st := .params i 0 0) rfl (by simp [step, paramsDrive_zero_rec, recPhase, tryHead])

theorem resting_intoState (c : Ctx) : Resting c.intoState := by
  cases c with
  | hdr => exact resting_header
  | par i => exact resting_params i
  | dn r => exact resting_done r

/-- One `Continue` of the loop into a resting state (or with data left). -/
theorem run_step {st s : State} {d r o : Bytes} {mc : Nat} (hw : WFState st)
    (h : step st d mc = (.cont r s, o)) (hr : r = [] → Resting s) :
    run st d mc = pre o (run s r mc) := by
  by_cases hr' : r = []
  · subst hr'
    rw [run_cont_empty h, hr rfl mc]; simp
  · exact run_cont hw h hr'

/-- Two states whose next iteration does the same thing behave the same. -/
theorem run_congr_step {st st' : State} {d d' : Bytes} {mc : Nat} (hw : WFState st)
    (hw' : WFState st') (hf : st.isFinal = false) (hf' : st'.isFinal = false)
    (h : step st d mc = step st' d' mc) : run st d mc = run st' d' mc := by
  cases hs : step st' d' mc with
  | mk f o =>
    rw [hs] at h
    cases f with
    | panic s => exact (step_no_panic hw h).elim
    | brk r s => rw [run_brk hf h, run_brk hf' hs]
    | cont r s =>
      by_cases hr : r = []
      · subst hr; rw [run_cont_empty h, run_cont_empty hs]
      · rw [run_cont hw h hr, run_cont hw' hs hr]

/-! ## A.1  Header decode of a serialised record -/

theorem be16_toBe16 {n : Nat} (h : n < 65536) :
    be16 (UInt8.ofNat (n / 256)) (UInt8.ofNat n) = n := by
  simp [be16, UInt8.toNat_ofNat']; omega

theorem ser_append (r : Rec) (rest : Bytes) :
    r.ser ++ rest = 1 :: r.rtype :: UInt8.ofNat (r.id / 256) :: UInt8.ofNat r.id ::
      UInt8.ofNat (r.content.length / 256) :: UInt8.ofNat r.content.length ::
      UInt8.ofNat r.pad.length :: r.reserved :: (r.content ++ (r.pad ++ rest)) := by
  simp [Rec.ser, toBe16]

theorem ser_drop8 (r : Rec) (rest : Bytes) : (r.ser ++ rest).drop 8 = r.content ++ (r.pad ++ rest) := by
  rw [ser_append]; rfl

theorem ser_length (r : Rec) : r.ser.length = 8 + r.content.length + r.pad.length := by
  simp [Rec.ser, toBe16]; omega

theorem serAll_cons (r : Rec) (rs : List Rec) : serAll (r :: rs) = r.ser ++ serAll rs := by
  simp [serAll]

theorem serAll_nil : serAll [] = [] := rfl

/-- **A.1**  `try_head!` on a serialised record: a known type byte decodes to exactly the header
fields sent; an unknown one yields the `UnknownType` reply and the skip state for body+padding. -/
theorem tryHead_ser (ctx : Ctx) (r : Rec) (hr : r.WF) (rest : Bytes) :
    tryHead ctx (r.ser ++ rest) =
      if RT.valid r.rtype.toNat then
        .ok ⟨r.rtype.toNat, r.id, r.content.length, r.pad.length⟩
      else .unknownType (UnknownType.toRecord r.rtype r.id)
        (ctx.intoSkip r.content.length r.pad.length) := by
  obtain ⟨h1, h2, h3⟩ := hr
  rw [ser_append]
  simp only [tryHead, RecordHeader.fromBytes, be16_toBe16 h1, be16_toBe16 h2]
  have hp : (UInt8.ofNat r.pad.length).toNat = r.pad.length := by
    simp [UInt8.toNat_ofNat']; omega
  rw [hp]
  cases hv : RT.valid r.rtype.toNat <;> simp

theorem tryHead_ser_valid (ctx : Ctx) (r : Rec) (hr : r.WF) (rest : Bytes)
    (hv : RT.valid r.rtype.toNat = true) :
    tryHead ctx (r.ser ++ rest) = .ok ⟨r.rtype.toNat, r.id, r.content.length, r.pad.length⟩ := by
  rw [tryHead_ser ctx r hr rest, if_pos hv]

theorem tryHead_ser_invalid (ctx : Ctx) (r : Rec) (hr : r.WF) (rest : Bytes)
    (hv : RT.valid r.rtype.toNat = false) :
    tryHead ctx (r.ser ++ rest) = .unknownType (UnknownType.toRecord r.rtype r.id)
      (ctx.intoSkip r.content.length r.pad.length) := by
  rw [tryHead_ser ctx r hr rest, if_neg (by simp [hv])]

/-! ## A.2  Skipping / answering a record body -/

/-- **A.2** (`skip_record`)  A skip state created for a body of `pay` and a padding of `pad` bytes,
driven on exactly such a body and padding followed by `rest`, produces no output and continues in
the wrapped context's state on `rest`.  Covers `pay = pad = 0` (no skip state is created). -/
theorem run_intoSkip (c : Ctx) (body padb rest : Bytes) (mc : Nat) (hc : CtxOK c)
    (h1 : body.length < 65536) (h2 : padb.length < 256) :
    run (c.intoSkip body.length padb.length) (body ++ (padb ++ rest)) mc = run c.intoState rest mc := by
  unfold Ctx.intoSkip
  split
  · rename_i h0
    simp at h0
    rw [h0.1, h0.2]; rfl
  · rename_i h0
    have h0' : 0 < body.length + padb.length := by
      apply Nat.pos_of_ne_zero
      intro hz
      apply h0
      have a : body.length = 0 := by omega
      have b : padb.length = 0 := by omega
      simp [a, b]
    have hw : WFState (.skip c body.length padb.length) := ⟨by omega, h1, h2, hc⟩
    have hs : step (.skip c body.length padb.length) (body ++ (padb ++ rest)) mc =
        (.cont rest c.intoState, []) := by
      simp only [step, skipDrive, List.length_append]
      rw [if_neg (by omega), if_neg (by omega)]
      rw [← List.append_assoc, List.drop_left' (by simp)]
    rw [run_step hw hs (fun _ => resting_intoState c)]; simp

/-- The reply owed for a management `GetValues` body. -/
def valuesReply (body : Bytes) (mc : Nat) : Bytes :=
  if body.isEmpty then [] else Vars.responseRecord (Vars.extend 0 (NV.all body).1) mc

/-- A fresh `GetValuesState` driven on the whole body and padding: one `GetValuesResult` for the
names in the body (nothing for an empty body), then the wrapped context's state on `rest`. -/
theorem run_values (c : Ctx) (body padb rest : Bytes) (mc : Nat) (hc : CtxOK c)
    (hd : ∀ r, c ≠ .dn r) (h1 : body.length < 65536) (h2 : padb.length < 256) :
    run (.values c 0 body.length padb.length) (body ++ (padb ++ rest)) mc =
      pre (valuesReply body mc) (run c.intoState rest mc) := by
  have hw : WFState (.values c 0 body.length padb.length) := ⟨h1, h2, by omega, hd, hc⟩
  have hst : step (.values c 0 body.length padb.length) (body ++ (padb ++ rest)) mc =
      valuesDrive c 0 body.length padb.length (body ++ (padb ++ rest)) mc := by
    cases c with
    | dn r => exact absurd rfl (hd r)
    | hdr => rfl
    | par i => rfl
  have hs : step (.values c 0 body.length padb.length) (body ++ (padb ++ rest)) mc =
      (.cont rest c.intoState, valuesReply body mc) := by
    rw [hst]
    unfold valuesDrive valuesReply
    by_cases hb : body = []
    · subst hb
      simp
    · have hpos : 0 < body.length := List.length_pos_iff.mpr hb
      have hne : body.isEmpty = false := by cases body <;> simp_all
      simp only [hpos, if_true, List.length_append, hne]
      rw [if_neg (by omega)]
      simp only [List.drop_left', List.length_append]
      rw [if_neg (by omega)]
      have e1 : min (body.length + (padb.length + rest.length)) body.length = body.length := by omega
      simp [e1]
  rw [run_step hw hs (fun _ => resting_intoState c)]

/-- `GetValuesState` with nothing left to read is observationally its continuation (`State::drive`
may return resting in such a state when a body-less, padding-less GetValues record ends the
input exactly; the next call normalises it). -/
theorem run_values_zero (c : Ctx) (vars : Nat) (d : Bytes) (mc : Nat) (hc : CtxOK c)
    (hd : ∀ r, c ≠ .dn r) (hv : vars < 8) :
    run (.values c vars 0 0) d mc = run c.intoState d mc := by
  have hw : WFState (.values c vars 0 0) := ⟨by omega, by omega, hv, hd, hc⟩
  have hs : step (.values c vars 0 0) d mc = (.cont d c.intoState, []) := by
    cases c with
    | dn r => exact absurd rfl (hd r)
    | hdr => simp [step, valuesDrive]
    | par i => simp [step, valuesDrive]
  rw [run_step hw hs (fun _ => resting_intoState c)]; simp

theorem resting_intoSkip_nil (c : Ctx) {body padb rest : Bytes} (h : body ++ (padb ++ rest) = []) :
    Resting (c.intoSkip body.length padb.length) := by
  simp at h
  obtain ⟨rfl, rfl, rfl⟩ := h
  exact resting_intoState c

/-! ## A.3  Idle phase (`HeaderState`) -/

/-- A management `GetValues` record without body and without padding. -/
def EmptyGetValues (r : Rec) : Prop :=
  r.rtype.toNat = RT.getValues ∧ r.id = 0 ∧ r.content = [] ∧ r.pad = []

theorem step_header (d : Bytes) (mc : Nat) : step .header d mc = headerDrive d := rfl

/-- **A.3 (noise)**  While idle, a noise record is answered exactly as the specification owes and
the parser stays idle.  Holds for every `rest`, except that when a body-less, padding-less
management GetValues record is the very last thing in the input the loop returns one
(observationally irrelevant, see `run_values_zero`) iteration early: `header_emptyGetValues_last`. -/
theorem header_noise (r : Rec) (h : IdleNoise r) (rest : Bytes) (mc : Nat)
    (hl : rest ≠ [] ∨ ¬ EmptyGetValues r) :
    run .header (r.ser ++ rest) mc = pre (owed none mc r) (run .header rest mc) := by
  obtain ⟨hwf, hb⟩ := h
  have hwf' := hwf
  obtain ⟨h1, h2, h3⟩ := hwf'
  cases hv : RT.valid r.rtype.toNat with
  | false =>
    have hs : step .header (r.ser ++ rest) mc =
        (.cont (r.content ++ (r.pad ++ rest)) (Ctx.hdr.intoSkip r.content.length r.pad.length),
          UnknownType.toRecord r.rtype r.id) := by
      simp only [step_header, headerDrive, tryHead_ser_invalid .hdr r hwf rest hv, ser_drop8]
    rw [run_step (st := .header) trivial hs (resting_intoSkip_nil _), run_intoSkip Ctx.hdr _ _ _ _ trivial h2 h3]
    simp [owed, hv, Ctx.intoState]
  | true =>
    by_cases ht : r.rtype.toNat = 1
    · -- BeginRequest with an unknown role
      obtain ⟨r0, r1, f, a, b, c, d, e, hc, hrole⟩ := hb ht
      have hs : step .header (r.ser ++ rest) mc =
          (.cont (r.pad ++ rest) (Ctx.hdr.intoSkip 0 r.pad.length),
            EndRequest.toRecord { appStatus := 0, protocolStatus := 3 } r.id) := by
        have hd16 : (r.ser ++ rest).drop 16 = r.pad ++ rest := by
          rw [show 16 = 8 + 8 from rfl, ← List.drop_drop, ser_drop8, hc]; rfl
        have hlen : ¬ (r.ser ++ rest).length < 16 := by
          simp [ser_length, hc]; omega
        simp only [step_header, headerDrive, tryHead_ser_valid .hdr r hwf rest hv, ser_drop8, hd16]
        simp [ht, RT.beginRequest, hc, ser_length, BeginRequest.fromBytes, hrole]
        omega
      have hz : Resting (Ctx.hdr.intoSkip 0 r.pad.length) ∨ r.pad ++ rest ≠ [] := by
        by_cases hp : r.pad ++ rest = []
        · left
          have := resting_intoSkip_nil Ctx.hdr (body := []) (padb := r.pad) (rest := rest) (by simpa using hp)
          simpa using this
        · exact Or.inr hp
      rw [run_step (st := .header) trivial hs (fun hp => hz.resolve_right (fun hn => hn hp))]
      have := run_intoSkip Ctx.hdr [] r.pad rest mc trivial (by simp) h3
      simp only [List.length_nil, List.nil_append] at this
      rw [this]
      simp [owed, RT.valid, ht, RT.getValues, RT.beginRequest, hc, hrole, Ctx.intoState]
    · by_cases hg : r.rtype.toNat = 9 ∧ r.id = 0
      · -- management GetValues
        have hs : step .header (r.ser ++ rest) mc =
            (.cont (r.content ++ (r.pad ++ rest)) (.values .hdr 0 r.content.length r.pad.length), []) := by
          simp only [step_header, headerDrive, tryHead_ser_valid .hdr r hwf rest hv, ser_drop8]
          simp [hg.1, hg.2, RT.beginRequest, RT.getValues, RecordHeader.isManagement, RT.isManagement]
        have hne : r.content ++ (r.pad ++ rest) ≠ [] := by
          intro hx
          simp at hx
          rcases hl with hl | hl
          · exact hl hx.2.2
          · exact hl ⟨hg.1, hg.2, hx.1, hx.2.1⟩
        rw [run_step (st := .header) trivial hs (fun hx => absurd hx hne),
          run_values .hdr _ _ _ mc trivial (by intro r; simp) h2 h3]
        simp [owed, RT.valid, hg.1, hg.2, RT.getValues, valuesReply, Ctx.intoState]
      · -- everything else is skipped silently
        have hs : step .header (r.ser ++ rest) mc =
            (.cont (r.content ++ (r.pad ++ rest)) (Ctx.hdr.intoSkip r.content.length r.pad.length), []) := by
          simp only [step_header, headerDrive, tryHead_ser_valid .hdr r hwf rest hv, ser_drop8]
          by_cases h9 : r.rtype.toNat = 9
          · have hid : r.id ≠ 0 := fun h0 => hg ⟨h9, h0⟩
            simp [h9, hid, RT.beginRequest, RT.getValues, RecordHeader.isManagement]
          · simp [h9, ht, RT.beginRequest, RT.getValues]
        rw [run_step (st := .header) trivial hs (resting_intoSkip_nil _), run_intoSkip Ctx.hdr _ _ _ _ trivial h2 h3]
        have : ¬ (r.rtype.toNat = 9 ∧ r.id = 0) := hg
        simp [owed, hv, ht, RT.getValues, RT.beginRequest, this, Ctx.intoState]

/-- The exceptional case of `header_noise`: the loop returns resting in `HeaderValues{0,0}`. -/
theorem header_emptyGetValues_last (r : Rec) (hwf : r.WF) (h : EmptyGetValues r) (mc : Nat) :
    run .header r.ser mc = ⟨[], .values .hdr 0 0 0, [], none⟩ := by
  obtain ⟨ht, hid, hc, hp⟩ := h
  have hv : RT.valid r.rtype.toNat = true := by rw [ht]; rfl
  have hs : step .header (r.ser ++ []) mc = (.cont [] (.values .hdr 0 0 0), []) := by
    simp only [step_header, headerDrive, tryHead_ser_valid .hdr r hwf [] hv, ser_drop8]
    simp [ht, hid, hc, hp, RT.beginRequest, RT.getValues, RecordHeader.isManagement, RT.isManagement]
  rw [List.append_nil] at hs
  exact run_cont_empty hs

/-! ## Payload and padding of a record inside `ParamsState::drive` -/

/-- Padding phase followed by the record-header phase, on exactly the padding followed by `rest`.
Note the `<=` in the Rust: padding that ends the input exactly returns (`Break`) in `params i 0 0`. -/
theorem padrec (i : Inner) (padb rest : Bytes) :
    (match padPhase i padb.length (padb ++ rest) with
      | .error r => r
      | .ok d' => recPhase i d') =
    if padb ≠ [] ∧ rest = [] then (.brk [] (.params i 0 0), []) else recPhase i rest := by
  unfold padPhase
  by_cases hp : padb = []
  · subst hp; simp
  · have hpos : 0 < padb.length := List.length_pos_iff.mpr hp
    by_cases hr : rest = []
    · subst hr; simp [hp, hpos]
    · have hrpos : 0 < rest.length := List.length_pos_iff.mpr hr
      simp only [hpos, if_true, List.length_append, hp, hr, ne_eq, not_false_eq_true,
        and_false, if_false]
      rw [if_neg (by omega)]
      simp

theorem wf_params_zero {i : Inner} (hi : InnerOK i) : WFState (.params i 0 0) :=
  ⟨by omega, by omega, hi⟩

theorem step_params_eq (i : Inner) (pay pad : Nat) (d : Bytes) (mc : Nat) :
    step (.params i pay pad) d mc = paramsDrive i pay pad d := rfl

/-- If `ParamsState::drive` gets through payload and padding of the current record (ending up with
inner state `i'`) it behaves from there like the resting state `params i' 0 0` on `rest`. -/
theorem run_params_tail {i i' : Inner} {pay pad : Nat} {data padb rest : Bytes} (mc : Nat)
    (hw : WFState (.params i pay pad)) (hi' : InnerOK i')
    (h : paramsDrive i pay pad data =
      if padb ≠ [] ∧ rest = [] then (.brk [] (.params i' 0 0), []) else recPhase i' rest) :
    run (.params i pay pad) data mc = run (.params i' 0 0) rest mc := by
  by_cases hc : padb ≠ [] ∧ rest = []
  · rw [if_pos hc] at h
    rw [run_brk (st := .params i pay pad) rfl (by rw [step_params_eq]; exact h), hc.2,
      resting_params i' mc]
  · rw [if_neg hc] at h
    apply run_congr_step hw (wf_params_zero hi') rfl rfl
    rw [step_params_eq, step_params_eq, paramsDrive_zero_rec]; exact h

/-- Padding left over from the BeginRequest record (or from a Params record). -/
theorem run_params_pad (i : Inner) (padb rest : Bytes) (mc : Nat) (hi : InnerOK i)
    (hp : padb.length < 256) :
    run (.params i 0 padb.length) (padb ++ rest) mc = run (.params i 0 0) rest mc := by
  apply run_params_tail (padb := padb) mc ⟨by omega, hp, hi⟩ hi
  rw [paramsDrive_eq, ← padrec]
  simp only [payloadPhase, gt_iff_lt, Nat.lt_irrefl, if_false]
  cases padPhase i padb.length (padb ++ rest) <;> rfl

/-- Payload (whole, hence `rec_end = true`) and padding of a Params record. -/
theorem run_params_payload (i i' : Inner) (c padb rest : Bytes) (k mc : Nat) (hi : InnerOK i)
    (hc : 0 < c.length ∧ c.length < 65536) (hp : padb.length < 256)
    (hps : parseStream i c true = .ok i' k) :
    k = c.length ∧ InnerOK i' ∧
    run (.params i c.length padb.length) (c ++ (padb ++ rest)) mc = run (.params i' 0 0) rest mc := by
  obtain ⟨i1, n, hps', hok, _, hn⟩ := parseStream_ok i c true
  rw [hps] at hps'
  cases hps'
  have hk := hn rfl
  refine ⟨hk, hok, ?_⟩
  apply run_params_tail (padb := padb) mc ⟨hc.2, hp, hi⟩ hok
  rw [paramsDrive_eq, ← padrec]
  have : payloadPhase i c.length padb.length (c ++ (padb ++ rest)) = .ok (i', padb ++ rest) := by
    unfold payloadPhase
    rw [if_pos hc.1, if_neg (by simp), List.take_left' rfl, hps]
    simp [hk]
  rw [this]
  show (match padPhase i' padb.length (padb ++ rest) with
    | .error r => r
    | .ok d' => recPhase i' d') = _
  cases padPhase i' padb.length (padb ++ rest) <;> rfl

/-- **A.3 (BeginRequest)**  While idle, a BeginRequest record with a known role and a non-null id
starts the request: no output, and (its padding included) the parser rests in `params` with
exactly the id, role and flags sent, an empty environment and an empty side buffer.  The five
reserved body bytes and the reserved header byte are arbitrary. -/
theorem header_begin (id role : Nat) (flags : UInt8) (body5 padb : Bytes) (res : UInt8)
    (rest : Bytes) (mc : Nat) (hid : 0 < id ∧ id < 65536) (hrole : roleValid role = true)
    (hb : body5.length = 5) (hp : padb.length < 256) :
    run .header (Rec.ser { rtype := 1, id := id, content := toBe16 role ++ [flags] ++ body5,
                           pad := padb, reserved := res } ++ rest) mc =
      run (.params { req := Request.new id { role := role, flags := flags }, buffer := [] } 0 0)
        rest mc := by
  have hrole' : 1 ≤ role ∧ role ≤ 3 := by simpa [roleValid] using hrole
  generalize hr : ({ rtype := 1, id := id, content := toBe16 role ++ [flags] ++ body5,
                     pad := padb, reserved := res } : Rec) = r
  have hwf : r.WF := by subst hr; exact ⟨hid.2, by simp [toBe16, hb], hp⟩
  have hv : RT.valid r.rtype.toNat = true := by subst hr; rfl
  match body5, hb with
  | [a, b, c, d, e], _ =>
  have hs : step .header (r.ser ++ rest) mc =
      (.cont (padb ++ rest)
        (.params { req := Request.new id { role := role, flags := flags }, buffer := [] } 0 padb.length),
        []) := by
    have hc : r.content = [UInt8.ofNat (role / 256), UInt8.ofNat role, flags, a, b, c, d, e] := by
      subst hr; simp [toBe16]
    have hd16 : (r.ser ++ rest).drop 16 = r.pad ++ rest := by
      rw [show 16 = 8 + 8 from rfl, ← List.drop_drop, ser_drop8, hc]; rfl
    have hbe : be16 (UInt8.ofNat (role / 256)) (UInt8.ofNat role) = role := be16_toBe16 (by omega)
    simp only [step_header, headerDrive, tryHead_ser_valid .hdr r hwf rest hv, ser_drop8, hd16]
    have hid0 : id ≠ 0 := by omega
    subst hr
    simp [RT.beginRequest, ser_length, toBe16, BeginRequest.fromBytes, hbe, hrole, hid0]
    omega
  rw [run_step (st := .header) trivial hs (fun hx => by
    simp at hx; rw [hx.1]; exact resting_params _)]
  rw [run_params_pad _ _ _ _ (innerOK_nil _) hp]
  simp

/-! ## A.4  Params phase (`ParamsState` between records) -/

theorem step_params_zero (i : Inner) (d : Bytes) (mc : Nat) :
    step (.params i 0 0) d mc = recPhase i d := by rw [step_params_eq, paramsDrive_zero_rec]

/-- **A.4 (noise)**  During the Params stream, a record that does not belong to it is answered
exactly as the specification owes (relative to the request in progress); the request under
construction is untouched.  Same single exception as `header_noise`. -/
theorem params_noise (i : Inner) (hi : InnerOK i) (r : Rec) (h : ParamsNoise i.req.id r)
    (rest : Bytes) (mc : Nat) (hl : rest ≠ [] ∨ ¬ EmptyGetValues r) :
    run (.params i 0 0) (r.ser ++ rest) mc =
      pre (owed (some i.req.id) mc r) (run (.params i 0 0) rest mc) := by
  obtain ⟨hwf, hn⟩ := h
  have hwf' := hwf
  obtain ⟨h1, h2, h3⟩ := hwf'
  have hw := wf_params_zero hi
  cases hv : RT.valid r.rtype.toNat with
  | false =>
    have hs : step (.params i 0 0) (r.ser ++ rest) mc =
        (.cont (r.content ++ (r.pad ++ rest)) ((Ctx.par i).intoSkip r.content.length r.pad.length),
          UnknownType.toRecord r.rtype r.id) := by
      simp only [step_params_zero, recPhase, tryHead_ser_invalid (.par i) r hwf rest hv, ser_drop8]
    rw [run_step hw hs (resting_intoSkip_nil _), run_intoSkip (Ctx.par i) _ _ _ _ hi h2 h3]
    simp [owed, hv, Ctx.intoState]
  | true =>
    have hnp : ¬ (r.rtype.toNat = 4 ∧ r.id = i.req.id) := fun hx => hn ⟨hx.2, Or.inl hx.1⟩
    have hna : ¬ (r.rtype.toNat = 2 ∧ r.id = i.req.id) := fun hx => hn ⟨hx.2, Or.inr hx.1⟩
    have hc1 : (r.rtype.toNat == RT.params && r.id == i.req.id) = false := by
      simp only [RT.params, Bool.and_eq_false_iff, beq_eq_false_iff_ne, ne_eq]
      by_cases h4 : r.rtype.toNat = 4
      · exact Or.inr (fun hx => hnp ⟨h4, hx⟩)
      · exact Or.inl h4
    have hc2 : (r.rtype.toNat == RT.abortRequest && r.id == i.req.id) = false := by
      simp only [RT.abortRequest, Bool.and_eq_false_iff, beq_eq_false_iff_ne, ne_eq]
      by_cases h4 : r.rtype.toNat = 2
      · exact Or.inr (fun hx => hna ⟨h4, hx⟩)
      · exact Or.inl h4
    by_cases hb : r.rtype.toNat = 1 ∧ r.id ≠ i.req.id
    · -- BeginRequest for another id: CantMpxConn
      have hs : step (.params i 0 0) (r.ser ++ rest) mc =
          (.cont (r.content ++ (r.pad ++ rest)) ((Ctx.par i).intoSkip r.content.length r.pad.length),
            EndRequest.toRecord { appStatus := 0, protocolStatus := 1 } r.id) := by
        simp only [step_params_zero, recPhase, tryHead_ser_valid (.par i) r hwf rest hv, ser_drop8]
        simp [hb.1, hb.2, RT.beginRequest, RT.params, RT.abortRequest]
      rw [run_step hw hs (resting_intoSkip_nil _), run_intoSkip (Ctx.par i) _ _ _ _ hi h2 h3]
      simp [owed, RT.valid, hb.1, hb.2, RT.getValues, RT.beginRequest, Ctx.intoState]
    · by_cases hg : r.rtype.toNat = 9 ∧ r.id = 0
      · -- management GetValues
        have hs : step (.params i 0 0) (r.ser ++ rest) mc =
            (.cont (r.content ++ (r.pad ++ rest)) (.values (.par i) 0 r.content.length r.pad.length), []) := by
          simp only [step_params_zero, recPhase, tryHead_ser_valid (.par i) r hwf rest hv, ser_drop8]
          simp [hg.1, hg.2, RT.beginRequest, RT.getValues, RT.params, RT.abortRequest,
            RecordHeader.isManagement, RT.isManagement]
        have hne : r.content ++ (r.pad ++ rest) ≠ [] := by
          intro hx
          simp at hx
          rcases hl with hl | hl
          · exact hl hx.2.2
          · exact hl ⟨hg.1, hg.2, hx.1, hx.2.1⟩
        rw [run_step hw hs (fun hx => absurd hx hne),
          run_values (.par i) _ _ _ mc hi (by intro r; simp) h2 h3]
        simp [owed, RT.valid, hg.1, hg.2, RT.getValues, valuesReply, Ctx.intoState]
      · -- everything else is skipped silently
        have hc3 : (r.rtype.toNat == RT.beginRequest && r.id != i.req.id) = false := by
          simp only [RT.beginRequest, Bool.and_eq_false_iff, beq_eq_false_iff_ne, ne_eq,
            bne_eq_false_iff_eq]
          by_cases h4 : r.rtype.toNat = 1
          · exact Or.inr (Classical.not_not.mp (fun hx => hb ⟨h4, hx⟩))
          · exact Or.inl h4
        have hc4 : (r.rtype.toNat == RT.getValues &&
            RecordHeader.isManagement ⟨r.rtype.toNat, r.id, r.content.length, r.pad.length⟩) = false := by
          by_cases h9 : r.rtype.toNat = 9
          · have hid : r.id ≠ 0 := fun h0 => hg ⟨h9, h0⟩
            simp [h9, hid, RT.getValues, RecordHeader.isManagement]
          · simp [h9, RT.getValues]
        have hs : step (.params i 0 0) (r.ser ++ rest) mc =
            (.cont (r.content ++ (r.pad ++ rest)) ((Ctx.par i).intoSkip r.content.length r.pad.length), []) := by
          simp only [step_params_zero, recPhase, tryHead_ser_valid (.par i) r hwf rest hv, ser_drop8]
          simp only [hc1, hc2, hc3, hc4, Bool.false_eq_true, if_false]
        rw [run_step hw hs (resting_intoSkip_nil _), run_intoSkip (Ctx.par i) _ _ _ _ hi h2 h3]
        have hg' : ¬ (r.rtype.toNat = 9 ∧ r.id = 0) := hg
        by_cases h1' : r.rtype.toNat = 1
        · have hid : r.id = i.req.id := Classical.not_not.mp (fun hx => hb ⟨h1', hx⟩)
          simp [owed, RT.valid, h1', hid, RT.getValues, RT.beginRequest, Ctx.intoState]
        · simp [owed, hv, h1', hg', RT.getValues, RT.beginRequest, Ctx.intoState]

/-- The exceptional case of `params_noise`. -/
theorem params_emptyGetValues_last (i : Inner) (r : Rec) (hwf : r.WF) (h : EmptyGetValues r)
    (mc : Nat) : run (.params i 0 0) r.ser mc = ⟨[], .values (.par i) 0 0 0, [], none⟩ := by
  obtain ⟨ht, hid, hc, hp⟩ := h
  have hv : RT.valid r.rtype.toNat = true := by rw [ht]; rfl
  have hs : step (.params i 0 0) (r.ser ++ []) mc = (.cont [] (.values (.par i) 0 0 0), []) := by
    simp only [step_params_zero, recPhase, tryHead_ser_valid (.par i) r hwf [] hv, ser_drop8]
    simp [ht, hid, hc, hp, RT.beginRequest, RT.getValues, RT.params, RT.abortRequest,
      RecordHeader.isManagement, RT.isManagement]
  rw [List.append_nil] at hs
  exact run_cont_empty hs

/-- **A.4 (Params chunk)**  A Params record of the request with non-empty content `c`: no output;
the parser rests in `params i' 0 0` where `i'` is what `parse_stream(c, rec_end = true)` made of
`i` (all of `c` consumed). -/
theorem params_chunk (i i' : Inner) (hi : InnerOK i) (c padb : Bytes) (res : UInt8) (k : Nat)
    (rest : Bytes) (mc : Nat) (hc : 0 < c.length ∧ c.length < 65536) (hp : padb.length < 256)
    (hid : i.req.id < 65536) (hps : parseStream i c true = .ok i' k) :
    k = c.length ∧ InnerOK i' ∧
    run (.params i 0 0) (Rec.ser { rtype := 4, id := i.req.id, content := c, pad := padb,
                                   reserved := res } ++ rest) mc =
      run (.params i' 0 0) rest mc := by
  obtain ⟨hk, hok, hrun⟩ := run_params_payload i i' c padb rest k mc hi hc hp hps
  refine ⟨hk, hok, ?_⟩
  generalize hr : ({ rtype := 4, id := i.req.id, content := c, pad := padb, reserved := res } : Rec) = r
  have hwf : r.WF := by subst hr; exact ⟨hid, hc.2, hp⟩
  have hv : RT.valid r.rtype.toNat = true := by subst hr; rfl
  have hs : step (.params i 0 0) (r.ser ++ rest) mc =
      (.cont (c ++ (padb ++ rest)) (.params i c.length padb.length), []) := by
    simp only [step_params_zero, recPhase, tryHead_ser_valid (.par i) r hwf rest hv, ser_drop8]
    subst hr
    have : c.length ≠ 0 := by omega
    simp [RT.params, this]
  rw [run_step (wf_params_zero hi) hs (fun hx => by simp at hx; rw [hx.1] at hc; simp at hc), hrun]
  simp

/-- **A.4 (end of Params)**  The empty Params record of the request completes it: no output, the
padding is consumed, the loop stops in `done` holding the request, the remainder is `rest`. -/
theorem params_done (i : Inner) (hi : InnerOK i) (padb : Bytes) (res : UInt8) (rest : Bytes)
    (mc : Nat) (hp : padb.length < 256) (hid : i.req.id < 65536) :
    run (.params i 0 0) (Rec.ser { rtype := 4, id := i.req.id, content := [], pad := padb,
                                   reserved := res } ++ rest) mc =
      ⟨rest, .done i.req, [], none⟩ := by
  generalize hr : ({ rtype := 4, id := i.req.id, content := [], pad := padb, reserved := res } : Rec) = r
  have hwf : r.WF := by subst hr; exact ⟨hid, by simp, hp⟩
  have hv : RT.valid r.rtype.toNat = true := by subst hr; rfl
  have hs : step (.params i 0 0) (r.ser ++ rest) mc =
      (.cont (padb ++ rest) ((Ctx.dn i.req).intoSkip 0 padb.length), []) := by
    simp only [step_params_zero, recPhase, tryHead_ser_valid (.par i) r hwf rest hv, ser_drop8]
    subst hr
    simp [RT.params]
  have hrest := resting_intoSkip_nil (Ctx.dn i.req) (body := []) (padb := padb) (rest := rest)
  have hsk := run_intoSkip (Ctx.dn i.req) [] padb rest mc trivial (by simp) hp
  simp only [List.length_nil, List.nil_append] at hrest hsk
  rw [run_step (wf_params_zero hi) hs hrest, hsk]
  exact run_final rest mc rfl

/-- **AbortRequest during Params**  An AbortRequest record carrying the request's id (any content,
any padding): exactly one `EndRequest(RequestComplete, app_status 0)` for that id, body and padding
skipped, and the parser is idle again on `rest` — the request is dropped, no `done`. -/
theorem params_abort (i : Inner) (hi : InnerOK i) (c padb : Bytes) (res : UInt8) (rest : Bytes)
    (mc : Nat) (hc : c.length < 65536) (hp : padb.length < 256) (hid : i.req.id < 65536) :
    run (.params i 0 0) (Rec.ser { rtype := 2, id := i.req.id, content := c, pad := padb,
                                   reserved := res } ++ rest) mc =
      pre (EndRequest.toRecord { appStatus := 0, protocolStatus := 0 } i.req.id)
        (run .header rest mc) := by
  generalize hr : ({ rtype := 2, id := i.req.id, content := c, pad := padb, reserved := res } : Rec) = r
  have hwf : r.WF := by subst hr; exact ⟨hid, hc, hp⟩
  have hv : RT.valid r.rtype.toNat = true := by subst hr; rfl
  have hs : step (.params i 0 0) (r.ser ++ rest) mc =
      (.cont (c ++ (padb ++ rest)) (Ctx.hdr.intoSkip c.length padb.length),
        EndRequest.toRecord { appStatus := 0, protocolStatus := 0 } i.req.id) := by
    simp only [step_params_zero, recPhase, tryHead_ser_valid (.par i) r hwf rest hv, ser_drop8]
    subst hr
    simp [RT.params, RT.abortRequest]
  rw [run_step (wf_params_zero hi) hs (resting_intoSkip_nil _),
    run_intoSkip Ctx.hdr _ _ _ _ trivial hc hp]
  rfl

end Fcgi.Req
