import Fcgi.Proofs.E2EAuthEof
import Fcgi.Proofs.E2ETrunc2ErrRun

/-!
# C12 — an Authorizer's `close()` on a cut tail when the transport FAILS instead of ending

`E2EAuthEof` for a transport in `err` mode (`BenE`, `endMode = .err`): it delivers what it has and
answers the next read with its read error `rdErr` (`ConnectionAborted` if `abortKind`, else
`TransportRead`).  `record_boundary()` then fails with exactly that error (never `UnexpectedEof`);
the rest is as for end-of-file: `close()` returns it before its phases 3/4 — nothing written —, the
task ends `finished`, `RET`.
-/
namespace Fcgi.C12E
open Fcgi Fcgi.Req Fcgi.Str Fcgi.Async Fcgi.Run Fcgi.Spec Fcgi.E2E

/-- what `record_boundary()` can end in on a cut wire -/
def BResR (sp' : Str.Parser) (t t' : Transport) (lost : Bytes) (cap : Nat) (res : ORes) : Prop :=
  (res = .ready ∧ sp'.isRecordBoundary = true) ∨
  (res = .pending ∧ t'.woken = true ∧ ans t' < ans t ∧ sp'.isRecordBoundary = false ∧
      sp'.raw.length < cap ∧ sp'.g0 = 0 ∧ sp'.g1 = 0 ∧ t'.input ++ lost ≠ []) ∨
  (res = .err t'.rdErr ∧ t'.input = [] ∧ lost ≠ [] ∧ sp'.isRecordBoundary = false ∧
      sp'.raw.length < cap)

theorem bloop_simR {id mc cap : Nat} {R : List Rec} (hc : R2Ctx id mc cap R) (lost : Bytes) :
    ∀ (fuel : Nat) (sp : Str.Parser)
    (new : Bytes) (t : Transport) {G dO : Bytes} {sp' : Str.Parser} {t' : Transport} {res : ORes},
    BenE t → t.endMode = .err → R2 id mc cap R sp G (new ++ (t.input ++ lost)) dO → new.length ≤ sp.free →
    t.input.length + 2 ≤ fuel →
    boundaryLoop fuel sp new t = (sp', t', res) →
    TStep t t' ∧ t'.wlog = t.wlog ∧ BEndT id mc cap R sp sp' dO t' lost ∧ BResR sp' t t' lost cap res := by
  intro fuel
  induction fuel with
  | zero => intro sp new t G dO sp' t' res _ _ _ _ hf; omega
  | succ k ih =>
    intro sp new t G dO sp' t' res hb hem hi hfree hf h
    obtain ⟨p1, st, o, hp, ho, hreq, hmc, hi1, hstall⟩ := parse_r2 hc hi hfree
    simp only [boundaryLoop, hp] at h
    by_cases hbd : p1.isRecordBoundary = true
    · simp only [boundaryLoop.cont, hbd, if_true] at h
      cases h
      exact ⟨.refl _, rfl, ⟨⟨o, _, ho, hi1⟩, hreq, hmc⟩, Or.inl ⟨rfl, hbd⟩⟩
    · have hbd' : p1.isRecordBoundary = false := by simpa using hbd
      obtain ⟨hraw, hne⟩ := hstall hbd'
      have hpe : p1.parsed.isEmpty = true := by rw [hi1.par]; rfl
      simp only [boundaryLoop.cont, hbd', Bool.false_eq_true, if_false, hpe, Bool.not_true] at h
      have hi2 := hi1.compress
      have hfreec : p1.compress.free = cap - p1.raw.length := by
        simp [Str.Parser.free, Str.Parser.freeStart, Str.Parser.compress, hi1.par, hi1.capK]
      have hfp : 0 < p1.compress.free := by rw [hfreec]; omega
      have hcraw : p1.compress.raw.length < cap := by
        simpa [Str.Parser.compress] using hraw
      have hcbd : p1.compress.isRecordBoundary = false := by
        simpa [Str.Parser.compress, Str.Parser.isRecordBoundary] using hbd'
      split at h
      · rename_i t1 hr
        have hwl : t1.wlog = t.wlog := by have := read_wlog t p1.compress.free; rwa [hr] at this
        obtain ⟨hinp, hw | hw⟩ := read_pendingE hb hr
        · have hts := read_tstep hr
          cases h
          exact ⟨hts, hwl, ⟨⟨o, _, ho, hi2.input (by rw [hinp])⟩, hreq, hmc⟩,
            Or.inr (Or.inl ⟨rfl, hw.1, hw.2, hcbd, hcraw, rfl, rfl, by rw [hinp]; exact hne⟩)⟩
        · rw [hem] at hw; exact absurd hw.2.1 (by decide)
      · rename_i t1 e hr
        obtain ⟨hin0, _, he, hin1⟩ := read_errorE hb hr
        have hwl : t1.wlog = t.wlog := by have := read_wlog t p1.compress.free; rwa [hr] at this
        have hts := read_tstep hr
        have hlost : lost ≠ [] := by
          intro hl; apply hne; rw [hin0, hl]; rfl
        subst he
        cases h
        refine ⟨hts, hwl, ⟨⟨o, _, ho, hi2.input (by rw [hin1, hin0])⟩, hreq, hmc⟩,
          Or.inr (Or.inr ⟨rfl, hin1, hlost, hcbd, hcraw⟩)⟩
      · rename_i t1 hr
        obtain ⟨hin, hwl, _, hz⟩ := read_ok_benE hb hr
        rcases hz rfl with hz | hz
        · omega
        · rw [hem] at hz; exact absurd hz.2 (by decide)
      · rename_i t1 bs hbs hr
        obtain ⟨hin, hwl, hlen, _⟩ := read_ok_benE hb hr
        have hbne : bs ≠ [] := fun hx => hbs (by rw [hx])
        have hbpos : 0 < bs.length := List.length_pos_iff.mpr hbne
        have hs1 := read_tstep hr
        have hlen1 : t1.input.length + 2 ≤ k := by
          have := congrArg List.length hin
          simp only [List.length_append] at this
          omega
        obtain ⟨q1, q2, ⟨⟨o2, G2, ho2, hi3⟩, hreq2, hmc2⟩, q4⟩ :=
          ih p1.compress bs t1 (hb.step hs1) (hs1.em.trans hem)
            (hi2.input (by rw [hin, List.append_assoc])) hlen hlen1 h
        refine ⟨hs1.trans q1, q2.trans hwl, ⟨⟨o ++ o2, G2, ?_, by rw [← List.append_assoc]; exact hi3⟩,
          hreq2.trans hreq, hmc2.trans hmc⟩, ?_⟩
        · rw [ho2]
          show p1.output ++ o2 = _
          rw [ho, List.append_assoc]
        · rcases q4 with q4 | ⟨a, b, c, d⟩ | q4
          · exact Or.inl q4
          · exact Or.inr (Or.inl ⟨a, b, by have := hs1.ans_le; omega, d⟩)
          · exact Or.inr (Or.inr q4)

/-- **`record_boundary()` of `close()` on a cut wire.**  `sp`: the Authorizer's stream parser, framed
(`R2`) on the tail records `R`, of whose serialisation `G` has been handed to the parser,
`t.input` is what the peer still delivers and `lost` what it never sends.  `resume = false`: first
poll; `resume = true`: re-polled while suspended in the transport read. -/
theorem close_boundary_err {id mc cap : Nat} {R : List Rec} (hc : R2Ctx id mc cap R) {lost : Bytes}
    {sp sp' : Str.Parser} {t t' : Transport} {G dO : Bytes} {res : ORes} {resume : Bool}
    (hb : BenE t) (hem : t.endMode = .err) (hr2 : R2 id mc cap R sp G (t.input ++ lost) dO)
    (hres : resume = true → sp.isRecordBoundary = false ∧ sp.raw.length < cap ∧ sp.g0 = 0 ∧ sp.g1 = 0 ∧
      t.input ++ lost ≠ [])
    (h : closeBoundary sp resume t = (sp', t', res)) :
    TStep t t' ∧ t'.wlog = t.wlog ∧ BEndT id mc cap R sp sp' dO t' lost ∧ BResR sp' t t' lost cap res := by
  have hself : BEndT id mc cap R sp sp dO t lost :=
    ⟨⟨[], G, (List.append_nil _).symm, by rw [List.append_nil]; exact hr2⟩, rfl, rfl⟩
  cases resume with
  | false =>
    by_cases hbd : sp.isRecordBoundary = true
    · simp only [closeBoundary, Bool.false_eq_true, if_false, hbd, if_true] at h
      cases h
      exact ⟨.refl _, rfl, hself, Or.inl ⟨rfl, hbd⟩⟩
    · have hbd' : sp.isRecordBoundary = false := by simpa using hbd
      simp only [closeBoundary, Bool.false_eq_true, if_false, hbd'] at h
      exact bloop_simR hc lost _ _ [] t hb hem (by rw [List.nil_append]; exact hr2) (Nat.zero_le _)
        (Nat.le_refl _) h
  | true =>
    obtain ⟨hnb, hraw, hg0, hg1, hfut⟩ := hres rfl
    have hfree : sp.free = cap - sp.raw.length := by
      simp [Str.Parser.free, Str.Parser.freeStart, hr2.par, hr2.capK, hg0, hg1]
    have hfp : 0 < sp.free := by rw [hfree]; omega
    simp only [closeBoundary, if_true] at h
    split at h
    · rename_i t1 hr
      have hwl : t1.wlog = t.wlog := by have := read_wlog t sp.free; rwa [hr] at this
      obtain ⟨hinp, hw | hw⟩ := read_pendingE hb hr
      · cases h
        exact ⟨read_tstep hr, hwl, ⟨⟨[], G, (List.append_nil _).symm, by
            rw [List.append_nil, hinp]; exact hr2⟩, rfl, rfl⟩,
          Or.inr (Or.inl ⟨rfl, hw.1, hw.2, hnb, hraw, hg0, hg1, by rw [hinp]; exact hfut⟩)⟩
      · rw [hem] at hw; exact absurd hw.2.1 (by decide)
    · rename_i t1 e hr
      obtain ⟨hin0, _, he, hin1⟩ := read_errorE hb hr
      have hwl : t1.wlog = t.wlog := by have := read_wlog t sp.free; rwa [hr] at this
      have hne : lost ≠ [] := by
        intro hl; apply hfut; rw [hin0, hl]; rfl
      subst he
      cases h
      exact ⟨read_tstep hr, hwl, ⟨⟨[], G, (List.append_nil _).symm, by
          rw [List.append_nil, hin1, ← hin0]; exact hr2⟩, rfl, rfl⟩,
        Or.inr (Or.inr ⟨rfl, hin1, hne, hnb, hraw⟩)⟩
    · rename_i t1 hr
      obtain ⟨hin, hwl, _, hz⟩ := read_ok_benE hb hr
      rcases hz rfl with hz | hz
      · omega
      · rw [hem] at hz; exact absurd hz.2 (by decide)
    · rename_i t1 bs hbs hr
      obtain ⟨hin, hwl, hlen, _⟩ := read_ok_benE hb hr
      have hs1 := read_tstep hr
      have hlen1 : t1.input.length + 2 ≤ t1.input.length + 2 := Nat.le_refl _
      obtain ⟨q1, q2, q3, q4⟩ := bloop_simR hc lost _ sp bs t1 (hb.step hs1) (hs1.em.trans hem)
        (hr2.input (by rw [hin, List.append_assoc])) hlen hlen1 h
      refine ⟨hs1.trans q1, q2.trans hwl, q3, ?_⟩
      rcases q4 with q4 | ⟨a, b, c, d⟩ | q4
      · exact Or.inl q4
      · exact Or.inr (Or.inl ⟨a, b, by have := hs1.ans_le; omega, d⟩)
      · exact Or.inr (Or.inr q4)

/-! ## The connection task -/

/-- `close()` of an Authorizer about to be polled (`cs = start`: the handler has just returned;
`cs = inBoundary`: suspended in the read of `record_boundary()`), on a wire cut behind
`c.env.tr.input`: the peer sends `lost` never. -/
def ACloseR (id mc cap : Nat) (R : List Rec) (lost : Bytes) (st : ExitStatus) (c : Conn) : Prop :=
  ∃ r cs G dO, c.phase = .closing r cs st 0 ∧ R2 id mc cap R r.sp G (c.env.tr.input ++ lost) dO ∧
    ((cs = .start ∧ r.writeable = true) ∨
     (cs = .inBoundary ∧ r.sp.isRecordBoundary = false ∧ r.sp.raw.length < cap ∧ r.sp.g0 = 0 ∧ r.sp.g1 = 0 ∧
        c.env.tr.input ++ lost ≠ [])) ∧
    BenE c.env.tr ∧ c.env.tr.endMode = .err

/-- **One poll of `close()` on a cut tail.**  Either the poll suspends again (transient `Pending`), or
`record_boundary()` fails with the transport's read error — the task ends `finished` with NOTHING written by this
`close` (no reply flushed, no stdout/stderr terminator, no `EndRequest`) — or the parser reaches a
record boundary of the tail (then `close` goes on to its epilogue as on an uncut wire). -/
theorem aclose_err_poll {id mc cap : Nat} {R : List Rec} (hc : R2Ctx id mc cap R) {lost : Bytes}
    {st : ExitStatus} {c : Conn} (h : ACloseR id mc cap R lost st c) :
    (∃ c', stepConn c = .halt c' .pending ∧ ACloseR id mc cap R lost st c' ∧ Frame c c' ∧
        c'.env.tr.wlog = c.env.tr.wlog ∧ c'.env.tr.woken = true ∧ ans c'.env.tr < ans c.env.tr) ∨
    (∃ c', stepConn c = .halt c' .finished ∧ c'.phase = .finished ∧ Frame c c' ∧
        c'.env.tr.wlog = c.env.tr.wlog ∧ c'.env.tr.input = [] ∧ lost ≠ []) ∨
    (∃ r cs sp' t' G' dO', c.phase = .closing r cs st 0 ∧
        closePoll r cs st 0 c.env.mutex c.env.tr = closeTail r c.env.mutex st (sp', t', .ready) ∧
        sp'.isRecordBoundary = true ∧ t'.wlog = c.env.tr.wlog ∧ TStep c.env.tr t' ∧
        R2 id mc cap R sp' G' (t'.input ++ lost) dO') := by
  obtain ⟨r, cs, G, dO, hph, hr2, hcs, hb, hem⟩ := h
  have hign : spIgnore r.sp = r.sp := by simp [spIgnore, hr2.ign.strm]
  -- both entry points: `closePoll = closeTail (closeBoundary r.sp resume t)`
  obtain ⟨resume, heq, hres⟩ : ∃ resume, closePoll r cs st 0 c.env.mutex c.env.tr =
      closeTail r c.env.mutex st (closeBoundary r.sp resume c.env.tr) ∧
      (resume = true → r.sp.isRecordBoundary = false ∧ r.sp.raw.length < cap ∧ r.sp.g0 = 0 ∧ r.sp.g1 = 0 ∧
        c.env.tr.input ++ lost ≠ []) := by
    rcases hcs with ⟨rfl, hwr⟩ | ⟨rfl, hx⟩
    · refine ⟨false, ?_, fun hh => by cases hh⟩
      have := closePoll_start_tail r c.env.mutex c.env.tr st hwr
      rwa [hign] at this
    · exact ⟨true, closePoll_bound_tail r c.env.mutex c.env.tr st, fun _ => hx⟩
  rcases hcb : closeBoundary r.sp resume c.env.tr with ⟨sp', t', res⟩
  rw [hcb] at heq
  obtain ⟨hts, hwl, ⟨⟨o, G', ho, hr2'⟩, hreq, hmc⟩, hout⟩ := close_boundary_err hc hb hem hr2 hres hcb
  rcases hout with ⟨rfl, hbd⟩ | ⟨rfl, hwk, hans, hnb, hraw, hg0, hg1, hfut⟩ | ⟨rfl, hin, hl, hnb, hraw⟩
  · exact Or.inr (Or.inr ⟨r, cs, sp', t', G', dO ++ o, hph, heq, hbd, hwl, hts, hr2'⟩)
  · rw [closeTail_pending] at heq
    have hstep := step_closing_pending hph heq
    refine Or.inl ⟨_, hstep, ⟨{ r with sp := sp' }, .inBoundary, G', dO ++ o, rfl, hr2',
      Or.inr ⟨rfl, hnb, hraw, hg0, hg1, hfut⟩, hb.step hts, hts.em.trans hem⟩, ⟨rfl, rfl, rfl, rfl, hts⟩, hwl, hwk, hans⟩
  · rw [closeTail_err] at heq
    have hstep := step_closing_err hph heq
    exact Or.inr (Or.inl ⟨_, hstep, rfl, ⟨rfl, rfl, rfl, rfl, hts⟩, hwl, hin, hl⟩)

/-! ## The executor, from the suspension in `record_boundary()` at the end of the cut input -/

/-- suspended in the transport read of `record_boundary()`, nothing more will arrive -/
structure BErr (st : ExitStatus) (L : Bytes) (hs : Nat) (c : Conn) : Prop where
  ph : ∃ r, c.phase = .closing r .inBoundary st 0 ∧ 0 < r.sp.free
  inp : c.env.tr.input = []
  em : c.env.tr.endMode = .err
  ben : BenE c.env.tr
  wlog : c.env.tr.wlog = L
  hs : hsCount c.env.tr.events = hs

theorem berr_poll {st : ExitStatus} {L : Bytes} {hs : Nat} {c : Conn} (h : BErr st L hs c) :
    ∃ c' r, stepConn c = .halt c' r ∧ Frame c c' ∧
      ((r = .pending ∧ BErr st L hs c' ∧ c'.env.tr.woken = true ∧ ans c'.env.tr < ans c.env.tr) ∨
       (r = .finished ∧ c'.phase = .finished ∧ c'.env.tr.wlog = L ∧ c'.env.tr.input = [] ∧
          hsCount c'.env.tr.events = hs)) := by
  obtain ⟨⟨r, hph, hfree⟩, hin, hem, hb, hwl, hhs⟩ := h
  have heq := closePoll_bound_tail r c.env.mutex c.env.tr st
  rcases hr : c.env.tr.read r.sp.free with ⟨t1, res⟩
  obtain ⟨hin1, hwl1, hres⟩ := read_at_err hb hin hem hfree hr
  have hts := read_tstep hr
  have hhs1 : hsCount t1.events = hs := by rw [← hhs]; exact hts.hs
  rcases hres with ⟨rfl, hwk, hans⟩ | rfl
  · have hcb : closeBoundary r.sp true c.env.tr = (r.sp, t1, .pending) := by
      simp only [closeBoundary, if_true, hr]
    rw [hcb, closeTail_pending] at heq
    have hstep := step_closing_pending hph heq
    exact ⟨_, _, hstep, ⟨rfl, rfl, rfl, rfl, hts⟩, Or.inl ⟨rfl,
      ⟨⟨_, rfl, hfree⟩, hin1, hts.em.trans hem, hb.step hts, hwl1.trans hwl, hhs1⟩, hwk, hans⟩⟩
  · have hcb : closeBoundary r.sp true c.env.tr = (r.sp, t1, .err t1.rdErr) := by
      simp only [closeBoundary, if_true, hr]
    rw [hcb, closeTail_err] at heq
    have hstep := step_closing_err hph heq
    exact ⟨_, _, hstep, ⟨rfl, rfl, rfl, rfl, hts⟩, Or.inr ⟨rfl, rfl, hwl1.trans hwl, hin1, hhs1⟩⟩

theorem BErr.cong {st : ExitStatus} {L : Bytes} {hs : Nat} {c c' : Conn} (h : BErr st L hs c)
    (hph : c'.phase = c.phase) (hs' : TrSame c.env.tr c'.env.tr) : BErr st L hs c' := by
  obtain ⟨⟨r, hp, hf⟩, hin, hem, hb, hwl, hhs⟩ := h
  exact ⟨⟨r, hph.trans hp, hf⟩, hs'.input.trans hin, hs'.em.trans hem, BenE.same hs' hb, hs'.wlog.trans hwl,
    hs'.hs.trans hhs⟩

/-- **The task returns**: suspended in `record_boundary()` with the (cut) input used up, the
connection task needs at most one poll per scripted transient `Pending` and then returns `RET`,
`finished`; the log is what it was (no epilogue, no `EndRequest`), no handler is started. -/
theorem berr_run {st : ExitStatus} {L : Bytes} {hs : Nat} :
    ∀ (A : Nat) (c : Conn) (n fuel : Nat), BErr st L hs c → c.env.segs = [] → ans c.env.tr ≤ A → A + 1 ≤ fuel →
      ∃ c', runTask fuel c n none = (c', "RET") ∧ c'.phase = .finished ∧ c'.env.tr.wlog = L ∧
        c'.env.tr.input = [] ∧ hsCount c'.env.tr.events = hs ∧ c'.scripts = c.scripts := by
  intro A
  induction A with
  | zero =>
    intro c n fuel hst hsegs hA hf
    obtain ⟨f, rfl⟩ : ∃ f, fuel = f + 1 := ⟨fuel - 1, by omega⟩
    obtain ⟨hsame, hph, hsc, hstop, hmx, hsg, hwk⟩ := prePoll_same c n hsegs
    have hst0 := hst.cong hph hsame
    obtain ⟨c', r, hstep, hfr, ho⟩ := berr_poll hst0
    have hpoll := (Halts.now hstep).pollT (by omega)
    have hans0 : ans (prePoll c n none).env.tr = ans c.env.tr := by unfold ans; rw [hsame.rd, hsame.wr]
    rw [runTask_succ, hpoll]
    rcases ho with ⟨rfl, _, _, ha⟩ | ⟨rfl, h1, h2, h3, h4⟩
    · omega
    · exact ⟨c', rfl, h1, h2, h3, h4, hfr.scripts.trans hsc⟩
  | succ A ih =>
    intro c n fuel hst hsegs hA hf
    obtain ⟨f, rfl⟩ : ∃ f, fuel = f + 1 := ⟨fuel - 1, by omega⟩
    obtain ⟨hsame, hph, hsc, hstop, hmx, hsg, hwk⟩ := prePoll_same c n hsegs
    have hst0 := hst.cong hph hsame
    obtain ⟨c', r, hstep, hfr, ho⟩ := berr_poll hst0
    have hpoll := (Halts.now hstep).pollT (by omega)
    have hans0 : ans (prePoll c n none).env.tr = ans c.env.tr := by unfold ans; rw [hsame.rd, hsame.wr]
    rw [runTask_succ, hpoll]
    rcases ho with ⟨rfl, hst', hw, ha⟩ | ⟨rfl, h1, h2, h3, h4⟩
    · simp only [hw, if_true]
      obtain ⟨c2, h1, h2⟩ := ih c' (n + 1) f hst' (hfr.segs.trans hsg) (by omega) (by omega)
      exact ⟨c2, h1, h2.1, h2.2.1, h2.2.2.1, h2.2.2.2.1, h2.2.2.2.2.trans (hfr.scripts.trans hsc)⟩
    · exact ⟨c', rfl, h1, h2, h3, h4, hfr.scripts.trans hsc⟩

/-- an `ACloseR` state suspended at the end of the cut input is a `BErr` state -/
theorem ACloseR.beof {id mc cap : Nat} {R : List Rec} {lost : Bytes} {st : ExitStatus} {c : Conn}
    (h : ACloseR id mc cap R lost st c) (hcs : ∃ r, c.phase = .closing r .inBoundary st 0)
    (hin : c.env.tr.input = []) : BErr st c.env.tr.wlog (hsCount c.env.tr.events) c := by
  obtain ⟨r, cs, G, dO, hph, hr2, hc, hb, hem⟩ := h
  obtain ⟨r0, hph0⟩ := hcs
  rw [hph] at hph0
  injection hph0 with e1 e2 _ _
  subst e1 e2
  rcases hc with ⟨hx, _⟩ | ⟨_, hnb, hraw, hg0, hg1, _⟩
  · cases hx
  · have hfree : r.sp.free = cap - r.sp.raw.length := by
      simp [Str.Parser.free, Str.Parser.freeStart, hr2.par, hr2.capK, hg0, hg1]
    exact ⟨⟨r, hph, by rw [hfree]; omega⟩, hin, hem, hb, rfl, rfl⟩

end Fcgi.C12E
