import Fcgi.Proofs.ChainIgnore
/-!
# The skip to the record boundary, any legal call

In ignore mode the destination of a `parse` call is irrelevant (`parse_ign_dest`): no payload is ever
in state `Stream`, so `dest` is only passed along.  `consume_stream` finds an empty stream buffer,
`set_stream` is a no-op (`None`) or rejected (`Some`).  Hence `E2E.R2` is kept by EVERY legal
operation (`r2_ops_any`), not only by the calls `record_boundary()` makes.
-/
namespace Fcgi.Str
open Fcgi Fcgi.Req

/-- replace the destination carried by a `cont` -/
def setD (d : Option Nat) : Iter → Iter
  | .cont q _ r => .cont q d r
  | x => x

theorem parseHead_dest (p : Parser) (d d' : Option Nat) (r : Status) :
    parseHead p d' r = setD d' (parseHead p d r) := by
  unfold parseHead
  simp only []
  repeat' split
  all_goals rfl

theorem parsePayload_dest (p : Parser) (d d' : Option Nat) (r : Status) (h : p.state ≠ .stream) :
    parsePayload p d' r = setD d' (parsePayload p d r) := by
  unfold parsePayload
  cases hst : p.state with
  | stream => exact absurd hst h
  | skip =>
    simp only []
    repeat' split
    all_goals rfl
  | values v =>
    simp only []
    repeat' split
    all_goals rfl

theorem padHead_dest (q : Parser) (d d' : Option Nat) (r : Status) :
    E2E.padHead q d' r = setD d' (E2E.padHead q d r) := by
  unfold E2E.padHead
  split
  · split
    · rfl
    · exact parseHead_dest _ d d' r
  · exact parseHead_dest q d d' r

theorem iter_dest (p : Parser) (d d' : Option Nat) (r : Status) (h : p.state ≠ .stream) :
    iter p d' r = setD d' (iter p d r) := by
  rw [E2E.iter_eq, E2E.iter_eq]
  by_cases hpay : p.pay > 0
  · simp only [hpay, if_true]
    rw [parsePayload_dest p d d' r h]
    cases parsePayload p d r with
    | cont q dd rr => exact padHead_dest q dd d' rr
    | stop q rr => rfl
    | err q e => rfl
    | panic s => rfl
  · simp only [hpay, if_false]
    exact padHead_dest p d d' r

/-- in ignore mode the loop does not depend on the destination -/
theorem loop_dest : ∀ (n : Nat) (p : Parser) (d d' : Option Nat) (r : Status), p.raw.length ≤ n → SInv p → Ign p →
    loop p d' r = loop p d r := by
  intro n
  induction n with
  | zero =>
    intro p d d' r hn _ _
    have he : p.raw = [] := List.length_eq_zero_iff.1 (by omega)
    rw [loop.eq_1 p d' r, loop.eq_1 p d r]
    simp [he]
  | succ n ih =>
    intro p d d' r hn hinv h
    rw [loop.eq_1 p d' r, loop.eq_1 p d r]
    by_cases he : p.raw.isEmpty
    · rw [if_pos he, if_pos he]
    · rw [if_neg he, if_neg he, iter_dest p d d' r h.2]
      have hi := iter_ign p d r hinv h
      have hg := iter_good p d r
      cases hit : iter p d r with
      | stop q rr => rfl
      | err q e => rfl
      | panic s => rfl
      | cont q dd rr =>
        rw [hit] at hi hg
        simp only [setD]
        by_cases hlt : q.raw.length < p.raw.length
        · rw [if_pos hlt, if_pos hlt]
          exact ih q dd d' rr (by omega) (hg.2.2 hinv) hi
        · rw [if_neg hlt, if_neg hlt]

/-- **In ignore mode a legal `parse` into a destination buffer is the `parse` into the internal
buffer.** -/
theorem parse_ign_dest {p : Parser} {new : Bytes} {n : Nat} (hinv : SInv p) (h : Ign p)
    (hl : Legal p (.parse new (some n))) : p.parse new (some n) = p.parse new none := by
  obtain ⟨hd, hfree⟩ := hl
  rw [parse_eq_loop p new (some n) hinv.1 hd hfree, parse_eq_loop p new none hinv.1 (Or.inl rfl) hfree]
  exact loop_dest _ (p.feed new) none (some n) (initStatus p) (Nat.le_refl _) (SInv_feed hinv hfree) h

end Fcgi.Str

namespace Fcgi.C05C
open Fcgi Fcgi.Req Fcgi.Str Fcgi.Spec Fcgi.C03SI
open Fcgi.E2E (Pos R2 R2Ctx Ev view StdinRec owedI serAll_app)

/-- **Every legal operation keeps `R2`** (and ignore mode), its replies appended to the ledger. -/
theorem r2_ops_any {id mc cap : Nat} {R : List Rec} (hc : R2Ctx id mc cap R) : ∀ (N : List Op) (p : Str.Parser)
    (G fut dO : Bytes), R2 id mc cap R p G (fedBytes N ++ fut) dO → Ign p → SInv p → LegalAll p N →
    ∃ G', R2 id mc cap R (applyOps p N) G' fut (dO ++ C03S.grownAll p N) := by
  intro N
  induction N with
  | nil => intro p G fut dO h _ _ _; exact ⟨G, by simpa [fedBytes, C03S.grownAll] using h⟩
  | cons op t ih =>
    intro p G fut dO h hig hinv hl
    have hig' := (applyOp_ign hinv hig hl.1).1
    have hinv' := (Str.step_safe hinv hl.1).1
    cases op with
    | parse new dest =>
      have hEq : p.parse new dest = p.parse new none := by
        cases dest with
        | none => rfl
        | some n => exact parse_ign_dest hinv hig hl.1
      have h' : R2 id mc cap R p G (new ++ (fedBytes t ++ fut)) dO := by
        simpa [fedBytes, List.append_assoc] using h
      obtain ⟨p', st, o, hp, ho, -, -, hr2, -⟩ := E2E.parse_r2 hc h' hl.1.2
      have hap : applyOp p (.parse new dest) = p' := by simp [applyOp, hEq, hp]
      have hgr : C03S.outGrowth p (.parse new dest) = o := by
        simp [C03S.outGrowth, hEq, hp, ho]
      rw [hap] at hig' hinv'
      obtain ⟨G', hG⟩ := ih p' (G ++ new) fut (dO ++ o) hr2 hig' hinv' (by rw [← hap]; exact hl.2)
      refine ⟨G', ?_⟩
      rw [Str.applyOps_cons]
      simp only [C03S.grownAll]
      rw [hap, hgr, ← List.append_assoc]
      exact hG
    | compress =>
      have h' : R2 id mc cap R p.compress G (fedBytes t ++ fut) dO := by
        have := E2E.R2.compress h
        simpa [fedBytes] using this
      obtain ⟨G', hG⟩ := ih p.compress G fut dO h' hig' hinv' hl.2
      refine ⟨G', ?_⟩
      show R2 id mc cap R (applyOps p.compress t) G' fut (dO ++ ([] ++ C03S.grownAll p.compress t))
      rw [List.nil_append]; exact hG
    | consumeOutput k =>
      have h0 : R2 id mc cap R p G (fedBytes t ++ fut) dO := by simpa [fedBytes] using h
      have h' : R2 id mc cap R (p.consumeOutput k) G (fedBytes t ++ fut) dO :=
        ⟨⟨h0.ign.strm, h0.ign.rid, h0.ign.pos⟩, h0.mt.of_eq rfl rfl rfl, h0.sinv, h0.capK, h0.par, h0.wire, h0.hist⟩
      obtain ⟨G', hG⟩ := ih (p.consumeOutput k) G fut dO h' hig' hinv' hl.2
      refine ⟨G', ?_⟩
      show R2 id mc cap R (applyOps (p.consumeOutput k) t) G' fut (dO ++ ([] ++ C03S.grownAll (p.consumeOutput k) t))
      rw [List.nil_append]; exact hG
    | consumeStream k =>
      have h0 : R2 id mc cap R p G (fedBytes t ++ fut) dO := by simpa [fedBytes] using h
      have h' : R2 id mc cap R (p.consumeStream k) G (fedBytes t ++ fut) dO :=
        ⟨⟨h0.ign.strm, h0.ign.rid, h0.ign.pos⟩, h0.mt.of_eq rfl rfl rfl, SInv_consumeStream h0.sinv k, h0.capK,
          by show p.parsed.drop _ = []; rw [h0.par]; simp, h0.wire, h0.hist⟩
      obtain ⟨G', hG⟩ := ih (p.consumeStream k) G fut dO h' hig' hinv' hl.2
      refine ⟨G', ?_⟩
      show R2 id mc cap R (applyOps (p.consumeStream k) t) G' fut (dO ++ ([] ++ C03S.grownAll (p.consumeStream k) t))
      rw [List.nil_append]; exact hG
    | setStream st =>
      have hsame : applyOp p (.setStream st) = p := by
        simp only [applyOp]
        cases st with
        | none => rw [Str.setStream_none, if_pos hig.1]
        | some s => rw [C18.setStream_some_of_none_rejected p s hig.1]
      have h0 : R2 id mc cap R p G (fedBytes t ++ fut) dO := by simpa [fedBytes] using h
      obtain ⟨G', hG⟩ := ih p G fut dO h0 hig hinv (by rw [← hsame]; exact hl.2)
      refine ⟨G', ?_⟩
      rw [Str.applyOps_cons]
      simp only [C03S.grownAll, C03S.outGrowth, List.nil_append]
      rw [hsame]; exact hG

/-- **The replies of a turn that skips to the record boundary — `N` ANY legal history.** -/
theorem ignore_replies_any {id mc cap : Nat} {R : List Rec} (hc : R2Ctx id mc cap R) {p0 : Str.Parser}
    (h0 : Start ⟨id, 1, 5, mc⟩ p0) (hcap : p0.cap = cap) {H N : List Op}
    (hl : LegalAll p0 (H ++ Op.setStream none :: N)) (hns : NoSwitch ⟨id, 1, 5, mc⟩ H)
    {fut : Bytes} (hw : p0.raw ++ fedBytes (H ++ Op.setStream none :: N) ++ fut = serAll R)
    (hb : (applyOps p0 (H ++ Op.setStream none :: N)).isRecordBoundary = true) :
    ∃ d rs, R = d ++ rs ∧
      C03S.grownAll p0 (H ++ Op.setStream none :: N) = owedI id mc d ∧
      p0.raw ++ fedBytes (H ++ Op.setStream none :: N) =
        serAll d ++ (applyOps p0 (H ++ Op.setStream none :: N)).raw ∧
      (applyOps p0 (H ++ Op.setStream none :: N)).raw ++ fut = serAll rs := by
  have hRwf : ∀ r ∈ R, r.WF := fun r hr => (hc.recs r hr).1
  obtain ⟨hlH, hlN⟩ := C02.LegalAll_append.1 hl
  have hfed : fedBytes (H ++ Op.setStream none :: N) = fedBytes H ++ fedBytes N := by
    rw [C02.fedBytes_append]; simp [fedBytes]
  obtain ⟨-, hmt, -, -⟩ := ops_refS (E := ⟨id, 1, 5, mc⟩) (x := []) H p0 h0.mtch h0.inv hlH hns
  have hsw : applyOp (applyOps p0 H) (.setStream none) = (applyOps p0 H).switchTo none := by
    simp only [applyOp, Str.setStream_none]
    rw [if_neg (by rw [hmt.strm]; simp)]
  have hst := r2_start hc h0 hcap hlH hns (fut := fedBytes N ++ fut)
    (by rw [← hw, hfed]; simp [List.append_assoc])
  have hlN' : LegalAll ((applyOps p0 H).switchTo none) N := by rw [← hsw]; exact hlN.2
  have hignS : Ign ((applyOps p0 H).switchTo none) := by
    rw [← hsw]; exact ign_of_setNone _ (fun h => by rw [hmt.strm] at h; cases h)
  have hinvS : SInv ((applyOps p0 H).switchTo none) := by
    rw [← hsw]; exact (Str.step_safe (Str.trace_safe h0.inv hlH).1 hlN.1).1
  obtain ⟨G', hr2⟩ := r2_ops_any hc N _ _ fut _ hst hignS hinvS hlN'
  have happ : applyOps p0 (H ++ Op.setStream none :: N) = applyOps ((applyOps p0 H).switchTo none) N := by
    rw [applyOps_append, Str.applyOps_cons, hsw]
  have hgr : C03S.grownAll p0 (H ++ Op.setStream none :: N) =
      C03S.grownAll p0 H ++ C03S.grownAll ((applyOps p0 H).switchTo none) N := by
    rw [grownAll_append]
    simp [C03S.grownAll, C03S.outGrowth, hsw]
  rw [happ] at hb ⊢
  rw [hgr]
  -- the framing at the boundary
  obtain ⟨d, rs, hsplit, hrs, hcons⟩ := handover_records hRwf h0.inv h0.pay h0.pad
    (by exact hl) (by rw [fedBytes_eq]; exact hw) (by rw [happ]; exact hb)
  rw [fedBytes_eq] at hcons
  rw [happ] at hcons hrs
  refine ⟨d, rs, hsplit, ?_, hcons, hrs⟩
  -- the ledger at the boundary
  have hnow := (hr2.now hc).2.1
  have hb' : (applyOps ((applyOps p0 H).switchTo none) N).pay = 0 ∧
      (applyOps ((applyOps p0 H).switchTo none) N).pad = 0 := by
    simpa [Str.Parser.isRecordBoundary] using hb
  have hrsR : ∀ r ∈ rs, StdinRec id r := fun r hr => hc.recs r (by rw [hsplit]; exact List.mem_append_right _ hr)
  have hrem : (Rem (Ev id mc) (view (applyOps ((applyOps p0 H).switchTo none) N)) fut).out = owedI id mc rs := by
    unfold Rem
    show (ref (Ev id mc) (applyOps ((applyOps p0 H).switchTo none) N).state
      (applyOps ((applyOps p0 H).switchTo none) N).pay (applyOps ((applyOps p0 H).switchTo none) N).pad
      ((applyOps ((applyOps p0 H).switchTo none) N).raw ++ fut)).out = _
    rw [hb'.1, hb'.2, ref_eq_refWire, hrs, E2E.refWire_view id mc hrsR]
  rw [hrem, hsplit, owedI_append] at hnow
  exact List.append_cancel_right hnow


end Fcgi.C05C
