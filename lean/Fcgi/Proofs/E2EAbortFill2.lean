import Fcgi.Proofs.E2EAbortFill
import Fcgi.Proofs.E2EAbortFillStr
import Fcgi.Proofs.E2EBufRead
/-!
# AbortRequest AFTER a prefix of the Stdin content, handler reading through `fill_buf` / `consume`

The handler is `rounds n k ++ .fill :: rest` (`n` rounds of `fill_buf().await; consume(k)`, one more `fill_buf`,
`propagate = true`), `|content| ≤ n`, `0 < k`.  Every `fill_buf` that returns shows NEW content (`pollInput_sim_noneAC`),
so after at most `|content|` rounds one of the `fill_buf`s fails with the abort: the handler has seen slices `shown`
with `taken k shown <+: content` (content that arrived in the same `parse` call as the abort record is lost), returns
the error, `Token::run` calls `close(ABORT)`.
-/
namespace Fcgi.E2E
open Fcgi Fcgi.Req Fcgi.Str Fcgi.Async Fcgi.Run Fcgi.Spec Fcgi.C09E

/-- the event of the `fill_buf` that failed with the abort -/
def faEvent : String := s!"f!{showIo .abortRequest}"

theorem isHS_faEvent : isHS faEvent = false := by decide

theorem BSt.prefixA {K : RCtx} (hK : K.Aborted) {L P : Bytes} {r : AReq} {m : MutexSt} {t : Transport}
    {handed dO : Bytes} (h : BSt K L P r m t handed dO) : handed ++ r.sp.parsed <+: K.C := by
  obtain ⟨⟨G, hi⟩, _⟩ := h
  exact ⟨_, (hi.nowA hK).1.symm⟩

/-- What a `fill_buf` does to the reader's view on an aborted stream. -/
def FillOutA (K : RCtx) (L P handed : Bytes) (t : Transport) (r' : AReq) (m' : MutexSt) (t' : Transport) :
    IRes → Prop
  | .pending => (∃ dO', BSt K L P r' m' t' handed dO') ∧ t'.woken = true ∧ ans t' < ans t
  | .ready _ _ => (∃ dO', BSt K L P r' m' t' handed dO') ∧ r'.sp.parsed ≠ []
  | .err e => e = .abortRequest ∧ m' = none ∧ AtAbort K L P r' t'
  | .panic _ => False

theorem fill_specA {K : RCtx} (hK : K.Aborted) (hfin : K.final = true) {L P : Bytes} {r : AReq} {m : MutexSt}
    {t : Transport} {handed dO : Bytes} {r' : AReq} {m' : MutexSt} {t' : Transport} {res : IRes}
    (hb : Ben t) (hs : BSt K L P r m t handed dO) (hw : r.writeable = true)
    (h : r.pollInput none m t = (r', m', t', res)) :
    TStep t t' ∧ r'.writeable = true ∧ FillOutA K L P handed t r' m' t' res := by
  by_cases hp : r.sp.parsed = []
  · have hs' : RSt K L P r m t handed dO := by
      have := RStB.toR hs hp
      rwa [hp, List.append_nil] at this
    obtain ⟨h1, h2⟩ := pollInput_sim_noneAC hK hb hs' h
    cases res with
    | pending =>
      obtain ⟨⟨dO', hst⟩, hwk, ha, hw'⟩ := h2
      have hpar : r'.sp.parsed = [] := by obtain ⟨⟨G, hi⟩, _⟩ := hst; exact hi.par
      exact ⟨h1, hw'.trans hw, ⟨dO', by unfold BSt; rw [hpar, List.append_nil]; exact .of hst⟩, hwk, ha⟩
    | ready k d =>
      obtain ⟨_, hk, hpos, dO', hst, _, _, hwf⟩ := h2
      exact ⟨h1, hwf hfin, ⟨dO', hst⟩, fun h0 => by rw [h0] at hk; simp at hk; omega⟩
    | err e =>
      obtain ⟨he, hm, hat, hw'⟩ := h2
      exact ⟨h1, hw'.trans hw, he, hm, hat⟩
    | panic s => exact h2.elim
  · rw [fill_buffered r m t hp] at h
    cases h
    exact ⟨.refl _, hw, ⟨dO, hs⟩, hp⟩

/-- **The rounds of one poll on an aborted stream**: suspended in a `fill_buf`, or a `fill_buf` failed. -/
theorem rounds_runA {K : RCtx} (hK : K.Aborted) (hfin : K.final = true) {L P : Bytes} (k : Nat) (hk : 0 < k)
    (rest : List HOp) :
    ∀ (n fuel : Nat) (r : AReq) (e : Run.Env) (handed dO : Bytes) (shown : List Bytes),
      2 * n + 1 ≤ fuel → Ben e.tr → BSt K L P r e.mutex e.tr handed dO → r.writeable = true →
      K.C.length ≤ handed.length + n → handed = taken k shown → SlEv shown e.tr →
      (∃ (n' : Nat) (r' : AReq) (e' : Run.Env) (handed' dO' : Bytes) (shown' : List Bytes), n' ≤ n ∧
        handlerPoll fuel r { ops := rounds n k ++ .fill :: rest, sub := .fresh, writers := [], propagate := true } e =
          (r', { ops := rounds n' k ++ .fill :: rest, sub := .fresh, writers := [], propagate := true }, e', .pending) ∧
        BSt K L P r' e'.mutex e'.tr handed' dO' ∧ r'.writeable = true ∧ K.C.length ≤ handed'.length + n' ∧
        handed' = taken k shown' ∧ SlEv shown' e'.tr ∧ e'.segs = e.segs ∧ TStep e.tr e'.tr ∧
        e'.tr.woken = true ∧ ans e'.tr < ans e.tr) ∨
      (∃ (r' : AReq) (e' : Run.Env) (ops' : List HOp) (shown' : List Bytes),
        handlerPoll fuel r { ops := rounds n k ++ .fill :: rest, sub := .fresh, writers := [], propagate := true } e =
          (r', { ops := ops', sub := .fresh, writers := [], propagate := true }, e', .done (.error .abortRequest)) ∧
        e'.mutex = none ∧ AtAbort K L P r' e'.tr ∧ r'.writeable = true ∧ taken k shown' <+: K.C ∧
        SlEv shown' e'.tr ∧ faEvent ∈ e'.tr.events ∧ e'.segs = e.segs ∧ TStep e.tr e'.tr) := by
  intro n
  induction n with
  | zero =>
    intro fuel r e handed dO shown hf hb hs hw hlen hsh hev
    obtain ⟨f, rfl⟩ : ∃ f, fuel = f + 1 := ⟨fuel - 1, by omega⟩
    show _ ∨ _
    simp only [rounds, List.nil_append]
    rw [hp_fill]
    rcases hpi : r.pollInput none e.mutex e.tr with ⟨r1, m1, t1, res⟩
    obtain ⟨hts, hw1, hfo⟩ := fill_specA hK hfin hb hs hw hpi
    cases res with
    | pending =>
      left
      obtain ⟨⟨dO', hs'⟩, hwk, ha⟩ := hfo
      exact ⟨0, r1, { e with mutex := m1, tr := t1 }, handed, dO', shown, Nat.le_refl _, rfl, hs', hw1, hlen, hsh,
        hev.step hts, rfl, hts, hwk, ha⟩
    | panic s => exact hfo.elim
    | ready k0 d =>
      exfalso
      obtain ⟨⟨dO', hs'⟩, hne⟩ := hfo
      have h1 := (BSt.prefixA hK hs').length_le
      simp only [List.length_append] at h1
      have h2 := List.length_pos_iff.2 hne
      omega
    | err x =>
      right
      obtain ⟨rfl, rfl, hat⟩ := hfo
      have hts1 : TStep e.tr (t1.ev faEvent) := hts.trans (TStep.ev _ isHS_faEvent)
      refine ⟨r1, (({ e with mutex := none, tr := t1 } : Run.Env).ev faEvent), rest, shown, rfl, rfl,
        hat.congr rfl rfl, hw1, ?_, hev.step hts1, ?_, rfl, hts1⟩
      · rw [← hsh]; exact (List.prefix_append _ _).trans (BSt.prefixA hK hs)
      · show faEvent ∈ t1.events ++ [faEvent]
        simp
  | succ n ih =>
    intro fuel r e handed dO shown hf hb hs hw hlen hsh hev
    obtain ⟨f, rfl⟩ : ∃ f, fuel = f + 2 := ⟨fuel - 2, by omega⟩
    show _ ∨ _
    simp only [rounds, List.cons_append]
    rw [hp_fill]
    rcases hpi : r.pollInput none e.mutex e.tr with ⟨r1, m1, t1, res⟩
    obtain ⟨hts, hw1, hfo⟩ := fill_specA hK hfin hb hs hw hpi
    cases res with
    | pending =>
      left
      obtain ⟨⟨dO', hs'⟩, hwk, ha⟩ := hfo
      exact ⟨n + 1, r1, { e with mutex := m1, tr := t1 }, handed, dO', shown, Nat.le_refl _, rfl, hs', hw1, hlen, hsh,
        hev.step hts, rfl, hts, hwk, ha⟩
    | panic s => exact hfo.elim
    | err x =>
      right
      obtain ⟨rfl, rfl, hat⟩ := hfo
      have hts1 : TStep e.tr (t1.ev faEvent) := hts.trans (TStep.ev _ isHS_faEvent)
      refine ⟨r1, (({ e with mutex := none, tr := t1 } : Run.Env).ev faEvent), _, shown, rfl, rfl,
        hat.congr rfl rfl, hw1, ?_, hev.step hts1, ?_, rfl, hts1⟩
      · rw [← hsh]; exact (List.prefix_append _ _).trans (BSt.prefixA hK hs)
      · show faEvent ∈ t1.events ++ [faEvent]
        simp
    | ready k0 d =>
      obtain ⟨⟨dO', hs'⟩, hne⟩ := hfo
      simp only
      rw [hp_consume]
      have hts1 : TStep e.tr (t1.ev (fEvent r1.sp.parsed)) := hts.trans (TStep.ev _ (isHS_fEvent _))
      have hs1 : BSt K L P r1 m1 (t1.ev (fEvent r1.sp.parsed)) handed dO' := hs'.ev _
      have hs2 := hs1.consume k
      have hlen2 : K.C.length ≤ (handed ++ r1.sp.parsed.take k).length + n := by
        have : 0 < (r1.sp.parsed.take k).length := by
          rw [List.length_take]
          have := List.length_pos_iff.mpr hne
          omega
        simp only [List.length_append]; omega
      have hev2 : SlEv (shown ++ [r1.sp.parsed]) (t1.ev (fEvent r1.sp.parsed)) := by
        intro s hs
        rcases List.mem_append.1 hs with hs | hs
        · exact hts1.mem_events (hev s hs)
        · rw [List.mem_singleton.1 hs]
          show fEvent r1.sp.parsed ∈ t1.events ++ [fEvent r1.sp.parsed]
          simp
      rcases ih f { r1 with sp := r1.sp.consumeStream k }
          (({ e with mutex := m1, tr := t1 } : Run.Env).ev (fEvent r1.sp.parsed))
          (handed ++ r1.sp.parsed.take k) dO' (shown ++ [r1.sp.parsed]) (by omega) (hb.step hts1) hs2 hw1 hlen2
          (by rw [taken_append, hsh]) hev2 with
        ⟨n', r', e', handed', dO2, shown', a0, a1, a2, aw, a3, a4, a5, a6, a7, a8, a9⟩ |
        ⟨r', e', ops', shown', b1, b2, b3, b4, b5, b6, b7, b8, b9⟩
      · left
        refine ⟨n', r', e', handed', dO2, shown', by omega, a1, a2, aw, a3, a4, a5, a6, hts1.trans a7, a8, ?_⟩
        have := hts1.ans_le
        have a9' : ans e'.tr < ans (t1.ev (fEvent r1.sp.parsed)) := a9
        omega
      · right
        exact ⟨r', e', ops', shown', b1, b2, b3, b4, b5, b6, b7, b8, hts1.trans b9⟩

/-! ## The connection level -/

/-- the hypotheses -/
structure AFOK2 (g : Cfg) (a : Rec) (tail : Bytes) (n k : Nat) (rest : List HOp) : Prop where
  ab : AbOK g a tail true []
  hk : 0 < k
  hn : g.content.length ≤ n
  hfu : 2 * n + 10 ≤ 1000
  hs : g.hscript = rounds n k ++ .fill :: rest

theorem AFOK2.st {g : Cfg} {a : Rec} {tail : Bytes} {n k : Nat} {rest : List HOp} (ok : AFOK2 g a tail n k rest) :
    g.st = ExitStatus.abort := by
  rcases ok.ab.mode with ⟨_, h⟩ | ⟨h, _⟩
  · exact h
  · cases h

theorem AFOK2.fok {g : Cfg} {a : Rec} {tail : Bytes} {n k : Nat} {rest : List HOp} (ok : AFOK2 g a tail n k rest) :
    FOK g := ⟨ok.ab.wf, ok.ab.pairs, ok.ab.noise⟩

/-- what the handler saw: slices `shown` (their `f=` events are in the trace), of which it took the first `k` bytes
each — a prefix of the content, in order —, then the failed `fill_buf` -/
def SeenA (g : Cfg) (k : Nat) (shown : List Bytes) (t : Transport) : Prop :=
  taken k shown <+: g.content ∧ SlEv shown t ∧ faEvent ∈ t.events

theorem SeenA.step {g : Cfg} {k : Nat} {shown : List Bytes} {t t' : Transport} (h : SeenA g k shown t)
    (hm : ∀ s, s ∈ t.events → s ∈ t'.events) : SeenA g k shown t' :=
  ⟨h.1, fun s hs => hm _ (h.2.1 s hs), hm _ h.2.2⟩

/-- the handler in (or about to start) a round, or the final `fill_buf` (`n' = 0`) -/
def HFl2 (g : Cfg) (k : Nat) (rest : List HOp) (c : Conn) : Prop :=
  ∃ r n' handed dO shown,
    c.phase = .handler r { ops := rounds n' k ++ .fill :: rest, sub := .fresh, writers := [], propagate := true } ∧
    BSt g.KA g.L1 [] r c.env.mutex c.env.tr handed dO ∧ r.writeable = true ∧
    g.content.length ≤ handed.length + n' ∧ handed = taken k shown ∧ SlEv shown c.env.tr ∧ 2 * n' + 10 ≤ 1000 ∧
    Ben c.env.tr ∧ c.stop = false ∧ Ev1 g c.env.tr ∧ c.scripts = g.more

def TF2 (g : Cfg) (k : Nat) (c : Conn) : Prop := ∃ shown, SeenA g k shown c.env.tr ∧ LE g g.LfFill g.epi c
def AF2 (g : Cfg) (k : Nat) (c : Conn) : Prop := ∃ shown, SeenA g k shown c.env.tr ∧ AfterE g g.LfFill c
def FF2 (g : Cfg) (k : Nat) (c : Conn) : Prop := ∃ shown, SeenA g k shown c.env.tr ∧ FinE g g.LfFill c

def SAF2 (g : Cfg) (k : Nat) (rest : List HOp) (c : Conn) : Prop := FStage g c ∨ HFl2 g k rest c ∨ TF2 g k c
abbrev RAF2 (g : Cfg) (k : Nat) (rest : List HOp) (N : Nat) (c : Conn) : Prop :=
  GRes3 (SAF2 g k rest) (AF2 g k) (FF2 g k) N c

theorem SAF2.cong {g : Cfg} {k : Nat} {rest : List HOp} (c c' : Conn) (h : SAF2 g k rest c)
    (hph : c'.phase = c.phase) (hsc : c'.scripts = c.scripts) (hstop : c'.stop = c.stop)
    (hm : c'.env.mutex = c.env.mutex) (hs : TrSame c.env.tr c'.env.tr) : SAF2 g k rest c' := by
  rcases h with h | ⟨r, n', handed, dO, shown, h1, h2, hw, h3, h4, h5, h6, h7, h8, h9, h10⟩ | ⟨shown, h1, h2⟩
  · exact Or.inl (h.cong hph hsc hstop hm hs)
  · exact Or.inr (Or.inl ⟨r, n', handed, dO, shown, hph.trans h1, by
      obtain ⟨⟨G, hi⟩, a, b, ⟨O1, l1, l2⟩⟩ := h2
      exact ⟨⟨G, by rw [hs.input]; exact hi⟩, by rw [hm]; exact a, by rw [hm]; exact b,
        ⟨O1, by rw [hs.wlog]; exact l1, l2⟩⟩,
      hw, h3, h4, fun s hx => hs.mem (h5 s hx), h6, hs.ben h7, hstop.trans h8, hs.ev1 h9, hsc.trans h10⟩)
  · exact Or.inr (Or.inr ⟨shown, h1.step (fun _ hx => hs.mem hx), h2.cong hph hsc hstop hm hs⟩)

/-- one poll with the handler in its rounds -/
theorem hfl2_poll {g : Cfg} {a : Rec} {tail : Bytes} {n k : Nat} {rest : List HOp} (ok : AFOK2 g a tail n k rest)
    {c : Conn} (h : HFl2 g k rest c) : RAF2 g k rest 4 c := by
  obtain ⟨r, n', handed, dO, shown, hph, hs, hwr, hlen, hsh, hevs, hfu, hb, hstop, hev, hsc⟩ := h
  have hK := kaok ok.ab
  have hfin : g.KA.final = true := by simp [RCtx.final, Cfg.KA, ok.ab.role, nextInputStream, RT.stdin]
  have hfuel := handlerFuel_ge c.env r
  have hstep := C07.handler_step c r _ hph
  rcases rounds_runA hK hfin (L := g.L1) (P := []) k ok.hk rest n' (handlerFuel c.env r + scriptOf c) r
      c.env handed dO shown (by omega) hb hs hwr (by show g.content.length ≤ _; exact hlen) hsh hevs with
    ⟨n2, r', e', handed', dO', shown', a0, a1, a2, aw, a3, a4, a5, a6, a7, a8, a9⟩ |
    ⟨r', e', ops', shown', b1, bm, bat, bw, bpre, bev, bfa, bsegs, bts⟩
  · rw [a1] at hstep
    have hstep' : stepConn c = .halt ⟨.handler r'
        { ops := rounds n2 k ++ .fill :: rest, sub := .fresh, writers := [], propagate := true },
        e', c.scripts, c.stop⟩ .pending := hstep
    exact Or.inl (Or.inl ⟨_, (Halts.now hstep').mono (by omega), ⟨a7.w, a6, rfl⟩,
      Or.inr (Or.inl ⟨r', n2, handed', dO', shown', rfl, a2, aw, a3, a4, a5, by omega, hb.step a7, hstop,
        hev.step a7, hsc⟩), a8, a9⟩)
  · rw [b1] at hstep
    have hstep' : stepConn c = .next ⟨.closing r' .start g.st 0, e'.ev "HE(err:abort-request)",
        c.scripts, c.stop⟩ := by
      rw [ok.st]; exact hstep
    have hts2 : TStep c.env.tr (e'.tr.ev "HE(err:abort-request)") := bts.trans (TStep.ev _ (by decide))
    have hat2 : AtAbort g.KA g.L1 [] r' (e'.tr.ev "HE(err:abort-request)") := bat.congr rfl rfl
    have hfin' : REnd g.N r' (e'.tr.ev "HE(err:abort-request)").input := by
      refine ⟨bw, hat2.lock, hat2.pay, hat2.pad, hat2.wire, hat2.req, hat2.capK, hat2.mcK, ?_, hat2.sinv⟩
      have := hat2.sinv.1
      have hc := hat2.capK
      simp only [Str.Parser.freeStart] at this
      show r'.sp.raw.length ≤ g.cap
      have hc' : r'.sp.cap = g.cap := hc
      omega
    obtain ⟨heq2, hce⟩ := close_start_eq (g := g) (r := r') (t := e'.tr.ev "HE(err:abort-request)") hfin'
    obtain ⟨O1, hl1, hl2⟩ := hat2.log
    have hO : O1 ++ r'.sp.output = g.Ot := by rw [hl2, ok.ab.hOt]; rfl
    have hcore := eclose_out (g := g) (Lf := g.LfFill) (ep := g.epi)
      (c := ⟨.closing r' .start g.st 0, e'.ev "HE(err:abort-request)", c.scripts, c.stop⟩)
      (r := r') (r2 := closeReq r') (cs := .start) (rest := r'.sp.output) rfl
      (by show closePoll r' .start g.st 0 e'.mutex (e'.tr.ev "HE(err:abort-request)") = _
          rw [bm]; exact heq2) (.refl _) hce
      (by show (e'.tr.ev "HE(err:abort-request)").wlog ++ r'.sp.output ++ g.epi = g.LfFill
          rw [hl1, List.append_assoc g.L1, hO]; rfl)
      (hb.step hts2) hstop (hev.step hts2) hsc
    have hseen : SeenA g k shown' (e'.tr.ev "HE(err:abort-request)") :=
      ⟨bpre, bev.step (TStep.ev _ (by decide)), (TStep.ev e'.tr (by decide : isHS "HE(err:abort-request)" = false)).mem_events bfa⟩
    have hres : RAF2 g k rest 2 ⟨.closing r' .start g.st 0, e'.ev "HE(err:abort-request)", c.scripts, c.stop⟩ :=
      hcore.imp (fun _ hl x => Or.inr (Or.inr ⟨shown', hseen.step (fun _ hx => hl.ts.evm _ hx), x⟩))
        (fun _ hl x => ⟨shown', hseen.step (fun _ hx => hl.ts.evm _ hx), x⟩)
        (fun _ hl x => ⟨shown', hseen.step (fun _ hx => hl.ts.evm _ hx), x⟩)
    exact (GRes3.of_steps (Steps.one hstep') ⟨hts2.w, bsegs, rfl⟩ hres).mono (by omega)

/-- the first poll of the handler -/
theorem fill2_first {g : Cfg} {a : Rec} {tail : Bytes} {n k : Nat} {rest : List HOp} (ok : AFOK2 g a tail n k rest)
    (c : Conn) (hc : FirstCfg g c) : RAF2 g k rest 6 c := by
  obtain ⟨e1, hph, hlen, hwire, hlog, hm, hb, hstop, hev, hsc⟩ := hc
  rw [ok.hs] at hph
  have hstart : C03SI.Start g.KA.E (Str.Parser.fromParser g.cap g.p.request e1 g.mc) :=
    C03SI.start_fresh g.cap g.p.request e1 g.mc hlen (pid_of_wf ok.ab.wf).2 (Or.inl ok.ab.role)
  have hrinv : RInv g.KA (AReq.new (Str.Parser.fromParser g.cap g.p.request e1 g.mc)) e1 c.env.tr.input [] [] := by
    refine ⟨hstart.mtch, hstart.inv, rfl, rfl, rfl, hwire, fun x => ?_⟩
    have := C03SI.rem_start hstart x
    show refWire g.KA.E (e1 ++ x) = (Rem g.KA.E (Str.Parser.fromParser g.cap g.p.request e1 g.mc) x).pre [] []
    rw [this]; rfl
  have hwr : (AReq.new (Str.Parser.fromParser g.cap g.p.request e1 g.mc)).writeable = true := by
    simp [AReq.new, Str.Parser.fromParser, Preamble.request, ok.ab.role, inputStreams]
  have hst : RSt g.KA g.L1 [] (AReq.new (Str.Parser.fromParser g.cap g.p.request e1 g.mc)) c.env.mutex c.env.tr [] [] :=
    ⟨⟨e1, hrinv⟩, by rw [hm]; exact lockInv_free rfl, Or.inl hm, ⟨[], by rw [hlog, List.append_nil], rfl⟩⟩
  have hbs : BSt g.KA g.L1 [] (AReq.new (Str.Parser.fromParser g.cap g.p.request e1 g.mc)) c.env.mutex c.env.tr [] [] := by
    unfold BSt
    rw [hrinv.par]
    exact .of hst
  exact (hfl2_poll ok ⟨_, n, [], [], [], hph, hbs, hwr,
    by simp only [List.length_nil, Nat.zero_add]; exact ok.hn, rfl, (fun _ h => nomatch h), ok.hfu,
    hb, hstop, hev, hsc⟩).mono (by omega)

theorem tf2_poll {g : Cfg} {k : Nat} {rest : List HOp} {c : Conn} (h : TF2 g k c) : RAF2 g k rest 2 c := by
  obtain ⟨shown, hseen, h⟩ := h
  exact (le_poll h).imp
    (fun c' hl x => Or.inr (Or.inr ⟨shown, hseen.step (fun _ hx => hl.ts.evm _ hx), x⟩))
    (fun c' hl x => ⟨shown, hseen.step (fun _ hx => hl.ts.evm _ hx), x⟩)
    (fun c' hl x => ⟨shown, hseen.step (fun _ hx => hl.ts.evm _ hx), x⟩)

theorem saf2_poll {g : Cfg} {a : Rec} {tail : Bytes} {n k : Nat} {rest : List HOp} (ok : AFOK2 g a tail n k rest)
    {c : Conn} (h : SAF2 g k rest c) : RAF2 g k rest (2 * c.env.tr.input.length + 15) c := by
  rcases h with h | h | h
  · exact fstage_poll3 ok.fok (fun _ h => Or.inl h) (fill2_first ok) h
  · exact (hfl2_poll ok h).mono (by omega)
  · exact (tf2_poll h).mono (by omega)

/-- **The executor.** -/
theorem run_abort_fill2 {g : Cfg} {a : Rec} {tail : Bytes} {n k : Nat} {rest : List HOp}
    (ok : AFOK2 g a tail n k rest) {Z : Bytes}
    (hns : NoStuckW g.cap g.mc (g.U ++ Z))
    (hNF : ∀ F x, F ++ x ++ Z = g.U ++ Z → (run .header F g.mc).st.isFinal = false)
    (em : EndMode) (evs0 : List String) (c : Conn) (n0 fuel : Nat) (hst : FStage g c)
    (hem : c.env.tr.endMode = em) (hev0 : ∀ s ∈ evs0, s ∈ c.env.tr.events)
    (hsegs : c.env.segs = []) (hf : ans c.env.tr + 1 ≤ fuel) :
    ∃ c'' fin, runTask fuel c n0 none = (c'', fin) ∧
      (GEnd g.cap g.mc Z g.more (g.hs0 + 1)
          (fun i : List Bytes => g.p.flags.toNat % 2 = 1 ∧ taken k i <+: g.content)
          (fun _ => g.U ++ Z) (fun _ => g.LfFill)
          (fun i => hsEvent g.p.request :: faEvent :: i.map fEvent) em evs0 (ans c.env.tr) c'' fin ∨
       (fin = "RET" ∧ FF2 g k c'' ∧ c''.env.tr.endMode = em ∧ (∀ s ∈ evs0, s ∈ c''.env.tr.events))) :=
  run_stages3' (cap24 g) (fun _ _ => hns) (fun _ _ => hNF)
    (fun c c' h => SAF2.cong c c' h)
    (fun _ h => (saf2_poll ok h).imp (fun _ _ h => h) (fun c1 _ h => by
      obtain ⟨shown, hseen, haf⟩ := h
      obtain ⟨raw, hph, hw, hraw⟩ := haf.ph
      exact ⟨shown, ⟨haf.keep, hseen.1⟩,
        Or.inr ⟨raw, hph, by rw [hw], hraw, haf.log, haf.ben, haf.stop⟩,
        ⟨haf.sc, haf.mtx, haf.ev.1, fun s hs => by
          rcases List.mem_cons.1 hs with rfl | hs
          · exact haf.ev.2
          rcases List.mem_cons.1 hs with rfl | hs
          · exact hseen.2.2
          · obtain ⟨x, hx, rfl⟩ := List.mem_map.1 hs
            exact hseen.2.1 x hx⟩⟩) (fun _ _ h => h))
    em evs0 c n0 fuel (Or.inl hst) hem hev0 hsegs hf

end Fcgi.E2E
