import Fcgi.Proofs.E2EFilterAbortConn
import Fcgi.Proofs.E2EStagesP
/-!
# Reads of a Filter's handler on streams cut by an `AbortRequest`: the `writeable` flag

`Request::poll_input` sets `writeable` only when it returns `Ready` on the LAST input stream of the
role.  A Filter's handler that reads Stdin (not the last stream), or whose read of the Data stream is
cut by the `AbortRequest` before any content, therefore leaves the request NOT writeable — which is
what decides the shape of the epilogue `close()` sends (bare `EndRequest`).  `readAll_runAW` /
`readAll_runW`: the `readAll` lemmas of `Proofs/E2EAbortStr` / `Proofs/E2EHandler` with that fact added
(and: a read into a caller's buffer never fills the parser's internal stream buffer).
-/
namespace Fcgi.E2E
open Fcgi Fcgi.Req Fcgi.Str Fcgi.Async Fcgi.Run Fcgi.Spec Fcgi.C09E

/-- `parse` into a caller's buffer leaves the internal stream buffer alone -/
theorem parse_some_parsed (p : Str.Parser) (new : Bytes) (n : Nat) :
    (p.parse new (some n)).1.parsed = p.parsed := by
  unfold Str.Parser.parse
  split
  · rfl
  · split
    · rfl
    · have h := Str.loop_good { p with raw := p.raw ++ new } (some n)
        { stream := 0, streamEnd := p.stream.isNone, output := 0, delivered := [] }
      revert h
      generalize Str.loop { p with raw := p.raw ++ new } (some n)
        { stream := 0, streamEnd := p.stream.isNone, output := 0, delivered := [] } = out
      obtain ⟨p', pr⟩ := out
      cases pr with
      | ok st => exact fun h => h.1.choose_spec.dpar rfl
      | err e => exact fun h => h.1.choose_spec.choose_spec.dpar rfl
      | panic s => exact fun h => h.1.choose_spec.choose_spec.dpar rfl

theorem inLoop_some_parsed : ∀ (fuel : Nat) (r : AReq) (new : Bytes) (n : Nat) (m : MutexSt) (t : Transport)
    {r' : AReq} {m' : MutexSt} {t' : Transport} {res : IRes},
    inLoop fuel r new (some n) m t = (r', m', t', res) → r.sp.parsed = [] → r'.sp.parsed = [] := by
  intro fuel
  induction fuel with
  | zero => intro r new n m t r' m' t' res h hp; simp only [inLoop] at h; cases h; exact hp
  | succ k ih =>
    intro r new n m t r' m' t' res h hp
    have hps := parse_some_parsed r.sp new n
    rcases hpp : r.sp.parse new (some n) with ⟨sp, pr⟩
    rw [hpp] at hps
    simp only at hps
    rw [hp] at hps
    simp only [inLoop, hpp] at h
    cases pr with
    | panic s => cases h; exact hps
    | err e => cases h; exact hps
    | ok st =>
      simp only at h
      split at h
      · split at h <;> (cases h; exact hps)
      · rcases hpo : ({ r with sp := sp.compress } : AReq).pollOutput m t with ⟨r2, m2, t2, o⟩
        have hsp := (Run.pollOutput_spec hpo).2.1
        have hp2 : r2.sp.parsed = [] := by rw [hsp]; exact hps
        rw [hpo] at h
        cases o with
        | pending => cases h; exact hp2
        | err e => cases h; exact hp2
        | panic s => cases h; exact hp2
        | ready =>
          simp only at h
          repeat' (split at h)
          all_goals first
            | (cases h; exact hp2)
            | exact ih _ _ _ _ _ h hp2

theorem pollInput_some_parsed {r : AReq} {n : Nat} {m : MutexSt} {t : Transport}
    {r' : AReq} {m' : MutexSt} {t' : Transport} {res : IRes}
    (h : r.pollInput (some n) m t = (r', m', t', res)) (hp : r.sp.parsed = []) : r'.sp.parsed = [] := by
  simp only [AReq.pollInput, hp] at h
  repeat' (split at h)
  all_goals first
    | (cases ‹([] : Bytes) = _ :: _›)
    | (cases h; exact hp)
    | (have hsp := (Run.pollOutput_spec ‹_›).2.1
       cases h
       rw [hsp]; exact hp)
    | (have hsp := (Run.pollOutput_spec ‹_›).2.1
       exact inLoop_some_parsed _ _ _ _ _ _ h (by rw [hsp]; exact hp))

/-- `poll_input` never changes the selected stream -/
theorem inLoop_stream : ∀ (fuel : Nat) (r : AReq) (new : Bytes) (dest : Option Nat) (m : MutexSt) (t : Transport)
    {r' : AReq} {m' : MutexSt} {t' : Transport} {res : IRes},
    inLoop fuel r new dest m t = (r', m', t', res) → r'.sp.stream = r.sp.stream := by
  intro fuel
  induction fuel with
  | zero => intro r new dest m t r' m' t' res h; simp only [inLoop] at h; cases h; rfl
  | succ k ih =>
    intro r new dest m t r' m' t' res h
    have hps := (Str.parse_frame r.sp new dest).1
    rcases hpp : r.sp.parse new dest with ⟨sp, pr⟩
    rw [hpp] at hps
    simp only at hps
    simp only [inLoop, hpp] at h
    cases pr with
    | panic s => cases h; exact hps
    | err e => cases h; exact hps
    | ok st =>
      simp only at h
      split at h
      · split at h <;> (cases h; exact hps)
      · rcases hpo : ({ r with sp := sp.compress } : AReq).pollOutput m t with ⟨r2, m2, t2, o⟩
        have hsp := (Run.pollOutput_spec hpo).2.1
        have hp2 : r2.sp.stream = r.sp.stream := by rw [hsp]; exact hps
        rw [hpo] at h
        cases o with
        | pending => cases h; exact hp2
        | err e => cases h; exact hp2
        | panic s => cases h; exact hp2
        | ready =>
          simp only at h
          repeat' (split at h)
          all_goals first
            | (cases h; exact hp2)
            | exact (ih _ _ _ _ _ h).trans hp2

theorem pollInput_stream {r : AReq} {dest : Option Nat} {m : MutexSt} {t : Transport}
    {r' : AReq} {m' : MutexSt} {t' : Transport} {res : IRes}
    (h : r.pollInput dest m t = (r', m', t', res)) : r'.sp.stream = r.sp.stream := by
  simp only [AReq.pollInput] at h
  repeat' (split at h)
  all_goals first
    | (cases h; rfl)
    | (have hsp := (Run.pollOutput_spec ‹_›).2.1
       cases h
       rw [hsp])
    | (have hsp := (Run.pollOutput_spec ‹_›).2.1
       exact (inLoop_stream _ _ _ _ _ _ h).trans (by rw [hsp]))

/-- `poll_input` sets `writeable` only when it returns `Ready` on the last input stream -/
theorem inLoop_keepW : ∀ (fuel : Nat) (r : AReq) (new : Bytes) (dest : Option Nat) (m : MutexSt) (t : Transport)
    {r' : AReq} {m' : MutexSt} {t' : Transport} {res : IRes},
    inLoop fuel r new dest m t = (r', m', t', res) →
    r'.writeable = r.writeable ∨ ∃ k d, res = .ready k d ∧ r'.isFinalStream = true := by
  intro fuel
  induction fuel with
  | zero => intro r new dest m t r' m' t' res h; simp only [inLoop] at h; cases h; exact Or.inl rfl
  | succ n ih =>
    intro r new dest m t r' m' t' res h
    simp only [inLoop] at h
    repeat' (split at h)
    all_goals first
      | (cases h; exact Or.inl rfl)
      | (cases h; right; refine ⟨_, _, rfl, ?_⟩; simp_all [AReq.isFinalStream])
      | (have hw := (Run.pollOutput_spec ‹_›).2.2.1
         cases h
         exact Or.inl hw)
      | (have hw := (Run.pollOutput_spec ‹_›).2.2.1
         rcases ih _ _ _ _ _ h with h1 | h1
         · exact Or.inl (h1.trans hw)
         · exact Or.inr h1)

theorem pollInput_keepW {r : AReq} {dest : Option Nat} {m : MutexSt} {t : Transport}
    {r' : AReq} {m' : MutexSt} {t' : Transport} {res : IRes}
    (h : r.pollInput dest m t = (r', m', t', res)) :
    r'.writeable = r.writeable ∨ ∃ k d, res = .ready k d ∧ r'.isFinalStream = true := by
  simp only [AReq.pollInput] at h
  repeat' (split at h)
  all_goals first
    | (cases h; exact Or.inl rfl)
    | (have hw := (Run.pollOutput_spec ‹_›).2.2.1
       cases h
       exact Or.inl hw)
    | (have hw := (Run.pollOutput_spec ‹_›).2.2.1
       rcases inLoop_keepW _ _ _ _ _ _ h with h1 | h1
       · exact Or.inl (h1.trans hw)
       · exact Or.inr h1)

/-- `readAll` on a stream cut by an `AbortRequest` (`Proofs/E2EAbortStr.readAll_runA`), for a stream that
is not the last input stream of the role, or has no content before the abort: `writeable` is left as it
was; and the parser's internal stream buffer is empty after the failed read. -/
theorem readAll_runAW {K : RCtx} (hK : K.Aborted) (hnf : K.final = false ∨ K.C = []) {L P : Bytes} (rest : List HOp) (ws : List (Option Writer))
    (pr : Bool) :
    ∀ (N fuel : Nat) (r : AReq) (sub : HSub) (e : Run.Env) (dO : Bytes) (d : Nat),
      2 * ((K.C.length - (accOf sub).length) / 64) + 2 * e.tr.input.length + d < N → N + 1 ≤ fuel →
      (d = 0 → Idle r.sp) → Ben e.tr → RSt K L P r e.mutex e.tr (accOf sub) dO →
      (∃ (r' : AReq) (acc' : Bytes) (e' : Run.Env) (dO' : Bytes),
          handlerPoll fuel r { ops := .readAll :: rest, sub := sub, writers := ws, propagate := pr } e =
            (r', { ops := .readAll :: rest, sub := .readAllAcc acc', writers := ws, propagate := pr }, e', .pending) ∧
          RSt K L P r' e'.mutex e'.tr acc' dO' ∧ e'.segs = e.segs ∧ TStep e.tr e'.tr ∧
          e'.tr.woken = true ∧ ans e'.tr < ans e.tr ∧ r'.writeable = r.writeable) ∨
      (∃ (r' : AReq) (acc lost : Bytes) (e' : Run.Env) (fuel' : Nat),
          handlerPoll fuel r { ops := .readAll :: rest, sub := sub, writers := ws, propagate := pr } e =
            (if pr then (r', { ops := rest, sub := .fresh, writers := ws, propagate := pr },
                e'.ev (raEvent acc), .done (.error .abortRequest))
             else handlerPoll fuel' r' { ops := rest, sub := .fresh, writers := ws, propagate := pr }
                (e'.ev (raEvent acc))) ∧
          fuel ≤ fuel' + N ∧ acc ++ lost = K.C ∧ AtAbort K L P r' e'.tr ∧ e'.mutex = none ∧
          e'.segs = e.segs ∧ TStep e.tr e'.tr ∧ r'.writeable = r.writeable ∧ r'.sp.parsed = [] ∧
          r'.sp.stream = r.sp.stream) := by
  intro N
  induction N with
  | zero => intro fuel r sub e dO d hN; omega
  | succ N ih =>
    intro fuel r sub e dO d hN hf hd hb hs
    obtain ⟨f, rfl⟩ : ∃ f, fuel = f + 1 := ⟨fuel - 1, by omega⟩
    rw [hp_readAll]
    rcases hpi : r.pollInput (some 64) e.mutex e.tr with ⟨r1, m1, t1, res⟩
    obtain ⟨s1, s4, s5, s6⟩ := pollInput_simA hK (by omega : 0 < 64) hb hs hpi
    have s8 : r1.sp.parsed = [] := pollInput_some_parsed hpi hs.inv.choose_spec.par
    have s9 : r1.sp.stream = r.sp.stream := pollInput_stream hpi
    have s7 : r1.writeable = r.writeable := by
      rcases pollInput_keepW hpi with h | ⟨k, dd, hres, hfin⟩
      · exact h
      · exfalso
        subst hres
        obtain ⟨hk, hkpos, dO', hs', _⟩ := s4
        obtain ⟨G1, hi1⟩ := hs'.inv
        rcases hnf with hnf | hnf
        · rw [isFinal_of_match hi1.mt, hnf] at hfin; cases hfin
        · have hnow := (hi1.nowA hK).1
          have := congrArg List.length hnow
          simp only [List.length_append, hnf, List.length_nil] at this
          omega
    cases res with
    | pending =>
      left
      obtain ⟨⟨dO', hs'⟩, hw, ha⟩ := s4
      exact ⟨r1, accOf sub, { e with mutex := m1, tr := t1 }, dO', rfl, hs', rfl, s1, hw, ha, s7⟩
    | panic x => exact s4.elim
    | err x =>
      right
      obtain ⟨hx, hm1, ⟨lost, hl⟩, hat⟩ := s4
      subst hx hm1
      exact ⟨r1, accOf sub, lost, { e with mutex := none, tr := t1 }, f, rfl, by omega, hl, hat, rfl, rfl, s1, s7, s8, s9⟩
    | ready k dd =>
      obtain ⟨hk, hkpos, dO', hs', hlk, hm1, hfull⟩ := s4
      subst hm1
      cases k with
      | zero => omega
      | succ k' =>
        simp only
        obtain ⟨G1, hi1⟩ := hs'.inv
        have hnow := (hi1.nowA hK).1
        have hlenC : (accOf sub).length + (k' + 1) ≤ K.C.length := by
          have := congrArg List.length hnow
          simp only [List.length_append] at this
          omega
        have hinle := s1.tle.input_len
        have hdec : ∃ d1, (d1 = 0 → Idle r1.sp) ∧
            2 * ((K.C.length - (accOf sub ++ dd).length) / 64) + 2 * t1.input.length + d1 < N := by
          have hin' : d = 0 → t1.input.length < e.tr.input.length := by
            intro h0
            exact s5 (hd h0) _ _ rfl
          simp only [List.length_append]
          rcases hfull with h64 | hdr
          · refine ⟨1, fun h => by omega, ?_⟩
            by_cases h0 : d = 0
            · have := hin' h0; omega
            · omega
          · refine ⟨0, fun _ => hdr, ?_⟩
            by_cases h0 : d = 0
            · have := hin' h0; omega
            · omega
        obtain ⟨d1, hd1, hm1⟩ := hdec
        rcases ih f r1 (.readAllAcc (accOf sub ++ dd)) { e with mutex := none, tr := t1 } dO' d1 hm1
            (by omega) hd1 (hb.step s1) hs' with
          ⟨r2, acc2, e2, dO2, d1', d3, d5, d6, d8, d9, d10⟩ |
          ⟨r2, acc2, lost2, e2, f2, d1', d2, d3, d4, d5, d6, d7, d8, d8', d8s⟩
        · left
          refine ⟨r2, acc2, e2, dO2, d1', d3, d5, s1.trans d6, d8, ?_, d10.trans s7⟩
          have := s1.ans_le
          have d9' : ans e2.tr < ans t1 := d9
          omega
        · right
          exact ⟨r2, acc2, lost2, e2, f2, d1', by omega, d3, d4, d5, d6, s1.trans d7, d8.trans s7, d8', d8s.trans s9⟩


/-- `readAll` on a complete stream (`Proofs/E2EHandler.readAll_run`) that is not the last input stream
of the role: `writeable` is left as it was. -/
theorem readAll_runW {K : RCtx} (hK : K.OK) (hnf : K.final = false) {L P : Bytes} (rest : List HOp) (ws : List (Option Writer))
    (pr : Bool) :
    ∀ (N fuel : Nat) (r : AReq) (sub : HSub) (e : Run.Env) (dO : Bytes) (d : Nat),
      2 * ((K.C.length - (accOf sub).length) / 64) + 2 * e.tr.input.length + d < N → N + 1 ≤ fuel →
      (d = 0 → Idle r.sp ∨ accOf sub = K.C) → Ben e.tr → RSt K L P r e.mutex e.tr (accOf sub) dO →
      (∃ (r' : AReq) (acc' : Bytes) (e' : Run.Env) (dO' : Bytes),
          handlerPoll fuel r { ops := .readAll :: rest, sub := sub, writers := ws, propagate := pr } e =
            (r', { ops := .readAll :: rest, sub := .readAllAcc acc', writers := ws, propagate := pr }, e', .pending) ∧
          RSt K L P r' e'.mutex e'.tr acc' dO' ∧ e'.segs = e.segs ∧ TStep e.tr e'.tr ∧
          e'.tr.woken = true ∧ ans e'.tr < ans e.tr ∧ r'.writeable = r.writeable) ∨
      (∃ (r' : AReq) (e' : Run.Env) (fuel' : Nat),
          handlerPoll fuel r { ops := .readAll :: rest, sub := sub, writers := ws, propagate := pr } e =
            handlerPoll fuel' r' { ops := rest, sub := .fresh, writers := ws, propagate := pr }
              (e'.ev (rEvent K.C)) ∧
          fuel + 2 * e'.tr.input.length ≤ fuel' + N ∧ RSt K L P r' e'.mutex e'.tr K.C K.O ∧ r'.lock = .none ∧ e'.mutex = none ∧
          r'.sp.pay = 0 ∧ r'.sp.pad = 0 ∧ r'.sp.raw ++ e'.tr.input = K.U ∧
          (K.final = true → r'.writeable = true) ∧
          e'.segs = e.segs ∧ TStep e.tr e'.tr ∧ r'.writeable = r.writeable) := by
  intro N
  induction N with
  | zero => intro fuel r sub e dO d hN; omega
  | succ N ih =>
    intro fuel r sub e dO d hN hf hd hb hs
    obtain ⟨f, rfl⟩ : ∃ f, fuel = f + 1 := ⟨fuel - 1, by omega⟩
    rw [hp_readAll]
    rcases hpi : r.pollInput (some 64) e.mutex e.tr with ⟨r1, m1, t1, res⟩
    obtain ⟨s1, s4, s5⟩ := pollInput_sim hK (by omega : 0 < 64) hb hs hpi
    have s7 : r1.writeable = r.writeable := by
      rcases pollInput_keepW hpi with h | ⟨k, dd, hres, hfin⟩
      · exact h
      · exfalso
        subst hres
        obtain ⟨hk, dO', hs', _⟩ := s4
        obtain ⟨G1, hi1⟩ := hs'.inv
        rw [isFinal_of_match hi1.mt, hnf] at hfin
        cases hfin
    cases res with
    | pending =>
      left
      obtain ⟨⟨dO', hs'⟩, hw, ha⟩ := s4
      exact ⟨r1, accOf sub, { e with mutex := m1, tr := t1 }, dO', rfl, hs', rfl, s1, hw, ha, s7⟩
    | err x => exact s4.elim
    | panic x => exact s4.elim
    | ready k dd =>
      obtain ⟨hk, dO', hs', hlk, hm1, hor, hfull, hwr⟩ := s4
      subst hm1
      cases k with
      | zero =>
        right
        have hd0 : dd = [] := List.length_eq_zero_iff.1 hk.symm
        subst hd0
        rcases hor with hor | ⟨a1, a2, a3, a4, a5⟩
        · omega
        · simp only [List.append_nil] at a1 hs'
          refine ⟨r1, { e with mutex := none, tr := t1 }, f, ?_,
            by have := s1.tle.input_len; show f + 1 + 2 * t1.input.length ≤ f + (N + 1); omega,
            ?_, hlk, rfl, a3, a4, a5, hwr, rfl, s1, s7⟩
          · simp only [a1]
          · rw [← a1, ← a2]; exact hs'
      | succ k' =>
        simp only
        obtain ⟨G1, hi1⟩ := hs'.inv
        have hnow := (hi1.now hK).1
        have hlenC : (accOf sub).length + (k' + 1) ≤ K.C.length := by
          have := congrArg List.length hnow
          simp only [List.length_append] at this
          omega
        have hinle := s1.tle.input_len
        have hdec : ∃ d1, (d1 = 0 → Idle r1.sp ∨ accOf sub ++ dd = K.C) ∧
            2 * ((K.C.length - (accOf sub ++ dd).length) / 64) + 2 * t1.input.length + d1 < N := by
          have hin' : d = 0 → t1.input.length < e.tr.input.length := by
            intro h0
            rcases hd h0 with hdr | hfin
            · exact s5 hdr _ _ rfl
            · rw [hfin] at hlenC; omega
          simp only [List.length_append]
          rcases hfull with h64 | hdr | ⟨hfin, _⟩
          · refine ⟨1, fun h => by omega, ?_⟩
            by_cases h0 : d = 0
            · have := hin' h0; omega
            · omega
          · refine ⟨0, fun _ => Or.inl hdr, ?_⟩
            by_cases h0 : d = 0
            · have := hin' h0; omega
            · omega
          · refine ⟨0, fun _ => Or.inr hfin, ?_⟩
            by_cases h0 : d = 0
            · have := hin' h0; omega
            · omega
        obtain ⟨d1, hd1, hm1⟩ := hdec
        rcases ih f r1 (.readAllAcc (accOf sub ++ dd)) { e with mutex := none, tr := t1 } dO' d1 hm1
            (by omega) hd1 (hb.step s1) hs' with
          ⟨r2, acc2, e2, dO2, d1', d3, d5, d6, d8, d9, dW⟩ |
          ⟨r2, e2, f2, d1', d2, d3, d4, d5, d6, d7, d8, dw, d9, d10, d11⟩
        · left
          refine ⟨r2, acc2, e2, dO2, d1', d3, d5, s1.trans d6, d8, ?_, dW.trans s7⟩
          have := s1.ans_le
          have d9' : ans e2.tr < ans t1 := d9
          omega
        · right
          exact ⟨r2, e2, f2, d1', by omega, d3, d4, d5, d6, d7, d8, dw, d9, s1.trans d10, d11.trans s7⟩


end Fcgi.E2E
