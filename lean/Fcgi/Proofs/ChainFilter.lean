import Fcgi.Proofs.ChainSkip
import Fcgi.Proofs.E2EFilterStr
/-!
# C05 (4) at the sync level — a Filter's stream parser: the Data phase and the skip

The two-view idea of `Proofs/E2EFilterRef`: while the Filter's parser reads `Data` it follows the
reference of `⟨id, 3, 8⟩` (under which the Stdin records in front are passed over,
`E2E.refWire8_stdin`); once it ignores the stream (`set_stream(None)`) and stands past the Stdin
records, its view follows `⟨id, 1, 5⟩` on the Data records (`E2E.ref_81`, `E2E.R2f`).  `r2f_start`
builds `R2f` from the sync-level ledger `Str.ops_refS` of the Data phase (the async `r2f_of_switch`
without `RInvB`); `r2f_ops_any`: every legal call keeps it; `filter_skip_replies`: at the record
boundary the replies generated since the parser entered stream `Data` are exactly those owed for the
Stdin records passed over and the Data records consumed.
-/
namespace Fcgi.C05C
open Fcgi Fcgi.Req Fcgi.Str Fcgi.Spec Fcgi.C03SI
open Fcgi.E2E (Pos R2f R2fCtx E8 E1 view1 StdinRec DataRec owedI serAll_app)

/-- **From the Data phase to the view.**  `p1`: the Filter's parser with stream `Data` active at a
record boundary (`Start`), in front of the Stdin records `R5` still in the buffer / to come and the
Data records `Rd`; `B`: its history in stream `Data`; the parser has been given all of `R5` (`hG`)
and stands inside the Data records (`hpos`). -/
theorem r2f_start {id mc cap : Nat} {R5 Rd : List Rec} (h5 : ∀ r ∈ R5, StdinRec id r) (hc : R2fCtx id mc cap Rd)
    {p1 : Str.Parser} (h0 : Start (E8 id mc) p1) (hcap : p1.cap = cap) {B : List Op} (hl : LegalAll p1 B)
    (hns : NoSwitch (E8 id mc) B) {Gd fut : Bytes} (hG : p1.raw ++ fedBytes B = serAll R5 ++ Gd)
    (hw : Gd ++ fut = serAll Rd)
    (hpos : Pos Rd (applyOps p1 B).raw (applyOps p1 B).pay (applyOps p1 B).pad fut) :
    R2f id mc cap Rd (owedI id mc R5) ((applyOps p1 B).switchTo none) Gd fut (C03S.grownAll p1 B) := by
  have hR := E2E.data_recsOK1 hc.recs
  obtain ⟨-, hmt, hsinv, -⟩ := ops_refS (E := E8 id mc) (x := []) B p1 h0.mtch h0.inv hl hns
  have hcapB : (applyOps p1 B).cap = cap := by rw [(C05.applyOps_frame B p1).1, hcap]
  refine ⟨⟨rfl, hmt.id, hpos⟩, ⟨hmt.id, rfl, rfl, hmt.mc, (by show 5 ∈ inputStreams 1; decide)⟩, ?_, hcapB, rfl,
    hw, ?_⟩
  · obtain ⟨h1, h2, h3, h4, _, h6⟩ := hsinv
    refine ⟨?_, h2, h3, ?_, Or.inr ⟨5, rfl, (by show 5 ∈ inputStreams 1; decide)⟩, h6⟩
    · simp only [Str.Parser.freeStart, view1, Str.Parser.switchTo, Str.Parser.discardStream, List.length_nil] at h1 ⊢
      omega
    · show match (if (applyOps p1 B).state == .stream then SState.skip else (applyOps p1 B).state) with
        | .values v => v < 8 | _ => True
      cases hst : (applyOps p1 B).state with
      | values v => rw [hst] at h4; exact h4
      | stream => trivial
      | skip => trivial
  · intro x hx
    have hxf : x <+: fut := by
      rw [← hw] at hx
      exact (List.prefix_append_right_inj Gd).1 hx
    have hclean0 : E2E.CleanW1 id 0 0 (Gd ++ x) := E2E.clean_recs1 id Rd hR _ hx
    have hclean1 : E2E.CleanW1 id (applyOps p1 B).pay (applyOps p1 B).pad ((applyOps p1 B).raw ++ x) :=
      E2E.clean_pos1 hR hpos ((List.prefix_append_right_inj _).2 hxf)
    -- the ledger of the Data phase, for this `x`
    obtain ⟨lost, -, -, -, c2, c3, c4, -⟩ := ops_refS (E := E8 id mc) (x := x) B p1 h0.mtch h0.inv hl hns
    rw [rem_start h0, ← List.append_assoc, hG, List.append_assoc, E2E.refWire8_stdin id mc h5] at c2 c3 c4
    simp only [RefOut.pre_out, RefOut.pre_verdict, RefOut.pre_unread] at c2 c3 c4
    have hA0 := E2E.ref_81 id mc hclean0 .skip
    have hA := E2E.ref_81 id mc hclean1 (applyOps p1 B).state
    rw [ref_eq_refWire, show E2E.sw .skip = .skip from rfl, ref_eq_refWire] at hA0
    have hst : (view1 ((applyOps p1 B).switchTo none)).state = E2E.sw (applyOps p1 B).state := by
      show (if (applyOps p1 B).state == .stream then SState.skip else (applyOps p1 B).state) = _
      cases (applyOps p1 B).state <;> rfl
    have hrem : Rem (E1 id mc) (view1 ((applyOps p1 B).switchTo none)) x =
        ref (E1 id mc) (E2E.sw (applyOps p1 B).state) (applyOps p1 B).pay (applyOps p1 B).pad ((applyOps p1 B).raw ++ x) := by
      unfold Rem
      rw [hst]
      rfl
    rw [hrem]
    unfold Rem at c2 c3 c4
    rcases hA0 with ⟨a1, a2⟩ | ⟨a1, a2⟩ <;> rcases hA with ⟨b1, b2⟩ | ⟨b1, b2⟩
    · rw [a2, b2]
      simp only [RefOut.pre, List.nil_append]
      rw [← c2, ← c4]
    · exact absurd (c3 ▸ a1) b1
    · exact absurd (c3 ▸ b1 : (refWire (E8 id mc) (Gd ++ x)).verdict = .more) a1
    · rw [a2, b2, RefOut.pre_pre, RefOut.pre_pre, ← c4]
      simp only [List.nil_append]
      rw [← c2]

/-- **Every legal operation keeps `R2f`** (and ignore mode), its replies appended to the ledger. -/
theorem r2f_ops_any {id mc cap : Nat} {R : List Rec} {P : Bytes} (hc : R2fCtx id mc cap R) : ∀ (N : List Op) (p : Str.Parser)
    (G fut dO : Bytes), R2f id mc cap R P p G (fedBytes N ++ fut) dO → Ign p → SInv p → LegalAll p N →
    ∃ G', R2f id mc cap R P (applyOps p N) G' fut (dO ++ C03S.grownAll p N) := by
  intro N
  induction N with
  | nil => intro p G fut dO h _ _ _; exact ⟨G, by simpa [fedBytes, C03S.grownAll] using h⟩
  | cons op t ih =>
    intro p G fut dO h hig hinv hl
    have hig' := (applyOp_ign hinv hig hl.1).1
    have hinv' := (Str.step_safe hinv hl.1).1
    cases op with
    | parse new dest =>
      have hEq : p.parse new dest = p.parse new none := by
        cases dest with
        | none => rfl
        | some n => exact parse_ign_dest hinv hig hl.1
      have h' : R2f id mc cap R P p G (new ++ (fedBytes t ++ fut)) dO := by
        simpa [fedBytes, List.append_assoc] using h
      obtain ⟨p', st, o, hp, ho, -, -, hr2, -⟩ := E2E.parse_r2f hc h' hl.1.2
      have hap : applyOp p (.parse new dest) = p' := by simp [applyOp, hEq, hp]
      have hgr : C03S.outGrowth p (.parse new dest) = o := by
        simp [C03S.outGrowth, hEq, hp, ho]
      rw [hap] at hig' hinv'
      obtain ⟨G', hG⟩ := ih p' (G ++ new) fut (dO ++ o) hr2 hig' hinv' (by rw [← hap]; exact hl.2)
      refine ⟨G', ?_⟩
      rw [Str.applyOps_cons]
      simp only [C03S.grownAll]
      rw [hap, hgr, ← List.append_assoc]
      exact hG
    | compress =>
      have h' : R2f id mc cap R P p.compress G (fedBytes t ++ fut) dO := by
        have := E2E.R2f.compress h
        simpa [fedBytes] using this
      obtain ⟨G', hG⟩ := ih p.compress G fut dO h' hig' hinv' hl.2
      refine ⟨G', ?_⟩
      show R2f id mc cap R P (applyOps p.compress t) G' fut (dO ++ ([] ++ C03S.grownAll p.compress t))
      rw [List.nil_append]; exact hG
    | consumeOutput k =>
      have h0 : R2f id mc cap R P p G (fedBytes t ++ fut) dO := by simpa [fedBytes] using h
      have h' : R2f id mc cap R P (p.consumeOutput k) G (fedBytes t ++ fut) dO :=
        ⟨⟨h0.ign.strm, h0.ign.rid, h0.ign.pos⟩, h0.mt.of_eq rfl rfl rfl, h0.sinv, h0.capK, h0.par, h0.wire, h0.hist⟩
      obtain ⟨G', hG⟩ := ih (p.consumeOutput k) G fut dO h' hig' hinv' hl.2
      refine ⟨G', ?_⟩
      show R2f id mc cap R P (applyOps (p.consumeOutput k) t) G' fut (dO ++ ([] ++ C03S.grownAll (p.consumeOutput k) t))
      rw [List.nil_append]; exact hG
    | consumeStream k =>
      have h0 : R2f id mc cap R P p G (fedBytes t ++ fut) dO := by simpa [fedBytes] using h
      have h' : R2f id mc cap R P (p.consumeStream k) G (fedBytes t ++ fut) dO :=
        ⟨⟨h0.ign.strm, h0.ign.rid, h0.ign.pos⟩, h0.mt.of_eq rfl rfl rfl, SInv_consumeStream h0.sinv k, h0.capK,
          by show p.parsed.drop _ = []; rw [h0.par]; simp, h0.wire, h0.hist⟩
      obtain ⟨G', hG⟩ := ih (p.consumeStream k) G fut dO h' hig' hinv' hl.2
      refine ⟨G', ?_⟩
      show R2f id mc cap R P (applyOps (p.consumeStream k) t) G' fut (dO ++ ([] ++ C03S.grownAll (p.consumeStream k) t))
      rw [List.nil_append]; exact hG
    | setStream st =>
      have hsame : applyOp p (.setStream st) = p := by
        simp only [applyOp]
        cases st with
        | none => rw [Str.setStream_none, if_pos hig.1]
        | some s => rw [C18.setStream_some_of_none_rejected p s hig.1]
      have h0 : R2f id mc cap R P p G (fedBytes t ++ fut) dO := by simpa [fedBytes] using h
      obtain ⟨G', hG⟩ := ih p G fut dO h0 hig hinv (by rw [← hsame]; exact hl.2)
      refine ⟨G', ?_⟩
      rw [Str.applyOps_cons]
      simp only [C03S.grownAll, C03S.outGrowth, List.nil_append]
      rw [hsame]; exact hG


/-- **The replies of a Filter's parser over its Data phase and the skip.** -/
theorem filter_skip_replies {id mc cap : Nat} {R5 Rd : List Rec} (h5 : ∀ r ∈ R5, StdinRec id r)
    (hc : R2fCtx id mc cap Rd) {p1 : Str.Parser} (h0 : Start (E8 id mc) p1) (hcap : p1.cap = cap)
    {B N : List Op} (hl : LegalAll p1 (B ++ Op.setStream none :: N)) (hns : NoSwitch (E8 id mc) B)
    {Gd fut : Bytes} (hG : p1.raw ++ fedBytes B = serAll R5 ++ Gd) (hw : Gd ++ (fedBytes N ++ fut) = serAll Rd)
    (hpos : Pos Rd (applyOps p1 B).raw (applyOps p1 B).pay (applyOps p1 B).pad (fedBytes N ++ fut))
    (hb : (applyOps p1 (B ++ Op.setStream none :: N)).isRecordBoundary = true) :
    ∃ d rs, Rd = d ++ rs ∧
      C03S.grownAll p1 (B ++ Op.setStream none :: N) = owedI id mc R5 ++ owedI id mc d ∧
      (applyOps p1 (B ++ Op.setStream none :: N)).raw ++ fut = serAll rs := by
  obtain ⟨hlB, hlN⟩ := C02.LegalAll_append.1 hl
  obtain ⟨-, hmt, -, -⟩ := ops_refS (E := E8 id mc) (x := []) B p1 h0.mtch h0.inv hlB hns
  have hsw : applyOp (applyOps p1 B) (.setStream none) = (applyOps p1 B).switchTo none := by
    simp only [applyOp, Str.setStream_none]
    rw [if_neg (by rw [hmt.strm]; simp)]
  have hst := r2f_start h5 hc h0 hcap hlB hns hG hw hpos
  have hlN' : LegalAll ((applyOps p1 B).switchTo none) N := by rw [← hsw]; exact hlN.2
  have hignS : Str.Ign ((applyOps p1 B).switchTo none) := by
    rw [← hsw]; exact ign_of_setNone _ (fun h => by rw [hmt.strm] at h; cases h)
  have hinvS : SInv ((applyOps p1 B).switchTo none) := by
    rw [← hsw]; exact (Str.step_safe (Str.trace_safe h0.inv hlB).1 hlN.1).1
  obtain ⟨G', hr2⟩ := r2f_ops_any hc N _ _ fut _ hst hignS hinvS hlN'
  have happ : applyOps p1 (B ++ Op.setStream none :: N) = applyOps ((applyOps p1 B).switchTo none) N := by
    rw [applyOps_append, Str.applyOps_cons, hsw]
  have hgr : C03S.grownAll p1 (B ++ Op.setStream none :: N) =
      C03S.grownAll p1 B ++ C03S.grownAll ((applyOps p1 B).switchTo none) N := by
    rw [grownAll_append]
    simp [C03S.grownAll, C03S.outGrowth, hsw]
  rw [happ] at hb ⊢
  rw [hgr]
  have hb' : (applyOps ((applyOps p1 B).switchTo none) N).pay = 0 ∧
      (applyOps ((applyOps p1 B).switchTo none) N).pad = 0 := by
    simpa [Str.Parser.isRecordBoundary] using hb
  have hp := hr2.ign.pos
  rw [hb'.1, hb'.2] at hp
  obtain ⟨rs, ⟨d, hd⟩, hrs⟩ := pos_boundary hp
  refine ⟨d, rs, hd.symm, ?_, hrs⟩
  have hnow := (hr2.now hc).2.1
  have hrsR : ∀ r ∈ rs, DataRec id r := fun r hr => hc.recs r (by rw [← hd]; exact List.mem_append_right _ hr)
  have hrem : (Rem (E1 id mc) (view1 (applyOps ((applyOps p1 B).switchTo none) N)) fut).out = owedI id mc rs := by
    unfold Rem
    show (ref (E1 id mc) (applyOps ((applyOps p1 B).switchTo none) N).state
      (applyOps ((applyOps p1 B).switchTo none) N).pay (applyOps ((applyOps p1 B).switchTo none) N).pad
      ((applyOps ((applyOps p1 B).switchTo none) N).raw ++ fut)).out = _
    rw [hb'.1, hb'.2, ref_eq_refWire, hrs, E2E.refWire_view1 id mc hrsR]
  rw [hrem, ← hd, owedI_append, ← List.append_assoc] at hnow
  exact List.append_cancel_right hnow

end Fcgi.C05C
