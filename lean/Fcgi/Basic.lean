def hello := "world"
