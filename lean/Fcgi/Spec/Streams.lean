import Fcgi.Spec.Wire
/-!
# Specification side for input streams (C02 / C05 / C09)
-/
namespace Fcgi.Spec
open Fcgi Fcgi.Req

/-- Records that may be interleaved while the input streams of request `id` are being sent without
belonging to them: anything except Stdin / Data / AbortRequest records carrying the request's id. -/
def StreamNoise (id : Nat) (r : Rec) : Prop :=
  r.WF ∧ ¬ (r.id = id ∧ (r.rtype.toNat = RT.stdin ∨ r.rtype.toNat = RT.data ∨ r.rtype.toNat = RT.abortRequest))

/-- The records of one input stream `s` of request `id` carrying `content`: data records (1..65535
bytes each, any padding) whose contents concatenate to `content`, noise in between, closed by the
stream's empty record. -/
inductive StreamRecs (id s : Nat) : Bytes → List Rec → Prop
  | term (pad : Bytes) (res : UInt8) (h : pad.length < 256) :
      StreamRecs id s [] [{ rtype := UInt8.ofNat s, id := id, content := [], pad := pad, reserved := res }]
  | noise {content rs} (r : Rec) (h : StreamNoise id r) (t : StreamRecs id s content rs) :
      StreamRecs id s content (r :: rs)
  | chunk {content rs} (c pad : Bytes) (res : UInt8) (hc : 0 < c.length ∧ c.length < 65536) (hp : pad.length < 256)
      (t : StreamRecs id s content rs) :
      StreamRecs id s (c ++ content) ({ rtype := UInt8.ofNat s, id := id, content := c, pad := pad, reserved := res } :: rs)

/-- The replies owed for the noise inside a stream's record list. -/
def owedStream (id s maxConns : Nat) (rs : List Rec) : Bytes :=
  rs.flatMap fun r => if r.rtype.toNat == s && r.id == id then [] else owed (some id) maxConns r

end Fcgi.Spec
