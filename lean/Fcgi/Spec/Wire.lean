import Fcgi.Model.ReqParser
import Fcgi.Model.StreamParser
/-!
# Wire grammar and the record-level specification (`RecSpec`)

Short enough to read in minutes.  This *is* the statement of C01 / C02 / C04 (sync parts): what a
sequence of records means, independently of how the parsers chew through the bytes.
-/
namespace Fcgi.Spec
open Fcgi Fcgi.Req

/-- One FastCGI record as sent by a client (version 1; any type byte, any reserved byte). -/
structure Rec where
  rtype : UInt8
  id : Nat
  content : Bytes
  pad : Bytes
  reserved : UInt8 := 0
deriving Repr, DecidableEq

/-- Field widths of the wire format. -/
def Rec.WF (r : Rec) : Prop := r.id < 65536 ∧ r.content.length < 65536 ∧ r.pad.length < 256

/-- Serialisation: 8-byte header, content, padding. -/
def Rec.ser (r : Rec) : Bytes :=
  [1, r.rtype] ++ toBe16 r.id ++ toBe16 r.content.length ++ [UInt8.ofNat r.pad.length, r.reserved] ++
    r.content ++ r.pad

def serAll (rs : List Rec) : Bytes := rs.flatMap Rec.ser

/-- The reply the FastCGI specification prescribes for a record that is not part of the request
in progress (`cur = none`: no request in progress; `some id`: request `id` in progress).
Everything not listed is ignored silently. -/
def owed (cur : Option Nat) (maxConns : Nat) (r : Rec) : Bytes :=
  if !RT.valid r.rtype.toNat then UnknownType.toRecord r.rtype r.id
  else if r.rtype.toNat == RT.getValues && r.id == 0 then
    if r.content.isEmpty then [] else Vars.responseRecord (Vars.extend 0 (NV.all r.content).1) maxConns
  else if r.rtype.toNat == RT.beginRequest then
    match cur with
    | some c => if r.id != c then EndRequest.toRecord { appStatus := 0, protocolStatus := 1 } r.id else []
    | none =>
      match r.content with
      | [r0, r1, _, _, _, _, _, _] =>
        if !roleValid (be16 r0 r1) then EndRequest.toRecord { appStatus := 0, protocolStatus := 3 } r.id else []
      | _ => []
  else []

/-- Records that may be interleaved while no request is in progress without starting one or being
fatal: anything except a BeginRequest that is valid (known role) or malformed (wrong length). -/
def IdleNoise (r : Rec) : Prop :=
  r.WF ∧ (r.rtype.toNat = RT.beginRequest →
    ∃ r0 r1 f a b c d e, r.content = [r0, r1, f, a, b, c, d, e] ∧ roleValid (be16 r0 r1) = false)

/-- Records that may be interleaved during the Params stream of request `id` without belonging to
it: anything except Params / AbortRequest records carrying the request's id. -/
def ParamsNoise (id : Nat) (r : Rec) : Prop :=
  r.WF ∧ ¬ (r.id = id ∧ (r.rtype.toNat = RT.params ∨ r.rtype.toNat = RT.abortRequest))

/-- What a client sends for one request preamble. -/
structure Preamble where
  id : Nat
  role : Nat
  flags : UInt8
  pairs : List (Bytes × Bytes)

/-- The request the parser must end up holding: last value wins, names lossily decoded and
ASCII-uppercased (`makeCgivar`), matched exactly after that normalisation. -/
def Preamble.request (p : Preamble) : Request :=
  { id := p.id, role := p.role, flags := p.flags, env := envExtend [] p.pairs }

/-- A well-formed preamble as a record sequence: idle noise, BeginRequest, then Params records whose
contents concatenate to the encoded pairs (cut anywhere, any padding) with Params-phase noise in
between, closed by an empty Params record. -/
inductive ParamsRecs (id : Nat) : Bytes → List Rec → Prop
  | done (pad : Bytes) (res : UInt8) (h : pad.length < 256) :
      ParamsRecs id [] [{ rtype := 4, id := id, content := [], pad := pad, reserved := res }]
  | noise {payload rs} (r : Rec) (h : ParamsNoise id r) (t : ParamsRecs id payload rs) :
      ParamsRecs id payload (r :: rs)
  | chunk {payload rs} (c pad : Bytes) (res : UInt8) (hc : 0 < c.length ∧ c.length < 65536) (hp : pad.length < 256)
      (t : ParamsRecs id payload rs) :
      ParamsRecs id (c ++ payload) ({ rtype := 4, id := id, content := c, pad := pad, reserved := res } :: rs)

inductive WellFormedPreamble (p : Preamble) : List Rec → Prop
  | noise {rs} (r : Rec) (h : IdleNoise r) (t : WellFormedPreamble p rs) : WellFormedPreamble p (r :: rs)
  | begin {rs} (pad : Bytes) (res : UInt8) (body5 : Bytes) (hb : body5.length = 5) (hp : pad.length < 256)
      (hid : 0 < p.id ∧ p.id < 65536) (hrole : roleValid p.role = true)
      (hl : ∀ q ∈ p.pairs, q.1.length ≤ VarInt.maxVal ∧ q.2.length ≤ VarInt.maxVal)
      (t : ParamsRecs p.id (p.pairs.flatMap NV.enc) rs) :
      WellFormedPreamble p ({ rtype := 1, id := p.id, content := toBe16 p.role ++ [p.flags] ++ body5, pad := pad, reserved := res } :: rs)

/-- The replies owed for a well-formed preamble's record list, in arrival order. -/
def owedPreamble (p : Preamble) (maxConns : Nat) : List Rec → Bytes
  | [] => []
  | r :: rs =>
    if r.rtype.toNat == RT.beginRequest && r.id == p.id && r.content.length == 8 &&
       (match r.content with | r0 :: r1 :: _ => roleValid (be16 r0 r1) | _ => false) then
      -- the request starts here: from now on replies are owed relative to `some p.id`
      rs.flatMap (fun x => if x.rtype.toNat == RT.params && x.id == p.id then [] else owed (some p.id) maxConns x)
    else owed none maxConns r ++ owedPreamble p maxConns rs

/-- Feeding `wire` in `chunks` to a parser with buffer capacity respected: the concatenated output
and the final parser.  `none` if some call panics or a chunk exceeds the free space (illegal feeding). -/
def feed (p : Parser) : List Bytes → Option (Parser × Bytes)
  | [] => some (p, [])
  | c :: cs =>
    if p.state.isFinal then some (p, [])        -- the caller stops reading once `done` was reported
    else if c.length > p.free then none
    else match p.parse c with
      | (_, none) => none
      | (p', some y) => (feed p' cs).map (fun r => (r.1, y.output ++ r.2))

end Fcgi.Spec
