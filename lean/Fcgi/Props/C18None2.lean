import Fcgi.Proofs.StrHostileNone
import Fcgi.Props.C18None
import Fcgi.Props.C04Hostile
/-!
# C18 / C03 — after `set_stream(None)`: the replies ARE the reference's, chunking does not matter

`Props/C18None.lean` left `none_chunk_invariance_full` open.  `Proofs/StrHostileNone.lean` redoes the hostile-input
simulation of `Proofs/StrHostile.lean` for a parser with no active stream (`MatchN`: `stream = none`, reference
configuration `cfgN p = ⟨id, role, 0, max_conns⟩` — with the stream type 0, which is no input stream, every own-id
input-stream record classifies as noise, `rclass_cfgN_input`).  Here, for ARBITRARY byte strings (any types and ids,
own-id `AbortRequest`, foreign versions, truncated tails) and any legal history of `parse` (any chunking, any `dest`),
`consume_stream`, `compress`, `consume_output`:

* `none_replies_ref` — for a drained history the replies generated are exactly `(refWire (cfgN p) w).out`
  (= `C04H.streamReplies`: one `Spec.owed` per record in front of the stop position, then the tail's), the unread bytes
  are the reference's unread remainder, and the state is terminal with the reference's verdict (fatal / abort cases
  included: the header in question is left in place);
* `none_chunk_invariance_partial` — two drained histories over the same bytes agree on the replies and on the unread
  bytes: `none_chunk_invariance_full` MINUS its last two conjuncts.

What is still missing of `none_chunk_invariance_full`: the equality of the counters `pay` / `pad` of the two end
states.  The reference relation (`Rem`) cannot give it — in state `Skip` the reference treats payload and padding
alike — it needs a position ledger (bytes consumed so far = a function of the bytes fed and the unread bytes); not
done.  The statement is not refuted either; on the example and on the crate the counters agree.
-/
namespace Fcgi.C18N
open Fcgi Fcgi.Str Fcgi.Spec
open Fcgi.Req (Request PErr)

/-- with the reference configuration of a parser without active stream, every input-stream record — of whatever id —
is noise: nothing is delivered, nothing held back -/
theorem rclass_cfgN_input (p : Parser) (r : Rec) (hin : RT.isInputStream r.rtype.toNat = true) :
    rclass (cfgN p) r = .noise := by
  have hs : ¬ r.rtype.toNat = (cfgN p).s := by
    intro hs
    rw [hs] at hin
    have h0 : RT.isInputStream 0 = false := by decide
    exact absurd (show RT.isInputStream 0 = true from hin) (by rw [h0]; decide)
  have hl : ¬ Later (cfgN p).role (some (cfgN p).s) r.rtype.toNat := by
    intro hl
    have h1 := hl.1
    have h2 := hl.2
    have h3 : rankOf (cfgN p).role none ≤ rankOf (cfgN p).role (some (cfgN p).s) := by
      have hnm : (0 : Nat) ∉ inputStreams (cfgN p).role := fun hmem => by
        have := mem_inputStreams_isInput hmem
        exact absurd this (by decide)
      show (inputStreams (cfgN p).role).length ≤ (inputStreams (cfgN p).role).idxOf 0
      exact Nat.le_of_not_lt (fun hlt => hnm (List.idxOf_lt_length_iff.1 hlt))
    omega
  unfold rclass
  by_cases hid : r.id = (cfgN p).id
  · rw [if_pos ⟨hin, hid⟩, if_neg hs, if_neg hl]
  · rw [if_neg (fun h => hid h.2)]
    have : ¬ (r.rtype.toNat = RT.abortRequest ∧ r.id = (cfgN p).id) := fun h => hid h.2
    rw [if_neg this]

/-- **After `set_stream(None)` the replies are exactly the reference's**, for arbitrary input and any chunking. -/
theorem none_replies_ref {p : Parser} (hinv : SInv p) (hig : Ign p) (hb : p.isRecordBoundary = true)
    {ops : List Op} (hl : LegalAll p ops) (hns : NoSet ops) (hdr : Drained (applyOps p ops)) :
    C03S.grownAll p ops = (refWire (cfgN p) (p.raw ++ fedBytes ops)).out ∧
    C03S.grownAll p ops = C04H.streamReplies (cfgN p) (p.raw ++ fedBytes ops) ∧
    (applyOps p ops).raw = (refWire (cfgN p) (p.raw ++ fedBytes ops)).unread ∧
    Terminal.verdictIs (cfgN p) (applyOps p ops) (refWire (cfgN p) (p.raw ++ fedBytes ops)).verdict ∧
    deliveredOps p ops = [] := by
  simp only [Parser.isRecordBoundary, Bool.and_eq_true, beq_iff_eq] at hb
  obtain ⟨h1, h2, h3⟩ := drained_outcomeN hinv hig.1 hb hl hns hdr
  exact ⟨h1, by rw [h1, C04H.stream_replies_hostile], h2, h3, (ops_ign ops p hinv hig hl).2⟩

/-- **Chunk invariance with no active stream** (arbitrary input): two legal drained histories over the same bytes
generate the same replies and leave the same unread bytes. -/
theorem none_chunk_invariance_partial (p : Parser) (ops₁ ops₂ : List Op) (hinv : SInv p) (hig : Ign p)
    (hb : p.isRecordBoundary = true) (hl₁ : LegalAll p ops₁) (hl₂ : LegalAll p ops₂)
    (hn₁ : NoSet ops₁) (hn₂ : NoSet ops₂) (hfed : fedBytes ops₁ = fedBytes ops₂)
    (hd₁ : Drained (applyOps p ops₁)) (hd₂ : Drained (applyOps p ops₂)) :
    C03S.grownAll p ops₁ = C03S.grownAll p ops₂ ∧ (applyOps p ops₁).raw = (applyOps p ops₂).raw := by
  obtain ⟨a1, -, a2, -⟩ := none_replies_ref hinv hig hb hl₁ hn₁ hd₁
  obtain ⟨b1, -, b2, -⟩ := none_replies_ref hinv hig hb hl₂ hn₂ hd₂
  rw [hfed] at a1 a2
  exact ⟨a1.trans b1.symm, a2.trans b2.symm⟩

/-! ## Non-vacuity -/
namespace Example2
open Fcgi.C18 Fcgi.C18H.Example Fcgi.C18N.Example

def opsOne : List Op := [.parse gv none, .parse more none]
def opsFour : List Op :=
  [.parse (gv.take 3) none, .parse ((gv.drop 3).take 16) (some 2), .compress,
   .parse (gv.drop 19 ++ more.take 5) none, .consumeOutput 7, .parse (more.drop 5) none]

theorem n1_inv : SInv n1 := (step_safe p1_inv (op := .setStream none) trivial).1

/-- `none_chunk_invariance_partial` applied to the held-back-then-`None` parser of `C18None.Example`: the GetValues
and the two `Data` records in two calls, or in four odd chunks with a `dest`, a `compress` and a `consume_output` in
between -/
theorem chunks_agree : C03S.grownAll n1 opsOne = C03S.grownAll n1 opsFour ∧
    (applyOps n1 opsOne).raw = (applyOps n1 opsFour).raw :=
  none_chunk_invariance_partial n1 opsOne opsFour n1_inv n1_ign (by decide +kernel) (by decide +kernel)
    (by decide +kernel) (fun s h => by simp [opsOne] at h) (fun s h => by simp [opsFour] at h)
    (by decide +kernel) (by decide +kernel) (by decide +kernel)

/-- `none_replies_ref` applied, and the reference evaluated: the 32-byte GetValuesResult, nothing unread -/
theorem replies_are_ref : C03S.grownAll n1 opsFour =
      [1, 10, 0, 0, 0, 18, 6, 0, 14, 2, 70, 67, 71, 73, 95, 77, 65, 88, 95, 67, 79, 78, 78, 83, 49, 48, 0, 0, 0, 0, 0, 0] ∧
    (applyOps n1 opsFour).raw = [] := by
  obtain ⟨h1, -, h2, -⟩ := none_replies_ref n1_inv n1_ign (by decide +kernel) (ops := opsFour) (by decide +kernel)
    (fun s h => by simp [opsFour] at h) (by decide +kernel)
  rw [h1, h2]
  decide +kernel

end Example2

end Fcgi.C18N
