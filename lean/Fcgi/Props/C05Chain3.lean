import Fcgi.Proofs.ChainZeroEx
import Fcgi.Proofs.ChainSkip
import Fcgi.Proofs.ChainFilter
import Fcgi.Props.C05Chain2
/-!
# C05 at the sync level, part 3

1. Concrete instances (non-vacuity) of `k_requests_any_reads0` / `chain0` (a request whose preamble
   is completely buffered at the hand-off: found by `parse(0)`, empty chunk list) and of
   `within_turn_replies` (a caller that stops in the middle of a record and skips to the record
   boundary; a management `GetValues` record among the skipped records is answered by the ignoring
   stream parser).
2. `within_turn_replies_any`: `within_turn_replies` with `N` (the part of the history behind
   `set_stream(None)`) ANY legal history — `parse` with a destination buffer (`Str.parse_ign_dest`:
   in ignore mode the destination is irrelevant), `consume_stream`, `set_stream` (no-op / rejected),
   `compress`, `consume_output`.
3. `filter_data_skip_replies`: the reply ledger of a FILTER's stream parser from the moment it has
   stream `Data` active at a record boundary (`Start ⟨id,3,8⟩`: the state `set_stream(Some(Data))`
   leaves, `C03SS.set_stream_phase`) through any reads of `Data` (`B`), `set_stream(None)` and any
   legal skip (`N`) to the record boundary: exactly the replies owed for the Stdin records passed
   over (`R5`) and the Data records consumed (`d`).  Two views (`Proofs/E2EFilterRef`): `⟨id,3,8⟩`
   while `Data` is read, `⟨id,1,5⟩` once the stream is ignored.  Forced, as in the async
   `r2f_of_switch`: when the stream is dropped the parser has been given all of the Stdin records
   (`hG`) and stands inside the Data records (`hpos`) — before that point the `⟨id,1,5⟩` view would
   stop at the Stdin terminator.
-/
namespace Fcgi.C05C
open Fcgi Fcgi.Req Fcgi.Str Fcgi.Spec
open Fcgi.E2E (serAll_app)


/-! ## 2. The skip: any legal history behind `set_stream(None)` -/

/-- **(4), the stream parser's share, for a `WithinAll` turn of a Responder — no restriction on the
calls behind `set_stream(None)`.** -/
theorem within_turn_replies_any {cap mc : Nat} {q : Spec1} {later : List Rec} {t : Turn} {o : Obs} (hq : q.OK)
    (hrole : q.p.role = 1) (hf : Front cap mc q later t o) (h8 : 8 ≤ cap)
    (hrecs : ∀ r ∈ q.srecs, E2E.StdinRec q.p.id r) (hfit : NoiseFits cap q.srecs)
    (hin : o.sp.raw ++ C05.fedBytes t.ops <+: serAll q.srecs)
    {H N : List Op} (hops : t.ops = H ++ Op.setStream none :: N) (hH : C03SS.SetSome H)
    (hb : o.spEnd.isRecordBoundary = true) :
    ∃ d u', q.srecs = d ++ u' ∧ C03S.grownAll o.sp t.ops = E2E.owedI q.p.id mc d ∧
      o.sp.raw ++ C05.fedBytes t.ops = serAll d ++ o.spEnd.raw ∧ o.spEnd.raw <+: serAll u' := by
  obtain ⟨h0, -, hl, -⟩ := front_start hq (Or.inl hrole) hf
  obtain ⟨hsp, -, hend, -, -⟩ := hf
  rw [hrole] at h0
  have hc : E2E.R2Ctx q.p.id mc cap q.srecs := ⟨hrecs, wf_id_lt hq.1, hfit, h8⟩
  have hns : Str.NoSwitch ⟨q.p.id, 1, 5, mc⟩ H := by
    intro st hm
    obtain ⟨s', rfl⟩ := hH st hm
    exact ⟨s', rfl, no_later_responder s'⟩
  obtain ⟨fut, hfut⟩ := hin
  rw [fedBytes_eq, hops] at hfut
  rw [hops] at hl
  rw [hend, hops] at hb
  obtain ⟨d, rs, h1, h2, h3, h4⟩ := ignore_replies_any hc h0 (by rw [hsp]; rfl) hl hns hfut hb
  refine ⟨d, rs, h1, by rw [hops]; exact h2, by rw [fedBytes_eq, hend, hops]; exact h3, ?_⟩
  rw [hend, hops]
  exact ⟨fut, h4⟩


/-! ## 3. A Filter's stream parser: the Data phase and the skip -/

/-- **The reply ledger of a Filter turn from `set_stream(Some(Data))` on.** -/
theorem filter_data_skip_replies {id mc cap : Nat} {R5 Rd : List Rec} (h5 : ∀ r ∈ R5, E2E.StdinRec id r)
    (hrecs : ∀ r ∈ Rd, E2E.DataRec id r) (hid : id < 65536) (hfit : NoiseFits cap Rd) (h8 : 8 ≤ cap)
    {p1 : Str.Parser} (h0 : C03SI.Start ⟨id, 3, 8, mc⟩ p1) (hcap : p1.cap = cap)
    {B N : List Op} (hl : LegalAll p1 (B ++ Op.setStream none :: N)) (hns : Str.NoSwitch ⟨id, 3, 8, mc⟩ B)
    {Gd fut : Bytes} (hG : p1.raw ++ fedBytes B = serAll R5 ++ Gd) (hw : Gd ++ (fedBytes N ++ fut) = serAll Rd)
    (hpos : E2E.Pos Rd (applyOps p1 B).raw (applyOps p1 B).pay (applyOps p1 B).pad (fedBytes N ++ fut))
    (hb : (applyOps p1 (B ++ Op.setStream none :: N)).isRecordBoundary = true) :
    ∃ d rs, Rd = d ++ rs ∧
      C03S.grownAll p1 (B ++ Op.setStream none :: N) = E2E.owedI id mc R5 ++ E2E.owedI id mc d ∧
      (applyOps p1 (B ++ Op.setStream none :: N)).raw ++ fut = serAll rs :=
  filter_skip_replies h5 ⟨hrecs, hid, hfit, h8⟩ h0 hcap hl hns hG hw hpos hb

namespace Example3
open Fcgi.C05.Examples Fcgi.C05C.Example

/-! ## 1a. `chain0`: requests 1 and 2 arrive together; request 2 is found by `parse(0)` -/

/-- turn 1 is fed everything; turn 2 is fed NOTHING -/
def ts0 : List Turn := [⟨[w1 ++ w2], opsRead⟩, ⟨[], []⟩]

def spZ : Str.Parser := Str.Parser.fromParser 256 exReq (serAll [exStdin, exStdinEnd] ++ w2) 3
def rpZ : Req.Parser := Req.Parser.fromParser 256 (serAll [exStdinEnd] ++ w2) 3

theorem spZ_handover : (applyOps spZ opsRead).intoRequestParser = some (.ok rpZ) := by
  have h := (C05.into_request_parser_cases (applyOps spZ opsRead)).2.2 (by decide +kernel) (by decide +kernel)
  rw [show (applyOps spZ opsRead).cap = 256 from by decide +kernel,
    show (applyOps spZ opsRead).raw = serAll [exStdinEnd] ++ w2 from by decide +kernel,
    show (applyOps spZ opsRead).maxConns = 3 from by decide +kernel] at h
  exact h

def oZ1 : Obs := ⟨exReq, [], spZ, applyOps spZ opsRead⟩

theorem turnZ1 : turn0 rp0 ⟨[w1 ++ w2], opsRead⟩ = some (oZ1, rpZ) ∧
    (LegalAll spZ opsRead → TurnLegal0 rp0 ⟨[w1 ++ w2], opsRead⟩) :=
  turn0_one (cap := 256) (mc := 3) (inp := []) (by decide) [w1 ++ w2]
    (Or.inr ⟨_, rfl, by decide +kernel, rfl⟩) (by decide +kernel) (by decide +kernel)
    (by simpa using run1) opsRead spZ_handover

def spZ2 : Str.Parser := Str.Parser.fromParser 256 exReq (serAll [exStdinEnd]) 3

theorem runZ2 : run .header ((serAll [exStdinEnd] ++ w2) ++ ([] : List Bytes).flatten) 3 =
    ⟨serAll [exStdinEnd], .done exReq, [], none⟩ := by
  have h1 : (serAll [exStdinEnd] ++ w2) ++ ([] : List Bytes).flatten =
      serAll [exStdinEnd] ++ (exPre ++ serAll [exStdinEnd]) := by simp [w2]
  rw [h1, C05.stale_all_skipped [exStdinEnd] (fun r hr => by rw [List.mem_singleton.1 hr]; exact ex_stale.2)]
  exact C05.run_pre_rest (ex_pre 3)

def oZ2 : Obs := ⟨exReq, [], spZ2, applyOps spZ2 []⟩

theorem turnZ2 : turn0 rpZ ⟨[], []⟩ = some (oZ2, Req.Parser.fromParser 256 (serAll [exStdinEnd]) 3) ∧
    (LegalAll spZ2 [] → TurnLegal0 rpZ ⟨[], []⟩) :=
  turn0_one (cap := 256) (mc := 3) (inp := serAll [exStdinEnd] ++ w2) (by decide) [] (Or.inl rfl)
    (by decide +kernel) (by decide +kernel) runZ2 [] ((C05.into_request_parser_cases spZ2).2.2 rfl rfl)

theorem chain0_good : chain0 rp0 ts0 = some ([oZ1, oZ2], Req.Parser.fromParser 256 (serAll [exStdinEnd]) 3) := by
  simp only [chain0, ts0, turnZ1.1, turnZ2.1]

theorem legal0_good : ChainLegal0 rp0 ts0 := by
  refine ⟨turnZ1.2 (by decide +kernel), ?_⟩
  intro o rp' h
  rw [turnZ1.1] at h
  injection h with h
  injection h with _ h2
  subst h2
  exact ⟨turnZ2.2 trivial, fun _ _ _ => trivial⟩

theorem active0_good : ActiveAll [q1, q2, q3] ts0 := by
  refine ⟨⟨5, [104, 105], [exStdin], exStdinEnd, [], opsRead, [], rfl, rfl, by decide, ?_,
      ⟨⟨by decide, by decide, by decide⟩, rfl, rfl, rfl⟩, rfl, fun s h => (by simp [opsRead] at h), fun _ h => (by cases h)⟩,
    ⟨5, [], [], exStdinEnd, [], [], [], rfl, rfl, by decide, .nil,
      ⟨⟨by decide, by decide, by decide⟩, rfl, rfl, rfl⟩, rfl, fun s h => (by cases h), fun _ h => (by cases h)⟩, trivial⟩
  exact Body.chunk [104, 105] [0, 0, 0, 0, 0, 0] 0 (by decide) (by decide) .nil

/-- **`k_requests_any_reads0` applied**: two requests served from one feeding; the second one's
preamble was entirely buffered when its request parser was created. -/
example : [oZ1, oZ2].map (·.r) = [p0.request, p0.request] ∧ Results 256 3 [] [q1, q2, q3] ts0 [oZ1, oZ2] :=
  let h := k_requests_any_reads0 (cap := 256) (mc := 3) (u := []) (fut := w3) q_ok
    (C03.fromParser_inv (input := []) 3 (Nat.zero_le _) (by decide)) rfl rfl rfl (fun _ h => by cases h)
    (by decide) (by decide +kernel) legal0_good chain0_good
    (noOverruns_of_active [q1, q2, q3] ts0 [oZ1, oZ2] q_ok active0_good)
  ⟨h.1, h.2.1⟩

/-! ## 1b. `within_turn_replies`: stop in the middle of a record, skip to the boundary -/

/-- management `GetValues(FCGI_MAX_CONNS)` -/
def gv : Rec := { rtype := 9, id := 0, content := NV.enc (Vars.nameMaxConns, []), pad := [] }
/-- `Stdin(id 1, "jk")` -/
def stdinJK : Rec := { rtype := 5, id := 1, content := [106, 107], pad := [] }

/-- Stdin "hi", the `GetValues` record, Stdin "jk", end of Stdin -/
def qW : Spec1 := ⟨p0, [exBegin, exEndParams], [exStdin, gv, stdinJK, exStdinEnd]⟩

theorem gv_wf : gv.WF := ⟨by decide, by decide +kernel, by decide⟩

theorem qW_ok : qW.OK := by
  refine ⟨wf0, fun r hr => ?_⟩
  simp only [qW, List.mem_cons, List.not_mem_nil, or_false] at hr
  rcases hr with rfl | rfl | rfl | rfl
  · exact idle_stdin.1
  · exact ⟨gv_wf, fun h => absurd h (by decide)⟩
  · exact ⟨⟨by decide, by decide, by decide⟩, fun h => absurd h (by decide)⟩
  · exact idle_stdin.2

theorem qW_recs : ∀ r ∈ qW.srecs, E2E.StdinRec qW.p.id r := by
  intro r hr
  simp only [qW, List.mem_cons, List.not_mem_nil, or_false] at hr
  rcases hr with rfl | rfl | rfl | rfl
  · exact ⟨⟨by decide, by decide, by decide⟩, Or.inr ⟨rfl, rfl⟩⟩
  · exact ⟨gv_wf, Or.inl ⟨gv_wf, by decide⟩⟩
  · exact ⟨⟨by decide, by decide, by decide⟩, Or.inr ⟨rfl, rfl⟩⟩
  · exact ⟨⟨by decide, by decide, by decide⟩, Or.inr ⟨rfl, rfl⟩⟩

theorem qW_fits : NoiseFits 256 qW.srecs := by
  refine noiseFits_of_content (fun r hr _ _ => ?_)
  simp only [qW, List.mem_cons, List.not_mem_nil, or_false] at hr
  rcases hr with rfl | rfl | rfl | rfl <;> decide +kernel

/-- the stream parser is created holding the first record only; the caller reads ONE byte of "hi",
then `set_stream(None)`, `parse(0, None)`, the rest of the records arrive (`parse(rest, None)`), the
reply is taken out of the output buffer -/
def spW : Str.Parser := Str.Parser.fromParser 256 p0.request exStdin.ser 3
def opsW : List Op :=
  [.parse [] (some 1), .setStream none, .parse [] none, .parse (serAll [gv, stdinJK, exStdinEnd]) none,
   .consumeOutput 64]
def tW : Turn := ⟨[], opsW⟩
def oW : Obs := ⟨p0.request, [], spW, applyOps spW opsW⟩

theorem frontW : Front 256 3 qW [] tW oW :=
  ⟨rfl, by decide, rfl, by decide +kernel, ⟨[], by decide +kernel⟩⟩

/-- **`within_turn_replies` applied** … -/
theorem exW : ∃ d u', qW.srecs = d ++ u' ∧ C03S.grownAll spW opsW = E2E.owedI 1 3 d ∧
    spW.raw ++ C05.fedBytes opsW = serAll d ++ (applyOps spW opsW).raw ∧ (applyOps spW opsW).raw <+: serAll u' :=
  within_turn_replies (cap := 256) (mc := 3) (q := qW) (later := []) (t := tW) (o := oW) qW_ok rfl frontW
    (by decide) qW_recs qW_fits ⟨[], by decide +kernel⟩
    (H := [.parse [] (some 1)]) (N := [.parse [] none, .parse (serAll [gv, stdinJK, exStdinEnd]) none, .consumeOutput 64])
    rfl (fun st h => by simp at h) (fun op h => by
      simp only [List.mem_cons, List.not_mem_nil, or_false] at h
      rcases h with rfl | rfl | rfl
      · exact Or.inl ⟨_, rfl⟩
      · exact Or.inl ⟨_, rfl⟩
      · exact Or.inr (Or.inr ⟨_, rfl⟩)) (by decide +kernel)

/-- … and what it amounts to here: everything was consumed, one byte was delivered, and the one
reply generated is the `GetValuesResult` for `FCGI_MAX_CONNS` (value "3"). -/
example : (applyOps spW opsW).raw = [] ∧ deliveredOps spW opsW = [104] ∧
    C03S.grownAll spW opsW = Vars.responseRecord 1 3 ∧ E2E.owedI 1 3 qW.srecs = Vars.responseRecord 1 3 := by
  decide +kernel

/-! ## 2 (instance): a destination buffer, `consume_stream`, `set_stream` inside the skip -/

def opsW2 : List Op :=
  [.parse [] (some 1), .setStream none, .parse [] (some 4), .consumeStream 3, .setStream (some 5),
   .parse (serAll [gv, stdinJK, exStdinEnd]) (some 4), .compress, .consumeOutput 64]
def tW2 : Turn := ⟨[], opsW2⟩
def oW2 : Obs := ⟨p0.request, [], spW, applyOps spW opsW2⟩

theorem exW2 : ∃ d u', qW.srecs = d ++ u' ∧ C03S.grownAll spW opsW2 = E2E.owedI 1 3 d ∧
    spW.raw ++ C05.fedBytes opsW2 = serAll d ++ (applyOps spW opsW2).raw ∧ (applyOps spW opsW2).raw <+: serAll u' :=
  within_turn_replies_any (cap := 256) (mc := 3) (q := qW) (later := []) (t := tW2) (o := oW2) qW_ok rfl
    ⟨rfl, by decide, rfl, by decide +kernel, ⟨[], by decide +kernel⟩⟩
    (by decide) qW_recs qW_fits ⟨[], by decide +kernel⟩ (H := [.parse [] (some 1)])
    (N := [.parse [] (some 4), .consumeStream 3, .setStream (some 5),
      .parse (serAll [gv, stdinJK, exStdinEnd]) (some 4), .compress, .consumeOutput 64])
    rfl (fun st h => by simp at h) (by decide +kernel)

/-- nothing is delivered behind `set_stream(None)`, whatever the destination (`Str.ops_ign`) -/
example : deliveredOps spW opsW2 = [104] ∧ C03S.grownAll spW opsW2 = Vars.responseRecord 1 3 := by
  decide +kernel

/-! ## 3 (instance): a Filter reads one byte of `Data`, then skips -/

def reqF : Request := { id := 1, role := 3, flags := 0, env := [] }
/-- `Data(id 1, "xy")`, the `GetValues` record, end of `Data` -/
def dataXY : Rec := { rtype := 8, id := 1, content := [120, 121], pad := [] }
def dataEnd : Rec := { rtype := 8, id := 1, content := [], pad := [] }
def rdF : List Rec := [dataXY, gv, dataEnd]

/-- the Filter's parser right after `set_stream(Some(Data))`, everything buffered -/
def pF : Str.Parser :=
  (Str.Parser.fromParser 256 reqF (serAll [exStdin, exStdinEnd] ++ serAll rdF) 3).switchTo (some 8)

theorem pF_start : C03SI.Start ⟨1, 3, 8, 3⟩ pF :=
  ⟨(C03S.SInv_iff pF).2 ⟨by decide +kernel, by decide +kernel, by decide +kernel,
      by simp [pF, Str.Parser.switchTo, Str.Parser.fromParser, Str.Parser.discardStream],
      Or.inr ⟨8, rfl, by decide⟩, by decide⟩, ⟨rfl, rfl, rfl, rfl, by decide⟩, rfl, rfl⟩

def opsF : List Op := [.parse [] (some 1), .setStream none, .parse [] (some 7), .consumeOutput 64]

theorem exF : ∃ d rs, rdF = d ++ rs ∧
    C03S.grownAll pF opsF = E2E.owedI 1 3 [exStdin, exStdinEnd] ++ E2E.owedI 1 3 d ∧
    (applyOps pF opsF).raw ++ [] = serAll rs :=
  filter_data_skip_replies (id := 1) (mc := 3) (cap := 256) (R5 := [exStdin, exStdinEnd]) (Rd := rdF)
    (fun r hr => by
      simp only [List.mem_cons, List.not_mem_nil, or_false] at hr
      rcases hr with rfl | rfl <;> exact ⟨⟨by decide, by decide, by decide⟩, Or.inr ⟨rfl, rfl⟩⟩)
    (fun r hr => by
      simp only [rdF, List.mem_cons, List.not_mem_nil, or_false] at hr
      rcases hr with rfl | rfl | rfl
      · exact ⟨⟨by decide, by decide, by decide⟩, Or.inr ⟨rfl, rfl⟩⟩
      · exact ⟨gv_wf, Or.inl ⟨gv_wf, by decide⟩⟩
      · exact ⟨⟨by decide, by decide, by decide⟩, Or.inr ⟨rfl, rfl⟩⟩)
    (by decide)
    (noiseFits_of_content (fun r hr _ _ => by
      simp only [rdF, List.mem_cons, List.not_mem_nil, or_false] at hr
      rcases hr with rfl | rfl | rfl <;> decide +kernel))
    (by decide) pF_start rfl (B := [.parse [] (some 1)]) (N := [.parse [] (some 7), .consumeOutput 64])
    (by decide +kernel) (fun st h => by simp at h) (Gd := serAll rdF) (fut := [])
    (by decide +kernel) (by decide +kernel)
    ⟨[121], [], [gv, dataEnd], by decide +kernel, by decide +kernel, by decide +kernel, ⟨[dataXY], rfl⟩⟩
    (by decide +kernel)

/-- one `Data` byte was delivered; the reply generated is the one `GetValuesResult` -/
example : deliveredOps pF opsF = [120] ∧ C03S.grownAll pF opsF = Vars.responseRecord 1 3 := by decide +kernel

end Example3

end Fcgi.C05C
