import Fcgi.Props.C12Chain3
import Fcgi.Props.C12NoFuel2

/-!
# C12 — index-addressed faults in the last request of a chain, over `UReq.OKn`

The theorems of `Props/C12Chain2.lean` / `C12Chain3.lean` with every `UReq.OKu` replaced by `UReq.OKn`
(`Props/C07NoFuel6.lean`): no cost hypothesis.  Text transformation; suffix `_okn`.
-/
namespace Fcgi.C12E
open Fcgi Fcgi.Req Fcgi.Str Fcgi.Async Fcgi.Run Fcgi.Spec Fcgi.E2E Fcgi.C07E Fcgi.C07U Fcgi.C12Inv Fcgi.Indep3 Fcgi.EofErr

/-- `chain_prefix_s` over `UReq.OKn` (no cost fields). -/
theorem chain_prefix_s_okn {b mc : Nat} (x : UReq) (xs : List UReq) (sc : List (List HOp × Bool)) {t : Transport} {fuel : Nat}
    (hok : ∀ y ∈ x :: xs, y.OKn b) (hleft : ((x :: xs).getLast (by simp)).left = [])
    (hin : t.input = x.wire) (hben : Ben t) (hem : t.endMode = .pend) (hev : hsCount t.events = 0)
    (hfuel : t.rd.length + t.wr.length + 1 ≤ fuel) :
    ∃ c₁ A, closedLoop fuel (xs.map UReq.wire) (connS b mc t ((x :: xs).map UReq.handler ++ sc)) 0 = (c₁, "STALL") ∧
      SegsAll mc (x :: xs) A ∧
      WaitingS (alignedBufsize b) mc [] (t.wlog ++ A) sc (x :: xs).length
        (evsAfter ((x :: xs).map (UReq.spec mc)) []) (ans t) t c₁ := by
  obtain ⟨c₁, A, hrun, hseg, hw⟩ := chain_prefix_n (mc := mc) x xs sc hok hleft hin hben hem hev hfuel
  have hs := closedLoop_suf fuel (xs.map UReq.wire) (connS b mc t ((x :: xs).map UReq.handler ++ sc)) 0
  rw [hrun] at hs
  obtain ⟨a, m, h1, h2, h3, h4⟩ := (show SufL c₁.env.tr t from hs).drop
  have hr := closedLoop_rl fuel (xs.map UReq.wire) (connS b mc t ((x :: xs).map UReq.handler ++ sc)) 0
  rw [hrun] at hr
  exact ⟨c₁, A, hrun, hseg, hw, ⟨a, h1, h2⟩, ⟨m, h3, h4⟩, (show RdL t c₁.env.tr from hr).drop⟩

/-- `write_error_in_last_request_e2e` over `UReq.OKn` (no cost fields). -/
theorem write_error_in_last_request_e2e_okn {b mc : Nat} (x : UReq) (xs : List UReq) (y : UReq) {t : Transport} {fuel : Nat}
    (i : Nat) (bad : WrAns) (post : List WrAns) (hbad : bad = .err ∨ bad = .zero)
    (hok : ∀ z ∈ x :: xs, z.OKn b) (hoky : y.OKn b) (hleft : ((x :: xs).getLast (by simp)).left = [])
    (hin : t.input = x.wire) (hben : Ben t) (hem : t.endMode = .pend) (hev : hsCount t.events = 0)
    (hfuel : t.rd.length + t.wr.length + 1 ≤ fuel) :
    ∃ c₁ A n,
      -- the first `k` requests: served, the task parked; they consumed the first `n` write answers
      closedLoop fuel (xs.map UReq.wire) (connS b mc t ((x :: xs).map UReq.handler ++ [y.handler])) 0 = (c₁, "STALL") ∧
      SegsAll mc (x :: xs) A ∧ c₁.env.tr.wlog = t.wlog ++ A ∧ hsCount c₁.env.tr.events = (x :: xs).length ∧
      c₁.env.tr.wr = t.wr.drop n ∧ n + c₁.env.tr.wr.length = t.wr.length ∧
      -- the last request, its `i`-th own write answer failing
      ∃ c' fin Ay, runTask fuel (feedW c₁ y.wire ((t.wr.drop n).take i ++ bad :: post)) 0 none = (c', fin) ∧
        y.Seg mc Ay ∧
        ((fin = "STALL" ∧ c'.env.tr.wlog = t.wlog ++ A ++ Ay ∧ hsCount c'.env.tr.events = (x :: xs).length + 1 ∧
            ∃ rest, c'.env.tr.wr = rest ++ bad :: post) ∨
         (fin = "RET" ∧ c'.phase = .finished ∧
          (∃ w, c'.env.tr.wlog = t.wlog ++ A ++ w ∧ w <+: Ay) ∧
          (x :: xs).length ≤ hsCount c'.env.tr.events ∧ hsCount c'.env.tr.events ≤ (x :: xs).length + 1 ∧
          (∃ e inH, WrErrOf bad e ∧ (inH = true → ∃ evs, c'.env.tr.events = evs ++ [handlerErrEv e])) ∧
          (∃ t1 t2, Clean (feedW c₁ y.wire ((t.wr.drop n).take i ++ bad :: post)).env.tr t1 ∧ FailCall t1 t2 ∧
            WSame t2 c'.env.tr ∧ c'.env.tr.wlog = t1.wlog))) := by
  obtain ⟨c₁, A, hrun, hseg, hw, ⟨n, hn1, hn2⟩, _, _⟩ :=
    chain_prefix_s_okn (mc := mc) x xs [y.handler] hok hleft hin hben hem hev hfuel
  refine ⟨c₁, A, n, hrun, hseg, hw.log, hw.hs, hn1, hn2, ?_⟩
  -- the benign last leg, on the script truncated in front of the failing answer
  have hsub : ∀ a ∈ (t.wr.drop n).take i, a ∈ c₁.env.tr.wr := fun a ha => by rw [hn1]; exact List.mem_of_mem_take ha
  have hlen : ((t.wr.drop n).take i).length ≤ c₁.env.tr.wr.length := by rw [hn1]; exact List.length_take_le' _ _
  have hwW : Waiting (alignedBufsize b) mc [] (t.wlog ++ A) [y.handler] (x :: xs).length
      (evsAfter ((x :: xs).map (UReq.spec mc)) []) (ans t) (setWr c₁ ((t.wr.drop n).take i)) :=
    ⟨hw.ph, hw.nf, hw.rem, hw.inp, hw.log, hw.logL, hw.stop,
      ⟨hw.ben.rd, fun a ha => hw.ben.wr a (hsub a ha), hw.ben.hold, hw.ben.em⟩, hw.sc, hw.mtx, hw.hs, hw.ev, hw.segs, hw.em,
      by have := hw.ans; unfold ans at this ⊢
         show c₁.env.tr.rd.length + ((t.wr.drop n).take i).length ≤ _
         omega⟩
  have hsv := (hall_of_okn (mc := mc) y [] (fun z hz => by rw [List.mem_singleton.1 hz]; exact hoky)
    [] (UReq.spec mc y) [] rfl).1
  obtain ⟨c2, Ay, hrun2, hsegy, hw2⟩ := hsv [] (t.wlog ++ A) [] (x :: xs).length
    (evsAfter ((x :: xs).map (UReq.spec mc)) []) (ans t) (feed (setWr c₁ ((t.wr.drop n).take i)) y.wire) 0 fuel
    ⟨(fun _ he => nomatch he), (fun _ hr => nomatch hr)⟩ (Or.inl ⟨_, hwW, rfl⟩) (by unfold ans; omega)
  have hX : Bad ⟨[], bad :: post, []⟩ :=
    ⟨Or.inl rfl, Or.inr ⟨bad, post, rfl, by rcases hbad with rfl | rfl <;> rfl⟩, Or.inl rfl⟩
  have hc := feedW_ext c₁ y.wire ((t.wr.drop n).take i) (bad :: post)
  have hp : AllProp (feed (setWr c₁ ((t.wr.drop n).take i)) y.wire) := by
    obtain ⟨phase, env, scripts, stop⟩ := c₁
    have h1 := hw.ph
    have h3 := hw.sc
    simp only at h1 h3
    subst h1 h3
    exact ⟨fun s hs => by
      have hs' : s = y.handler := by simpa [E2E.feed, setWr] using hs
      rw [hs']; exact uhandler_prop y, trivial⟩
  have hlog0 : (feedW c₁ y.wire ((t.wr.drop n).take i ++ bad :: post)).env.tr.wlog = t.wlog ++ A := hw.log
  have hhs0 : hsCount (feedW c₁ y.wire ((t.wr.drop n).take i ++ bad :: post)).env.tr.events = (x :: xs).length := hw.hs
  rcases Indep3.runTask_dich hX fuel (feed (setWr c₁ ((t.wr.drop n).take i)) y.wire) 0 none hp with hsame | ⟨c3, h3, hhit⟩
  · rw [hrun2] at hsame
    refine ⟨extC ⟨[], bad :: post, []⟩ c2, "STALL", Ay, by rw [hc]; exact hsame, hsegy, Or.inl ⟨rfl, hw2.log, hw2.hs, ?_⟩⟩
    exact ⟨c2.env.tr.wr, rfl⟩
  · rw [hrun2] at hhit
    simp only at hhit
    have hp2 : AllProp (feedW c₁ y.wire ((t.wr.drop n).take i ++ bad :: post)) := by
      rw [hc]; exact ⟨hp.1, hp.2⟩
    have hrun3 : runTask fuel (feedW c₁ y.wire ((t.wr.drop n).take i ++ bad :: post)) 0 none = (c3, "RET") := by
      rw [hc]; exact h3
    obtain ⟨⟨w, hw'⟩, hge⟩ := Indep3.runTask_grow fuel (feedW c₁ y.wire ((t.wr.drop n).take i ++ bad :: post)) 0 none
    rw [hrun3] at hw' hge
    simp only at hw' hge
    rw [hlog0] at hw'
    rw [hhs0] at hge
    have hpre := hhit.rel.log
    rw [hw', hw2.log] at hpre
    have hwf' : WriteFailed (feedW c₁ y.wire ((t.wr.drop n).take i ++ bad :: post)).env.tr c3.env.tr := by
      rcases hhit.rel.used with ⟨_, _, h, _⟩ | ⟨b', post', h, hsuf⟩ | ⟨_, _, h, _⟩
      · cases h
      · simp only [List.cons.injEq] at h
        obtain ⟨rfl, rfl⟩ := h
        obtain ⟨z, hz⟩ := hsuf
        left
        refine ⟨(t.wr.drop n).take i ++ bad :: z, ?_, bad, by simp, by rcases hbad with rfl | rfl <;> rfl⟩
        show (t.wr.drop n).take i ++ bad :: post = _
        rw [← hz]; simp
      · cases h
    obtain ⟨_, _, t1, t2, hcl, hfc, hws, hlog⟩ := runTask_write_failure hp2 hrun3 hwf'
    obtain ⟨e, inH, he, hlast⟩ := hhit.err
    have he' : WrErrOf bad e := by
      rcases he with ⟨⟨_, h⟩, _⟩ | ⟨⟨_, h⟩, h2⟩ | ⟨⟨_, h⟩, h2⟩ | ⟨⟨_, h⟩, _⟩
      · cases h
      · simp only [List.cons.injEq] at h; exact Or.inl ⟨h.1, h2⟩
      · simp only [List.cons.injEq] at h; exact Or.inr ⟨h.1, h2⟩
      · cases h
    have hhs := hhit.rel.hs
    rw [hw2.hs] at hhs
    exact ⟨c3, "RET", Ay, hrun3, hsegy, Or.inr ⟨rfl, hhit.ph,
      ⟨w, hw', (List.prefix_append_right_inj _).1 hpre⟩, hge, hhs, ⟨e, inH, he', hlast⟩, t1, t2, hcl, hfc, hws, hlog⟩⟩

/-- `read_error_in_last_request_at_index_e2e` over `UReq.OKn` (no cost fields). -/
theorem read_error_in_last_request_at_index_e2e_okn {b mc : Nat} (x : UReq) (xs : List UReq) (y : UReq) {t : Transport}
    {fuel : Nat} (i : Nat) (post : List RdAns)
    (hok : ∀ z ∈ x :: xs, z.OKn b) (hoky : y.OKn b) (hleft : ((x :: xs).getLast (by simp)).left = [])
    (hin : t.input = x.wire) (hben : Ben t) (hem : t.endMode = .pend) (hev : hsCount t.events = 0)
    (hfuel : t.rd.length + t.wr.length + 1 ≤ fuel) :
    ∃ c₁ A n,
      closedLoop fuel (xs.map UReq.wire) (connS b mc t ((x :: xs).map UReq.handler ++ [y.handler])) 0 = (c₁, "STALL") ∧
      SegsAll mc (x :: xs) A ∧ c₁.env.tr.wlog = t.wlog ++ A ∧ hsCount c₁.env.tr.events = (x :: xs).length ∧
      c₁.env.tr.rd = t.rd.drop n ∧ n + c₁.env.tr.rd.length = t.rd.length ∧
      ∃ c' fin Ay, runTask fuel (feedR c₁ y.wire ((t.rd.drop n).take i ++ .err :: post)) 0 none = (c', fin) ∧
        y.Seg mc Ay ∧
        ((fin = "STALL" ∧ c'.env.tr.wlog = t.wlog ++ A ++ Ay ∧ hsCount c'.env.tr.events = (x :: xs).length + 1 ∧
            ∃ rest, c'.env.tr.rd = rest ++ .err :: post) ∨
         (fin = "RET" ∧ c'.phase = .finished ∧
          (∃ w, c'.env.tr.wlog = t.wlog ++ A ++ w ∧ w <+: Ay) ∧
          (x :: xs).length ≤ hsCount c'.env.tr.events ∧ hsCount c'.env.tr.events ≤ (x :: xs).length + 1 ∧
          (∃ e inH, (e = .connectionAborted ∨ e = .transportRead) ∧
            (inH = true → ∃ evs, c'.env.tr.events = evs ++ [handlerErrEv e])))) := by
  obtain ⟨c₁, A, hrun, hseg, hw, _, _, ⟨n, hn1, hn2⟩⟩ :=
    chain_prefix_s_okn (mc := mc) x xs [y.handler] hok hleft hin hben hem hev hfuel
  refine ⟨c₁, A, n, hrun, hseg, hw.log, hw.hs, hn1, hn2, ?_⟩
  have hsub : ∀ a ∈ (t.rd.drop n).take i, a ∈ c₁.env.tr.rd := fun a ha => by rw [hn1]; exact List.mem_of_mem_take ha
  have hlen : ((t.rd.drop n).take i).length ≤ c₁.env.tr.rd.length := by rw [hn1]; exact List.length_take_le' _ _
  have hwW : Waiting (alignedBufsize b) mc [] (t.wlog ++ A) [y.handler] (x :: xs).length
      (evsAfter ((x :: xs).map (UReq.spec mc)) []) (ans t) (setRd c₁ ((t.rd.drop n).take i)) :=
    ⟨hw.ph, hw.nf, hw.rem, hw.inp, hw.log, hw.logL, hw.stop,
      ⟨fun a ha => hw.ben.rd a (hsub a ha), hw.ben.wr, hw.ben.hold, hw.ben.em⟩, hw.sc, hw.mtx, hw.hs, hw.ev, hw.segs, hw.em,
      by have := hw.ans; unfold ans at this ⊢
         show ((t.rd.drop n).take i).length + c₁.env.tr.wr.length ≤ _
         omega⟩
  have hsv := (hall_of_okn (mc := mc) y [] (fun z hz => by rw [List.mem_singleton.1 hz]; exact hoky)
    [] (UReq.spec mc y) [] rfl).1
  obtain ⟨c2, Ay, hrun2, hsegy, hw2⟩ := hsv [] (t.wlog ++ A) [] (x :: xs).length
    (evsAfter ((x :: xs).map (UReq.spec mc)) []) (ans t) (E2E.feed (setRd c₁ ((t.rd.drop n).take i)) y.wire) 0 fuel
    ⟨(fun _ he => nomatch he), (fun _ hr => nomatch hr)⟩ (Or.inl ⟨_, hwW, rfl⟩) (by unfold ans; omega)
  have hX : Bad ⟨.err :: post, [], []⟩ := ⟨Or.inr ⟨post, rfl⟩, Or.inl rfl, Or.inl rfl⟩
  have hc := feedR_ext c₁ y.wire ((t.rd.drop n).take i) (.err :: post)
  have hp : AllProp (E2E.feed (setRd c₁ ((t.rd.drop n).take i)) y.wire) := by
    obtain ⟨phase, env, scripts, stop⟩ := c₁
    have h1 := hw.ph
    have h3 := hw.sc
    simp only at h1 h3
    subst h1 h3
    exact ⟨fun s hs => by
      have hs' : s = y.handler := by simpa [E2E.feed, setRd] using hs
      rw [hs']; exact uhandler_prop y, trivial⟩
  have hlog0 : (feedR c₁ y.wire ((t.rd.drop n).take i ++ .err :: post)).env.tr.wlog = t.wlog ++ A := hw.log
  have hhs0 : hsCount (feedR c₁ y.wire ((t.rd.drop n).take i ++ .err :: post)).env.tr.events = (x :: xs).length := hw.hs
  rcases Indep3.runTask_dich hX fuel (E2E.feed (setRd c₁ ((t.rd.drop n).take i)) y.wire) 0 none hp with hsame | ⟨c3, h3, hhit⟩
  · rw [hrun2] at hsame
    exact ⟨extC ⟨.err :: post, [], []⟩ c2, "STALL", Ay, by rw [hc]; exact hsame, hsegy,
      Or.inl ⟨rfl, hw2.log, hw2.hs, c2.env.tr.rd, rfl⟩⟩
  · rw [hrun2] at hhit
    simp only at hhit
    have hrun3 : runTask fuel (feedR c₁ y.wire ((t.rd.drop n).take i ++ .err :: post)) 0 none = (c3, "RET") := by
      rw [hc]; exact h3
    obtain ⟨⟨w, hw'⟩, hge⟩ := Indep3.runTask_grow fuel (feedR c₁ y.wire ((t.rd.drop n).take i ++ .err :: post)) 0 none
    rw [hrun3] at hw' hge
    simp only at hw' hge
    rw [hlog0] at hw'
    rw [hhs0] at hge
    have hpre := hhit.rel.log
    rw [hw', hw2.log] at hpre
    obtain ⟨e, inH, he, hlast⟩ := hhit.err
    have he' : e = .connectionAborted ∨ e = .transportRead := by
      rcases he with ⟨_, h2⟩ | ⟨⟨_, h⟩, _⟩ | ⟨⟨_, h⟩, _⟩ | ⟨⟨_, h⟩, _⟩
      · exact h2
      · cases h
      · cases h
      · cases h
    have hhs := hhit.rel.hs
    rw [hw2.hs] at hhs
    exact ⟨c3, "RET", Ay, hrun3, hsegy, Or.inr ⟨rfl, hhit.ph,
      ⟨w, hw', (List.prefix_append_right_inj _).1 hpre⟩, hge, hhs, ⟨e, inH, he', hlast⟩⟩⟩

/-- `write_error_leg` over `UReq.OKn` (no cost fields). -/
theorem write_error_leg_okn {b mc : Nat} (y : UReq) {Lw : Bytes} {h : Nat} {evs : List String} {A0 : Nat} {c₁ : Conn}
    {fuel : Nat} (n0 : Nat) (pre' : List WrAns) (bad : WrAns) (post : List WrAns) (hbad : bad = .err ∨ bad = .zero)
    (hoky : y.OKn b)
    (hw : Waiting (alignedBufsize b) mc [] Lw [y.handler] h evs A0 c₁)
    (hpre : ∀ a ∈ pre', a ≠ WrAns.err ∧ a ≠ WrAns.zero)
    (hf : c₁.env.tr.rd.length + pre'.length + 1 ≤ fuel) :
    ∃ c' fin Ay, runTask fuel (feedW c₁ y.wire (pre' ++ bad :: post)) n0 none = (c', fin) ∧ y.Seg mc Ay ∧
      ((fin = "STALL" ∧ c'.env.tr.wlog = Lw ++ Ay ∧ hsCount c'.env.tr.events = h + 1 ∧
          ∃ rest, c'.env.tr.wr = rest ++ bad :: post) ∨
       (fin = "RET" ∧ c'.phase = .finished ∧
        (∃ w, c'.env.tr.wlog = Lw ++ w ∧ w <+: Ay) ∧
        h ≤ hsCount c'.env.tr.events ∧ hsCount c'.env.tr.events ≤ h + 1 ∧
        (∃ e inH, WrErrOf bad e ∧ (inH = true → ∃ evs, c'.env.tr.events = evs ++ [handlerErrEv e])) ∧
        (∃ t1 t2, Clean (feedW c₁ y.wire (pre' ++ bad :: post)).env.tr t1 ∧ FailCall t1 t2 ∧
          WSame t2 c'.env.tr ∧ c'.env.tr.wlog = t1.wlog))) := by
  have hwW : Waiting (alignedBufsize b) mc [] Lw [y.handler] h evs (c₁.env.tr.rd.length + pre'.length) (setWr c₁ pre') :=
    ⟨hw.ph, hw.nf, hw.rem, hw.inp, hw.log, hw.logL, hw.stop,
      ⟨hw.ben.rd, hpre, hw.ben.hold, hw.ben.em⟩, hw.sc, hw.mtx, hw.hs, hw.ev, hw.segs, hw.em, Nat.le_refl _⟩
  have hsv := (hall_of_okn (mc := mc) y [] (fun z hz => by rw [List.mem_singleton.1 hz]; exact hoky)
    [] (UReq.spec mc y) [] rfl).1
  obtain ⟨c2, Ay, hrun2, hsegy, hw2⟩ := hsv [] Lw [] h evs (c₁.env.tr.rd.length + pre'.length)
    (E2E.feed (setWr c₁ pre') y.wire) n0 fuel
    ⟨(fun _ he => nomatch he), (fun _ hr => nomatch hr)⟩ (Or.inl ⟨_, hwW, rfl⟩) hf
  have hX : Bad ⟨[], bad :: post, []⟩ :=
    ⟨Or.inl rfl, Or.inr ⟨bad, post, rfl, by rcases hbad with rfl | rfl <;> rfl⟩, Or.inl rfl⟩
  have hc := feedW_ext c₁ y.wire pre' (bad :: post)
  have hp : AllProp (E2E.feed (setWr c₁ pre') y.wire) := by
    obtain ⟨phase, env, scripts, stop⟩ := c₁
    have h1 := hw.ph
    have h3 := hw.sc
    simp only at h1 h3
    subst h1 h3
    exact ⟨fun s hs => by
      have hs' : s = y.handler := by simpa [E2E.feed, setWr] using hs
      rw [hs']; exact uhandler_prop y, trivial⟩
  have hlog0 : (feedW c₁ y.wire (pre' ++ bad :: post)).env.tr.wlog = Lw := hw.log
  have hhs0 : hsCount (feedW c₁ y.wire (pre' ++ bad :: post)).env.tr.events = h := hw.hs
  rcases Indep3.runTask_dich hX fuel (E2E.feed (setWr c₁ pre') y.wire) n0 none hp with hsame | ⟨c3, h3, hhit⟩
  · rw [hrun2] at hsame
    exact ⟨extC ⟨[], bad :: post, []⟩ c2, "STALL", Ay, by rw [hc]; exact hsame, hsegy,
      Or.inl ⟨rfl, hw2.log, hw2.hs, c2.env.tr.wr, rfl⟩⟩
  · rw [hrun2] at hhit
    simp only at hhit
    have hp2 : AllProp (feedW c₁ y.wire (pre' ++ bad :: post)) := by
      rw [hc]; exact ⟨hp.1, hp.2⟩
    have hrun3 : runTask fuel (feedW c₁ y.wire (pre' ++ bad :: post)) n0 none = (c3, "RET") := by
      rw [hc]; exact h3
    obtain ⟨⟨w, hw'⟩, hge⟩ := Indep3.runTask_grow fuel (feedW c₁ y.wire (pre' ++ bad :: post)) n0 none
    rw [hrun3] at hw' hge
    simp only at hw' hge
    rw [hlog0] at hw'
    rw [hhs0] at hge
    have hpre2 := hhit.rel.log
    rw [hw', hw2.log] at hpre2
    have hwf' : WriteFailed (feedW c₁ y.wire (pre' ++ bad :: post)).env.tr c3.env.tr := by
      rcases hhit.rel.used with ⟨_, _, h, _⟩ | ⟨b', post', h, hsuf⟩ | ⟨_, _, h, _⟩
      · cases h
      · simp only [List.cons.injEq] at h
        obtain ⟨rfl, rfl⟩ := h
        obtain ⟨z, hz⟩ := hsuf
        left
        refine ⟨pre' ++ bad :: z, ?_, bad, by simp, by rcases hbad with rfl | rfl <;> rfl⟩
        show pre' ++ bad :: post = _
        rw [← hz]; simp
      · cases h
    obtain ⟨_, _, t1, t2, hcl, hfc, hws, hlog⟩ := runTask_write_failure hp2 hrun3 hwf'
    obtain ⟨e, inH, he, hlast⟩ := hhit.err
    have he' : WrErrOf bad e := by
      rcases he with ⟨⟨_, h⟩, _⟩ | ⟨⟨_, h⟩, h2⟩ | ⟨⟨_, h⟩, h2⟩ | ⟨⟨_, h⟩, _⟩
      · cases h
      · simp only [List.cons.injEq] at h; exact Or.inl ⟨h.1, h2⟩
      · simp only [List.cons.injEq] at h; exact Or.inr ⟨h.1, h2⟩
      · cases h
    have hhs := hhit.rel.hs
    rw [hw2.hs] at hhs
    exact ⟨c3, "RET", Ay, hrun3, hsegy, Or.inr ⟨rfl, hhit.ph,
      ⟨w, hw', (List.prefix_append_right_inj _).1 hpre2⟩, hge, hhs, ⟨e, inH, he', hlast⟩, t1, t2, hcl, hfc, hws, hlog⟩⟩

/-- `write_error_in_last_request_e2e_whole` over `UReq.OKn` (no cost fields). -/
theorem write_error_in_last_request_e2e_whole_okn {b mc : Nat} (x : UReq) (xs : List UReq) (y : UReq) {t : Transport}
    {fuel : Nat} (pre post : List WrAns) (bad : WrAns) (hbad : bad = .err ∨ bad = .zero)
    (hwr : t.wr = pre ++ bad :: post)
    (hok : ∀ z ∈ x :: xs, z.OKn b) (hoky : y.OKn b) (hleft : ((x :: xs).getLast (by simp)).left = [])
    (hin : t.input = x.wire) (hben : Ben { t with wr := pre }) (hem : t.endMode = .pend) (hev : hsCount t.events = 0)
    (hfuel : t.rd.length + pre.length + 1 ≤ fuel) :
    ∃ c₁ A n,
      -- the benign prefix (on the script truncated in front of the failing answer): `n` answers consumed
      closedLoop fuel (xs.map UReq.wire) (connS b mc { t with wr := pre } ((x :: xs).map UReq.handler ++ [y.handler])) 0 =
        (c₁, "STALL") ∧
      SegsAll mc (x :: xs) A ∧ c₁.env.tr.wr = pre.drop n ∧ n + c₁.env.tr.wr.length = pre.length ∧
      -- if it leaves at least one answer: the failing answer is answer `|pre| - n ≥ 1` of the last request's own output
      (c₁.env.tr.wr ≠ [] →
        ∃ c' fin Ay,
          closedLoop fuel (xs.map UReq.wire ++ [y.wire]) (connS b mc t ((x :: xs).map UReq.handler ++ [y.handler])) 0 =
            (c', fin) ∧
          y.Seg mc Ay ∧
          ((fin = "STALL" ∧ c'.env.tr.wlog = t.wlog ++ A ++ Ay ∧ hsCount c'.env.tr.events = (x :: xs).length + 1 ∧
              ∃ rest, c'.env.tr.wr = rest ++ bad :: post) ∨
           (fin = "RET" ∧ c'.phase = .finished ∧
            (∃ w, c'.env.tr.wlog = t.wlog ++ A ++ w ∧ w <+: Ay) ∧
            (x :: xs).length ≤ hsCount c'.env.tr.events ∧ hsCount c'.env.tr.events ≤ (x :: xs).length + 1 ∧
            (∃ e inH, WrErrOf bad e ∧ (inH = true → ∃ evs, c'.env.tr.events = evs ++ [handlerErrEv e])) ∧
            (∃ t0 t1 t2, Clean t0 t1 ∧ FailCall t1 t2 ∧ WSame t2 c'.env.tr ∧ c'.env.tr.wlog = t1.wlog)))) := by
  obtain ⟨c₁, A, hrun, hseg, hw, ⟨n, hn1, hn2⟩, _, _⟩ :=
    chain_prefix_s_okn (mc := mc) (t := { t with wr := pre }) x xs [y.handler] hok hleft hin hben hem hev hfuel
  refine ⟨c₁, A, n, hrun, hseg, hn1, hn2, fun hrem => ?_⟩
  -- the prefix on the faulty script
  have ht : t = appW (bad :: post) { t with wr := pre } := by
    obtain ⟨input, endMode, rd, wr, fl, wlog, events, hold, woken, readWaker, abortKind⟩ := t
    simp only at hwr
    subst hwr
    simp [ext]
  have hc : connS b mc t ((x :: xs).map UReq.handler ++ [y.handler]) =
      appC (bad :: post) (connS b mc { t with wr := pre } ((x :: xs).map UReq.handler ++ [y.handler])) := by
    conv => lhs; rw [ht]
    rfl
  have hpre := closedLoop_app (bad :: post) fuel (xs.map UReq.wire)
    (connS b mc { t with wr := pre } ((x :: xs).map UReq.handler ++ [y.handler])) 0 (by rw [hrun]; exact hrem)
  rw [hrun] at hpre
  simp only at hpre
  -- the last leg
  have hans := hw.ans
  obtain ⟨c', fin, Ay, hleg, hsy, hcase⟩ := write_error_leg_okn (mc := mc) y (fuel := fuel)
    (0 + 1000 * ((xs.map UReq.wire).length + 1)) c₁.env.tr.wr bad post hbad hoky hw hw.ben.wr (by
      unfold ans at hans
      show c₁.env.tr.rd.length + c₁.env.tr.wr.length + 1 ≤ fuel
      have : ({ t with wr := pre } : Transport).rd.length + ({ t with wr := pre } : Transport).wr.length = t.rd.length + pre.length := rfl
      omega)
  have hfeed : E2E.feed (appC (bad :: post) c₁) y.wire = feedW c₁ y.wire (c₁.env.tr.wr ++ bad :: post) := by
    rw [feedW_ext, setWr_self]; rfl
  refine ⟨c', fin, Ay, ?_, hsy, ?_⟩
  · rw [closedLoop_snoc, hc, hpre]
    simp only [if_true]
    rw [hfeed]
    exact hleg
  · have hlog : c₁.env.tr.wlog = t.wlog ++ A := hw.log
    rcases hcase with ⟨h1, h2, h3, h4⟩ | ⟨h1, h2, h3, h4, h5, h6, t1, t2, h7⟩
    · exact Or.inl ⟨h1, h2, h3, h4⟩
    · exact Or.inr ⟨h1, h2, h3, h4, h5, h6, _, t1, t2, h7⟩

/-- `read_error_leg` over `UReq.OKn` (no cost fields). -/
theorem read_error_leg_okn {b mc : Nat} (y : UReq) {Lw : Bytes} {h : Nat} {evs : List String} {A0 : Nat} {c₁ : Conn}
    {fuel : Nat} (n0 : Nat) (pre' : List RdAns) (post : List RdAns)
    (hoky : y.OKn b)
    (hw : Waiting (alignedBufsize b) mc [] Lw [y.handler] h evs A0 c₁)
    (hpre : ∀ a ∈ pre', a ≠ RdAns.err)
    (hf : pre'.length + c₁.env.tr.wr.length + 1 ≤ fuel) :
    ∃ c' fin Ay, runTask fuel (feedR c₁ y.wire (pre' ++ .err :: post)) n0 none = (c', fin) ∧ y.Seg mc Ay ∧
      ((fin = "STALL" ∧ c'.env.tr.wlog = Lw ++ Ay ∧ hsCount c'.env.tr.events = h + 1 ∧
          ∃ rest, c'.env.tr.rd = rest ++ .err :: post) ∨
       (fin = "RET" ∧ c'.phase = .finished ∧
        (∃ w, c'.env.tr.wlog = Lw ++ w ∧ w <+: Ay) ∧
        h ≤ hsCount c'.env.tr.events ∧ hsCount c'.env.tr.events ≤ h + 1 ∧
        (∃ e inH, (e = .connectionAborted ∨ e = .transportRead) ∧
          (inH = true → ∃ evs, c'.env.tr.events = evs ++ [handlerErrEv e])))) := by
  have hwW : Waiting (alignedBufsize b) mc [] Lw [y.handler] h evs (pre'.length + c₁.env.tr.wr.length) (setRd c₁ pre') :=
    ⟨hw.ph, hw.nf, hw.rem, hw.inp, hw.log, hw.logL, hw.stop,
      ⟨hpre, hw.ben.wr, hw.ben.hold, hw.ben.em⟩, hw.sc, hw.mtx, hw.hs, hw.ev, hw.segs, hw.em, Nat.le_refl _⟩
  have hsv := (hall_of_okn (mc := mc) y [] (fun z hz => by rw [List.mem_singleton.1 hz]; exact hoky)
    [] (UReq.spec mc y) [] rfl).1
  obtain ⟨c2, Ay, hrun2, hsegy, hw2⟩ := hsv [] Lw [] h evs (pre'.length + c₁.env.tr.wr.length)
    (E2E.feed (setRd c₁ pre') y.wire) n0 fuel
    ⟨(fun _ he => nomatch he), (fun _ hr => nomatch hr)⟩ (Or.inl ⟨_, hwW, rfl⟩) hf
  have hX : Bad ⟨.err :: post, [], []⟩ := ⟨Or.inr ⟨post, rfl⟩, Or.inl rfl, Or.inl rfl⟩
  have hc := feedR_ext c₁ y.wire pre' (.err :: post)
  have hp : AllProp (E2E.feed (setRd c₁ pre') y.wire) := by
    obtain ⟨phase, env, scripts, stop⟩ := c₁
    have h1 := hw.ph
    have h3 := hw.sc
    simp only at h1 h3
    subst h1 h3
    exact ⟨fun s hs => by
      have hs' : s = y.handler := by simpa [E2E.feed, setRd] using hs
      rw [hs']; exact uhandler_prop y, trivial⟩
  have hlog0 : (feedR c₁ y.wire (pre' ++ .err :: post)).env.tr.wlog = Lw := hw.log
  have hhs0 : hsCount (feedR c₁ y.wire (pre' ++ .err :: post)).env.tr.events = h := hw.hs
  rcases Indep3.runTask_dich hX fuel (E2E.feed (setRd c₁ pre') y.wire) n0 none hp with hsame | ⟨c3, h3, hhit⟩
  · rw [hrun2] at hsame
    exact ⟨extC ⟨.err :: post, [], []⟩ c2, "STALL", Ay, by rw [hc]; exact hsame, hsegy,
      Or.inl ⟨rfl, hw2.log, hw2.hs, c2.env.tr.rd, rfl⟩⟩
  · rw [hrun2] at hhit
    simp only at hhit
    have hrun3 : runTask fuel (feedR c₁ y.wire (pre' ++ .err :: post)) n0 none = (c3, "RET") := by
      rw [hc]; exact h3
    obtain ⟨⟨w, hw'⟩, hge⟩ := Indep3.runTask_grow fuel (feedR c₁ y.wire (pre' ++ .err :: post)) n0 none
    rw [hrun3] at hw' hge
    simp only at hw' hge
    rw [hlog0] at hw'
    rw [hhs0] at hge
    have hpre2 := hhit.rel.log
    rw [hw', hw2.log] at hpre2
    obtain ⟨e, inH, he, hlast⟩ := hhit.err
    have he' : e = .connectionAborted ∨ e = .transportRead := by
      rcases he with ⟨_, h2⟩ | ⟨⟨_, h⟩, _⟩ | ⟨⟨_, h⟩, _⟩ | ⟨⟨_, h⟩, _⟩
      · exact h2
      · cases h
      · cases h
      · cases h
    have hhs := hhit.rel.hs
    rw [hw2.hs] at hhs
    exact ⟨c3, "RET", Ay, hrun3, hsegy, Or.inr ⟨rfl, hhit.ph,
      ⟨w, hw', (List.prefix_append_right_inj _).1 hpre2⟩, hge, hhs, ⟨e, inH, he', hlast⟩⟩⟩

/-- `read_error_in_last_request_at_index_e2e_whole` over `UReq.OKn` (no cost fields). -/
theorem read_error_in_last_request_at_index_e2e_whole_okn {b mc : Nat} (x : UReq) (xs : List UReq) (y : UReq) {t : Transport}
    {fuel : Nat} (pre post : List RdAns) (hrd : t.rd = pre ++ .err :: post)
    (hok : ∀ z ∈ x :: xs, z.OKn b) (hoky : y.OKn b) (hleft : ((x :: xs).getLast (by simp)).left = [])
    (hin : t.input = x.wire) (hben : Ben { t with rd := pre }) (hem : t.endMode = .pend) (hev : hsCount t.events = 0)
    (hfuel : pre.length + t.wr.length + 1 ≤ fuel) :
    ∃ c₁ A n,
      closedLoop fuel (xs.map UReq.wire) (connS b mc { t with rd := pre } ((x :: xs).map UReq.handler ++ [y.handler])) 0 =
        (c₁, "STALL") ∧
      SegsAll mc (x :: xs) A ∧ c₁.env.tr.rd = pre.drop n ∧ n + c₁.env.tr.rd.length = pre.length ∧
      (c₁.env.tr.rd ≠ [] →
        ∃ c' fin Ay,
          closedLoop fuel (xs.map UReq.wire ++ [y.wire]) (connS b mc t ((x :: xs).map UReq.handler ++ [y.handler])) 0 =
            (c', fin) ∧
          y.Seg mc Ay ∧
          ((fin = "STALL" ∧ c'.env.tr.wlog = t.wlog ++ A ++ Ay ∧ hsCount c'.env.tr.events = (x :: xs).length + 1 ∧
              ∃ rest, c'.env.tr.rd = rest ++ .err :: post) ∨
           (fin = "RET" ∧ c'.phase = .finished ∧
            (∃ w, c'.env.tr.wlog = t.wlog ++ A ++ w ∧ w <+: Ay) ∧
            (x :: xs).length ≤ hsCount c'.env.tr.events ∧ hsCount c'.env.tr.events ≤ (x :: xs).length + 1 ∧
            (∃ e inH, (e = .connectionAborted ∨ e = .transportRead) ∧
              (inH = true → ∃ evs, c'.env.tr.events = evs ++ [handlerErrEv e]))))) := by
  obtain ⟨c₁, A, hrun, hseg, hw, _, _, ⟨n, hn1, hn2⟩⟩ :=
    chain_prefix_s_okn (mc := mc) (t := { t with rd := pre }) x xs [y.handler] hok hleft hin hben hem hev hfuel
  refine ⟨c₁, A, n, hrun, hseg, hn1, hn2, fun hrem => ?_⟩
  have ht : t = appR (.err :: post) { t with rd := pre } := by
    obtain ⟨input, endMode, rd, wr, fl, wlog, events, hold, woken, readWaker, abortKind⟩ := t
    simp only at hrd
    subst hrd
    simp [ext]
  have hc : connS b mc t ((x :: xs).map UReq.handler ++ [y.handler]) =
      appCR (.err :: post) (connS b mc { t with rd := pre } ((x :: xs).map UReq.handler ++ [y.handler])) := by
    conv => lhs; rw [ht]
    rfl
  have hpre := closedLoop_appR (.err :: post) fuel (xs.map UReq.wire)
    (connS b mc { t with rd := pre } ((x :: xs).map UReq.handler ++ [y.handler])) 0 (by rw [hrun]; exact hrem)
  rw [hrun] at hpre
  simp only at hpre
  have hans := hw.ans
  obtain ⟨c', fin, Ay, hleg, hsy, hcase⟩ := read_error_leg_okn (mc := mc) y (fuel := fuel)
    (0 + 1000 * ((xs.map UReq.wire).length + 1)) c₁.env.tr.rd post hoky hw hw.ben.rd (by
      unfold ans at hans
      have : ({ t with rd := pre } : Transport).rd.length + ({ t with rd := pre } : Transport).wr.length = pre.length + t.wr.length := rfl
      omega)
  have hfeed : E2E.feed (appCR (.err :: post) c₁) y.wire = feedR c₁ y.wire (c₁.env.tr.rd ++ .err :: post) := by
    rw [feedR_ext, setRd_self]; rfl
  refine ⟨c', fin, Ay, ?_, hsy, ?_⟩
  · rw [closedLoop_snoc, hc, hpre]
    simp only [if_true]
    rw [hfeed]
    exact hleg
  · have hlog : c₁.env.tr.wlog = t.wlog ++ A := hw.log
    rcases hcase with ⟨h1, h2, h3, h4⟩ | ⟨h1, h2, h3, h4, h5, h6⟩
    · exact Or.inl ⟨h1, h2, h3, h4⟩
    · exact Or.inr ⟨h1, h2, h3, h4, h5, h6⟩

end Fcgi.C12E
