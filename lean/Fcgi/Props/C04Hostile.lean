import Fcgi.Proofs.StrReplies
import Fcgi.Props.C03StrSet
import Fcgi.Props.C04
import Fcgi.Proofs.ReqTail
import Fcgi.Props.C06Suff
/-!
# C04 on ARBITRARY input — every owing record gets exactly one reply, in order, nothing else

`Props/C04.lean` and `C02.stream_replies_exact` prove reply exactness for well-formed traffic.
Here the byte string is arbitrary.

## 1. Stream parser (`stream_replies_hostile`, `stream_output_exact`, `stream_output_prefix`)

With `(rs, tail)` the unique decomposition of the bytes `w` into well-formed version-1 records and an
unfinished tail (`C03SI.decomposition_*`) and `k` the position at which the record-level reference
`refRun` stops (end of the active stream, `AbortRequest`, or `rs.length`), the reply bytes are

    (rs.take k).flatMap (Spec.owed (some E.id) E.mc)  ++  replies of the tail (only if k = rs.length)

i.e. for each record in front of the stop position, in record order, exactly what the
specification owes for it relative to the request in progress — `Spec.owed`: one `UnknownType`
for an unknown type, one `GetValuesResult` for a management `GetValues` with a non-empty body, one
`EndRequest(CantMpxConn)` for a `BeginRequest` with another id, nothing for anything else — and
nothing for the stopping record or what follows it.  The tail (`refTail_out`): the reply a header
alone triggers as soon as the header is there, the `GetValuesResult` once the body is complete.
The model's output after ANY legal call history equals this once everything fed was processed, and
is a prefix of it at any time.

## 2. Request parser (`req_replies_hostile`, `req_replies_chunked`)

`reqRef mc w`: decompose `w`, run the phase automaton `Req.reqRun` (idle → Params stream of `id` →
done | fatal `e`, `Proofs/ReqRef.lean`) over the records, then `Req.reqTail` over the unfinished
tail.  `State::drive` from `Header` on ANY `w` emits exactly `(reqRef mc w).out`, ends in the phase
it says, and — when that is `done` / `fatal e` — leaves exactly the input it says unconsumed.  The
replies do not depend on the contents of the request's own Params records.
-/
namespace Fcgi.C04H
open Fcgi Fcgi.Str Fcgi.Spec Fcgi.C03SI
open Fcgi.Req (Request PErr)

/-! ## 1. Stream parser -/

/-- The replies the specification prescribes for the byte string `w` while stream `E.s` of request
`E.id` is being read. -/
def streamReplies (E : Cfg) (w : Bytes) : Bytes :=
  ((decomp w).1.take ((refRun E (decomp w).1).stop.idx (decomp w).1.length)).flatMap
      (owed (some E.id) E.mc) ++
    (match (refRun E (decomp w).1).stop with
     | .ranOut => (refTail E (decomp w).2).out
     | _ => [])

/-- **C04, stream parser, reference level.**  The reply bytes of the reference are exactly
`streamReplies`: one `Spec.owed` per record in front of the stop position, in order, then the
tail's. -/
theorem stream_replies_hostile (E : Cfg) (w : Bytes) : (refWire E w).out = streamReplies E w :=
  refWire_out E w

/-- Through any presentation of the bytes as records and tail. -/
theorem stream_replies_presentation (E : Cfg) {rs : List Rec} {tail : Bytes}
    (hwf : ∀ r ∈ rs, r.WF) (ht : nextRec tail = none) :
    streamReplies E (serAll rs ++ tail) =
      (rs.take ((refRun E rs).stop.idx rs.length)).flatMap (owed (some E.id) E.mc) ++
        (match (refRun E rs).stop with
         | .ranOut => (refTail E tail).out
         | _ => []) := by
  unfold streamReplies
  rw [decomp_serAll rs hwf tail ht]

/-- What `Spec.owed` is, case by case (the C04 wording): exactly one reply record, or nothing. -/
theorem owed_cases (id mc : Nat) (r : Rec) :
    owed (some id) mc r =
      if RT.valid r.rtype.toNat = false then UnknownType.toRecord r.rtype r.id
      else if r.rtype.toNat = RT.getValues ∧ r.id = 0 ∧ r.content ≠ [] then
        Vars.responseRecord (Vars.extend 0 (NV.all r.content).1) mc
      else if r.rtype.toNat = RT.beginRequest ∧ r.id ≠ id then
        EndRequest.toRecord { appStatus := 0, protocolStatus := 1 } r.id
      else [] := by
  unfold owed
  by_cases hv : RT.valid r.rtype.toNat = false
  · simp [hv]
  · have hv' : RT.valid r.rtype.toNat = true := by simpa using hv
    rw [if_neg hv]
    simp only [hv', Bool.not_true, Bool.false_eq_true, if_false]
    by_cases hg : r.rtype.toNat = RT.getValues ∧ r.id = 0
    · by_cases hc : r.content = []
      · simp [hg.1, hg.2, hc, RT.getValues, RT.beginRequest]
      · have : r.content.isEmpty = false := by cases h : r.content <;> simp_all
        simp [hg.1, hg.2, hc, this]
    · have h1 : (r.rtype.toNat == RT.getValues && r.id == 0) = false := by
        cases hb : r.rtype.toNat == RT.getValues with
        | false => rfl
        | true =>
          simp only [beq_iff_eq] at hb
          simp only [Bool.true_and, beq_eq_false_iff_ne, ne_eq]
          exact fun he => hg ⟨hb, he⟩
      have h2 : ¬ (r.rtype.toNat = RT.getValues ∧ r.id = 0 ∧ r.content ≠ []) :=
        fun h => hg ⟨h.1, h.2.1⟩
      simp only [h1, Bool.false_eq_true, if_false, if_neg h2]
      by_cases hb : r.rtype.toNat = RT.beginRequest
      · by_cases hi : r.id = id <;> simp [hb, hi]
      · simp [hb]

/-- **C04, stream parser, exactness.**  After any legal history of `parse` (any chunking, any
`dest`), `consume_stream`, `compress`, `consume_output` that has processed what it fed: the reply
bytes generated are exactly `streamReplies` of the bytes fed; and (FIFO ledger) the bytes handed to
the transport followed by those still queued are the initial queue followed by exactly these. -/
theorem stream_output_exact {E : Cfg} {p0 : Parser} (h0 : Start E p0) (ops : List Op)
    (hl : LegalAll p0 ops) (hns : NoSet ops) (hdr : Drained (applyOps p0 ops)) :
    C03S.grownAll p0 ops = streamReplies E (p0.raw ++ fedBytes ops) ∧
    C03S.sentAll p0 ops ++ (applyOps p0 ops).output =
      p0.output ++ streamReplies E (p0.raw ++ fedBytes ops) := by
  have h := (drained_outcome h0 ops hl hns hdr).1
  have ho : C03S.grownAll p0 ops = (refWire E (p0.raw ++ fedBytes ops)).out :=
    congrArg Outcome.out h
  rw [stream_replies_hostile] at ho
  exact ⟨ho, by rw [C03S.output_ledger, ho]⟩

/-- **C04, stream parser, at any time**: whatever prefix of `w` has been fed, the reply bytes
generated so far are a prefix of `streamReplies E w` — no other bytes are ever produced. -/
theorem stream_output_prefix {E : Cfg} {p0 : Parser} (h0 : Start E p0) (ops : List Op)
    (hl : LegalAll p0 ops) (hns : NoSet ops) (w : Bytes) (hfed : p0.raw ++ fedBytes ops <+: w) :
    C03S.grownAll p0 ops <+: streamReplies E w := by
  have := (prefix_sim h0 ops hl hns w hfed).2.2.2
  rwa [stream_replies_hostile] at this

/-- With one stream switch (`C03SS`): the replies of both phases together are the old stream's up to
its end mark followed by the new stream's from there. -/
theorem stream_output_exact_switch {E : Cfg} {p0 : Parser} (h0 : Start E p0) {A B : List Op}
    {s' : Nat} (h : C03SS.TwoPhase E p0 A s' B)
    (hdr : Drained (applyOps p0 (A ++ [.setStream (some s')] ++ B))) :
    C03S.grownAll p0 (A ++ [.setStream (some s')] ++ B) =
      (switchRef (E.withStream s')
        (refWire E (p0.raw ++ fedBytes (A ++ [.setStream (some s')] ++ B)))).out :=
  congrArg Outcome.out (C03SS.phase_drained_outcome h0 h hdr).1

/-- The reported count equals the bytes appended (re-export of `C03S.outGrowth_parse_len`). -/
theorem stream_output_count {p p' : Parser} {new : Bytes} {dest : Option Nat} {st : Status}
    (hcap : p.freeStart ≤ p.cap) (hd : dest = none ∨ p.parsed = []) (hfree : new.length ≤ p.free)
    (h : p.parse new dest = (p', .ok st)) :
    (C03S.outGrowth p (.parse new dest)).length = st.output :=
  C03S.outGrowth_parse_len hcap hd hfree h


/-! ## 2. Request parser -/

section Request
open Fcgi.Req

/-- What the reference says about a byte string. -/
structure ReqRefOut where
  out : Bytes
  phase : Phase
  unread : Bytes      -- meaningful when `phase` is `done` / `fatal`
deriving DecidableEq, Repr

/-- **The request parser's reference**: decomposition, phase automaton over the records, tail. -/
def reqRef (mc : Nat) (w : Bytes) : ReqRefOut :=
  if (reqRun mc .idle (decomp w).1).phase.isFinal = true then
    ⟨(reqRun mc .idle (decomp w).1).out, (reqRun mc .idle (decomp w).1).phase,
      (serAll ((decomp w).1.drop (reqRun mc .idle (decomp w).1).k) ++ (decomp w).2).drop
        (reqRun mc .idle (decomp w).1).skip⟩
  else
    ⟨(reqRun mc .idle (decomp w).1).out ++
        (reqTail mc (reqRun mc .idle (decomp w).1).phase (decomp w).2).out,
      (reqTail mc (reqRun mc .idle (decomp w).1).phase (decomp w).2).phase,
      (reqTail mc (reqRun mc .idle (decomp w).1).phase (decomp w).2).unread⟩

/-- **C04 (and C03), request parser, any input.**  For EVERY byte string `w` — no well-formedness —
the loop from `Header` emits exactly the replies the automaton prescribes, in record order, and
nothing else; ends in the phase it prescribes (idle / inside request `id` / done / the specific fatal
error); when that phase is final, the unconsumed input is the one prescribed; and no panic site is
reached. -/
theorem req_replies_hostile (mc : Nat) (w : Bytes) :
    (run .header w mc).out = (reqRef mc w).out ∧
    phaseOf (run .header w mc).st = (reqRef mc w).phase ∧
    ((reqRef mc w).phase.isFinal = true → (run .header w mc).rem = (reqRef mc w).unread) ∧
    (run .header w mc).panic = none := by
  obtain ⟨h1, h2, h3⟩ := decomp_spec w
  have hg := run_records mc (decomp w).1 h2 .header .idle (Or.inl ⟨rfl, rfl⟩) (decomp w).2
  have hpanic := (run_ok w mc (st := .header) trivial).1
  unfold Goal at hg
  rw [← h1] at hg
  unfold reqRef
  by_cases hf : (reqRun mc .idle (decomp w).1).phase.isFinal = true
  · rw [if_pos hf] at hg ⊢
    have e1 := congrArg Obs.out hg
    have e2 := congrArg Obs.phase hg
    have e3 := congrArg Obs.rem hg
    exact ⟨e1, e2, fun _ => e3, hpanic⟩
  · rw [if_neg hf] at hg ⊢
    obtain ⟨st', hr, ho⟩ := hg
    obtain ⟨t1, t2, t3⟩ := run_tail mc hr h3
    have e1 := congrArg Obs.out ho
    have e2 := congrArg Obs.phase ho
    have e3 := congrArg Obs.rem ho
    simp only [obs, Obs.pre] at e1 e2 e3
    exact ⟨by rw [e1, t1], by rw [e2, t2], fun hfin => by rw [e3]; exact t3 hfin, hpanic⟩

/-- Through any presentation of the bytes as records followed by an unfinished tail. -/
theorem reqRef_presentation (mc : Nat) {rs : List Rec} {tail : Bytes} (hwf : ∀ r ∈ rs, r.WF)
    (ht : nextRec tail = none) :
    reqRef mc (serAll rs ++ tail) =
      if (reqRun mc .idle rs).phase.isFinal = true then
        ⟨(reqRun mc .idle rs).out, (reqRun mc .idle rs).phase,
          (serAll (rs.drop (reqRun mc .idle rs).k) ++ tail).drop (reqRun mc .idle rs).skip⟩
      else
        ⟨(reqRun mc .idle rs).out ++ (reqTail mc (reqRun mc .idle rs).phase tail).out,
          (reqTail mc (reqRun mc .idle rs).phase tail).phase,
          (reqTail mc (reqRun mc .idle rs).phase tail).unread⟩ := by
  unfold reqRef
  rw [decomp_serAll rs hwf tail ht]

/-- **Under any chunking** (`C06.feedAll_track`): a legal feeding of a fresh `request::Parser`
during which no call fills the buffer with an unfinished unit (`NoStuck`) emits, over all calls
together, exactly the reference replies of the bytes it fed — all of `cs` unless the parser
completed before — and ends in the reference phase. -/
theorem req_replies_chunked (b mc : Nat) {cs : List Bytes} (hl : C03.LegalFeed (Parser.new b mc) cs)
    (hne : cs ≠ []) (hns : C06.NoStuck (Parser.new b mc) cs.flatten) :
    ∃ fed rest, cs = fed ++ rest ∧ fed.flatten ≠ [] ∧
      (C03.feedAll (Parser.new b mc) cs).2.1 = (reqRef mc fed.flatten).out ∧
      phaseOf (C03.feedAll (Parser.new b mc) cs).1.state = (reqRef mc fed.flatten).phase ∧
      (rest ≠ [] → (reqRef mc fed.flatten).phase.isFinal = true) := by
  obtain ⟨fed, rest, h1, h2, h3, h4⟩ :=
    C06.feedAll_track cs (Parser.new b mc) (Req.new_inv b mc) hl rfl hne hns
  obtain ⟨r1, r2, -, -⟩ := req_replies_hostile mc fed.flatten
  refine ⟨fed, rest, h1, h2, ?_, ?_, fun hr => ?_⟩
  · rw [h3]; simpa [Parser.new] using r1
  · rw [h3]; simpa [Parser.new] using r2
  · have := h4 hr
    simp only [Parser.new, List.nil_append] at this
    rw [← r2]
    revert this
    cases (run .header fed.flatten mc).st <;> simp [State.isFinal, phaseOf, Phase.isFinal, ctxPhase] <;>
      (rename_i c _ _; cases c <;> simp [ctxPhase, Phase.isFinal])

/-- `NoStuck` holds whenever everything fits into the buffer with room to spare. -/
theorem noStuck_of_small (p : Req.Parser) (hp : Req.PInv p) (W : Bytes)
    (h : p.input.length + W.length < p.cap) : C06.NoStuck p W := by
  intro w hw _
  right
  have h1 := (run_ok (p.input ++ w) p.maxConns hp.2.1).2.2.length_le
  have h2 := hw.length_le
  simp only [List.length_append] at h1
  omega

/-- In particular: bytes that fit a fresh parser's buffer, fed in ANY legal chunking (e.g. byte by
byte, `C03.legalFeed_singles`, or all at once), elicit exactly the reference replies. -/
theorem req_replies_chunked_small (b mc : Nat) {cs : List Bytes}
    (hl : C03.LegalFeed (Req.Parser.new b mc) cs) (hne : cs ≠ [])
    (hs : cs.flatten.length < alignedBufsize b) :
    ∃ fed rest, cs = fed ++ rest ∧ fed.flatten ≠ [] ∧
      (C03.feedAll (Req.Parser.new b mc) cs).2.1 = (reqRef mc fed.flatten).out ∧
      phaseOf (C03.feedAll (Req.Parser.new b mc) cs).1.state = (reqRef mc fed.flatten).phase ∧
      (rest ≠ [] → (reqRef mc fed.flatten).phase.isFinal = true) :=
  req_replies_chunked b mc hl hne
    (noStuck_of_small _ (Req.new_inv b mc) _ (by simpa [Req.Parser.new] using hs))

end Request


/-! ## 3. Concrete instances (non-vacuity) -/

section Examples
open Fcgi.Req

/-! ### Request parser: all reply kinds, hostile order, then a fatal header -/

def qRecs : List Rec :=
  [{ rtype := 200, id := 7, content := [1, 2, 3], pad := [0] },                 -- unknown type 200
   C02.exNoise,                                                                 -- management GetValues
   { rtype := 1, id := 0, content := [0, 9, 0, 0, 0, 0, 0, 0], pad := [] },     -- BeginRequest id 0, role 9
   { rtype := 5, id := 3, content := [1], pad := [] },                          -- stray Stdin while idle
   { rtype := 1, id := 1, content := [0, 1, 1, 0, 0, 0, 0, 0], pad := [0, 0] }, -- BeginRequest id 1
   { rtype := 1, id := 2, content := [0, 1, 0, 0, 0, 0, 0, 0], pad := [] },     -- BeginRequest id 2 meanwhile
   { rtype := 4, id := 1, content := [255, 255, 7], pad := [] },                -- Params of id 1: garbage
   { rtype := 77, id := 1, content := [], pad := [] }]                          -- unknown type 77, own id
/-- A header with version byte 3 and two more bytes. -/
def qTail : Bytes := [3, 1, 0, 1, 0, 8, 0, 0, 5, 5]
def qWire : Bytes := serAll qRecs ++ qTail

/-- The automaton: five replies in record order — `UnknownType(200)` to id 7, the
`GetValuesResult`, `EndRequest(UnknownRole)` to id 0 (the role is checked BEFORE the null id),
`EndRequest(CantMpxConn)` to id 2, `UnknownType(77)` to id 1 — nothing for the stray Stdin, the
BeginRequest that starts request 1, or its Params record; all 8 records consumed, inside request 1. -/
example : reqRun 10 .idle qRecs =
    ⟨UnknownType.toRecord 200 7 ++ owed none 10 C02.exNoise ++
      EndRequest.toRecord { appStatus := 0, protocolStatus := 3 } 0 ++
      EndRequest.toRecord { appStatus := 0, protocolStatus := 1 } 2 ++
      UnknownType.toRecord 77 1, .params 1, 8, 0⟩ := by decide +kernel

/-- The tail is fatal; the reference for the whole wire. -/
example : reqRef 10 qWire =
    ⟨(reqRun 10 .idle qRecs).out, .fatal (.unknownVersion 3), qTail⟩ := by decide +kernel

/-- The theorem on the instance, and the model computed directly. -/
example : (run .header qWire 10).out = (reqRun 10 .idle qRecs).out ∧
    phaseOf (run .header qWire 10).st = .fatal (.unknownVersion 3) ∧
    (run .header qWire 10).rem = qTail := by
  obtain ⟨h1, h2, h3, -⟩ := req_replies_hostile 10 qWire
  rw [show reqRef 10 qWire = ⟨(reqRun 10 .idle qRecs).out, .fatal (.unknownVersion 3), qTail⟩ by
    decide +kernel] at h1 h2 h3
  exact ⟨h1, h2, h3 rfl⟩
/-- Byte by byte, and all at once, into a fresh parser with a 256-byte buffer: both feedings are
legal and, by `req_replies_chunked_small`, both emit exactly the reference replies of what they fed. -/
example : ∃ fed rest, C03.singles qWire = fed ++ rest ∧ fed.flatten ≠ [] ∧
    (C03.feedAll (Req.Parser.new 256 10) (C03.singles qWire)).2.1 = (reqRef 10 fed.flatten).out ∧
    phaseOf (C03.feedAll (Req.Parser.new 256 10) (C03.singles qWire)).1.state =
      (reqRef 10 fed.flatten).phase ∧
    (rest ≠ [] → (reqRef 10 fed.flatten).phase.isFinal = true) :=
  req_replies_chunked_small 256 10
    (C03.legalFeed_singles qWire _ (Req.new_inv 256 10) (fun _ => by decide))
    (by decide +kernel) (by rw [C03.flatten_singles]; decide +kernel)

def nullRecs : List Rec := [{ rtype := 1, id := 0, content := [0, 1, 0, 0, 0, 0, 0, 0], pad := [0, 0, 0] }]
def abortRecs : List Rec :=
  [{ rtype := 1, id := 1, content := [0, 1, 1, 0, 0, 0, 0, 0], pad := [] },
   { rtype := 2, id := 1, content := [9], pad := [] },
   { rtype := 1, id := 0, content := [0, 9, 1], pad := [] }]

/-- Order of the idle checks: id 0 with a KNOWN role is fatal `NullRequest` (header and body
consumed, the padding not); a wrong length is fatal before anything else of the record is looked
at; an `AbortRequest` of the request in progress is answered and the parser is idle again. -/
example : reqRef 10 (serAll nullRecs ++ [9]) = ⟨[], .fatal .nullRequest, [0, 0, 0, 9]⟩ ∧
    reqRef 10 (serAll abortRecs) =
      ⟨EndRequest.toRecord { appStatus := 0, protocolStatus := 0 } 1,
        .fatal (.invalidRequestLen 3), [1, 1, 0, 0, 0, 3, 0, 0, 0, 9, 1]⟩ := by decide +kernel

/-- A truncated tail: the header-triggered reply comes at once, the `GetValuesResult` only with the
complete body. -/
example : (reqRef 10 ((C02.exNoise.ser).take 20)).out = [] ∧
    (reqRef 10 ((C02.exNoise.ser).take 25)).out = owed none 10 C02.exNoise ∧
    (reqRef 10 [1, 200, 0, 7, 0, 3, 0, 0, 1]).out = UnknownType.toRecord 200 7 := by decide +kernel

/-! ### Stream parser: the same kinds of records inside a stream, then `AbortRequest` -/

def sE : Cfg := ⟨1, 1, 5, 10⟩
def sRecs : List Rec :=
  [{ rtype := 5, id := 1, content := [65], pad := [] },                         -- Stdin "A"
   { rtype := 200, id := 7, content := [1, 2, 3], pad := [0] },                 -- unknown type 200
   C02.exNoise,                                                                 -- management GetValues
   { rtype := 1, id := 2, content := [0, 1, 0, 0, 0, 0, 0, 0], pad := [] },     -- BeginRequest id 2
   { rtype := 1, id := 1, content := [0, 9, 0, 0, 0, 0, 0, 0], pad := [] },     -- BeginRequest own id: ignored
   { rtype := 5, id := 1, content := [66], pad := [] },                         -- Stdin "B"
   { rtype := 2, id := 1, content := [], pad := [] },                           -- AbortRequest: stop
   { rtype := 200, id := 7, content := [], pad := [] }]                         -- never reached
def sWire : Bytes := serAll sRecs ++ [1, 200, 0]

/-- Three replies — for records 1, 2, 3 — in order; nothing for the own-id BeginRequest; nothing
for the record behind the `AbortRequest`. -/
example : streamReplies sE sWire =
    UnknownType.toRecord 200 7 ++ owed (some 1) 10 C02.exNoise ++
      EndRequest.toRecord { appStatus := 0, protocolStatus := 1 } 2 ∧
    (refRun sE sRecs).stop = .abort 6 := by decide +kernel

/-- The model, under two schedules, against `stream_output_exact`. -/
def sP : Str.Parser := Str.Parser.fromParser 160 C02.exReq [] 10
theorem sStart : Start sE sP := start_fresh 160 C02.exReq [] 10 (by decide) (by decide) (Or.inl rfl)
def sOps1 : List Op := [.parse sWire none]
def sOps2 : List Op :=
  [.parse (sWire.take 30) (some 1), .consumeOutput 3, .parse ((sWire.drop 30).take 60) none,
   .consumeStream 9, .compress, .parse (sWire.drop 90) none]

example : C03S.grownAll sP sOps1 = streamReplies sE sWire ∧
    C03S.grownAll sP sOps2 = streamReplies sE sWire := by
  have h1 := (stream_output_exact sStart sOps1 (by decide +kernel) (fun s h => by simp [sOps1] at h)
    (by decide +kernel)).1
  have h2 := (stream_output_exact sStart sOps2 (by decide +kernel) (fun s h => by simp [sOps2] at h)
    (by decide +kernel)).1
  rw [show sP.raw ++ fedBytes sOps1 = sWire by decide +kernel] at h1
  rw [show sP.raw ++ fedBytes sOps2 = sWire by decide +kernel] at h2
  exact ⟨h1, h2⟩

end Examples

end Fcgi.C04H
