import Fcgi.Model.Header
import Fcgi.Model.Vars
import Fcgi.Gen.Tables
import Fcgi.Props.C15
import Fcgi.Proofs.Header
/-!
# C17 — Record headers, fixed record bodies and generated replies

Everything is stated over the executable model (`Model/Header.lean`, `Model/Vars.lean`); the
`tables_agree*` theorems tie every literal the model hard-codes to `Gen/Tables.lean`, which is
regenerated from the Rust source on every run.  All statements quantify over every header / body /
byte string; the only hypotheses are the field widths of the wire format.
-/
namespace Fcgi.C17
open Fcgi Fcgi.Proofs.Header

/-! ## 1. The model's literals are the ones in the source -/

/-- The eleven record types, in order, with the discriminants the model names in `RT.*`. -/
theorem tables_agree_recordTypes :
    Gen.recordTypeTable =
      [("BeginRequest", RT.beginRequest), ("AbortRequest", RT.abortRequest),
       ("EndRequest", RT.endRequest), ("Params", RT.params), ("Stdin", RT.stdin),
       ("Stdout", RT.stdout), ("Stderr", RT.stderr), ("Data", RT.data),
       ("GetValues", RT.getValues), ("GetValuesResult", RT.getValuesResult),
       ("Unknown", RT.unknown)] ∧
    Gen.recordTypeTable.map (·.2) = [1, 2, 3, 4, 5, 6, 7, 8, 9, 10, 11] := by
  constructor <;> rfl

/-- `RT.valid` accepts exactly the discriminants of the source enum (for every `t`, in particular
every byte). -/
theorem tables_agree_recordType_valid (t : Nat) :
    RT.valid t = Gen.recordTypeTable.any (·.2 == t) := by
  rw [Bool.eq_iff_iff]
  simp [RT.valid, Gen.recordTypeTable]
  omega

theorem tables_agree_roles :
    Gen.roleTable.map (·.2) = [1, 2, 3] ∧
    ∀ r : Nat, roleValid r = Gen.roleTable.any (·.2 == r) := by
  refine ⟨rfl, fun r => ?_⟩
  rw [Bool.eq_iff_iff]
  simp [roleValid, Gen.roleTable]
  omega

theorem tables_agree_protocolStatus :
    Gen.protocolStatusTable.map (·.2) = [0, 1, 2, 3] ∧
    ∀ s : Nat, EndRequest.statusValid s = Gen.protocolStatusTable.any (·.2 == s) := by
  refine ⟨rfl, fun s => ?_⟩
  rw [Bool.eq_iff_iff]
  simp [EndRequest.statusValid, Gen.protocolStatusTable]
  omega

theorem tables_agree_version : Gen.versionTable = [("V1", 1)] := rfl

/-- The three record-type classes. -/
theorem tables_agree_classes (t : Nat) :
    RT.isManagement t = Gen.isManagementList.contains t ∧
    RT.isInputStream t = Gen.isInputStreamList.contains t ∧
    RT.isOutputStream t = Gen.isOutputStreamList.contains t := by
  refine ⟨?_, ?_, ?_⟩ <;> rw [Bool.eq_iff_iff] <;>
  simp [RT.isManagement, RT.isInputStream, RT.isOutputStream, Gen.isManagementList,
    Gen.isInputStreamList, Gen.isOutputStreamList, or_assoc]

theorem tables_agree_lengths :
    Gen.recordHeaderLen = 8 ∧ Gen.unknownTypeLen = 8 ∧ Gen.beginRequestLen = 8 ∧
    Gen.endRequestLen = 8 ∧ Gen.epilogueLen = 32 ∧ Gen.responseLen = 104 ∧
    Gen.nullRequestId = 0 ∧ Gen.padModulus = 8 ∧ Gen.keepConn = 1 := by decide

theorem tables_agree_vars :
    Gen.protocolVarsTable = Vars.table ∧ Gen.varsUsingMaxConns = [1, 2] ∧
    Gen.varsConst = [(4, [48])] := by decide +kernel

/-- The value rule of the model is the one of the source: the variables listed in
`varsUsingMaxConns` get the connection limit, those in `varsConst` their constant. -/
theorem tables_agree_var_values (m : Nat) :
    (∀ b ∈ Gen.varsUsingMaxConns, Vars.value b m = decimal m) ∧
    (∀ e ∈ Gen.varsConst, Vars.value e.1 m = e.2) ∧
    Vars.table.map (·.2) = Gen.varsUsingMaxConns ++ Gen.varsConst.map (·.1) := by
  refine ⟨?_, ?_, by decide +kernel⟩ <;> simp [Gen.varsUsingMaxConns, Gen.varsConst, Vars.value]

theorem tables_agree_exit :
    Gen.exitAbort = 1094865492 ∧ ExitStatus.abort = .complete Gen.exitAbort ∧
    Gen.exitSuccess = 0 ∧
    Gen.exitStatusTable = [("Complete", 0), ("Overloaded", 2), ("UnknownRole", 3)] := by decide

theorem tables_agree_streams :
    Gen.inputStreamsTable.map (·.1) = [1, 2, 3] ∧
    ∀ r ∈ [1, 2, 3], Gen.inputStreamsTable.lookup r = some (inputStreams r) ∧
      outputStreams r = Gen.outputStreams := by decide

/-- Every explicit arm of `Role::next_input_stream` is reproduced, and for every role and every
reachable current stream, no arm in the source means `None` in the model. -/
theorem tables_agree_nextInputStream :
    (∀ a ∈ Gen.nextInputStreamArms, nextInputStream a.1 a.2.1 = a.2.2) ∧
    (∀ r ∈ [1, 2, 3], ∀ c ∈ none :: (inputStreams r).map some,
      (∀ x, (r, c, x) ∉ Gen.nextInputStreamArms) → nextInputStream r c = none) := by
  refine ⟨by decide, ?_⟩
  have key : ∀ r ∈ [1, 2, 3], ∀ c ∈ none :: (inputStreams r).map some,
      (¬ ∃ a ∈ Gen.nextInputStreamArms, a.1 = r ∧ a.2.1 = c) → nextInputStream r c = none := by
    decide
  intro r hr c hc hx
  refine key r hr c hc ?_
  rintro ⟨⟨r', c', x⟩, ha, rfl, rfl⟩
  exact hx x ha

/-- All of the above in one statement (the byte- and word-ranged instances of the per-table theorems). -/
theorem tables_agree :
    (Gen.recordTypeTable.map (·.2) = [1, 2, 3, 4, 5, 6, 7, 8, 9, 10, 11]) ∧
    (∀ t, t < 256 → RT.valid t = Gen.recordTypeTable.any (·.2 == t)) ∧
    (Gen.roleTable.map (·.2) = [1, 2, 3]) ∧
    (∀ r, r < 65536 → roleValid r = Gen.roleTable.any (·.2 == r)) ∧
    (Gen.protocolStatusTable.map (·.2) = [0, 1, 2, 3]) ∧
    (∀ s, s < 256 → EndRequest.statusValid s = Gen.protocolStatusTable.any (·.2 == s)) ∧
    Gen.versionTable = [("V1", 1)] ∧
    (∀ t, t < 256 → RT.isManagement t = Gen.isManagementList.contains t ∧
      RT.isInputStream t = Gen.isInputStreamList.contains t ∧
      RT.isOutputStream t = Gen.isOutputStreamList.contains t) ∧
    (Gen.recordHeaderLen = 8 ∧ Gen.unknownTypeLen = 8 ∧ Gen.beginRequestLen = 8 ∧
      Gen.endRequestLen = 8 ∧ Gen.epilogueLen = 32 ∧ Gen.responseLen = 104 ∧
      Gen.nullRequestId = 0 ∧ Gen.padModulus = 8 ∧ Gen.keepConn = 1) ∧
    (Gen.protocolVarsTable = Vars.table ∧ Gen.varsUsingMaxConns = [1, 2] ∧
      Gen.varsConst = [(4, [48])]) ∧
    (Gen.exitAbort = 1094865492 ∧ ExitStatus.abort = .complete Gen.exitAbort ∧
      Gen.exitSuccess = 0 ∧
      Gen.exitStatusTable = [("Complete", 0), ("Overloaded", 2), ("UnknownRole", 3)]) ∧
    (∀ r ∈ [1, 2, 3], Gen.inputStreamsTable.lookup r = some (inputStreams r) ∧
      outputStreams r = Gen.outputStreams) ∧
    (∀ a ∈ Gen.nextInputStreamArms, nextInputStream a.1 a.2.1 = a.2.2) ∧
    (∀ r ∈ [1, 2, 3], ∀ c ∈ none :: (inputStreams r).map some,
      (∀ x, (r, c, x) ∉ Gen.nextInputStreamArms) → nextInputStream r c = none) :=
  ⟨tables_agree_recordTypes.2, fun t _ => tables_agree_recordType_valid t,
   tables_agree_roles.1, fun r _ => tables_agree_roles.2 r,
   tables_agree_protocolStatus.1, fun s _ => tables_agree_protocolStatus.2 s,
   tables_agree_version, fun t _ => tables_agree_classes t,
   tables_agree_lengths, tables_agree_vars, tables_agree_exit, tables_agree_streams.2,
   tables_agree_nextInputStream.1, tables_agree_nextInputStream.2⟩

/-! ## 2–4. Record header -/

theorem header_length (h : RecordHeader) : h.toBytes.length = 8 := by
  simp [RecordHeader.toBytes, toBe16]

/-- Encoding then decoding (with anything following) is the identity on headers whose fields fit
their wire width. -/
theorem header_roundtrip (h : RecordHeader) (ht : RT.valid h.rtype = true)
    (hi : h.requestId < 65536) (hc : h.contentLength < 65536) (hp : h.paddingLength < 256)
    (rest : Bytes) : RecordHeader.fromBytes (h.toBytes ++ rest) = some (.ok h) := by
  obtain ⟨t, i, c, p⟩ := h
  simp [RT.valid] at ht
  simp at hi hc hp
  have h1 : t % 256 = t := by omega
  simp [RecordHeader.toBytes, toBe16, RecordHeader.fromBytes, be16, UInt8.toNat_ofNat', RT.valid,
    h1, ht]
  omega

/-- Fewer than 8 bytes: nothing is decoded. -/
theorem header_short (bs : Bytes) (h : bs.length < 8) : RecordHeader.fromBytes bs = none := by
  unfold RecordHeader.fromBytes
  split
  · simp at h; omega
  · rfl

/-- Exactly which 8-byte prefixes are rejected, and with which error: the version is checked
first (whatever the type byte), then the type; everything else decodes. -/
theorem header_reject_iff (b0 b1 b2 b3 b4 b5 b6 b7 : UInt8) (rest : Bytes) :
    let r := RecordHeader.fromBytes (b0 :: b1 :: b2 :: b3 :: b4 :: b5 :: b6 :: b7 :: rest)
    (r = some (.error (.unknownVersion b0)) ↔ b0.toNat ≠ 1) ∧
    (r = some (.error (.unknownRecordType b1)) ↔
      b0.toNat = 1 ∧ ¬(1 ≤ b1.toNat ∧ b1.toNat ≤ 11)) ∧
    (r = some (.ok { rtype := b1.toNat, requestId := be16 b2 b3, contentLength := be16 b4 b5,
                     paddingLength := b6.toNat }) ↔
      b0.toNat = 1 ∧ 1 ≤ b1.toNat ∧ b1.toNat ≤ 11) ∧
    ((∃ e, r = some (.error e)) ↔ ¬(b0.toNat = 1 ∧ 1 ≤ b1.toNat ∧ b1.toNat ≤ 11)) := by
  intro r
  simp only [r, RecordHeader.fromBytes, RT.valid]
  by_cases h0 : b0.toNat = 1 <;> by_cases h1 : (1 ≤ b1.toNat ∧ b1.toNat ≤ 11) <;> simp [h0, h1]

/-- Any decodable 8 bytes re-encode to themselves, except that the reserved byte becomes 0. -/
theorem header_reencode (b0 b1 b2 b3 b4 b5 b6 b7 : UInt8) (rest : Bytes) (h : RecordHeader)
    (hd : RecordHeader.fromBytes (b0 :: b1 :: b2 :: b3 :: b4 :: b5 :: b6 :: b7 :: rest) = some (.ok h)) :
    h.toBytes = [b0, b1, b2, b3, b4, b5, b6, 0] := by
  simp only [RecordHeader.fromBytes] at hd
  split at hd
  · simp at hd
  · split at hd
    · simp at hd
    · rename_i h0 _
      simp at hd
      subst hd
      have : b0 = 1 := UInt8.toNat_inj.mp (by simpa using h0)
      simp [RecordHeader.toBytes, toBe16_be16, this]

/-- A decoded header always has in-range fields (so `header_roundtrip` applies to it). -/
theorem header_decoded_range (bs : Bytes) (h : RecordHeader)
    (hd : RecordHeader.fromBytes bs = some (.ok h)) :
    RT.valid h.rtype = true ∧ h.requestId < 65536 ∧ h.contentLength < 65536 ∧
      h.paddingLength < 256 := by
  unfold RecordHeader.fromBytes at hd
  split at hd
  · split at hd
    · simp at hd
    · split at hd
      · simp at hd
      · rename_i hv
        simp at hd
        subst hd
        exact ⟨by simpa using hv, be16_lt _ _, be16_lt _ _, UInt8.toNat_lt _⟩
  · simp at hd

/-! ## 5. Fixed bodies -/

theorem begin_length (b : BeginRequest) : b.toBytes.length = 8 := by
  simp [BeginRequest.toBytes, toBe16]

/-- Every role in 1..3 with *any* flags byte survives the round trip (all 256 flag values are
retained, not only `KEEP_CONN`). -/
theorem begin_roundtrip (b : BeginRequest) (hr : 1 ≤ b.role ∧ b.role ≤ 3) (rest : Bytes) :
    BeginRequest.fromBytes (b.toBytes ++ rest) = some (.ok b) := by
  obtain ⟨r, f⟩ := b
  simp at hr
  have h1 : r / 256 % 256 = 0 := by omega
  have h2 : r % 256 = r := by omega
  simp [BeginRequest.toBytes, toBe16, BeginRequest.fromBytes, be16, UInt8.toNat_ofNat', roleValid,
    h1, h2, hr]

theorem begin_short (bs : Bytes) (h : bs.length < 8) : BeginRequest.fromBytes bs = none := by
  unfold BeginRequest.fromBytes
  split
  · simp at h; omega
  · rfl

theorem begin_reject_iff (d0 d1 d2 d3 d4 d5 d6 d7 : UInt8) (rest : Bytes) :
    let r := BeginRequest.fromBytes (d0 :: d1 :: d2 :: d3 :: d4 :: d5 :: d6 :: d7 :: rest)
    (r = some (.error (.unknownRole (be16 d0 d1))) ↔ ¬(1 ≤ be16 d0 d1 ∧ be16 d0 d1 ≤ 3)) ∧
    (r = some (.ok { role := be16 d0 d1, flags := d2 }) ↔ 1 ≤ be16 d0 d1 ∧ be16 d0 d1 ≤ 3) ∧
    ((∃ e, r = some (.error e)) ↔ ¬(1 ≤ be16 d0 d1 ∧ be16 d0 d1 ≤ 3)) := by
  intro r
  simp only [r, BeginRequest.fromBytes, roleValid]
  by_cases h : (1 ≤ be16 d0 d1 ∧ be16 d0 d1 ≤ 3) <;> simp [h]

theorem begin_reencode (d0 d1 d2 d3 d4 d5 d6 d7 : UInt8) (rest : Bytes) (b : BeginRequest)
    (hd : BeginRequest.fromBytes (d0 :: d1 :: d2 :: d3 :: d4 :: d5 :: d6 :: d7 :: rest) = some (.ok b)) :
    b.toBytes = [d0, d1, d2, 0, 0, 0, 0, 0] := by
  simp only [BeginRequest.fromBytes] at hd
  split at hd
  · simp at hd
  · simp at hd
    subst hd
    simp [BeginRequest.toBytes, toBe16_be16]

theorem end_length (e : EndRequest) : e.toBytes.length = 8 := by
  simp [EndRequest.toBytes, toBe32]

theorem end_roundtrip (e : EndRequest) (ha : e.appStatus < 4294967296) (hs : e.protocolStatus ≤ 3)
    (rest : Bytes) : EndRequest.fromBytes (e.toBytes ++ rest) = some (.ok e) := by
  obtain ⟨a, s⟩ := e
  simp at ha hs
  have h1 : s % 256 = s := by omega
  simp [EndRequest.toBytes, toBe32, EndRequest.fromBytes, be32, UInt8.toNat_ofNat',
    EndRequest.statusValid, h1, hs]
  omega

theorem end_short (bs : Bytes) (h : bs.length < 8) : EndRequest.fromBytes bs = none := by
  unfold EndRequest.fromBytes
  split
  · simp at h; omega
  · rfl

theorem end_reject_iff (d0 d1 d2 d3 d4 d5 d6 d7 : UInt8) (rest : Bytes) :
    let r := EndRequest.fromBytes (d0 :: d1 :: d2 :: d3 :: d4 :: d5 :: d6 :: d7 :: rest)
    (r = some (.error (.unknownStatus d4)) ↔ ¬(d4.toNat ≤ 3)) ∧
    (r = some (.ok { appStatus := be32 d0 d1 d2 d3, protocolStatus := d4.toNat }) ↔ d4.toNat ≤ 3) ∧
    ((∃ e, r = some (.error e)) ↔ ¬(d4.toNat ≤ 3)) := by
  intro r
  simp only [r, EndRequest.fromBytes, EndRequest.statusValid]
  by_cases h : d4.toNat ≤ 3 <;> simp [h]

theorem end_reencode (d0 d1 d2 d3 d4 d5 d6 d7 : UInt8) (rest : Bytes) (e : EndRequest)
    (hd : EndRequest.fromBytes (d0 :: d1 :: d2 :: d3 :: d4 :: d5 :: d6 :: d7 :: rest) = some (.ok e)) :
    e.toBytes = [d0, d1, d2, d3, d4, 0, 0, 0] := by
  simp only [EndRequest.fromBytes] at hd
  split at hd
  · simp at hd
  · simp at hd
    subst hd
    simp [EndRequest.toBytes, toBe32_be32]

theorem unknown_length (t : UInt8) : (UnknownType.toBytes t).length = 8 := rfl

theorem unknown_roundtrip (t : UInt8) (rest : Bytes) :
    UnknownType.fromBytes (UnknownType.toBytes t ++ rest) = some t := rfl

theorem unknown_short (bs : Bytes) (h : bs.length < 8) : UnknownType.fromBytes bs = none := by
  unfold UnknownType.fromBytes
  split
  · simp at h; omega
  · rfl

theorem unknown_reencode (d0 d1 d2 d3 d4 d5 d6 d7 : UInt8) (rest : Bytes) :
    UnknownType.fromBytes (d0 :: d1 :: d2 :: d3 :: d4 :: d5 :: d6 :: d7 :: rest) = some d0 ∧
    UnknownType.toBytes d0 = [d0, 0, 0, 0, 0, 0, 0, 0] := ⟨rfl, rfl⟩

/-- The header every fixed-body record carries. -/
def fixedHeader (rtype id : Nat) : RecordHeader :=
  { rtype := rtype, requestId := id, contentLength := 8, paddingLength := 0 }

theorem fixedHeader_decodes (rtype id : Nat) (ht : RT.valid rtype = true) (hid : id < 65536)
    (rest : Bytes) :
    RecordHeader.fromBytes ((fixedHeader rtype id).toBytes ++ rest) = some (.ok (fixedHeader rtype id)) :=
  header_roundtrip _ ht hid (by show 8 < 65536; decide) (by show 0 < 256; decide) rest

theorem begin_toRecord (b : BeginRequest) (id : Nat) :
    b.toRecord id = RecordHeader.toBytes { rtype := 1, requestId := id, contentLength := 8,
                                           paddingLength := 0 } ++ b.toBytes ∧
    (b.toRecord id).length = 16 ∧
    (id < 65536 → RecordHeader.fromBytes (b.toRecord id) =
      some (.ok { rtype := 1, requestId := id, contentLength := 8, paddingLength := 0 })) :=
  ⟨rfl, by simp [BeginRequest.toRecord, header_length, begin_length],
   fun hid => fixedHeader_decodes 1 id (by decide) hid _⟩

theorem end_toRecord (e : EndRequest) (id : Nat) :
    e.toRecord id = RecordHeader.toBytes { rtype := 3, requestId := id, contentLength := 8,
                                           paddingLength := 0 } ++ e.toBytes ∧
    (e.toRecord id).length = 16 ∧
    (id < 65536 → RecordHeader.fromBytes (e.toRecord id) =
      some (.ok { rtype := 3, requestId := id, contentLength := 8, paddingLength := 0 })) :=
  ⟨rfl, by simp [EndRequest.toRecord, header_length, end_length],
   fun hid => fixedHeader_decodes 3 id (by decide) hid _⟩

theorem unknown_toRecord (t : UInt8) (id : Nat) :
    UnknownType.toRecord t id =
      RecordHeader.toBytes { rtype := 11, requestId := id, contentLength := 8, paddingLength := 0 } ++
        UnknownType.toBytes t ∧
    (UnknownType.toRecord t id).length = 16 ∧
    (id < 65536 → RecordHeader.fromBytes (UnknownType.toRecord t id) =
      some (.ok { rtype := 11, requestId := id, contentLength := 8, paddingLength := 0 })) :=
  ⟨rfl, by simp [UnknownType.toRecord, header_length, unknown_length],
   fun hid => fixedHeader_decodes 11 id (by decide) hid _⟩

/-! ## 6. Padding -/

/-- `set_lengths` pads every content length to the next multiple of 8 with fewer than 8 bytes. -/
theorem padding_rule (c : Nat) :
    RecordHeader.autoPadding c < 8 ∧ (c + RecordHeader.autoPadding c) % 8 = 0 := by
  unfold RecordHeader.autoPadding
  split <;> omega

/-- … and with the least such amount. -/
theorem padding_minimal (c p : Nat) (h : (c + p) % 8 = 0) : RecordHeader.autoPadding c ≤ p := by
  unfold RecordHeader.autoPadding
  split <;> omega

/-- The rule does not depend on what the header value carried before: a header reused for the next record (as `StreamWriter` does)
gets exactly the lengths of a fresh one. -/
theorem setLengths_forgets (h : RecordHeader) (a b : Nat) :
    (h.setLengths a).setLengths b = h.setLengths b ∧
    ((h.setLengths a).setLengths b).paddingLength < 8 ∧
    (((h.setLengths a).setLengths b).contentLength + ((h.setLengths a).setLengths b).paddingLength) % 8 = 0 := by
  exact ⟨rfl, (padding_rule b).1, (padding_rule b).2⟩

theorem tables_agree_padding (c : Nat) :
    RecordHeader.autoPadding c < Gen.padModulus ∧
    (c + RecordHeader.autoPadding c) % Gen.padModulus = 0 := padding_rule c

/-! ## 7. The `GetValuesResult` reply -/

theorem decimal_length (n k : Nat) (h : n < 10 ^ k) (hk : 0 < k) :
    (decimal n).length ≤ k ∧ 1 ≤ (decimal n).length := by
  obtain ⟨k, rfl⟩ : ∃ j, k = j + 1 := ⟨k - 1, by omega⟩
  exact ⟨decimal_length_le k n h, decimal_length_pos n⟩

theorem decimal_length_u64 (n : Nat) (h : n < 2 ^ 64) : (decimal n).length ≤ 20 :=
  (decimal_length n 20 (by omega) (by decide)).1

/-- The three variable names as bytes (`"…".toUTF8` evaluated). -/
theorem names_eq :
    Vars.nameMaxConns = [70, 67, 71, 73, 95, 77, 65, 88, 95, 67, 79, 78, 78, 83] ∧
    Vars.nameMaxReqs = [70, 67, 71, 73, 95, 77, 65, 88, 95, 82, 69, 81, 83] ∧
    Vars.nameMpxsConns = [70, 67, 71, 73, 95, 77, 80, 88, 83, 95, 67, 79, 78, 78, 83] := by
  decide +kernel

private theorem name_lengths :
    Vars.nameMaxConns.length = 14 ∧ Vars.nameMaxReqs.length = 13 ∧
    Vars.nameMpxsConns.length = 15 := by
  simp [names_eq]

private theorem enc_length_small (p : Bytes × Bytes) (h1 : p.1.length < 128) (h2 : p.2.length < 128) :
    (NV.enc p).length = 2 + p.1.length + p.2.length := by
  simp [NV.enc, C15.encode_length, h1, h2]; omega

/-- The body is at most 89 bytes (two limits of at most 20 digits and the multiplexing flag). -/
theorem body_length_le (set maxConns : Nat) (hlt : maxConns < 2 ^ 64) :
    (Vars.body set maxConns).length ≤ 89 := by
  have hd := decimal_length_u64 maxConns hlt
  obtain ⟨n1, n2, n3⟩ := name_lengths
  have e1 := enc_length_small (Vars.nameMaxConns, decimal maxConns) (by simp [n1]) (by simp; omega)
  have e2 := enc_length_small (Vars.nameMaxReqs, decimal maxConns) (by simp [n2]) (by simp; omega)
  have e3 := enc_length_small (Vars.nameMpxsConns, [48]) (by simp [n3]) (by simp)
  simp [n1, n2, n3] at e1 e2 e3
  cases h1 : Vars.has set 1 <;> cases h2 : Vars.has set 2 <;> cases h4 : Vars.has set 4 <;>
    simp [Vars.body, Vars.table, h1, h2, h4, Vars.value, e1, e2, e3] <;> omega

/-- The body decodes to exactly the requested variables, in declaration order, with their values. -/
theorem body_decodes (set maxConns : Nat) (hlt : maxConns < 2 ^ 64) :
    NV.all (Vars.body set maxConns) =
      ((Vars.table.filter (fun e => Vars.has set e.2)).map
        (fun e => (e.1, Vars.value e.2 maxConns)), []) := by
  have hd := decimal_length_u64 maxConns hlt
  obtain ⟨n1, n2, n3⟩ := name_lengths
  rw [← all_flatMap_enc]
  · rw [List.flatMap_map]; rfl
  · intro p hp
    simp only [List.mem_map, List.mem_filter] at hp
    obtain ⟨e, ⟨he, _⟩, rfl⟩ := hp
    simp [Vars.table] at he
    rcases he with rfl | rfl | rfl <;>
      simp [Vars.value, VarInt.maxVal, n1, n2, n3] <;> omega

/-- Strong form: neither `set < 8` nor `0 < maxConns` is needed. -/
theorem writeResponse_spec' (set maxConns : Nat) (hlt : maxConns < 2 ^ 64) (pre : Bytes) :
    let rec_ := Vars.responseRecord set maxConns
    let body := Vars.body set maxConns
    Vars.writeResponse set pre maxConns = (pre ++ rec_, rec_.length) ∧
    rec_.length ≤ 104 ∧
    rec_ = ((RecordHeader.new 10 0).setLengths body.length).toBytes ++ body ++
      zeros (RecordHeader.autoPadding body.length) ∧
    RecordHeader.fromBytes rec_ =
      some (.ok ⟨10, 0, body.length, RecordHeader.autoPadding body.length⟩) ∧
    rec_.length = 8 + body.length + RecordHeader.autoPadding body.length ∧
    rec_.length % 8 = 0 ∧
    NV.all body = ((Vars.table.filter (fun e => Vars.has set e.2)).map
        (fun e => (e.1, Vars.value e.2 maxConns)), []) := by
  intro rec_ body
  have hb : body.length ≤ 89 := body_length_le set maxConns hlt
  have hp := padding_rule body.length
  have hlen : rec_.length = 8 + body.length + RecordHeader.autoPadding body.length := by
    simp [rec_, Vars.responseRecord, header_length, zeros, body]
    omega
  refine ⟨rfl, by omega, rfl, ?_, hlen, by omega, body_decodes set maxConns hlt⟩
  simp only [rec_, Vars.responseRecord, List.append_assoc]
  exact header_roundtrip
    { rtype := 10, requestId := 0, contentLength := body.length,
      paddingLength := RecordHeader.autoPadding body.length }
    rfl (by show 0 < 65536; decide) (by simp; omega) (by simp; omega) _

/-- The reply to a `GetValues` query, for every variable set and every connection limit a 64-bit
`NonZeroUsize` can hold, appended to any existing buffer contents. -/
theorem writeResponse_spec (set maxConns : Nat) (_hset : set < 8) (_hpos : 0 < maxConns)
    (hlt : maxConns < 2 ^ 64) (pre : Bytes) :
    let rec_ := Vars.responseRecord set maxConns
    let body := Vars.body set maxConns
    Vars.writeResponse set pre maxConns = (pre ++ rec_, rec_.length) ∧
    rec_.length ≤ 104 ∧
    rec_ = ((RecordHeader.new 10 0).setLengths body.length).toBytes ++ body ++
      zeros (RecordHeader.autoPadding body.length) ∧
    RecordHeader.fromBytes rec_ =
      some (.ok ⟨10, 0, body.length, RecordHeader.autoPadding body.length⟩) ∧
    rec_.length = 8 + body.length + RecordHeader.autoPadding body.length ∧
    rec_.length % 8 = 0 ∧
    NV.all body = ((Vars.table.filter (fun e => Vars.has set e.2)).map
        (fun e => (e.1, Vars.value e.2 maxConns)), []) :=
  writeResponse_spec' set maxConns hlt pre

/-- The documented bound `RESPONSE_LEN` of the source holds. -/
theorem writeResponse_le_responseLen (set maxConns : Nat) (hlt : maxConns < 2 ^ 64) (pre : Bytes) :
    (Vars.writeResponse set pre maxConns).2 ≤ Gen.responseLen :=
  (writeResponse_spec' set maxConns hlt pre).2.1

/-! ## 8. Exit status and request epilogue -/

theorem exit_mapping (c : Nat) :
    (ExitStatus.complete c).toEndRequest = ⟨c, 0⟩ ∧
    ExitStatus.overloaded.toEndRequest = ⟨0, 2⟩ ∧
    ExitStatus.unknownRole.toEndRequest = ⟨0, 3⟩ ∧
    ExitStatus.abort.toEndRequest = ⟨1094865492, 0⟩ := ⟨rfl, rfl, rfl, rfl⟩

/-- The protocol status written is always a valid one, and the discriminants are those of
`ProtocolStatus::{RequestComplete, Overloaded, UnknownRole}` in the source. -/
theorem exit_mapping_tables (c : Nat) :
    (ExitStatus.complete c).toEndRequest.protocolStatus = Gen.protocolStatus_RequestComplete ∧
    ExitStatus.overloaded.toEndRequest.protocolStatus = Gen.protocolStatus_Overloaded ∧
    ExitStatus.unknownRole.toEndRequest.protocolStatus = Gen.protocolStatus_UnknownRole ∧
    ∀ st : ExitStatus, EndRequest.statusValid st.toEndRequest.protocolStatus = true := by
  refine ⟨rfl, rfl, rfl, ?_⟩
  intro st; cases st <;> rfl

private theorem flatMap_header_length (id : Nat) (streams : List Nat) :
    (streams.flatMap (fun s => RecordHeader.toBytes ⟨s, id, 0, 0⟩)).length = 8 * streams.length := by
  induction streams with
  | nil => rfl
  | cons s t ih => simp [List.flatMap_cons, header_length, ih]; omega

/-- The epilogue is one empty record per given stream, in order, followed by the `EndRequest`
record carrying the mapped exit status. -/
theorem epilogue_spec (id : Nat) (st : ExitStatus) (streams : List Nat) :
    makeRequestEpilogue id st streams =
      streams.flatMap (fun s => RecordHeader.toBytes ⟨s, id, 0, 0⟩) ++ st.toEndRequest.toRecord id ∧
    (makeRequestEpilogue id st streams).length = 8 * streams.length + 16 ∧
    ∀ role, (makeRequestEpilogue id st (outputStreams role)).length = Gen.epilogueLen := by
  have hlen : ∀ ss, (makeRequestEpilogue id st ss).length = 8 * ss.length + 16 := by
    intro ss
    show (ss.flatMap (fun s => RecordHeader.toBytes ⟨s, id, 0, 0⟩) ++ _).length = _
    rw [List.length_append, flatMap_header_length, (end_toRecord _ id).2.1]
  exact ⟨rfl, hlen streams, fun role => by rw [hlen]; rfl⟩

/-! ## Concrete instances (non-vacuity) -/

example : RecordHeader.fromBytes [1, 9, 0x46, 0xaf, 0x32, 0xa4, 0x8b, 0] =
    some (.ok { rtype := 9, requestId := 0x46af, contentLength := 0x32a4, paddingLength := 0x8b }) := by
  simp [RecordHeader.fromBytes, RT.valid, be16]
example : RecordHeader.toBytes ⟨9, 0x46af, 0x32a4, 0x8b⟩ = [1, 9, 0x46, 0xaf, 0x32, 0xa4, 0x8b, 0] := by
  decide
example : RecordHeader.fromBytes (RecordHeader.toBytes ⟨9, 0x46af, 0x32a4, 0x8b⟩ ++ [5, 5]) =
    some (.ok ⟨9, 0x46af, 0x32a4, 0x8b⟩) :=
  header_roundtrip _ (by decide) (by decide) (by decide) (by decide) _
-- reserved byte ignored on input, trailing bytes ignored
example : RecordHeader.fromBytes [1, 6, 0, 1, 0, 5, 3, 0xff, 9, 9] =
    some (.ok { rtype := 6, requestId := 1, contentLength := 5, paddingLength := 3 }) := by
  simp [RecordHeader.fromBytes, RT.valid, be16]
-- version first: bad version *and* bad type reports the version
example : RecordHeader.fromBytes [2, 0, 0, 0, 0, 0, 0, 0] = some (.error (.unknownVersion 2)) := by
  simp [RecordHeader.fromBytes]
example : RecordHeader.fromBytes [1, 12, 0, 0, 0, 0, 0, 0] = some (.error (.unknownRecordType 12)) := by
  simp [RecordHeader.fromBytes, RT.valid]
example : RecordHeader.fromBytes [1, 0, 0, 0, 0, 0, 0, 0] = some (.error (.unknownRecordType 0)) := by
  simp [RecordHeader.fromBytes, RT.valid]
example : RecordHeader.fromBytes [1, 1, 0, 0, 0, 0, 0] = none := by
  simp [RecordHeader.fromBytes]
-- BeginRequest: Filter role, flags byte 0xfe retained
example : BeginRequest.fromBytes [0, 3, 0xfe, 1, 2, 3, 4, 5] = some (.ok ⟨3, 0xfe⟩) := by
  simp [BeginRequest.fromBytes, roleValid, be16]
example : BeginRequest.fromBytes [1, 3, 0, 0, 0, 0, 0, 0] = some (.error (.unknownRole 259)) := by
  simp [BeginRequest.fromBytes, roleValid, be16]
example : BeginRequest.fromBytes [0, 0, 0, 0, 0, 0, 0, 0] = some (.error (.unknownRole 0)) := by
  simp [BeginRequest.fromBytes, roleValid, be16]
example : (BeginRequest.mk 1 1).toRecord 0x0102 = [1, 1, 1, 2, 0, 8, 0, 0, 0, 1, 1, 0, 0, 0, 0, 0] := by
  decide
-- EndRequest
example : EndRequest.fromBytes [0x41, 0x42, 0x52, 0x54, 0, 7, 7, 7] = some (.ok ⟨1094865492, 0⟩) := by
  simp [EndRequest.fromBytes, EndRequest.statusValid, be32]
example : EndRequest.fromBytes [0, 0, 0, 0, 4, 0, 0, 0] = some (.error (.unknownStatus 4)) := by
  simp [EndRequest.fromBytes, EndRequest.statusValid]
example : ExitStatus.abort.toEndRequest.toRecord 1 =
    [1, 3, 0, 1, 0, 8, 0, 0, 0x41, 0x42, 0x52, 0x54, 0, 0, 0, 0] := by decide
example : UnknownType.toRecord 0x2a 0 = [1, 11, 0, 0, 0, 8, 0, 0, 0x2a, 0, 0, 0, 0, 0, 0, 0] := by
  decide
-- padding
example : RecordHeader.autoPadding 51 = 5 ∧ RecordHeader.autoPadding 64 = 0 ∧
    RecordHeader.autoPadding 65535 = 1 := by decide
-- decimal rendering
example : decimal 0 = [48] ∧ decimal 183 = [49, 56, 51] ∧
    (decimal 18446744073709551615).length = 20 := by
  simp [decimal]
-- all three variables, limit 1: the 64-byte record (51 body bytes, 5 padding bytes)
example : Vars.writeResponse 7 [] 1 =
    ([1, 10, 0, 0, 0, 51, 5, 0,
      14, 1, 70, 67, 71, 73, 95, 77, 65, 88, 95, 67, 79, 78, 78, 83, 49,
      13, 1, 70, 67, 71, 73, 95, 77, 65, 88, 95, 82, 69, 81, 83, 49,
      15, 1, 70, 67, 71, 73, 95, 77, 80, 88, 83, 95, 67, 79, 78, 78, 83, 48,
      0, 0, 0, 0, 0], 64) := by
  simp [Vars.writeResponse, Vars.responseRecord, Vars.body, Vars.table, Vars.has, Vars.value,
    names_eq, NV.enc, VarInt.encode, decimal, RecordHeader.toBytes, RecordHeader.setLengths,
    RecordHeader.new, RecordHeader.autoPadding, RT.getValuesResult, toBe16, zeros]
-- the reference record of the crate's own unit test (`vars.rs::tests::response`): limit 183,
-- appended to existing data
example : Vars.writeResponse 7 [0x7d, 0x7d] 183 =
    ([0x7d, 0x7d, 1, 10, 0, 0, 0, 55, 1, 0,
      14, 3, 70, 67, 71, 73, 95, 77, 65, 88, 95, 67, 79, 78, 78, 83, 49, 56, 51,
      13, 3, 70, 67, 71, 73, 95, 77, 65, 88, 95, 82, 69, 81, 83, 49, 56, 51,
      15, 1, 70, 67, 71, 73, 95, 77, 80, 88, 83, 95, 67, 79, 78, 78, 83, 48,
      0], 64) := by
  simp [Vars.writeResponse, Vars.responseRecord, Vars.body, Vars.table, Vars.has, Vars.value,
    names_eq, NV.enc, VarInt.encode, decimal, RecordHeader.toBytes, RecordHeader.setLengths,
    RecordHeader.new, RecordHeader.autoPadding, RT.getValuesResult, toBe16, zeros]
-- only FCGI_MPXS_CONNS requested
example : Vars.responseRecord 4 55 =
    [1, 10, 0, 0, 0, 18, 6, 0,
     15, 1, 70, 67, 71, 73, 95, 77, 80, 88, 83, 95, 67, 79, 78, 78, 83, 48, 0, 0, 0, 0, 0, 0] := by
  simp [Vars.responseRecord, Vars.body, Vars.table, Vars.has, Vars.value,
    names_eq, NV.enc, VarInt.encode, RecordHeader.toBytes, RecordHeader.setLengths,
    RecordHeader.new, RecordHeader.autoPadding, RT.getValuesResult, toBe16, zeros]
-- the bound 104 is attained (`vars.rs::tests::response_len`)
example : (Vars.writeResponse 7 [] 18446744073709551615).2 = 104 := by
  simp [Vars.writeResponse, Vars.responseRecord, Vars.body, Vars.table, Vars.has, Vars.value,
    names_eq, NV.enc, VarInt.encode, decimal, RecordHeader.toBytes, RecordHeader.setLengths,
    RecordHeader.new, RecordHeader.autoPadding, RT.getValuesResult, toBe16, zeros]
-- nothing requested: an empty record
example : Vars.responseRecord 0 9 = [1, 10, 0, 0, 0, 0, 0, 0] := by
  simp [Vars.responseRecord, Vars.body, Vars.table, Vars.has, RecordHeader.toBytes,
    RecordHeader.setLengths, RecordHeader.new, RecordHeader.autoPadding, RT.getValuesResult,
    toBe16, zeros]
-- epilogue for a responder, request 1, overloaded
example : makeRequestEpilogue 1 .overloaded (outputStreams 1) =
    [1, 6, 0, 1, 0, 0, 0, 0, 1, 7, 0, 1, 0, 0, 0, 0,
     1, 3, 0, 1, 0, 8, 0, 0, 0, 0, 0, 0, 2, 0, 0, 0] := by decide

end Fcgi.C17
