import Fcgi.Model.Header
import Fcgi.Model.Vars
import Fcgi.Gen.Tables
import Fcgi.Props.C15
/-!
# C17 — Record headers, fixed record bodies and generated replies
-/
namespace Fcgi.C17
open Fcgi

/-! ## 1. The model's literals are the ones in the source (generated tables) -/

theorem tables_agree_recordTypes :
    Gen.recordTypeTable =
      [("BeginRequest", RT.beginRequest), ("AbortRequest", RT.abortRequest),
       ("EndRequest", RT.endRequest), ("Params", RT.params), ("Stdin", RT.stdin),
       ("Stdout", RT.stdout), ("Stderr", RT.stderr), ("Data", RT.data),
       ("GetValues", RT.getValues), ("GetValuesResult", RT.getValuesResult),
       ("Unknown", RT.unknown)] ∧
    Gen.recordTypeTable.map (·.2) = [1, 2, 3, 4, 5, 6, 7, 8, 9, 10, 11] := by
  constructor <;> rfl

theorem tables_agree_recordType_valid (t : Nat) :
    RT.valid t = Gen.recordTypeTable.any (·.2 == t) := by
  simp [RT.valid, Gen.recordTypeTable]
  omega

theorem tables_agree_roles :
    Gen.roleTable.map (·.2) = [1, 2, 3] ∧
    ∀ r : Nat, roleValid r = Gen.roleTable.any (·.2 == r) := by
  refine ⟨rfl, fun r => ?_⟩
  simp [roleValid, Gen.roleTable]
  omega

theorem tables_agree_protocolStatus :
    Gen.protocolStatusTable.map (·.2) = [0, 1, 2, 3] ∧
    ∀ s : Nat, EndRequest.statusValid s = Gen.protocolStatusTable.any (·.2 == s) := by
  refine ⟨rfl, fun s => ?_⟩
  simp [EndRequest.statusValid, Gen.protocolStatusTable]
  omega

theorem tables_agree_version : Gen.versionTable = [("V1", 1)] := rfl

theorem tables_agree_classes (t : Nat) :
    RT.isManagement t = Gen.isManagementList.contains t ∧
    RT.isInputStream t = Gen.isInputStreamList.contains t ∧
    RT.isOutputStream t = Gen.isOutputStreamList.contains t := by
  simp [RT.isManagement, RT.isInputStream, RT.isOutputStream, Gen.isManagementList,
    Gen.isInputStreamList, Gen.isOutputStreamList]
  sorry

end Fcgi.C17
