import Fcgi.Proofs.E2EFilterAbort2U
import Fcgi.Props.E2EUnbounded
import Fcgi.Props.C11Filter2

/-!
# C11, Filter-abort table: rows (a)/(b), placements (i)/(ii), for a Stdin wire of ANY length

`filter_abort_stdin_e2e_unbounded`, `filter_abort_gap_e2e_unbounded` (and through them the table
`filter_abort_table_full_unbounded`) kept `hX31 : |Stdin wire| ≤ 31000`.  It was an artefact of the PROOF's fuel
accounting (not of the model's handler fuel, let alone of the crate): see `Proofs/E2EFilterAbort2U.lean`.  The theorems
below are the same statements without it (suffix `_anysize`); what is left are the property-given preconditions
(well-formed preamble, pairs and management bodies fit the buffer, no BeginRequest behind the abort) and the
executor's poll budget `hfuel`.
-/
namespace Fcgi.C11F
open Fcgi Fcgi.Req Fcgi.Str Fcgi.Async Fcgi.Run Fcgi.Spec Fcgi.E2E Fcgi.C07E Fcgi.C07U

/-- `fr1ok_of` without the bound on the Stdin wire. -/
theorem fr1oku_of {p : Preamble} {recs pre : List Rec} {content : Bytes} {a : Rec} {post : List Rec} {b mc : Nat}
    {s0 : ExitStatus} {pr : Bool}
    (L0 : Bytes) (h : Nat) (more : List (List HOp × Bool))
    (hwf : WellFormedPreamble p recs) (hrole : p.role = 3)
    (hpairs : ∀ q ∈ p.pairs, (NV.enc q).length ≤ alignedBufsize b)
    (hnoise : NoiseFits (alignedBufsize b) recs)
    (hbody : Body p.id 5 content pre) (hpf : NoiseFits (alignedBufsize b) pre) (ha : IsAbort p.id a) :
    FR1OKu (cfgFR p recs content pre a post b mc s0 (closeStatus pr s0) L0 h more) a s0 pr :=
  ⟨hwf, hrole, hpairs, hnoise, hbody, hpf, ha, rfl, rfl, rfl, rfl⟩

/-- `fr2ok_of` without the bound on the Stdin wire. -/
theorem fr2oku_of {p : Preamble} {recs sbody mid : List Rec} {pad : Bytes} {res : UInt8} {content : Bytes} {a : Rec}
    {post : List Rec} {b mc : Nat} {s0 : ExitStatus} {pr : Bool}
    (L0 : Bytes) (h : Nat) (more : List (List HOp × Bool))
    (hwf : WellFormedPreamble p recs) (hrole : p.role = 3)
    (hpairs : ∀ q ∈ p.pairs, (NV.enc q).length ≤ alignedBufsize b)
    (hnoise : NoiseFits (alignedBufsize b) recs)
    (hbody : Body p.id 5 content sbody) (hpf : NoiseFits (alignedBufsize b) sbody) (hpad : pad.length < 256)
    (hmid : ∀ r ∈ mid, StdinRec p.id r) (hmf : NoiseFits (alignedBufsize b) mid)
    (hpost : ∀ r ∈ post, r.WF) (hpostf : NoiseFits (alignedBufsize b) post) (ha : IsAbort p.id a) :
    FR2OKu (cfgFR2 p recs content sbody pad res mid a post b mc s0 (closeStatus pr s0) L0 h more) mid a s0 pr :=
  ⟨hwf, hrole, hpairs, hnoise, hbody, hpf, hpad, hmid, hmf, hpost, hpostf, ha, rfl, rfl, rfl, rfl, rfl⟩

/-- `filter_abort_stdin_e2e_unbounded` without the bound `|Stdin wire| ≤ 31000`. -/
theorem filter_abort_stdin_e2e_anysize {p : Preamble} {recs pre : List Rec} {a : Rec} {post : List Rec}
    {b mc : Nat} {content : Bytes} {s0 : ExitStatus} {pr : Bool} {more : List (List HOp × Bool)} {t : Transport} {fuel : Nat}
    (hwf : WellFormedPreamble p recs) (hrole : p.role = 3)
    (hpairs : ∀ q ∈ p.pairs, (NV.enc q).length ≤ alignedBufsize b)
    (hnoise : NoiseFits (alignedBufsize b) recs)
    (hbody : Body p.id 5 content pre) (hpf : NoiseFits (alignedBufsize b) pre) (ha : IsAbort p.id a)
    (hpost : ∀ r ∈ post, r.WF) (hpostf : NoiseFits (alignedBufsize b) post)
    (hnb : ∀ r ∈ post, r.rtype.toNat ≠ RT.beginRequest)
    (hin : t.input = serAll recs ++ (serAll (pre ++ [a]) ++ serAll post)) (hben : Ben t)
    (hev : hsCount t.events = 0) (hfuel : t.rd.length + t.wr.length + 1 ≤ fuel) :
    ∃ c' fin, runTask fuel (connS b mc t ((rscript s0, pr) :: more)) 0 none = (c', fin) ∧
      FilterAbortOutcome p recs pre a post b mc (closeStatus pr s0) more t c' fin := by
  have hid := (pid_of_wf hwf).2
  have hwa := isAbort_wf ha hid
  have hidleA : IdleNoise a := ⟨hwa, fun hx => absurd hx (by rw [ha.1]; decide)⟩
  have hidle : ∀ e ∈ a :: post, IdleNoise e := by
    intro e he
    rcases List.mem_cons.1 he with rfl | he
    · exact hidleA
    · exact idle_of_noBegin hpost hnb e he
  have hfit : NoiseFits (alignedBufsize b) (a :: post) := by
    intro e he hg
    rcases List.mem_cons.1 he with rfl | he
    · exact absurd hg.1 (by rw [ha.1]; decide)
    · exact hpostf e he hg
  have ok := fr1oku_of (post := post) (mc := mc) (s0 := s0) (pr := pr) t.wlog 0 more hwf hrole hpairs hnoise hbody hpf ha
  obtain ⟨hns, hNF⟩ := idle_front dummy_wf b mc (fun q hq => by cases hq) (dummy_fits _) hidle hfit []
  rw [serAll_cons] at hns hNF
  have hst : FStageP (cfgFR p recs content pre a post b mc s0 (closeStatus pr s0) t.wlog 0 more) pr (connS b mc t ((rscript s0, pr) :: more)) :=
    .start (raw := []) rfl (by show [] ++ t.input = _; rw [hin]; rfl) (Nat.zero_le _) rfl hben rfl rfl rfl hev
  obtain ⟨c', fin, hrun, hres⟩ := run_filterR1U ok (Z := serAll dummyRecs ++ []) hns hNF
    t.endMode [] _ 0 fuel hst rfl (fun s hs => by cases hs) rfl (by show ans t + 1 ≤ fuel; unfold ans; omega)
  have hLf := lfo1_eq (p := p) (recs := recs) (content := content) (pre := pre) (a := a) (post := post) (b := b) (mc := mc) (s0 := s0) (stc := closeStatus pr s0)
    (L0 := t.wlog) (h := 0) (more := more) [] (fun _ h => nomatch h)
  have hLf' : (cfgFR p recs content pre a post b mc s0 (closeStatus pr s0) t.wlog 0 more).LfO (cfgFR p recs content pre a post b mc s0 (closeStatus pr s0) t.wlog 0 more).Ow1 =
      t.wlog ++ (owedPreamble p mc recs ++ owedActive p.id mc pre ++ endRequest p.id (closeStatus pr s0)) := by
    have e : (cfgFR p recs content pre a post b mc s0 (closeStatus pr s0) t.wlog 0 more).front [] = cfgFR p recs content pre a post b mc s0 (closeStatus pr s0) t.wlog 0 more := rfl
    rw [e] at hLf
    rw [hLf]; simp [idleOwed]
  rcases hres with ⟨_, hk, hkp, hem, _, _, _, hend⟩ | ⟨hfin, hfu, _, _⟩
  · have hout : ∀ F, F ++ (serAll dummyRecs ++ []) = a.ser ++ serAll post ++ (serAll dummyRecs ++ []) →
        (cfgFR p recs content pre a post b mc s0 (closeStatus pr s0) t.wlog 0 more).LfO (cfgFR p recs content pre a post b mc s0 (closeStatus pr s0) t.wlog 0 more).Ow1 ++ (run .header F mc).out =
        t.wlog ++ (owedPreamble p mc recs ++ owedActive p.id mc pre ++ endRequest p.id (closeStatus pr s0) ++ idleOwed mc post) := by
      intro F hF
      have hro := (run_idle_out mc (a :: post) hidle).1
      rw [serAll_cons] at hro
      rw [List.append_cancel_right hF, hro, hLf', idleOwed_cons, owed_idle_abort ha, List.nil_append]
      simp only [List.append_assoc]
    refine ⟨c', fin, hrun, ⟨hkp.hs, hkp.ev _ List.mem_cons_self⟩, hkp.sc, Or.inl ⟨hk, ?_, ?_⟩⟩
    · rcases hend with ⟨_, hp⟩ | ⟨_, hf⟩
      · obtain ⟨F, hF, _, _, hlg⟩ := hp.pst
        exact hlg.trans (hout F hF)
      · obtain ⟨F, hF, hlg⟩ := hf.log
        exact hlg.trans (hout F hF)
    · rcases hend with ⟨rfl, hp⟩ | ⟨rfl, hf⟩
      · obtain ⟨F, hF, hps, hph, _⟩ := hp.pst
        have hFe : F = a.ser ++ serAll post := List.append_cancel_right hF
        subst hFe
        exact Or.inr ⟨hem.symm.trans hp.em, rfl, hph, hp.inp, hkp.mx, hps.stop, hps.ben⟩
      · exact Or.inl ⟨hem.symm.trans hf.em, rfl, hf.ph⟩
  · exact ⟨c', fin, hrun, ⟨hfu.ev.1, hfu.ev.2⟩, hfu.sc, Or.inr ⟨hfu.nokeep, hfin, hfu.ph, hfu.log.trans hLf'⟩⟩

/-- `filter_abort_stdin_chain_e2e_unbounded` without the bound `|Stdin wire| ≤ 31000`. -/
theorem filter_abort_stdin_chain_e2e_anysize {p : Preamble} {recs pre : List Rec} {a : Rec} {post : List Rec}
    {b mc : Nat} {content : Bytes} {s0 : ExitStatus} {pr : Bool} (x : UReq) (xs : List UReq) {t : Transport} {fuel : Nat}
    (hwf : WellFormedPreamble p recs) (hrole : p.role = 3) (hk : p.flags.toNat % 2 = 1)
    (hpairs : ∀ q ∈ p.pairs, (NV.enc q).length ≤ alignedBufsize b)
    (hnoise : NoiseFits (alignedBufsize b) recs)
    (hbody : Body p.id 5 content pre) (hpf : NoiseFits (alignedBufsize b) pre) (ha : IsAbort p.id a)
    (hpost : ∀ r ∈ post, r.WF) (hpostf : NoiseFits (alignedBufsize b) post)
    (hnb : ∀ r ∈ post, r.rtype.toNat ≠ RT.beginRequest)
    (hok : ∀ y ∈ x :: xs, y.OKu b)
    (hin : t.input = serAll recs ++ (serAll (pre ++ [a]) ++ serAll post)) (hben : Ben t) (hem : t.endMode = .pend)
    (hev : hsCount t.events = 0) (hfuel : t.rd.length + t.wr.length + 1 ≤ fuel) :
    ∃ c' A,
      closedLoop fuel ((x :: xs).map UReq.wire)
        (connS b mc t ((rscript s0, pr) :: (x :: xs).map UReq.handler)) 0 = (c', "STALL") ∧
      SegsAll mc (x :: xs) A ∧
      c'.env.tr.wlog = t.wlog ++ (owedPreamble p mc recs ++ owedActive p.id mc pre ++ endRequest p.id (closeStatus pr s0) ++
        idleOwed mc post) ++ A ∧
      hsCount c'.env.tr.events = 1 + (x :: xs).length ∧
      startEvent p.request ∈ c'.env.tr.events ∧
      (∀ y ∈ x :: xs, startEvent y.p.request ∈ c'.env.tr.events) ∧ c'.scripts = [] ∧
      c'.env.tr.input = [] ∧
      c'.phase = .parseReq (track (alignedBufsize b) mc (serAll ((x :: xs).getLast (by simp)).left)) .reading := by
  have hid := (pid_of_wf hwf).2
  have hwa := isAbort_wf ha hid
  have hidle : ∀ e ∈ a :: post, IdleNoise e := by
    intro e he
    rcases List.mem_cons.1 he with rfl | he
    · exact ⟨hwa, fun hx => absurd hx (by rw [ha.1]; decide)⟩
    · exact idle_of_noBegin hpost hnb e he
  have hfit : NoiseFits (alignedBufsize b) (a :: post) := by
    intro e he hg
    rcases List.mem_cons.1 he with rfl | he
    · exact absurd hg.1 (by rw [ha.1]; decide)
    · exact hpostf e he hg
  have hlo : LeftOK (alignedBufsize b) (a :: post) := ⟨hidle, hfit⟩
  have ok := fr1oku_of (post := post) (mc := mc) (s0 := s0) (pr := pr) t.wlog 0 (((x :: xs).map (UReq.spec mc)).map RSpec.handler)
    hwf hrole hpairs hnoise hbody hpf ha
  have hstart : StartAt (alignedBufsize b) mc [] t.wlog
      ((rscript s0, pr) :: ((x :: xs).map (UReq.spec mc)).map RSpec.handler) 0 [] (ans t)
      (serAll recs ++ (serAll (pre ++ [a]) ++ serAll post))
      (connS b mc t ((rscript s0, pr) :: ((x :: xs).map (UReq.spec mc)).map RSpec.handler)) :=
    Or.inr ⟨rfl, rfl, hin, rfl, hben, rfl, rfl, rfl, hev, (fun _ hs => nomatch hs), rfl, hem, Nat.le_refl _⟩
  have hleft0 : LeftOK (alignedBufsize b) [] := ⟨(fun _ he => nomatch he), (fun _ hr => nomatch hr)⟩
  obtain ⟨c1, hrun1, hw1⟩ := serve_filterR1_coreU ok hk (left := []) hleft0 (Z := x.wire) hidle
    (goodNext_of_oku (hok x List.mem_cons_self) hlo) 0 fuel (by simp [idleOwed]; rfl) hstart (by unfold ans; omega)
  have hLf := lfo1_eq (p := p) (recs := recs) (content := content) (pre := pre) (a := a) (post := post) (b := b) (mc := mc) (s0 := s0) (stc := closeStatus pr s0)
    (L0 := t.wlog) (h := 0) (more := ((x :: xs).map (UReq.spec mc)).map RSpec.handler) [] (fun _ h => nomatch h)
  have hLw : ((cfgFR p recs content pre a post b mc s0 (closeStatus pr s0) t.wlog 0 (((x :: xs).map (UReq.spec mc)).map RSpec.handler)).front []).LfO (cfgFR p recs content pre a post b mc s0 (closeStatus pr s0) t.wlog 0 (((x :: xs).map (UReq.spec mc)).map RSpec.handler)).Ow1 ++
      idleOwed mc (a :: post) =
      t.wlog ++ (owedPreamble p mc recs ++ owedActive p.id mc pre ++ endRequest p.id (closeStatus pr s0) ++ idleOwed mc post) := by
    rw [hLf, idleOwed_cons, owed_idle_abort ha, List.nil_append]
    simp [idleOwed, List.append_assoc]
  have hw1' : Waiting (alignedBufsize b) mc (a :: post)
      (t.wlog ++ (owedPreamble p mc recs ++ owedActive p.id mc pre ++ endRequest p.id (closeStatus pr s0) ++ idleOwed mc post))
      (((x :: xs).map (UReq.spec mc)).map RSpec.handler) 1 [hsEvent p.request] (ans t) c1 := by
    rw [← hLw]; exact hw1
  obtain ⟨c', A, hrun, hseg, hw⟩ := chain_serves (alignedBufsize b) mc (serAll dummyRecs ++ [])
    (xs.map (UReq.spec mc)) (UReq.spec mc x) (a :: post) _ 1 [hsEvent p.request] (ans t) (feed c1 x.wire) 1000 fuel
    (hall_of_oku x xs hok) hlo (Or.inl ⟨c1, hw1', rfl⟩) (by unfold ans; omega)
  have hrun' : closedLoop fuel ((x :: xs).map UReq.wire)
      (connS b mc t ((rscript s0, pr) :: (x :: xs).map UReq.handler)) 0 = (c', "STALL") := by
    have e : (x :: xs).map UReq.handler = ((x :: xs).map (UReq.spec mc)).map RSpec.handler := by
      rw [List.map_map]; rfl
    rw [e]
    show closedLoop fuel (x.wire :: xs.map UReq.wire) _ 0 = _
    rw [closedLoop, hrun1]
    simp only [if_true]
    rw [← hrun, List.map_map]; rfl
  have hlast := lastLeft_specs mc x xs
  refine ⟨c', A, hrun', segAll_specs mc (x :: xs) A hseg, hw.log, ?_, ?_, ?_, hw.sc, hw.inp, ?_⟩
  · have := hw.hs; simpa [Nat.add_comm] using this
  · exact hw.ev _ (mem_evsAfter _ _ _ (Or.inl List.mem_cons_self))
  · intro y hy
    exact hw.ev _ (mem_evsAfter _ _ _ (Or.inr ⟨UReq.spec mc y, List.mem_map_of_mem hy, rfl⟩))
  · rw [← hlast]; exact hw.ph


/-- `filter_abort_gap_e2e_unbounded` without the bound `|Stdin wire| ≤ 31000`. -/
theorem filter_abort_gap_e2e_anysize {p : Preamble} {recs sbody mid : List Rec} {pad : Bytes} {res : UInt8} {a : Rec} {post : List Rec}
    {b mc : Nat} {content : Bytes} {s0 : ExitStatus} {pr : Bool} {more : List (List HOp × Bool)} {t : Transport} {fuel : Nat}
    (hwf : WellFormedPreamble p recs) (hrole : p.role = 3)
    (hpairs : ∀ q ∈ p.pairs, (NV.enc q).length ≤ alignedBufsize b)
    (hnoise : NoiseFits (alignedBufsize b) recs)
    (hbody : Body p.id 5 content sbody) (hpf : NoiseFits (alignedBufsize b) sbody) (hpad : pad.length < 256)
    (hmid : ∀ r ∈ mid, StdinRec p.id r) (hmf : NoiseFits (alignedBufsize b) mid) (ha : IsAbort p.id a)
    (hpost : ∀ r ∈ post, r.WF) (hpostf : NoiseFits (alignedBufsize b) post)
    (hnb : ∀ r ∈ post, r.rtype.toNat ≠ RT.beginRequest)
    (hin : t.input = serAll recs ++ (gapX p.id sbody pad res mid a post)) (hben : Ben t)
    (hev : hsCount t.events = 0) (hfuel : t.rd.length + t.wr.length + 1 ≤ fuel) :
    ∃ c' fin, runTask fuel (connS b mc t ((rscript s0, pr) :: more)) 0 none = (c', fin) ∧
      FilterAbortOutcome p recs (gapPre p.id sbody pad res mid) a post b mc (closeStatus pr s0) more t c' fin := by
  have hid := (pid_of_wf hwf).2
  have hwa := isAbort_wf ha hid
  have hidleA : IdleNoise a := ⟨hwa, fun hx => absurd hx (by rw [ha.1]; decide)⟩
  have hidle : ∀ e ∈ a :: post, IdleNoise e := by
    intro e he
    rcases List.mem_cons.1 he with rfl | he
    · exact hidleA
    · exact idle_of_noBegin hpost hnb e he
  have hfit : NoiseFits (alignedBufsize b) (a :: post) := by
    intro e he hg
    rcases List.mem_cons.1 he with rfl | he
    · exact absurd hg.1 (by rw [ha.1]; decide)
    · exact hpostf e he hg
  have ok := fr2oku_of (res := res) (post := post) (mc := mc) (s0 := s0) (pr := pr) t.wlog 0 more hwf hrole hpairs hnoise hbody hpf hpad hmid hmf hpost hpostf ha
  obtain ⟨hns, hNF⟩ := idle_front dummy_wf b mc (fun q hq => by cases hq) (dummy_fits _) hidle hfit []
  rw [serAll_cons] at hns hNF
  have hst : FStageP (cfgFR2 p recs content sbody pad res mid a post b mc s0 (closeStatus pr s0) t.wlog 0 more) pr (connS b mc t ((rscript s0, pr) :: more)) :=
    .start (raw := []) rfl (by show [] ++ t.input = _; rw [hin]; rfl) (Nat.zero_le _) rfl hben rfl rfl rfl hev
  obtain ⟨c', fin, hrun, hres⟩ := run_filterR2U ok (Z := serAll dummyRecs ++ []) hns hNF
    t.endMode [] _ 0 fuel hst rfl (fun s hs => by cases hs) rfl (by show ans t + 1 ≤ fuel; unfold ans; omega)
  have hLf := lfo2_eq (p := p) (recs := recs) (content := content) (sbody := sbody) (pad := pad) (res := res) (mid := mid) (a := a) (post := post) (b := b) (mc := mc) (s0 := s0) (stc := closeStatus pr s0)
    (L0 := t.wlog) (h := 0) (more := more) [] (fun _ h => nomatch h)
  have hLf' : (cfgFR2 p recs content sbody pad res mid a post b mc s0 (closeStatus pr s0) t.wlog 0 more).LfO ((cfgFR2 p recs content sbody pad res mid a post b mc s0 (closeStatus pr s0) t.wlog 0 more).Ow2 mid) =
      t.wlog ++ (owedPreamble p mc recs ++ owedActive p.id mc (gapPre p.id sbody pad res mid) ++ endRequest p.id (closeStatus pr s0)) := by
    have e : (cfgFR2 p recs content sbody pad res mid a post b mc s0 (closeStatus pr s0) t.wlog 0 more).front [] = cfgFR2 p recs content sbody pad res mid a post b mc s0 (closeStatus pr s0) t.wlog 0 more := rfl
    rw [e] at hLf
    rw [hLf]; simp [idleOwed]
  rcases hres with ⟨_, hk, hkp, hem, _, _, _, hend⟩ | ⟨hfin, hfu, _, _⟩
  · have hout : ∀ F, F ++ (serAll dummyRecs ++ []) = a.ser ++ serAll post ++ (serAll dummyRecs ++ []) →
        (cfgFR2 p recs content sbody pad res mid a post b mc s0 (closeStatus pr s0) t.wlog 0 more).LfO ((cfgFR2 p recs content sbody pad res mid a post b mc s0 (closeStatus pr s0) t.wlog 0 more).Ow2 mid) ++ (run .header F mc).out =
        t.wlog ++ (owedPreamble p mc recs ++ owedActive p.id mc (gapPre p.id sbody pad res mid) ++ endRequest p.id (closeStatus pr s0) ++ idleOwed mc post) := by
      intro F hF
      have hro := (run_idle_out mc (a :: post) hidle).1
      rw [serAll_cons] at hro
      rw [List.append_cancel_right hF, hro, hLf', idleOwed_cons, owed_idle_abort ha, List.nil_append]
      simp only [List.append_assoc]
    refine ⟨c', fin, hrun, ⟨hkp.hs, hkp.ev _ List.mem_cons_self⟩, hkp.sc, Or.inl ⟨hk, ?_, ?_⟩⟩
    · rcases hend with ⟨_, hp⟩ | ⟨_, hf⟩
      · obtain ⟨F, hF, _, _, hlg⟩ := hp.pst
        exact hlg.trans (hout F hF)
      · obtain ⟨F, hF, hlg⟩ := hf.log
        exact hlg.trans (hout F hF)
    · rcases hend with ⟨rfl, hp⟩ | ⟨rfl, hf⟩
      · obtain ⟨F, hF, hps, hph, _⟩ := hp.pst
        have hFe : F = a.ser ++ serAll post := List.append_cancel_right hF
        subst hFe
        exact Or.inr ⟨hem.symm.trans hp.em, rfl, hph, hp.inp, hkp.mx, hps.stop, hps.ben⟩
      · exact Or.inl ⟨hem.symm.trans hf.em, rfl, hf.ph⟩
  · exact ⟨c', fin, hrun, ⟨hfu.ev.1, hfu.ev.2⟩, hfu.sc, Or.inr ⟨hfu.nokeep, hfin, hfu.ph, hfu.log.trans hLf'⟩⟩

/-- `filter_abort_gap_chain_e2e_unbounded` without the bound `|Stdin wire| ≤ 31000`. -/
theorem filter_abort_gap_chain_e2e_anysize {p : Preamble} {recs sbody mid : List Rec} {pad : Bytes} {res : UInt8} {a : Rec} {post : List Rec}
    {b mc : Nat} {content : Bytes} {s0 : ExitStatus} {pr : Bool} (x : UReq) (xs : List UReq) {t : Transport} {fuel : Nat}
    (hwf : WellFormedPreamble p recs) (hrole : p.role = 3) (hk : p.flags.toNat % 2 = 1)
    (hpairs : ∀ q ∈ p.pairs, (NV.enc q).length ≤ alignedBufsize b)
    (hnoise : NoiseFits (alignedBufsize b) recs)
    (hbody : Body p.id 5 content sbody) (hpf : NoiseFits (alignedBufsize b) sbody) (hpad : pad.length < 256)
    (hmid : ∀ r ∈ mid, StdinRec p.id r) (hmf : NoiseFits (alignedBufsize b) mid) (ha : IsAbort p.id a)
    (hpost : ∀ r ∈ post, r.WF) (hpostf : NoiseFits (alignedBufsize b) post)
    (hnb : ∀ r ∈ post, r.rtype.toNat ≠ RT.beginRequest)
    (hok : ∀ y ∈ x :: xs, y.OKu b)
    (hin : t.input = serAll recs ++ (gapX p.id sbody pad res mid a post)) (hben : Ben t) (hem : t.endMode = .pend)
    (hev : hsCount t.events = 0) (hfuel : t.rd.length + t.wr.length + 1 ≤ fuel) :
    ∃ c' A,
      closedLoop fuel ((x :: xs).map UReq.wire)
        (connS b mc t ((rscript s0, pr) :: (x :: xs).map UReq.handler)) 0 = (c', "STALL") ∧
      SegsAll mc (x :: xs) A ∧
      c'.env.tr.wlog = t.wlog ++ (owedPreamble p mc recs ++ owedActive p.id mc (gapPre p.id sbody pad res mid) ++ endRequest p.id (closeStatus pr s0) ++
        idleOwed mc post) ++ A ∧
      hsCount c'.env.tr.events = 1 + (x :: xs).length ∧
      startEvent p.request ∈ c'.env.tr.events ∧
      (∀ y ∈ x :: xs, startEvent y.p.request ∈ c'.env.tr.events) ∧ c'.scripts = [] ∧
      c'.env.tr.input = [] ∧
      c'.phase = .parseReq (track (alignedBufsize b) mc (serAll ((x :: xs).getLast (by simp)).left)) .reading := by
  have hid := (pid_of_wf hwf).2
  have hwa := isAbort_wf ha hid
  have hidle : ∀ e ∈ a :: post, IdleNoise e := by
    intro e he
    rcases List.mem_cons.1 he with rfl | he
    · exact ⟨hwa, fun hx => absurd hx (by rw [ha.1]; decide)⟩
    · exact idle_of_noBegin hpost hnb e he
  have hfit : NoiseFits (alignedBufsize b) (a :: post) := by
    intro e he hg
    rcases List.mem_cons.1 he with rfl | he
    · exact absurd hg.1 (by rw [ha.1]; decide)
    · exact hpostf e he hg
  have hlo : LeftOK (alignedBufsize b) (a :: post) := ⟨hidle, hfit⟩
  have ok := fr2oku_of (res := res) (post := post) (mc := mc) (s0 := s0) (pr := pr) t.wlog 0 (((x :: xs).map (UReq.spec mc)).map RSpec.handler)
    hwf hrole hpairs hnoise hbody hpf hpad hmid hmf hpost hpostf ha
  have hstart : StartAt (alignedBufsize b) mc [] t.wlog
      ((rscript s0, pr) :: ((x :: xs).map (UReq.spec mc)).map RSpec.handler) 0 [] (ans t)
      (serAll recs ++ (gapX p.id sbody pad res mid a post))
      (connS b mc t ((rscript s0, pr) :: ((x :: xs).map (UReq.spec mc)).map RSpec.handler)) :=
    Or.inr ⟨rfl, rfl, hin, rfl, hben, rfl, rfl, rfl, hev, (fun _ hs => nomatch hs), rfl, hem, Nat.le_refl _⟩
  have hleft0 : LeftOK (alignedBufsize b) [] := ⟨(fun _ he => nomatch he), (fun _ hr => nomatch hr)⟩
  obtain ⟨c1, hrun1, hw1⟩ := serve_filterR2_coreU ok hk (left := []) hleft0 (Z := x.wire) hidle
    (goodNext_of_oku (hok x List.mem_cons_self) hlo) 0 fuel (by simp [idleOwed]; rfl) hstart (by unfold ans; omega)
  have hLf := lfo2_eq (p := p) (recs := recs) (content := content) (sbody := sbody) (pad := pad) (res := res) (mid := mid) (a := a) (post := post) (b := b) (mc := mc) (s0 := s0) (stc := closeStatus pr s0)
    (L0 := t.wlog) (h := 0) (more := ((x :: xs).map (UReq.spec mc)).map RSpec.handler) [] (fun _ h => nomatch h)
  have hLw : ((cfgFR2 p recs content sbody pad res mid a post b mc s0 (closeStatus pr s0) t.wlog 0 (((x :: xs).map (UReq.spec mc)).map RSpec.handler)).front []).LfO ((cfgFR2 p recs content sbody pad res mid a post b mc s0 (closeStatus pr s0) t.wlog 0 (((x :: xs).map (UReq.spec mc)).map RSpec.handler)).Ow2 mid) ++
      idleOwed mc (a :: post) =
      t.wlog ++ (owedPreamble p mc recs ++ owedActive p.id mc (gapPre p.id sbody pad res mid) ++ endRequest p.id (closeStatus pr s0) ++ idleOwed mc post) := by
    rw [hLf, idleOwed_cons, owed_idle_abort ha, List.nil_append]
    simp [idleOwed, List.append_assoc]
  have hw1' : Waiting (alignedBufsize b) mc (a :: post)
      (t.wlog ++ (owedPreamble p mc recs ++ owedActive p.id mc (gapPre p.id sbody pad res mid) ++ endRequest p.id (closeStatus pr s0) ++ idleOwed mc post))
      (((x :: xs).map (UReq.spec mc)).map RSpec.handler) 1 [hsEvent p.request] (ans t) c1 := by
    rw [← hLw]; exact hw1
  obtain ⟨c', A, hrun, hseg, hw⟩ := chain_serves (alignedBufsize b) mc (serAll dummyRecs ++ [])
    (xs.map (UReq.spec mc)) (UReq.spec mc x) (a :: post) _ 1 [hsEvent p.request] (ans t) (feed c1 x.wire) 1000 fuel
    (hall_of_oku x xs hok) hlo (Or.inl ⟨c1, hw1', rfl⟩) (by unfold ans; omega)
  have hrun' : closedLoop fuel ((x :: xs).map UReq.wire)
      (connS b mc t ((rscript s0, pr) :: (x :: xs).map UReq.handler)) 0 = (c', "STALL") := by
    have e : (x :: xs).map UReq.handler = ((x :: xs).map (UReq.spec mc)).map RSpec.handler := by
      rw [List.map_map]; rfl
    rw [e]
    show closedLoop fuel (x.wire :: xs.map UReq.wire) _ 0 = _
    rw [closedLoop, hrun1]
    simp only [if_true]
    rw [← hrun, List.map_map]; rfl
  have hlast := lastLeft_specs mc x xs
  refine ⟨c', A, hrun', segAll_specs mc (x :: xs) A hseg, hw.log, ?_, ?_, ?_, hw.sc, hw.inp, ?_⟩
  · have := hw.hs; simpa [Nat.add_comm] using this
  · exact hw.ev _ (mem_evsAfter _ _ _ (Or.inl List.mem_cons_self))
  · intro y hy
    exact hw.ev _ (mem_evsAfter _ _ _ (Or.inr ⟨UReq.spec mc y, List.mem_map_of_mem hy, rfl⟩))
  · rw [← hlast]; exact hw.ph


/-- `filter_abort_table_unbounded` without the bound `|Stdin wire| ≤ 31000`. -/
theorem filter_abort_table_anysize :
    -- row (c): the handler never reads; (i), (ii), (iii) with no Data content before the abort record
    (∀ {p : Preamble} {recs pre : List Rec} {a : Rec} {post : List Rec} {b mc : Nat} {st : ExitStatus}
      {more : List (List HOp × Bool)} {t : Transport} {fuel : Nat},
      WellFormedPreamble p recs → p.role = 3 → (∀ q ∈ p.pairs, (NV.enc q).length ≤ alignedBufsize b) →
      NoiseFits (alignedBufsize b) recs → (∀ r ∈ pre, StdinRec p.id r) → NoiseFits (alignedBufsize b) pre →
      IsAbort p.id a → (∀ r ∈ post, r.WF) → NoiseFits (alignedBufsize b) post →
      (∀ r ∈ post, r.rtype.toNat ≠ RT.beginRequest) →
      t.input = serAll recs ++ (serAll (pre ++ [a]) ++ serAll post) → Ben t → hsCount t.events = 0 →
      t.rd.length + t.wr.length + 1 ≤ fuel →
      ∃ c' fin, runTask fuel (connS b mc t (([.ret st], true) :: more)) 0 none = (c', fin) ∧
        EndOnce p recs mc st t c') ∧
    -- rows (a) (`pr = true`) and (b) (`pr = false`), placement (i)
    (∀ {p : Preamble} {recs pre : List Rec} {a : Rec} {post : List Rec} {b mc : Nat} {content : Bytes}
      {s0 : ExitStatus} {pr : Bool} {more : List (List HOp × Bool)} {t : Transport} {fuel : Nat},
      WellFormedPreamble p recs → p.role = 3 → (∀ q ∈ p.pairs, (NV.enc q).length ≤ alignedBufsize b) →
      NoiseFits (alignedBufsize b) recs → Body p.id 5 content pre → NoiseFits (alignedBufsize b) pre →
      IsAbort p.id a → (∀ r ∈ post, r.WF) → NoiseFits (alignedBufsize b) post →
      (∀ r ∈ post, r.rtype.toNat ≠ RT.beginRequest) →
      t.input = serAll recs ++ (serAll (pre ++ [a]) ++ serAll post) → Ben t → hsCount t.events = 0 →
      t.rd.length + t.wr.length + 1 ≤ fuel →
      ∃ c' fin, runTask fuel (connS b mc t ((rscript s0, pr) :: more)) 0 none = (c', fin) ∧
        EndOnce p recs mc (closeStatus pr s0) t c') ∧
    -- rows (a), (b), placement (ii)
    (∀ {p : Preamble} {recs sbody mid : List Rec} {pad : Bytes} {res : UInt8} {a : Rec} {post : List Rec}
      {b mc : Nat} {content : Bytes}
      {s0 : ExitStatus} {pr : Bool} {more : List (List HOp × Bool)} {t : Transport} {fuel : Nat},
      WellFormedPreamble p recs → p.role = 3 → (∀ q ∈ p.pairs, (NV.enc q).length ≤ alignedBufsize b) →
      NoiseFits (alignedBufsize b) recs → Body p.id 5 content sbody → NoiseFits (alignedBufsize b) sbody →
      pad.length < 256 → (∀ r ∈ mid, StdinRec p.id r) → NoiseFits (alignedBufsize b) mid →
      IsAbort p.id a → (∀ r ∈ post, r.WF) → NoiseFits (alignedBufsize b) post →
      (∀ r ∈ post, r.rtype.toNat ≠ RT.beginRequest) →
      t.input = serAll recs ++ gapX p.id sbody pad res mid a post → Ben t → hsCount t.events = 0 →
      t.rd.length + t.wr.length + 1 ≤ fuel →
      ∃ c' fin, runTask fuel (connS b mc t ((rscript s0, pr) :: more)) 0 none = (c', fin) ∧
        EndOnce p recs mc (closeStatus pr s0) t c') ∧
    -- rows (a), (b), placement (iii): Data records (content `c2`, possibly empty) before the abort record
    (∀ {p : Preamble} {recs sbody dbody : List Rec} {pad : Bytes} {res : UInt8} {a : Rec} {post : List Rec}
      {b mc : Nat} {content c2 : Bytes}
      {s0 : ExitStatus} {pr : Bool} {more : List (List HOp × Bool)} {t : Transport} {fuel : Nat},
      WellFormedPreamble p recs → p.role = 3 → (∀ q ∈ p.pairs, (NV.enc q).length ≤ alignedBufsize b) →
      NoiseFits (alignedBufsize b) recs → Body p.id 5 content sbody → NoiseFits (alignedBufsize b) sbody →
      pad.length < 256 → Body p.id 8 c2 dbody → NoiseFits (alignedBufsize b) dbody →
      IsAbort p.id a → (∀ r ∈ post, r.WF) → NoiseFits (alignedBufsize b) post →
      (∀ r ∈ post, r.rtype.toNat ≠ RT.beginRequest) →
      t.input = serAll recs ++ gapX p.id sbody pad res dbody a post → Ben t → hsCount t.events = 0 →
      t.rd.length + t.wr.length + 1 ≤ fuel →
      ∃ c' fin, runTask fuel (connS b mc t ((rscript s0, pr) :: more)) 0 none = (c', fin) ∧
        EndOnce p recs mc (closeStatus pr s0) t c') ∧
    -- the status
    (∀ s0, closeStatus true s0 = ExitStatus.abort ∧ closeStatus false s0 = s0) := by
  refine ⟨?_, ?_, ?_, ?_, closeStatus_spec⟩
  · intro p recs pre a post b mc st more t fuel hwf hrole hpairs hnoise hpre hpf ha hpost hpostf hnb hin hben hev
      hfuel
    obtain ⟨c', fin, hrun, ho⟩ := filter_abort_noread_e2e_unbounded (more := more) hwf hrole hpairs hnoise hpre hpf ha hpost
      hpostf hnb hin hben hev hfuel
    exact ⟨c', fin, hrun, endOnce_of_outcome (pid_of_wf hwf).2 (fun r hr => (hpre r hr).1) hnb ho⟩
  · intro p recs pre a post b mc content s0 pr more t fuel hwf hrole hpairs hnoise hbody hpf ha hpost hpostf hnb
      hin hben hev hfuel
    obtain ⟨c', fin, hrun, ho⟩ := filter_abort_stdin_e2e_anysize (more := more) hwf hrole hpairs hnoise hbody hpf ha hpost
      hpostf hnb hin hben hev hfuel
    exact ⟨c', fin, hrun, endOnce_of_outcome (pid_of_wf hwf).2 (body_wf (pid_of_wf hwf).2 hbody) hnb ho⟩
  · intro p recs sbody mid pad res a post b mc content s0 pr more t fuel hwf hrole hpairs hnoise hbody hpf hpad
      hmid hmf ha hpost hpostf hnb hin hben hev hfuel
    obtain ⟨c', fin, hrun, ho⟩ := filter_abort_gap_e2e_anysize (more := more) hwf hrole hpairs hnoise hbody hpf hpad hmid hmf
      ha hpost hpostf hnb hin hben hev hfuel
    exact ⟨c', fin, hrun, endOnce_of_outcome (pid_of_wf hwf).2
      (gapPre_wf (pid_of_wf hwf).2 (body_wf (pid_of_wf hwf).2 hbody) hpad (fun r hr => (hmid r hr).1)) hnb ho⟩
  · intro p recs sbody dbody pad res a post b mc content c2 s0 pr more t fuel hwf hrole hpairs hnoise hbody hpf hpad
      hdb hdf ha hpost hpostf hnb hin hben hev hfuel
    obtain ⟨c', fin, hrun, ho⟩ := filter_abort_data_e2e_unbounded (more := more) hwf hrole hpairs hnoise hbody hpf hpad hdb hdf
      ha hpost hpostf hnb hin hben hev hfuel
    exact ⟨c', fin, hrun, endOnce_of_dataOutcome (pid_of_wf hwf).2
      (gapPre_wf (pid_of_wf hwf).2 (body_wf (pid_of_wf hwf).2 hbody) hpad (body_wf (pid_of_wf hwf).2 hdb)) hnb ho⟩

/-- `filter_abort_table_full_unbounded` without the bound `|Stdin wire| ≤ 31000`. -/
theorem filter_abort_table_full_anysize :
    (∀ {p : Preamble} {recs sbody dbody : List Rec} {pad : Bytes} {res : UInt8} {a : Rec} {post : List Rec}
      {b mc : Nat} {content c2 : Bytes} {st : ExitStatus} {more : List (List HOp × Bool)} {t : Transport}
      {fuel : Nat},
      WellFormedPreamble p recs → p.role = 3 → (∀ q ∈ p.pairs, (NV.enc q).length ≤ alignedBufsize b) →
      NoiseFits (alignedBufsize b) recs → Body p.id 5 content sbody → NoiseFits (alignedBufsize b) sbody →
      pad.length < 256 → Body p.id 8 c2 dbody → NoiseFits (alignedBufsize b) dbody →
      (∀ r ∈ dbody, r.rtype.toNat ≠ RT.beginRequest) → IsAbort p.id a →
      (∀ r ∈ post, r.WF) → NoiseFits (alignedBufsize b) post → (∀ r ∈ post, r.rtype.toNat ≠ RT.beginRequest) →
      (∀ r ∈ post, ¬ (r.rtype.toNat = 5 ∧ r.id = p.id)) →
      t.input = serAll recs ++ gapX p.id sbody pad res dbody a post → Ben t → hsCount t.events = 0 →
      t.rd.length + t.wr.length + 1 ≤ fuel →
      ∃ c' fin, runTask fuel (connS b mc t (([.ret st], true) :: more)) 0 none = (c', fin) ∧
        EndOnce p recs mc st t c') ∧
    -- … and all the other cells
    ((∀ {p : Preamble} {recs pre : List Rec} {a : Rec} {post : List Rec} {b mc : Nat} {st : ExitStatus}
      {more : List (List HOp × Bool)} {t : Transport} {fuel : Nat},
      WellFormedPreamble p recs → p.role = 3 → (∀ q ∈ p.pairs, (NV.enc q).length ≤ alignedBufsize b) →
      NoiseFits (alignedBufsize b) recs → (∀ r ∈ pre, StdinRec p.id r) → NoiseFits (alignedBufsize b) pre →
      IsAbort p.id a → (∀ r ∈ post, r.WF) → NoiseFits (alignedBufsize b) post →
      (∀ r ∈ post, r.rtype.toNat ≠ RT.beginRequest) →
      t.input = serAll recs ++ (serAll (pre ++ [a]) ++ serAll post) → Ben t → hsCount t.events = 0 →
      t.rd.length + t.wr.length + 1 ≤ fuel →
      ∃ c' fin, runTask fuel (connS b mc t (([.ret st], true) :: more)) 0 none = (c', fin) ∧
        EndOnce p recs mc st t c') ∧
    (∀ {p : Preamble} {recs pre : List Rec} {a : Rec} {post : List Rec} {b mc : Nat} {content : Bytes}
      {s0 : ExitStatus} {pr : Bool} {more : List (List HOp × Bool)} {t : Transport} {fuel : Nat},
      WellFormedPreamble p recs → p.role = 3 → (∀ q ∈ p.pairs, (NV.enc q).length ≤ alignedBufsize b) →
      NoiseFits (alignedBufsize b) recs → Body p.id 5 content pre → NoiseFits (alignedBufsize b) pre →
      IsAbort p.id a → (∀ r ∈ post, r.WF) → NoiseFits (alignedBufsize b) post →
      (∀ r ∈ post, r.rtype.toNat ≠ RT.beginRequest) →
      t.input = serAll recs ++ (serAll (pre ++ [a]) ++ serAll post) → Ben t → hsCount t.events = 0 →
      t.rd.length + t.wr.length + 1 ≤ fuel →
      ∃ c' fin, runTask fuel (connS b mc t ((rscript s0, pr) :: more)) 0 none = (c', fin) ∧
        EndOnce p recs mc (closeStatus pr s0) t c') ∧
    (∀ {p : Preamble} {recs sbody mid : List Rec} {pad : Bytes} {res : UInt8} {a : Rec} {post : List Rec}
      {b mc : Nat} {content : Bytes}
      {s0 : ExitStatus} {pr : Bool} {more : List (List HOp × Bool)} {t : Transport} {fuel : Nat},
      WellFormedPreamble p recs → p.role = 3 → (∀ q ∈ p.pairs, (NV.enc q).length ≤ alignedBufsize b) →
      NoiseFits (alignedBufsize b) recs → Body p.id 5 content sbody → NoiseFits (alignedBufsize b) sbody →
      pad.length < 256 → (∀ r ∈ mid, StdinRec p.id r) → NoiseFits (alignedBufsize b) mid →
      IsAbort p.id a → (∀ r ∈ post, r.WF) → NoiseFits (alignedBufsize b) post →
      (∀ r ∈ post, r.rtype.toNat ≠ RT.beginRequest) →
      t.input = serAll recs ++ gapX p.id sbody pad res mid a post → Ben t → hsCount t.events = 0 →
      t.rd.length + t.wr.length + 1 ≤ fuel →
      ∃ c' fin, runTask fuel (connS b mc t ((rscript s0, pr) :: more)) 0 none = (c', fin) ∧
        EndOnce p recs mc (closeStatus pr s0) t c') ∧
    (∀ {p : Preamble} {recs sbody dbody : List Rec} {pad : Bytes} {res : UInt8} {a : Rec} {post : List Rec}
      {b mc : Nat} {content c2 : Bytes}
      {s0 : ExitStatus} {pr : Bool} {more : List (List HOp × Bool)} {t : Transport} {fuel : Nat},
      WellFormedPreamble p recs → p.role = 3 → (∀ q ∈ p.pairs, (NV.enc q).length ≤ alignedBufsize b) →
      NoiseFits (alignedBufsize b) recs → Body p.id 5 content sbody → NoiseFits (alignedBufsize b) sbody →
      pad.length < 256 → Body p.id 8 c2 dbody → NoiseFits (alignedBufsize b) dbody →
      IsAbort p.id a → (∀ r ∈ post, r.WF) → NoiseFits (alignedBufsize b) post →
      (∀ r ∈ post, r.rtype.toNat ≠ RT.beginRequest) →
      t.input = serAll recs ++ gapX p.id sbody pad res dbody a post → Ben t → hsCount t.events = 0 →
      t.rd.length + t.wr.length + 1 ≤ fuel →
      ∃ c' fin, runTask fuel (connS b mc t ((rscript s0, pr) :: more)) 0 none = (c', fin) ∧
        EndOnce p recs mc (closeStatus pr s0) t c') ∧
    (∀ s0, closeStatus true s0 = ExitStatus.abort ∧ closeStatus false s0 = s0)) := by
  refine ⟨?_, filter_abort_table_anysize⟩
  intro p recs sbody dbody pad res a post b mc content c2 st more t fuel hwf hrole hpairs hnoise hbody hpf hpad hdb hdf
    hnbd ha hpost hpostf hnb hpost5 hin hben hev hfuel
  obtain ⟨c', fin, hrun, ho⟩ := filter_abort_data_noread_e2e_unbounded (more := more) hwf hrole hpairs hnoise hbody hpf hpad hdb
    hdf hnbd ha hpost hpostf hnb hpost5 hin hben hev hfuel
  have hid := (pid_of_wf hwf).2
  exact ⟨c', fin, hrun, endOnce_of_splitOutcome hid (body_wf hid hbody) hpad (body_wf hid hdb) hnbd ha hnb ho⟩

/-! ## Non-vacuity: the abort record behind 65 535 Stdin bytes -/
namespace ExampleAny
open Fcgi.C01.Example Fcgi.C07E.Example Fcgi.C07U.Example Fcgi.C11F.Example Fcgi.C11F.Example2

def bigC : Bytes := List.replicate 65535 7
theorem bigC_len : bigC.length = 65535 := List.length_replicate ..
/-- ONE Stdin record with 65 535 content bytes, no terminator -/
def fSbig : List Rec := [ { rtype := 5, id := 1, content := bigC, pad := [] } ]
theorem fSbig_body : Body 1 5 bigC fSbig := by
  have h := Body.chunk (id := 1) (s := 5) bigC [] 0 (by rw [bigC_len]; omega) (by decide) Body.nil
  rw [List.append_nil] at h
  exact h
theorem fSbig_fits (M : Nat) : NoiseFits M fSbig := by
  intro r hr hg
  exfalso
  obtain ⟨h1, _⟩ := hg
  simp only [fSbig, List.mem_cons, List.not_mem_nil, or_false] at hr
  subst hr
  simp [RT.getValues] at h1

/-- cell (a)(i) with a Stdin wire of more than 65 543 bytes (outside `filter_abort_stdin_e2e_unbounded`, whose
`hX31` allows 31 000) -/
def frBigT : Transport :=
  { input := serAll recsFK ++ (serAll (fSbig ++ [aR]) ++ serAll postI), endMode := .pend,
    rd := [.n 24, .n 7, .pending, .n 40000, .all], wr := [.n 5, .pending, .all], fl := [] }

example : ∃ c' fin, runTask 20 (connS 64 10 frBigT [(rscript (.complete 3), true)]) 0 none = (c', fin) ∧
    hsCount c'.env.tr.events = 1 := by
  obtain ⟨c', fin, hrun, ho⟩ := filter_abort_stdin_e2e_anysize (p := preFK) (recs := recsFK) (pre := fSbig) (a := aR)
    (post := postI) (b := 64) (mc := 10) (content := bigC) (s0 := .complete 3) (pr := true) (more := [])
    (t := frBigT) (fuel := 20)
    recsFK_wf rfl (fun q hq => by cases hq) (recsFK_fits _) fSbig_body (fSbig_fits _) aR_abort postI_wf postI_fits
    postI_noBegin rfl ⟨by decide, by decide, rfl, by decide⟩ rfl (by decide)
  exact ⟨c', fin, hrun, ho.one_handler.1⟩

end ExampleAny

end Fcgi.C11F
