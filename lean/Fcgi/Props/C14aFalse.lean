import Fcgi.Props.C14a
import Fcgi.Proofs.ReqRecords
/-!
# C14a — `in_flight_runs_on_full` is false (graceful shutdown between two buffered requests)

`Props/C14a.lean` states `in_flight_runs_on_full` (the flag makes no difference to a poll that starts
and ends in a `handler`/`closing` phase) and explains why it cannot hold: a `close` of a KEEP_CONN
request whose successor is already in the buffer.  Here is the witness, evaluated in the kernel.

`wC`: request 1 (Responder, `KEEP_CONN`) is being closed; the stream parser's buffer holds the whole
preamble of request 2 (`BeginRequest` + empty `Params`); the script for the next handler reads one
byte of Stdin, which is not there yet.

* without the stop flag the poll writes the epilogue of request 1, reuses the parser, parses
  request 2, starts its handler, and ends `Pending` inside that handler (`wC_runs_on`);
* with the flag it writes the same epilogue and ends `Finished` at `parse_request`
  (`C14a.in_flight_then_stop`) — request 2 is never started.
-/
namespace Fcgi.C14a
open Fcgi Fcgi.Req Fcgi.Str Fcgi.Async Fcgi.Run

def wReq1 : Request := { id := 1, role := 1, flags := 1, env := [] }
def wBegin : Spec.Rec := { rtype := 1, id := 2, content := [0, 1, 0, 0, 0, 0, 0, 0], pad := [] }
def wParams : Spec.Rec := { rtype := 4, id := 2, content := [], pad := [] }
/-- the complete preamble of request 2 -/
def wWire2 : Bytes := wBegin.ser ++ wParams.ser
def wTr : Transport := { input := [], endMode := .pend, rd := [], wr := [], fl := [] }

/-- `close` of request 1 about to start; request 2 buffered; its handler will wait for Stdin. -/
def wC : Conn :=
  { phase := .closing (AReq.new (Str.Parser.fromParser 64 wReq1 wWire2 1)) .start (.complete 0) 0,
    env := { tr := wTr }, scripts := [([.read 1], true)] }

/-- the configuration in which the poll comes back to `parse_request` -/
def wC1 : Conn :=
  match inFlight 20 wC with
  | .reachedParse _ c => c
  | .halted c _ => c

theorem wC_reaches : inFlight 20 wC = .reachedParse 19 wC1 := by
  unfold wC1
  rfl


def wReq2 : Request := { id := 2, role := 1, flags := 0, env := [] }

/-- the request parser on the buffered preamble of request 2: complete, nothing left -/
theorem run_wWire2 : run .header wWire2 1 = ⟨[], .done wReq2, [], none⟩ := by
  have h1 := header_begin 2 1 0 [0, 0, 0, 0, 0] [] 0 wParams.ser 1 (by decide) (by decide) rfl (by decide)
  have hb : ({ rtype := 1, id := 2, content := toBe16 1 ++ [0] ++ [0, 0, 0, 0, 0], pad := [],
               reserved := 0 } : Spec.Rec) = wBegin := by decide
  rw [hb] at h1
  have h2 := params_done { req := Request.new 2 { role := 1, flags := 0 }, buffer := [] }
    (innerOK_nil _) [] 0 [] 1 (by decide) (by decide)
  have hp : ({ rtype := 4, id := (Request.new 2 { role := 1, flags := 0 }).id, content := [], pad := [],
               reserved := 0 } : Spec.Rec) = wParams := by decide
  simp only [] at h2
  rw [hp, List.append_nil] at h2
  unfold wWire2
  rw [h1, h2]
  rfl

/-- the request parser after request 2's preamble -/
def wRp2 : Req.Parser := ⟨64, [], .done wReq2, 1⟩

theorem parse_wWire2 : (Req.Parser.fromParser 64 wWire2 1).parse [] =
    (wRp2, some { done := true, output := [] }) := by
  unfold Req.Parser.parse
  simp only [Req.Parser.fromParser, List.append_nil, run_wWire2]
  decide

theorem wC1_phase : wC1.phase = .parseReq (Req.Parser.fromParser 64 wWire2 1) .start := rfl
theorem wC1_stop : wC1.stop = false := rfl

/-- after `parse(0)`: the (empty) reply still to be written, request 2 complete -/
def wCW : Conn := ⟨.parseReq wRp2 (.writing [] true), wC1.env, wC1.scripts, false⟩

/-- **Without the flag** the poll ends `Pending` inside the handler of request 2. -/
theorem wC_runs_on : (pollConn 20 { wC with stop := false }).2 = .pending ∧
    (pollConn 20 { wC with stop := false }).1.phase.inFlight = true := by
  have hF := (in_flight_then_stop 20 wC wC1 19 wC_reaches).2
  rw [hF]
  have hstep : pollConn 19 { wC1 with stop := false } = pollConn 18 wCW := by
    rw [show (19 : Nat) = 18 + 1 from rfl, pollConn]
    simp [wC1_phase, parse_wWire2, wCW]
  rw [hstep]
  constructor
  · have : (match (pollConn 18 wCW).2 with | .pending => true | _ => false) = true := by
      decide +kernel
    revert this
    cases (pollConn 18 wCW).2 <;> simp
  · decide +kernel

/-- **With the flag** the same poll ends `Finished` at `parse_request`. -/
theorem wC_stops : pollConn 20 { wC with stop := true } =
    ({ wC1 with stop := true, phase := .finished }, .finished) :=
  (in_flight_then_stop 20 wC wC1 19 wC_reaches).1

/-- **`in_flight_runs_on_full` is false.** -/
theorem in_flight_runs_on_full_false : ¬ in_flight_runs_on_full := by
  intro h
  have h1 := h 20 wC (pollConn 20 { wC with stop := false }).1 (pollConn 20 { wC with stop := false }).2
    rfl rfl wC_runs_on.2
  rw [wC_stops] at h1
  have h2 := congrArg (fun x => x.1.phase.inFlight) h1
  simp only [wC_runs_on.2] at h2
  cases h2

end Fcgi.C14a
