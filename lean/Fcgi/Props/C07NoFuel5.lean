import Fcgi.Proofs.E2EBufRead2NF
import Fcgi.Proofs.E2EAuthConnNF
import Fcgi.Props.C07NoFuel4

/-!
# C07 — `fill_buf`/`consume` rounds followed by `read_to_end`, WITHOUT the model-fuel hypothesis

`bufread_then_readall_e2e_nofuel` = `bufread_then_readall_e2e_unbounded` (`Props/C07Unbounded.lean`) minus
`hhf : 2·n + wcost |data| + 20 ≤ 1000` (a bound on the NUMBER OF ROUNDS `n` and on the output): any number of rounds, any
output.  Engine `Proofs/E2EBufRead2NF.lean`.  Still with a cost hypothesis: `single_request_bufread_e2e_unbounded`
(`Proofs/E2EBufRead`), `bufread_part_e2e_unbounded` (variant 2 of `Proofs/E2EBufRead2`).  At the end of the file: `authorizer_tail_e2e_nofuel`
(`Props/E2EUnbounded.authorizer_tail_e2e_unbounded` minus `hhf`).
-/
namespace Fcgi.C07B
open Fcgi Fcgi.Req Fcgi.Str Fcgi.Async Fcgi.Run Fcgi.Spec Fcgi.E2E Fcgi.C07E Fcgi.C07U

/-- **`bufread_then_readall_e2e_unbounded` without `hhf`.** -/
theorem bufread_then_readall_e2e_nofuel {p : Preamble} {recs : List Rec} {content : Bytes} {srecs : List Rec}
    {b mc n k : Nat} {data : Bytes} {st : ExitStatus} {more : List (List HOp × Bool)} {t : Transport} {fuel : Nat}
    (hwf : WellFormedPreamble p recs) (hrole : p.role = 1)
    (hpairs : ∀ q ∈ p.pairs, (NV.enc q).length ≤ alignedBufsize b)
    (hnoise : NoiseFits (alignedBufsize b) recs)
    (hs : StreamRecs p.id 5 content srecs) (hsn : NoiseFits (alignedBufsize b) srecs)
    (hin : t.input = serAll recs ++ serAll srecs) (hben : Ben t) (hev : hsCount t.events = 0)
    (hfuel : t.rd.length + t.wr.length + 1 ≤ fuel) :
    ∃ c' fin O₁ O₂ shown acc pad res,
      runTask fuel (connS b mc t ((bscript2 n k data st, true) :: more)) 0 none = (c', fin) ∧
      O₁ ++ O₂ = owedStream p.id 5 mc srecs ∧
      BufReadAllOutcome p recs content k shown acc O₁ O₂ pad res b mc data st more t c' fin := by
  obtain ⟨body, pad, res, hpad, hbody, hsrecs⟩ := StreamRecs.split hs
  have hid := (pid_of_wf hwf).2
  have hsb : NoiseFits (alignedBufsize b) body := fun r hr => hsn r (by rw [hsrecs]; simp [hr])
  have ok : BR2OKN (cfgBR2 p recs content body pad res b mc n k data st t.wlog 0 more) n k :=
    ⟨hwf, hrole, hpairs, hnoise, hbody, hsb, hpad, rfl, rfl, rfl, rfl⟩
  have hOt : owedStream p.id 5 mc srecs = owedStream p.id 5 mc body := by
    rw [hsrecs, owedStream_append, owedStream_term p.id 5 mc _ rfl, List.append_nil]
  have htwf : (trec 5 p.id pad res).WF := ⟨hid, by simp [trec], hpad⟩
  have hidle : ∀ e ∈ [trec 5 p.id pad res], IdleNoise e := by
    intro e he
    rw [List.mem_singleton.1 he]
    exact ⟨htwf, fun hx => absurd hx (by show (5 : UInt8).toNat ≠ RT.beginRequest; decide)⟩
  have hfit : NoiseFits (alignedBufsize b) [trec 5 p.id pad res] := by
    intro e he hg
    rw [List.mem_singleton.1 he] at hg
    exact absurd hg.1 (by show (5 : UInt8).toNat ≠ RT.getValues; decide)
  obtain ⟨hns, hNF⟩ := idle_front dummy_wf b mc (fun q hq => by cases hq) (dummy_fits _) hidle hfit []
  rw [C02.serAll_single] at hns hNF
  have hst : FStage (cfgBR2 p recs content body pad res b mc n k data st t.wlog 0 more)
      (connS b mc t ((bscript2 n k data st, true) :: more)) :=
    .start (raw := []) rfl (by
      show [] ++ t.input = _
      rw [hin, hsrecs, C02.serAll_append, C02.serAll_single]; rfl) (Nat.zero_le _) rfl hben rfl rfl rfl hev
  obtain ⟨c', fin, hrun, hres⟩ := run_bufread2NF' ok (Z := serAll dummyRecs ++ []) hns hNF
    t.endMode [] _ 0 fuel hst rfl (fun s hs => by cases hs) rfl (by show ans t + 1 ≤ fuel; unfold ans; omega)
  have hro := (run_idle_out mc [trec 5 p.id pad res] hidle).1
  rw [C02.serAll_single] at hro
  have hio : idleOwed mc [trec 5 p.id pad res] = [] := by
    simp [idleOwed, owed, trec, RT.valid, RT.getValues, RT.beginRequest]
  rcases hres with ⟨⟨O1, O2, shown, acc⟩, ⟨hkp, hO, hcont⟩, hk', hem, _, _, _, hend⟩ |
      ⟨hfin, ⟨O1, O2, hO, ⟨shown, acc, q1, q2, q3⟩, hfu⟩, _, _⟩
  · have hout : ∀ F, F ++ (serAll dummyRecs ++ []) = (trec 5 p.id pad res).ser ++ (serAll dummyRecs ++ []) →
        (cfgBR2 p recs content body pad res b mc n k data st t.wlog 0 more).Lb O1 O2 ++ (run .header F mc).out =
        t.wlog ++ expectedLogN p recs mc data st O1 O2 := by
      intro F hF
      rw [List.append_cancel_right hF, hro, hio, List.append_nil, lb2_eq]
    refine ⟨c', fin, O1, O2, shown, acc, pad, res, hrun, hO.trans hOt.symm, ⟨hk'.hs, hk'.ev _ List.mem_cons_self⟩,
      ⟨hcont, fun s hs => hk'.ev _ (by simp [List.mem_map]; exact Or.inr (Or.inr ⟨s, hs, rfl⟩))⟩,
      hk'.ev _ (by simp), ?_, hk'.sc, ?_⟩
    · rcases hend with ⟨_, hp⟩ | ⟨_, hf⟩
      · obtain ⟨F, hF, _, _, hlg⟩ := hp.pst
        exact hlg.trans (hout F hF)
      · obtain ⟨F, hF, hlg⟩ := hf.log
        exact hlg.trans (hout F hF)
    · rcases hend with ⟨rfl, hp⟩ | ⟨rfl, hf⟩
      · obtain ⟨F, hF, hps, hph, _⟩ := hp.pst
        have hFe : F = (trec 5 p.id pad res).ser := List.append_cancel_right hF
        subst hFe
        exact Or.inr (Or.inr ⟨hkp, hem.symm.trans hp.em, rfl, hph, hp.inp, hk'.mx, hps.stop, hps.ben⟩)
      · exact Or.inr (Or.inl ⟨hkp, hem.symm.trans hf.em, rfl, hf.ph⟩)
  · exact ⟨c', fin, O1, O2, shown, acc, pad, res, hrun, hO.trans hOt.symm, ⟨hfu.ev.1, hfu.ev.2⟩, ⟨q1, q2⟩,
      q3, by rw [hfu.log, lb2_eq], hfu.sc, Or.inl ⟨hfu.nokeep, hfin, hfu.ph⟩⟩

/-! ## Non-vacuity: 100 000 rounds (the old bound allowed fewer than 490), 70 000 000 bytes of output -/
namespace ExampleNoFuel5
open Fcgi.C07E.Example Fcgi.C07B.Example Fcgi.C07B.Example2 Fcgi.C07E.ExampleNoFuel

/-- the old `hhf` fails for `n = 100000` rounds … -/
theorem old_hhf_fails_rounds (d : Bytes) : ¬ (2 * 100000 + wcost d.length + 20 ≤ 1000) := by omega

/-- … and for two rounds with `bigData` -/
theorem old_hhf_fails_big : ¬ (2 * 2 + wcost bigData.length + 20 ≤ 1000) := by
  rw [bigData_len]; unfold wcost; omega

/-- the `_nofuel` theorem applies for EVERY number of rounds `n` and every output `data` (in particular those):
one handler start -/
example (n : Nat) (data : Bytes) : ∃ c' fin,
    runTask 20 (connS 64 10 bT [(bscript2 n 1 data (.complete 3), true)]) 0 none = (c', fin) ∧
    hsCount c'.env.tr.events = 1 := by
  obtain ⟨c', fin, O1, O2, shown, acc, pad, res, hrun, _, ho⟩ := bufread_then_readall_e2e_nofuel (p := preB) (recs := recsB)
    (content := [65, 66, 67, 68, 69]) (srecs := sB) (b := 64) (mc := 10) (n := n) (k := 1) (data := data)
    (st := .complete 3) (more := []) (t := bT) (fuel := 20)
    recsB_wf rfl (fun q hq => by cases hq) (no_getValues_fits (by decide)) sB_ok (no_getValues_fits (by decide))
    rfl ⟨by decide, by decide, rfl, by decide⟩ rfl (by decide)
  exact ⟨c', fin, hrun, ho.one_handler.1⟩

end ExampleNoFuel5

end Fcgi.C07B

namespace Fcgi.C07U
open Fcgi Fcgi.Req Fcgi.Str Fcgi.Async Fcgi.Run Fcgi.Spec Fcgi.E2E Fcgi.C07E

/-- `aok_of` without the cost hypothesis -/
theorem aok_ofN {p : Preamble} {recs tail : List Rec} {b mc : Nat} {rd : ARead} {wr : Bool} {data : Bytes}
    {st : ExitStatus} (L0 : Bytes) (h : Nat) (more : List (List HOp × Bool))
    (hwf : WellFormedPreamble p recs) (hrole : p.role = 2)
    (hpairs : ∀ q ∈ p.pairs, (NV.enc q).length ≤ alignedBufsize b)
    (hnoise : NoiseFits (alignedBufsize b) recs)
    (htail : ∀ r ∈ tail, StreamNoise p.id r) (htn : NoiseFits (alignedBufsize b) tail)
    (hwd : wr = false → data = []) :
    AOKN (cfgA p recs tail b mc rd wr data st L0 h more) rd wr :=
  ⟨hwf, hrole, hpairs, hnoise, fun r hr => ⟨(htail r hr).1, Or.inl (htail r hr)⟩, htn, rfl, rfl, hwd, rfl⟩

/-- **`authorizer_tail_e2e_unbounded` without `hhf : wcost |data| + 8 ≤ 1000`** (engine `Proofs/E2EAuthConnNF.lean`). -/
theorem authorizer_tail_e2e_nofuel {p : Preamble} {recs tail : List Rec} {b mc : Nat} {rd : ARead} {wr : Bool}
    {data : Bytes} {st : ExitStatus} {more : List (List HOp × Bool)} {t : Transport} {fuel : Nat}
    (hwf : WellFormedPreamble p recs) (hrole : p.role = 2)
    (hpairs : ∀ q ∈ p.pairs, (NV.enc q).length ≤ alignedBufsize b)
    (hnoise : NoiseFits (alignedBufsize b) recs)
    (htail : ∀ r ∈ tail, StreamNoise p.id r) (htn : NoiseFits (alignedBufsize b) tail)
    (hnb : ∀ r ∈ tail, r.rtype.toNat ≠ RT.beginRequest)
    (hwd : wr = false → data = [])
    (hin : t.input = serAll recs ++ serAll tail) (hben : Ben t) (hev : hsCount t.events = 0)
    (hfuel : t.rd.length + t.wr.length + 1 ≤ fuel) :
    ∃ c' fin t₁ t₂ O₁ O₂, runTask fuel (connS b mc t ((aHandler rd wr data st, true) :: more)) 0 none = (c', fin) ∧
      AuthTailOutcome p recs tail t₁ t₂ O₁ O₂ rd b mc data st more t c' fin := by
  have hidle : ∀ r ∈ tail, IdleNoise r := idle_of_noBegin (fun r hr => (htail r hr).1) hnb
  have ok := aok_ofN (mc := mc) (rd := rd) (st := st) t.wlog 0 more hwf hrole hpairs hnoise htail htn hwd
  have hmem : ∀ t1 t2 : List Rec, (cfgA p recs tail b mc rd wr data st t.wlog 0 more).body = t1 ++ t2 →
      ∀ e ∈ t2, e ∈ tail := by
    intro t1 t2 hsp e he
    have : e ∈ (cfgA p recs tail b mc rd wr data st t.wlog 0 more).body := by rw [hsp]; exact List.mem_append_right _ he
    exact this
  have hgood : ∀ t1 t2 : List Rec, (cfgA p recs tail b mc rd wr data st t.wlog 0 more).body = t1 ++ t2 →
      GoodNext (alignedBufsize b) mc t2 (serAll dummyRecs ++ []) := fun t1 t2 hsp =>
    idle_front dummy_wf b mc (fun q hq => by cases hq) (dummy_fits _) (fun e he => hidle e (hmem t1 t2 hsp e he))
      (fun e he hg => htn e (hmem t1 t2 hsp e he) hg) []
  have hst : FStage (cfgA p recs tail b mc rd wr data st t.wlog 0 more)
      (connS b mc t ((aHandler rd wr data st, true) :: more)) :=
    .start (raw := []) rfl (by show [] ++ t.input = _; rw [hin]; rfl) (Nat.zero_le _) rfl hben rfl rfl rfl hev
  obtain ⟨c', fin, hrun, hres⟩ :=
    run_authNF' ok (Z := serAll dummyRecs ++ []) (fun t1 t2 h => (hgood t1 t2 h).1) (fun t1 t2 h => (hgood t1 t2 h).2)
      t.endMode [] _ 0 fuel hst rfl (fun s hs => by cases hs) rfl (by show ans t + 1 ≤ fuel; unfold ans; omega)
  have hLeq : ∀ O1 O2 : Bytes, ((cfgA p recs tail b mc rd wr data st t.wlog 0 more).L1 ++ O1) ++
      (cfgA p recs tail b mc rd wr data st t.wlog 0 more).D ++ O2 ++
      (cfgA p recs tail b mc rd wr data st t.wlog 0 more).epi =
      t.wlog ++ (owedPreamble p mc recs ++ O1 ++ streamRecords 6 p.id data ++ O2 ++ epilogue p.id st) := by
    intro O1 O2
    show ((t.wlog ++ owedPreamble p mc recs) ++ O1) ++ streamRecords 6 p.id data ++ O2 ++
      makeRequestEpilogue p.id st [RT.stdout, RT.stderr] = _
    rw [epilogue_eq]
    simp only [List.append_assoc]
  rcases hres with ⟨i, ⟨⟨hsp, hO⟩, hk⟩, hkp, hem, _, _, _, hend⟩ | ⟨hfin, ⟨s1, s2, O1, O2, hsp, hO, hrd, hfu⟩, _, _⟩
  · have hs2 : ∀ e ∈ i.t2, IdleNoise e := fun e he => hidle e (hmem i.t1 i.t2 hsp e he)
    have hout : ∀ F, F ++ (serAll dummyRecs ++ []) = serAll i.t2 ++ (serAll dummyRecs ++ []) →
        AIdx.L (cfgA p recs tail b mc rd wr data st t.wlog 0 more) i ++ (run .header F mc).out =
        t.wlog ++ (owedPreamble p mc recs ++ i.O1 ++ streamRecords 6 p.id data ++ i.O2 ++ epilogue p.id st ++
          idleOwed mc i.t2) := by
      intro F hF
      rw [List.append_cancel_right hF, (run_idle_out mc i.t2 hs2).1, AIdx.L, hLeq]
      simp only [List.append_assoc]
    refine ⟨c', fin, i.t1, i.t2, i.O1, i.O2, hrun, hsp, hO, fun s hs => hkp.ev _ (List.mem_cons_of_mem _ hs),
      ⟨hkp.hs, hkp.ev _ List.mem_cons_self⟩, hkp.sc, Or.inl ⟨hk, ?_, ?_⟩⟩
    · rcases hend with ⟨_, hp⟩ | ⟨_, hf⟩
      · obtain ⟨F, hF, _, _, hlg⟩ := hp.pst
        exact hlg.trans (hout F hF)
      · obtain ⟨F, hF, hlg⟩ := hf.log
        exact hlg.trans (hout F hF)
    · rcases hend with ⟨rfl, hp⟩ | ⟨rfl, hf⟩
      · obtain ⟨F, hF, hps, hph, _⟩ := hp.pst
        have hFe : F = serAll i.t2 := List.append_cancel_right hF
        subst hFe
        exact Or.inr ⟨hem.symm.trans hp.em, rfl, hph, hp.inp, hkp.mx, hps.stop, hps.ben⟩
      · exact Or.inl ⟨hem.symm.trans hf.em, rfl, hf.ph⟩
  · refine ⟨c', fin, s1, s2, O1, O2, hrun, hsp, hO, fun s hs => hrd s hs, ⟨hfu.ev.1, hfu.ev.2⟩, hfu.sc,
      Or.inr ⟨hfu.nokeep, hfin, hfu.ph, ?_⟩⟩
    rw [hfu.log, gD_LU]
    exact hLeq O1 O2

/-- non-vacuity: the hypothesis bundle of `authorizer_tail_e2e_nofuel` with an output of 70 000 000 bytes — the old `hhf`
is false for it, the theorem applies (stated for an arbitrary compliant Authorizer wire) -/
example {p : Preamble} {recs tail : List Rec} {b mc : Nat} {rd : ARead} {st : ExitStatus}
    {more : List (List HOp × Bool)} {t : Transport} {fuel : Nat}
    (hwf : WellFormedPreamble p recs) (hrole : p.role = 2)
    (hpairs : ∀ q ∈ p.pairs, (NV.enc q).length ≤ alignedBufsize b) (hnoise : NoiseFits (alignedBufsize b) recs)
    (htail : ∀ r ∈ tail, StreamNoise p.id r) (htn : NoiseFits (alignedBufsize b) tail)
    (hnb : ∀ r ∈ tail, r.rtype.toNat ≠ RT.beginRequest)
    (hin : t.input = serAll recs ++ serAll tail) (hben : Ben t) (hev : hsCount t.events = 0)
    (hfuel : t.rd.length + t.wr.length + 1 ≤ fuel) :
    ¬ (wcost C07E.ExampleNoFuel.bigData.length + 8 ≤ 1000) ∧
    ∃ c' fin, runTask fuel (connS b mc t ((aHandler rd true C07E.ExampleNoFuel.bigData st, true) :: more)) 0 none = (c', fin) := by
  refine ⟨by rw [C07E.ExampleNoFuel.bigData_len]; unfold wcost; omega, ?_⟩
  obtain ⟨c', fin, _, _, _, _, hrun, _⟩ := authorizer_tail_e2e_nofuel (rd := rd) (wr := true) (data := C07E.ExampleNoFuel.bigData) (st := st)
    (more := more) hwf hrole hpairs hnoise htail htn hnb (fun h => nomatch h) hin hben hev hfuel
  exact ⟨c', fin, hrun⟩

end Fcgi.C07U
