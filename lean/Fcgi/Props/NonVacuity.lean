/-
Non-vacuity audit: concrete instances of headline theorems whose own files do not instantiate them.

Each section takes a theorem with non-trivial hypotheses (invariants, well-formedness, legality,
size bounds …), builds a concrete value, discharges the hypotheses, and applies the theorem.  So
none of these theorems holds only because its hypotheses cannot be met.
-/
import Fcgi.Props.C01
import Fcgi.Props.C01Chunked
import Fcgi.Props.C04
import Fcgi.Props.C06
import Fcgi.Props.C06Suff
import Fcgi.Props.C02
import Fcgi.Props.C03Chunk
import Fcgi.Props.C05
import Fcgi.Props.C07
import Fcgi.Props.C08
import Fcgi.Props.C08Inv
import Fcgi.Props.C10
import Fcgi.Props.C10Clone2
import Fcgi.Props.C14b
import Fcgi.Props.C12Inv
import Fcgi.Props.C12Wf
import Fcgi.Props.C11E2E
import Fcgi.Props.C12Fuel
import Fcgi.Props.C09E2E
import Fcgi.Props.C03StrInv
import Fcgi.Props.C03StrSet
import Fcgi.Props.C04Hostile
import Fcgi.Props.C09
import Fcgi.Props.C11
import Fcgi.Props.C14a
import Fcgi.Props.C13
import Fcgi.Props.C12E2E2

namespace Fcgi.NonVacuity

/-! ## C01: the preamble parser (one call) -/
section C01
open Fcgi Fcgi.Req Fcgi.Spec

/-- `C01_parser_oneshot` on the example preamble of `Props/C01.lean`, default buffer, 3 bytes behind. -/
example : ((Parser.new 8192 10).parse (serAll C01.Example.recs ++ [1, 5, 0])).2 =
      some { done := true, output := owedPreamble C01.Example.pre 10 C01.Example.recs } ∧
    ((Parser.new 8192 10).parse (serAll C01.Example.recs ++ [1, 5, 0])).1.intoRequest =
      .ok (C01.Example.pre.request, [1, 5, 0]) :=
  C01.C01_parser_oneshot C01.Example.recs_wf [1, 5, 0] 8192 10 (by decide +kernel)

/-- `C01_fields` on the same preamble. -/
example : ∃ req, (run .header (serAll C01.Example.recs ++ [1, 5, 0]) 10).st = .done req ∧
    req.id = 1 ∧ req.role = 1 ∧ req.flags = 1 ∧ req.env = envExtend [] [([97], [98])] ∧
    (run .header (serAll C01.Example.recs ++ [1, 5, 0]) 10).rem = [1, 5, 0] ∧
    (run .header (serAll C01.Example.recs ++ [1, 5, 0]) 10).panic = none :=
  C01.C01_fields C01.Example.recs_wf [1, 5, 0] 10

end C01

/-! ## C04: replies of the request parser (well-formed preamble) -/
section C04
open Fcgi Fcgi.Req Fcgi.Spec

/-- `replies_exact_oneshot`: the output is two `GetValuesResult` records, nothing else. -/
example : (run .header (serAll C01.Example.recs ++ [1, 5, 0]) 10).out =
    Vars.responseRecord 1 10 ++ Vars.responseRecord 4 10 := by
  rw [C04.replies_exact_oneshot C01.Example.recs_wf [1, 5, 0] 10]
  decide +kernel

/-- `abort_during_params_last`: request 1 is in its Params stream, `AbortRequest(1)` arrives. -/
example : run (.params C06.exInner 0 0)
      (Rec.ser { rtype := 2, id := 1, content := [], pad := [0, 0], reserved := 0 }) 1 =
    ⟨[], .header, EndRequest.toRecord { appStatus := 0, protocolStatus := 0 } 1, none⟩ :=
  C04.abort_during_params_last C06.exInner (innerOK_nil _) [] [0, 0] 0 1 (by decide) (by decide)
    (by decide)

end C04

/-! ## C06: the buffer-full condition -/
section C06
open Fcgi Fcgi.Req

/-- `stuck_reported_at_once`, `stuck_state` on the stuck minimal parser of `Props/C06.lean`. -/
example : (some { done := true, output := [] } : Option Yield).isSome = true ∧
    ({ C06.exStuckParser with input := C06.exStuckInput, state := .fatal .stuckOnInput } : Parser).state =
      .fatal .stuckOnInput := by
  have hr : run C06.exStuckParser.state (C06.exStuckParser.input ++ C06.exStuckInput)
      C06.exStuckParser.maxConns = { rem := C06.exStuckInput, st := .params C06.exInner 100 0, out := [] } :=
    run_brk (st := C06.exStuckParser.state) rfl C06.ex_stuck_step
  have h1 := C06.stuck_reported_at_once C06.ex_stuck_inv (by decide) C06.ex_stuck_parse (by decide)
  have h2 := C06.stuck_state C06.ex_stuck_inv (by decide) C06.ex_stuck_parse (by decide)
    (by rw [hr]; rfl)
  exact ⟨rfl, h2.1⟩

/-- `stuck_only_when_full` on the same call. -/
example : ({ C06.exStuckParser with input := C06.exStuckInput, state := .fatal .stuckOnInput } : Parser).free = 0 := by
  have hr : run C06.exStuckParser.state (C06.exStuckParser.input ++ C06.exStuckInput)
      C06.exStuckParser.maxConns = { rem := C06.exStuckInput, st := .params C06.exInner 100 0, out := [] } :=
    run_brk (st := C06.exStuckParser.state) rfl C06.ex_stuck_step
  exact C06.stuck_only_when_full C06.ex_stuck_inv (by decide) C06.ex_stuck_parse rfl
    (by rw [hr]; intro h; cases h)

end C06

/-! ## C02: the stream parser on well-formed stream records -/
section C02
open Fcgi Fcgi.Str Fcgi.Spec Fcgi.C02

/-- `C02_oneshot`: the whole example wire of `Props/C02.lean` (68 bytes + 3 behind) in one call into
an 80-byte buffer. -/
example : ∃ q' st, (Parser.fromParser 80 exReq [] 10).parse (serAll exRecs ++ exTail) none = (q', .ok st) ∧
    st.streamEnd = true ∧ q'.parsed = (Parser.fromParser 80 exReq [] 10).parsed ++ exContent :=
  C02_oneshot (start_fresh 80 exReq [] 10 (by decide) (by decide) (Or.inl rfl)) exRecs_ok exTail rfl
    (by decide +kernel)

/-- `each_byte_once`: the example history split after its third operation. -/
example : ∃ rest, exContent =
    deliveredOps exP (exOps.take 3) ++ (deliveredOps (applyOps exP (exOps.take 3)) (exOps.drop 3) ++ rest) :=
  each_byte_once exStart exRecs_ok exTail (exOps.take 3) (exOps.drop 3)
    (by rw [List.take_append_drop]; exact exLegal) (by rw [List.take_append_drop]; exact exNoSet)
    (by rw [List.take_append_drop]; exact ⟨exTail, exFed⟩)

end C02

/-! ## C03 (request parser): chunk invariance, leftover -/
section C03Req
open Fcgi Fcgi.Req Fcgi.C03 Fcgi.C03.Examples

/-- `chunk_invariance` (parser state and output, not only `into_request`): the two-chunk feeding of
`Props/C03Chunk.lean` against the byte-by-byte feeding. -/
example : settled p0 [wire.take 19, wire.drop 19] = settled p0 (singles wire) :=
  chunk_invariance p0_inv legal_A (legalFeed_singles _ _ p0_inv (fun _ => by decide))
    (by rw [flatten_singles]; decide)

theorem feedAll_A : feedAll p0 [wire.take 19, wire.drop 19] = (p2, [], []) := by
  rw [feedAll_cons _ rfl parse_a, feedAll_cons _ rfl parse_b]
  rfl

/-- `leftover_is_unread_suffix` on that feeding. -/
example : ∃ fed consumed, [wire.take 19, wire.drop 19] = fed ++ (feedAll p0 [wire.take 19, wire.drop 19]).2.2 ∧
    p0.input ++ fed.flatten = consumed ++ (feedAll p0 [wire.take 19, wire.drop 19]).1.input ∧
    run p0.state (p0.input ++ fed.flatten) p0.maxConns =
      { rem := (feedAll p0 [wire.take 19, wire.drop 19]).1.input, st := .done req,
        out := (feedAll p0 [wire.take 19, wire.drop 19]).2.1 } :=
  leftover_is_unread_suffix p0_inv legal_A (by rw [feedAll_A]; rfl)

/-- `feed_chunk_invariance` (calls continue after completion): two against three calls. -/
example : feed p0 [wire.take 19, wire.drop 19] =
    feed p0 [wire.take 19, (wire.drop 19).take 4, (wire.drop 19).drop 4] := by
  refine feed_chunk_invariance p0_inv ⟨by decide, by rw [parse_a]; exact ⟨by decide, trivial⟩⟩ ?_
    (by decide) (by decide) (by decide)
  refine ⟨by decide, ?_⟩
  rw [parse_a]
  refine ⟨by decide, ?_, trivial⟩
  obtain ⟨c, hc⟩ := parse_input_suffix p1_inv (new := (wire.drop 19).take 4) (by decide)
  have hcap := (parse_cap p1_inv (new := (wire.drop 19).take 4) (by decide)).1
  have hl := congrArg List.length hc
  have h7 : (p1.input ++ (wire.drop 19).take 4).length = 7 := by decide
  have h16 : ((wire.drop 19).drop 4).length = 16 := by decide
  have h24 : p1.cap = 24 := rfl
  rw [h7, List.length_append] at hl
  show ((wire.drop 19).drop 4).length ≤ (p1.parse ((wire.drop 19).take 4)).1.free
  unfold Parser.free
  rw [hcap, h16, h24]
  omega

end C03Req

/-! ## C05: the chain request parser → stream parser → request parser -/
section C05
open Fcgi Fcgi.Spec Fcgi.C03.Examples

def chCs : List Bytes := [wire.take 19, wire.drop 19]
def chSp : Str.Parser := Str.Parser.fromParser 24 req [] 1
/-- the handler reads the request's (empty) `Stdin` stream to its end; 3 bytes of the next record
have arrived with it -/
def chOps : List Str.Op := [.parse [1, 5, 0, 1, 0, 0, 0, 0, 1, 1, 0] none, .parse [] none]
def chRp : Req.Parser := Req.Parser.fromParser 24 [1, 5, 0, 1, 0, 0, 0, 0, 1, 1, 0] 1

theorem chRp_eq : (Str.applyOps chSp chOps).intoRequestParser = some (.ok chRp) := by
  have h := (C05.into_request_parser_cases (Str.applyOps chSp chOps)).2.2 (by decide +kernel)
    (by decide +kernel)
  rw [show (Str.applyOps chSp chOps).cap = 24 from by decide +kernel,
    show (Str.applyOps chSp chOps).raw = [1, 5, 0, 1, 0, 0, 0, 0, 1, 1, 0] from by decide +kernel,
    show (Str.applyOps chSp chOps).maxConns = 1 from by decide +kernel] at h
  exact h

/-- `chain_suffix` (and with it `handoff_inv`, `stream_consumes_prefix`, `done_id_bound_feedAll`):
the 24-byte parser of `Props/C03Chunk.lean` fed in two chunks, handed over, read to the end of
`Stdin`, handed back. -/
example : ∃ fed consumed₁ consumed₂,
    chCs = fed ++ (C03.feedAll p0 chCs).2.2 ∧
    p0.input ++ fed.flatten ++ Str.fedBytes chOps = consumed₁ ++ consumed₂ ++ chRp.input ∧
    p0.input ++ fed.flatten = consumed₁ ++ chSp.raw ∧
    chSp.raw ++ Str.fedBytes chOps = consumed₂ ++ chRp.input ∧
    chRp.cap = p0.cap ∧ chRp.state = .header ∧ Req.PInv chRp :=
  C05.chain_suffix (p0 := p0) (cs := chCs) (r := req) (sp := chSp) (ops := chOps) (rp := chRp)
    p0_inv trivial legal_A (by unfold chCs; rw [feedAll_A]; rfl) (by unfold chCs; rw [feedAll_A]; rfl)
    (by decide +kernel)
    chRp_eq

/-- What the new request parser holds: the stream parser reports `stream_end` *before* consuming
the empty `Stdin` record (it stays in the buffer, a stale record the request parser skips), then
the 3 bytes of the next record. -/
example : chRp.input = [1, 5, 0, 1, 0, 0, 0, 0, 1, 1, 0] := rfl

end C05

/-! ## C08: order of parse / write / read in `parse_request` -/
section C08
open Fcgi Fcgi.Req Fcgi.Run Fcgi.Async

/-- a connection whose KeepConn request is about to be closed -/
def c8Close : Conn := { phase := .closing (C07.exAReq 1) .start (.complete 0) 0, env := { tr := C07.exTr }, scripts := [] }

/-- `reuse_enters_start`: `close` hands the parser back, the poll goes on in `parseReq … .start`. -/
example : ∃ rp m t, pollConn 5 c8Close =
    pollConn 4 { c8Close with phase := .parseReq rp .start, env := { c8Close.env with mutex := m, tr := t } } :=
  ⟨_, _, _, C08.reuse_enters_start 4 c8Close _ _ _ _ _ _ _ _ _ rfl rfl⟩

/-- a connection with 3 reply bytes to write; the transport takes one byte, then is busy -/
def c8Write : Conn :=
  { phase := .parseReq (Req.Parser.new 0 1) (.writing [1, 2, 3] false),
    env := { tr := { C07.exTr with wr := [.n 1, .pending] } }, scripts := [] }

/-- `output_pending_keeps_rest`: the two unwritten bytes are kept, the poll is `Pending`. -/
example : ∃ t, pollConn 3 c8Write =
    ({ c8Write with phase := .parseReq (Req.Parser.new 0 1) (.writing [2, 3] false),
                    env := { c8Write.env with tr := t } }, .pending) :=
  ⟨_, C08.output_pending_keeps_rest 2 c8Write _ _ _ rfl rfl _ _ rfl⟩

/-- `leftover_is_processed` on the 19-byte cut of `Props/C03Chunk.lean` (leftover `[1, 4, 0]`). -/
example : (run (run .header (C03.Examples.wire.take 19) 1).st (run .header (C03.Examples.wire.take 19) 1).rem 1).out = [] ∧
    (run (run .header (C03.Examples.wire.take 19) 1).st (run .header (C03.Examples.wire.take 19) 1).rem 1).rem =
      (run .header (C03.Examples.wire.take 19) 1).rem :=
  C08.leftover_is_processed C03.Examples.wf_header _ 1

/-- `reachable_inv`: the fresh connection of `Props/C08Inv.lean`, polled, given new transport
scripts and a handler script, polled again. -/
example : C08Inv.CInv (pollConn 7 { (pollConn 4 C08Inv.ex0).1 with
    env := { tr := { C07.exTr with wr := [.pending] } }, scripts := [([.ret (.complete 0)], true)], stop := false }).1 :=
  C08Inv.reachable_inv (b := 0) (mc := 1)
    (.poll 7 (.env _ _ _ (.poll 4 (show C08Inv.Reachable 0 1 C08Inv.ex0 from .init C08Inv.ex0.env [] false))))

end C08

/-! ## C10: no interleaving (plain system: two writers and the request, no clones) -/
section C10
open Fcgi Fcgi.Async Fcgi.C10

/-- stdout and stderr of request 7; the transport accepts 3 bytes, is `Pending` once, then accepts
everything. -/
def niSys : Sys :=
  { writers := [{ rtype := RT.stdout, id := 7 }, { rtype := RT.stderr, id := 7 }],
    req := AReq.new (Str.Parser.fromParser 16 { id := 7, role := 1, flags := 0, env := [] } [] 1),
    mutex := none,
    t := { input := [], endMode := .pend, rd := [], wr := [.n 3, .pending], fl := [] } }

/-- stdout writes "ABCD": 3 header bytes out, `Pending` (mutex held, mid-header); stderr's write of
"XYZ" and the request's `poll_output` wait for the mutex; stdout finishes its record and flushes;
stderr writes its record; `poll_output` again. -/
def niOps : List Op :=
  [.wpoll 0 [0x41, 0x42, 0x43, 0x44], .wpoll 1 [0x58, 0x59, 0x5a], .opoll,
   .wpoll 0 [0x41, 0x42, 0x43, 0x44], .fpoll 0, .wpoll 1 [0x58, 0x59, 0x5a], .opoll]

def wellBehavedb : Ghost → Sys → List Op → Bool
  | _, _, [] => true
  | g, s, op :: ops => opOKb g s op && wellBehavedb (gstep g s op) (step s op) ops

theorem wellBehavedb_sound : ∀ (ops : List Op) (g : Ghost) (s : Sys),
    wellBehavedb g s ops = true → WellBehaved g s ops := by
  intro ops
  induction ops with
  | nil => intro _ _ _; trivial
  | cons op ops ih =>
    intro g s h
    simp only [wellBehavedb, Bool.and_eq_true] at h
    exact ⟨opOKb_sound h.1, ih _ _ h.2⟩

theorem niOwn : OwnInv niSys := by
  refine ⟨fun i w hi => ?_, by unfold Consistent; decide, fun j hj => by cases hj⟩
  match i, hi with
  | 0, hi => cases hi; unfold Consistent; decide
  | 1, hi => cases hi; unfold Consistent; decide
  | n + 2, hi => simp [niSys] at hi

theorem niIdle : ∀ (i : Nat) (w : Writer), niSys.writers[i]? = some w → w.isWriting = false := by
  intro i w hi
  match i, hi with
  | 0, hi => cases hi; rfl
  | 1, hi => cases hi; rfl
  | n + 2, hi => simp [niSys] at hi

theorem niWB : WellBehaved (fun _ => none) niSys niOps := wellBehavedb_sound _ _ _ (by decide)

/-- `no_interleave` after the first three polls: stdout owns the mutex, `cur` is the 3 header bytes
it has written (the second disjunct is the one that holds). -/
example : ∃ cur, (run niSys (niOps.take 3)).t.wlog =
      niSys.t.wlog ++ (completed niSys (niOps.take 3)).flatMap Entry.bytes ++ cur ∧
    (cur = [] ∨ ∃ (i : Nat) (w : Writer) (buf : Bytes),
      (run niSys (niOps.take 3)).mutex = some (i + 1) ∧ (run niSys (niOps.take 3)).writers[i]? = some w ∧
      grun (fun _ => none) niSys (niOps.take 3) i = some buf ∧ WInv w buf cur ∧
      cur <+: recordOf w.rtype w.id (buf.take (min buf.length 65535)) ∧
      cur.length < (recordOf w.rtype w.id (buf.take (min buf.length 65535))).length) :=
  no_interleave niSys (niOps.take 3) niOwn niIdle (wellBehavedb_sound _ _ _ (by decide))

example : (run niSys (niOps.take 3)).t.wlog = [1, 6, 0] ∧ (run niSys (niOps.take 3)).mutex = some 1 ∧
    (completed niSys (niOps.take 3)).flatMap Entry.bytes = [] := by decide

/-- `complete_when_free` for the whole schedule … -/
example : (run niSys niOps).t.wlog = niSys.t.wlog ++ (completed niSys niOps).flatMap Entry.bytes :=
  complete_when_free niSys niOps niOwn niIdle niWB (by decide)

/-- … whose log is stdout's record followed by stderr's record, not interleaved. -/
example : (run niSys niOps).t.wlog =
    recordOf 6 7 [0x41, 0x42, 0x43, 0x44] ++ recordOf 7 7 [0x58, 0x59, 0x5a] := by decide

/-- `exclusion` on the same schedule. -/
example : OwnInv (run niSys niOps) := exclusion niOps niSys niOwn

end C10

/-! ## C14b: the wait group (theorems over `Reach`) -/
section C14b
open Fcgi Fcgi.Runner Fcgi.C14b

def wgOf (n : Nat) (ss : List WStep) : WG := (runSteps (WG.init n) ss).getD (WG.init n)
theorem reach_wgOf (n : Nat) (ss : List WStep) (h : (runSteps (WG.init n) ss).isSome = true) :
    Reach n (wgOf n ss) := by
  refine reach_iff.2 ⟨ss, ?_⟩
  unfold wgOf
  cases hr : runSteps (WG.init n) ss with
  | none => rw [hr] at h; cases h
  | some g => rfl

/-- schedule (b) of `Props/C14b.lean`: the last drop lands between `upgrade` and `register` -/
def schedB : List WStep := [.pollUpgrade, .tokenDec 0, .pollRegister, .pollDropTemp, .pollWake]

/-- `woken_for_completion`: all its hypotheses hold in the state schedule (b) reaches. -/
example : (wgOf 1 schedB).wokenSinceRegister = true :=
  woken_for_completion (reach_wgOf 1 schedB (by decide)) (by unfold AllGone; decide) (by decide)
    (by decide)

/-- `ready_after_all_gone` there: the next poll is Ready. -/
example : wgStep (wgOf 1 schedB) .pollUpgrade = some { wgOf 1 schedB with lastPoll := some true } :=
  ready_after_all_gone (reach_wgOf 1 schedB (by decide)) (by unfold AllGone; decide) (by decide)

/-- `wakeRan_allGone` there. -/
example : AllGone (wgOf 1 schedB) ∧ (wgOf 1 schedB).strong = 0 ∧ (wgOf 1 schedB).pc ≠ .dropped0 :=
  wakeRan_allGone (reach_wgOf 1 schedB (by decide)) (by decide)

/-- `never_early`: two tokens, both decremented (the last `wake()` still outstanding), then a Ready poll. -/
example : ∀ t ∈ (wgOf 2 [.tokenDec 0, .tokenDec 1, .pollUpgrade]).tokens, t ≠ DropPc.alive :=
  never_early (reach_wgOf 2 _ (by decide)) (by decide)

/-- `pending_waker_armed`: one of two tokens dropped, the poll returned Pending and nobody woke it:
the waker is registered, the final `wake()` has not run. -/
example : (wgOf 2 [.tokenDec 0, .pollUpgrade, .pollRegister, .pollDropTemp]).waker = true ∧
    (wgOf 2 [.tokenDec 0, .pollUpgrade, .pollRegister, .pollDropTemp]).wakeRan = false :=
  pending_waker_armed (reach_wgOf 2 _ (by decide)) (by decide) (by decide) (by decide)

/-- `ready_iff_no_alive`, direction ⇐ refuted-by-hypothesis: with a live token the poll is not Ready. -/
example : wgStep (wgOf 2 [.tokenDec 0]) .pollUpgrade ≠ some { wgOf 2 [.tokenDec 0] with lastPoll := some true } :=
  fun h => (ready_iff_no_alive (reach_wgOf 2 [.tokenDec 0] (by decide)) (by decide)).1 h .alive (by decide) rfl

end C14b

/-! ## C12Inv / C12Wf: a failed write is final; the log is a prefix of well-formed records -/
section C12
open Fcgi Fcgi.Req Fcgi.Run Fcgi.Async Fcgi.C12Inv

theorem exCl5_wr : (pollConn 20 exCl5).1.env.tr.wr = [] := by decide +kernel
theorem exCl5_failed : WriteFailed exCl5.env.tr (pollConn 20 exCl5).1.env.tr :=
  Or.inl ⟨[.n 5, .err], by rw [exCl5_wr]; rfl, .err, by simp, rfl⟩

/-- `write_failure_is_final` (poll level; `AllProp`, `WriteFailed`): the transport takes 5 bytes of
the epilogue and then fails. -/
example : (pollConn 20 exCl5).2 = .finished ∧ (pollConn 20 exCl5).1.phase = .finished ∧
    Failed exCl5.env.tr (pollConn 20 exCl5).1.env.tr :=
  write_failure_is_final (c := exCl5) ⟨nofun, rfl⟩ rfl exCl5_failed

/-- `write_failure_log` on the same poll. -/
example : ∃ t1 t2, Clean exCl5.env.tr t1 ∧ FailCall t1 t2 ∧ WSame t2 (pollConn 20 exCl5).1.env.tr ∧
    (pollConn 20 exCl5).1.env.tr.wlog = t1.wlog :=
  write_failure_log (c := exCl5) ⟨nofun, rfl⟩ rfl exCl5_failed

/-- `poll_prefix_wellformed` (`LI`, `AllProp`) on the same poll: the 5-byte log is a prefix of a
well-formed record sequence. -/
example : ∃ (rs : List Spec.Rec) (rest : Bytes), (∀ r ∈ rs, r.WF) ∧
    (pollConn 20 exCl5).1.env.tr.wlog ++ rest = Spec.serAll rs :=
  poll_prefix_wellformed (c := exCl5) exCl5_li ⟨nofun, rfl⟩ rfl

/-- a connection suspended in `reading`; an unknown-type record arrives; the transport is healthy -/
def qRd : Conn :=
  { phase := .parseReq (Req.Parser.new 0 1) .reading,
    env := { tr := { input := unk, endMode := .pend, rd := [], wr := [], fl := [] } }, scripts := [] }

theorem qRd_poll : ∃ c', pollConn 5 qRd = (c', .pending) ∧
    c'.phase = .parseReq (Req.Parser.new 0 1) .reading ∧ c'.env.tr.wlog = UnknownType.toRecord 99 0 := by
  rw [reading_step 4 qRd (Req.Parser.new 0 1) _ _ 1 [99, 0, 0, 0, 0, 0, 0] _ rfl rfl rfl parse_unk]
  exact ⟨_, rfl, rfl, rfl⟩

/-- `log_only_grows_by_records` (`LI`, `AllProp`, `Quiet` before and after): between the two reads
the log grew by exactly one well-formed record (the `UnknownType` reply). -/
example : ∃ c' d rs, pollConn 5 qRd = (c', .pending) ∧ c'.env.tr.wlog = qRd.env.tr.wlog ++ d ∧
    (∀ r ∈ rs, r.WF) ∧ d = Spec.serAll rs ∧ d = UnknownType.toRecord 99 0 := by
  obtain ⟨c', hp, hph, hlog⟩ := qRd_poll
  obtain ⟨d, rs, h1, h2, h3⟩ := log_only_grows_by_records (c := qRd) (by unfold LI; exact ⟨by decide, rfl, Whole.nil⟩)
    ⟨nofun, trivial⟩ ⟨_, Or.inr rfl⟩ hp (fun s h => by cases h) ⟨_, Or.inr hph⟩
  refine ⟨c', d, rs, hp, h1, h2, h3, ?_⟩
  rw [hlog] at h1
  exact (List.nil_append d ▸ h1).symm

end C12

/-! ## C11E2E: the variants not instantiated in `Props/C11E2E.lean` -/
section C11
open Fcgi Fcgi.Req Fcgi.Spec Fcgi.Run Fcgi.Async Fcgi.C11E Fcgi.C11E.Example Fcgi.C07E Fcgi.C07E.Example
open Fcgi.C01.Example

/-- `abort_own_status_e2e` (D): the run (B) of `Props/C11E2E.lean` with a handler that ignores the
failed read and returns its own status 3. -/
example : ∃ c' O₁ O₂, runTask 20 (connS 64 10 bT [([.readAll, .ret (.complete 3)], false)]) 0 none = (c', "RET") ∧
    O₁ ++ O₂ = owedStream 1 5 10 bS ∧
    c'.env.tr.wlog = bT.wlog ++ (owedPreamble preN 10 recsN ++ O₁ ++ O₂ ++ epilogue 1 (.complete 3)) ∧
    c'.phase = .finished ∧ hsCount c'.env.tr.events = 1 ∧ AbortedOutcome preN [65, 66] c' :=
  abort_own_status_e2e (p := preN) (recs := recsN) (c1 := [65, 66]) (body := bS) (a := ab) (tail := [9, 9, 9])
    (b := 64) (mc := 10) (st := .complete 3) (t := bT) (fuel := 20)
    recsN_wf rfl (by decide) (fun q hq => by cases hq) (no_getValues_fits (by decide)) bS_body bS_fits ab_is rfl
    ⟨by decide, by decide, rfl, by decide⟩ rfl (by decide) (by decide +kernel) (by decide)

/-- `AbortRequest(2)`: for another request -/
def fab : Rec := { rtype := 2, id := 2, content := [], pad := [] }
theorem fab_is : ForeignAbort 1 fab := ⟨rfl, by decide, by decide, by decide, by decide⟩

def faT : Transport :=
  { input := serAll recs ++ serAll (exS.take 2 ++ fab :: exS.drop 2), endMode := .pend,
    rd := [.n 10, .pending, .n 7, .all, .n 3], wr := [.n 5, .pending, .all, .n 1], fl := [] }

/-- `foreign_abort_ignored_e2e` (C): the single-request run of `Props/C07E2E.lean` with
`AbortRequest(2)` inserted before the end of `Stdin`. -/
example : ∃ c' fin O₁ O₂, runTask 20 (conn0 64 10 faT [104, 105] (.complete 0)) 0 none = (c', fin) ∧
    O₁ ++ O₂ = owedStream 1 5 10 (exS.take 2 ++ exS.drop 2) ∧
    OutcomeN pre [65, 66, 67] 64 10 faT.wlog (expectedLogN pre recs 10 [104, 105] (.complete 0) O₁ O₂) faT c' fin :=
  foreign_abort_ignored_e2e (p := pre) (recs := recs) (content := [65, 66, 67]) (s1 := exS.take 2)
    (s2 := exS.drop 2) (f := fab) (b := 64) (mc := 10) (data := [104, 105]) (st := .complete 0) (t := faT)
    (fuel := 20) recs_wf rfl (pre_pairs_fit 64) (noise_fits 64)
    (by rw [List.take_append_drop]; exact exS_ok) (by decide)
    (by rw [List.take_append_drop]; exact exS_fits _) fab_is rfl
    ⟨by decide, by decide, rfl, by decide⟩ rfl (by decide) (by decide +kernel) (by decide)

end C11

/-! ## C12Fuel: a poll that does panic — the panic is a real site of the crate -/
section C12Fuel
open Fcgi Fcgi.Req Fcgi.Run Fcgi.Async

/-- a Filter handler opens `stdout` before any `Data` arrived (`Props/C09E2E.lean`, (e)) -/
def pnC : Conn := { phase := .handler C09E.exF { ops := [.open_ 6] }, env := { tr := C09E.exT1 }, scripts := [] }

theorem pnC_poll : ∃ c', pollConn (connFuel pnC) pnC = (c', .panic "async_io:324 output_stream assertion") :=
  ⟨_, rfl⟩

/-- `run_panics_are_code_panics` with its hypothesis `pollConn … = (c', .panic s)` met. -/
example : RealSite "async_io:324 output_stream assertion" ∧
    "async_io:324 output_stream assertion" ∉ fuelMsgs := by
  obtain ⟨c', h⟩ := pnC_poll
  rcases C12Fuel.run_panics_are_code_panics pnC trivial h with h1 | ⟨h1, h2, -⟩
  · exact absurd h1 (by decide)
  · exact ⟨h1, h2⟩

/-- `pollConn_connFuel` / `pollConn_no_fuel_panic` on a connection in a non-initial phase
(`ConnWF` is `WFState` of the request parser in `parse_request`, `True` elsewhere). -/
example : (pollConn (connFuel NonVacuity.qRd) NonVacuity.qRd).2 ≠ .panic "model: connection fuel exhausted" :=
  C12Fuel.pollConn_connFuel _ (show WFState Req.State.header from trivial)

end C12Fuel

/-! ## C03 (stream parser, hostile input) and C04Hostile: the "at any time" statements -/
section C03Str
open Fcgi Fcgi.Str Fcgi.Spec Fcgi.C03SI

/-- `prefix_sim` on the hostile wire of `Props/C03StrInv.lean`, history 2 cut after 2 operations. -/
example : ¬ PanicsAny hP (hOps2.take 2) ∧ availOps hP (hOps2.take 2) <+: (refWire hE hWire).content ∧
    deliveredOps hP (hOps2.take 2) <+: (refWire hE hWire).content ∧
    C03S.grownAll hP (hOps2.take 2) <+: (refWire hE hWire).out :=
  prefix_sim hStart (hOps2.take 2) (by decide +kernel) (fun s h => by simp [hOps2] at h) hWire
    (by decide +kernel)

/-- `drained_outcome` on history 2. -/
example : outcome hP hOps2 = refOutcome hE (hP.raw ++ fedBytes hOps2) :=
  (drained_outcome hStart hOps2 hLegal2 hNoSet2 hDrained2).1

/-- `stream_output_prefix` (C04Hostile): the first three operations of history 2 there. -/
example : C03S.grownAll C04H.sP (C04H.sOps2.take 3) <+: C04H.streamReplies C04H.sE C04H.sWire :=
  C04H.stream_output_prefix C04H.sStart (C04H.sOps2.take 3) (by decide +kernel)
    (fun s h => by simp [C04H.sOps2] at h) C04H.sWire (by decide +kernel)

/-- `stream_output_exact_switch` (C04Hostile) on the Filter histories of `Props/C03StrSet.lean`. -/
example : C03S.grownAll C03SS.fP (C03SS.fA1 ++ [.setStream (some 8)] ++ C03SS.fB1) =
    (switchRef (C03SS.fE.withStream 8)
      (refWire C03SS.fE (C03SS.fP.raw ++ fedBytes (C03SS.fA1 ++ [.setStream (some 8)] ++ C03SS.fB1)))).out :=
  C04H.stream_output_exact_switch C03SS.fStart C03SS.fTwo1 C03SS.fDr1

end C03Str

/-! ## C07 / C11 / C14a: function-level theorems whose hypothesis is the result of a poll -/
section Polls
open Fcgi Fcgi.Req Fcgi.Run Fcgi.Async

/-- `close_writes_epilogue` (C07): hypothesis `closePoll … = (…, .reuse rp)` met by the KeepConn close
of `Props/C07.lean`. -/
example : ∃ r' m' t' rp X r2,
    closePoll (C07.exAReq 1) .start (.complete 0) 0 none C07.exTr = (r', .writeEnd [], m', t', .reuse rp) ∧
    r2.sp.request = (C07.exAReq 1).sp.request ∧
    t'.wlog = C07.exTr.wlog ++ X ++ r2.sp.output ++ epilogueOf r2 (.complete 0) ∧
    rp = Req.Parser.fromParser r'.sp.cap r'.sp.raw r'.sp.maxConns := by
  obtain ⟨r', m', t', rp, h⟩ : ∃ r' m' t' rp, closePoll (C07.exAReq 1) .start (.complete 0) 0 none C07.exTr =
      (r', .writeEnd [], m', t', .reuse rp) := ⟨_, _, _, _, rfl⟩
  obtain ⟨X, r2, h1, h2, -, -, h5⟩ := C07.close_writes_epilogue h rfl
  exact ⟨r', m', t', rp, X, r2, h, h1, h2, h5⟩

/-- `reuse_next` (C07) on the connection `c8Close` above. -/
example : ∃ rp m t, stepConn c8Close =
    .next { c8Close with phase := .parseReq rp .start, env := { c8Close.env with mutex := m, tr := t } } :=
  ⟨_, _, _, C07.reuse_next c8Close _ _ _ _ _ _ _ _ _ rfl rfl⟩

/-- `close_ignores_aborted_writeable` (C11): hypothesis `writeable() = Err(ConnectionAborted)` met by
the Filter request of `Props/C09.lean` whose `Data` stream is cut by an `AbortRequest`. -/
example : ∃ r1 m1 t1, closeP1 C09.cxR1 .start none C09.cxT = .ok (r1, m1, t1, .start) := by
  have h : (C09.cxR1.writeablePoll false none C09.cxT).2.2.2.2 = .err .abortRequest := by decide +kernel
  have hw : C09.cxR1.writeablePoll (CloseSt.start == CloseSt.inWriteable) none C09.cxT =
      ((C09.cxR1.writeablePoll false none C09.cxT).1, (C09.cxR1.writeablePoll false none C09.cxT).2.1,
        (C09.cxR1.writeablePoll false none C09.cxT).2.2.1, (C09.cxR1.writeablePoll false none C09.cxT).2.2.2.1,
        .err .abortRequest) := by
    rw [← h]; rfl
  exact ⟨_, _, _, (C11.close_ignores_aborted_writeable C09.cxR1 .start (.complete 0) 0 none C09.cxT _ _ _ _
    (Or.inl rfl) hw).1⟩

/-- `no_new_handler_after_stop` (C14a) on the idle connection with the flag raised. -/
example : ∃ new, (pollConn 5 C14a.exIdle).1.env.tr.events = C14a.exIdle.env.tr.events ++ new ∧
    hsCount new = 0 ∧ (pollConn 5 C14a.exIdle).1.scripts = C14a.exIdle.scripts :=
  C14a.no_new_handler_after_stop 5 C14a.exIdle rfl

/-- `in_flight_runs_on'` (C14a): a `close` whose final write is pending, polled with and without the
flag. -/
example : ∃ c' : Conn, pollConn 10 { C14a.exInClose with stop := true } = ({ c' with stop := true }, .pending) :=
  ⟨_, C14a.in_flight_runs_on' 10 C14a.exInClose _ .pending rfl (by decide +kernel) (by decide +kernel)⟩

end Polls

/-! ## C13: the premises inside the conclusions of `no_stranded` / `notified_woken` -/
section C13
open Fcgi Fcgi.Runner Fcgi.C13

/-- `no_stranded` on `hist1` of `Props/C13.lean` (a permit is free, two futures hold listeners): both
premises of its conclusion hold, so the conclusion is not void. -/
example : ∃ i id, Owner (run (Sys.init 1) hist1).acqs i id ∧
    (id, LState.notified) ∈ (run (Sys.init 1) hist1).sem.entries ∧ id ∈ (run (Sys.init 1) hist1).sem.wakes :=
  no_stranded 1 hist1 (by decide) ⟨1, 0, by unfold Owner; decide⟩

/-- `notified_woken` there. -/
example : 0 ∈ (run (Sys.init 1) hist1).sem.wakes := notified_woken 1 hist1 (id := 0) (by decide)

/-- `woken_waiter_acquires` there: the woken waiter (future 1) polls and gets the permit. -/
example : (step (run (Sys.init 1) hist1) (.poll 1)).live = (run (Sys.init 1) hist1).live + 1 :=
  woken_waiter_acquires (id := 0) (by unfold Owner; decide) (by decide)

end C13

/-! ## C12E2E2: the read fails inside the preamble -/
section C12E
open Fcgi Fcgi.Req Fcgi.Str Fcgi.Async Fcgi.Run Fcgi.Spec Fcgi.E2E Fcgi.C07E Fcgi.C12E

/-- the wire of `C01.Example` cut after 37 bytes, then the transport reports a read error -/
def reT : Transport :=
  { input := (serAll C01.Example.recs ++ []).take 37, endMode := .err, rd := [.n 3, .pending, .n 20],
    wr := [.n 2, .pending], fl := [] }

/-- `read_err_in_preamble_e2e` (`BenE`, end mode `err`): no handler, the reply owed so far written,
the task returns. -/
example : ∃ c', runTask 6 (connS 64 10 reT []) 0 none = (c', "RET") ∧ c'.phase = .finished ∧
    hsCount c'.env.tr.events = 0 ∧ c'.env.tr.wlog <+: owedPreamble C01.Example.pre 10 C01.Example.recs := by
  obtain ⟨c', h1, h2, _, h4, _, h6, h7⟩ := read_err_in_preamble_e2e (p := C01.Example.pre)
    (recs := C01.Example.recs) [] 64 10 37 [] reT 6 C01.Example.recs_wf (C01.Example.pre_pairs_fit 64)
    (C01.Example.noise_fits 64) (by decide +kernel) rfl ⟨by decide, by decide, rfl⟩ rfl (by decide)
    (by decide +kernel)
  exact ⟨c', h1, h2, h4, by rw [h6]; exact h7⟩

end C12E

/-! ## C03Str: error states are sticky; C09E2E: reading scripts never fail -/
section C03S
open Fcgi Fcgi.Str Fcgi.Run Fcgi.C03S

theorem ex_err : ex.parse exInput none = ((ex.parse exInput none).1, .err (.unknownVersion 2)) := by
  have h2 : (ex.parse exInput none).2 = .err (.unknownVersion 2) := by decide +kernel
  rw [← h2]

/-- `err_enters`: the hypothesis `parse … = (p', .err e)` met by the example of `Props/C03Str.lean`. -/
theorem ex_errState : ErrState (ex.parse exInput none).1 (.unknownVersion 2) :=
  err_enters (fromParser_inv _ _ _ _ (by decide) (by decide)) (Or.inl rfl) (by decide +kernel) ex_err

/-- `err_sticky_trace` (`ErrState`, `LegalAll`): whatever the caller does next, the error stays. -/
example : ErrState (applyOps (ex.parse exInput none).1
    [.parse [1, 5, 0, 1] none, .compress, .consumeOutput 40, .parse [] (some 3)]) (.unknownVersion 2) :=
  err_sticky_trace ex_errState (by decide +kernel)

/-- `reads_never_fail` (C09E2E; `RCtx.OK`, `RdSt`, `Ben`) on the reading script of `Props/C09E2E.lean`. -/
example : (∀ x, (handlerPoll 50 C09E.exR { ops := C09E.exScript } { tr := C09E.exT }).2.2.2 ≠ .done (.error x)) ∧
    (∀ s, (handlerPoll 50 C09E.exR { ops := C09E.exScript } { tr := C09E.exT }).2.2.2 = .panic s →
      s = "model: handler fuel exhausted") :=
  C09E.reads_never_fail C09E.exK_ok 50 C09E.ex_rdst rfl

end C03S

/-! ## C09: `writeable()` on a request that is not yet writeable -/
section C09
open Fcgi Fcgi.Async Fcgi.Run

/-- one read delivers `Data(id 1, "AB")` (6 padding bytes) -/
def wT : Transport :=
  { input := [1, 8, 0, 1, 0, 2, 0, 0, 65, 66, 0, 0, 0, 0, 0, 0], endMode := .pend, rd := [], wr := [], fl := [] }

/-- `writeable_ready_sets_flag_partial` (`AInv`, `LockInv`, `WriteableInv`, result `Ready`): the Filter
request of `Props/C09.lean` (`Data` selected, NOT writeable) becomes writeable when `Data` bytes arrive. -/
example : C09.cxR1.writeable = false ∧ (C09.cxR1.writeablePoll false none wT).1.writeable = true := by
  have h : (C09.cxR1.writeablePoll false none wT).2.2.2.2 = .ready := by decide +kernel
  have hw : C09.cxR1.writeablePoll false none wT =
      ((C09.cxR1.writeablePoll false none wT).1, (C09.cxR1.writeablePoll false none wT).2.1,
        (C09.cxR1.writeablePoll false none wT).2.2.1, (C09.cxR1.writeablePoll false none wT).2.2.2.1, .ready) := by
    rw [← h]
  obtain ⟨h1, h2, h3, h4, -⟩ := C09.cx_setup
  exact ⟨h4, C09.writeable_ready_sets_flag_partial h1 h2 h3 (fun h => by cases h) hw⟩

end C09

end Fcgi.NonVacuity
