import Fcgi.Props.C12Chain
import Fcgi.Props.C12NoFuel
import Fcgi.Props.C07NoFuel6

/-!
# C12 — faults in the last request of a keep-alive chain, without the last request's cost hypothesis

`eof_in_last_request_e2e_nofuel`, `read_err_in_last_request_e2e_nofuel` = the theorems of `Props/C12Chain.lean` minus
`hhf : wcost |data| + 12 ≤ 1000` (the cost bound of the LAST request's handler): `eof_any_offset_e2e_hn` is
`eof_any_offset_e2e_h` over the no-fuel engines (`Proofs/E2ETrunc2NF.lean`); the composition (`last_leg`, `chain_prefix`)
is unchanged.  The `…_okn` versions take the `k` earlier requests as `UReq.OKn` (`Props/C07NoFuel6.lean`): no cost hypothesis at all.
-/
namespace Fcgi.C12E
open Fcgi Fcgi.Req Fcgi.Str Fcgi.Async Fcgi.Run Fcgi.Spec Fcgi.E2E Fcgi.C07E Fcgi.C07U Fcgi.C12Inv Fcgi.EofErr

/-- `eof_in_terminator_e2e_h` without `hhf`. -/
theorem eof_in_terminator_e2e_hn {p : Preamble} {recs : List Rec} {content : Bytes} {srecs : List Rec}
    {b mc : Nat} {data : Bytes} {st : ExitStatus} {t : Transport} {fuel : Nat} (h0 k : Nat)
    (hwf : WellFormedPreamble p recs) (hrole : p.role = 1)
    (hpairs : ∀ q ∈ p.pairs, (NV.enc q).length ≤ alignedBufsize b)
    (hnoise : NoiseFits (alignedBufsize b) recs)
    (hs : StreamRecs p.id 5 content srecs) (hsn : NoiseFits (alignedBufsize b) srecs)
    (hk : (serAll recs).length + (serAll srecs.dropLast).length + 8 ≤ k)
    (hlt : k < (serAll recs ++ serAll srecs).length)
    (hin : t.input = (serAll recs ++ serAll srecs).take k) (hben : Ben t) (hem : t.endMode = .eof)
    (hev : hsCount t.events = h0) (hfuel : t.rd.length + t.wr.length + 1 ≤ fuel) :
    ∃ c' O₁ O₂, runTask fuel (conn0 b mc t data st) 0 none = (c', "RET") ∧
      O₁ ++ O₂ = owedStream p.id 5 mc srecs ∧ c'.phase = .finished ∧
      c'.env.tr.wlog = t.wlog ++ expectedLogN p recs mc data st O₁ O₂ ∧
      hsCount c'.env.tr.events = h0 + 1 ∧ startEvent p.request ∈ c'.env.tr.events ∧
      readEvent content ∈ c'.env.tr.events := by
  obtain ⟨body, pad, res, hpad, hbody, hsrecs⟩ := Str.StreamRecs.split hs
  have hdl : srecs.dropLast = body := by rw [hsrecs]; exact List.dropLast_concat
  rw [hdl] at hk
  have hsb : NoiseFits (alignedBufsize b) body := fun r hr => hsn r (by rw [hsrecs]; simp [hr])
  have ok : (cfgR p recs content body pad res b mc data st t.wlog h0 []).OKn :=
    ⟨hwf, hpairs, hnoise, .responderU hrole hbody hsb hpad rfl rfl rfl rfl rfl rfl⟩
  have hser : serAll srecs = serAll body ++ (trec 5 p.id pad res).ser := by
    rw [hsrecs, C02.serAll_append, C02.serAll_single]; rfl
  rw [hser] at hin hlt
  obtain ⟨n, rfl⟩ : ∃ n, k = (serAll recs).length + ((serAll body).length + n) :=
    ⟨k - (serAll recs).length - (serAll body).length, by omega⟩
  have h8 : 8 ≤ n := by omega
  have hn : n < (trec 5 p.id pad res).ser.length := by
    simp only [List.length_append] at hlt; omega
  rw [take_add_append, take_add_append] at hin
  have ok2 := cfg2_cutN ok hrole h8 hn
  have hstage : Stage (cutCfg (cfgR p recs content body pad res b mc data st t.wlog h0 []) n)
      (conn0 b mc t data st) :=
    .start (raw := []) rfl (by show [] ++ t.input = _; rw [hin]; rfl) (Nat.zero_le _) rfl hben rfl rfl rfl hev
  obtain ⟨c', O1, O2, hO, hrun, hfin⟩ := run_from_stage2N' ok2 (ans t) (conn0 b mc t data st) 0 fuel hstage hem rfl
    (Nat.le_refl _) (by unfold ans; omega)
  have hOt : owedStream p.id 5 mc srecs = owedStream p.id 5 mc body := by
    rw [hsrecs, owedStream_append, owedStream_term p.id 5 mc _ rfl, List.append_nil]
  have hlog : c'.env.tr.wlog = (cfgR p recs content body pad res b mc data st t.wlog h0 []).L3 O1 O2 := hfin.log
  rw [L3_eq] at hlog
  have hev1 : hsCount c'.env.tr.events = h0 + 1 ∧ hsEvent p.request ∈ c'.env.tr.events := hfin.ev
  exact ⟨c', O1, O2, hrun, hO.trans hOt.symm, hfin.ph, hlog, hev1.1, hev1.2,
    hfin.re _ (by show rEvent content ∈ [rEvent content]; simp)⟩

/-- `eof_any_offset_e2e_h` without `hhf`. -/
theorem eof_any_offset_e2e_hn {p : Preamble} {recs : List Rec} {content : Bytes} {srecs : List Rec}
    {b mc : Nat} {data : Bytes} {st : ExitStatus} {t : Transport} {fuel : Nat} (h0 k : Nat)
    (hwf : WellFormedPreamble p recs) (hrole : p.role = 1)
    (hpairs : ∀ q ∈ p.pairs, (NV.enc q).length ≤ alignedBufsize b)
    (hnoise : NoiseFits (alignedBufsize b) recs)
    (hs : StreamRecs p.id 5 content srecs) (hsn : NoiseFits (alignedBufsize b) srecs)
    (hlt : k < (serAll recs ++ serAll srecs).length)
    (hin : t.input = (serAll recs ++ serAll srecs).take k) (hben : Ben t) (hem : t.endMode = .eof)
    (hev : hsCount t.events = h0) (hfuel : t.rd.length + t.wr.length + 1 ≤ fuel) :
    ∃ c' O₁ O₂, runTask fuel (conn0 b mc t data st) 0 none = (c', "RET") ∧ c'.phase = .finished ∧
      O₁ ++ O₂ = owedStream p.id 5 mc srecs ∧
      -- the log is a byte prefix of a complete log
      (∃ w, c'.env.tr.wlog = t.wlog ++ w ∧ w <+: expectedLogN p recs mc data st O₁ O₂) ∧
      -- at most one handler start; none for an incomplete preamble
      hsCount c'.env.tr.events ≤ h0 + 1 ∧
      (k < (serAll recs).length → hsCount c'.env.tr.events = h0) ∧
      ((serAll recs).length ≤ k → hsCount c'.env.tr.events = h0 + 1 ∧ startEvent p.request ∈ c'.env.tr.events) ∧
      -- a `readAll` that cannot be completed fails with `UnexpectedEof`, after a prefix of the content
      ((serAll recs).length ≤ k → k < (serAll recs).length + (serAll srecs.dropLast).length + 8 →
        ∃ C, C <+: content ∧ readEofEvent C ∈ c'.env.tr.events ∧ handlerEofEvent ∈ c'.env.tr.events) ∧
      -- behind the header of the terminating record: everything is read, everything is answered
      ((serAll recs).length + (serAll srecs.dropLast).length + 8 ≤ k →
        readEvent content ∈ c'.env.tr.events ∧
        c'.env.tr.wlog = t.wlog ++ expectedLogN p recs mc data st O₁ O₂) := by
  by_cases h1 : k < (serAll recs).length
  · -- inside the preamble
    obtain ⟨c', hrun, hph, _, hhs, _, hlog, hpre⟩ := eof_in_preamble_e2e_partial_unbounded (p := p) (recs := recs) (serAll srecs)
      b mc k [(canonical data st, true)] t fuel hwf hpairs hnoise h1 hin hben hem hfuel
    refine ⟨c', owedStream p.id 5 mc srecs, [], hrun, hph, List.append_nil _, ⟨_, hlog, ?_⟩, by omega,
      fun _ => hhs.trans hev, fun h => by omega, fun h => by omega, fun h => by omega⟩
    refine hpre.trans ?_
    simp only [expectedLogN, List.append_assoc]
    exact List.prefix_append _ _
  · by_cases h2 : k < (serAll recs).length + (serAll srecs.dropLast).length + 8
    · -- inside the stream, in front of the 8th byte of the terminating record
      obtain ⟨j, rfl⟩ : ∃ j, k = (serAll recs).length + j := ⟨k - (serAll recs).length, by omega⟩
      rw [take_add_append] at hin
      obtain ⟨c', C, O, hrun, hph, _, hC, hO, hlog, hhs, hst, hre, hhe⟩ := eof_mid_stream_e2e_body_unbounded
        (p := p) (recs := recs) (srecs := srecs) (content := content) ((serAll srecs).take j) b mc data st t fuel
        hwf hrole hpairs hnoise hs hsn (List.take_prefix _ _)
        (by have := List.length_take_le j (serAll srecs); omega) hin hben hem hfuel
      have hhs1 : hsCount c'.env.tr.events = h0 + 1 := by rw [hhs, hev]
      refine ⟨c', owedStream p.id 5 mc srecs, [], hrun, hph, List.append_nil _,
        ⟨owedPreamble p mc recs ++ O, by rw [hlog, List.append_assoc], ?_⟩, by omega,
        fun h => by omega, fun _ => ⟨hhs1, hst⟩, fun _ _ => ⟨C, hC, hre, hhe⟩, fun h => by omega⟩
      obtain ⟨z, hz⟩ := hO
      simp only [expectedLogN, List.append_assoc, ← hz]
      exact ⟨z ++ (streamRecords 6 p.id data ++ ([] ++ epilogue p.id st)), by simp only [List.append_assoc]⟩
    · -- behind the header of the terminating record
      obtain ⟨c', O1, O2, hrun, hO, hph, hlog, hhs, hst, hre⟩ := eof_in_terminator_e2e_hn (data := data) (st := st)
        (fuel := fuel) h0 k hwf hrole hpairs hnoise hs hsn (by omega) hlt hin hben hem hev hfuel
      exact ⟨c', O1, O2, hrun, hph, hO, ⟨_, hlog, List.prefix_refl _⟩, by omega, fun h => by omega,
        fun _ => ⟨hhs, hst⟩, fun _ h => by omega, fun _ => ⟨hre, hlog⟩⟩

/-- `eof_in_last_request_e2e` without `hhf`. -/
theorem eof_in_last_request_e2e_nofuel {b mc : Nat} (x : UReq) (xs : List UReq) {p : Preamble} {recs : List Rec}
    {content : Bytes} {srecs : List Rec} {data : Bytes} {st : ExitStatus} {t : Transport} {fuel : Nat} (j : Nat)
    (hok : ∀ y ∈ x :: xs, y.OKu b) (hleft : ((x :: xs).getLast (by simp)).left = [])
    (hwf : WellFormedPreamble p recs) (hrole : p.role = 1)
    (hpairs : ∀ q ∈ p.pairs, (NV.enc q).length ≤ alignedBufsize b)
    (hnoise : NoiseFits (alignedBufsize b) recs)
    (hs : StreamRecs p.id 5 content srecs) (hsn : NoiseFits (alignedBufsize b) srecs)
    (hj : j < (serAll recs ++ serAll srecs).length)
    (hin : t.input = x.wire) (hben : Ben t) (hem : t.endMode = .pend) (hev : hsCount t.events = 0)
    (hfuel : t.rd.length + t.wr.length + 1 ≤ fuel) :
    ∃ c₁ A c' O₁ O₂,
      -- the first `k` requests: served, the task parked
      closedLoop fuel (xs.map UReq.wire) (connS b mc t ((x :: xs).map UReq.handler ++ [(canonical data st, true)])) 0 =
        (c₁, "STALL") ∧
      SegsAll mc (x :: xs) A ∧ c₁.env.tr.wlog = t.wlog ++ A ∧ hsCount c₁.env.tr.events = (x :: xs).length ∧
      Waiting (alignedBufsize b) mc [] (t.wlog ++ A) [(canonical data st, true)] (x :: xs).length
        (evsAfter ((x :: xs).map (UReq.spec mc)) []) (ans t) c₁ ∧
      -- the cut request
      runTask fuel (feedEnd c₁ ((serAll recs ++ serAll srecs).take j) .eof) 0 none = (c', "RET") ∧
      c'.phase = .finished ∧ O₁ ++ O₂ = owedStream p.id 5 mc srecs ∧
      (∃ w, c'.env.tr.wlog = t.wlog ++ A ++ w ∧ w <+: expectedLogN p recs mc data st O₁ O₂) ∧
      (j < (serAll recs).length → hsCount c'.env.tr.events = (x :: xs).length) ∧
      ((serAll recs).length ≤ j → hsCount c'.env.tr.events = (x :: xs).length + 1 ∧
        startEvent p.request ∈ c'.env.tr.events) ∧
      ((serAll recs).length ≤ j → j < (serAll recs).length + (serAll srecs.dropLast).length + 8 →
        ∃ C, C <+: content ∧ readEofEvent C ∈ c'.env.tr.events ∧ handlerEofEvent ∈ c'.env.tr.events) ∧
      ((serAll recs).length + (serAll srecs.dropLast).length + 8 ≤ j →
        readEvent content ∈ c'.env.tr.events ∧
        c'.env.tr.wlog = t.wlog ++ A ++ expectedLogN p recs mc data st O₁ O₂) := by
  obtain ⟨c₁, A, hrun, hseg, hw⟩ := chain_prefix (mc := mc) x xs [(canonical data st, true)] hok hleft hin hben hem hev hfuel
  obtain ⟨f, rfl⟩ : ∃ f, fuel = f + 1 := ⟨fuel - 1, by omega⟩
  have hleg := last_leg hw ((serAll recs ++ serAll srecs).take j) .eof f 0
  have hb' : Ben (lastT c₁ ((serAll recs ++ serAll srecs).take j) .eof) :=
    ⟨hw.ben.rd, hw.ben.wr, hw.ben.hold, by show EndMode.eof ≠ EndMode.err; decide⟩
  have hans := hw.ans
  have hf' : (lastT c₁ ((serAll recs ++ serAll srecs).take j) .eof).rd.length +
      (lastT c₁ ((serAll recs ++ serAll srecs).take j) .eof).wr.length + 1 ≤ f + 1 := by
    have : ans c₁.env.tr ≤ ans t := hans
    unfold ans at this
    show c₁.env.tr.rd.length + c₁.env.tr.wr.length + 1 ≤ f + 1
    omega
  obtain ⟨c', O1, O2, h1, h2, h3, ⟨w, hw1, hw2⟩, _, h6, h7, h8, h9⟩ :=
    eof_any_offset_e2e_hn (data := data) (st := st) (b := b) (mc := mc)
      (t := lastT c₁ ((serAll recs ++ serAll srecs).take j) .eof) (fuel := f + 1) (x :: xs).length j
      hwf hrole hpairs hnoise hs hsn hj rfl hb' rfl hw.hs hf'
  have hlog0 : (lastT c₁ ((serAll recs ++ serAll srecs).take j) .eof).wlog = t.wlog ++ A := hw.log
  rw [hlog0] at hw1 h9
  refine ⟨c₁, A, c', O1, O2, hrun, hseg, hw.log, hw.hs, hw, ?_, h2, h3, ⟨w, hw1, hw2⟩, h6, h7, h8, h9⟩
  rw [hleg]
  exact h1

/-- `read_err_in_last_request_e2e` without `hhf`. -/
theorem read_err_in_last_request_e2e_nofuel {b mc : Nat} (x : UReq) (xs : List UReq) {p : Preamble} {recs : List Rec}
    {content : Bytes} {srecs : List Rec} {data : Bytes} {st : ExitStatus} {t : Transport} {fuel : Nat} (j : Nat)
    (hok : ∀ y ∈ x :: xs, y.OKu b) (hleft : ((x :: xs).getLast (by simp)).left = [])
    (hwf : WellFormedPreamble p recs) (hrole : p.role = 1)
    (hpairs : ∀ q ∈ p.pairs, (NV.enc q).length ≤ alignedBufsize b)
    (hnoise : NoiseFits (alignedBufsize b) recs)
    (hs : StreamRecs p.id 5 content srecs) (hsn : NoiseFits (alignedBufsize b) srecs)
    (hj : j < (serAll recs ++ serAll srecs).length)
    (hin : t.input = x.wire) (hben : Ben t) (hem : t.endMode = .pend) (hev : hsCount t.events = 0)
    (hfuel : t.rd.length + t.wr.length + 1 ≤ fuel) :
    ∃ c₁ A ce c' O₁ O₂,
      closedLoop fuel (xs.map UReq.wire) (connS b mc t ((x :: xs).map UReq.handler ++ [(canonical data st, true)])) 0 =
        (c₁, "STALL") ∧
      SegsAll mc (x :: xs) A ∧ c₁.env.tr.wlog = t.wlog ++ A ∧
      runTask fuel (feedEnd c₁ ((serAll recs ++ serAll srecs).take j) .eof) 0 none = (ce, "RET") ∧
      runTask fuel (feedEnd c₁ ((serAll recs ++ serAll srecs).take j) .err) 0 none = (c', "RET") ∧
      c'.phase = .finished ∧ c'.env.tr.wlog = ce.env.tr.wlog ∧
      hsCount c'.env.tr.events = hsCount ce.env.tr.events ∧
      O₁ ++ O₂ = owedStream p.id 5 mc srecs ∧
      (∃ w, c'.env.tr.wlog = t.wlog ++ A ++ w ∧ w <+: expectedLogN p recs mc data st O₁ O₂) ∧
      (j < (serAll recs).length → hsCount c'.env.tr.events = (x :: xs).length) ∧
      ((serAll recs).length ≤ j → hsCount c'.env.tr.events = (x :: xs).length + 1) := by
  obtain ⟨c₁, A, ce, O1, O2, hrun, hseg, hlog, _, hw, hre, hph, hO, ⟨w, hw1, hw2⟩, h6, h7, _, _⟩ :=
    eof_in_last_request_e2e_nofuel (mc := mc) x xs (data := data) (st := st) j hok hleft hwf hrole hpairs hnoise hs hsn hj hin hben hem hev
      hfuel
  have hp : AllProp (feedEnd c₁ ((serAll recs ++ serAll srecs).take j) .eof) := by
    obtain ⟨phase, env, scripts, stop⟩ := c₁
    have h1 := hw.ph
    have h3 := hw.sc
    simp only at h1 h3
    subst h1 h3
    exact ⟨fun s hs => by
      simp only [feedEnd, List.mem_singleton] at hs
      subst hs; rfl, trivial⟩
  obtain ⟨c', hr, a1, a2, a3, _, _, _, _⟩ := eof_err_lift hp rfl hre
  exact ⟨c₁, A, ce, c', O1, O2, hrun, hseg, hlog, hre, hr, a1.trans hph, a2, a3, hO,
    ⟨w, a2.trans hw1, hw2⟩, fun h => a3.trans (h6 h), fun h => a3.trans (h7 h).1⟩
/-- `chain_prefix` over `UReq.OKn`: no cost hypothesis at all. -/
theorem chain_prefix_n {b mc : Nat} (x : UReq) (xs : List UReq) (sc : List (List HOp × Bool)) {t : Transport} {fuel : Nat}
    (hok : ∀ y ∈ x :: xs, y.OKn b) (hleft : ((x :: xs).getLast (by simp)).left = [])
    (hin : t.input = x.wire) (hben : Ben t) (hem : t.endMode = .pend) (hev : hsCount t.events = 0)
    (hfuel : t.rd.length + t.wr.length + 1 ≤ fuel) :
    ∃ c₁ A, closedLoop fuel (xs.map UReq.wire) (connS b mc t ((x :: xs).map UReq.handler ++ sc)) 0 = (c₁, "STALL") ∧
      SegsAll mc (x :: xs) A ∧
      Waiting (alignedBufsize b) mc [] (t.wlog ++ A) sc (x :: xs).length
        (evsAfter ((x :: xs).map (UReq.spec mc)) []) (ans t) c₁ := by
  have hstart : StartAt (alignedBufsize b) mc [] t.wlog (((x :: xs).map (UReq.spec mc)).map RSpec.handler ++ sc) 0 [] (ans t)
      ((UReq.spec mc x).W) (connS b mc t ((x :: xs).map UReq.handler ++ sc)) := by
    refine Or.inr ⟨rfl, rfl, hin, rfl, hben, rfl, ?_, rfl, hev, (fun _ hs => nomatch hs), rfl, hem, Nat.le_refl _⟩
    show (x :: xs).map UReq.handler ++ sc = _
    rw [List.map_map]; rfl
  obtain ⟨c', A, hrun, hseg, hw⟩ := chain_serves_sc (alignedBufsize b) mc (serAll dummyRecs ++ []) sc
    (xs.map (UReq.spec mc)) (UReq.spec mc x) [] t.wlog 0 [] (ans t) _ 0 fuel (hall_of_okn x xs hok)
    ⟨(fun _ he => nomatch he), (fun _ hr => nomatch hr)⟩ hstart (by unfold ans; omega)
  have hrun' : closedLoop fuel (xs.map UReq.wire) (connS b mc t ((x :: xs).map UReq.handler ++ sc)) 0 = (c', "STALL") := by
    rw [← hrun, List.map_map]; rfl
  have hlast := lastLeft_specs mc x xs
  rw [hlast, hleft] at hw
  refine ⟨c', A, hrun', segAll_specs mc (x :: xs) A hseg, ?_⟩
  have e : 0 + (UReq.spec mc x :: xs.map (UReq.spec mc)).length = (x :: xs).length := by simp
  rw [e] at hw
  exact hw

/-- `eof_in_last_request_e2e_nofuel` over `UReq.OKn`: no cost hypothesis at all. -/
theorem eof_in_last_request_e2e_okn {b mc : Nat} (x : UReq) (xs : List UReq) {p : Preamble} {recs : List Rec}
    {content : Bytes} {srecs : List Rec} {data : Bytes} {st : ExitStatus} {t : Transport} {fuel : Nat} (j : Nat)
    (hok : ∀ y ∈ x :: xs, y.OKn b) (hleft : ((x :: xs).getLast (by simp)).left = [])
    (hwf : WellFormedPreamble p recs) (hrole : p.role = 1)
    (hpairs : ∀ q ∈ p.pairs, (NV.enc q).length ≤ alignedBufsize b)
    (hnoise : NoiseFits (alignedBufsize b) recs)
    (hs : StreamRecs p.id 5 content srecs) (hsn : NoiseFits (alignedBufsize b) srecs)
    (hj : j < (serAll recs ++ serAll srecs).length)
    (hin : t.input = x.wire) (hben : Ben t) (hem : t.endMode = .pend) (hev : hsCount t.events = 0)
    (hfuel : t.rd.length + t.wr.length + 1 ≤ fuel) :
    ∃ c₁ A c' O₁ O₂,
      -- the first `k` requests: served, the task parked
      closedLoop fuel (xs.map UReq.wire) (connS b mc t ((x :: xs).map UReq.handler ++ [(canonical data st, true)])) 0 =
        (c₁, "STALL") ∧
      SegsAll mc (x :: xs) A ∧ c₁.env.tr.wlog = t.wlog ++ A ∧ hsCount c₁.env.tr.events = (x :: xs).length ∧
      Waiting (alignedBufsize b) mc [] (t.wlog ++ A) [(canonical data st, true)] (x :: xs).length
        (evsAfter ((x :: xs).map (UReq.spec mc)) []) (ans t) c₁ ∧
      -- the cut request
      runTask fuel (feedEnd c₁ ((serAll recs ++ serAll srecs).take j) .eof) 0 none = (c', "RET") ∧
      c'.phase = .finished ∧ O₁ ++ O₂ = owedStream p.id 5 mc srecs ∧
      (∃ w, c'.env.tr.wlog = t.wlog ++ A ++ w ∧ w <+: expectedLogN p recs mc data st O₁ O₂) ∧
      (j < (serAll recs).length → hsCount c'.env.tr.events = (x :: xs).length) ∧
      ((serAll recs).length ≤ j → hsCount c'.env.tr.events = (x :: xs).length + 1 ∧
        startEvent p.request ∈ c'.env.tr.events) ∧
      ((serAll recs).length ≤ j → j < (serAll recs).length + (serAll srecs.dropLast).length + 8 →
        ∃ C, C <+: content ∧ readEofEvent C ∈ c'.env.tr.events ∧ handlerEofEvent ∈ c'.env.tr.events) ∧
      ((serAll recs).length + (serAll srecs.dropLast).length + 8 ≤ j →
        readEvent content ∈ c'.env.tr.events ∧
        c'.env.tr.wlog = t.wlog ++ A ++ expectedLogN p recs mc data st O₁ O₂) := by
  obtain ⟨c₁, A, hrun, hseg, hw⟩ := chain_prefix_n (mc := mc) x xs [(canonical data st, true)] hok hleft hin hben hem hev hfuel
  obtain ⟨f, rfl⟩ : ∃ f, fuel = f + 1 := ⟨fuel - 1, by omega⟩
  have hleg := last_leg hw ((serAll recs ++ serAll srecs).take j) .eof f 0
  have hb' : Ben (lastT c₁ ((serAll recs ++ serAll srecs).take j) .eof) :=
    ⟨hw.ben.rd, hw.ben.wr, hw.ben.hold, by show EndMode.eof ≠ EndMode.err; decide⟩
  have hans := hw.ans
  have hf' : (lastT c₁ ((serAll recs ++ serAll srecs).take j) .eof).rd.length +
      (lastT c₁ ((serAll recs ++ serAll srecs).take j) .eof).wr.length + 1 ≤ f + 1 := by
    have : ans c₁.env.tr ≤ ans t := hans
    unfold ans at this
    show c₁.env.tr.rd.length + c₁.env.tr.wr.length + 1 ≤ f + 1
    omega
  obtain ⟨c', O1, O2, h1, h2, h3, ⟨w, hw1, hw2⟩, _, h6, h7, h8, h9⟩ :=
    eof_any_offset_e2e_hn (data := data) (st := st) (b := b) (mc := mc)
      (t := lastT c₁ ((serAll recs ++ serAll srecs).take j) .eof) (fuel := f + 1) (x :: xs).length j
      hwf hrole hpairs hnoise hs hsn hj rfl hb' rfl hw.hs hf'
  have hlog0 : (lastT c₁ ((serAll recs ++ serAll srecs).take j) .eof).wlog = t.wlog ++ A := hw.log
  rw [hlog0] at hw1 h9
  refine ⟨c₁, A, c', O1, O2, hrun, hseg, hw.log, hw.hs, hw, ?_, h2, h3, ⟨w, hw1, hw2⟩, h6, h7, h8, h9⟩
  rw [hleg]
  exact h1

/-- `read_err_in_last_request_e2e_nofuel` over `UReq.OKn`: no cost hypothesis at all. -/
theorem read_err_in_last_request_e2e_okn {b mc : Nat} (x : UReq) (xs : List UReq) {p : Preamble} {recs : List Rec}
    {content : Bytes} {srecs : List Rec} {data : Bytes} {st : ExitStatus} {t : Transport} {fuel : Nat} (j : Nat)
    (hok : ∀ y ∈ x :: xs, y.OKn b) (hleft : ((x :: xs).getLast (by simp)).left = [])
    (hwf : WellFormedPreamble p recs) (hrole : p.role = 1)
    (hpairs : ∀ q ∈ p.pairs, (NV.enc q).length ≤ alignedBufsize b)
    (hnoise : NoiseFits (alignedBufsize b) recs)
    (hs : StreamRecs p.id 5 content srecs) (hsn : NoiseFits (alignedBufsize b) srecs)
    (hj : j < (serAll recs ++ serAll srecs).length)
    (hin : t.input = x.wire) (hben : Ben t) (hem : t.endMode = .pend) (hev : hsCount t.events = 0)
    (hfuel : t.rd.length + t.wr.length + 1 ≤ fuel) :
    ∃ c₁ A ce c' O₁ O₂,
      closedLoop fuel (xs.map UReq.wire) (connS b mc t ((x :: xs).map UReq.handler ++ [(canonical data st, true)])) 0 =
        (c₁, "STALL") ∧
      SegsAll mc (x :: xs) A ∧ c₁.env.tr.wlog = t.wlog ++ A ∧
      runTask fuel (feedEnd c₁ ((serAll recs ++ serAll srecs).take j) .eof) 0 none = (ce, "RET") ∧
      runTask fuel (feedEnd c₁ ((serAll recs ++ serAll srecs).take j) .err) 0 none = (c', "RET") ∧
      c'.phase = .finished ∧ c'.env.tr.wlog = ce.env.tr.wlog ∧
      hsCount c'.env.tr.events = hsCount ce.env.tr.events ∧
      O₁ ++ O₂ = owedStream p.id 5 mc srecs ∧
      (∃ w, c'.env.tr.wlog = t.wlog ++ A ++ w ∧ w <+: expectedLogN p recs mc data st O₁ O₂) ∧
      (j < (serAll recs).length → hsCount c'.env.tr.events = (x :: xs).length) ∧
      ((serAll recs).length ≤ j → hsCount c'.env.tr.events = (x :: xs).length + 1) := by
  obtain ⟨c₁, A, ce, O1, O2, hrun, hseg, hlog, _, hw, hre, hph, hO, ⟨w, hw1, hw2⟩, h6, h7, _, _⟩ :=
    eof_in_last_request_e2e_okn (mc := mc) x xs (data := data) (st := st) j hok hleft hwf hrole hpairs hnoise hs hsn hj hin hben hem hev
      hfuel
  have hp : AllProp (feedEnd c₁ ((serAll recs ++ serAll srecs).take j) .eof) := by
    obtain ⟨phase, env, scripts, stop⟩ := c₁
    have h1 := hw.ph
    have h3 := hw.sc
    simp only at h1 h3
    subst h1 h3
    exact ⟨fun s hs => by
      simp only [feedEnd, List.mem_singleton] at hs
      subst hs; rfl, trivial⟩
  obtain ⟨c', hr, a1, a2, a3, _, _, _, _⟩ := eof_err_lift hp rfl hre
  exact ⟨c₁, A, ce, c', O1, O2, hrun, hseg, hlog, hre, hr, a1.trans hph, a2, a3, hO,
    ⟨w, a2.trans hw1, hw2⟩, fun h => a3.trans (h6 h), fun h => a3.trans (h7 h).1⟩

/-! ## Non-vacuity: the last request's handler writes 70 000 000 bytes -/
namespace ExampleChainNF
open Fcgi.C01.Example Fcgi.C07E.Example Fcgi.C12E.ExampleChain Fcgi.C07E.ExampleNoFuel

/-- `q1`, `q2` served, then a third request cut one content byte into its Stdin record; its handler would write `bigData`
(the old `hhf` is false: `C07E.ExampleNoFuel.old_hhf_fails`): the task returns, three handler starts -/
example : ¬ (wcost bigData.length + 12 ≤ 1000) ∧
    ∃ c₁ c', closedLoop 20 [q2.wire] (connS 64 10 exT2
      ([UReq.full q1, UReq.full q2].map UReq.handler ++ [(canonical bigData (.complete 0), true)])) 0 = (c₁, "STALL") ∧
    runTask 20 (feedEnd c₁ ((serAll recs ++ serAll exS).take ((serAll recs).length + 9)) .eof) 0 none = (c', "RET") ∧
    c'.phase = .finished ∧ hsCount c'.env.tr.events = 3 := by
  refine ⟨old_hhf_fails, ?_⟩
  have hlen : (serAll recs).length + 9 < (serAll recs ++ serAll exS).length := by
    have : 17 ≤ (serAll exS).length := by decide +kernel
    rw [List.length_append]; omega
  obtain ⟨c₁, A, c', O1, O2, h1, _, _, _, _, h5, h6, _, _, _, h9, _⟩ :=
    eof_in_last_request_e2e_nofuel (b := 64) (mc := 10) (.full q1) [.full q2] (p := pre) (recs := recs)
      (content := [65, 66, 67]) (srecs := exS) (data := bigData) (st := .complete 0) (t := exT2) (fuel := 20)
      ((serAll recs).length + 9)
      (fun y hy => by
        simp only [List.mem_cons, List.not_mem_nil, or_false] at hy
        rcases hy with rfl | rfl
        · exact ⟨q1_oku _, by decide⟩
        · exact ⟨q2_oku _, by decide⟩)
      rfl recs_wf rfl (pre_pairs_fit 64) (noise_fits 64) exS_ok (exS_fits _) hlen rfl
      ⟨by decide, by decide, rfl, by decide⟩ rfl rfl (by decide)
  exact ⟨c₁, c', h1, h5, h6, (h9 (Nat.le_add_right _ _)).1⟩

end ExampleChainNF

end Fcgi.C12E
