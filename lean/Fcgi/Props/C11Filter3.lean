import Fcgi.Proofs.E2EFilterAbort3
import Fcgi.Props.C11Filter2
/-!
# C11 — `AbortRequest` for a FILTER, placement (iii): inside the Data stream, behind Data content

Handler `rscript s0` in mode `pr` (rows (a), (b) of the table of `Props/C11Filter`).  Wire behind the
preamble: `sbody` (Stdin records, content `content`, and noise), the Stdin terminator, `dbody` (Data
records with content `c2`, and noise), the request's `AbortRequest` record `a`, `post`.

`filter_abort_data_e2e`: the handler's first `readAll` returns `content`, `set_stream(Data)`, the second
collects `acc` — a prefix of `c2` — and fails in front of the abort record (`R!abort-request:n:acc` is in
the trace).  Then

* `acc ≠ []` (some `read` returned Data content before the abort): the request IS writeable; `close()`
  skips its own `writeable()`; `record_boundary()` returns at once; the epilogue is FULL:
  `Stdout∅ Stderr∅ EndRequest(id, closeStatus pr s0)`;
* `acc = []` — possible although `c2 ≠ []`: all the Data content before the abort was parsed in the SAME
  `parse` call as the abort record and is lost with the `Err` —: the request is NOT writeable; `close()`
  runs its own `writeable()`, which fails again (swallowed); bare `EndRequest(id, closeStatus pr s0)`.

Either way: exactly one handler start, one `EndRequest` (status `ABORT` iff the handler propagated the
error), replies for all the noise before the abort record; KEEP_CONN: the abort record and `post` go to
the next request parser (chain step `filter_abort_data_chain_e2e`); no KEEP_CONN: the task returns.
Which of the two cases occurs depends on how the transport splits the input: both are exhibited
(`Example3`, replayed on the crate).
-/
namespace Fcgi.C11F
open Fcgi Fcgi.Req Fcgi.Str Fcgi.Async Fcgi.Run Fcgi.Spec Fcgi.E2E Fcgi.C07E Fcgi.C07U

/-- the empty Stdout and Stderr records that close the output streams of a writeable request -/
def emptyStreams (id : Nat) : Bytes := RecordHeader.toBytes ⟨6, id, 0, 0⟩ ++ RecordHeader.toBytes ⟨7, id, 0, 0⟩

/-- the epilogue `close()` sends: `full` for a writeable request -/
def epilogueFor (id : Nat) (st : ExitStatus) (full : Bool) : Bytes :=
  (if full then emptyStreams id else []) ++ endRequest id st

theorem epilogue_full (id : Nat) (st : ExitStatus) :
    makeRequestEpilogue id st [RT.stdout, RT.stderr] = epilogueFor id st true := by
  rw [(C17.epilogue_spec id st _).1]
  simp [epilogueFor, emptyStreams, RT.stdout, RT.stderr]

def cfgFR3 (p : Preamble) (recs : List Rec) (content : Bytes) (sbody : List Rec) (pad : Bytes) (res : UInt8)
    (c2 : Bytes) (dbody : List Rec) (a : Rec) (post : List Rec)
    (b mc : Nat) (s0 stc : ExitStatus) (L0 : Bytes) (h : Nat) (more : List (List HOp × Bool)) : E2E.Cfg :=
  ⟨p, recs, content, sbody, pad, res, c2, post, [], 0, b, mc, [], stc, L0, h, more,
    gapX p.id sbody pad res dbody a post, serAll (dbody ++ [a]) ++ serAll post, a.ser ++ serAll post, [], [], rscript s0⟩

theorem fr3ok_of {p : Preamble} {recs sbody dbody : List Rec} {pad : Bytes} {res : UInt8} {content c2 : Bytes} {a : Rec}
    {post : List Rec} {b mc : Nat} {s0 : ExitStatus} {pr : Bool}
    (L0 : Bytes) (h : Nat) (more : List (List HOp × Bool))
    (hwf : WellFormedPreamble p recs) (hrole : p.role = 3)
    (hpairs : ∀ q ∈ p.pairs, (NV.enc q).length ≤ alignedBufsize b)
    (hnoise : NoiseFits (alignedBufsize b) recs)
    (hbody : Body p.id 5 content sbody) (hpf : NoiseFits (alignedBufsize b) sbody) (hpad : pad.length < 256)
    (hdb : Body p.id 8 c2 dbody) (hdf : NoiseFits (alignedBufsize b) dbody)
    (hpost : ∀ r ∈ post, r.WF) (hpostf : NoiseFits (alignedBufsize b) post) (ha : IsAbort p.id a) :
    FR3OK (cfgFR3 p recs content sbody pad res c2 dbody a post b mc s0 (closeStatus pr s0) L0 h more) dbody a s0 pr :=
  ⟨hwf, hrole, hpairs, hnoise, hbody, hpf, hpad, hdb, hdf, hpost, hpostf, ha, rfl, rfl, rfl, rfl, rfl⟩

theorem owed_stdinTerm (id mc : Nat) (pad : Bytes) (res : UInt8) : owed (some id) mc (stdinTerm id pad res) = [] := by
  simp [owed, stdinTerm, RT.valid, RT.getValues, RT.beginRequest]

theorem lf3_eq {p : Preamble} {recs sbody dbody : List Rec} {pad : Bytes} {res : UInt8} {content c2 : Bytes} {a : Rec}
    {post : List Rec} {b mc : Nat} {s0 stc : ExitStatus}
    {L0 : Bytes} {h : Nat} {more : List (List HOp × Bool)} (left : List Rec) (hl : ∀ e ∈ left, IdleNoise e)
    (acc : Bytes) :
    ((cfgFR3 p recs content sbody pad res c2 dbody a post b mc s0 stc L0 h more).front left).Lf3 dbody acc =
      L0 ++ idleOwed mc left ++ (owedPreamble p mc recs ++ owedActive p.id mc (gapPre p.id sbody pad res dbody) ++
        epilogueFor p.id stc (!acc.isEmpty)) := by
  have hO : owedStream p.id 5 mc sbody ++ owedStream p.id 8 mc dbody =
      owedActive p.id mc (gapPre p.id sbody pad res dbody) := by
    rw [← owedI_eq_owedStream, ← owedI_eq_owedStream8]
    simp only [owedActive, owedI, gapPre, List.flatMap_append, List.flatMap_cons, owed_stdinTerm, List.nil_append]
  cases acc with
  | nil =>
    show ((cfgFR3 p recs content sbody pad res c2 dbody a post b mc s0 stc L0 h more).front left).L1 ++
      (owedStream p.id 5 mc sbody ++ owedStream p.id 8 mc dbody) ++ makeRequestEpilogue p.id stc [] = _
    rw [E2E.Cfg.front_L1 _ hl, epilogue_nil, hO]
    simp only [epilogueFor, List.isEmpty_nil, Bool.not_true, Bool.false_eq_true, if_false, List.nil_append,
      List.append_assoc]
    rfl
  | cons x xs =>
    show ((cfgFR3 p recs content sbody pad res c2 dbody a post b mc s0 stc L0 h more).front left).L1 ++
      (owedStream p.id 5 mc sbody ++ owedStream p.id 8 mc dbody) ++
      makeRequestEpilogue p.id stc [RT.stdout, RT.stderr] = _
    rw [E2E.Cfg.front_L1 _ hl, epilogue_full, hO]
    simp only [List.isEmpty_cons, Bool.not_false, List.append_assoc]
    rfl

/-- What the run of a Filter aborted inside its Data stream comes to. -/
structure FilterAbortDataOutcome (p : Preamble) (recs pre : List Rec) (c2 : Bytes) (a : Rec) (post : List Rec)
    (b mc : Nat) (st : ExitStatus) (more : List (List HOp × Bool)) (t : Transport) (c' : Conn) (fin : String) :
    Prop where
  /-- exactly one handler start, for the request sent -/
  one_handler : hsCount c'.env.tr.events = 1 ∧ startEvent p.request ∈ c'.env.tr.events
  scripts : c'.scripts = more
  /-- `acc` = the Data content the handler had received when its read failed: the epilogue is full iff
  `acc ≠ []` -/
  final : ∃ acc lost, acc ++ lost = c2 ∧ raEvent acc ∈ c'.env.tr.events ∧
    ((p.flags.toNat % 2 = 1 ∧
      c'.env.tr.wlog = t.wlog ++ (owedPreamble p mc recs ++ owedActive p.id mc pre ++
        epilogueFor p.id st (!acc.isEmpty) ++ idleOwed mc post) ∧
      ((t.endMode = .eof ∧ fin = "RET" ∧ c'.phase = .finished) ∨
       (t.endMode = .pend ∧ fin = "STALL" ∧
          c'.phase = .parseReq (track (alignedBufsize b) mc (a.ser ++ serAll post)) .reading ∧
          c'.env.tr.input = [] ∧ c'.env.mutex = none ∧ c'.stop = false ∧ Ben c'.env.tr))) ∨
    (p.flags.toNat % 2 = 0 ∧ fin = "RET" ∧ c'.phase = .finished ∧
      c'.env.tr.wlog = t.wlog ++ (owedPreamble p mc recs ++ owedActive p.id mc pre ++
        epilogueFor p.id st (!acc.isEmpty))))

/-- **C11 end to end, rows (a) and (b), placement (iii)**: a Filter whose handler reads, aborted inside
the Data stream. -/
theorem filter_abort_data_e2e {p : Preamble} {recs sbody dbody : List Rec} {pad : Bytes} {res : UInt8} {a : Rec}
    {post : List Rec} {b mc : Nat} {content c2 : Bytes} {s0 : ExitStatus} {pr : Bool}
    {more : List (List HOp × Bool)} {t : Transport} {fuel : Nat}
    (hwf : WellFormedPreamble p recs) (hrole : p.role = 3)
    (hpairs : ∀ q ∈ p.pairs, (NV.enc q).length ≤ alignedBufsize b)
    (hnoise : NoiseFits (alignedBufsize b) recs)
    (hbody : Body p.id 5 content sbody) (hpf : NoiseFits (alignedBufsize b) sbody) (hpad : pad.length < 256)
    (hdb : Body p.id 8 c2 dbody) (hdf : NoiseFits (alignedBufsize b) dbody) (ha : IsAbort p.id a)
    (hpost : ∀ r ∈ post, r.WF) (hpostf : NoiseFits (alignedBufsize b) post)
    (hnb : ∀ r ∈ post, r.rtype.toNat ≠ RT.beginRequest)
    (hin : t.input = serAll recs ++ gapX p.id sbody pad res dbody a post) (hben : Ben t)
    (hev : hsCount t.events = 0) (hfuel : t.rd.length + t.wr.length + 1 ≤ fuel)
    (hsize : 6 * t.input.length + 26 ≤ 100000) :
    ∃ c' fin, runTask fuel (connS b mc t ((rscript s0, pr) :: more)) 0 none = (c', fin) ∧
      FilterAbortDataOutcome p recs (gapPre p.id sbody pad res dbody) c2 a post b mc (closeStatus pr s0) more t
        c' fin := by
  have hid := (pid_of_wf hwf).2
  have hwa := isAbort_wf ha hid
  have hidleA : IdleNoise a := ⟨hwa, fun hx => absurd hx (by rw [ha.1]; decide)⟩
  have hidle : ∀ e ∈ a :: post, IdleNoise e := by
    intro e he
    rcases List.mem_cons.1 he with rfl | he
    · exact hidleA
    · exact idle_of_noBegin hpost hnb e he
  have hfit : NoiseFits (alignedBufsize b) (a :: post) := by
    intro e he hg
    rcases List.mem_cons.1 he with rfl | he
    · exact absurd hg.1 (by rw [ha.1]; decide)
    · exact hpostf e he hg
  have ok := fr3ok_of (res := res) (post := post) (mc := mc) (s0 := s0) (pr := pr) t.wlog 0 more hwf hrole hpairs hnoise hbody
    hpf hpad hdb hdf hpost hpostf ha
  obtain ⟨hns, hNF⟩ := idle_front dummy_wf b mc (fun q hq => by cases hq) (dummy_fits _) hidle hfit []
  rw [serAll_cons] at hns hNF
  have hst : FStageP (cfgFR3 p recs content sbody pad res c2 dbody a post b mc s0 (closeStatus pr s0) t.wlog 0 more)
      pr (connS b mc t ((rscript s0, pr) :: more)) :=
    .start (raw := []) rfl (by show [] ++ t.input = _; rw [hin]; rfl) (Nat.zero_le _) rfl hben rfl rfl rfl hev
  obtain ⟨c', fin, hrun, hres⟩ := run_filterR3 ok (Z := serAll dummyRecs ++ []) hns hNF
    t.endMode [] _ 0 fuel hst rfl (fun s hs => by cases hs) rfl (by show ans t + 1 ≤ fuel; unfold ans; omega) hsize
  have hLf : ∀ acc, (cfgFR3 p recs content sbody pad res c2 dbody a post b mc s0 (closeStatus pr s0) t.wlog 0 more).Lf3
      dbody acc = t.wlog ++ (owedPreamble p mc recs ++ owedActive p.id mc (gapPre p.id sbody pad res dbody) ++
        epilogueFor p.id (closeStatus pr s0) (!acc.isEmpty)) := by
    intro acc
    have h := lf3_eq (p := p) (recs := recs) (content := content) (c2 := c2) (sbody := sbody) (pad := pad) (res := res)
      (dbody := dbody) (a := a) (post := post) (b := b) (mc := mc) (s0 := s0) (stc := closeStatus pr s0)
      (L0 := t.wlog) (h := 0) (more := more) [] (fun _ h => nomatch h) acc
    have e : (cfgFR3 p recs content sbody pad res c2 dbody a post b mc s0 (closeStatus pr s0) t.wlog 0 more).front [] =
      cfgFR3 p recs content sbody pad res c2 dbody a post b mc s0 (closeStatus pr s0) t.wlog 0 more := rfl
    rw [e] at h
    rw [h]; simp [idleOwed]
  rcases hres with ⟨acc, ⟨hk, lost, hal⟩, hkp, hem, _, _, _, hend⟩ | ⟨hfin, hfu, _, _⟩
  · have hout : ∀ F, F ++ (serAll dummyRecs ++ []) = a.ser ++ serAll post ++ (serAll dummyRecs ++ []) →
        (cfgFR3 p recs content sbody pad res c2 dbody a post b mc s0 (closeStatus pr s0) t.wlog 0 more).Lf3 dbody acc ++
          (run .header F mc).out =
        t.wlog ++ (owedPreamble p mc recs ++ owedActive p.id mc (gapPre p.id sbody pad res dbody) ++
          epilogueFor p.id (closeStatus pr s0) (!acc.isEmpty) ++ idleOwed mc post) := by
      intro F hF
      have hro := (run_idle_out mc (a :: post) hidle).1
      rw [serAll_cons] at hro
      rw [List.append_cancel_right hF, hro, hLf, idleOwed_cons, owed_idle_abort ha, List.nil_append]
      simp only [List.append_assoc]
    refine ⟨c', fin, hrun, ⟨hkp.hs, hkp.ev _ List.mem_cons_self⟩, hkp.sc, acc, lost, hal,
      hkp.ev _ (by simp), Or.inl ⟨hk, ?_, ?_⟩⟩
    · rcases hend with ⟨_, hp⟩ | ⟨_, hf⟩
      · obtain ⟨F, hF, _, _, hlg⟩ := hp.pst
        exact hlg.trans (hout F hF)
      · obtain ⟨F, hF, hlg⟩ := hf.log
        exact hlg.trans (hout F hF)
    · rcases hend with ⟨rfl, hp⟩ | ⟨rfl, hf⟩
      · obtain ⟨F, hF, hps, hph, _⟩ := hp.pst
        have hFe : F = a.ser ++ serAll post := List.append_cancel_right hF
        subst hFe
        exact Or.inr ⟨hem.symm.trans hp.em, rfl, hph, hp.inp, hkp.mx, hps.stop, hps.ben⟩
      · exact Or.inl ⟨hem.symm.trans hf.em, rfl, hf.ph⟩
  · obtain ⟨acc, lost, hal, hra, h3⟩ := hfu
    have key : ∀ Lf, FinE (cfgFR3 p recs content sbody pad res c2 dbody a post b mc s0 (closeStatus pr s0) t.wlog 0 more)
        Lf c' →
        Lf = (cfgFR3 p recs content sbody pad res c2 dbody a post b mc s0 (closeStatus pr s0) t.wlog 0 more).Lf3 dbody acc →
        FilterAbortDataOutcome p recs (gapPre p.id sbody pad res dbody) c2 a post b mc (closeStatus pr s0) more t
          c' fin := by
      intro Lf hf hL
      exact ⟨⟨hf.ev.1, hf.ev.2⟩, hf.sc, acc, lost, hal, hra,
        Or.inr ⟨hf.nokeep, hfin, hf.ph, by rw [hf.log, hL, hLf]⟩⟩
    refine ⟨c', fin, hrun, ?_⟩
    rcases h3 with ⟨ha0, hf⟩ | ⟨ha0, hf⟩
    · exact key _ hf (by simp [E2E.Cfg.Lf3, ha0])
    · exact key _ hf (by simp [E2E.Cfg.Lf3, ha0])

/-- **The chain step** (KEEP_CONN): after the aborted Filter request of `filter_abort_data_e2e` a
closed-loop client sends the keep-alive requests `x :: xs` (`UReq.OK`): the abort record and `post` are
swallowed by the next `parse_request` (`post` answered as idle noise), then each request is served
exactly as alone (`UReq.Seg`). -/
theorem filter_abort_data_chain_e2e {p : Preamble} {recs sbody dbody : List Rec} {pad : Bytes} {res : UInt8} {a : Rec} {post : List Rec}
    {b mc : Nat} {content c2 : Bytes} {s0 : ExitStatus} {pr : Bool} (x : UReq) (xs : List UReq) {t : Transport} {fuel : Nat}
    (hwf : WellFormedPreamble p recs) (hrole : p.role = 3) (hk : p.flags.toNat % 2 = 1)
    (hpairs : ∀ q ∈ p.pairs, (NV.enc q).length ≤ alignedBufsize b)
    (hnoise : NoiseFits (alignedBufsize b) recs)
    (hbody : Body p.id 5 content sbody) (hpf : NoiseFits (alignedBufsize b) sbody) (hpad : pad.length < 256)
    (hdb : Body p.id 8 c2 dbody) (hdf : NoiseFits (alignedBufsize b) dbody) (ha : IsAbort p.id a)
    (hpost : ∀ r ∈ post, r.WF) (hpostf : NoiseFits (alignedBufsize b) post)
    (hnb : ∀ r ∈ post, r.rtype.toNat ≠ RT.beginRequest)
    (hok : ∀ y ∈ x :: xs, y.OK b)
    (hin : t.input = serAll recs ++ (gapX p.id sbody pad res dbody a post)) (hben : Ben t) (hem : t.endMode = .pend)
    (hev : hsCount t.events = 0) (hfuel : t.rd.length + t.wr.length + 1 ≤ fuel)
    (hsize : 6 * t.input.length + 26 ≤ 100000) :
    ∃ c' A acc lost, acc ++ lost = c2 ∧ raEvent acc ∈ c'.env.tr.events ∧
      closedLoop fuel ((x :: xs).map UReq.wire)
        (connS b mc t ((rscript s0, pr) :: (x :: xs).map UReq.handler)) 0 = (c', "STALL") ∧
      SegsAll mc (x :: xs) A ∧
      c'.env.tr.wlog = t.wlog ++ (owedPreamble p mc recs ++ owedActive p.id mc (gapPre p.id sbody pad res dbody) ++ epilogueFor p.id (closeStatus pr s0) (!acc.isEmpty) ++
        idleOwed mc post) ++ A ∧
      hsCount c'.env.tr.events = 1 + (x :: xs).length ∧
      startEvent p.request ∈ c'.env.tr.events ∧
      (∀ y ∈ x :: xs, startEvent y.p.request ∈ c'.env.tr.events) ∧ c'.scripts = [] ∧
      c'.env.tr.input = [] ∧
      c'.phase = .parseReq (track (alignedBufsize b) mc (serAll ((x :: xs).getLast (by simp)).left)) .reading := by
  have hid := (pid_of_wf hwf).2
  have hwa := isAbort_wf ha hid
  have hidle : ∀ e ∈ a :: post, IdleNoise e := by
    intro e he
    rcases List.mem_cons.1 he with rfl | he
    · exact ⟨hwa, fun hx => absurd hx (by rw [ha.1]; decide)⟩
    · exact idle_of_noBegin hpost hnb e he
  have hfit : NoiseFits (alignedBufsize b) (a :: post) := by
    intro e he hg
    rcases List.mem_cons.1 he with rfl | he
    · exact absurd hg.1 (by rw [ha.1]; decide)
    · exact hpostf e he hg
  have hlo : LeftOK (alignedBufsize b) (a :: post) := ⟨hidle, hfit⟩
  have ok := fr3ok_of (res := res) (post := post) (mc := mc) (s0 := s0) (pr := pr) t.wlog 0 (((x :: xs).map (UReq.spec mc)).map RSpec.handler)
    hwf hrole hpairs hnoise hbody hpf hpad hdb hdf hpost hpostf ha
  have hstart : StartAt (alignedBufsize b) mc [] t.wlog
      ((rscript s0, pr) :: ((x :: xs).map (UReq.spec mc)).map RSpec.handler) 0 [] (ans t)
      (serAll recs ++ (gapX p.id sbody pad res dbody a post))
      (connS b mc t ((rscript s0, pr) :: ((x :: xs).map (UReq.spec mc)).map RSpec.handler)) :=
    Or.inr ⟨rfl, rfl, hin, rfl, hben, rfl, rfl, rfl, hev, (fun _ hs => nomatch hs), rfl, hem, Nat.le_refl _⟩
  have hleft0 : LeftOK (alignedBufsize b) [] := ⟨(fun _ he => nomatch he), (fun _ hr => nomatch hr)⟩
  obtain ⟨c1, acc, lost, hrun1, hal, hw1⟩ := serve_filterR3_core ok hk (left := []) hleft0 (Z := x.wire) hidle
    (goodNext_of_ok (hok x List.mem_cons_self) hlo) 0 fuel (by simp [idleOwed]; rfl) hstart (by unfold ans; omega)
    (by show 6 * (serAll recs ++ (gapX p.id sbody pad res dbody a post)).length + 26 ≤ _; rw [← hin]; exact hsize)
  have hLf := lf3_eq (p := p) (recs := recs) (content := content) (c2 := c2) (sbody := sbody) (pad := pad) (res := res)
    (dbody := dbody) (a := a) (post := post) (b := b) (mc := mc) (s0 := s0) (stc := closeStatus pr s0)
    (L0 := t.wlog) (h := 0) (more := ((x :: xs).map (UReq.spec mc)).map RSpec.handler) [] (fun _ h => nomatch h) acc
  have hLw : ((cfgFR3 p recs content sbody pad res c2 dbody a post b mc s0 (closeStatus pr s0) t.wlog 0 (((x :: xs).map (UReq.spec mc)).map RSpec.handler)).front []).Lf3 dbody acc ++
      idleOwed mc (a :: post) =
      t.wlog ++ (owedPreamble p mc recs ++ owedActive p.id mc (gapPre p.id sbody pad res dbody) ++ epilogueFor p.id (closeStatus pr s0) (!acc.isEmpty) ++ idleOwed mc post) := by
    rw [hLf, idleOwed_cons, owed_idle_abort ha, List.nil_append]
    simp [idleOwed, List.append_assoc]
  have hw1' : Waiting (alignedBufsize b) mc (a :: post)
      (t.wlog ++ (owedPreamble p mc recs ++ owedActive p.id mc (gapPre p.id sbody pad res dbody) ++ epilogueFor p.id (closeStatus pr s0) (!acc.isEmpty) ++ idleOwed mc post))
      (((x :: xs).map (UReq.spec mc)).map RSpec.handler) 1 [hsEvent p.request, raEvent acc] (ans t) c1 := by
    rw [← hLw]; exact hw1
  obtain ⟨c', A, hrun, hseg, hw⟩ := chain_serves (alignedBufsize b) mc (serAll dummyRecs ++ [])
    (xs.map (UReq.spec mc)) (UReq.spec mc x) (a :: post) _ 1 [hsEvent p.request, raEvent acc] (ans t) (feed c1 x.wire) 1000 fuel
    (hall_of_ok x xs hok) hlo (Or.inl ⟨c1, hw1', rfl⟩) (by unfold ans; omega)
  have hrun' : closedLoop fuel ((x :: xs).map UReq.wire)
      (connS b mc t ((rscript s0, pr) :: (x :: xs).map UReq.handler)) 0 = (c', "STALL") := by
    have e : (x :: xs).map UReq.handler = ((x :: xs).map (UReq.spec mc)).map RSpec.handler := by
      rw [List.map_map]; rfl
    rw [e]
    show closedLoop fuel (x.wire :: xs.map UReq.wire) _ 0 = _
    rw [closedLoop, hrun1]
    simp only [if_true]
    rw [← hrun, List.map_map]; rfl
  have hlast := lastLeft_specs mc x xs
  refine ⟨c', A, acc, lost, hal, ?_, hrun', segAll_specs mc (x :: xs) A hseg, hw.log, ?_, ?_, ?_, hw.sc, hw.inp, ?_⟩
  · exact hw.ev _ (mem_evsAfter _ _ _ (Or.inl (by simp)))
  · have := hw.hs; simpa [Nat.add_comm] using this
  · exact hw.ev _ (mem_evsAfter _ _ _ (Or.inl List.mem_cons_self))
  · intro y hy
    exact hw.ev _ (mem_evsAfter _ _ _ (Or.inr ⟨UReq.spec mc y, List.mem_map_of_mem hy, rfl⟩))
  · rw [← hlast]; exact hw.ph



/-! ## Which replies are `EndRequest` records for the request -/

/-- the first four bytes of an `EndRequest` record for request `id` -/
def EndHead (id : Nat) : Bytes := [1, 3] ++ toBe16 id

theorem endRequest_head (id : Nat) (st : ExitStatus) : EndHead id <+: endRequest id st := by
  refine ⟨toBe16 8 ++ [UInt8.ofNat 0, 0] ++ st.toEndRequest.toBytes, ?_⟩
  simp [EndHead, endRequest, EndRequest.toRecord, RecordHeader.toBytes, RT.endRequest]

theorem toBe16_inj {m n : Nat} (hm : m < 65536) (hn : n < 65536) (h : toBe16 m = toBe16 n) : m = n := by
  have e1 := be16_toBe16 hm
  have e2 := be16_toBe16 hn
  simp only [toBe16] at e1 e2 h
  have ha : UInt8.ofNat (m / 256) = UInt8.ofNat (n / 256) := by injection h
  have hb : UInt8.ofNat m = UInt8.ofNat n := by
    injection h with _ h2
    injection h2
  rw [← e1, ← e2, ha, hb]

/-- **No reply owed for a record met while request `id` is active is an `EndRequest` for `id`**: the
only `EndRequest` the noise can cause is the refusal (`CantMpxConn`) of a `BeginRequest` with ANOTHER id. -/
theorem owed_active_not_end {id mc : Nat} (hid : id < 65536) {r : Rec} (hr : r.WF) :
    ¬ EndHead id <+: owed (some id) mc r := by
  intro h
  unfold owed at h
  split at h
  · obtain ⟨x, hx⟩ := h
    simp [EndHead, UnknownType.toRecord, RecordHeader.toBytes, RT.unknown] at hx
  · split at h
    · split at h
      · obtain ⟨x, hx⟩ := h
        simp [EndHead] at hx
      · obtain ⟨x, hx⟩ := h
        simp [EndHead, Vars.responseRecord, RecordHeader.toBytes, RecordHeader.new, RecordHeader.setLengths,
          RT.getValuesResult] at hx
    · split at h
      · dsimp only at h
        split at h
        · rename_i hne
          obtain ⟨x, hx⟩ := h
          have h4 := congrArg (List.take 4) hx
          simp only [EndHead, toBe16, EndRequest.toRecord, RecordHeader.toBytes, List.cons_append, List.nil_append,
            List.take_succ_cons, List.take_zero, List.cons.injEq, and_true, true_and] at h4
          have h16 : toBe16 id = toBe16 r.id := by
            simp only [toBe16, List.cons.injEq, and_true]
            exact ⟨h4.2.1, h4.2.2⟩
          have := toBe16_inj hid hr.1 h16
          simp [this] at hne
        · obtain ⟨x, hx⟩ := h
          simp [EndHead] at hx
      · obtain ⟨x, hx⟩ := h
        simp [EndHead] at hx

/-- … nor is any reply owed for a record that is not a `BeginRequest`, met by an idle request parser -/
theorem owed_idle_not_end {mc : Nat} (id : Nat) {r : Rec} (hnb : r.rtype.toNat ≠ RT.beginRequest) :
    ¬ EndHead id <+: owed none mc r := by
  intro h
  unfold owed at h
  split at h
  · obtain ⟨x, hx⟩ := h
    simp [EndHead, UnknownType.toRecord, RecordHeader.toBytes, RT.unknown] at hx
  · split at h
    · split at h
      · obtain ⟨x, hx⟩ := h
        simp [EndHead] at hx
      · obtain ⟨x, hx⟩ := h
        simp [EndHead, Vars.responseRecord, RecordHeader.toBytes, RecordHeader.new, RecordHeader.setLengths,
          RT.getValuesResult] at hx
    · split at h
      · rename_i hb
        simp at hb
        exact hnb hb
      · obtain ⟨x, hx⟩ := h
        simp [EndHead] at hx

theorem emptyStreams_not_end (id : Nat) :
    ¬ EndHead id <+: RecordHeader.toBytes ⟨6, id, 0, 0⟩ ∧ ¬ EndHead id <+: RecordHeader.toBytes ⟨7, id, 0, 0⟩ := by
  constructor <;> (intro h; obtain ⟨x, hx⟩ := h; simp [EndHead, RecordHeader.toBytes] at hx)

/-! ## The table -/

/-- **The two facts C11 cares about**, for one aborted Filter request: (1) exactly one handler start and,
behind the replies of the preamble, exactly ONE `EndRequest` record for the request — the write log is
`before ++ EndRequest(id, st) ++ after`, where `before` / `after` are lists of whole reply records (the
replies owed for the noise before the abort record, the empty Stdout / Stderr records of a writeable
request; the replies owed for what follows the abort record), NONE of which starts like an `EndRequest`
for `id` (`EndHead`); (2) that record carries the status `st`. -/
structure EndOnce (p : Preamble) (recs : List Rec) (mc : Nat) (st : ExitStatus) (t : Transport) (c' : Conn) :
    Prop where
  one_handler : hsCount c'.env.tr.events = 1
  log : ∃ before after : List Bytes, (∀ u ∈ before ++ after, ¬ EndHead p.id <+: u) ∧
    c'.env.tr.wlog = t.wlog ++ (owedPreamble p mc recs ++ before.flatten ++ endRequest p.id st ++ after.flatten)

theorem endOnce_of_log {p : Preamble} {recs pre post : List Rec} {mc : Nat} {st : ExitStatus} {t : Transport}
    {c' : Conn} (hid : p.id < 65536) (hpre : ∀ r ∈ pre, r.WF)
    (hnb : ∀ r ∈ post, r.rtype.toNat ≠ RT.beginRequest) (h1 : hsCount c'.env.tr.events = 1) {full : Bool}
    {tail : Bytes} (ht : tail = [] ∨ tail = idleOwed mc post)
    (hlog : c'.env.tr.wlog = t.wlog ++ (owedPreamble p mc recs ++ owedActive p.id mc pre ++
      epilogueFor p.id st full ++ tail)) : EndOnce p recs mc st t c' := by
  have hb1 : ∀ u ∈ pre.map (owed (some p.id) mc), ¬ EndHead p.id <+: u := by
    intro u hu
    obtain ⟨r, hr, rfl⟩ := List.mem_map.1 hu
    exact owed_active_not_end hid (hpre r hr)
  have hb2 : ∀ u ∈ (if full then [RecordHeader.toBytes ⟨6, p.id, 0, 0⟩, RecordHeader.toBytes ⟨7, p.id, 0, 0⟩] else []),
      ¬ EndHead p.id <+: u := by
    intro u hu
    cases full with
    | false => simp at hu
    | true =>
      simp only [if_true, List.mem_cons, List.not_mem_nil, or_false] at hu
      rcases hu with rfl | rfl
      · exact (emptyStreams_not_end p.id).1
      · exact (emptyStreams_not_end p.id).2
  have ha : ∀ u ∈ post.map (owed none mc), ¬ EndHead p.id <+: u := by
    intro u hu
    obtain ⟨r, hr, rfl⟩ := List.mem_map.1 hu
    exact owed_idle_not_end p.id (hnb r hr)
  have hflat : (pre.map (owed (some p.id) mc) ++
      (if full then [RecordHeader.toBytes ⟨6, p.id, 0, 0⟩, RecordHeader.toBytes ⟨7, p.id, 0, 0⟩] else [])).flatten ++
      endRequest p.id st = owedActive p.id mc pre ++ epilogueFor p.id st full := by
    cases full <;>
      simp [owedActive, owedI, epilogueFor, emptyStreams, List.flatMap_def, List.append_assoc]
  refine ⟨h1, pre.map (owed (some p.id) mc) ++
      (if full then [RecordHeader.toBytes ⟨6, p.id, 0, 0⟩, RecordHeader.toBytes ⟨7, p.id, 0, 0⟩] else []),
    (if tail = [] then [] else post.map (owed none mc)), ?_, ?_⟩
  · intro u hu
    rcases List.mem_append.1 hu with hu | hu
    · rcases List.mem_append.1 hu with hu | hu
      · exact hb1 u hu
      · exact hb2 u hu
    · by_cases h0 : tail = []
      · simp [h0] at hu
      · rw [if_neg h0] at hu
        exact ha u hu
  · have htl : (if tail = [] then [] else post.map (owed none mc)).flatten = tail := by
      by_cases h0 : tail = []
      · simp [h0]
      · rw [if_neg h0]
        rcases ht with ht | ht
        · exact absurd ht h0
        · rw [ht]; simp [idleOwed, List.flatMap_def]
    rw [hlog, htl]
    have e : owedPreamble p mc recs ++ (pre.map (owed (some p.id) mc) ++
        (if full then [RecordHeader.toBytes ⟨6, p.id, 0, 0⟩, RecordHeader.toBytes ⟨7, p.id, 0, 0⟩] else [])).flatten ++
        endRequest p.id st ++ tail =
        owedPreamble p mc recs ++ owedActive p.id mc pre ++ epilogueFor p.id st full ++ tail := by
      rw [List.append_assoc (owedPreamble p mc recs), hflat]
      simp only [List.append_assoc]
    rw [e]

theorem endOnce_of_outcome {p : Preamble} {recs pre : List Rec} {a : Rec} {post : List Rec} {b mc : Nat}
    {st : ExitStatus} {more : List (List HOp × Bool)} {t : Transport} {c' : Conn} {fin : String}
    (hid : p.id < 65536) (hpre : ∀ r ∈ pre, r.WF) (hnb : ∀ r ∈ post, r.rtype.toNat ≠ RT.beginRequest)
    (h : FilterAbortOutcome p recs pre a post b mc st more t c' fin) : EndOnce p recs mc st t c' := by
  have e : ∀ x, endRequest p.id st ++ x = epilogueFor p.id st false ++ x := by
    intro x; simp [epilogueFor]
  rcases h.final with ⟨_, hlog, _⟩ | ⟨_, _, _, hlog⟩
  · refine endOnce_of_log hid hpre hnb h.one_handler.1 (full := false) (Or.inr rfl) ?_
    rw [hlog]; simp [epilogueFor]
  · refine endOnce_of_log (post := post) hid hpre hnb h.one_handler.1 (full := false) (Or.inl rfl) ?_
    rw [hlog]; simp [epilogueFor]

theorem endOnce_of_dataOutcome {p : Preamble} {recs pre : List Rec} {c2 : Bytes} {a : Rec} {post : List Rec}
    {b mc : Nat}
    {st : ExitStatus} {more : List (List HOp × Bool)} {t : Transport} {c' : Conn} {fin : String}
    (hid : p.id < 65536) (hpre : ∀ r ∈ pre, r.WF) (hnb : ∀ r ∈ post, r.rtype.toNat ≠ RT.beginRequest)
    (h : FilterAbortDataOutcome p recs pre c2 a post b mc st more t c' fin) : EndOnce p recs mc st t c' := by
  obtain ⟨acc, lost, _, _, hf⟩ := h.final
  rcases hf with ⟨_, hlog, _⟩ | ⟨_, _, _, hlog⟩
  · exact endOnce_of_log hid hpre hnb h.one_handler.1 (full := !acc.isEmpty) (Or.inr rfl) hlog
  · refine endOnce_of_log (post := post) hid hpre hnb h.one_handler.1 (full := !acc.isEmpty) (Or.inl rfl) ?_
    rw [hlog]; simp

theorem gapPre_wf {id : Nat} (hid : id < 65536) {sbody mid : List Rec} {pad : Bytes} {res : UInt8}
    (hs : ∀ r ∈ sbody, r.WF) (hp : pad.length < 256) (hm : ∀ r ∈ mid, r.WF) :
    ∀ r ∈ gapPre id sbody pad res mid, r.WF := by
  intro r hr
  rcases List.mem_append.1 hr with hr | hr
  · exact hs r hr
  · rcases List.mem_cons.1 hr with rfl | hr
    · exact ⟨hid, by simp [stdinTerm], hp⟩
    · exact hm r hr

/-- the status of the one `EndRequest`: `ABORT` (`"ABRT"`) iff the handler returned the abort error
(`pr`: it propagated the error of its failed read), else the handler's own -/
theorem closeStatus_spec (s0 : ExitStatus) : closeStatus true s0 = ExitStatus.abort ∧ closeStatus false s0 = s0 :=
  ⟨rfl, rfl⟩

/-- **C11 for a Filter — the table.**  For every cell proved in `Props/C11Filter`, `C11Filter2` and this
file — handler (a) `rscript s0` propagating errors, (b) `rscript s0` ignoring them (`pr = false`), (c)
`[ret st]`; the request's `AbortRequest` (i) inside Stdin, (ii) between the Stdin terminator and the first
Data content, (iii) inside the Data stream (rows (a), (b): behind Data content or noise; row (c): behind
noise of the Data stream only) —: the run ends (`STALL` parked / `RET`), and `EndOnce`: one handler start,
exactly one `EndRequest` for the request, with status `ABORT` iff the handler returned the abort error,
else the handler's own status.  NOT covered: row (c) with Data CONTENT before the abort record. -/
theorem filter_abort_table :
    -- row (c): the handler never reads; (i), (ii), (iii) with no Data content before the abort record
    (∀ {p : Preamble} {recs pre : List Rec} {a : Rec} {post : List Rec} {b mc : Nat} {st : ExitStatus}
      {more : List (List HOp × Bool)} {t : Transport} {fuel : Nat},
      WellFormedPreamble p recs → p.role = 3 → (∀ q ∈ p.pairs, (NV.enc q).length ≤ alignedBufsize b) →
      NoiseFits (alignedBufsize b) recs → (∀ r ∈ pre, StdinRec p.id r) → NoiseFits (alignedBufsize b) pre →
      IsAbort p.id a → (∀ r ∈ post, r.WF) → NoiseFits (alignedBufsize b) post →
      (∀ r ∈ post, r.rtype.toNat ≠ RT.beginRequest) →
      t.input = serAll recs ++ (serAll (pre ++ [a]) ++ serAll post) → Ben t → hsCount t.events = 0 →
      t.rd.length + t.wr.length + 1 ≤ fuel → 6 * t.input.length + 26 ≤ 100000 →
      ∃ c' fin, runTask fuel (connS b mc t (([.ret st], true) :: more)) 0 none = (c', fin) ∧
        EndOnce p recs mc st t c') ∧
    -- rows (a) (`pr = true`) and (b) (`pr = false`), placement (i)
    (∀ {p : Preamble} {recs pre : List Rec} {a : Rec} {post : List Rec} {b mc : Nat} {content : Bytes}
      {s0 : ExitStatus} {pr : Bool} {more : List (List HOp × Bool)} {t : Transport} {fuel : Nat},
      WellFormedPreamble p recs → p.role = 3 → (∀ q ∈ p.pairs, (NV.enc q).length ≤ alignedBufsize b) →
      NoiseFits (alignedBufsize b) recs → Body p.id 5 content pre → NoiseFits (alignedBufsize b) pre →
      IsAbort p.id a → (∀ r ∈ post, r.WF) → NoiseFits (alignedBufsize b) post →
      (∀ r ∈ post, r.rtype.toNat ≠ RT.beginRequest) →
      t.input = serAll recs ++ (serAll (pre ++ [a]) ++ serAll post) → Ben t → hsCount t.events = 0 →
      t.rd.length + t.wr.length + 1 ≤ fuel → 6 * t.input.length + 26 ≤ 100000 →
      ∃ c' fin, runTask fuel (connS b mc t ((rscript s0, pr) :: more)) 0 none = (c', fin) ∧
        EndOnce p recs mc (closeStatus pr s0) t c') ∧
    -- rows (a), (b), placement (ii)
    (∀ {p : Preamble} {recs sbody mid : List Rec} {pad : Bytes} {res : UInt8} {a : Rec} {post : List Rec}
      {b mc : Nat} {content : Bytes}
      {s0 : ExitStatus} {pr : Bool} {more : List (List HOp × Bool)} {t : Transport} {fuel : Nat},
      WellFormedPreamble p recs → p.role = 3 → (∀ q ∈ p.pairs, (NV.enc q).length ≤ alignedBufsize b) →
      NoiseFits (alignedBufsize b) recs → Body p.id 5 content sbody → NoiseFits (alignedBufsize b) sbody →
      pad.length < 256 → (∀ r ∈ mid, StdinRec p.id r) → NoiseFits (alignedBufsize b) mid →
      IsAbort p.id a → (∀ r ∈ post, r.WF) → NoiseFits (alignedBufsize b) post →
      (∀ r ∈ post, r.rtype.toNat ≠ RT.beginRequest) →
      t.input = serAll recs ++ gapX p.id sbody pad res mid a post → Ben t → hsCount t.events = 0 →
      t.rd.length + t.wr.length + 1 ≤ fuel → 6 * t.input.length + 26 ≤ 100000 →
      ∃ c' fin, runTask fuel (connS b mc t ((rscript s0, pr) :: more)) 0 none = (c', fin) ∧
        EndOnce p recs mc (closeStatus pr s0) t c') ∧
    -- rows (a), (b), placement (iii): Data records (content `c2`, possibly empty) before the abort record
    (∀ {p : Preamble} {recs sbody dbody : List Rec} {pad : Bytes} {res : UInt8} {a : Rec} {post : List Rec}
      {b mc : Nat} {content c2 : Bytes}
      {s0 : ExitStatus} {pr : Bool} {more : List (List HOp × Bool)} {t : Transport} {fuel : Nat},
      WellFormedPreamble p recs → p.role = 3 → (∀ q ∈ p.pairs, (NV.enc q).length ≤ alignedBufsize b) →
      NoiseFits (alignedBufsize b) recs → Body p.id 5 content sbody → NoiseFits (alignedBufsize b) sbody →
      pad.length < 256 → Body p.id 8 c2 dbody → NoiseFits (alignedBufsize b) dbody →
      IsAbort p.id a → (∀ r ∈ post, r.WF) → NoiseFits (alignedBufsize b) post →
      (∀ r ∈ post, r.rtype.toNat ≠ RT.beginRequest) →
      t.input = serAll recs ++ gapX p.id sbody pad res dbody a post → Ben t → hsCount t.events = 0 →
      t.rd.length + t.wr.length + 1 ≤ fuel → 6 * t.input.length + 26 ≤ 100000 →
      ∃ c' fin, runTask fuel (connS b mc t ((rscript s0, pr) :: more)) 0 none = (c', fin) ∧
        EndOnce p recs mc (closeStatus pr s0) t c') ∧
    -- the status
    (∀ s0, closeStatus true s0 = ExitStatus.abort ∧ closeStatus false s0 = s0) := by
  refine ⟨?_, ?_, ?_, ?_, closeStatus_spec⟩
  · intro p recs pre a post b mc st more t fuel hwf hrole hpairs hnoise hpre hpf ha hpost hpostf hnb hin hben hev
      hfuel hsize
    obtain ⟨c', fin, hrun, ho⟩ := filter_abort_noread_e2e (more := more) hwf hrole hpairs hnoise hpre hpf ha hpost
      hpostf hnb hin hben hev hfuel hsize
    exact ⟨c', fin, hrun, endOnce_of_outcome (pid_of_wf hwf).2 (fun r hr => (hpre r hr).1) hnb ho⟩
  · intro p recs pre a post b mc content s0 pr more t fuel hwf hrole hpairs hnoise hbody hpf ha hpost hpostf hnb
      hin hben hev hfuel hsize
    obtain ⟨c', fin, hrun, ho⟩ := filter_abort_stdin_e2e (more := more) hwf hrole hpairs hnoise hbody hpf ha hpost
      hpostf hnb hin hben hev hfuel hsize
    exact ⟨c', fin, hrun, endOnce_of_outcome (pid_of_wf hwf).2 (body_wf (pid_of_wf hwf).2 hbody) hnb ho⟩
  · intro p recs sbody mid pad res a post b mc content s0 pr more t fuel hwf hrole hpairs hnoise hbody hpf hpad
      hmid hmf ha hpost hpostf hnb hin hben hev hfuel hsize
    obtain ⟨c', fin, hrun, ho⟩ := filter_abort_gap_e2e (more := more) hwf hrole hpairs hnoise hbody hpf hpad hmid hmf
      ha hpost hpostf hnb hin hben hev hfuel hsize
    exact ⟨c', fin, hrun, endOnce_of_outcome (pid_of_wf hwf).2
      (gapPre_wf (pid_of_wf hwf).2 (body_wf (pid_of_wf hwf).2 hbody) hpad (fun r hr => (hmid r hr).1)) hnb ho⟩
  · intro p recs sbody dbody pad res a post b mc content c2 s0 pr more t fuel hwf hrole hpairs hnoise hbody hpf hpad
      hdb hdf ha hpost hpostf hnb hin hben hev hfuel hsize
    obtain ⟨c', fin, hrun, ho⟩ := filter_abort_data_e2e (more := more) hwf hrole hpairs hnoise hbody hpf hpad hdb hdf
      ha hpost hpostf hnb hin hben hev hfuel hsize
    exact ⟨c', fin, hrun, endOnce_of_dataOutcome (pid_of_wf hwf).2
      (gapPre_wf (pid_of_wf hwf).2 (body_wf (pid_of_wf hwf).2 hbody) hpad (body_wf (pid_of_wf hwf).2 hdb)) hnb ho⟩

/-! ## Non-vacuity -/
namespace Example3
open Fcgi.C01.Example Fcgi.C07E.Example Fcgi.C07U.Example Fcgi.C11F.Example Fcgi.C11F.Example2

/-- the Data stream up to the abort: a management `GetValues` record, `Data("xyz")` -/
def fDc : List Rec :=
  [ { rtype := 9, id := 0, content := NV.enc (Vars.nameMaxConns, []), pad := [] },
    { rtype := 8, id := 1, content := [120, 121, 122], pad := [] } ]

theorem fDc_body : Body 1 8 [120, 121, 122] fDc :=
  Body.noise _ ⟨⟨by decide, by decide +kernel, by decide⟩, by decide⟩
    (Body.chunk [120, 121, 122] [] 0 (by decide) (by decide) Body.nil)

theorem fDc_fits : NoiseFits (alignedBufsize 64) fDc := by
  intro r hr hg
  have : r ∈ fD := by
    simp only [fDc, fD, List.mem_cons, List.not_mem_nil, or_false] at hr ⊢
    rcases hr with rfl | rfl
    · exact Or.inl rfl
    · exact Or.inr (Or.inl rfl)
  exact fD_fits r this hg

theorem dE_wf : ∀ r ∈ dE, r.WF := by
  intro r hr
  rw [List.mem_singleton.1 hr]
  exact ⟨by decide, by decide, by decide⟩

/-- cell (a)(iii), KEEP_CONN: `Stdin("AB")`, Stdin terminator, `GetValues`, `Data("xyz")`, the abort record,
the Data terminator -/
def fr3T : Transport :=
  { input := serAll recsFK ++ gapX 1 fS1 [] 0 fDc aR dE, endMode := .pend,
    rd := [.n 24, .n 53, .pending, .all], wr := [.n 5, .pending, .all], fl := [] }

/-- `filter_abort_data_e2e` applied to cell (a)(iii) (propagating handler, KEEP_CONN).  Replayed, model
driver = crate, on this transport (`# case c11f-keep-iiip-split-R,s8,R,Xcomplete:3-24,53,P,A`): `… R=2:4142
s=ok W32:5 W27:P |1 W27:27 R64:P |2 R64:17 R!abort-request:3:78797a HE(err:abort-request) W32:32 R64:W STALL`
— the second read has `"xyz"` when the abort record arrives (`acc = xyz`): FULL epilogue `01 06 00 01 00 00 00
00  01 07 00 01 00 00 00 00  01 03 00 01 00 08 00 00 41 42 52 54 00 00 00 00` in one write.  With
`rd = 24,7,P,9,A` instead (`# case c11f-keep-iiip-R,s8,R,Xcomplete:3-24,7,P,9,A`) the Data record and the
abort record are parsed in the same call: `R!abort-request:0:-` (`acc = []`, `"xyz"` is lost), bare 16-byte
`EndRequest(1, ABORT)`. -/
example : ∃ c' acc lost, runTask 20 (connS 64 10 fr3T [(rscript (.complete 3), true)]) 0 none = (c', "STALL") ∧
    acc ++ lost = [120, 121, 122] ∧ raEvent acc ∈ c'.env.tr.events ∧
    c'.env.tr.wlog = owedActive 1 10 (gapPre 1 fS1 [] 0 fDc) ++
      epilogueFor 1 ExitStatus.abort (!acc.isEmpty) ++ idleOwed 10 dE ∧
    c'.phase = .parseReq (track 64 10 (aR.ser ++ serAll dE)) .reading ∧
    hsCount c'.env.tr.events = 1 ∧ c'.env.tr.input = [] := by
  obtain ⟨c', fin, hrun, ho⟩ := filter_abort_data_e2e (p := preFK) (recs := recsFK) (sbody := fS1) (pad := [])
    (res := 0) (dbody := fDc) (a := aR)
    (post := dE) (b := 64) (mc := 10) (content := [65, 66]) (c2 := [120, 121, 122]) (s0 := .complete 3) (pr := true)
    (more := []) (t := fr3T) (fuel := 20)
    recsFK_wf rfl (fun q hq => by cases hq) (recsFK_fits _) fS1_body (fS1_fits _) (by decide) fDc_body fDc_fits
    aR_abort dE_wf (dE_fits _) (by decide) rfl ⟨by decide, by decide, rfl, by decide⟩ rfl (by decide)
    (by decide +kernel)
  obtain ⟨acc, lost, hal, hra, hf⟩ := ho.final
  rcases hf with ⟨_, hlog, hf⟩ | ⟨h, _⟩
  · rcases hf with ⟨h, _⟩ | ⟨_, hfin, hph, hin, _⟩
    · exact absurd h (by decide)
    · subst hfin
      refine ⟨c', acc, lost, hrun, hal, hra, ?_, hph, ho.one_handler.1, hin⟩
      rw [hlog]
      show [] ++ (owedPreamble preFK 10 recsFK ++ owedActive 1 10 (gapPre 1 fS1 [] 0 fDc) ++
        epilogueFor 1 ExitStatus.abort (!acc.isEmpty) ++ idleOwed 10 dE) = _
      have h1 : owedPreamble preFK 10 recsFK = [] := by decide +kernel
      rw [h1]
      simp only [List.nil_append]
  · exact absurd h (by decide)

end Example3

end Fcgi.C11F
