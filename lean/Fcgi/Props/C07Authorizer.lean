import Fcgi.Proofs.E2EAuthConn
import Fcgi.Props.C07Unread4
/-!
# C07 / C05 — an Authorizer request followed by more traffic

An Authorizer (role 2) has no input stream: active stream `None` from the start.  Only for it does
`close()` run with no stream active, and only if traffic follows its preamble does
`record_boundary()` matter there: the last transport read before the handler returned may have ended
INSIDE a record of that traffic.

Setting: well-formed Authorizer preamble, then a list `tail` of records that are legal while the
request is active (`StreamNoise`: anything but own-id Stdin / Data / AbortRequest records; no
BeginRequest — `hnb`, what is left of the tail reaches the next request parser), any transport
chunking; handler `aHandler rd wr data st`: `rd` = no read / `read n` / `readAll`, then `ret st` or
the canonical Stdout write of `data`.

* `authorizer_close_reaches_boundary` (in `Proofs/E2EAuthConn`, restated here as
  `authorizer_handover_at_boundary`): `record_boundary()` of the ignoring parser never fails and ends
  at a record boundary of the ORIGINAL record list — what `into_request_parser` hands over is
  `serAll t₂` for a suffix `t₂`.
* `authorizer_tail_e2e`: one handler start; the reads return `Ok(0)` (`r=0:-` / `R=0:-` in the trace);
  split `tail = t₁ ++ t₂`: `t₁` consumed by the request's own stream parser (by the read, and by
  `close()`, which finishes the record a cut left half-parsed), replies `O₁` before and `O₂` after the
  Stdout records, then the epilogue `[Stdout∅][Stderr∅][EndRequest]`; with KEEP_CONN the next
  `parse_request` is handed exactly `serAll t₂` and answers it after the epilogue; without KEEP_CONN
  the task returns after the epilogue — the replies for `t₂` are never sent.
* `authorizer_tail_chain_e2e`: with KEEP_CONN further requests are served exactly as alone.
-/
namespace Fcgi.C07U
open Fcgi Fcgi.Req Fcgi.Str Fcgi.Async Fcgi.Run Fcgi.Spec Fcgi.E2E Fcgi.C07E

/-- the handler: the read `rd`, then `Ok(st)` — after writing `data` to Stdout if `wr` -/
def aHandler (rd : ARead) (wr : Bool) (data : Bytes) (st : ExitStatus) : List HOp := rd.ops ++ atail wr data st

/-- the configuration of an Authorizer request followed by the records `tail` -/
def cfgA (p : Preamble) (recs tail : List Rec) (b mc : Nat) (rd : ARead) (wr : Bool) (data : Bytes) (st : ExitStatus)
    (L0 : Bytes) (h : Nat) (more : List (List HOp × Bool)) : E2E.Cfg :=
  ⟨p, recs, [], tail, [], 0, [], [], [], 0, b, mc, data, st, L0, h, more, serAll tail, [], [], [], rd.evs,
    aHandler rd wr data st⟩

/-- what is owed for records met while request `id` is active -/
abbrev owedActive (id mc : Nat) (rs : List Rec) : Bytes := owedI id mc rs

/-- records other than BeginRequest are owed the same whether a request is active or not -/
theorem idleOwed_eq_owedActive (id mc : Nat) {rs : List Rec}
    (hnb : ∀ r ∈ rs, r.rtype.toNat ≠ RT.beginRequest) : idleOwed mc rs = owedActive id mc rs := by
  induction rs with
  | nil => rfl
  | cons r rs ih =>
    have hb := hnb r List.mem_cons_self
    have hcur : owed none mc r = owed (some id) mc r := by
      simp only [owed]
      split
      · rfl
      · split
        · rfl
        · rw [if_neg (by simpa using hb), if_neg (by simpa using hb)]
    have h2 := ih (fun x hx => hnb x (List.mem_cons_of_mem _ hx))
    simp only [idleOwed, owedActive, owedI, List.flatMap_cons] at h2 ⊢
    rw [hcur, h2]

/-- **The hand-over after `close()` happens at a record boundary of the wire** — even when the last
transport read before the handler returned ended inside a tail record.  `sp`: the Authorizer's stream
parser (ignoring, framed on `tail`: `R2`); `record_boundary()` on a benign transport never fails, and
when it returns the parser's `into_input()` succeeds and what it holds plus what is still in the
transport is exactly `serAll t₂` for a suffix `t₂` of `tail`. -/
theorem authorizer_handover_at_boundary {id mc cap : Nat} {tail : List Rec} (hc : R2Ctx id mc cap tail)
    {sp sp' : Str.Parser} {t t' : Transport} {G dO : Bytes} {res : ORes} (hb : Ben t)
    (hr2 : R2 id mc cap tail sp G t.input dO) (h : closeBoundary sp false t = (sp', t', res)) :
    (res = .ready ∧ sp'.isRecordBoundary = true ∧ sp'.intoInput = .ok sp'.raw ∧
      ∃ t₁ t₂, tail = t₁ ++ t₂ ∧ sp'.raw ++ t'.input = serAll t₂) ∨
    (res = .pending ∧ t'.woken = true ∧ sp'.isRecordBoundary = false ∧ t'.input ≠ []) :=
  authorizer_close_reaches_boundary hc hb hr2 h

/-- what the run ends in -/
structure AuthTailOutcome (p : Preamble) (recs tail t₁ t₂ : List Rec) (O₁ O₂ : Bytes) (rd : ARead)
    (b mc : Nat) (data : Bytes) (st : ExitStatus) (more : List (List HOp × Bool)) (t : Transport) (c' : Conn)
    (fin : String) : Prop where
  /-- `t₁`: consumed by the request's own stream parser; `t₂`: left -/
  split : tail = t₁ ++ t₂
  /-- the replies owed for `t₁`: `O₁` written before the handler's output, `O₂` by `close` -/
  owed : O₁ ++ O₂ = owedActive p.id mc t₁
  /-- the read (if any) returned `Ok(0)` -/
  reads : ∀ s ∈ rd.evs, s ∈ c'.env.tr.events
  one_handler : hsCount c'.env.tr.events = 1 ∧ startEvent p.request ∈ c'.env.tr.events
  scripts : c'.scripts = more
  final :
    -- KEEP_CONN: the next `parse_request` is handed exactly `serAll t₂` and answers it after the epilogue
    (p.flags.toNat % 2 = 1 ∧
      c'.env.tr.wlog = t.wlog ++ (owedPreamble p mc recs ++ O₁ ++ streamRecords 6 p.id data ++ O₂ ++
        epilogue p.id st ++ idleOwed mc t₂) ∧
      ((t.endMode = .eof ∧ fin = "RET" ∧ c'.phase = .finished) ∨
       (t.endMode = .pend ∧ fin = "STALL" ∧
          c'.phase = .parseReq (track (alignedBufsize b) mc (serAll t₂)) .reading ∧
          c'.env.tr.input = [] ∧ c'.env.mutex = none ∧ c'.stop = false ∧ Ben c'.env.tr))) ∨
    -- no KEEP_CONN: the task returns after the epilogue; nothing is sent for `t₂`
    (p.flags.toNat % 2 = 0 ∧ fin = "RET" ∧ c'.phase = .finished ∧
      c'.env.tr.wlog = t.wlog ++ (owedPreamble p mc recs ++ O₁ ++ streamRecords 6 p.id data ++ O₂ ++
        epilogue p.id st))

theorem aok_of {p : Preamble} {recs tail : List Rec} {b mc : Nat} {rd : ARead} {wr : Bool} {data : Bytes}
    {st : ExitStatus} (L0 : Bytes) (h : Nat) (more : List (List HOp × Bool))
    (hwf : WellFormedPreamble p recs) (hrole : p.role = 2)
    (hpairs : ∀ q ∈ p.pairs, (NV.enc q).length ≤ alignedBufsize b)
    (hnoise : NoiseFits (alignedBufsize b) recs)
    (htail : ∀ r ∈ tail, StreamNoise p.id r) (htn : NoiseFits (alignedBufsize b) tail)
    (hwd : wr = false → data = []) (hhf : wcost data.length + 8 ≤ 1000) :
    AOK (cfgA p recs tail b mc rd wr data st L0 h more) rd wr :=
  ⟨hwf, hrole, hpairs, hnoise, fun r hr => ⟨(htail r hr).1, Or.inl (htail r hr)⟩, htn, rfl, rfl, hwd, rfl, hhf⟩

/-- **C07/C05 end to end: an Authorizer request followed by more traffic.** -/
theorem authorizer_tail_e2e {p : Preamble} {recs tail : List Rec} {b mc : Nat} {rd : ARead} {wr : Bool}
    {data : Bytes} {st : ExitStatus} {more : List (List HOp × Bool)} {t : Transport} {fuel : Nat}
    (hwf : WellFormedPreamble p recs) (hrole : p.role = 2)
    (hpairs : ∀ q ∈ p.pairs, (NV.enc q).length ≤ alignedBufsize b)
    (hnoise : NoiseFits (alignedBufsize b) recs)
    (htail : ∀ r ∈ tail, StreamNoise p.id r) (htn : NoiseFits (alignedBufsize b) tail)
    (hnb : ∀ r ∈ tail, r.rtype.toNat ≠ RT.beginRequest)
    (hwd : wr = false → data = [])
    (hin : t.input = serAll recs ++ serAll tail) (hben : Ben t) (hev : hsCount t.events = 0)
    (hfuel : t.rd.length + t.wr.length + 1 ≤ fuel)
    (hsize : 6 * t.input.length + 26 ≤ 100000) (hhf : wcost data.length + 8 ≤ 1000) :
    ∃ c' fin t₁ t₂ O₁ O₂, runTask fuel (connS b mc t ((aHandler rd wr data st, true) :: more)) 0 none = (c', fin) ∧
      AuthTailOutcome p recs tail t₁ t₂ O₁ O₂ rd b mc data st more t c' fin := by
  have hidle : ∀ r ∈ tail, IdleNoise r := idle_of_noBegin (fun r hr => (htail r hr).1) hnb
  have ok := aok_of (mc := mc) (rd := rd) (st := st) t.wlog 0 more hwf hrole hpairs hnoise htail htn hwd hhf
  have hmem : ∀ t1 t2 : List Rec, (cfgA p recs tail b mc rd wr data st t.wlog 0 more).body = t1 ++ t2 →
      ∀ e ∈ t2, e ∈ tail := by
    intro t1 t2 hsp e he
    have : e ∈ (cfgA p recs tail b mc rd wr data st t.wlog 0 more).body := by rw [hsp]; exact List.mem_append_right _ he
    exact this
  have hgood : ∀ t1 t2 : List Rec, (cfgA p recs tail b mc rd wr data st t.wlog 0 more).body = t1 ++ t2 →
      GoodNext (alignedBufsize b) mc t2 (serAll dummyRecs ++ []) := fun t1 t2 hsp =>
    idle_front dummy_wf b mc (fun q hq => by cases hq) (dummy_fits _) (fun e he => hidle e (hmem t1 t2 hsp e he))
      (fun e he hg => htn e (hmem t1 t2 hsp e he) hg) []
  have hst : FStage (cfgA p recs tail b mc rd wr data st t.wlog 0 more)
      (connS b mc t ((aHandler rd wr data st, true) :: more)) :=
    .start (raw := []) rfl (by show [] ++ t.input = _; rw [hin]; rfl) (Nat.zero_le _) rfl hben rfl rfl rfl hev
  obtain ⟨c', fin, hrun, hres⟩ :=
    run_auth ok (Z := serAll dummyRecs ++ []) (fun t1 t2 h => (hgood t1 t2 h).1) (fun t1 t2 h => (hgood t1 t2 h).2)
      t.endMode [] _ 0 fuel hst rfl (fun s hs => by cases hs) rfl (by show ans t + 1 ≤ fuel; unfold ans; omega) hsize
  have hLeq : ∀ O1 O2 : Bytes, ((cfgA p recs tail b mc rd wr data st t.wlog 0 more).L1 ++ O1) ++
      (cfgA p recs tail b mc rd wr data st t.wlog 0 more).D ++ O2 ++
      (cfgA p recs tail b mc rd wr data st t.wlog 0 more).epi =
      t.wlog ++ (owedPreamble p mc recs ++ O1 ++ streamRecords 6 p.id data ++ O2 ++ epilogue p.id st) := by
    intro O1 O2
    show ((t.wlog ++ owedPreamble p mc recs) ++ O1) ++ streamRecords 6 p.id data ++ O2 ++
      makeRequestEpilogue p.id st [RT.stdout, RT.stderr] = _
    rw [epilogue_eq]
    simp only [List.append_assoc]
  rcases hres with ⟨i, ⟨⟨hsp, hO⟩, hk⟩, hkp, hem, _, _, _, hend⟩ | ⟨hfin, ⟨s1, s2, O1, O2, hsp, hO, hrd, hfu⟩, _, _⟩
  · have hs2 : ∀ e ∈ i.t2, IdleNoise e := fun e he => hidle e (hmem i.t1 i.t2 hsp e he)
    have hout : ∀ F, F ++ (serAll dummyRecs ++ []) = serAll i.t2 ++ (serAll dummyRecs ++ []) →
        AIdx.L (cfgA p recs tail b mc rd wr data st t.wlog 0 more) i ++ (run .header F mc).out =
        t.wlog ++ (owedPreamble p mc recs ++ i.O1 ++ streamRecords 6 p.id data ++ i.O2 ++ epilogue p.id st ++
          idleOwed mc i.t2) := by
      intro F hF
      rw [List.append_cancel_right hF, (run_idle_out mc i.t2 hs2).1, AIdx.L, hLeq]
      simp only [List.append_assoc]
    refine ⟨c', fin, i.t1, i.t2, i.O1, i.O2, hrun, hsp, hO, fun s hs => hkp.ev _ (List.mem_cons_of_mem _ hs),
      ⟨hkp.hs, hkp.ev _ List.mem_cons_self⟩, hkp.sc, Or.inl ⟨hk, ?_, ?_⟩⟩
    · rcases hend with ⟨_, hp⟩ | ⟨_, hf⟩
      · obtain ⟨F, hF, _, _, hlg⟩ := hp.pst
        exact hlg.trans (hout F hF)
      · obtain ⟨F, hF, hlg⟩ := hf.log
        exact hlg.trans (hout F hF)
    · rcases hend with ⟨rfl, hp⟩ | ⟨rfl, hf⟩
      · obtain ⟨F, hF, hps, hph, _⟩ := hp.pst
        have hFe : F = serAll i.t2 := List.append_cancel_right hF
        subst hFe
        exact Or.inr ⟨hem.symm.trans hp.em, rfl, hph, hp.inp, hkp.mx, hps.stop, hps.ben⟩
      · exact Or.inl ⟨hem.symm.trans hf.em, rfl, hf.ph⟩
  · refine ⟨c', fin, s1, s2, O1, O2, hrun, hsp, hO, fun s hs => hrd s hs, ⟨hfu.ev.1, hfu.ev.2⟩, hfu.sc,
      Or.inr ⟨hfu.nokeep, hfin, hfu.ph, ?_⟩⟩
    rw [hfu.log, gD_LU]
    exact hLeq O1 O2

/-- **The chain step**: a closed-loop client sends the Authorizer request (KEEP_CONN) with its tail and
then the keep-alive requests `x :: xs` (`UReq.OK`): `1 + k` handler starts; the log is the Authorizer's
segment followed by the `k` segments `UReq.Seg` — each exactly what a connection serving that request
alone writes, whatever `t₂` was left. -/
theorem authorizer_tail_chain_e2e {p : Preamble} {recs tail : List Rec} {b mc : Nat} {rd : ARead} {wr : Bool}
    {data : Bytes} {st : ExitStatus} (x : UReq) (xs : List UReq) {t : Transport} {fuel : Nat}
    (hwf : WellFormedPreamble p recs) (hrole : p.role = 2) (hk : p.flags.toNat % 2 = 1)
    (hpairs : ∀ q ∈ p.pairs, (NV.enc q).length ≤ alignedBufsize b)
    (hnoise : NoiseFits (alignedBufsize b) recs)
    (htail : ∀ r ∈ tail, StreamNoise p.id r) (htn : NoiseFits (alignedBufsize b) tail)
    (hnb : ∀ r ∈ tail, r.rtype.toNat ≠ RT.beginRequest)
    (hwd : wr = false → data = [])
    (hok : ∀ y ∈ x :: xs, y.OK b)
    (hin : t.input = serAll recs ++ serAll tail) (hben : Ben t) (hem : t.endMode = .pend)
    (hev : hsCount t.events = 0) (hfuel : t.rd.length + t.wr.length + 1 ≤ fuel)
    (hsize : 6 * t.input.length + 26 ≤ 100000) (hhf : wcost data.length + 8 ≤ 1000) :
    ∃ c' t₁ t₂ O₁ O₂ A,
      closedLoop fuel ((x :: xs).map UReq.wire)
        (connS b mc t ((aHandler rd wr data st, true) :: (x :: xs).map UReq.handler)) 0 = (c', "STALL") ∧
      tail = t₁ ++ t₂ ∧ O₁ ++ O₂ = owedActive p.id mc t₁ ∧ (∀ s ∈ rd.evs, s ∈ c'.env.tr.events) ∧
      SegsAll mc (x :: xs) A ∧
      c'.env.tr.wlog = t.wlog ++ (owedPreamble p mc recs ++ O₁ ++ streamRecords 6 p.id data ++ O₂ ++ epilogue p.id st ++
        idleOwed mc t₂) ++ A ∧
      hsCount c'.env.tr.events = 1 + (x :: xs).length ∧
      startEvent p.request ∈ c'.env.tr.events ∧
      (∀ y ∈ x :: xs, startEvent y.p.request ∈ c'.env.tr.events) ∧ c'.scripts = [] ∧
      c'.env.tr.input = [] ∧
      c'.phase = .parseReq (track (alignedBufsize b) mc (serAll ((x :: xs).getLast (by simp)).left)) .reading := by
  have hidle : ∀ r ∈ tail, IdleNoise r := idle_of_noBegin (fun r hr => (htail r hr).1) hnb
  have ok := aok_of (mc := mc) (rd := rd) (st := st) t.wlog 0 (((x :: xs).map (UReq.spec mc)).map RSpec.handler)
    hwf hrole hpairs hnoise htail htn hwd hhf
  have hstart : StartAt (alignedBufsize b) mc [] t.wlog
      ((aHandler rd wr data st, true) :: ((x :: xs).map (UReq.spec mc)).map RSpec.handler) 0 [] (ans t)
      (serAll recs ++ serAll tail)
      (connS b mc t ((aHandler rd wr data st, true) :: ((x :: xs).map (UReq.spec mc)).map RSpec.handler)) :=
    Or.inr ⟨rfl, rfl, hin, rfl, hben, rfl, rfl, rfl, hev, (fun _ hs => nomatch hs), rfl, hem, Nat.le_refl _⟩
  have hleft0 : LeftOK (alignedBufsize b) [] := ⟨(fun _ he => nomatch he), (fun _ hr => nomatch hr)⟩
  have hlo : ∀ t1 t2 : List Rec, (cfgA p recs tail b mc rd wr data st t.wlog 0
      (((x :: xs).map (UReq.spec mc)).map RSpec.handler)).body = t1 ++ t2 → LeftOK (alignedBufsize b) t2 := by
    intro t1 t2 hsp
    have hm : ∀ e ∈ t2, e ∈ tail := fun e he => by
      have : e ∈ (cfgA p recs tail b mc rd wr data st t.wlog 0
        (((x :: xs).map (UReq.spec mc)).map RSpec.handler)).body := by rw [hsp]; exact List.mem_append_right _ he
      exact this
    exact ⟨fun e he => hidle e (hm e he), fun e he hg => htn e (hm e he) hg⟩
  obtain ⟨c1, i, hrun1, ⟨hsp, hO⟩, hrdev, hw1⟩ := serve_auth_core ok hk (left := []) hleft0
    (Z := x.wire) (fun e he => hidle e he)
    (fun t1 t2 hsp => goodNext_of_ok (hok x List.mem_cons_self) (hlo t1 t2 hsp)) 0 fuel
    (by simp [idleOwed]; rfl) hstart (by unfold ans; omega) (by show 6 * (serAll recs ++ serAll tail).length + 26 ≤ _; rw [← hin]; exact hsize)
  have hLw : AIdx.L ((cfgA p recs tail b mc rd wr data st t.wlog 0
      (((x :: xs).map (UReq.spec mc)).map RSpec.handler)).front []) i ++ idleOwed mc i.t2 =
      t.wlog ++ (owedPreamble p mc recs ++ i.O1 ++ streamRecords 6 p.id data ++ i.O2 ++ epilogue p.id st ++
        idleOwed mc i.t2) := by
    show ((t.wlog ++ owedPreamble p mc ([] ++ recs)) ++ i.O1) ++ streamRecords 6 p.id data ++ i.O2 ++
      makeRequestEpilogue p.id st [RT.stdout, RT.stderr] ++ _ = _
    rw [epilogue_eq]
    simp only [List.append_assoc, List.nil_append]
  have hw1' : Waiting (alignedBufsize b) mc i.t2
      (t.wlog ++ (owedPreamble p mc recs ++ i.O1 ++ streamRecords 6 p.id data ++ i.O2 ++ epilogue p.id st ++
        idleOwed mc i.t2))
      (((x :: xs).map (UReq.spec mc)).map RSpec.handler) 1 (hsEvent p.request :: rd.evs) (ans t) c1 := by
    rw [← hLw]
    have hev' : ∀ s ∈ hsEvent p.request :: rd.evs, s ∈ c1.env.tr.events := by
      intro s hs
      rcases List.mem_cons.1 hs with rfl | hs
      · exact hw1.ev _ List.mem_cons_self
      · exact hrdev s hs
    exact { hw1 with ev := hev' }
  obtain ⟨c', A, hrun, hseg, hw⟩ := chain_serves (alignedBufsize b) mc (serAll dummyRecs ++ [])
    (xs.map (UReq.spec mc)) (UReq.spec mc x) i.t2 _ 1 (hsEvent p.request :: rd.evs) (ans t) (feed c1 x.wire) 1000 fuel
    (hall_of_ok x xs hok) (hlo i.t1 i.t2 hsp) (Or.inl ⟨c1, hw1', rfl⟩) (by unfold ans; omega)
  have hrun' : closedLoop fuel ((x :: xs).map UReq.wire)
      (connS b mc t ((aHandler rd wr data st, true) :: (x :: xs).map UReq.handler)) 0 = (c', "STALL") := by
    have e : (x :: xs).map UReq.handler = ((x :: xs).map (UReq.spec mc)).map RSpec.handler := by
      rw [List.map_map]; rfl
    rw [e]
    show closedLoop fuel (x.wire :: xs.map UReq.wire) _ 0 = _
    rw [closedLoop, hrun1]
    simp only [if_true]
    rw [← hrun, List.map_map]; rfl
  have hlast := lastLeft_specs mc x xs
  refine ⟨c', i.t1, i.t2, i.O1, i.O2, A, hrun', hsp, hO,
    fun s hs => hw.ev _ (mem_evsAfter _ _ _ (Or.inl (List.mem_cons_of_mem _ hs))),
    segAll_specs mc (x :: xs) A hseg, hw.log, ?_, ?_, ?_, hw.sc, hw.inp, ?_⟩
  · have := hw.hs; simpa [Nat.add_comm] using this
  · exact hw.ev _ (mem_evsAfter _ _ _ (Or.inl List.mem_cons_self))
  · intro y hy
    exact hw.ev _ (mem_evsAfter _ _ _ (Or.inr ⟨UReq.spec mc y, List.mem_map_of_mem hy, rfl⟩))
  · rw [← hlast]; exact hw.ph

/-! ## Non-vacuity -/
namespace Example
open Fcgi.C01.Example Fcgi.C07E.Example

/-- what follows the Authorizer's preamble: a management `GetValues` record, an unknown-type record, a
Stdin record of another request -/
def aTail : List Rec :=
  [ { rtype := 9, id := 0, content := NV.enc (Vars.nameMaxConns, []), pad := [] },
    { rtype := 77, id := 3, content := [1, 2], pad := [] },
    { rtype := 5, id := 2, content := [9], pad := [0] } ]

theorem aTail_noise : ∀ r ∈ aTail, StreamNoise 1 r := by
  intro r hr
  simp only [aTail, List.mem_cons, List.not_mem_nil, or_false] at hr
  rcases hr with rfl | rfl | rfl
  · exact ⟨⟨by decide, by decide +kernel, by decide⟩, by decide⟩
  · exact ⟨⟨by decide, by decide, by decide⟩, by decide⟩
  · exact ⟨⟨by decide, by decide, by decide⟩, by decide⟩

theorem aTail_fits : NoiseFits (alignedBufsize 64) aTail := by
  refine noiseFits_of_content (fun r hr _ _ => ?_)
  simp only [aTail, List.mem_cons, List.not_mem_nil, or_false] at hr
  rcases hr with rfl | rfl | rfl <;> decide +kernel

theorem aTail_noBegin : ∀ r ∈ aTail, r.rtype.toNat ≠ RT.beginRequest := by decide

/-- the transport cuts INSIDE the `GetValues` record of the tail: the first read (`.n 37`) brings the
24 bytes of the preamble, the record's header and 5 bytes of its 16-byte payload -/
def atT : Transport :=
  { input := serAll recsA ++ serAll aTail, endMode := .pend,
    rd := [.n 37, .pending, .n 7, .all], wr := [.n 5, .pending, .all], fl := [] }

/-- `authorizer_tail_e2e` applied (KEEP_CONN, handler `[read 4, ret Complete(0)]`): the task parks; the
read returned `Ok(0)`; the log is `O₁ ++ O₂ ++ epilogue ++` the replies of the next request parser for
`t₂`.  Replayed (`# case c07-auth-tail-cut-keep-r4,Xcomplete:0-37,P,7,A`, model driver = crate):
`… HS(2,1,-) r=0:- HE(ok:complete:0) R59:P |1 R59:7 R52:24 W48:5 W43:P |2 W43:43 W32:32 R64:W STALL` — the
handler's read parses the header of the cut `GetValues` record (`Ok(0)`), `record_boundary()` reads on
(a transient `Pending`, 7 bytes — still inside the record —, then the rest) until it stands between
two records (here at the end of the tail: `t₂ = []`), both replies precede the epilogue.  With
`rd=37,P,7,P,4,P,9,A` the loop stops right behind the `GetValues` record: its reply, the epilogue, and the
unknown-type reply after it (`t₂ = [unknown, foreign Stdin]`).  With the handler `[ret]` (no read) the
stream parser has parsed nothing when `close()` runs — it stands at a boundary — and the 13 buffered
bytes go to the next request parser as they are: the epilogue comes first (`t₁ = []`). -/
example : ∃ c' t₁ t₂ O₁ O₂, runTask 20 (connS 64 10 atT [(aHandler (.read 4) false [] (.complete 0), true)]) 0 none =
      (c', "STALL") ∧
    aTail = t₁ ++ t₂ ∧ O₁ ++ O₂ = owedActive 1 10 t₁ ∧ readSomeEvent [] ∈ c'.env.tr.events ∧
    c'.env.tr.wlog = O₁ ++ O₂ ++
      [1, 6, 0, 1, 0, 0, 0, 0, 1, 7, 0, 1, 0, 0, 0, 0, 1, 3, 0, 1, 0, 8, 0, 0, 0, 0, 0, 0, 0, 0, 0, 0] ++
      idleOwed 10 t₂ ∧
    c'.phase = .parseReq (track 64 10 (serAll t₂)) .reading ∧ hsCount c'.env.tr.events = 1 := by
  obtain ⟨c', fin, t1, t2, O1, O2, hrun, ho⟩ := authorizer_tail_e2e (p := preA) (recs := recsA) (tail := aTail)
    (b := 64) (mc := 10) (rd := .read 4) (wr := false) (data := []) (st := .complete 0) (more := []) (t := atT)
    (fuel := 20) recsA_wf rfl (fun q hq => by cases hq) (recsA_fits _) aTail_noise aTail_fits aTail_noBegin
    (fun _ => rfl) rfl ⟨by decide, by decide, rfl, by decide⟩ rfl (by decide) (by decide +kernel) (by decide)
  rcases ho.final with ⟨_, hlog, hf⟩ | ⟨h, _⟩
  · rcases hf with ⟨h, _⟩ | ⟨_, hfin, hph, _⟩
    · exact absurd h (by decide)
    · subst hfin
      refine ⟨c', t1, t2, O1, O2, hrun, ho.split, ho.owed, ho.reads _ (by simp [ARead.evs, readSomeEvent]), ?_, hph,
        ho.one_handler.1⟩
      rw [hlog]
      show [] ++ (owedPreamble preA 10 recsA ++ O1 ++ streamRecords 6 1 [] ++ O2 ++ epilogue 1 (.complete 0) ++
        idleOwed 10 t2) = _
      have h1 : owedPreamble preA 10 recsA = [] := by decide +kernel
      rw [h1, streamRecords_nil]
      simp only [List.nil_append, List.append_nil, List.append_assoc]
      rfl
  · exact absurd h (by decide)

/-- Authorizer request 1 WITHOUT KEEP_CONN -/
def preA0 : Preamble := { id := 1, role := 2, flags := 0, pairs := [] }
def recsA0 : List Rec :=
  [ { rtype := 1, id := 1, content := [0, 2, 0, 0, 0, 0, 0, 0], pad := [] },
    { rtype := 4, id := 1, content := [], pad := [] } ]

theorem recsA0_wf : WellFormedPreamble preA0 recsA0 :=
  .begin [] 0 [0, 0, 0, 0, 0] rfl (by decide) (by decide) (by decide) (fun q hq => by cases hq) (.done [] 0 (by decide))

def at0T : Transport :=
  { input := serAll recsA0 ++ serAll aTail, endMode := .pend,
    rd := [.n 30, .pending, .n 7, .all], wr := [.n 5, .pending, .all], fl := [] }

/-- without KEEP_CONN (handler `[readAll, write "ok", ret]`): the task returns after the epilogue; the log
ends with it. -/
example : ∃ c' t₁ t₂ O₁ O₂, runTask 20 (connS 64 10 at0T [(aHandler .all true [111, 107] (.complete 0), true)]) 0 none =
      (c', "RET") ∧
    aTail = t₁ ++ t₂ ∧ O₁ ++ O₂ = owedActive 1 10 t₁ ∧ readEvent [] ∈ c'.env.tr.events ∧
    c'.env.tr.wlog = O₁ ++ [1, 6, 0, 1, 0, 2, 6, 0, 111, 107, 0, 0, 0, 0, 0, 0] ++ O₂ ++
      [1, 6, 0, 1, 0, 0, 0, 0, 1, 7, 0, 1, 0, 0, 0, 0, 1, 3, 0, 1, 0, 8, 0, 0, 0, 0, 0, 0, 0, 0, 0, 0] ∧
    c'.phase = .finished := by
  obtain ⟨c', fin, t1, t2, O1, O2, hrun, ho⟩ := authorizer_tail_e2e (p := preA0) (recs := recsA0) (tail := aTail)
    (b := 64) (mc := 10) (rd := .all) (wr := true) (data := [111, 107]) (st := .complete 0) (more := []) (t := at0T)
    (fuel := 20) recsA0_wf rfl (fun q hq => by cases hq) (no_getValues_fits (by decide)) aTail_noise aTail_fits
    aTail_noBegin (fun h => nomatch h) rfl ⟨by decide, by decide, rfl, by decide⟩ rfl (by decide) (by decide +kernel)
    (by decide)
  rcases ho.final with ⟨h, _⟩ | ⟨_, hfin, hph, hlog⟩
  · exact absurd h (by decide)
  · subst hfin
    refine ⟨c', t1, t2, O1, O2, hrun, ho.split, ho.owed, ho.reads _ (by simp [ARead.evs, readEvent]), ?_, hph⟩
    rw [hlog]
    show [] ++ (owedPreamble preA0 10 recsA0 ++ O1 ++ streamRecords 6 1 [111, 107] ++ O2 ++ epilogue 1 (.complete 0)) = _
    have h1 : owedPreamble preA0 10 recsA0 = [] := by decide +kernel
    rw [h1]
    simp only [List.nil_append, List.append_assoc]
    rfl

end Example

end Fcgi.C07U
