import Fcgi.Proofs.E2EUnreadChain
import Fcgi.Props.C11E2E
/-!
# C07 / C05 — the handler leaves its input unread

What the connection task (`runTask` on `pollConn`) does for a well-formed Responder request (any
preamble segmentation and noise, any Stdin segmentation with reply-owing noise, any transport
without error answers, KEEP_CONN) whose handler does NOT read Stdin: `[.ret st]` or
`[.open_ 6, .writeAll 0 data, .dropW 0, .ret st]` (`NoRead`).

* `unread_request_e2e`: one handler start; `close()` consumes nothing of the stream
  (`writeable()` ready, `record_boundary()` returns at once); the log is owedPreamble ++ Stdout
  records ++ epilogue ++ the replies owed for the noise in the unread stream — these come AFTER the
  epilogue, written by the next `parse_request`, which swallows the whole stream as idle noise; the
  task ends parked inside that `parse_request` on an empty buffer (or returned at end-of-file).
* `unread_request_e2e_full` / `Example.unread_request_e2e_full_false`: the order "noise replies before
  the epilogue" (as when the handler reads) is false; witness replayed on the compiled model driver
  and on the real crate (harness `--replay`), identical output.
* `k_requests_unread_e2e_partial`: a closed-loop client, k keep-alive requests, each either a request
  of `Props/C07E2E` (any role, read to its end) or a Responder request left wholly unread: k handler
  starts, the log is the concatenation of the k per-request segments (each what a connection
  serving that request alone writes).  Missing (hence `_partial`): handlers reading a strict prefix
  (`unread_prefix_e2e_full`, statement only), Filter requests left unread.
* Forced hypothesis `hnb`: no BeginRequest record among the unread stream records.  Inside the
  stream such a record (other id) is answered `CantMpxConn`; left unread it reaches the next request
  parser, which STARTS a request with it (valid role) — crate and model agree (replayed).
-/
namespace Fcgi.C07U
open Fcgi Fcgi.Req Fcgi.Str Fcgi.Async Fcgi.Run Fcgi.Spec Fcgi.E2E Fcgi.C07E

/-- the write-only handler -/
abbrev writeOnly (data : Bytes) (st : ExitStatus) : List HOp := [.open_ 6, .writeAll 0 data, .dropW 0, .ret st]

/-- `hs` is a handler script that reads nothing, writes `data` to Stdout (nothing for `[.ret st]`)
and returns `st` -/
def NoRead (hs : List HOp) (data : Bytes) (st : ExitStatus) : Prop :=
  (hs = [.ret st] ∧ data = []) ∨ hs = writeOnly data st

/-- the configuration of a Responder request whose Stdin records `srecs` all stay unread -/
def cfgU (p : Preamble) (recs srecs : List Rec) (b mc : Nat) (data : Bytes) (st : ExitStatus) (hs : List HOp)
    (L0 : Bytes) (h : Nat) (more : List (List HOp × Bool)) : E2E.Cfg :=
  ⟨p, recs, [], srecs, [], 0, [], [], [], 0, b, mc, data, st, L0, h, more, serAll srecs, [], serAll srecs, [], [], hs⟩

theorem streamRecs_wf {id s : Nat} (hid : id < 65536) (hs : s < 256) {c : Bytes} {rs : List Rec}
    (h : StreamRecs id s c rs) : ∀ r ∈ rs, r.WF := by
  induction h with
  | term pad res hp => intro r hr; rw [List.mem_singleton.1 hr]; exact ⟨hid, by simp, hp⟩
  | noise r hn t ih =>
    intro x hx
    rcases List.mem_cons.1 hx with rfl | hx
    · exact hn.1
    · exact ih x hx
  | chunk c pad res hc hp t ih =>
    intro x hx
    rcases List.mem_cons.1 hx with rfl | hx
    · exact ⟨hid, hc.2, hp⟩
    · exact ih x hx

/-- stream records none of which is a BeginRequest are idle noise for the request parser -/
theorem idle_of_noBegin {rs : List Rec} (hwf : ∀ r ∈ rs, r.WF) (hnb : ∀ r ∈ rs, r.rtype.toNat ≠ RT.beginRequest) :
    ∀ r ∈ rs, IdleNoise r := fun r hr => ⟨hwf r hr, fun hx => absurd hx (hnb r hr)⟩

/-- … and are owed, as idle noise, exactly what they are owed inside the stream -/
theorem idleOwed_eq_owedStream {id s mc : Nat} {c : Bytes} {rs : List Rec} (h : StreamRecs id s c rs) (hs : s < 256)
    (hsv : RT.valid s = true) (hsb : s ≠ RT.beginRequest) (hsg : s ≠ RT.getValues)
    (hnb : ∀ r ∈ rs, r.rtype.toNat ≠ RT.beginRequest) : idleOwed mc rs = owedStream id s mc rs := by
  have key : ∀ r : Rec, r.rtype.toNat ≠ RT.beginRequest →
      owed none mc r = (if r.rtype.toNat == s && r.id == id then [] else owed (some id) mc r) := by
    intro r hb
    have hcur : owed none mc r = owed (some id) mc r := by
      simp only [owed]
      split
      · rfl
      · split
        · rfl
        · rw [if_neg (by simpa using hb), if_neg (by simpa using hb)]
    split
    · rename_i hc
      simp only [Bool.and_eq_true, beq_iff_eq] at hc
      exact C04.owed_other none mc r (by rw [hc.1]; exact hsv) (by rw [hc.1]; exact hsb)
        (fun hx => hsg (hc.1 ▸ hx.1))
    · exact hcur
  clear h
  induction rs with
  | nil => rfl
  | cons r rs ih =>
    have h1 := key r (hnb r List.mem_cons_self)
    have h2 := ih (fun x hx => hnb x (List.mem_cons_of_mem _ hx))
    simp only [idleOwed, owedStream, List.flatMap_cons] at h2 ⊢
    rw [h1, h2]

/-- the stream's records as the next request parser sees them -/
theorem srecs_idle {p : Preamble} {recs content srecs} (hwf : WellFormedPreamble p recs)
    (hstr : StreamRecs p.id 5 content srecs) (hnb : ∀ r ∈ srecs, r.rtype.toNat ≠ RT.beginRequest) :
    ∀ r ∈ srecs, IdleNoise r :=
  idle_of_noBegin (streamRecs_wf (pid_of_wf hwf).2 (by decide) hstr) hnb

/-- what the run of an unread request ends in (`L` = the complete log of the request) -/
structure UnreadOutcome (p : Preamble) (srecs : List Rec) (b mc : Nat) (L : Bytes)
    (more : List (List HOp × Bool)) (t : Transport) (c' : Conn) (fin : String) : Prop where
  /-- exactly one handler start, for the request sent -/
  one_handler : hsCount c'.env.tr.events = 1 ∧ startEvent p.request ∈ c'.env.tr.events
  log : c'.env.tr.wlog = L
  scripts : c'.scripts = more
  /-- the next `parse_request` has swallowed the whole unread stream and waits for the next request on
  an empty buffer (its state: `header`, or `HeaderValues{0,0}` if the stream's last record was an
  empty management `GetValues`) — or the peer has closed and the task returned -/
  final : (t.endMode = .eof ∧ fin = "RET" ∧ c'.phase = .finished) ∨
          (t.endMode = .pend ∧ fin = "STALL" ∧
            c'.phase = .parseReq (track (alignedBufsize b) mc (serAll srecs)) .reading ∧
            c'.env.tr.input = [] ∧ c'.env.mutex = none ∧ c'.stop = false ∧ Ben c'.env.tr)

theorem track_srecs_input {p : Preamble} {recs content srecs} (hwf : WellFormedPreamble p recs)
    (hstr : StreamRecs p.id 5 content srecs) (hnb : ∀ r ∈ srecs, r.rtype.toNat ≠ RT.beginRequest) (cap mc : Nat) :
    (track cap mc (serAll srecs)).input = [] ∧ (track cap mc (serAll srecs)).state.isFinal = false :=
  ⟨(run_idle_out mc srecs (srecs_idle hwf hstr hnb)).2.1, (run_idle_out mc srecs (srecs_idle hwf hstr hnb)).2.2⟩

/-- **C07/C05 end to end: the handler reads nothing.**

A Responder request with KEEP_CONN: well-formed preamble (any segmentation, any noise within the C06
bound), a Stdin stream with ANY segmentation and ANY noise (management `GetValues` bodies within the
same bound) except BeginRequest records (`hnb`, forced — see `unread_begin_noise`), all of it in the
transport; any transport without error answers; the handler `hs` reads nothing (`NoRead`).  Then:

* exactly one handler start, for the request sent;
* `close()`: `writeable()` is ready at once, `record_boundary()` returns at once (the stream parser
  has not started a record) — NOTHING of the Stdin stream is consumed by the request;
* the write log is exactly, in this order: the replies owed for the preamble, the Stdout records of
  `data`, `[Stdout∅][Stderr∅][EndRequest(id, st)]`, and only THEN the replies owed for the noise in
  the unread stream (`owedStream`; they are generated by the NEXT request parser, which swallows the
  stream's records — data records and terminator without reply — as idle noise);
* the task is then inside the next `parse_request`, parked on an empty buffer (`STALL`), or has
  returned because the peer closed (`RET`). -/
theorem unread_request_e2e {p : Preamble} {recs : List Rec} {content : Bytes} {srecs : List Rec}
    {b mc : Nat} {data : Bytes} {st : ExitStatus} {hs : List HOp} {more : List (List HOp × Bool)}
    {t : Transport} {fuel : Nat}
    (hnr : NoRead hs data st)
    (hwf : WellFormedPreamble p recs) (hrole : p.role = 1) (hk : p.flags.toNat % 2 = 1)
    (hpairs : ∀ q ∈ p.pairs, (NV.enc q).length ≤ alignedBufsize b)
    (hnoise : NoiseFits (alignedBufsize b) recs)
    (hstr : StreamRecs p.id 5 content srecs) (hsn : NoiseFits (alignedBufsize b) srecs)
    (hnb : ∀ r ∈ srecs, r.rtype.toNat ≠ RT.beginRequest)
    (hin : t.input = serAll recs ++ serAll srecs) (hben : Ben t) (hev : hsCount t.events = 0)
    (hfuel : t.rd.length + t.wr.length + 1 ≤ fuel)
    (hsize : 6 * t.input.length + 26 ≤ 100000) (hhf : wcost data.length + 4 ≤ 1000) :
    ∃ c' fin, runTask fuel (connS b mc t ((hs, true) :: more)) 0 none = (c', fin) ∧
      UnreadOutcome p srecs b mc
        (t.wlog ++ (owedPreamble p mc recs ++ streamRecords 6 p.id data ++ epilogue p.id st ++
          owedStream p.id 5 mc srecs)) more t c' fin := by
  have hidle := srecs_idle hwf hstr hnb
  have ok : UOK (cfgU p recs srecs b mc data st hs t.wlog 0 more) :=
    ⟨hwf, hrole, hpairs, hnoise, rfl, rfl, rfl, rfl, hnr, hhf⟩
  obtain ⟨hns, hNF⟩ := idle_front dummy_wf b mc (fun q hq => by cases hq) (dummy_fits _) hidle hsn []
  have hst : UStage (cfgU p recs srecs b mc data st hs t.wlog 0 more) (connS b mc t ((hs, true) :: more)) :=
    .start (raw := []) rfl (by show [] ++ t.input = _; rw [hin]; rfl) (Nat.zero_le _) rfl hben rfl rfl rfl hev
  obtain ⟨c', fin, hrun, hkp, hem, _, _, _, hend⟩ := run_unread ok hk (Z := serAll dummyRecs ++ []) hns hNF t.endMode [] _ 0 fuel
    hst rfl (fun s hs => by cases hs) rfl (by show ans t + 1 ≤ fuel; unfold ans; omega) hsize
  have hLU : (cfgU p recs srecs b mc data st hs t.wlog 0 more).LU =
      t.wlog ++ (owedPreamble p mc recs ++ streamRecords 6 p.id data ++ epilogue p.id st) := by
    show ((t.wlog ++ owedPreamble p mc recs) ++ streamRecords 6 p.id data ++
      makeRequestEpilogue p.id st [RT.stdout, RT.stderr]) = _
    rw [epilogue_eq]; simp only [List.append_assoc]
  have hout : ∀ F, F ++ (serAll dummyRecs ++ []) = serAll srecs ++ (serAll dummyRecs ++ []) →
      (cfgU p recs srecs b mc data st hs t.wlog 0 more).LU ++ (run .header F mc).out =
      t.wlog ++ (owedPreamble p mc recs ++ streamRecords 6 p.id data ++ epilogue p.id st ++
          owedStream p.id 5 mc srecs) := by
    intro F hF
    rw [List.append_cancel_right hF, (run_idle_out mc srecs hidle).1, hLU,
      idleOwed_eq_owedStream hstr (by decide) (by decide) (by decide) (by decide) hnb]
    simp only [List.append_assoc]
  refine ⟨c', fin, hrun, ⟨hkp.hs, hkp.ev _ List.mem_cons_self⟩, ?_, hkp.sc, ?_⟩
  · rcases hend with ⟨_, hp⟩ | ⟨_, hf⟩
    · obtain ⟨F, hF, _, _, hlg⟩ := hp.pst
      rw [hlg]; exact hout F hF
    · obtain ⟨F, hF, hlg⟩ := hf.log
      rw [hlg]; exact hout F hF
  · rcases hend with ⟨rfl, hp⟩ | ⟨rfl, hf⟩
    · obtain ⟨F, hF, hps, hph, _⟩ := hp.pst
      have hFe : F = serAll srecs := List.append_cancel_right hF
      subst hFe
      exact Or.inr ⟨hem.symm.trans hp.em, rfl, hph, hp.inp, hkp.mx, hps.stop, hps.ben⟩
    · exact Or.inl ⟨hem.symm.trans hf.em, rfl, hf.ph⟩

/-! ## Chains: each handler reads everything or nothing -/

/-- One request of a keep-alive chain: a request of `Props/C07E2E` (any role, canonical handler: its
input streams are read to their ends), or a Responder request whose handler reads nothing. -/
inductive UReq
  | full (q : Sent)
  | unread (p : Preamble) (recs : List Rec) (content : Bytes) (srecs : List Rec) (data : Bytes)
      (st : ExitStatus) (hs : List HOp)

namespace UReq
def p : UReq → Preamble
  | .full q => q.p
  | .unread p .. => p
/-- the bytes the client sends for it -/
def wire : UReq → Bytes
  | .full q => q.wire
  | .unread _ recs _ srecs _ _ _ => serAll recs ++ serAll srecs
def handler : UReq → List HOp × Bool
  | .full q => q.handler
  | .unread _ _ _ _ _ _ hs => (hs, true)
/-- what it leaves to the next `parse_request` -/
def left : UReq → List Rec
  | .full _ => []
  | .unread _ _ _ srecs _ _ _ => srecs
/-- its segment of the write log — exactly what a connection serving it alone writes -/
def Seg (mc : Nat) : UReq → Bytes → Prop
  | .full q, A => ∃ O₁ O₂, O₁ ++ O₂ = q.owed mc ∧ A = expectedLogN q.p q.recs mc q.data q.st O₁ O₂
  | .unread p recs _ srecs data st _, A =>
    A = owedPreamble p mc recs ++ streamRecords 6 p.id data ++ epilogue p.id st ++ owedStream p.id 5 mc srecs
def spec (mc : Nat) (x : UReq) : RSpec := ⟨x.wire, x.handler, x.left, x.Seg mc, hsEvent x.p.request⟩
/-- the hypotheses of `single_request_e2e*` resp. `unread_request_e2e` (all with KEEP_CONN) -/
def OK (b : Nat) : UReq → Prop
  | .full q => q.OK b ∧ q.p.flags.toNat % 2 = 1
  | .unread p recs content srecs data st hs =>
    NoRead hs data st ∧ WellFormedPreamble p recs ∧ p.role = 1 ∧ p.flags.toNat % 2 = 1 ∧
    (∀ q ∈ p.pairs, (NV.enc q).length ≤ alignedBufsize b) ∧ NoiseFits (alignedBufsize b) recs ∧
    StreamRecs p.id 5 content srecs ∧ NoiseFits (alignedBufsize b) srecs ∧
    (∀ r ∈ srecs, r.rtype.toNat ≠ RT.beginRequest) ∧
    6 * (serAll recs ++ serAll srecs).length + 26 ≤ 100000 ∧ wcost data.length + 4 ≤ 1000
end UReq

theorem startAt_base {cap mc : Nat} {left : List Rec} {Lw : Bytes} {sc : List (List HOp × Bool)} {h : Nat}
    {evs : List String} {A0 : Nat} {W : Bytes} {c : Conn} (hs : StartAt cap mc left Lw sc h evs A0 W c)
    (hl : ∀ e ∈ left, IdleNoise e) : ∃ L, Lw = L ++ idleOwed mc left := by
  rcases hs with ⟨c0, w, _⟩ | ⟨rfl, _⟩
  · obtain ⟨L, hL⟩ := w.logL
    exact ⟨L, by rw [hL, (run_idle_out mc left hl).1]⟩
  · exact ⟨Lw, by simp [idleOwed]⟩

theorem sent_wire_pre (q : Sent) : q.wire = serAll q.recs ++ (serAll q.srecs ++ serAll q.drecs) := rfl

/-- a request read to its end is served from any start -/
theorem serves_full {b mc : Nat} {q : Sent} (hq : q.OK b) (hk : q.p.flags.toNat % 2 = 1) (Z : Bytes) :
    Serves (alignedBufsize b) mc ((UReq.full q).spec mc) Z := by
  intro left Lw sc h evs A0 c n fuel hleft hstart hf
  obtain ⟨L, hLw⟩ := startAt_base hstart hleft.1
  have ok := cfg_ok (mc := mc) hq L h sc
  have hleft' : LeftOK (alignedBufsize (q.cfg b mc L h sc).b) left := by rw [cfg_b]; exact hleft
  have hstart' : StartAt (q.cfg b mc L h sc).cap (q.cfg b mc L h sc).mc left Lw
      (((q.cfg b mc L h sc).hscript, true) :: (q.cfg b mc L h sc).more) (q.cfg b mc L h sc).hs0 evs A0
      (q.cfg b mc L h sc).W c := by
    rw [E2E.Cfg.cap, cfg_b, cfg_mc, cfg_hscript, cfg_more, cfg_hs0, cfg_W]; exact hstart
  obtain ⟨c', O1, O2, hrun, hO, hw, _⟩ := serve_full_core ok (by rw [cfg_p]; exact hk) hleft' n fuel
    (by rw [cfg_L0, cfg_mc]; exact hLw) hstart' hf (by rw [cfg_W]; exact hq.hsize)
  rw [cfg_Ot] at hO
  refine ⟨c', expectedLogN q.p q.recs mc q.data q.st O1 O2, hrun, ⟨O1, O2, hO, rfl⟩, ?_⟩
  have hL3 : ((q.cfg b mc L h sc).front left).L3 O1 O2 = Lw ++ expectedLogN q.p q.recs mc q.data q.st O1 O2 := by
    rw [L3_eq]
    show (q.cfg b mc L h sc).L0 ++ expectedLogN (q.cfg b mc L h sc).p (left ++ (q.cfg b mc L h sc).recs)
      (q.cfg b mc L h sc).mc (q.cfg b mc L h sc).data (q.cfg b mc L h sc).st O1 O2 = _
    rw [cfg_L0, cfg_p, cfg_recs, cfg_mc, cfg_data, cfg_st, hLw]
    simp only [expectedLogN, owedPreamble_idle q.p mc left hleft.1, List.append_assoc]
  rw [hL3, E2E.Cfg.cap, cfg_b, cfg_mc, cfg_more, cfg_hs0, cfg_p] at hw
  exact hw

/-- a request whose handler reads nothing is served from any start, if what follows it (`Z`) is fine
behind its unread stream -/
theorem serves_unread {b mc : Nat} {p : Preamble} {recs : List Rec} {content : Bytes} {srecs : List Rec}
    {data : Bytes} {st : ExitStatus} {hs : List HOp}
    (hx : (UReq.unread p recs content srecs data st hs).OK b) {Z : Bytes}
    (hZ : GoodNext (alignedBufsize b) mc srecs Z) :
    Serves (alignedBufsize b) mc ((UReq.unread p recs content srecs data st hs).spec mc) Z := by
  obtain ⟨hnr, hwf, hrole, hk, hpairs, hnoise, hstr, hsn, hnb, hsize, hhf⟩ := hx
  intro left Lw sc h evs A0 c n fuel hleft hstart hf
  obtain ⟨L, hLw⟩ := startAt_base hstart hleft.1
  have hidle := srecs_idle hwf hstr hnb
  have ok : UOK (cfgU p recs srecs b mc data st hs L h sc) :=
    ⟨hwf, hrole, hpairs, hnoise, rfl, rfl, rfl, rfl, hnr, hhf⟩
  obtain ⟨c', hrun, hw⟩ := serve_unread_core ok hk (left := left) hleft (Z := Z) hidle hZ n fuel hLw hstart hf hsize
  refine ⟨c', _, hrun, rfl, ?_⟩
  have hLU : ((cfgU p recs srecs b mc data st hs L h sc).front left).LU ++ idleOwed mc srecs =
      Lw ++ (owedPreamble p mc recs ++ streamRecords 6 p.id data ++ epilogue p.id st ++ owedStream p.id 5 mc srecs) := by
    show (((cfgU p recs srecs b mc data st hs L h sc).front left).L1 ++ streamRecords 6 p.id data ++
      makeRequestEpilogue p.id st [RT.stdout, RT.stderr]) ++ idleOwed mc srecs = _
    rw [E2E.Cfg.front_L1 _ hleft.1, epilogue_eq,
      idleOwed_eq_owedStream hstr (by decide) (by decide) (by decide) (by decide) hnb, hLw]
    simp only [List.append_assoc]
    rfl
  have hw' : Waiting (alignedBufsize b) mc srecs
      (((cfgU p recs srecs b mc data st hs L h sc).front left).LU ++ idleOwed mc srecs) sc (h + 1)
      (hsEvent p.request :: evs) A0 c' := hw
  rw [hLU] at hw'
  exact hw'

/-- any request of the chain is fine behind what the previous one left unread -/
theorem goodNext_of_ok {b mc : Nat} {x : UReq} (hx : x.OK b) {left : List Rec} (hl : LeftOK (alignedBufsize b) left) :
    GoodNext (alignedBufsize b) mc left x.wire := by
  cases x with
  | full q =>
    obtain ⟨hwf, hpairs, hnoise, _⟩ := hx.1
    exact idle_front hwf b mc hpairs hnoise hl.1 hl.2 _
  | unread p recs content srecs data st hs =>
    obtain ⟨_, hwf, _, _, hpairs, hnoise, _⟩ := hx
    exact idle_front hwf b mc hpairs hnoise hl.1 hl.2 _

theorem leftOK_of_ok {b : Nat} {x : UReq} (hx : x.OK b) : LeftOK (alignedBufsize b) x.left := by
  cases x with
  | full q => exact ⟨(fun _ he => nomatch he), (fun _ hr => nomatch hr)⟩
  | unread p recs content srecs data st hs =>
    obtain ⟨_, hwf, _, _, _, _, hstr, hsn, hnb, _⟩ := hx
    exact ⟨srecs_idle hwf hstr hnb, hsn⟩

theorem serves_of_ok {b mc : Nat} {x : UReq} (hx : x.OK b) {Z : Bytes}
    (hZ : GoodNext (alignedBufsize b) mc x.left Z) : Serves (alignedBufsize b) mc (x.spec mc) Z := by
  cases x with
  | full q => exact serves_full hx.1 hx.2 Z
  | unread p recs content srecs data st hs => exact serves_unread hx hZ

/-- the log segments of the requests, in order -/
def SegsAll (mc : Nat) : List UReq → Bytes → Prop
  | [], A => A = []
  | x :: xs, A => ∃ A₁ A₂, x.Seg mc A₁ ∧ SegsAll mc xs A₂ ∧ A = A₁ ++ A₂

theorem segAll_specs (mc : Nat) : ∀ (xs : List UReq) (A : Bytes), SegAll (xs.map (UReq.spec mc)) A → SegsAll mc xs A
  | [], _, h => h
  | _ :: xs, _, ⟨A1, A2, h1, h2, h3⟩ => ⟨A1, A2, h1, segAll_specs mc xs A2 h2, h3⟩

/-- **C05/C07: k keep-alive requests, each handler reading everything or nothing** (`_partial`: the
per-request choice "reads a strict prefix" is missing, see `unread_prefix_e2e_full`; so are Filter
requests left unread — an Authorizer has nothing to read and is covered by `UReq.full`).

A closed-loop client (`closedLoop`: the next request is sent when the task has parked) sends
`x :: xs` on one connection, all with KEEP_CONN; each is a request of `Props/C07E2E` read to its end
by its canonical handler (any role), or a Responder request whose handler reads nothing
(`UReq.OK`).  Then there are exactly `k` handler starts, one per request with that request's
`Request` (id, role, flags, environment); the write log is the concatenation, in order, of the `k`
segments `UReq.Seg` — each exactly what a connection serving that request alone writes
(`single_request_e2e*` / `unread_request_e2e`) —; all scripts are consumed; and the task is parked
inside `parse_request`, having swallowed what the last request left unread. -/
theorem k_requests_unread_e2e_partial {b mc : Nat} (x : UReq) (xs : List UReq) {t : Transport} {fuel : Nat}
    (hok : ∀ y ∈ x :: xs, y.OK b)
    (hin : t.input = x.wire) (hben : Ben t) (hem : t.endMode = .pend) (hev : hsCount t.events = 0)
    (hfuel : t.rd.length + t.wr.length + 1 ≤ fuel) :
    ∃ c' A, closedLoop fuel (xs.map UReq.wire) (connS b mc t ((x :: xs).map UReq.handler)) 0 = (c', "STALL") ∧
      SegsAll mc (x :: xs) A ∧ c'.env.tr.wlog = t.wlog ++ A ∧
      hsCount c'.env.tr.events = (x :: xs).length ∧
      (∀ y ∈ x :: xs, startEvent y.p.request ∈ c'.env.tr.events) ∧ c'.scripts = [] ∧
      c'.env.tr.input = [] ∧
      c'.phase = .parseReq (track (alignedBufsize b) mc (serAll ((x :: xs).getLast (by simp)).left)) .reading := by
  have hstart : StartAt (alignedBufsize b) mc [] t.wlog (((x :: xs).map (UReq.spec mc)).map RSpec.handler) 0 [] (ans t)
      ((UReq.spec mc x).W) (connS b mc t ((x :: xs).map UReq.handler)) := by
    refine Or.inr ⟨rfl, rfl, hin, rfl, hben, rfl, ?_, rfl, hev, (fun _ hs => nomatch hs), rfl, hem, Nat.le_refl _⟩
    show (x :: xs).map UReq.handler = _
    rw [List.map_map]; rfl
  have hall : ∀ ys y zs, (UReq.spec mc x) :: xs.map (UReq.spec mc) = ys ++ y :: zs →
      Serves (alignedBufsize b) mc y (nextW (serAll dummyRecs ++ []) zs) ∧ LeftOK (alignedBufsize b) y.left := by
    intro ys y zs he
    have he' : (x :: xs).map (UReq.spec mc) = ys ++ y :: zs := he
    obtain ⟨l1, l2, hl, h1, h2⟩ := List.map_eq_append_iff.1 he'
    cases l2 with
    | nil => cases h2
    | cons y0 l3 =>
      simp only [List.map_cons, List.cons.injEq] at h2
      obtain ⟨rfl, rfl⟩ := h2
      have hy0 : y0.OK b := hok y0 (by rw [hl]; simp)
      refine ⟨serves_of_ok hy0 ?_, leftOK_of_ok hy0⟩
      cases l3 with
      | nil =>
        have hl0 := leftOK_of_ok hy0
        exact idle_front dummy_wf b mc (fun _ hq => nomatch hq) (dummy_fits _) hl0.1 hl0.2 []
      | cons y1 l4 =>
        have hy1 : y1.OK b := hok y1 (by rw [hl]; simp)
        exact goodNext_of_ok hy1 (leftOK_of_ok hy0)
  obtain ⟨c', A, hrun, hseg, hw⟩ := chain_serves (alignedBufsize b) mc (serAll dummyRecs ++ [])
    (xs.map (UReq.spec mc)) (UReq.spec mc x) [] t.wlog 0 [] (ans t) _ 0 fuel hall
    ⟨(fun _ he => nomatch he), (fun _ hr => nomatch hr)⟩ hstart (by unfold ans; omega)
  have hrun' : closedLoop fuel (xs.map UReq.wire) (connS b mc t ((x :: xs).map UReq.handler)) 0 = (c', "STALL") := by
    rw [← hrun, List.map_map]; rfl
  have hlast : lastLeft (xs.map (UReq.spec mc)) (UReq.spec mc x).left = ((x :: xs).getLast (by simp)).left := by
    clear hrun hrun' hw hseg hall hstart hok hin
    induction xs generalizing x with
    | nil => rfl
    | cons y ys ih => simp only [List.map_cons, lastLeft, List.getLast_cons_cons]; exact ih y
  refine ⟨c', A, hrun', segAll_specs mc (x :: xs) A hseg, hw.log, ?_, ?_, hw.sc, hw.inp, ?_⟩
  · have := hw.hs; simpa using this
  · intro y hy
    exact hw.ev _ (mem_evsAfter _ _ _ (Or.inr ⟨UReq.spec mc y, List.mem_map_of_mem hy, rfl⟩))
  · rw [← hlast]; exact hw.ph

/-! ## What is not proved, and what is false -/

/-- The statement with the replies for the unread stream's noise BEFORE the epilogue (as for a
handler that reads the stream: `single_request_e2e`).  False: `close` consumes nothing of an unread
stream, the replies are generated by the next request parser, after the epilogue. -/
def unread_request_e2e_full : Prop :=
  ∀ (p : Preamble) (recs : List Rec) (content : Bytes) (srecs : List Rec) (b mc : Nat) (st : ExitStatus)
    (t : Transport) (fuel : Nat),
    WellFormedPreamble p recs → p.role = 1 → p.flags.toNat % 2 = 1 →
    (∀ q ∈ p.pairs, (NV.enc q).length ≤ alignedBufsize b) → NoiseFits (alignedBufsize b) recs →
    StreamRecs p.id 5 content srecs → NoiseFits (alignedBufsize b) srecs →
    (∀ r ∈ srecs, r.rtype.toNat ≠ RT.beginRequest) →
    t.input = serAll recs ++ serAll srecs → Ben t → hsCount t.events = 0 →
    t.rd.length + t.wr.length + 1 ≤ fuel → 6 * t.input.length + 26 ≤ 100000 →
    ∃ c' fin, runTask fuel (connS b mc t [([.ret st], true)]) 0 none = (c', fin) ∧
      c'.env.tr.wlog = t.wlog ++ (owedPreamble p mc recs ++ owedStream p.id 5 mc srecs ++ epilogue p.id st)

/-- **The handler reads a strict prefix** (`.read n`, then returns) — statement only, NOT proved.
`close`'s `record_boundary()` then runs the stream parser in "ignore" mode over whatever is buffered
until it stands at a record boundary: a chunking-dependent record-prefix `s₁` of the stream is
consumed by the request (its noise answered as in-stream noise, before the epilogue), the rest `s₂`
goes to the next request parser (answered as idle noise, after the epilogue).  The proof needs the
stream parser's reference semantics for `stream = None` (`C03StrSet`), which `Proofs/E2EStr` does not
cover. -/
def unread_prefix_e2e_full : Prop :=
  ∀ (p : Preamble) (recs : List Rec) (content : Bytes) (srecs : List Rec) (b mc n : Nat) (st : ExitStatus)
    (t : Transport) (fuel : Nat),
    WellFormedPreamble p recs → p.role = 1 → p.flags.toNat % 2 = 1 →
    (∀ q ∈ p.pairs, (NV.enc q).length ≤ alignedBufsize b) → NoiseFits (alignedBufsize b) recs →
    StreamRecs p.id 5 content srecs → NoiseFits (alignedBufsize b) srecs →
    (∀ r ∈ srecs, r.rtype.toNat ≠ RT.beginRequest) →
    t.input = serAll recs ++ serAll srecs → Ben t → t.endMode = .pend → hsCount t.events = 0 →
    t.rd.length + t.wr.length + 1 ≤ fuel → 6 * t.input.length + 26 ≤ 100000 →
    ∃ c' s₁ s₂ O₁ O₂, runTask fuel (connS b mc t [([.read n, .ret st], true)]) 0 none = (c', "STALL") ∧
      srecs = s₁ ++ s₂ ∧ O₁ ++ O₂ = owedStream p.id 5 mc s₁ ∧
      c'.env.tr.wlog = t.wlog ++ (owedPreamble p mc recs ++ O₁ ++ O₂ ++ epilogue p.id st ++ idleOwed mc s₂) ∧
      hsCount c'.env.tr.events = 1 ∧ c'.env.tr.input = []

/-! ## Non-vacuity -/
namespace Example
open Fcgi.C01.Example Fcgi.C07E.Example

theorem nS_noBegin : ∀ r ∈ nS, r.rtype.toNat ≠ RT.beginRequest := by decide

/-- `unread_request_e2e` applied to the request of `Props/C07E2E` whose Stdin stream `nS` carries a
management `GetValues` record and an unknown-type record: the handler `[.ret Complete(3)]` reads
nothing; the epilogue comes first, the two replies after it; the task parks. -/
example : ∃ c', runTask 20 (connS 64 10 nT [([.ret (.complete 3)], true)]) 0 none = (c', "STALL") ∧
    c'.env.tr.wlog = owedPreamble pre 10 recs ++
      [1, 6, 0, 1, 0, 0, 0, 0, 1, 7, 0, 1, 0, 0, 0, 0, 1, 3, 0, 1, 0, 8, 0, 0, 0, 0, 0, 3, 0, 0, 0, 0] ++
      owedStream 1 5 10 nS ∧ owedStream 1 5 10 nS ≠ [] ∧
    hsCount c'.env.tr.events = 1 ∧ c'.env.tr.input = [] := by
  obtain ⟨c', fin, hrun, ho⟩ := unread_request_e2e (p := pre) (recs := recs) (content := [65, 66, 67]) (srecs := nS)
    (b := 64) (mc := 10) (data := []) (st := .complete 3) (hs := [.ret (.complete 3)]) (more := []) (t := nT)
    (fuel := 20) (Or.inl ⟨rfl, rfl⟩) recs_wf rfl (by decide) (pre_pairs_fit 64) (noise_fits 64) nS_ok nS_fits
    nS_noBegin rfl ⟨by decide, by decide, rfl, by decide⟩ rfl (by decide) (by decide +kernel) (by decide)
  rcases ho.final with ⟨h, _⟩ | ⟨_, hfin, _, hin, _⟩
  · exact absurd h (by decide)
  · subst hfin
    refine ⟨c', hrun, ?_, by decide +kernel, ho.one_handler.1, hin⟩
    rw [ho.log]
    show [] ++ (owedPreamble pre 10 recs ++ streamRecords 6 1 [] ++ epilogue 1 (.complete 3) ++ owedStream 1 5 10 nS) = _
    rw [List.nil_append, streamRecords_nil, List.append_nil]
    rfl

/-- the witness against `unread_request_e2e_full`: the same run.  As a line of the driver protocol
(`# case c07-unread-witness`): `t.run B=64 mc=10 in=<hex of serAll recs ++ serAll nS> end=pend
rd=10,P,7,A,3 wr=5,P,A,1,P fl=- stop=none h=Xcomplete:3` — the compiled model driver and the real
crate (harness `--replay`) both print `… HS(1,1,41:62) HE(ok:complete:3) W32:32 W32:32 R61:29 W16:16
R64:W STALL` with the two noise replies behind the `EndRequest` in `wlog`. -/
theorem unread_request_e2e_full_false : ¬ unread_request_e2e_full := by
  intro h
  obtain ⟨c1, fin1, hrun1, hlog1⟩ := h pre recs [65, 66, 67] nS 64 10 (.complete 3) nT 20 recs_wf rfl (by decide)
    (pre_pairs_fit 64) (noise_fits 64) nS_ok nS_fits nS_noBegin rfl ⟨by decide, by decide, rfl, by decide⟩ rfl
    (by decide) (by decide +kernel)
  obtain ⟨c', fin, hrun, ho⟩ := unread_request_e2e (p := pre) (recs := recs) (content := [65, 66, 67]) (srecs := nS)
    (b := 64) (mc := 10) (data := []) (st := .complete 3) (hs := [.ret (.complete 3)]) (more := []) (t := nT)
    (fuel := 20) (Or.inl ⟨rfl, rfl⟩) recs_wf rfl (by decide) (pre_pairs_fit 64) (noise_fits 64) nS_ok nS_fits
    nS_noBegin rfl ⟨by decide, by decide, rfl, by decide⟩ rfl (by decide) (by decide +kernel) (by decide)
  rw [hrun] at hrun1
  cases hrun1
  have := ho.log
  rw [hlog1] at this
  have h2 := List.append_cancel_left this
  rw [streamRecords_nil, List.append_nil, List.append_assoc, List.append_assoc] at h2
  have h3 := List.append_cancel_left h2
  revert h3
  decide +kernel

/-- three requests on one connection: the request above with a write-only handler (reads nothing),
the Authorizer request `q2` of `Props/C07E2E`, and `q1` read to its end -/
def u1 : UReq := .unread pre recs [65, 66, 67] nS [104, 105] (.complete 0) (writeOnly [104, 105] (.complete 0))

def uT : Transport :=
  { input := u1.wire, endMode := .pend,
    rd := [.n 10, .pending, .n 7, .all, .n 3], wr := [.n 5, .pending, .all, .n 1, .pending], fl := [] }

theorem u1_ok : u1.OK 64 :=
  ⟨Or.inr rfl, recs_wf, rfl, by decide, pre_pairs_fit 64, noise_fits 64, nS_ok, nS_fits, nS_noBegin,
    by decide +kernel, by decide⟩

/-- `k_requests_unread_e2e_partial` applied: three handler starts, the log is the three segments in
order (the first with the noise replies behind its epilogue), the task ends parked. -/
example : ∃ c' A, closedLoop 20 [q2.wire, q1.wire] (connS 64 10 uT [u1.handler, q2.handler, q1.handler]) 0 = (c', "STALL") ∧
    SegsAll 10 [u1, .full q2, .full q1] A ∧ c'.env.tr.wlog = A ∧ hsCount c'.env.tr.events = 3 ∧
    c'.scripts = [] ∧ c'.env.tr.input = [] := by
  obtain ⟨c', A, hrun, hseg, hlog, hhs, _, hsc, hin, _⟩ := k_requests_unread_e2e_partial (b := 64) (mc := 10) u1
    [.full q2, .full q1] (t := uT) (fuel := 20)
    (fun y hy => by
      simp only [List.mem_cons, List.not_mem_nil, or_false] at hy
      rcases hy with rfl | rfl | rfl
      · exact u1_ok
      · exact ⟨q2_ok, by decide⟩
      · exact ⟨q1_ok, by decide⟩)
    rfl ⟨by decide, by decide, rfl, by decide⟩ rfl rfl (by decide)
  exact ⟨c', A, hrun, hseg, hlog.trans (List.nil_append _), hhs, hsc, hin⟩

end Example

end Fcgi.C07U
