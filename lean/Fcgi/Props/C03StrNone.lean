import Fcgi.Props.C18None2
import Fcgi.Props.C03StrSet
/-!
# C03, stream parser — histories with `set_stream(None)`: the switch point does not matter

`Props/C03StrSet.lean` covers histories whose `set_stream` calls name a stream (`SetSome`).  `close()` calls
`set_stream(None)` — at whatever point the handler stopped reading.  Here the two-phase shape
`A ++ [set_stream(None)] ++ B` (no other `set_stream`), on ARBITRARY input:

* `hclass_none`, `ref_switch_none` — the phase lemma of `Proofs/StrPhase.lean` (`ref_switch`) for the switch to NO
  stream: with `E₀ = E.withStream 0` (the reference configuration of a parser without active stream,
  `Proofs/StrHostileNone.lean`), `ref E₀ (demote st) pay pad w = switchRef E₀ (ref E st pay pad w)` for ALL bytes `w` and
  every control state: what the old stream's reference passes over is passed over with the same reply; where the old
  reference stops at an end mark (a held-back header) the new one goes on from that header; a fatal stop stays;
* `none_phase_outcome` — for a start state `Start E p0`, `A` and `B` legal without `set_stream`, `B` drained: the replies of
  both phases together, the unread bytes and the verdict ARE those of `switchRef E₀ (refWire E w)`, `w` = everything fed
  in both phases — a function of the bytes alone;
* `none_switch_invariance` — two such histories over the same bytes agree on all replies and on the unread bytes,
  WHEREVER the two `set_stream(None)` calls happen (at end-of-stream, early after any number of bytes, mid-record,
  with a header held back) and however the bytes are chunked.  There is no `_full_false` here: nothing was found false.
  (What depends on the caller is, as in `C03StrSet`, how much of the old stream it was given before the switch.)

Restrictions kept visible: one `set_stream(None)` and no other `set_stream` call (`NoSet A`, `NoSet B`; by
`C18N.after_none` further calls after the switch are no-ops / rejected, by `C03StrSet` earlier `Some` switches compose);
drained end state; active stream `some s` at the start.
-/
namespace Fcgi.C03SN
open Fcgi Fcgi.Str Fcgi.Spec Fcgi.C03SI
open Fcgi.Req (Request PErr)

/-- with the stream type 0 nothing is "later" and nothing is the active stream -/
theorem no_later_zero (role t : Nat) : ¬ Later role (some 0) t := by
  intro hl
  have h1 := hl.1
  have h2 := hl.2
  have h3 : rankOf role none ≤ rankOf role (some 0) := by
    have hnm : (0 : Nat) ∉ inputStreams role := fun hmem => by
      have := mem_inputStreams_isInput hmem
      exact absurd this (by decide)
    show (inputStreams role).length ≤ (inputStreams role).idxOf 0
    exact Nat.le_of_not_lt (fun hlt => hnm (List.idxOf_lt_length_iff.1 hlt))
  omega

/-- **Header classification after the switch to no stream**: a fatal stop stays; what the old stream passes over is
passed over with the same reply, in the demoted state (own-id input-stream records are skipped). -/
theorem hclass_none (E : Cfg) (b0 b1 b2 b3 b4 b5 : UInt8) :
    match hclass E b0 b1 b2 b3 b4 b5 with
    | .stop (.err e) => hclass (E.withStream 0) b0 b1 b2 b3 b4 b5 = .stop (.err e)
    | .pass st o => hclass (E.withStream 0) b0 b1 b2 b3 b4 b5 = .pass (demote st) o
    | _ => True := by
  obtain ⟨id, role, s, mc⟩ := E
  dsimp only [Cfg.withStream]
  unfold hclass
  dsimp only
  by_cases hv : b0.toNat ≠ 1
  · simp only [if_pos hv]
  · simp only [if_neg hv]
    by_cases hval : RT.valid b1.toNat = false
    · simp only [if_pos hval]; rfl
    · simp only [if_neg hval]
      by_cases hin : RT.isInputStream b1.toNat = true ∧ be16 b2 b3 = id
      · simp only [if_pos hin]
        have h1 : ¬ b1.toNat = 0 := by
          intro h0
          have := hin.1
          rw [h0] at this
          exact absurd this (by decide)
        have h2 : ¬ Later role (some 0) b1.toNat := no_later_zero role _
        by_cases hs : b1.toNat = s
        · simp only [if_pos hs]
          by_cases hz : be16 b4 b5 = 0
          · simp only [if_pos hz]
          · simp only [if_neg hz, if_neg h1, if_neg h2]; rfl
        · simp only [if_neg hs]
          by_cases hlt : Later role (some s) b1.toNat
          · simp only [if_pos hlt]
          · simp only [if_neg hlt, if_neg h1, if_neg h2]; rfl
      · simp only [if_neg hin]
        by_cases hab : b1.toNat = RT.abortRequest ∧ be16 b2 b3 = id
        · simp only [if_pos hab]
        · simp only [if_neg hab]
          by_cases hbg : b1.toNat = RT.beginRequest ∧ be16 b2 b3 ≠ id
          · simp only [if_pos hbg]; rfl
          · simp only [if_neg hbg]
            by_cases hgv : b1.toNat = RT.getValues ∧ be16 b2 b3 = 0
            · simp only [if_pos hgv]; rfl
            · simp only [if_neg hgv]; rfl

/-- **The phase lemma for `set_stream(None)`**, on any bytes and from any control state. -/
theorem ref_switch_none (E : Cfg) :
    ∀ (w : Bytes) (st : SState) (pay pad : Nat),
      ref (E.withStream 0) (demote st) pay pad w = switchRef (E.withStream 0) (ref E st pay pad w) := by
  intro w
  generalize hn : w.length = n
  induction n using Nat.strongRecOn generalizing w with
  | _ n ih =>
    intro st pay pad
    have hmc : (E.withStream 0).mc = E.mc := rfl
    by_cases hp : 0 < pay
    · by_cases hs : w.length < pay
      · rw [ref_pay_short _ _ pad hp hs, ref_pay_short _ _ pad hp hs]
        simp only [switchRef, stateC_demote, partialRest_demote]
      · have hs' : pay ≤ w.length := by omega
        rw [ref_pay_full _ _ pad hp hs', ref_pay_full _ _ pad hp hs', switchRef_pre,
          stateC_demote, hmc, stateO_demote,
          ih _ (by simp only [List.length_drop]; omega) (w.drop pay) rfl]
    · have hp0 : pay = 0 := by omega
      subst hp0
      by_cases hd : 0 < pad
      · by_cases hs : w.length < pad
        · rw [ref_pad_short _ _ hd hs, ref_pad_short _ _ hd hs]; rfl
        · have hs' : pad ≤ w.length := by omega
          rw [ref_pad_full _ _ hd hs', ref_pad_full _ _ hd hs',
            ih _ (by simp only [List.length_drop]; omega) (w.drop pad) rfl]
      · have hd0 : pad = 0 := by omega
        subst hd0
        by_cases hlen : w.length < 8
        · rw [ref_short _ _ hlen, ref_short _ _ hlen]; rfl
        · obtain ⟨b0, b1, b2, b3, b4, b5, b6, b7, rest, rfl⟩ := cons8_of_len hlen
          rw [ref_hdr, ref_hdr]
          have hh := hclass_none E b0 b1 b2 b3 b4 b5
          cases hc : hclass E b0 b1 b2 b3 b4 b5 with
          | stop v =>
            rw [hc] at hh
            cases v with
            | more => exact absurd hc (hclass_ne_more _ _ _ _ _ _ _)
            | eos =>
              simp only [switchRef]
              rw [RefOut.pre_nil, ← ref_hdr (E.withStream 0) .skip]
            | err e =>
              simp only at hh
              rw [hh]; rfl
          | pass st1 o =>
            rw [hc] at hh
            simp only at hh ⊢
            rw [hh]
            simp only
            rw [switchRef_pre,
              ih _ (by simp only [List.length_cons] at hn ⊢; omega) rest rfl]

/-- the parser after phase `A` and `set_stream(None)` -/
def afterNone (p0 : Parser) (A : List Op) : Parser := applyOp (applyOps p0 A) (.setStream none)

/-- **Two phases around `set_stream(None)`, drained: the outcome is the reference's**, a function of the bytes fed in
both phases. -/
theorem none_phase_outcome {E : Cfg} {p0 : Parser} (h0 : Start E p0) {A B : List Op}
    (hlA : LegalAll p0 A) (hnA : NoSet A) (hlB : LegalAll (afterNone p0 A) B) (hnB : NoSet B)
    (hdr : Drained (applyOps (afterNone p0 A) B)) :
    let w := p0.raw ++ fedBytes A ++ fedBytes B
    let R := switchRef (E.withStream 0) (refWire E w)
    C03S.grownAll p0 A ++ C03S.grownAll (afterNone p0 A) B = R.out ∧
    (applyOps (afterNone p0 A) B).raw = R.unread ∧
    Terminal.verdictIs (E.withStream 0) (applyOps (afterNone p0 A) B) R.verdict ∧
    (applyOps (afterNone p0 A) B).stream = none := by
  intro w R
  -- phase A against the old stream's reference
  obtain ⟨lost, mA, iA, -, oA, vA, uA, -⟩ :=
    ops_ref (E := E) (x := fedBytes B) A p0 h0.mtch h0.inv hlA hnA
  -- the switch
  have hq : afterNone p0 A = (applyOps p0 A).switchTo none := by
    simp only [afterNone, applyOp, setStream_none]
    rw [if_neg (by rw [mA.strm]; simp)]
  have hmN : MatchN (E.withStream 0) (afterNone p0 A) := by
    rw [hq]
    exact ⟨mA.id, mA.role, rfl, mA.mc, rfl⟩
  have hiN : SInv (afterNone p0 A) := (step_safe iA (op := .setStream none) trivial).1
  have hsw : ∀ y, Rem (E.withStream 0) (afterNone p0 A) y =
      switchRef (E.withStream 0) (Rem E (applyOps p0 A) y) := by
    intro y
    rw [hq]
    show ref (E.withStream 0) (if (applyOps p0 A).state == .stream then SState.skip else (applyOps p0 A).state)
      (applyOps p0 A).pay (applyOps p0 A).pad ((applyOps p0 A).raw ++ y) = _
    rw [demote_eq]
    exact ref_switch_none E _ _ _ _
  -- phase B against the reference without active stream
  obtain ⟨mB, iB, oB, vB, uB⟩ := ops_refN (E := E.withStream 0) (x := []) B (afterNone p0 A) hmN hiN hlB hnB
  obtain ⟨v, hr, hvi⟩ := ref_terminal (drained_terminalN mB iB hdr)
  have hrem : Rem (E.withStream 0) (applyOps (afterNone p0 A) B) [] =
      ⟨[], [], v, (applyOps (afterNone p0 A) B).raw⟩ := by
    simp only [Rem, List.append_nil]; exact hr
  rw [hrem, hsw] at oB vB uB
  simp only [List.append_nil] at oB vB uB
  -- compose
  obtain ⟨c1, -, c3, c4⟩ := switchRef_congr (E.withStream 0) oA vA uA
  have hstart : Rem E p0 (fedBytes A ++ fedBytes B) = refWire E w := by
    rw [rem_start h0]
    simp only [w, List.append_assoc]
  rw [hstart] at c1 c3 c4
  refine ⟨?_, ?_, ?_, mB.strm⟩
  · rw [oB]; exact c1
  · exact uB.trans c4
  · have : v = R.verdict := vB.trans c3
    rw [← this]; exact hvi

/-- **The switch point does not matter.**  Two histories `Aᵢ ++ [set_stream(None)] ++ Bᵢ` over the same bytes — whatever
the chunking and wherever the switch happens — generate the same replies in total and leave the same unread bytes. -/
theorem none_switch_invariance {E : Cfg} {p0 : Parser} (h0 : Start E p0) {A₁ B₁ A₂ B₂ : List Op}
    (hlA₁ : LegalAll p0 A₁) (hnA₁ : NoSet A₁) (hlB₁ : LegalAll (afterNone p0 A₁) B₁) (hnB₁ : NoSet B₁)
    (hd₁ : Drained (applyOps (afterNone p0 A₁) B₁))
    (hlA₂ : LegalAll p0 A₂) (hnA₂ : NoSet A₂) (hlB₂ : LegalAll (afterNone p0 A₂) B₂) (hnB₂ : NoSet B₂)
    (hd₂ : Drained (applyOps (afterNone p0 A₂) B₂))
    (hfed : fedBytes A₁ ++ fedBytes B₁ = fedBytes A₂ ++ fedBytes B₂) :
    C03S.grownAll p0 A₁ ++ C03S.grownAll (afterNone p0 A₁) B₁ =
      C03S.grownAll p0 A₂ ++ C03S.grownAll (afterNone p0 A₂) B₂ ∧
    (applyOps (afterNone p0 A₁) B₁).raw = (applyOps (afterNone p0 A₂) B₂).raw := by
  obtain ⟨a1, a2, -, -⟩ := none_phase_outcome h0 hlA₁ hnA₁ hlB₁ hnB₁ hd₁
  obtain ⟨b1, b2, -, -⟩ := none_phase_outcome h0 hlA₂ hnA₂ hlB₂ hnB₂ hd₂
  have e : p0.raw ++ fedBytes A₁ ++ fedBytes B₁ = p0.raw ++ fedBytes A₂ ++ fedBytes B₂ := by
    rw [List.append_assoc, List.append_assoc, hfed]
  rw [e] at a1 a2
  exact ⟨a1.trans b1.symm, a2.trans b2.symm⟩

/-! ## Non-vacuity: the same bytes, `set_stream(None)` at the held-back header or in the middle of the first record -/
namespace Example
open Fcgi.C03SS

/-- Filter (id 1): `Stdin "ABC"` (padding 1), `GetValues(FCGI_MAX_CONNS)`, `Data "xyz"`, unknown type 99, then two
stray bytes -/
def nWire : Bytes :=
  [1, 5, 0, 1, 0, 3, 1, 0, 65, 66, 67, 0] ++
  [1, 9, 0, 0, 0, 16, 0, 0, 14, 0, 70, 67, 71, 73, 95, 77, 65, 88, 95, 67, 79, 78, 78, 83] ++
  [1, 8, 0, 1, 0, 3, 0, 0, 120, 121, 122] ++ [1, 99, 0, 0, 0, 0, 0, 0] ++ [7, 7]

/-- everything fed first: the parser delivers "ABC", answers the GetValues and holds the `Data` header back; then
`set_stream(None)`; one more call -/
def nA1 : List Op := [.parse nWire none]
def nB1 : List Op := [.parse [] none]
/-- 10 bytes fed (2 of the 3 content bytes), `set_stream(None)` in the middle of the record, the rest in two chunks -/
def nA2 : List Op := [.parse (nWire.take 10) (some 8)]
def nB2 : List Op := [.parse ((nWire.drop 10).take 20) none, .compress, .parse (nWire.drop 30) none]

theorem n_same : C03S.grownAll fP nA1 ++ C03S.grownAll (afterNone fP nA1) nB1 =
      C03S.grownAll fP nA2 ++ C03S.grownAll (afterNone fP nA2) nB2 ∧
    (applyOps (afterNone fP nA1) nB1).raw = (applyOps (afterNone fP nA2) nB2).raw :=
  none_switch_invariance fStart (A₁ := nA1) (B₁ := nB1) (A₂ := nA2) (B₂ := nB2)
    (by decide +kernel) (fun s h => by simp [nA1] at h) (by decide +kernel) (fun s h => by simp [nB1] at h)
    (by decide +kernel)
    (by decide +kernel) (fun s h => by simp [nA2] at h) (by decide +kernel) (fun s h => by simp [nB2] at h)
    (by decide +kernel) (by decide +kernel)

/-- `none_phase_outcome` applied and the reference evaluated: both replies (GetValuesResult, UnknownType(99)), the two
stray bytes unread -/
theorem n_outcome : C03S.grownAll fP nA2 ++ C03S.grownAll (afterNone fP nA2) nB2 =
      [1, 10, 0, 0, 0, 18, 6, 0, 14, 2, 70, 67, 71, 73, 95, 77, 65, 88, 95, 67, 79, 78, 78, 83, 49, 48, 0, 0, 0, 0, 0, 0] ++
      [1, 11, 0, 0, 0, 8, 0, 0, 99, 0, 0, 0, 0, 0, 0, 0] ∧
    (applyOps (afterNone fP nA2) nB2).raw = [7, 7] := by
  obtain ⟨h1, h2, -, -⟩ := none_phase_outcome fStart (A := nA2) (B := nB2) (by decide +kernel)
    (fun s h => by simp [nA2] at h) (by decide +kernel) (fun s h => by simp [nB2] at h) (by decide +kernel)
  rw [h1, h2]
  decide +kernel

end Example

end Fcgi.C03SN
