import Fcgi.Props.C07Writers
import Fcgi.Props.C12Unbounded
import Fcgi.Props.C14Unbounded
import Fcgi.Props.C06Unbounded

/-!
# Independent review of the `_unbounded` families and of `C07Writers`: instantiations on fresh values

Companion of `lean/UNBOUNDED_REVIEW.md`.  One concrete connection, different from every example of the
authors: request id 7, two name-value pairs cut inside a pair and inside a length prefix over THREE Params
records, an unknown-type record before the BeginRequest (owes a reply), a `GetValues` query and a
foreign-id Stdin record inside the Params stream; Stdin = "hel" (5 bytes padding) / unknown type with the
request's own id (owes a reply) / a `GetValues` query (owes a reply) / "lo" / terminator with padding;
buffer 64; a transport with 1-, 3-, 11-byte reads, `Pending`s and partial writes.
-/
namespace Fcgi.ReviewUnb
open Fcgi Fcgi.Req Fcgi.Str Fcgi.Async Fcgi.Run Fcgi.Spec Fcgi.E2E Fcgi.C07E

def rvPre : Preamble := { id := 7, role := 1, flags := 1, pairs := [([81], [120, 61, 49]), ([], [118])] }

def rvRecs : List Rec :=
  [ { rtype := 99, id := 3, content := [9, 9, 9], pad := [0, 0, 0, 0, 0] },
    { rtype := 1, id := 7, content := [0, 1, 1, 0, 0, 0, 0, 0], pad := [0, 0] },
    { rtype := 4, id := 7, content := [1, 3, 81, 120], pad := [0, 0, 0, 0] },
    { rtype := 9, id := 0, content := NV.enc (Vars.nameMaxReqs, []), pad := [0] },
    { rtype := 4, id := 7, content := [61, 49, 0], pad := [] },
    { rtype := 5, id := 9, content := [1], pad := [] },
    { rtype := 4, id := 7, content := [1, 118], pad := [0, 0, 0, 0, 0, 0] },
    { rtype := 4, id := 7, content := [], pad := [0, 0, 0] } ]

theorem rvRecs_wf : WellFormedPreamble rvPre rvRecs := by
  refine .noise _ ⟨⟨by decide, by decide, by decide⟩, fun h => by cases h⟩ ?_
  refine .begin [0, 0] 0 [0, 0, 0, 0, 0] rfl (by decide) (by decide) (by decide) ?_ ?_
  · intro q hq
    simp only [rvPre, List.mem_cons, List.not_mem_nil, or_false] at hq
    rcases hq with rfl | rfl <;> decide
  · show ParamsRecs 7 ([1, 3, 81, 120] ++ ([61, 49, 0] ++ ([1, 118] ++ []))) _
    refine .chunk [1, 3, 81, 120] [0, 0, 0, 0] 0 (by decide) (by decide) ?_
    refine .noise _ ⟨⟨by decide, by decide +kernel, by decide⟩, fun h => by simp at h⟩ ?_
    refine .chunk [61, 49, 0] [] 0 (by decide) (by decide) ?_
    refine .noise _ ⟨⟨by decide, by decide, by decide⟩, fun h => by simp at h⟩ ?_
    refine .chunk [1, 118] [0, 0, 0, 0, 0, 0] 0 (by decide) (by decide) ?_
    exact .done [0, 0, 0] 0 (by decide)

theorem rvPairs_fit : ∀ q ∈ rvPre.pairs, (NV.enc q).length ≤ alignedBufsize 64 := by
  intro q hq
  simp only [rvPre, List.mem_cons, List.not_mem_nil, or_false] at hq
  rcases hq with rfl | rfl <;> decide +kernel

theorem rvRecs_fits : NoiseFits (alignedBufsize 64) rvRecs := by
  refine noiseFits_of_content (fun r hr _ _ => ?_)
  simp only [rvRecs, List.mem_cons, List.not_mem_nil, or_false] at hr
  rcases hr with rfl | rfl | rfl | rfl | rfl | rfl | rfl | rfl <;> decide +kernel

/-- Stdin "hello" in two records, with noise that owes two replies -/
def rvS : List Rec :=
  [ { rtype := 5, id := 7, content := [104, 101, 108], pad := [0, 0, 0, 0, 0] },
    { rtype := 77, id := 7, content := [5], pad := [0, 0, 0] },
    { rtype := 9, id := 0, content := NV.enc (Vars.nameMpxsConns, []), pad := [] },
    { rtype := 5, id := 7, content := [108, 111], pad := [] },
    { rtype := 5, id := 7, content := [], pad := [0, 0, 0] } ]

theorem rvS_ok : StreamRecs 7 5 [104, 101, 108, 108, 111] rvS := by
  show StreamRecs 7 5 ([104, 101, 108] ++ ([108, 111] ++ [])) _
  refine .chunk [104, 101, 108] [0, 0, 0, 0, 0] 0 (by decide) (by decide) ?_
  refine .noise _ ⟨⟨by decide, by decide, by decide⟩, by decide⟩ ?_
  refine .noise _ ⟨⟨by decide, by decide +kernel, by decide⟩, by decide⟩ ?_
  refine .chunk [108, 111] [] 0 (by decide) (by decide) ?_
  exact .term [0, 0, 0] 0 (by decide)

theorem rvS_fits : NoiseFits (alignedBufsize 64) rvS := by
  refine noiseFits_of_content (fun r hr _ _ => ?_)
  simp only [rvS, List.mem_cons, List.not_mem_nil, or_false] at hr
  rcases hr with rfl | rfl | rfl | rfl | rfl <;> decide +kernel

/-- the noise in the stream owes something -/
theorem rvS_owes : owedStream 7 5 10 rvS ≠ [] := by decide +kernel

def rvT : Transport :=
  { input := serAll rvRecs ++ serAll rvS, endMode := .pend,
    rd := [.n 3, .pending, .n 11, .n 1, .pending, .n 40, .pending, .n 64],
    wr := [.n 2, .pending, .n 9, .n 1, .pending, .n 30, .pending], fl := [] }

theorem rvT_ben : Ben rvT := ⟨by decide, by decide, rfl, by decide⟩

/-! ## 1. `C07W.single_request_writers_e2e` -/

open Fcgi.C07W in
/-- Stderr "e", Stdout "ok!", an empty Stdout write, Stderr "xy" -/
def rvW : WList := [(1, [101]), (0, [111, 107, 33]), (0, []), (1, [120, 121])]

open Fcgi.C07W in
theorem rv_writers : ∃ c' fin O₁ O₂ pad res,
    runTask 20 (connS 64 10 rvT [(wscript rvW (.complete 5), true)]) 0 none = (c', fin) ∧
    O₁ ++ O₂ = owedStream 7 5 10 rvS ∧
    WritersOutcome rvPre rvRecs [104, 101, 108, 108, 111] rvW O₁ O₂ pad res 64 10 (.complete 5) [] rvT c' fin :=
  single_request_writers_e2e (p := rvPre) (recs := rvRecs) (content := [104, 101, 108, 108, 111]) (srecs := rvS)
    (b := 64) (mc := 10) (W := rvW) (st := .complete 5) (more := []) (t := rvT) (fuel := 20)
    rvRecs_wf rfl rvPairs_fit rvRecs_fits rvS_ok rvS_fits rfl rvT_ben rfl (by decide) (by decide)

/-! ## 2. `C12E.eof_any_offset_e2e_unbounded`: the wire cut inside the second Stdin record -/

def rvK : Nat := (serAll rvRecs).length + 50
def rvCut : Transport := { rvT with input := (serAll rvRecs ++ serAll rvS).take rvK, endMode := .eof }

open Fcgi.C12E in
theorem rv_eof : ∃ c' O₁ O₂, runTask 20 (conn0 64 10 rvCut [111, 107] (.complete 0)) 0 none = (c', "RET") ∧
    c'.phase = .finished ∧ O₁ ++ O₂ = owedStream 7 5 10 rvS ∧
    (∃ w, c'.env.tr.wlog = rvCut.wlog ++ w ∧ w <+: expectedLogN rvPre rvRecs 10 [111, 107] (.complete 0) O₁ O₂) ∧
    hsCount c'.env.tr.events = 1 := by
  obtain ⟨c', O1, O2, h1, h2, h3, h4, _, _, h7, _⟩ :=
    eof_any_offset_e2e_unbounded (p := rvPre) (recs := rvRecs) (content := [104, 101, 108, 108, 111]) (srecs := rvS)
      (b := 64) (mc := 10) (data := [111, 107]) (st := .complete 0) (t := rvCut) (fuel := 20) rvK
      rvRecs_wf rfl rvPairs_fit rvRecs_fits rvS_ok rvS_fits rfl ⟨by decide, by decide, rfl, by decide⟩ rfl rfl
      (by decide) (by decide)
  exact ⟨c', O1, O2, h1, h2, h3, h4, (h7 (Nat.le_add_right _ _)).1⟩

/-! ## 3. `C14E.stop_any_poll_single_e2e_exact_unbounded`: the stop flag before poll 2 -/

open Fcgi.C14E in
theorem rv_stop : ∃ c', runTask 20 (conn0 64 10 rvT [111, 107] (.complete 0)) 0 (some 2) = (c', "RET") ∧
    c'.phase = .finished :=
  let ⟨c', h1, h2, _⟩ := stop_any_poll_single_e2e_exact_unbounded (p := rvPre) (recs := rvRecs)
    (content := [104, 101, 108, 108, 111]) (srecs := rvS) (b := 64) (mc := 10) (data := [111, 107])
    (st := .complete 0) (t := rvT) (fuel := 20) 2 rvRecs_wf rfl rvPairs_fit rvRecs_fits rvS_ok rvS_fits rfl rvT_ben rfl
    (by decide) (by decide)
  ⟨c', h1, h2⟩

/-! ## 4. `C06E.stuck_pair_e2e_unbounded`: a 52-byte pair, 40-byte buffer -/

def rvQ : Bytes × Bytes := (List.replicate 10 78, List.replicate 40 86)
def rvT6 : Transport :=
  { input := serAll (C06.pairRecs rvQ) ++ [1, 2, 3], endMode := .pend,
    rd := [.n 5, .pending, .n 13, .n 1, .n 30, .pending], wr := [.pending], fl := [] }

open Fcgi.C06E in
theorem rv_stuck : ∃ c', runTask 10 (connS 40 3 rvT6 [([.ret (.complete 0)], true)]) 0 none = (c', "RET") ∧
    c'.phase = .finished ∧ hsCount c'.env.tr.events = 0 ∧ c'.env.tr.wlog = [] := by
  obtain ⟨c', h1, h2, h3, _, h5⟩ := stuck_pair_e2e_unbounded 40 3 rvQ [1, 2, 3] [([.ret (.complete 0)], true)] rvT6 10
    (by decide +kernel) (by decide +kernel) (by decide +kernel) rfl ⟨by decide, by decide, rfl, by decide⟩ (by decide)
  exact ⟨c', h1, h2, h3, h5⟩

/-! ## 5. `C12E.write_error_e2e_unbounded`: the 4th write answer is an error -/

def rvTw : Transport := { rvT with wr := [.n 2, .pending, .n 9, .err, .n 30] }

open Fcgi.C12E in
theorem rv_write_error : ∃ c' fin O₁ O₂, runTask 20 (conn0 64 10 rvTw [111, 107] (.complete 0)) 0 none = (c', fin) ∧
    O₁ ++ O₂ = owedStream 7 5 10 rvS :=
  let ⟨c', fin, O1, O2, h1, h2, _⟩ := write_error_e2e_unbounded (p := rvPre) (recs := rvRecs)
    (content := [104, 101, 108, 108, 111]) (srecs := rvS) (b := 64) (mc := 10) (data := [111, 107])
    (st := .complete 0) (t := rvTw) (fuel := 20) [.n 2, .pending, .n 9] [.n 30] .err (Or.inl rfl) rfl
    rvRecs_wf rfl rvPairs_fit rvRecs_fits rvS_ok rvS_fits rfl ⟨by decide, by decide, rfl, by decide⟩ rfl
    (by decide) (by decide)
  ⟨c', fin, O1, O2, h1, h2⟩

/-! ## 6. `C07E.k_requests_e2e_unbounded` (`Sent.OKu`): the Responder request above, then an Authorizer request -/

def rvPreA : Preamble := { id := 2, role := 2, flags := 0, pairs := [] }
def rvRecsA : List Rec :=
  [ { rtype := 1, id := 2, content := [0, 2, 0, 0, 0, 0, 0, 0], pad := [0] },
    { rtype := 200, id := 2, content := [], pad := [] },
    { rtype := 4, id := 2, content := [], pad := [] } ]

theorem rvRecsA_wf : WellFormedPreamble rvPreA rvRecsA := by
  refine .begin [0] 0 [0, 0, 0, 0, 0] rfl (by decide) (by decide) (by decide) (fun q hq => by cases hq) ?_
  show ParamsRecs 2 [] _
  refine .noise _ ⟨⟨by decide, by decide, by decide⟩, by decide⟩ ?_
  exact .done [] 0 (by decide)

def rvQ1 : Sent :=
  .responder rvPre rvRecs [104, 101, 108, 108, 111] rvS.dropLast [0, 0, 0] 0 [111, 107] (.complete 0)
def rvQ2 : Sent := .authorizer rvPreA rvRecsA [65] (.complete 1)

theorem rvQ1_ok : rvQ1.OKu 64 :=
  ⟨rvRecs_wf, rvPairs_fit, rvRecs_fits, rvS_fits, (fun r hr => nomatch hr), rfl, rvS_ok, by decide⟩

theorem rvQ2_ok : rvQ2.OKu 64 := by
  refine ⟨rvRecsA_wf, ?_, ?_, ?_, ?_, rfl, by decide⟩
  · intro q hq; cases hq
  rotate_left
  · intro r hr; cases hr
  · intro r hr; cases hr
  refine noiseFits_of_content (fun r hr _ _ => ?_)
  simp only [Sent.recs, rvQ2, rvRecsA, List.mem_cons, List.not_mem_nil, or_false] at hr
  rcases hr with rfl | rfl | rfl <;> decide

theorem rv_two_requests : ∃ c' A, closedLoop 20 [rvQ2.wire] (connK 64 10 rvT [rvQ1, rvQ2]) 0 = (c', "RET") ∧
    AnswerAll 10 [rvQ1, rvQ2] A ∧ c'.env.tr.wlog = A ∧ hsCount c'.env.tr.events = 2 ∧ c'.phase = .finished := by
  obtain ⟨c', fin, A, h1, h2, h3, h4, _, _, h7⟩ := k_requests_e2e_unbounded (b := 64) (mc := 10) rvQ1 [rvQ2]
    (t := rvT) (fuel := 20) (fun q hq => by
      simp only [List.mem_cons, List.not_mem_nil, or_false] at hq
      rcases hq with rfl | rfl
      · exact rvQ1_ok
      · exact rvQ2_ok)
    (fun q hq => by
      simp only [List.dropLast, List.mem_cons, List.not_mem_nil, or_false] at hq
      subst hq; rfl)
    (by decide +kernel) rvT_ben rfl rfl (by decide)
  rcases h7 with ⟨hk, _⟩ | ⟨_, hf, hp⟩
  · exact absurd hk (by decide)
  · subst hf
    exact ⟨c', A, h1, h2, by rw [h3]; rfl, h4, hp⟩

/-! ## 7. `C12E.eof_any_offset_filter_all_e2e_unbounded` (`FCfg.OKu` inside): a Filter, the wire cut inside Data -/

def rvPreF : Preamble := { rvPre with role := 3 }
def rvRecsF : List Rec :=
  [ { rtype := 99, id := 3, content := [9, 9, 9], pad := [0, 0, 0, 0, 0] },
    { rtype := 1, id := 7, content := [0, 3, 1, 0, 0, 0, 0, 0], pad := [0, 0] },
    { rtype := 4, id := 7, content := [1, 3, 81, 120], pad := [0, 0, 0, 0] },
    { rtype := 9, id := 0, content := NV.enc (Vars.nameMaxReqs, []), pad := [0] },
    { rtype := 4, id := 7, content := [61, 49, 0, 1, 118], pad := [] },
    { rtype := 4, id := 7, content := [], pad := [0, 0, 0] } ]

theorem rvRecsF_wf : WellFormedPreamble rvPreF rvRecsF := by
  refine .noise _ ⟨⟨by decide, by decide, by decide⟩, fun h => by cases h⟩ ?_
  refine .begin [0, 0] 0 [0, 0, 0, 0, 0] rfl (by decide) (by decide) (by decide) ?_ ?_
  · intro q hq
    simp only [rvPreF, rvPre, List.mem_cons, List.not_mem_nil, or_false] at hq
    rcases hq with rfl | rfl <;> decide
  · show ParamsRecs 7 ([1, 3, 81, 120] ++ ([61, 49, 0, 1, 118] ++ [])) _
    refine .chunk [1, 3, 81, 120] [0, 0, 0, 0] 0 (by decide) (by decide) ?_
    refine .noise _ ⟨⟨by decide, by decide +kernel, by decide⟩, fun h => by simp at h⟩ ?_
    refine .chunk [61, 49, 0, 1, 118] [] 0 (by decide) (by decide) ?_
    exact .done [0, 0, 0] 0 (by decide)

theorem rvRecsF_fits : NoiseFits (alignedBufsize 64) rvRecsF := by
  refine noiseFits_of_content (fun r hr _ _ => ?_)
  simp only [rvRecsF, List.mem_cons, List.not_mem_nil, or_false] at hr
  rcases hr with rfl | rfl | rfl | rfl | rfl | rfl <;> decide +kernel

/-- Data "DATA!" in two records, an unknown-type record in between (owes a reply) -/
def rvD : List Rec :=
  [ { rtype := 8, id := 7, content := [68, 65], pad := [0] },
    { rtype := 66, id := 0, content := [], pad := [] },
    { rtype := 8, id := 7, content := [84, 65, 33], pad := [0, 0] },
    { rtype := 8, id := 7, content := [], pad := [] } ]

theorem rvD_ok : StreamRecs 7 8 [68, 65, 84, 65, 33] rvD := by
  show StreamRecs 7 8 ([68, 65] ++ ([84, 65, 33] ++ [])) _
  refine .chunk [68, 65] [0] 0 (by decide) (by decide) ?_
  refine .noise _ ⟨⟨by decide, by decide, by decide⟩, by decide⟩ ?_
  refine .chunk [84, 65, 33] [0, 0] 0 (by decide) (by decide) ?_
  exact .term [] 0 (by decide)

theorem rvD_fits : NoiseFits (alignedBufsize 64) rvD := by
  refine noiseFits_of_content (fun r hr _ _ => ?_)
  simp only [rvD, List.mem_cons, List.not_mem_nil, or_false] at hr
  rcases hr with rfl | rfl | rfl | rfl <;> decide

def rvKF : Nat := (serAll rvRecsF).length + (serAll rvS).length + 14
def rvCutF : Transport :=
  { input := (serAll rvRecsF ++ (serAll rvS ++ serAll rvD)).take rvKF, endMode := .eof,
    rd := [.n 7, .pending, .n 50, .n 2, .pending], wr := [.n 3, .pending, .n 20], fl := [] }

open Fcgi.C12E in
theorem rv_eof_filter : ∃ c' O₁ O₂,
    runTask 20 (connS 64 10 rvCutF [(canonicalF [111, 107] (.complete 0), true)]) 0 none = (c', "RET") ∧
    c'.phase = .finished ∧ O₁ ++ O₂ = owedStream 7 5 10 rvS ++ owedStream 7 8 10 rvD ∧
    hsCount c'.env.tr.events = 1 := by
  obtain ⟨c', O1, O2, h1, h2, h3, _, _, _, h7, _⟩ :=
    eof_any_offset_filter_all_e2e_unbounded (p := rvPreF) (recs := rvRecsF) (srecs := rvS) (drecs := rvD)
      (content := [104, 101, 108, 108, 111]) (content2 := [68, 65, 84, 65, 33]) (b := 64) (mc := 10)
      (data := [111, 107]) (st := .complete 0) (t := rvCutF) (fuel := 20) rvKF
      rvRecsF_wf rfl (by exact rvPairs_fit) rvRecsF_fits rvS_ok rvS_fits rvD_ok rvD_fits rfl
      ⟨by decide, by decide, rfl, by decide⟩ rfl rfl (by decide) (by decide)
  exact ⟨c', O1, O2, h1, h2, h3, (h7 (by unfold rvKF; omega)).1⟩

/-! ## 8. `C07W.writers_chain_e2e` (`UReq.OKu`): the two-writer request, then the same Responder request again -/

open Fcgi.C07W Fcgi.C07U in
theorem rv_writers_chain : ∃ c' O₁ O₂ A,
    closedLoop 20 [(UReq.full rvQ1).wire]
      (connS 64 10 rvT ((wscript rvW (.complete 5), true) :: [(UReq.full rvQ1).handler])) 0 = (c', "STALL") ∧
    O₁ ++ O₂ = owedStream 7 5 10 rvS ∧
    c'.env.tr.wlog = rvT.wlog ++ expectedLogW rvPre rvRecs 10 rvW (.complete 5) O₁ O₂ ++ A ∧
    hsCount c'.env.tr.events = 2 := by
  obtain ⟨c', O1, O2, A, h1, h2, _, h4, h5, _⟩ := writers_chain_e2e (p := rvPre) (recs := rvRecs)
    (content := [104, 101, 108, 108, 111]) (srecs := rvS) (b := 64) (mc := 10) (W := rvW) (st := .complete 5)
    (UReq.full rvQ1) [] (t := rvT) (fuel := 20) rvRecs_wf rfl rfl rvPairs_fit rvRecs_fits rvS_ok rvS_fits
    (fun y hy => by rw [List.mem_singleton.1 hy]; exact ⟨rvQ1_ok, rfl⟩) rfl rvT_ben rfl rfl (by decide) (by decide)
  exact ⟨c', O1, O2, A, h1, h2, h4, h5⟩

end Fcgi.ReviewUnb
