import Fcgi.Props.C11Unread
import Fcgi.Proofs.E2EStages3
/-!
# C11 — AbortRequest for a Responder WITHOUT KEEP_CONN whose handler does not read: end to end

`Props/C11Unread.abort_unread_e2e` is for keep-alive requests (`run_unreadN'`).  Without KEEP_CONN:

`unread_nokeep_e2e`: a Responder request without KEEP_CONN, the wire = preamble ++ ANY records `srecs`, any benign
transport, the handler reads nothing (`NoRead`).  The task runs the handler once, `close()` consumes nothing of the
input and writes the epilogue, the task RETURNS (`RET`, `finished`): the log is exactly
`owedPreamble ++ Stdout records of data ++ [Stdout∅][Stderr∅][EndRequest(id, st)]` with the HANDLER's status, and NOTHING
for `srecs` — the unread tail is never parsed (no hypothesis on `srecs` at all: management records in it get no reply,
an over-long or malformed record in it does not matter).

`abort_unread_nokeep_e2e`: `srecs = body ++ [a]`, `a` an `AbortRequest` for the request's id: the abort is never seen,
ONE EndRequest with the handler's status, no abort status, the connection is not reused.

Proof: the poll lemma of the unread family (`ustage_pollN`) has the no-KEEP_CONN exit (`FinU`) already; only the executor
`run_unreadN'` was stated for keep-alive requests.  Here `run_stages3'` with the keep-alive tail guarded by
`flags % 2 = 1` (so its side conditions are vacuous).
-/
namespace Fcgi.C11U
open Fcgi Fcgi.Req Fcgi.Str Fcgi.Async Fcgi.Run Fcgi.Spec Fcgi.E2E Fcgi.C07E Fcgi.C07U

theorem URes.to3 {g : E2E.Cfg} {Z : Bytes} {N : Nat} {c : Conn} (h : URes g N c) :
    GRes3 (UStage g)
      (ZTailAt g.cap g.mc Z g.more (g.hs0 + 1) (fun _ : Unit => g.p.flags.toNat % 2 = 1) (fun _ => g.U ++ Z)
        (fun _ => g.LU) (fun _ => [hsEvent g.p.request]))
      (FinU g) N c := by
  rcases h with h | ⟨k, c1, hk, hs, hl, haf⟩ | h
  · exact Or.inl (Or.inl h)
  · obtain ⟨raw, hph, hw, hraw⟩ := haf.ph
    exact Or.inl (Or.inr ⟨k, c1, hk, hs, hl, (), haf.keep,
      Or.inr ⟨raw, hph, by rw [hw], hraw, haf.log, haf.ben, haf.stop⟩,
      ⟨haf.sc, haf.mtx, haf.ev.1, fun s hs => by rw [List.mem_singleton.1 hs]; exact haf.ev.2⟩⟩)
  · exact Or.inr h

/-- **A Responder without KEEP_CONN whose handler does not read: the unread tail is never parsed.** -/
theorem unread_nokeep_e2e {p : Preamble} {recs srecs : List Rec}
    {b mc : Nat} {data : Bytes} {st : ExitStatus} {hs : List HOp} {more : List (List HOp × Bool)}
    {t : Transport} {fuel : Nat}
    (hnr : NoRead hs data st)
    (hwf : WellFormedPreamble p recs) (hrole : p.role = 1) (hnk : p.flags.toNat % 2 = 0)
    (hpairs : ∀ q ∈ p.pairs, (NV.enc q).length ≤ alignedBufsize b)
    (hnoise : NoiseFits (alignedBufsize b) recs)
    (hin : t.input = serAll recs ++ serAll srecs) (hben : Ben t) (hev : hsCount t.events = 0)
    (hfuel : t.rd.length + t.wr.length + 1 ≤ fuel) :
    ∃ c', runTask fuel (connS b mc t ((hs, true) :: more)) 0 none = (c', "RET") ∧
      c'.phase = .finished ∧
      hsCount c'.env.tr.events = 1 ∧ startEvent p.request ∈ c'.env.tr.events ∧
      c'.env.tr.wlog = t.wlog ++ (owedPreamble p mc recs ++ streamRecords 6 p.id data ++ epilogue p.id st) ∧
      c'.scripts = more := by
  have ok : UOKn (cfgU p recs srecs b mc data st hs t.wlog 0 more) :=
    ⟨hwf, hrole, hpairs, hnoise, rfl, rfl, rfl, rfl, hnr⟩
  have hst : UStage (cfgU p recs srecs b mc data st hs t.wlog 0 more) (connS b mc t ((hs, true) :: more)) :=
    .start (raw := []) rfl (by show [] ++ t.input = _; rw [hin]; rfl) (Nat.zero_le _) rfl hben rfl rfl rfl hev
  have hnk' : ¬ (cfgU p recs srecs b mc data st hs t.wlog 0 more).p.flags.toNat % 2 = 1 := by
    show ¬ p.flags.toNat % 2 = 1
    omega
  obtain ⟨c', fin, hrun, hres⟩ := run_stages3' (cap24 (cfgU p recs srecs b mc data st hs t.wlog 0 more)) (Z := [])
    (P := fun _ : Unit => (cfgU p recs srecs b mc data st hs t.wlog 0 more).p.flags.toNat % 2 = 1)
    (S := UStage (cfgU p recs srecs b mc data st hs t.wlog 0 more))
    (Fn := FinU (cfgU p recs srecs b mc data st hs t.wlog 0 more))
    (fun _ h => absurd h hnk') (fun _ h => absurd h hnk')
    (fun _ _ h => UStage.cong h)
    (fun c0 h => URes.to3 (URes.mono (ustage_pollN ok h) (by omega)))
    t.endMode [] _ 0 fuel hst rfl (fun s hs => by cases hs) rfl (by show ans t + 1 ≤ fuel; unfold ans; omega)
  have hLU : (cfgU p recs srecs b mc data st hs t.wlog 0 more).LU =
      t.wlog ++ (owedPreamble p mc recs ++ streamRecords 6 p.id data ++ epilogue p.id st) := by
    show ((t.wlog ++ owedPreamble p mc recs) ++ streamRecords 6 p.id data ++
      makeRequestEpilogue p.id st [RT.stdout, RT.stderr]) = _
    rw [epilogue_eq]; simp only [List.append_assoc]
  rcases hres with ⟨_, hkp, _⟩ | ⟨hfin, hfu, _, _⟩
  · exact absurd hkp hnk'
  · subst hfin
    exact ⟨c', hrun, hfu.ph, hfu.ev.1, hfu.ev.2, by rw [hfu.log]; exact hLU, hfu.sc⟩

/-- **C11 end to end: AbortRequest for a Responder without KEEP_CONN whose handler does not read.**  Whatever precedes
the `AbortRequest` record `a` (`body`: any records): the abort is never seen — ONE EndRequest, with the handler's own
status; the task returns after the epilogue. -/
theorem abort_unread_nokeep_e2e {p : Preamble} {recs : List Rec} {body : List Rec} {a : Rec}
    {b mc : Nat} {data : Bytes} {st : ExitStatus} {hs : List HOp} {more : List (List HOp × Bool)}
    {t : Transport} {fuel : Nat}
    (hnr : NoRead hs data st)
    (hwf : WellFormedPreamble p recs) (hrole : p.role = 1) (hnk : p.flags.toNat % 2 = 0)
    (hpairs : ∀ q ∈ p.pairs, (NV.enc q).length ≤ alignedBufsize b)
    (hnoise : NoiseFits (alignedBufsize b) recs)
    (_ha : a.rtype = 2) (_haid : a.id = p.id)
    (hin : t.input = serAll recs ++ serAll (body ++ [a])) (hben : Ben t) (hev : hsCount t.events = 0)
    (hfuel : t.rd.length + t.wr.length + 1 ≤ fuel) :
    ∃ c', runTask fuel (connS b mc t ((hs, true) :: more)) 0 none = (c', "RET") ∧
      c'.phase = .finished ∧
      hsCount c'.env.tr.events = 1 ∧ startEvent p.request ∈ c'.env.tr.events ∧
      c'.env.tr.wlog = t.wlog ++ (owedPreamble p mc recs ++ streamRecords 6 p.id data ++ epilogue p.id st) ∧
      c'.scripts = more :=
  unread_nokeep_e2e hnr hwf hrole hnk hpairs hnoise hin hben hev hfuel

namespace ExampleNoKeep
open Fcgi.C01.Example Fcgi.C07E.Example

/-- Responder request 1, NO KEEP_CONN, no parameters -/
def preN : Preamble := { id := 1, role := 1, flags := 0, pairs := [] }
def recsN : List Rec :=
  [ { rtype := 1, id := 1, content := [0, 1, 0, 0, 0, 0, 0, 0], pad := [] },
    { rtype := 4, id := 1, content := [], pad := [] } ]

theorem recsN_wf : WellFormedPreamble preN recsN :=
  .begin [] 0 [0, 0, 0, 0, 0] rfl (by decide) (by decide) (by decide) (fun q hq => by cases hq) (.done [] 0 (by decide))

/-- a `GetValues(MAX_CONNS)` query, the Stdin record `"ABC"`, then `AbortRequest` for the request -/
def nkBody : List Rec :=
  [ { rtype := 9, id := 0, content := NV.enc (Vars.nameMaxConns, []), pad := [] },
    { rtype := 5, id := 1, content := [65, 66, 67], pad := [0] } ]
def nkRec : Rec := { rtype := 2, id := 1, content := [], pad := [] }

def nkT : Transport :=
  { input := serAll recsN ++ serAll (nkBody ++ [nkRec]), endMode := .pend,
    rd := [.n 10, .pending, .n 7, .all, .n 3], wr := [.n 5, .pending, .all, .n 1], fl := [] }

/-- the handler writes `"hi"`, returns `Complete(5)` without reading: the task RETURNS; the log is the Stdout record and
the epilogue with `EndRequest(1, Complete(5))` — no reply to the `GetValues` query, nothing for the abort -/
example : ∃ c', runTask 20 (connS 64 10 nkT [(writeOnly [104, 105] (.complete 5), true)]) 0 none = (c', "RET") ∧
    c'.phase = .finished ∧
    c'.env.tr.wlog = owedPreamble preN 10 recsN ++ streamRecords 6 1 [104, 105] ++ epilogue 1 (.complete 5) ∧
    owedPreamble preN 10 recsN = [] ∧ idleOwed 10 nkBody ≠ [] ∧
    hsCount c'.env.tr.events = 1 := by
  obtain ⟨c', hrun, hph, hhs, _, hlog, _⟩ := abort_unread_nokeep_e2e (p := preN) (recs := recsN) (body := nkBody)
    (a := nkRec) (b := 64) (mc := 10) (data := [104, 105]) (st := .complete 5)
    (hs := writeOnly [104, 105] (.complete 5)) (more := []) (t := nkT) (fuel := 20)
    (Or.inr rfl) recsN_wf rfl (by decide) (fun q hq => by cases hq) (no_getValues_fits (by decide))
    rfl rfl rfl ⟨by decide, by decide, rfl, by decide⟩ rfl (by decide)
  exact ⟨c', hrun, hph, by rw [hlog]; rfl, by decide +kernel, by decide +kernel, hhs⟩
end ExampleNoKeep

end Fcgi.C11U
