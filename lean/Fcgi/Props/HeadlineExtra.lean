import Fcgi.Props.Headline
import Fcgi.Props.C06E2E

/-!
# HeadlineExtra — clauses that `Props/Headline.lean` leaves open and that close cheaply

Companion of `HEADLINE_REVIEW.md` (the audit of `Props/Headline.lean`).  Two kinds of entries:

* **§1 New compositions** (a few lines each, from registered theorems): statements the review found
  claimed in a doc comment of `Headline.lean` but not stated by any conjunct.
* **§2 Registered theorems that are missing from the headline conjuncts** although the property text
  (or the section comment of `Headline.lean`) relies on them.  They are only *cited* here
  (`theorem X : type_of% @T := @T`), so this file breaks if one of them disappears or is renamed; their
  statements are in the Props file named in the comment.

Nothing here edits or replaces `Headline.lean`.
-/

namespace Fcgi.HeadlineExtra
open Fcgi

/-! ## 1. New compositions -/

section C01
open Fcgi.Req Fcgi.Spec
/-! **C01, "an environment equal to the last-value-wins map of the transmitted pairs (names lossily
decoded, uppercased, matched case-insensitively)"**: `Headline.C01Clause3` says `req.env = envExtend []
p.pairs`, where `envExtend` is the MODEL's own fold (`Model/ReqParser.lean`).  What that list is, read
as a map: -/

/-- the value stored under key `k` (keys are the normalised names) -/
def envLookup (env : List (Bytes × Bytes)) (k : Bytes) : Option Bytes :=
  (env.find? (fun e => e.1 == k)).map (·.2)

theorem envLookup_insert (env : List (Bytes × Bytes)) (k' v k : Bytes) :
    envLookup (envInsert env k' v) k = if k' = k then some v else envLookup env k := by
  unfold envLookup envInsert
  by_cases hany : env.any (fun e => e.1 == k') = true
  · rw [if_pos hany, List.find?_map]
    by_cases hk : k' = k
    · subst hk
      rw [if_pos rfl]
      have hfun : ((fun e : Bytes × Bytes => e.1 == k') ∘ fun e => if (e.1 == k') = true then (k', v) else e) =
          fun e => e.1 == k' := by
        funext e
        simp only [Function.comp]
        split <;> simp_all
      rw [hfun]
      obtain ⟨e, he, hek⟩ := List.any_eq_true.1 hany
      cases hf : env.find? (fun e => e.1 == k') with
      | none => exact absurd hek (by simpa using List.find?_eq_none.1 hf e he)
      | some x =>
        have hx : x.1 = k' := by simpa using List.find?_some hf
        simp [hx]
    · rw [if_neg hk]
      have hfun : ((fun e : Bytes × Bytes => e.1 == k) ∘ fun e => if (e.1 == k') = true then (k', v) else e) =
          fun e => e.1 == k := by
        funext e
        simp only [Function.comp]
        split
        · rename_i h
          have : e.1 = k' := by simpa using h
          simp [this]
        · rfl
      rw [hfun]
      cases hf : env.find? (fun e => e.1 == k) with
      | none => rfl
      | some x =>
        have hx : x.1 = k := by simpa using List.find?_some hf
        have : ¬ x.1 = k' := by rw [hx]; exact fun h => hk h.symm
        simp [this]
  · rw [if_neg hany, List.find?_append]
    have hnone : ∀ e ∈ env, ¬ (e.1 == k') = true := by
      intro e he h
      exact hany (List.any_eq_true.2 ⟨e, he, h⟩)
    by_cases hk : k' = k
    · subst hk
      rw [if_pos rfl]
      have : env.find? (fun e => e.1 == k') = none := List.find?_eq_none.2 (by simpa using hnone)
      simp [this]
    · rw [if_neg hk]
      have : ([(k', v)] : List (Bytes × Bytes)).find? (fun e => e.1 == k) = none := by
        simp [hk]
      rw [this, Option.or_none]

/-- **Last value wins, per normalised name**: after `params.extend(pairs)` the value under key `k` is the
value of the LAST transmitted pair whose normalised name (`makeCgivar` = uppercase of the lossy
decoding) is `k`; keys that no pair has keep their old value. -/
theorem envLookup_extend (ps : List (Bytes × Bytes)) : ∀ (env : List (Bytes × Bytes)) (k : Bytes),
    envLookup (envExtend env ps) k =
      match ps.reverse.find? (fun q => makeCgivar q.1 == k) with
      | some q => some q.2
      | none => envLookup env k := by
  induction ps with
  | nil => intro env k; rfl
  | cons p ps ih =>
    intro env k
    rw [envExtend_cons, ih, List.reverse_cons, List.find?_append, envLookup_insert]
    cases hf : ps.reverse.find? (fun q => makeCgivar q.1 == k) with
    | some q => rfl
    | none =>
      by_cases hk : makeCgivar p.1 = k
      · simp [hk]
      · simp [hk]


/-- the environment the request parser ends with, looked up by normalised name: the value of the last
transmitted pair with that normalised name, `none` if there is none -/
theorem C01_env_last_value_wins (p : Preamble) (k : Bytes) :
    envLookup p.request.env k = (p.pairs.reverse.find? (fun q => makeCgivar q.1 == k)).map (·.2) := by
  show envLookup (envExtend [] p.pairs) k = _
  rw [envLookup_extend]
  cases p.pairs.reverse.find? (fun q => makeCgivar q.1 == k) <;> rfl
end C01

section C04
open Fcgi.Str Fcgi.Spec Fcgi.C03SI
/-- **C04, stream parser, PARSER level** (`Headline.C04Clause3` only relates two reference functions,
`refWire … .out = streamReplies`; its doc comment says "stream parser, ANY byte string and legal
history").  For every legal history without `set_stream` that has processed what it fed, the reply
bytes the stream parser generated are exactly `streamReplies` of the bytes it holds and was fed — one
`Spec.owed` per record in front of the stop position, in order, nothing else.
(`C03SI.drained_outcome` ∘ `C04H.stream_replies_hostile`.) -/
theorem C04_stream_replies_parser {E : Cfg} {p0 : Str.Parser} (h0 : Start E p0) (ops : List Op)
    (hl : LegalAll p0 ops) (hns : NoSet ops) (hdr : Drained (applyOps p0 ops)) :
    C03S.grownAll p0 ops = C04H.streamReplies E (p0.raw ++ fedBytes ops) := by
  have h := congrArg Outcome.out (drained_outcome h0 ops hl hns hdr).1
  simp only [outcome, refOutcome] at h
  rw [h, C04H.stream_replies_hostile]
end C04

section C06
open Fcgi.Req
/-- **C06, "if it cannot, it reports StuckOnInput from that very call"** (`Headline.C06Clause4` only
concludes `y.done = true`).  A legal call after which no buffer space is left, whose loop did not end
in a final state, returns `done` AND leaves `Fatal(StuckOnInput)`, which `into_request` returns.
(`C06.stuck_reported_at_once` + `C06.stuck_state`.) -/
theorem C06_no_space_reports_stuck {p p' : Req.Parser} {new : Bytes} {y : Yield} (hp : PInv p)
    (hn : new.length ≤ p.free) (h : p.parse new = (p', some y)) (hfree : p'.free = 0)
    (hnf : (run p.state (p.input ++ new) p.maxConns).st.isFinal = false) :
    y.done = true ∧ p'.state = .fatal .stuckOnInput ∧ p'.intoRequest = .error .stuckOnInput :=
  ⟨C06.stuck_reported_at_once hp hn h hfree, C06.stuck_state hp hn h hfree hnf⟩
end C06

section C07
open Fcgi.Req Fcgi.Str Fcgi.Async Fcgi.Run
/-- **C07, "serves the next request ONLY IF the request set the keep-connection flag and no I/O error
occurred"** (`Headline.C07Clause5` = `reuse_iff` relates `stepConn` to the result tag of `closePoll`
and mentions neither the flag nor the log).  If the connection goes on from a `close` that has not yet
started its epilogue, then the request had `KEEP_CONN`, no writer was alive, and `close` wrote — after
whatever `writeable()` flushed — everything pending in the parser's output buffer and then the
epilogue with the handler's status, and nothing else.  (`C07.reuse_iff` + `C07.close_writes_epilogue`.) -/
theorem C07_reuse_only_with_keepconn (c : Conn) (r : AReq) (cs : CloseSt) (status : ExitStatus) (alive : Nat)
    (hp : c.phase = .closing r cs status alive) (hl : cs.late = false) {c' : Conn}
    (hs : stepConn c = .next c') :
    r.sp.request.flags.toNat % 2 = 1 ∧ alive = 0 ∧
    ∃ r' cs' m t' rp X r2, closePoll r cs status alive c.env.mutex c.env.tr = (r', cs', m, t', .reuse rp) ∧
      r2.sp.request = r.sp.request ∧
      t'.wlog = c.env.tr.wlog ++ X ++ r2.sp.output ++ epilogueOf r2 status ∧
      rp = Req.Parser.fromParser r'.sp.cap r'.sp.raw r'.sp.maxConns := by
  obtain ⟨r', cs', m, t', rp, hc⟩ := (C07.reuse_iff c r cs status alive hp).1 ⟨c', hs⟩
  obtain ⟨X, r2, h1, h2, h3, h4, h5⟩ := C07.close_writes_epilogue hc hl
  exact ⟨h4, h3, r', cs', m, t', rp, X, r2, hc, h1, h2, h5⟩
end C07

/-! ## 2. Registered theorems the headline text relies on but does not have as conjuncts -/

-- C03 / C05: WHICH suffix is left over (the `run` relation), not just "a suffix" (`C05Clause5`)
theorem C03_leftover_is_unread_suffix : type_of% @C03.leftover_is_unread_suffix := @C03.leftover_is_unread_suffix
-- C03: chunk invariance across one `set_stream` (named in the section comment of C03 only)
theorem C03_early_switch_invariance : type_of% @C03SS.early_switch_invariance := @C03SS.early_switch_invariance

-- C05: "… and stream contents": the bytes delivered per turn (Headline.C05Clause6 has no such conjunct)
theorem C05_active_reads_facts : type_of% @C05C.active_reads_facts := @C05C.active_reads_facts
theorem C05_k_requests_active_reads : type_of% @C05C.k_requests_active_reads := @C05C.k_requests_active_reads

-- C06: tightness (Headline.C06Clause2 is NOT tightness), and C06 at the async level
theorem C06_sufficiency_tight : type_of% @C06.sufficiency_tight := @C06.sufficiency_tight
theorem C06_stuck_witness : type_of% @C06.stuck_witness := @C06.stuck_witness
theorem C06_stuck_pair_e2e : type_of% @C06E.stuck_pair_e2e := @C06E.stuck_pair_e2e
theorem C06_fatal_preamble_e2e : type_of% @C06E.fatal_preamble_e2e := @C06E.fatal_preamble_e2e
theorem C06_read_has_space : type_of% @C06E.read_has_space := @C06E.read_has_space
theorem C06_rgood_step : type_of% @C06E.rgood_step := @C06E.rgood_step

-- C07: when `close` completes, reuse iff KEEP_CONN
theorem C07_close_decision : type_of% @C07.close_decision := @C07.close_decision

-- C09: the invariant is kept from poll to poll; `read` returns 0 for good; the flag is set only on the
-- FINAL stream (Headline.C09Clause7 does not mention which stream is active)
theorem C09_reads_poll : type_of% @C09E.reads_poll := @C09E.reads_poll
theorem C09_eof_persists : type_of% @C09E.eof_persists := @C09E.eof_persists
theorem C09_writeable_pollInput : type_of% @C09.writeable_pollInput := @C09.writeable_pollInput

-- C11: the abort placements / handler rows that exist but are not conjuncts
theorem C11_abort_in_params_alone_e2e : type_of% @C11E.abort_in_params_alone_e2e := @C11E.abort_in_params_alone_e2e
theorem C11_abort_own_status_next_e2e : type_of% @C11E.abort_own_status_next_e2e := @C11E.abort_own_status_next_e2e
theorem C11_close_tolerates_abort : type_of% @C11.close_tolerates_abort := @C11.close_tolerates_abort

-- C12: a READ ERROR at every read call index / inside the preamble; no fuel panic without a size bound
theorem C12_read_error_at_index_e2e : type_of% @C12E.read_error_at_index_e2e := @C12E.read_error_at_index_e2e
theorem C12_read_err_in_preamble_e2e : type_of% @C12E.read_err_in_preamble_e2e := @C12E.read_err_in_preamble_e2e
theorem C12_run_panics_are_code_panics : type_of% @C12Fuel.run_panics_are_code_panics := @C12Fuel.run_panics_are_code_panics

-- C15: what the non-canonical four-byte encodings decode to; every successful decode
theorem C15_decode_any_four : type_of% @C15.decode_any_four := @C15.decode_any_four
theorem C15_decode_some : type_of% @C15.decode_some := @C15.decode_some

-- C16: no panic (all index guards hold); `write` succeeds on a Vec; the unfolding of `all`
theorem C16_nextGuards_true : type_of% @C16.nextGuards_true := @C16.nextGuards_true
theorem C16_write_vec : type_of% @C16.write_vec := @C16.write_vec
theorem C16_all_none : type_of% @C16.all_none := @C16.all_none
theorem C16_all_some : type_of% @C16.all_some := @C16.all_some

-- C17: re-encode / reject-exactly for the bodies, UnknownType, whole-record encoders, exit-status mapping
theorem C17_begin_reencode : type_of% @C17.begin_reencode := @C17.begin_reencode
theorem C17_begin_reject_iff : type_of% @C17.begin_reject_iff := @C17.begin_reject_iff
theorem C17_end_reencode : type_of% @C17.end_reencode := @C17.end_reencode
theorem C17_end_reject_iff : type_of% @C17.end_reject_iff := @C17.end_reject_iff
theorem C17_unknown_roundtrip : type_of% @C17.unknown_roundtrip := @C17.unknown_roundtrip
theorem C17_unknown_reencode : type_of% @C17.unknown_reencode := @C17.unknown_reencode
theorem C17_begin_toRecord : type_of% @C17.begin_toRecord := @C17.begin_toRecord
theorem C17_end_toRecord : type_of% @C17.end_toRecord := @C17.end_toRecord
theorem C17_unknown_toRecord : type_of% @C17.unknown_toRecord := @C17.unknown_toRecord
theorem C17_exit_mapping : type_of% @C17.exit_mapping := @C17.exit_mapping
theorem C17_exit_mapping_tables : type_of% @C17.exit_mapping_tables := @C17.exit_mapping_tables
/-- "the configured connection limit for both limits and 0 for multiplexing" — only in `def Vars.value` -/
theorem C17_var_values (m : Nat) :
    Vars.value 1 m = decimal m ∧ Vars.value 2 m = decimal m ∧ Vars.value 4 m = [48] ∧
    Vars.table = [("FCGI_MAX_CONNS".toUTF8.toList, 1), ("FCGI_MAX_REQS".toUTF8.toList, 2),
      ("FCGI_MPXS_CONNS".toUTF8.toList, 4)] := by
  refine ⟨by simp [Vars.value], by simp [Vars.value], by simp [Vars.value], rfl⟩

-- C18: `set_stream(None)`, non-input types, the held-back record and its `stream_end`, what activates delivery
theorem C18_setStream_none_ok : type_of% @C18.setStream_none_ok := @C18.setStream_none_ok
theorem C18_setStream_nonInput : type_of% @C18.setStream_nonInput := @C18.setStream_nonInput
theorem C18_held_back : type_of% @C18.held_back := @C18.held_back
theorem C18_held_back_repeats : type_of% @C18.held_back_repeats := @C18.held_back_repeats
theorem C18_head_activates : type_of% @C18.head_activates := @C18.head_activates
theorem C18_iter_only_active : type_of% @C18.iter_only_active := @C18.iter_only_active

-- C19: antisymmetry / the owned order is the borrowed one; what the constructors store; interning
theorem C19_cmp_swap : type_of% @C19.cmp_swap := @C19.cmp_swap
theorem C19_owned_cmp : type_of% @C19.owned_cmp := @C19.owned_cmp
theorem C19_fromCompact_asRef : type_of% @C19.fromCompact_asRef := @C19.fromCompact_asRef
theorem C19_fromStr_asRef : type_of% @C19.fromStr_asRef := @C19.fromStr_asRef
theorem C19_fromCompact_table : type_of% @C19.fromCompact_table := @C19.fromCompact_table

-- C20: exact fit succeeds / fails only when too small; the three digits of the status code
theorem C20_slice_ok_iff : type_of% @C20.slice_ok_iff := @C20.slice_ok_iff
theorem C20_fits_ok : type_of% @C20.fits_ok := @C20.fits_ok
theorem C20_redirect_fits_ok : type_of% @C20.redirect_fits_ok := @C20.redirect_fits_ok
theorem C20_digits3_spec : type_of% @C20.digits3_spec := @C20.digits3_spec

end Fcgi.HeadlineExtra
