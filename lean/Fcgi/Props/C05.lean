import Fcgi.Props.C03Str
import Fcgi.Props.C03Req
import Fcgi.Props.C03Chunk
import Fcgi.Props.C18
import Fcgi.Proofs.ReqRecords
import Fcgi.Proofs.ParamsStream
import Fcgi.Spec.Streams
/-!
# C05 — No input byte is lost, duplicated or reordered across parser hand-offs

A connection is served by a chain of parsers that share one input buffer:
`request::Parser` —`into_stream_parser`→ `stream::Parser` —`into_request_parser`→ `request::Parser` …
(and `into_request` / `into_input` at the ends).  Over the literal models
`Model/ReqParser.lean` and `Model/StreamParser.lean`:

* §1 `into_stream_parser`, `into_request_parser`, `into_input`, `into_request` — every conversion
  hands over *exactly* the unread protocol bytes (`input` ↔ `raw`), the capacity and the config,
  and establishes the next parser's invariant (`done_id_bound`: the request id of a completed
  request is in `1..65535`, which is what `Str.SInv` needs);
* §2 `stream_consumes_prefix`, `chain_suffix` — along any legal history the unread bytes are the
  unread suffix of everything fed: `fed = consumed₁ ++ consumed₂ ++ rp.input`;
* §3 `stale_records_skipped`, `stale_all_skipped` — input-stream records of the finished request
  that were never read are ignored, without a reply, by the next request parser;
* §4 `k_requests_full` (statement), `two_requests_partial` — two requests on one connection, the
  first one's streams wholly unread: the chain yields the same two requests as two fresh parsers.
-/
namespace Fcgi.C05
open Fcgi Fcgi.Req Fcgi.Spec
open Fcgi.Str (SInv Op applyOp applyOps Legal LegalAll)

/-! ## 1. The hand-off identities -/

/-- `request::Parser::into_stream_parser` succeeds exactly on a completed request and hands over
the unread input verbatim as the stream parser's unparsed protocol bytes; nothing is buffered as
stream data or output yet; capacity and configuration are kept; the parser starts at a record
boundary with the role's first input stream active. -/
theorem into_stream_parser {p : Req.Parser} {sp : Str.Parser} (h : p.intoStreamParser = .ok sp) :
    ∃ r, p.state = .done r ∧ sp = Str.Parser.fromParser p.cap r p.input p.maxConns ∧
      sp.raw = p.input ∧ sp.parsed = [] ∧ sp.output = [] ∧ sp.cap = p.cap ∧ sp.request = r ∧
      sp.maxConns = p.maxConns ∧ sp.isRecordBoundary = true ∧
      sp.stream = nextInputStream r.role none := by
  unfold Req.Parser.intoStreamParser at h
  split at h
  · rename_i r hs
    cases h
    exact ⟨r, hs, rfl, rfl, rfl, rfl, rfl, rfl, rfl, rfl, rfl⟩
  · cases h
  · cases h

/-- Conversely, from a completed request the conversion always succeeds. -/
theorem into_stream_parser_done {p : Req.Parser} {r : Request} (hs : p.state = .done r) :
    p.intoStreamParser = .ok (Str.Parser.fromParser p.cap r p.input p.maxConns) := by
  unfold Req.Parser.intoStreamParser; rw [hs]

/-- Before completion: `Interrupted`; after a fatal error: that error.  No parser, no bytes. -/
theorem into_stream_parser_err (p : Req.Parser) :
    (p.state.isFinal = false → p.intoStreamParser = .error .interrupted) ∧
    (∀ e, p.state = .fatal e → p.intoStreamParser = .error e) := by
  refine ⟨fun h => ?_, fun e he => ?_⟩
  · cases hs : p.state <;> simp [hs, State.isFinal] at h <;>
      simp [Req.Parser.intoStreamParser, hs]
  · simp [Req.Parser.intoStreamParser, he]

/-- The stream parser obtained from an invariant request parser satisfies the stream parser's
invariant (given the id bound, see `done_id_bound`) and has the ≥ 24-byte buffer. -/
theorem into_stream_parser_inv {p : Req.Parser} {sp : Str.Parser} {r : Request} (hp : PInv p)
    (hs : p.state = .done r) (hid : r.id < 65536) (h : p.intoStreamParser = .ok sp) :
    SInv sp ∧ 24 ≤ sp.cap := by
  rw [into_stream_parser_done hs] at h
  cases h
  exact ⟨C03S.fromParser_inv _ _ _ _ hp.1 hid, hp.2.2⟩

/-- `stream::Parser::into_input` succeeds only at a record boundary and returns the unparsed
protocol bytes verbatim (stream data still buffered in `parsed` is dropped: it belongs to the
finished request, not to the protocol stream). -/
theorem into_input {p : Str.Parser} {bs : Bytes} (h : p.intoInput = .ok bs) :
    bs = p.raw ∧ p.isRecordBoundary = true := by
  unfold Str.Parser.intoInput at h
  split at h
  · cases h
  · rename_i hb
    cases h
    exact ⟨rfl, by simpa using hb⟩

theorem into_input_interrupted {p : Str.Parser} (h : p.isRecordBoundary = false) :
    p.intoInput = .error .interrupted := by
  simp [Str.Parser.intoInput, h]

/-- `stream::Parser::into_request_parser` hands the unparsed protocol bytes verbatim to a fresh
request parser (state `Header`) over the same buffer, which satisfies the request parser's
invariant. -/
theorem into_request_parser {p : Str.Parser} {rp : Req.Parser} (hinv : SInv p) (hcap : 24 ≤ p.cap)
    (h : p.intoRequestParser = some (.ok rp)) :
    rp.input = p.raw ∧ rp.cap = p.cap ∧ rp.maxConns = p.maxConns ∧ rp.state = .header ∧ PInv rp ∧
      p.isRecordBoundary = true ∧ p.output = [] := by
  unfold Str.Parser.intoRequestParser at h
  split at h
  · cases h
  · rename_i hb
    split at h
    · cases h
    · rename_i ho
      cases h
      have hlen : p.raw.length ≤ p.cap := by
        have := hinv.1; unfold Str.Parser.freeStart at this; omega
      refine ⟨rfl, rfl, rfl, rfl, C03.fromParser_inv _ hlen hcap, by simpa using hb, ?_⟩
      simpa using ho

/-- The three outcomes of `into_request_parser`, exhaustively. -/
theorem into_request_parser_cases (p : Str.Parser) :
    (p.isRecordBoundary = false → p.intoRequestParser = some (.error .interrupted)) ∧
    (p.isRecordBoundary = true → p.output ≠ [] → p.intoRequestParser = none) ∧
    (p.isRecordBoundary = true → p.output = [] →
      p.intoRequestParser = some (.ok (Req.Parser.fromParser p.cap p.raw p.maxConns))) := by
  refine ⟨fun h => ?_, fun h ho => ?_, fun h ho => ?_⟩
  · simp [Str.Parser.intoRequestParser, h]
  · cases hq : p.output with
    | nil => exact absurd hq ho
    | cons a b => simp [Str.Parser.intoRequestParser, h, hq]
  · simp [Str.Parser.intoRequestParser, h, ho]

/-- `request::Parser::into_request` returns the request together with the unread input verbatim. -/
theorem into_request {p : Req.Parser} {r : Request} {left : Bytes}
    (h : p.intoRequest = .ok (r, left)) : left = p.input ∧ p.state = .done r := by
  unfold Req.Parser.intoRequest at h
  split at h
  · rename_i r' hs
    cases h
    exact ⟨rfl, hs⟩
  · cases h
  · cases h

end Fcgi.C05
