import Fcgi.Props.C03Str
import Fcgi.Props.C03Req
import Fcgi.Props.C03Chunk
import Fcgi.Props.C18
import Fcgi.Proofs.ReqRecords
import Fcgi.Proofs.ParamsStream
import Fcgi.Spec.Streams
/-!
# C05 — No input byte is lost, duplicated or reordered across parser hand-offs

A connection is served by a chain of parsers that share one input buffer:
`request::Parser` —`into_stream_parser`→ `stream::Parser` —`into_request_parser`→ `request::Parser` …
(and `into_request` / `into_input` at the ends).  Over the literal models
`Model/ReqParser.lean` and `Model/StreamParser.lean`:

* §1 `into_stream_parser`, `into_request_parser`, `into_input`, `into_request` — every conversion
  hands over *exactly* the unread protocol bytes (`input` ↔ `raw`), the capacity and the config,
  and establishes the next parser's invariant;
* §1b `done_id_bound` — the request id of a completed request is in `1..65535` (which is what
  `Str.SInv` needs): an invariant of `State::drive` proved through all sub-states;
* §2 `stream_consumes_prefix`, `chain_suffix` — along any legal history the unread bytes are the
  unread suffix of everything fed: `fed = consumed₁ ++ consumed₂ ++ rp.input`;
* §3 `stale_records_skipped`, `stale_all_skipped` — input-stream records of the finished request
  that were never read are ignored, without a reply, by the next request parser;
* §4 `k_requests_full` (false: `k_requests_full_false`), `k_requests_partial`,
  `two_requests_partial` — `k` requests on one connection, each one's streams wholly unread: the
  chain yields the same `k` requests (and outputs) as `k` fresh parsers; concrete instances.
-/
namespace Fcgi.C05
open Fcgi Fcgi.Req Fcgi.Spec
open Fcgi.Str (SInv Op applyOp applyOps Legal LegalAll)

/-! ## 1. The hand-off identities -/

/-- `request::Parser::into_stream_parser` succeeds exactly on a completed request and hands over
the unread input verbatim as the stream parser's unparsed protocol bytes; nothing is buffered as
stream data or output yet; capacity and configuration are kept; the parser starts at a record
boundary with the role's first input stream active. -/
theorem into_stream_parser {p : Req.Parser} {sp : Str.Parser} (h : p.intoStreamParser = .ok sp) :
    ∃ r, p.state = .done r ∧ sp = Str.Parser.fromParser p.cap r p.input p.maxConns ∧
      sp.raw = p.input ∧ sp.parsed = [] ∧ sp.output = [] ∧ sp.cap = p.cap ∧ sp.request = r ∧
      sp.maxConns = p.maxConns ∧ sp.isRecordBoundary = true ∧
      sp.stream = nextInputStream r.role none := by
  unfold Req.Parser.intoStreamParser at h
  split at h
  · rename_i r hs
    cases h
    exact ⟨r, hs, rfl, rfl, rfl, rfl, rfl, rfl, rfl, rfl, rfl⟩
  · cases h
  · cases h

/-- Conversely, from a completed request the conversion always succeeds. -/
theorem into_stream_parser_done {p : Req.Parser} {r : Request} (hs : p.state = .done r) :
    p.intoStreamParser = .ok (Str.Parser.fromParser p.cap r p.input p.maxConns) := by
  unfold Req.Parser.intoStreamParser; rw [hs]

/-- Before completion: `Interrupted`; after a fatal error: that error.  No parser, no bytes. -/
theorem into_stream_parser_err (p : Req.Parser) :
    (p.state.isFinal = false → p.intoStreamParser = .error .interrupted) ∧
    (∀ e, p.state = .fatal e → p.intoStreamParser = .error e) := by
  refine ⟨fun h => ?_, fun e he => ?_⟩
  · cases hs : p.state <;> simp [hs, State.isFinal] at h <;>
      simp [Req.Parser.intoStreamParser, hs]
  · simp [Req.Parser.intoStreamParser, he]

/-- The stream parser obtained from an invariant request parser satisfies the stream parser's
invariant (given the id bound, see `done_id_bound`) and has the ≥ 24-byte buffer. -/
theorem into_stream_parser_inv {p : Req.Parser} {sp : Str.Parser} {r : Request} (hp : PInv p)
    (hs : p.state = .done r) (hid : r.id < 65536) (h : p.intoStreamParser = .ok sp) :
    SInv sp ∧ 24 ≤ sp.cap := by
  rw [into_stream_parser_done hs] at h
  cases h
  exact ⟨C03S.fromParser_inv _ _ _ _ hp.1 hid, hp.2.2⟩

/-- `stream::Parser::into_input` succeeds only at a record boundary and returns the unparsed
protocol bytes verbatim (stream data still buffered in `parsed` is dropped: it belongs to the
finished request, not to the protocol stream). -/
theorem into_input {p : Str.Parser} {bs : Bytes} (h : p.intoInput = .ok bs) :
    bs = p.raw ∧ p.isRecordBoundary = true := by
  unfold Str.Parser.intoInput at h
  split at h
  · cases h
  · rename_i hb
    cases h
    exact ⟨rfl, by simpa using hb⟩

theorem into_input_interrupted {p : Str.Parser} (h : p.isRecordBoundary = false) :
    p.intoInput = .error .interrupted := by
  simp [Str.Parser.intoInput, h]

/-- `stream::Parser::into_request_parser` hands the unparsed protocol bytes verbatim to a fresh
request parser (state `Header`) over the same buffer, which satisfies the request parser's
invariant. -/
theorem into_request_parser {p : Str.Parser} {rp : Req.Parser} (hinv : SInv p) (hcap : 24 ≤ p.cap)
    (h : p.intoRequestParser = some (.ok rp)) :
    rp.input = p.raw ∧ rp.cap = p.cap ∧ rp.maxConns = p.maxConns ∧ rp.state = .header ∧ PInv rp ∧
      p.isRecordBoundary = true ∧ p.output = [] := by
  unfold Str.Parser.intoRequestParser at h
  split at h
  · cases h
  · rename_i hb
    split at h
    · cases h
    · rename_i ho
      cases h
      have hlen : p.raw.length ≤ p.cap := by
        have := hinv.1; unfold Str.Parser.freeStart at this; omega
      refine ⟨rfl, rfl, rfl, rfl, C03.fromParser_inv _ hlen hcap, by simpa using hb, ?_⟩
      simpa using ho

/-- The three outcomes of `into_request_parser`, exhaustively. -/
theorem into_request_parser_cases (p : Str.Parser) :
    (p.isRecordBoundary = false → p.intoRequestParser = some (.error .interrupted)) ∧
    (p.isRecordBoundary = true → p.output ≠ [] → p.intoRequestParser = none) ∧
    (p.isRecordBoundary = true → p.output = [] →
      p.intoRequestParser = some (.ok (Req.Parser.fromParser p.cap p.raw p.maxConns))) := by
  refine ⟨fun h => ?_, fun h ho => ?_, fun h ho => ?_⟩
  · simp [Str.Parser.intoRequestParser, h]
  · cases hq : p.output with
    | nil => exact absurd hq ho
    | cons a b => simp [Str.Parser.intoRequestParser, h, hq]
  · simp [Str.Parser.intoRequestParser, h, ho]

/-- `request::Parser::into_request` returns the request together with the unread input verbatim. -/
theorem into_request {p : Req.Parser} {r : Request} {left : Bytes}
    (h : p.intoRequest = .ok (r, left)) : left = p.input ∧ p.state = .done r := by
  unfold Req.Parser.intoRequest at h
  split at h
  · rename_i r' hs
    cases h
    exact ⟨rfl, hs⟩
  · cases h
  · cases h

/-! ## 1b. The request id of a completed request is in `1..65535` -/

/-- Request ids are non-zero 16-bit numbers. -/
def IdB (r : Request) : Prop := 0 < r.id ∧ r.id < 65536

def CtxId : Ctx → Prop
  | .hdr => True
  | .par i => IdB i.req
  | .dn r => IdB r

/-- Every request (under construction or completed) a state carries has a valid id. -/
def StId : State → Prop
  | .header => True
  | .params i _ _ => IdB i.req
  | .skip c _ _ => CtxId c
  | .values c _ _ _ => CtxId c
  | .done r => IdB r
  | .fatal _ => True

theorem stId_intoState {c : Ctx} (h : CtxId c) : StId c.intoState := by
  cases c <;> exact h

theorem stId_intoSkip {c : Ctx} (h : CtxId c) (pay pad : Nat) : StId (c.intoSkip pay pad) := by
  unfold Ctx.intoSkip
  split
  · exact stId_intoState h
  · exact h

theorem tryHead_ok_id {c : Ctx} {d : Bytes} {hd : RecordHeader} (h : tryHead c d = .ok hd) :
    hd.requestId < 65536 := by
  unfold tryHead at h
  split at h
  · rename_i b0 b1 b2 b3 b4 b5 b6 b7 t
    split at h
    · rename_i h' hfb
      cases h
      simp only [RecordHeader.fromBytes] at hfb
      split at hfb
      · cases hfb
      · split at hfb
        · cases hfb
        · cases hfb
          exact be16_lt _ _
    all_goals cases h
  · cases h

theorem tryHead_unknown_id {c : Ctx} {d o : Bytes} {st : State} (hc : CtxId c)
    (h : tryHead c d = .unknownType o st) : StId st := by
  unfold tryHead at h
  split at h
  · split at h
    · cases h
    · cases h; exact stId_intoSkip hc _ _
    all_goals cases h
  · cases h

/-- `parse_stream` never touches the id. -/
theorem parseStream_id {i i' : Inner} {data : Bytes} {e : Bool} {n : Nat} (hi : InnerOK i)
    (h : parseStream i data e = .ok i' n) : i'.req.id = i.req.id := by
  have hinv : ParamsInv i.req.env i.buffer i := by
    unfold ParamsInv
    rw [C16.all_none hi]
    exact ⟨rfl, rfl⟩
  exact (parseStream_spec _ _ _ _ _ _ _ hinv h).2.2.1.1

theorem headerDrive_id {d r o : Bytes} {s : State} {f : Flow} (h : headerDrive d = (f, o))
    (hf : f = .brk r s ∨ f = .cont r s) : StId s := by
  rcases hf with rfl | rfl
  · obtain ⟨-, -, -, hs⟩ := headerDrive_brk h
    rcases hs with rfl | ⟨e, rfl⟩ <;> trivial
  · unfold headerDrive at h
    split at h
    · cases h
    · cases h
    · rename_i o' st hh
      cases h
      exact tryHead_unknown_id (c := .hdr) trivial hh
    · rename_i hd hh
      have hid := tryHead_ok_id hh
      split at h
      · split at h
        · cases h
        · split at h
          · cases h
          · simp only at h
            split at h
            · cases h; exact stId_intoSkip (c := .hdr) trivial _ _
            · split at h
              · cases h
              · rename_i hz
                cases h
                refine ⟨?_, hid⟩
                show 0 < hd.requestId
                have : hd.requestId ≠ 0 := by simpa using hz
                omega
            · cases h
      · split at h
        · cases h; trivial
        · cases h; exact stId_intoSkip (c := .hdr) trivial _ _

theorem skipDrive_id {c : Ctx} {pay pad : Nat} {d r : Bytes} {s : State} {f : Flow}
    (hc : CtxId c) (h : skipDrive c pay pad d = f) (hf : f = .brk r s ∨ f = .cont r s) :
    StId s := by
  subst h
  unfold skipDrive at hf
  split at hf
  · rcases hf with hf | hf <;> cases hf; exact hc
  · split at hf
    · split at hf
      · rcases hf with hf | hf <;> cases hf; exact hc
      · rcases hf with hf | hf <;> cases hf
    · rcases hf with hf | hf <;> cases hf; exact stId_intoState hc

theorem valuesDrive_id {c : Ctx} {vars pay pad mc : Nat} {d r o : Bytes} {s : State} {f : Flow}
    (hc : CtxId c) (h : valuesDrive c vars pay pad d mc = (f, o))
    (hf : f = .brk r s ∨ f = .cont r s) : StId s := by
  unfold valuesDrive at h
  split at h
  · simp only at h
    split at h
    · split at h
      · cases h; rcases hf with hf | hf <;> cases hf; exact hc
      · cases h; rcases hf with hf | hf <;> cases hf
    · split at h
      · cases h; rcases hf with hf | hf <;> cases hf; exact hc
      · cases h; rcases hf with hf | hf <;> cases hf; exact stId_intoState hc
  · split at h
    · cases h; rcases hf with hf | hf <;> cases hf; exact hc
    · cases h; rcases hf with hf | hf <;> cases hf; exact stId_intoState hc

theorem recPhase_id {i : Inner} {d r o : Bytes} {s : State} {f : Flow} (hi : IdB i.req)
    (h : recPhase i d = (f, o)) (hf : f = .brk r s ∨ f = .cont r s) : StId s := by
  unfold recPhase at h
  split at h
  · cases h; rcases hf with hf | hf <;> cases hf; exact hi
  · cases h; rcases hf with hf | hf <;> cases hf; trivial
  · rename_i o' st hh
    cases h; rcases hf with hf | hf <;> cases hf
    exact tryHead_unknown_id (c := .par i) hi hh
  · simp only [] at h
    repeat' split at h
    all_goals cases h
    all_goals rcases hf with hf | hf <;> cases hf
    · exact stId_intoSkip (c := .dn i.req) hi _ _
    · exact hi
    · exact stId_intoSkip (c := .hdr) trivial _ _
    · exact stId_intoSkip (c := .par i) hi _ _
    · exact hi
    · exact stId_intoSkip (c := .par i) hi _ _

theorem paramsDrive_id {i : Inner} {pay pad : Nat} {d r o : Bytes} {s : State} {f : Flow}
    (hw : WFState (.params i pay pad)) (hi : IdB i.req) (h : paramsDrive i pay pad d = (f, o))
    (hf : f = .brk r s ∨ f = .cont r s) : StId s := by
  obtain ⟨-, -, hok⟩ := hw
  rcases paramsDrive_cases i pay pad d with ⟨x, hp, he⟩ | ⟨i', d1, hp, ⟨x, hq, he⟩ | ⟨d', hq, he⟩⟩
  · obtain ⟨i', n, hps, -, -, -, -, hr⟩ := payloadPhase_error hp
    rw [he, hr] at h
    cases h
    rcases hf with hf | hf <;> cases hf
    show IdB i'.req
    unfold IdB; rw [parseStream_id hok hps]; exact hi
  · have hi' : IdB i'.req := by
      rcases payloadPhase_ok hp with ⟨-, rfl, -⟩ | ⟨-, -, -, hps, -⟩
      · exact hi
      · unfold IdB; rw [parseStream_id hok hps]; exact hi
    obtain ⟨-, -, hr⟩ := padPhase_error hq
    rw [he, hr] at h
    cases h
    rcases hf with hf | hf <;> cases hf
    exact hi'
  · have hi' : IdB i'.req := by
      rcases payloadPhase_ok hp with ⟨-, rfl, -⟩ | ⟨-, -, -, hps, -⟩
      · exact hi
      · unfold IdB; rw [parseStream_id hok hps]; exact hi
    rw [he] at h
    exact recPhase_id hi' h hf

/-- One iteration keeps the id invariant. -/
theorem step_id {st s : State} {d r o : Bytes} {mc : Nat} {f : Flow} (hw : WFState st)
    (hid : StId st) (h : step st d mc = (f, o)) (hf : f = .brk r s ∨ f = .cont r s) : StId s := by
  unfold step at h
  split at h
  · cases h; rcases hf with hf | hf <;> cases hf; exact hid
  · cases h; rcases hf with hf | hf <;> cases hf; exact hid
  · exact headerDrive_id h hf
  · simp only [Prod.mk.injEq] at h
    exact skipDrive_id hid h.1 hf
  · cases h; rcases hf with hf | hf <;> cases hf
  · exact valuesDrive_id hid h hf
  · exact paramsDrive_id hw hid h hf

/-- The whole `drive` loop keeps it. -/
theorem run_id {st : State} (d : Bytes) (mc : Nat) (hw : WFState st) (hid : StId st) :
    StId (run st d mc).st := by
  induction hm : 2 * d.length + rank st using Nat.strongRecOn generalizing st d with
  | _ m ih =>
    subst hm
    cases hf : st.isFinal with
    | true => rw [run_final d mc hf]; exact hid
    | false =>
      cases h : step st d mc with
      | mk f o =>
        cases f with
        | panic s => exact (step_no_panic hw h).elim
        | brk r s =>
          rw [run_brk hf h]
          exact step_id hw hid h (Or.inl rfl)
        | cont r s =>
          obtain ⟨hws, hsuf, hg⟩ := step_cont hw h
          have hs := step_id hw hid h (Or.inr rfl)
          by_cases hr : r = []
          · subst hr; rw [run_cont_empty h]; exact hs
          · rw [run_cont hw h hr]
            have hrank := rank_le_one s
            have hrank' := rank_le_one st
            have hle := hsuf.length_le
            exact ih (2 * r.length + rank s) (by omega) r hws hs rfl

/-- …and so does every legal `parse` call. -/
theorem parse_id {p : Req.Parser} {new : Bytes} (hp : PInv p) (hn : new.length ≤ p.free)
    (hid : StId p.state) : StId (p.parse new).1.state := by
  rw [parse_eq hp hn]
  split
  · trivial
  · exact run_id _ _ hp.2.1 hid

/-- **The id bound.**  A request parser that started in state `Header` (`Parser::new`,
`Parser::from_parser`) and was driven by legal `parse` calls can only complete a request whose id
is in `1..65535` — `BeginRequest` with id 0 is `NullRequest`, and the id is a 16-bit field. -/
theorem done_id_bound {p : Req.Parser} (hp : PInv p) (hs : p.state = .header) (ns : List Bytes)
    (hl : C03.Legal p ns) {r : Request} (hd : (C03.feed p ns).state = .done r) :
    0 < r.id ∧ r.id < 65536 := by
  have key : ∀ (ns : List Bytes) (p : Req.Parser), PInv p → StId p.state → C03.Legal p ns →
      StId (C03.feed p ns).state := by
    intro ns
    induction ns with
    | nil => intro p _ h _; exact h
    | cons n ns ih =>
      intro p hp hid hl
      obtain ⟨hn, hl'⟩ := hl
      exact ih _ (C03.parse_total hp hn).choose_spec.2 (parse_id hp hn hid) hl'
  have := key ns p hp (by rw [hs]; trivial) hl
  rw [hd] at this
  exact this

/-- The same along `feedAll` (the caller stops at completion). -/
theorem done_id_bound_feedAll {p : Req.Parser} (hp : PInv p) (hs : StId p.state)
    (cs : List Bytes) (hl : C03.LegalFeed p cs) {r : Request}
    (hd : (C03.feedAll p cs).1.state = .done r) : 0 < r.id ∧ r.id < 65536 := by
  have key : ∀ (cs : List Bytes) (p : Req.Parser), PInv p → StId p.state → C03.LegalFeed p cs →
      StId (C03.feedAll p cs).1.state := by
    intro cs
    induction cs with
    | nil => intro p _ h _; exact h
    | cons c cs ih =>
      intro p hp hid hl
      cases hf : p.state.isFinal with
      | true => rw [C03.feedAll_final hf]; exact hid
      | false =>
        rcases hl with hl | ⟨-, hcn, hl⟩
        · rw [hf] at hl; cases hl
        obtain ⟨y, hy, hp'⟩ := C03.parse_total hp hcn
        have hpar : p.parse c = ((p.parse c).1, some y) := by rw [← hy]
        rw [C03.feedAll_cons cs hf hpar]
        exact ih _ hp' (parse_id hp hcn hid) hl
  have := key cs p hp hs hl
  rw [hd] at this
  exact this

/-! ## 2. The unread bytes are the unread suffix of everything fed -/

/-- The bytes the caller handed to the parser during an operation history (`parse` calls only). -/
def fedBytes : List Op → Bytes
  | [] => []
  | .parse new _ :: t => new ++ fedBytes t
  | _ :: t => fedBytes t

/-- Only `parse` touches the unparsed protocol bytes. -/
theorem raw_frame (p : Str.Parser) (op : Op) (h : ∀ new dest, op ≠ .parse new dest) :
    (applyOp p op).raw = p.raw := by
  cases op with
  | parse new dest => exact absurd rfl (h new dest)
  | consumeStream amt => rfl
  | compress => rfl
  | consumeOutput amt => rfl
  | setStream st =>
    simp only [applyOp]
    cases hr : p.setStream st with
    | ok p' =>
      rcases Str.setStream_ok_cases hr with ⟨-, rfl⟩ | ⟨-, rfl, -⟩
      · rfl
      · rfl
    | rejected => rfl
    | panic s => rfl

/-- No operation changes the buffer capacity, the request or the configuration. -/
theorem applyOps_frame (ops : List Op) (q : Str.Parser) :
    (applyOps q ops).cap = q.cap ∧ (applyOps q ops).request = q.request ∧
      (applyOps q ops).maxConns = q.maxConns := by
  induction ops generalizing q with
  | nil => exact ⟨rfl, rfl, rfl⟩
  | cons op t ih =>
    rw [Str.applyOps_cons]
    obtain ⟨a, b, c⟩ := ih (applyOp q op)
    rw [a, b, c]
    cases op with
    | parse new dest =>
      exact ⟨(Str.parse_frame q new dest).2.2.1, (Str.parse_frame q new dest).2.1,
        (Str.parse_frame q new dest).2.2.2.1⟩
    | consumeStream amt => exact ⟨rfl, rfl, rfl⟩
    | compress => exact ⟨rfl, rfl, rfl⟩
    | consumeOutput amt => exact ⟨rfl, rfl, rfl⟩
    | setStream st =>
      simp only [applyOp]
      cases hr : q.setStream st with
      | ok p' =>
        rcases Str.setStream_ok_cases hr with ⟨-, rfl⟩ | ⟨-, rfl, -⟩
        · exact ⟨rfl, rfl, rfl⟩
        · exact ⟨rfl, rfl, rfl⟩
      | rejected => exact ⟨rfl, rfl, rfl⟩
      | panic s => exact ⟨rfl, rfl, rfl⟩

/-- **The stream parser consumes a prefix.**  For every legal operation history from an invariant
state, the old unparsed bytes followed by everything fed equals what was interpreted followed by
what is still unparsed: nothing is lost, duplicated or reordered, whatever the interleaving of
`parse` (either destination), `consume_stream`, `compress`, `consume_output`, `set_stream`. -/
theorem stream_consumes_prefix {p : Str.Parser} (hinv : SInv p) {ops : List Op}
    (hl : LegalAll p ops) :
    ∃ consumed, p.raw ++ fedBytes ops = consumed ++ (applyOps p ops).raw := by
  induction ops generalizing p with
  | nil => exact ⟨[], by simp [fedBytes]⟩
  | cons op t ih =>
    obtain ⟨h1, h2⟩ := hl
    obtain ⟨hs, -⟩ := Str.step_safe hinv h1
    obtain ⟨c2, hc2⟩ := ih hs h2
    rw [Str.applyOps_cons]
    cases op with
    | parse new dest =>
      obtain ⟨c1, hc1⟩ := C03S.bytes_conserved (p := p) (new := new) (dest := dest) hinv.1 h1.1 h1.2
      refine ⟨c1 ++ c2, ?_⟩
      simp only [fedBytes, applyOp] at hc2 ⊢
      rw [← List.append_assoc, hc1, List.append_assoc, hc2, List.append_assoc]
    | consumeStream amt => exact ⟨c2, hc2⟩
    | compress => exact ⟨c2, hc2⟩
    | consumeOutput amt => exact ⟨c2, hc2⟩
    | setStream st =>
      refine ⟨c2, ?_⟩
      have := raw_frame p (.setStream st) (fun _ _ h => by cases h)
      rw [this] at hc2
      exact hc2

/-- Feeding keeps the request parser's invariant, capacity and configuration. -/
theorem feedAll_inv : ∀ (cs : List Bytes) (p : Req.Parser), PInv p → C03.LegalFeed p cs →
    PInv (C03.feedAll p cs).1 ∧ (C03.feedAll p cs).1.cap = p.cap ∧
      (C03.feedAll p cs).1.maxConns = p.maxConns := by
  intro cs
  induction cs with
  | nil => intro p hp _; exact ⟨hp, rfl, rfl⟩
  | cons c cs ih =>
    intro p hp hl
    cases hf : p.state.isFinal with
    | true => rw [C03.feedAll_final hf]; exact ⟨hp, rfl, rfl⟩
    | false =>
      rcases hl with hl | ⟨-, hcn, hl⟩
      · rw [hf] at hl; cases hl
      obtain ⟨y, hy, hp'⟩ := C03.parse_total hp hcn
      have hpar : p.parse c = ((p.parse c).1, some y) := by rw [← hy]
      rw [C03.feedAll_cons cs hf hpar]
      obtain ⟨a, b, c'⟩ := ih _ hp' hl
      obtain ⟨e1, e2⟩ := C03.parse_cap hp hcn
      exact ⟨a, b.trans e1, c'.trans e2⟩

/-- **Hand-off after any legal feeding.**  Whatever bytes a fresh request parser was fed, in
whatever chunks: once it has completed a request, `into_stream_parser` yields a stream parser that
satisfies the stream parser's invariant (no hypothesis on the id needed), holds exactly the unread
bytes, and has the ≥ 24-byte buffer `Request::new` / `poll_input` rely on. -/
theorem handoff_inv {p0 : Req.Parser} {cs : List Bytes} {r : Request} {sp : Str.Parser}
    (hp : PInv p0) (hst : StId p0.state) (hl : C03.LegalFeed p0 cs)
    (hd : (C03.feedAll p0 cs).1.state = .done r)
    (hsp : (C03.feedAll p0 cs).1.intoStreamParser = .ok sp) :
    SInv sp ∧ 24 ≤ sp.cap ∧ sp.raw = (C03.feedAll p0 cs).1.input ∧ sp.request = r ∧
      sp.cap = p0.cap := by
  obtain ⟨hp1, hcap1, -⟩ := feedAll_inv cs p0 hp hl
  have hid := (done_id_bound_feedAll hp hst cs hl hd).2
  obtain ⟨a, b⟩ := into_stream_parser_inv hp1 hd hid hsp
  rw [into_stream_parser_done hd] at hsp
  cases hsp
  exact ⟨a, b, rfl, rfl, hcap1⟩

/-- **The chain.**  A request parser `p0` is fed `cs` until it completes a request; it is converted
into a stream parser; any legal history `ops` runs on that; the result is converted back.  Then the
new request parser's unread input is a suffix of everything fed so far:
`p0.input ++ fed₁ ++ fed₂ = consumed₁ ++ consumed₂ ++ rp.input`, where `consumed₁` is what the
request parser interpreted for the preamble and `consumed₂` what the stream parser interpreted.
(`StId p0.state` holds for `Parser::new` / `from_parser`: state `Header`.) -/
theorem chain_suffix {p0 : Req.Parser} {cs : List Bytes} {r : Request} {sp : Str.Parser}
    {ops : List Op} {rp : Req.Parser} (hp : PInv p0) (hst : StId p0.state)
    (hl : C03.LegalFeed p0 cs) (hd : (C03.feedAll p0 cs).1.state = .done r)
    (hsp : (C03.feedAll p0 cs).1.intoStreamParser = .ok sp) (hops : LegalAll sp ops)
    (hrp : (applyOps sp ops).intoRequestParser = some (.ok rp)) :
    ∃ fed consumed₁ consumed₂,
      cs = fed ++ (C03.feedAll p0 cs).2.2 ∧
      p0.input ++ fed.flatten ++ fedBytes ops = consumed₁ ++ consumed₂ ++ rp.input ∧
      p0.input ++ fed.flatten = consumed₁ ++ sp.raw ∧
      sp.raw ++ fedBytes ops = consumed₂ ++ rp.input ∧
      rp.cap = p0.cap ∧ rp.state = .header ∧ PInv rp := by
  have hid : r.id < 65536 := (done_id_bound_feedAll hp hst cs hl hd).2
  obtain ⟨fed, c1, hcs, hc1, -⟩ := C03.leftover_is_unread_suffix hp hl hd
  rw [into_stream_parser_done hd] at hsp
  cases hsp
  obtain ⟨hp1, hcap1, -⟩ := feedAll_inv cs p0 hp hl
  have hsinv : SInv (Str.Parser.fromParser (C03.feedAll p0 cs).1.cap r (C03.feedAll p0 cs).1.input
      (C03.feedAll p0 cs).1.maxConns) := C03S.fromParser_inv _ _ _ _ hp1.1 hid
  obtain ⟨c2, hc2⟩ := stream_consumes_prefix hsinv hops
  obtain ⟨hsinv', -⟩ := Str.trace_safe hsinv hops
  have hcap' : (applyOps (Str.Parser.fromParser (C03.feedAll p0 cs).1.cap r
      (C03.feedAll p0 cs).1.input (C03.feedAll p0 cs).1.maxConns) ops).cap =
        (C03.feedAll p0 cs).1.cap := by
    rw [(applyOps_frame ops _).1]; rfl
  obtain ⟨e1, e2, -, e4, e5, -, -⟩ := into_request_parser hsinv' (by rw [hcap']; exact hp1.2.2) hrp
  refine ⟨fed, c1, c2, hcs, ?_, hc1, ?_, by rw [e2, hcap', hcap1], e4, e5⟩
  · have hc2' : (C03.feedAll p0 cs).1.input ++ fedBytes ops = c2 ++ rp.input := by
      rw [e1]; exact hc2
    rw [hc1, List.append_assoc, hc2', List.append_assoc]
  · rw [e1]; exact hc2

/-! ## 3. Unread records of a finished request are skipped by the next request parser -/

/-- A record the idle request parser must ignore without a reply: a known record type other than
BeginRequest that is not a management GetValues — in particular every Stdin, Data, Params and
AbortRequest record, whatever its request id (records of the finished request that the handler
never read). -/
def Stale (r : Rec) : Prop :=
  r.WF ∧ RT.valid r.rtype.toNat = true ∧ r.rtype.toNat ≠ RT.beginRequest ∧
    ¬ (r.rtype.toNat = RT.getValues ∧ r.id = 0)

/-- Stdin, Data, Params, AbortRequest (and the output-direction types) are stale for any id. -/
theorem stale_of_type {r : Rec} (hwf : r.WF)
    (ht : r.rtype.toNat ∈ [RT.abortRequest, RT.endRequest, RT.params, RT.stdin, RT.stdout,
      RT.stderr, RT.data, RT.getValuesResult, RT.unknown]) : Stale r := by
  simp only [RT.abortRequest, RT.endRequest, RT.params, RT.stdin, RT.stdout, RT.stderr, RT.data,
    RT.getValuesResult, RT.unknown, List.mem_cons, List.not_mem_nil, or_false] at ht
  refine ⟨hwf, ?_, ?_, ?_⟩
  · rcases ht with h | h | h | h | h | h | h | h | h <;> rw [h] <;> rfl
  · rcases ht with h | h | h | h | h | h | h | h | h <;> rw [h] <;> decide
  · rintro ⟨h9, -⟩
    rcases ht with h | h | h | h | h | h | h | h | h <;> rw [h] at h9 <;> cases h9

theorem owed_stale {r : Rec} (h : Stale r) (mc : Nat) : owed none mc r = [] := by
  obtain ⟨-, hv, hb, hg⟩ := h
  have h9 : (r.rtype.toNat == RT.getValues && r.id == 0) = false := by
    cases hq : (r.rtype.toNat == RT.getValues && r.id == 0) with
    | false => rfl
    | true =>
      simp only [Bool.and_eq_true, beq_iff_eq] at hq
      exact absurd hq hg
  have h1 : (r.rtype.toNat == RT.beginRequest) = false := by simpa using hb
  simp [owed, hv, h9, h1]

/-- **Stale records are skipped.**  A request parser waiting for a request (state `Header`) that
finds a stale record at the head of its input consumes it entirely (header, content, padding),
emits nothing, and carries on with what follows exactly as if the record had not been there. -/
theorem stale_records_skipped (r : Rec) (h : Stale r) (rest : Bytes) (mc : Nat) :
    run .header (r.ser ++ rest) mc = run .header rest mc := by
  have hn : IdleNoise r := ⟨h.1, fun hb => absurd hb h.2.2.1⟩
  have hl : rest ≠ [] ∨ ¬ EmptyGetValues r := Or.inr fun hg => h.2.2.2 ⟨hg.1, hg.2.1⟩
  rw [header_noise r hn rest mc hl, owed_stale h, pre_nil]

/-- Any number of them. -/
theorem stale_all_skipped (rs : List Rec) (h : ∀ r ∈ rs, Stale r) (rest : Bytes) (mc : Nat) :
    run .header (serAll rs ++ rest) mc = run .header rest mc := by
  induction rs with
  | nil => simp [serAll_nil]
  | cons r rs ih =>
    rw [serAll_cons, List.append_assoc,
      stale_records_skipped r (h r (List.mem_cons_self ..)) _ mc]
    exact ih fun x hx => h x (List.mem_cons_of_mem _ hx)

/-- At the level of the parser object: a request parser created by `into_request_parser` whose
handed-over input starts with stale records behaves, on its first `parse` call, exactly like a
parser that was handed only the bytes after them (the result differs only in nothing:
same output, same request / same state, same leftover). -/
theorem stale_skipped_parse (cap mc : Nat) (rs : List Rec) (h : ∀ r ∈ rs, Stale r)
    (rest new : Bytes) (hcap : 24 ≤ cap) (hlen : (serAll rs ++ rest ++ new).length ≤ cap) :
    ((Req.Parser.fromParser cap (serAll rs ++ rest) mc).parse new).2 =
        ((Req.Parser.fromParser cap rest mc).parse new).2 ∧
    ((Req.Parser.fromParser cap (serAll rs ++ rest) mc).parse new).1.state =
        ((Req.Parser.fromParser cap rest mc).parse new).1.state ∧
    ((Req.Parser.fromParser cap (serAll rs ++ rest) mc).parse new).1.input =
        ((Req.Parser.fromParser cap rest mc).parse new).1.input := by
  have hl1 : (serAll rs ++ rest).length ≤ cap := by
    simp only [List.length_append] at hlen ⊢; omega
  have hl2 : rest.length ≤ cap := by simp only [List.length_append] at hlen; omega
  have hp1 := C03.fromParser_inv (input := serAll rs ++ rest) mc hl1 hcap
  have hp2 := C03.fromParser_inv (input := rest) mc hl2 hcap
  have hn1 : new.length ≤ (Req.Parser.fromParser cap (serAll rs ++ rest) mc).free := by
    simp only [Req.Parser.free, Req.Parser.fromParser, List.length_append] at hlen ⊢; omega
  have hn2 : new.length ≤ (Req.Parser.fromParser cap rest mc).free := by
    simp only [Req.Parser.free, Req.Parser.fromParser, List.length_append] at hlen ⊢; omega
  have hrun : run .header (serAll rs ++ rest ++ new) mc = run .header (rest ++ new) mc := by
    rw [List.append_assoc]; exact stale_all_skipped rs h _ mc
  rw [parse_eq hp1 hn1, parse_eq hp2 hn2]
  simp only [Req.Parser.fromParser, hrun]
  exact ⟨rfl, rfl, rfl⟩

/-! ## 4. Several requests on one connection -/

/-- One turn of the connection loop with a handler that does not read its input streams: the
request parser is given `new` (one `parse` call) and completes a request; it is converted into a
stream parser; `Request::close` selects no stream (`set_stream(None)`; the parser is at a record
boundary, so `record_boundary()` returns at once) and converts back.  Result: the request, the
parser output of the call, and the next request parser. -/
def turn (p : Req.Parser) (new : Bytes) : Option (Request × Bytes × Req.Parser) :=
  match p.parse new with
  | (p1, some y) =>
    match p1.intoRequest, p1.intoStreamParser with
    | .ok (r, _), .ok sp =>
      match sp.setStream none with
      | .ok sp' =>
        match sp'.intoRequestParser with
        | some (.ok rp) => some (r, y.output, rp)
        | _ => none
      | _ => none
    | _, _ => none
  | _ => none

/-- `k` turns; all bytes are handed to the first call, the later calls find them in the buffer. -/
def serve : Nat → Req.Parser → Bytes → List (Request × Bytes) × Req.Parser
  | 0, p, _ => ([], p)
  | k + 1, p, new =>
    match turn p new with
    | some (r, o, rp) => ((r, o) :: (serve k rp []).1, (serve k rp []).2)
    | none => ([], p)

/-- What a fresh parser makes of `w` alone: request, output, unread leftover. -/
def fresh (cap mc : Nat) (w : Bytes) : Option (Request × Bytes × Bytes) :=
  match (Req.Parser.fromParser cap [] mc).parse w with
  | (p1, some y) =>
    match p1.intoRequest with
    | .ok (r, left) => some (r, y.output, left)
    | _ => none
  | _ => none

/-- The unrestricted wish: whatever follows each preamble, the chain over `w₁ ++ … ++ w_k` yields
the same requests and outputs as `k` fresh parsers on the `wᵢ`.  FALSE as stated — what follows a
preamble may be a management `GetValues` record (the chain's next parser answers it: its output
differs from the fresh parser's on `w_{i+1}`) or a `BeginRequest` for another id (the chain's next
parser starts that request).  Refuted formally in `k_requests_full_false`; true when the tails are
stale records: `k_requests_partial`. -/
def k_requests_full : Prop :=
  ∀ (cap mc : Nat) (ws : List Bytes), 24 ≤ cap → ws.flatten.length ≤ cap →
    (∀ w ∈ ws, (fresh cap mc w).isSome = true) →
    (serve ws.length (Req.Parser.fromParser cap [] mc) ws.flatten).1.map some =
      ws.map fun w => (fresh cap mc w).map fun x => (x.1, x.2.1)

/-- One request as sent by the client: the preamble bytes (which a parser turns into request `req`
with output `out`, consuming them entirely) and the records of its input streams. -/
structure Sent where
  pre : Bytes
  streams : List Rec
  req : Request
  out : Bytes

def Sent.wire (s : Sent) : Bytes := s.pre ++ serAll s.streams

def Sent.OK (s : Sent) (mc : Nat) : Prop :=
  run .header s.pre mc = ⟨[], .done s.req, s.out, none⟩ ∧ ∀ r ∈ s.streams, Stale r

/-- `run` over a preamble followed by anything: the request, and everything else left over. -/
theorem run_pre_rest {pre rest o : Bytes} {r : Request} {mc : Nat}
    (h : run .header pre mc = ⟨[], .done r, o, none⟩) :
    run .header (pre ++ rest) mc = ⟨rest, .done r, o, none⟩ := by
  by_cases hr : rest = []
  · subst hr; rw [List.append_nil]; exact h
  · rw [C03.run_split (st := .header) trivial pre rest mc hr, h]
    simp only [List.nil_append]
    rw [run_final rest mc rfl]
    simp

/-- One turn, given what `State::drive` makes of the buffered bytes. -/
theorem turn_of_run {cap mc : Nat} (hcap : 24 ≤ cap) {inp new rest o : Bytes} {r : Request}
    (hlen : (inp ++ new).length ≤ cap)
    (hrun : run .header (inp ++ new) mc = ⟨rest, .done r, o, none⟩) :
    turn (Req.Parser.fromParser cap inp mc) new = some (r, o, Req.Parser.fromParser cap rest mc) := by
  have hl1 : inp.length ≤ cap := by simp only [List.length_append] at hlen; omega
  have hp := C03.fromParser_inv (input := inp) mc hl1 hcap
  have hn : new.length ≤ (Req.Parser.fromParser cap inp mc).free := by
    simp only [Req.Parser.free, Req.Parser.fromParser, List.length_append] at hlen ⊢; omega
  have hparse : (Req.Parser.fromParser cap inp mc).parse new =
      ({ cap := cap, input := rest, state := .done r, maxConns := mc },
        some { done := true, output := o }) := by
    rw [parse_eq hp hn]
    simp only [Req.Parser.fromParser, hrun]
    rfl
  obtain ⟨q, hq, hq1, hq2, hq3, hq4, hq5⟩ : ∃ q,
      (Str.Parser.fromParser cap r rest mc).setStream none = .ok q ∧ q.raw = rest ∧ q.cap = cap ∧
        q.maxConns = mc ∧ q.isRecordBoundary = true ∧ q.output = [] := by
    rw [Str.setStream_none]
    by_cases h : (Str.Parser.fromParser cap r rest mc).stream = none
    · rw [if_pos h]; exact ⟨_, rfl, rfl, rfl, rfl, rfl, rfl⟩
    · rw [if_neg h]; exact ⟨_, rfl, rfl, rfl, rfl, rfl, rfl⟩
  unfold turn
  rw [hparse]
  simp only [Req.Parser.intoRequest, Req.Parser.intoStreamParser, hq,
    (into_request_parser_cases q).2.2 hq4 hq5, hq1, hq2, hq3]

/-- A fresh parser on a preamble followed by anything. -/
theorem fresh_pre_rest {cap mc : Nat} (hcap : 24 ≤ cap) {pre rest o : Bytes} {r : Request}
    (hpre : run .header pre mc = ⟨[], .done r, o, none⟩) (hlen : (pre ++ rest).length ≤ cap) :
    fresh cap mc (pre ++ rest) = some (r, o, rest) := by
  have hp := C03.fromParser_inv (input := []) mc (Nat.zero_le _) hcap
  have hn : (pre ++ rest).length ≤ (Req.Parser.fromParser cap [] mc).free := by
    simp only [Req.Parser.free, Req.Parser.fromParser, List.length_nil]; omega
  unfold fresh
  rw [parse_eq hp hn]
  simp only [Req.Parser.fromParser, List.nil_append, run_pre_rest hpre]
  rfl

/-- One turn from a buffer that starts with stale records of the previous request. -/
theorem turn_spec {cap mc : Nat} (hcap : 24 ≤ cap) (stale : List Rec) (hst : ∀ r ∈ stale, Stale r)
    {inp new pre rest o : Bytes} {r : Request}
    (hsplit : inp ++ new = serAll stale ++ (pre ++ rest)) (hlen : (inp ++ new).length ≤ cap)
    (hpre : run .header pre mc = ⟨[], .done r, o, none⟩) :
    turn (Req.Parser.fromParser cap inp mc) new = some (r, o, Req.Parser.fromParser cap rest mc) := by
  apply turn_of_run hcap hlen
  rw [hsplit, stale_all_skipped stale hst]; exact run_pre_rest hpre

/-- Concatenation of the wires. -/
def wires (ss : List Sent) : Bytes := (ss.map Sent.wire).flatten

theorem serve_spec {cap mc : Nat} (hcap : 24 ≤ cap) :
    ∀ (ss : List Sent) (stale : List Rec) (inp new : Bytes), (∀ r ∈ stale, Stale r) →
      (∀ s ∈ ss, s.OK mc) → inp ++ new = serAll stale ++ wires ss → (inp ++ new).length ≤ cap →
      (serve ss.length (Req.Parser.fromParser cap inp mc) new).1 = ss.map (fun s => (s.req, s.out)) ∧
      (ss ≠ [] → (serve ss.length (Req.Parser.fromParser cap inp mc) new).2 =
        Req.Parser.fromParser cap (serAll ((ss.getLast?.map Sent.streams).getD [])) mc) := by
  intro ss
  induction ss with
  | nil => intro stale inp new _ _ _ _; exact ⟨rfl, fun h => absurd rfl h⟩
  | cons s ss ih =>
    intro stale inp new hst hok hsplit hlen
    obtain ⟨hpre, hstr⟩ := hok s (List.mem_cons_self ..)
    have hw : wires (s :: ss) = s.pre ++ (serAll s.streams ++ wires ss) := by
      simp [wires, Sent.wire]
    rw [hw] at hsplit
    have ht := turn_spec hcap stale hst hsplit hlen hpre
    have hlen' : ((serAll s.streams ++ wires ss) ++ ([] : Bytes)).length ≤ cap := by
      have := congrArg List.length hsplit
      simp only [List.length_append, List.length_nil] at this hlen ⊢
      omega
    obtain ⟨ih1, ih2⟩ := ih s.streams (serAll s.streams ++ wires ss) [] hstr
      (fun x hx => hok x (List.mem_cons_of_mem _ hx)) (by simp) hlen'
    simp only [List.length_cons, serve, ht, List.map_cons]
    refine ⟨by rw [ih1], fun _ => ?_⟩
    cases ss with
    | nil => simp [serve, wires]
    | cons s2 ss2 =>
      rw [ih2 (by simp)]
      simp

/-- **k requests, streams unread.**  The client sends `k` requests back to back, each a preamble
followed by input-stream records the handler never reads.  The chain of parser conversions over
the whole byte string yields exactly the `k` requests (and outputs) that `k` fresh parsers yield on
the individual wires, in order; the last parser is left holding exactly the last request's unread
stream records. -/
theorem k_requests_partial {cap mc : Nat} (hcap : 24 ≤ cap) (ss : List Sent)
    (hok : ∀ s ∈ ss, s.OK mc) (hlen : (wires ss).length ≤ cap) :
    (serve ss.length (Req.Parser.fromParser cap [] mc) (wires ss)).1 =
        ss.map (fun s => (s.req, s.out)) ∧
    (∀ s ∈ ss, fresh cap mc s.wire = some (s.req, s.out, serAll s.streams)) := by
  refine ⟨(serve_spec hcap ss [] [] (wires ss) (fun _ h => by cases h) hok
    (by simp [serAll_nil]) (by simpa using hlen)).1, fun s hs => ?_⟩
  obtain ⟨hpre, -⟩ := hok s hs
  have hle : s.wire.length ≤ (wires ss).length := by
    obtain ⟨a, b, rfl⟩ := List.append_of_mem hs
    simp [wires]; omega
  have hp := C03.fromParser_inv (input := []) mc (Nat.zero_le _) hcap
  have hn : s.wire.length ≤ (Req.Parser.fromParser cap [] mc).free := by
    simp only [Req.Parser.free, Req.Parser.fromParser, List.length_nil]; omega
  unfold fresh
  rw [parse_eq hp hn]
  simp only [Req.Parser.fromParser, List.nil_append, Sent.wire, run_pre_rest hpre]
  rfl

/-- The case `k = 2`, spelled out: `w₁ = pre₁ ++ streams₁`, `w₂ = pre₂ ++ streams₂`. -/
theorem two_requests_partial {cap mc : Nat} (hcap : 24 ≤ cap) (s₁ s₂ : Sent) (h₁ : s₁.OK mc)
    (h₂ : s₂.OK mc) (hlen : (s₁.wire ++ s₂.wire).length ≤ cap) :
    (serve 2 (Req.Parser.fromParser cap [] mc) (s₁.wire ++ s₂.wire)).1 =
      [(s₁.req, s₁.out), (s₂.req, s₂.out)] ∧
    fresh cap mc s₁.wire = some (s₁.req, s₁.out, serAll s₁.streams) ∧
    fresh cap mc s₂.wire = some (s₂.req, s₂.out, serAll s₂.streams) := by
  have hok : ∀ s ∈ [s₁, s₂], s.OK mc := by
    intro s hs
    simp only [List.mem_cons, List.not_mem_nil, or_false] at hs
    rcases hs with rfl | rfl <;> assumption
  have hw : wires [s₁, s₂] = s₁.wire ++ s₂.wire := by simp [wires]
  obtain ⟨a, b⟩ := k_requests_partial hcap [s₁, s₂] hok (by rw [hw]; exact hlen)
  rw [hw] at a
  exact ⟨a, b s₁ (by simp), b s₂ (by simp)⟩

/-! ### Concrete instances -/

namespace Examples

/-- `BeginRequest(id 1, Responder, flags 0)`. -/
def exBegin : Rec :=
  { rtype := 1, id := 1, content := toBe16 1 ++ [0] ++ [0, 0, 0, 0, 0], pad := [], reserved := 0 }
/-- the empty `Params` record that ends the preamble -/
def exEndParams : Rec := { rtype := 4, id := 1, content := [], pad := [], reserved := 0 }
def exPre : Bytes := exBegin.ser ++ exEndParams.ser
def exReq : Request := Request.new 1 { role := 1, flags := 0 }
/-- `Stdin(id 1, "hi")` and the empty `Stdin(id 1)`: the request's input stream, never read. -/
def exStdin : Rec := { rtype := 5, id := 1, content := [104, 105], pad := [0, 0, 0, 0, 0, 0] }
def exStdinEnd : Rec := { rtype := 5, id := 1, content := [], pad := [] }

theorem ex_pre (mc : Nat) : run .header exPre mc = ⟨[], .done exReq, [], none⟩ := by
  unfold exPre exBegin
  rw [header_begin 1 1 0 [0, 0, 0, 0, 0] [] 0 _ mc ⟨by decide, by decide⟩ rfl rfl (by decide)]
  have := params_done { req := exReq, buffer := [] } (innerOK_nil _) [] 0 [] mc (by decide)
    (by decide)
  rw [List.append_nil] at this
  exact this

theorem ex_stale : Stale exStdin ∧ Stale exStdinEnd :=
  ⟨stale_of_type ⟨by decide, by decide, by decide⟩ (by decide),
    stale_of_type ⟨by decide, by decide, by decide⟩ (by decide)⟩

/-- The request as sent: preamble, then its (unread) `Stdin` stream. -/
def exSent : Sent := { pre := exPre, streams := [exStdin, exStdinEnd], req := exReq, out := [] }

theorem exSent_ok (mc : Nat) : exSent.OK mc :=
  ⟨ex_pre mc, fun r hr => by
    simp only [exSent, List.mem_cons, List.not_mem_nil, or_false] at hr
    rcases hr with rfl | rfl
    · exact ex_stale.1
    · exact ex_stale.2⟩

/-- Two such requests back to back in a 128-byte buffer: the chain yields both. -/
example : (serve 2 (Req.Parser.fromParser 128 [] 10) (exSent.wire ++ exSent.wire)).1 =
    [(exReq, []), (exReq, [])] :=
  (two_requests_partial (by decide) exSent exSent (exSent_ok 10) (exSent_ok 10) (by decide)).1

/-- The stale `Stdin` records are skipped by the idle parser without output. -/
example (rest : Bytes) (mc : Nat) :
    run .header (exStdin.ser ++ (exStdinEnd.ser ++ rest)) mc = run .header rest mc := by
  rw [stale_records_skipped _ ex_stale.1, stale_records_skipped _ ex_stale.2]

/-- Hand-off identities on a concrete completed parser holding three unread bytes. -/
example :
    let p : Req.Parser := { cap := 24, input := [1, 5, 0], state := .done exReq, maxConns := 1 }
    ∃ sp, p.intoStreamParser = .ok sp ∧ sp.raw = [1, 5, 0] ∧ sp.parsed = [] ∧ sp.cap = 24 ∧
      sp.request = exReq ∧ SInv sp ∧
      ∃ rp, sp.intoRequestParser = some (.ok rp) ∧ rp.input = [1, 5, 0] ∧ rp.state = .header ∧
        PInv rp := by
  intro p
  have hp : PInv p := ⟨by decide, trivial, by decide⟩
  refine ⟨_, into_stream_parser_done rfl, rfl, rfl, rfl, rfl, ?_, ?_⟩
  · exact (into_stream_parser_inv hp rfl (by decide) (into_stream_parser_done rfl)).1
  · have hs := (into_stream_parser_inv hp rfl (by decide) (into_stream_parser_done (p := p) rfl)).1
    refine ⟨_, (into_request_parser_cases _).2.2 rfl rfl, rfl, rfl, ?_⟩
    exact (into_request_parser hs (by decide) ((into_request_parser_cases _).2.2 rfl rfl)).2.2.2.2.1

/-- A management `GetValues` record with a (garbage) one-byte body. -/
def exGetValues : Rec := { rtype := 9, id := 0, content := [1], pad := [] }

theorem ex_owed (mc : Nat) : owed none mc exGetValues ≠ [] := by
  simp [owed, exGetValues, RT.valid, RT.getValues, Vars.responseRecord, RecordHeader.toBytes]

end Examples

open Examples in
/-- **`k_requests_full` is false.**  `w₁` = a preamble followed by a management `GetValues` record,
`w₂` = a preamble.  Fresh parsers yield `(req, no output)` twice.  In the chain the first parser
completes its request with the `GetValues` record unread; the handler does not read; the *next*
request parser answers the query, so the second turn's output is a `GetValuesResult` record. -/
theorem k_requests_full_false : ¬ k_requests_full := by
  intro h
  have hlen : ([exPre ++ exGetValues.ser, exPre] : List Bytes).flatten.length ≤ 64 := by decide
  have hw₁ : fresh 64 10 (exPre ++ exGetValues.ser) = some (exReq, [], exGetValues.ser) :=
    fresh_pre_rest (by decide) (ex_pre 10) (by decide)
  have hw₂ : fresh 64 10 exPre = some (exReq, [], []) := by
    have := fresh_pre_rest (rest := []) (cap := 64) (by decide) (ex_pre 10) (by decide)
    simpa using this
  have := h 64 10 [exPre ++ exGetValues.ser, exPre] (by decide) hlen (by
    intro w hw
    simp only [List.mem_cons, List.not_mem_nil, or_false] at hw
    rcases hw with rfl | rfl
    · rw [hw₁]; rfl
    · rw [hw₂]; rfl)
  -- the chain
  have hflat : ([exPre ++ exGetValues.ser, exPre] : List Bytes).flatten =
      [] ++ (exPre ++ (exGetValues.ser ++ exPre)) := by simp
  have ht1 : turn (Req.Parser.fromParser 64 [] 10) ([exPre ++ exGetValues.ser, exPre] : List Bytes).flatten
      = some (exReq, [], Req.Parser.fromParser 64 (exGetValues.ser ++ exPre) 10) := by
    apply turn_of_run (by decide) (by simpa using hlen)
    rw [hflat, List.nil_append, List.nil_append]
    exact run_pre_rest (ex_pre 10)
  have hrun2 : run .header (exGetValues.ser ++ exPre ++ []) 10 =
      ⟨[], .done exReq, owed none 10 exGetValues, none⟩ := by
    rw [List.append_nil,
      header_noise exGetValues ⟨⟨by decide, by decide, by decide⟩, fun hx => by cases hx⟩ exPre 10
        (Or.inl (by decide)), ex_pre 10]
    simp
  have ht2 : turn (Req.Parser.fromParser 64 (exGetValues.ser ++ exPre) 10) [] =
      some (exReq, owed none 10 exGetValues, Req.Parser.fromParser 64 [] 10) :=
    turn_of_run (by decide) (by decide) hrun2
  simp only [List.length_cons, List.length_nil, serve, ht1, ht2, List.map_cons, List.map_nil, hw₁,
    hw₂, Option.map_some] at this
  simp only [List.cons.injEq, Option.some.injEq, Prod.mk.injEq, true_and, and_true] at this
  exact ex_owed 10 this

end Fcgi.C05
