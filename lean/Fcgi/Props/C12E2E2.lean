import Fcgi.Proofs.E2ETrunc2ErrRun
import Fcgi.Props.C12E2E

/-!
# C12 — end to end: end-of-file at EVERY byte offset of a Responder wire

`W = serAll recs ++ serAll srecs`: a well-formed preamble and a well-formed `Stdin` stream
(`srecs.dropLast` = its data records and noise, then the terminating empty record).  The transport
delivers `W.take k` and then reports end-of-file (`Ben t`, `t.endMode = .eof`); the handler is the
canonical one.

* `eof_in_terminator_e2e` — the cut is behind the 8th byte of the terminating record (or nothing is
  cut: `k ≥ |W|`).  The stream parser has the terminating record's header, so the handler's
  `readAll` ends CLEANLY with the whole content; the handler writes its output; `close()` writes the
  queued stream-noise replies and `[Stdout∅][Stderr∅][EndRequest]` — the complete log of
  `C07E.single_request_e2e`.  The end-of-file only shows afterwards: without KEEP_CONN `close`
  ends the connection anyway; with KEEP_CONN the next `parse_request` swallows what there is of the
  terminating record (no reply), reads `Ok(0)` and ends the task quietly.  In both cases: `RET`,
  phase `finished`.
* `eof_any_offset_e2e` — the case split over `k`: together with `eof_in_preamble_e2e_partial`
  (`k < |preamble|`) and `eof_mid_stream_e2e_body` (`|preamble| ≤ k < |preamble| + |body| + 8`) every
  offset is covered.  Common guarantees: the task returns (`RET`, `finished`), within `|rd| + |wr| + 1`
  polls; at most one handler start, none for an incomplete preamble; a `readAll` that cannot be
  completed fails with `UnexpectedEof` after a prefix of the content (never a clean end); the write
  log is a byte prefix of a log `C07E.single_request_e2e_full` allows for the complete wire.

## A read ERROR instead of end-of-file

The transport is in `err` mode (`BenE t`, `t.endMode = .err`): it delivers `W.take k` (any read
splitting, transient `Pending`s) and answers the next read with its read error `rdErr`
(`ConnectionAborted` if the transport's `abortKind` flag is set, a transport-specific kind
otherwise).

* `read_err_in_preamble_e2e` — inside the preamble the error is SWALLOWED: exactly the outcome of
  `eof_in_preamble_e2e_partial` (`RET`, `finished`, no handler, the log a prefix of the owed
  preamble replies); neither the result nor the write log tells the error from an end-of-file (only
  the transport's own trace line of the read does).
* `read_err_mid_stream_e2e` / `read_err_mid_stream_e2e_body` — inside the stream the handler's
  `readAll` fails with exactly that error after a prefix of the content (`R!<kind>:…` event; never
  success, never `UnexpectedEof`), the propagating handler returns it (`HE(err:<kind>)`), the task
  finishes without `close`: the log holds the preamble replies and the stream-noise replies only.
* NOT covered for the error mode: cuts behind the 8th byte of the terminating record (the analogue of
  `eof_in_terminator_e2e`; there the failing read can only be the one of the NEXT `parse_request` of a
  KEEP_CONN connection, where it is swallowed as in the preamble — the one-step fact is
  `read_at_err` + `E2E.step_reading`, the whole-run composition would need the stages of `E2EConn`
  re-proved for `BenE`).
-/
namespace Fcgi.C12E
open Fcgi Fcgi.Req Fcgi.Str Fcgi.Async Fcgi.Run Fcgi.Spec Fcgi.E2E Fcgi.C07E

/-- **The input ends inside the terminating record of the stream, behind its header** (or not at
all). -/
theorem eof_in_terminator_e2e {p : Preamble} {recs : List Rec} {content : Bytes} {srecs : List Rec}
    {b mc : Nat} {data : Bytes} {st : ExitStatus} {t : Transport} {fuel : Nat} (k : Nat)
    (hwf : WellFormedPreamble p recs) (hrole : p.role = 1)
    (hpairs : ∀ q ∈ p.pairs, (NV.enc q).length ≤ alignedBufsize b)
    (hnoise : NoiseFits (alignedBufsize b) recs)
    (hs : StreamRecs p.id 5 content srecs) (hsn : NoiseFits (alignedBufsize b) srecs)
    (hk : (serAll recs).length + (serAll srecs.dropLast).length + 8 ≤ k)
    (hin : t.input = (serAll recs ++ serAll srecs).take k) (hben : Ben t) (hem : t.endMode = .eof)
    (hev : hsCount t.events = 0) (hfuel : t.rd.length + t.wr.length + 1 ≤ fuel)
    (hsize : 4 * t.input.length + 17 ≤ 100000)
    (hhf : alignedBufsize b / 32 + wcost data.length + 12 ≤ 1000) :
    ∃ c' O₁ O₂, runTask fuel (conn0 b mc t data st) 0 none = (c', "RET") ∧
      O₁ ++ O₂ = owedStream p.id 5 mc srecs ∧ c'.phase = .finished ∧
      c'.env.tr.wlog = t.wlog ++ expectedLogN p recs mc data st O₁ O₂ ∧
      hsCount c'.env.tr.events = 1 ∧ startEvent p.request ∈ c'.env.tr.events ∧
      readEvent content ∈ c'.env.tr.events := by
  by_cases hlt : k < (serAll recs ++ serAll srecs).length
  · obtain ⟨body, pad, res, hpad, hbody, hsrecs⟩ := Str.StreamRecs.split hs
    have hdl : srecs.dropLast = body := by rw [hsrecs]; exact List.dropLast_concat
    rw [hdl] at hk
    have hsb : NoiseFits (alignedBufsize b) body := fun r hr => hsn r (by rw [hsrecs]; simp [hr])
    have ok : (cfgR p recs content body pad res b mc data st t.wlog 0 []).OK :=
      ⟨hwf, hpairs, hnoise, .responder hrole hbody hsb hpad rfl rfl rfl rfl rfl rfl hhf⟩
    have hser : serAll srecs = serAll body ++ (trec 5 p.id pad res).ser := by
      rw [hsrecs, C02.serAll_append, C02.serAll_single]; rfl
    rw [hser] at hin hlt
    obtain ⟨n, rfl⟩ : ∃ n, k = (serAll recs).length + ((serAll body).length + n) :=
      ⟨k - (serAll recs).length - (serAll body).length, by omega⟩
    have h8 : 8 ≤ n := by omega
    have hn : n < (trec 5 p.id pad res).ser.length := by
      simp only [List.length_append] at hlt; omega
    rw [take_add_append, take_add_append] at hin
    have ok2 := cfg2_cut ok hrole h8 hn
    have hstage : Stage (cutCfg (cfgR p recs content body pad res b mc data st t.wlog 0 []) n)
        (conn0 b mc t data st) :=
      .start (raw := []) rfl (by show [] ++ t.input = _; rw [hin]; rfl) (Nat.zero_le _) rfl hben rfl rfl rfl hev
    obtain ⟨c', O1, O2, hO, hrun, hfin⟩ := run_from_stage2 ok2 (ans t) (conn0 b mc t data st) 0 fuel hstage hem rfl
      (Nat.le_refl _) (by unfold ans; omega) hsize
    have hOt : owedStream p.id 5 mc srecs = owedStream p.id 5 mc body := by
      rw [hsrecs, owedStream_append, owedStream_term p.id 5 mc _ rfl, List.append_nil]
    have hlog : c'.env.tr.wlog = (cfgR p recs content body pad res b mc data st t.wlog 0 []).L3 O1 O2 := hfin.log
    rw [L3_eq] at hlog
    have hev1 : hsCount c'.env.tr.events = 0 + 1 ∧ hsEvent p.request ∈ c'.env.tr.events := hfin.ev
    exact ⟨c', O1, O2, hrun, hO.trans hOt.symm, hfin.ph, hlog, hev1.1, hev1.2,
      hfin.re _ (by show rEvent content ∈ [rEvent content]; simp)⟩
  · have hin' : t.input = serAll recs ++ serAll srecs := by
      rw [hin, List.take_of_length_le (by omega)]
    obtain ⟨c', fin, O1, O2, hrun, hO, ho⟩ :=
      single_request_e2e (data := data) (st := st) (fuel := fuel) hwf hrole hpairs hnoise hs hsn hin' hben hev hfuel hsize hhf
    rcases ho.final with ⟨_, rfl, hph⟩ | ⟨_, _, rfl, hph⟩ | ⟨_, hp, _⟩
    · exact ⟨c', O1, O2, hrun, hO, hph, ho.log, ho.one_handler.1, ho.one_handler.2, ho.read_content⟩
    · exact ⟨c', O1, O2, hrun, hO, hph, ho.log, ho.one_handler.1, ho.one_handler.2, ho.read_content⟩
    · rw [hem] at hp; cases hp

/-- **End-of-file at any byte offset `k` of a Responder wire.** -/
theorem eof_any_offset_e2e {p : Preamble} {recs : List Rec} {content : Bytes} {srecs : List Rec}
    {b mc : Nat} {data : Bytes} {st : ExitStatus} {t : Transport} {fuel : Nat} (k : Nat)
    (hwf : WellFormedPreamble p recs) (hrole : p.role = 1)
    (hpairs : ∀ q ∈ p.pairs, (NV.enc q).length ≤ alignedBufsize b)
    (hnoise : NoiseFits (alignedBufsize b) recs)
    (hs : StreamRecs p.id 5 content srecs) (hsn : NoiseFits (alignedBufsize b) srecs)
    (hin : t.input = (serAll recs ++ serAll srecs).take k) (hben : Ben t) (hem : t.endMode = .eof)
    (hev : hsCount t.events = 0) (hfuel : t.rd.length + t.wr.length + 1 ≤ fuel)
    (hsize : 4 * t.input.length + 17 ≤ 100000)
    (hhf : alignedBufsize b / 32 + wcost data.length + 12 ≤ 1000) :
    ∃ c' O₁ O₂, runTask fuel (conn0 b mc t data st) 0 none = (c', "RET") ∧ c'.phase = .finished ∧
      O₁ ++ O₂ = owedStream p.id 5 mc srecs ∧
      -- the log is a byte prefix of a complete log
      (∃ w, c'.env.tr.wlog = t.wlog ++ w ∧ w <+: expectedLogN p recs mc data st O₁ O₂) ∧
      -- at most one handler start; none for an incomplete preamble
      hsCount c'.env.tr.events ≤ 1 ∧
      (k < (serAll recs).length → hsCount c'.env.tr.events = 0) ∧
      ((serAll recs).length ≤ k → hsCount c'.env.tr.events = 1 ∧ startEvent p.request ∈ c'.env.tr.events) ∧
      -- a `readAll` that cannot be completed fails with `UnexpectedEof`, after a prefix of the content
      ((serAll recs).length ≤ k → k < (serAll recs).length + (serAll srecs.dropLast).length + 8 →
        ∃ C, C <+: content ∧ readEofEvent C ∈ c'.env.tr.events ∧ handlerEofEvent ∈ c'.env.tr.events) ∧
      -- behind the header of the terminating record: everything is read, everything is answered
      ((serAll recs).length + (serAll srecs.dropLast).length + 8 ≤ k →
        readEvent content ∈ c'.env.tr.events ∧
        c'.env.tr.wlog = t.wlog ++ expectedLogN p recs mc data st O₁ O₂) := by
  have hlen7 : 2 * t.input.length + 7 ≤ 100000 := by omega
  by_cases h1 : k < (serAll recs).length
  · -- inside the preamble
    obtain ⟨c', hrun, hph, _, hhs, _, hlog, hpre⟩ := eof_in_preamble_e2e_partial (p := p) (recs := recs) (serAll srecs)
      b mc k [(canonical data st, true)] t fuel hwf hpairs hnoise h1 hin hben hem hfuel (by omega)
    refine ⟨c', owedStream p.id 5 mc srecs, [], hrun, hph, List.append_nil _, ⟨_, hlog, ?_⟩, by omega,
      fun _ => hhs.trans hev, fun h => by omega, fun h => by omega, fun h => by omega⟩
    refine hpre.trans ?_
    simp only [expectedLogN, List.append_assoc]
    exact List.prefix_append _ _
  · by_cases h2 : k < (serAll recs).length + (serAll srecs.dropLast).length + 8
    · -- inside the stream, in front of the 8th byte of the terminating record
      obtain ⟨j, rfl⟩ : ∃ j, k = (serAll recs).length + j := ⟨k - (serAll recs).length, by omega⟩
      rw [take_add_append] at hin
      obtain ⟨c', C, O, hrun, hph, _, hC, hO, hlog, hhs, hst, hre, hhe⟩ := eof_mid_stream_e2e_body
        (p := p) (recs := recs) (srecs := srecs) (content := content) ((serAll srecs).take j) b mc data st t fuel
        hwf hrole hpairs hnoise hs hsn (List.take_prefix _ _)
        (by have := List.length_take_le j (serAll srecs); omega) hin hben hem hfuel hlen7 (by omega)
      have hhs1 : hsCount c'.env.tr.events = 1 := by rw [hhs, hev]
      refine ⟨c', owedStream p.id 5 mc srecs, [], hrun, hph, List.append_nil _,
        ⟨owedPreamble p mc recs ++ O, by rw [hlog, List.append_assoc], ?_⟩, by omega,
        fun h => by omega, fun _ => ⟨hhs1, hst⟩, fun _ _ => ⟨C, hC, hre, hhe⟩, fun h => by omega⟩
      obtain ⟨z, hz⟩ := hO
      simp only [expectedLogN, List.append_assoc, ← hz]
      exact ⟨z ++ (streamRecords 6 p.id data ++ ([] ++ epilogue p.id st)), by simp only [List.append_assoc]⟩
    · -- behind the header of the terminating record
      obtain ⟨c', O1, O2, hrun, hO, hph, hlog, hhs, hst, hre⟩ := eof_in_terminator_e2e (data := data) (st := st)
        (fuel := fuel) k hwf hrole hpairs hnoise hs hsn (by omega) hin hben hem hev hfuel hsize hhf
      exact ⟨c', O1, O2, hrun, hph, hO, ⟨_, hlog, List.prefix_refl _⟩, by omega, fun h => by omega,
        fun _ => ⟨hhs, hst⟩, fun _ h => by omega, fun _ => ⟨hre, hlog⟩⟩

/-! ## A read error instead of end-of-file -/

/-- **The read fails inside the preamble**: swallowed like an end-of-file. -/
theorem read_err_in_preamble_e2e {p : Preamble} {recs : List Rec} (X : Bytes) (b mc k : Nat)
    (scripts : List (List HOp × Bool)) (t : Transport) (fuel : Nat)
    (hwf : WellFormedPreamble p recs)
    (hpairs : ∀ q ∈ p.pairs, (NV.enc q).length ≤ alignedBufsize b) (hnoise : NoiseFits (alignedBufsize b) recs)
    (hk : k < (serAll recs).length) (hin : t.input = (serAll recs ++ X).take k)
    (hb : BenE t) (hem : t.endMode = .err)
    (hfuel : t.rd.length + t.wr.length + 1 ≤ fuel) (hlen : 2 * t.input.length + 5 ≤ 100000) :
    ∃ c', runTask fuel (connS b mc t scripts) 0 none = (c', "RET") ∧ c'.phase = .finished ∧
      c'.env.tr.input = [] ∧ hsCount c'.env.tr.events = hsCount t.events ∧ c'.scripts = scripts ∧
      c'.env.tr.wlog = t.wlog ++ (run .header t.input mc).out ∧
      (run .header t.input mc).out <+: owedPreamble p mc recs := by
  have htake : t.input = (serAll recs).take k := by
    rw [hin, List.take_append_of_le_length (Nat.le_of_lt hk)]
  have hdrop : (serAll recs).drop k ≠ [] := by
    intro h
    have := congrArg List.length h
    simp only [List.length_drop, List.length_nil] at this
    omega
  have hK : TCtx (alignedBufsize b) mc t.input ((serAll recs ++ X).drop k) (serAll recs ++ X) :=
    ⟨alignedBufsize_ge b, by rw [hin]; exact List.take_append_drop _ _, noStuck_of hwf X b mc hpairs hnoise, by
      rintro F ⟨z, hz⟩
      refine prefix_not_final hwf (w := F) (t := z ++ (serAll recs).drop k) ?_ ?_ mc
      · rw [← List.append_assoc, hz, htake, List.take_append_drop]
      · intro h; exact hdrop (List.append_eq_nil_iff.mp h).2⟩
  obtain ⟨c', hrun, hfin, hsc⟩ := trunc_run_startE hK (c := connS b mc t scripts) (n := 0) (fuel := fuel)
    rfl rfl rfl hb hem rfl hfuel hlen
  refine ⟨c', hrun, hfin.phase, hfin.input, hfin.hs, hsc, hfin.wlog, ?_⟩
  have hsplit := Req.run_split (st := .header) trivial ((serAll recs).take k) ((serAll recs).drop k) mc hdrop
  rw [List.take_append_drop] at hsplit
  have hone := C01.C01_oneshot hwf [] mc
  rw [List.append_nil] at hone
  have hout : owedPreamble p mc recs = (run .header (serAll recs) mc).out := by rw [hone]
  rw [hout, hsplit, htake]
  exact List.prefix_append _ _

/-- the trace event of a `readAll` that failed with the error `x` after collecting `bytes` -/
abbrev readErrEvent (x : IoErr) (bytes : Bytes) : String := rrEvent x bytes

/-- the trace event of the handler future ending with `Err(x)` -/
abbrev handlerErrEvent (x : IoErr) : String := heEventX x

/-- the read error of a transport is one of two kinds, never the library's own `AbortRequest` -/
theorem rdErr_kinds (t : Transport) : t.rdErr = .connectionAborted ∨ t.rdErr = .transportRead := by
  unfold Transport.rdErr; split <;> simp

/-- **The read fails inside the stream the handler reads** (`Y`, `C`, `O` as in
`eof_mid_stream_e2e`); `x` = the transport's read error. -/
theorem read_err_mid_stream_e2e {p : Preamble} {recs : List Rec} (Y C O U : Bytes) (b mc : Nat) (rest : List HOp)
    (more : List (List HOp × Bool)) (t : Transport) (fuel : Nat)
    (hwf : WellFormedPreamble p recs) (hrole : p.role = 1 ∨ p.role = 3)
    (hpairs : ∀ q ∈ p.pairs, (NV.enc q).length ≤ alignedBufsize b) (hnoise : NoiseFits (alignedBufsize b) recs)
    (hcut : refWire ⟨p.id, p.role, 5, mc⟩ Y = ⟨C, O, .more, U⟩)
    (hfits : ∀ G, G <+: Y → (refWire ⟨p.id, p.role, 5, mc⟩ G).verdict = .more →
      (refWire ⟨p.id, p.role, 5, mc⟩ G).unread.length < alignedBufsize b)
    (hin : t.input = serAll recs ++ Y) (hb : BenE t) (hem : t.endMode = .err)
    (hfuel : t.rd.length + t.wr.length + 1 ≤ fuel) (hlen : 2 * t.input.length + 7 ≤ 100000)
    (hcap : alignedBufsize b / 32 + 8 ≤ 1000) :
    ∃ c' x, runTask fuel (connS b mc t ((.readAll :: rest, true) :: more)) 0 none = (c', "RET") ∧
      x = c'.env.tr.rdErr ∧ c'.phase = .finished ∧ c'.env.tr.input = [] ∧
      c'.env.tr.wlog = t.wlog ++ owedPreamble p mc recs ++ O ∧
      hsCount c'.env.tr.events = hsCount t.events + 1 ∧ startEvent p.request ∈ c'.env.tr.events ∧
      readErrEvent x C ∈ c'.env.tr.events ∧ handlerErrEvent x ∈ c'.env.tr.events ∧ c'.scripts = more := by
  let g : MCfg := ⟨p, recs, b, mc, Y, C, O, U, rest, more, t.wlog, hsCount t.events⟩
  have ok : g.OK := ⟨hwf, hrole, hpairs, hnoise, ⟨hcut, hfits, by have := alignedBufsize_ge b; show 8 ≤ alignedBufsize b; omega⟩, hcap⟩
  obtain ⟨c', hrun, hfin⟩ := mid_run_startE ok (c := connS b mc t ((.readAll :: rest, true) :: more)) (n := 0)
    (fuel := fuel) rfl rfl hin rfl hb hem rfl rfl rfl rfl hfuel hlen
  exact ⟨c', _, hrun, rfl, hfin.phase, hfin.input, hfin.wlog, hfin.hs, hfin.start, hfin.rerr, hfin.herr, hfin.scripts⟩

/-- **… for the canonical Responder handler and a cut anywhere in front of the 8th byte of the
terminating record of a well-formed `Stdin` stream.** -/
theorem read_err_mid_stream_e2e_body {p : Preamble} {recs srecs : List Rec} {content : Bytes} (Y : Bytes)
    (b mc : Nat) (data : Bytes) (st : ExitStatus) (t : Transport) (fuel : Nat)
    (hwf : WellFormedPreamble p recs) (hrole : p.role = 1)
    (hpairs : ∀ q ∈ p.pairs, (NV.enc q).length ≤ alignedBufsize b) (hnoise : NoiseFits (alignedBufsize b) recs)
    (hs : StreamRecs p.id 5 content srecs) (hsn : NoiseFits (alignedBufsize b) srecs)
    (hY : Y <+: serAll srecs) (hYl : Y.length < (serAll srecs.dropLast).length + 8)
    (hin : t.input = serAll recs ++ Y) (hb : BenE t) (hem : t.endMode = .err)
    (hfuel : t.rd.length + t.wr.length + 1 ≤ fuel) (hlen : 2 * t.input.length + 7 ≤ 100000)
    (hcap : alignedBufsize b / 32 + 8 ≤ 1000) :
    ∃ c' x C O, runTask fuel (conn0 b mc t data st) 0 none = (c', "RET") ∧
      x = c'.env.tr.rdErr ∧ (x = .connectionAborted ∨ x = .transportRead) ∧
      c'.phase = .finished ∧ c'.env.tr.input = [] ∧ C <+: content ∧ O <+: owedStream p.id 5 mc srecs ∧
      c'.env.tr.wlog = t.wlog ++ owedPreamble p mc recs ++ O ∧
      hsCount c'.env.tr.events = hsCount t.events + 1 ∧ startEvent p.request ∈ c'.env.tr.events ∧
      readErrEvent x C ∈ c'.env.tr.events ∧ handlerErrEvent x ∈ c'.env.tr.events := by
  obtain ⟨body, pad, res, _, hbody, hsr⟩ := Str.StreamRecs.split hs
  have hdl : srecs.dropLast = body := by rw [hsr]; exact List.dropLast_concat
  rw [hdl] at hYl
  rw [hsr, C02.serAll_append] at hY
  have hid : p.id < 65536 := wf_id_lt hwf
  have hfitb : NoiseFits (alignedBufsize b) body := fun r hr => hsn r (by rw [hsr]; exact List.mem_append_left _ hr)
  have h8 : 8 ≤ alignedBufsize b := by have := alignedBufsize_ge b; omega
  have hcutY : ∃ C O U, refWire ⟨p.id, p.role, 5, mc⟩ Y = ⟨C, O, .more, U⟩ ∧ C <+: content ∧
      O <+: owedStream p.id 5 mc body ∧ (∀ G, G <+: Y → (refWire ⟨p.id, p.role, 5, mc⟩ G).verdict = .more →
        (refWire ⟨p.id, p.role, 5, mc⟩ G).unread.length < alignedBufsize b) := by
    rcases prefix_append_cases hY with ⟨w, rfl, _⟩ | ⟨z, _, hz⟩
    · refine cut_of_body' p.id p.role mc hid hbody h8 hfitb (h := w) ?_ (List.prefix_refl _)
      simp only [List.length_append] at hYl
      omega
    · exact cut_of_body p.id p.role mc hid hbody h8 hfitb ⟨z, hz⟩
  obtain ⟨C, O, U, hcut, hC, hO, hfits⟩ := hcutY
  have hO' : O <+: owedStream p.id 5 mc srecs := by
    rw [hsr, Str.owedStream_append]
    exact hO.trans (List.prefix_append _ _)
  obtain ⟨c', x, h1, hx, h2, h3, h4, h5, h6, h7, h8, _⟩ := read_err_mid_stream_e2e Y C O U b mc _ [] t fuel hwf (Or.inl hrole)
    hpairs hnoise hcut hfits hin hb hem hfuel hlen hcap
  exact ⟨c', x, C, O, h1, hx, by rw [hx]; exact rdErr_kinds _, h2, h3, hC, hO', h4, h5, h6, h7, h8⟩

/-! ## Non-vacuity -/

/-- 9 bytes into the terminating record of `C07E.Example.exS` (whose data records and noise take 21
bytes): behind the first of its 2 padding bytes -/
def exK3 : Nat := (serAll C01.Example.recs).length + 21 + 9

def exT3 : Transport :=
  { input := (serAll C01.Example.recs ++ serAll C07E.Example.exS).take exK3, endMode := .eof,
    rd := [.n 10, .pending, .n 60, .pending, .n 7], wr := [.n 5, .pending, .all, .n 1], fl := [] }

/-- The wire of `C07E.Example` (KEEP_CONN) cut behind the first padding byte of the terminating
record: the complete log. -/
example : ∃ c', runTask 12 (conn0 64 10 exT3 [104, 105] (.complete 0)) 0 none = (c', "RET") ∧
    c'.phase = .finished ∧
    c'.env.tr.wlog = expectedLog C01.Example.pre C01.Example.recs 10 [104, 105] (.complete 0) ∧
    hsCount c'.env.tr.events = 1 ∧ readEvent [65, 66, 67] ∈ c'.env.tr.events := by
  obtain ⟨c', O1, O2, h1, h2, h3, h4, h5, _, h7⟩ := eof_in_terminator_e2e (p := C01.Example.pre)
    (recs := C01.Example.recs) (content := [65, 66, 67]) (srecs := C07E.Example.exS) (b := 64) (mc := 10)
    (data := [104, 105]) (st := .complete 0) (t := exT3) (fuel := 12) exK3
    C01.Example.recs_wf rfl (C01.Example.pre_pairs_fit 64) (C01.Example.noise_fits 64) C07E.Example.exS_ok
    (C07E.Example.exS_fits _) (by decide +kernel) rfl ⟨by decide, by decide, rfl, by decide⟩ rfl rfl (by decide)
    (by decide +kernel) (by decide)
  have h2 : O1 ++ O2 = owedStream 1 5 10 C07E.Example.exS := h2
  rw [C07E.Example.exS_quiet] at h2
  obtain ⟨rfl, rfl⟩ := List.append_eq_nil_iff.1 h2
  rw [expectedLogN_nil] at h4
  exact ⟨c', h1, h3, h4, h5, h7⟩

/-- … and `eof_any_offset_e2e` at an offset inside the stream's data record. -/
example : ∃ c' C, runTask 12 (conn0 64 10
      { exT3 with input := (serAll C01.Example.recs ++ serAll C07E.Example.exS).take ((serAll C01.Example.recs).length + 19) }
      [104, 105] (.complete 0)) 0 none = (c', "RET") ∧ c'.phase = .finished ∧
    hsCount c'.env.tr.events = 1 ∧ C <+: [65, 66, 67] ∧ readEofEvent C ∈ c'.env.tr.events := by
  obtain ⟨c', O1, O2, h1, h2, _, _, _, _, h6, h7, _⟩ := eof_any_offset_e2e (p := C01.Example.pre)
    (recs := C01.Example.recs) (content := [65, 66, 67]) (srecs := C07E.Example.exS) (b := 64) (mc := 10)
    (data := [104, 105]) (st := .complete 0)
    (t := { exT3 with input := (serAll C01.Example.recs ++ serAll C07E.Example.exS).take ((serAll C01.Example.recs).length + 19) })
    (fuel := 12) ((serAll C01.Example.recs).length + 19)
    C01.Example.recs_wf rfl (C01.Example.pre_pairs_fit 64) (C01.Example.noise_fits 64) C07E.Example.exS_ok
    (C07E.Example.exS_fits _) rfl ⟨by decide, by decide, rfl, by decide⟩ rfl rfl (by decide)
    (by decide +kernel) (by decide)
  obtain ⟨C, hC, hre, _⟩ := h7 (by omega) (by decide +kernel)
  exact ⟨c', C, h1, h2, (h6 (by omega)).1, hC, hre⟩

/-- `read_err_mid_stream_e2e_body`: the same cut wire, but the transport fails the read at the end of
the input with `ConnectionAborted` (`abortKind`). -/
example : ∃ c' C, runTask 12 (conn0 64 10
      { exT3 with input := serAll C01.Example.recs ++ (serAll C07E.Example.exS).take 19, endMode := .err, abortKind := true }
      [104, 105] (.complete 0)) 0 none = (c', "RET") ∧ c'.phase = .finished ∧
    hsCount c'.env.tr.events = 1 ∧ C <+: [65, 66, 67] ∧
    (readErrEvent .connectionAborted C ∈ c'.env.tr.events ∨ readErrEvent .transportRead C ∈ c'.env.tr.events) := by
  obtain ⟨c', x, C, O, h1, _, hx, h2, _, hC, _, _, h6, _, h8, _⟩ := read_err_mid_stream_e2e_body (p := C01.Example.pre)
    (recs := C01.Example.recs) (srecs := C07E.Example.exS) (content := [65, 66, 67])
    ((serAll C07E.Example.exS).take 19) 64 10 [104, 105] (.complete 0)
    { exT3 with input := serAll C01.Example.recs ++ (serAll C07E.Example.exS).take 19, endMode := .err, abortKind := true } 12
    C01.Example.recs_wf rfl (C01.Example.pre_pairs_fit 64) (C01.Example.noise_fits 64) C07E.Example.exS_ok
    (C07E.Example.exS_fits _) (by decide +kernel) (by decide +kernel) rfl ⟨by decide, by decide, rfl⟩ rfl (by decide)
    (by decide +kernel) (by decide)
  refine ⟨c', C, h1, h2, h6, hC, ?_⟩
  rcases hx with rfl | rfl
  · exact Or.inl h8
  · exact Or.inr h8

end Fcgi.C12E
