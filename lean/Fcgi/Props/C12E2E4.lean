import Fcgi.Proofs.E2EIndep3Conn
import Fcgi.Props.C07E2E

/-!
# C12 — a failing answer at an arbitrary index of ANY of the three scripts

`Indep3.ext X t` = the transport `t` with `X.xr` / `X.xw` / `X.xf` appended to its read / write /
flush scripts, each empty or starting with a failing answer (`Indep3.Bad X`).  On an exhausted script
the model answers `.all` (read: whatever is there; write: everything accepted) resp. `.ok` (flush).

* `runTask_script_indep3` (= `Indep3.runTask_dich`; per function `Indep3.read_dich`, `writeV_dich`,
  `flush_dich`, … `handlerPoll_dich` (all ops), `closePoll_dich`, `stepConn_dich`, `pollConn_dich`):
  for connections whose handlers propagate errors the run on `ext X t` is the run on `t` with the
  appended answers unconsumed, or it consumed a failing one and ended `"RET"` / `finished` with
  `Indep3.HitC`: log a byte prefix of the other run's, no more handler starts, error `e`
  (`XErr X e`), last event `HE(err:<kind>)` if it hit inside the handler.
* `write_error_e2e`: the `j`-th write answer of a Responder run is `.err` / `Ok(0)`.
* `read_error_at_index_e2e`: the `j`-th read answer is an error.
* `flush_fail_releases_mutex` (= `Indep3.pollFlush_dich`): `poll_flush` on a failing flush answer
  returns that error with the writer's lock dropped and the output mutex FREE (after a failed
  write the `StreamWriter` keeps the mutex).
-/
namespace Fcgi.C12E
open Fcgi Fcgi.Req Fcgi.Str Fcgi.Async Fcgi.Run Fcgi.Spec Fcgi.E2E Fcgi.C07E Fcgi.C12Inv Fcgi.Indep3

/-- **A run depends only on the scripted answers it has consumed** (all three scripts). -/
theorem runTask_script_indep3 {X : Ext} (hX : Bad X) (fuel : Nat) (c : Conn) (n : Nat) (sa : Option Nat)
    (hp : AllProp c) :
    runTask fuel (extC X c) n sa = (extC X (runTask fuel c n sa).1, (runTask fuel c n sa).2) ∨
    (∃ c2, runTask fuel (extC X c) n sa = (c2, "RET") ∧ HitC X c2 (runTask fuel c n sa).1.env.tr) :=
  Indep3.runTask_dich hX fuel c n sa hp

/-- **`poll_flush` on a failing flush answer**: the error, lock dropped, mutex released. -/
theorem flush_fail_releases_mutex {X : Ext} (hX : Bad X) {w : Writer} {me : Nat} {m : MutexSt} {t : Transport}
    {w' : Writer} {m' : MutexSt} {t' : Transport} {res : WRes} (h : w.pollFlush me m t = (w', m', t', res)) :
    w.pollFlush me m (ext X t) = (w', m', ext X t', res) ∨
    (∃ w2 t2 res2, w.pollFlush me m (ext X t) = (w2, none, t2, res2) ∧ w2.lock = .none ∧ wHit X res2 ∧
      HitR X t2 t') :=
  pollFlush_dich hX h

theorem conn0_allProp (b mc : Nat) (t : Transport) (data : Bytes) (st : ExitStatus) : AllProp (conn0 b mc t data st) :=
  ⟨fun s hs => by
    simp only [conn0, connS, List.mem_singleton] at hs
    rw [hs], trivial⟩

/-! ## The `j`-th write answer fails -/

/-- the kind of error a failing write answer stands for -/
def WrErrOf (bad : WrAns) (e : IoErr) : Prop :=
  (bad = .err ∧ (e = .connectionAborted ∨ e = .transportWrite)) ∨ (bad = .zero ∧ e = .writeZero)

/-- the trace event of the handler future ending with `Err(e)` (`twrite`, `aborted`, `writezero`, `tread` …) -/
abbrev handlerErrEv (e : IoErr) : String := heEv e

/-- **The `j`-th write answer fails.** -/
theorem write_error_e2e {p : Preamble} {recs : List Rec} {content : Bytes} {srecs : List Rec}
    {b mc : Nat} {data : Bytes} {st : ExitStatus} {t : Transport} {fuel : Nat}
    (pre post : List WrAns) (bad : WrAns) (hbad : bad = .err ∨ bad = .zero) (hwr : t.wr = pre ++ bad :: post)
    (hwf : WellFormedPreamble p recs) (hrole : p.role = 1)
    (hpairs : ∀ q ∈ p.pairs, (NV.enc q).length ≤ alignedBufsize b)
    (hnoise : NoiseFits (alignedBufsize b) recs)
    (hs : StreamRecs p.id 5 content srecs) (hsn : NoiseFits (alignedBufsize b) srecs)
    (hin : t.input = serAll recs ++ serAll srecs) (hben : Ben { t with wr := pre }) (hev : hsCount t.events = 0)
    (hfuel : t.rd.length + pre.length + 1 ≤ fuel)
    (hsize : 4 * t.input.length + 17 ≤ 100000)
    (hhf : alignedBufsize b / 32 + wcost data.length + 12 ≤ 1000) :
    ∃ c' fin O₁ O₂, runTask fuel (conn0 b mc t data st) 0 none = (c', fin) ∧
      O₁ ++ O₂ = owedStream p.id 5 mc srecs ∧
      (-- the failing answer is never reached: the benign outcome, `bad :: post` still in the script
       (∃ c1, c' = extC ⟨[], bad :: post, []⟩ c1 ∧
          OutcomeN p content b mc t.wlog (expectedLogN p recs mc data st O₁ O₂) { t with wr := pre } c1 fin) ∨
       -- it is consumed
       (fin = "RET" ∧ c'.phase = .finished ∧
        -- what was written is a prefix of the complete log
        (∃ w, c'.env.tr.wlog = t.wlog ++ w ∧ w <+: expectedLogN p recs mc data st O₁ O₂) ∧
        -- (a) at most one handler start
        hsCount c'.env.tr.events ≤ 1 ∧
        -- (b) the error; if the handler got it, the trace ends with the handler returning it
        (∃ e inH, WrErrOf bad e ∧ (inH = true → ∃ evs, c'.env.tr.events = evs ++ [handlerErrEv e])) ∧
        -- (c) the failing call was the last transport write: nothing was written after it
        (∃ t1 t2, Clean t t1 ∧ FailCall t1 t2 ∧ WSame t2 c'.env.tr ∧ c'.env.tr.wlog = t1.wlog))) := by
  have hX : Bad ⟨[], bad :: post, []⟩ :=
    ⟨Or.inl rfl, Or.inr ⟨bad, post, rfl, by rcases hbad with rfl | rfl <;> rfl⟩, Or.inl rfl⟩
  obtain ⟨c1, fin1, O1, O2, hrun1, hO, ho⟩ :=
    single_request_e2e (data := data) (st := st) (fuel := fuel) (t := { t with wr := pre }) hwf hrole hpairs hnoise hs hsn
      hin hben hev hfuel hsize hhf
  have ht : t = ext ⟨[], bad :: post, []⟩ { t with wr := pre } := by
    obtain ⟨input, endMode, rd, wr, fl, wlog, events, hold, woken, readWaker, abortKind⟩ := t
    simp only at hwr
    subst hwr
    simp [ext]
  have hc : conn0 b mc t data st = extC ⟨[], bad :: post, []⟩ (conn0 b mc { t with wr := pre } data st) := by
    conv => lhs; rw [ht]
    rfl
  rcases Indep3.runTask_dich hX fuel (conn0 b mc { t with wr := pre } data st) 0 none (conn0_allProp _ _ _ _ _) with
    hsame | ⟨c2, h2, hhit⟩
  · rw [hrun1] at hsame
    exact ⟨extC ⟨[], bad :: post, []⟩ c1, fin1, O1, O2, by rw [hc]; exact hsame, hO, Or.inl ⟨c1, rfl, ho⟩⟩
  · rw [hrun1] at hhit
    simp only at hhit
    have hp2 := conn0_allProp b mc t data st
    have hrun2 : runTask fuel (conn0 b mc t data st) 0 none = (c2, "RET") := by rw [hc]; exact h2
    obtain ⟨⟨w, hw⟩, _⟩ := Indep3.runTask_grow fuel (conn0 b mc t data st) 0 none
    rw [hrun2] at hw
    have hw' : c2.env.tr.wlog = t.wlog ++ w := hw
    have hpre := hhit.rel.log
    rw [hw', ho.log] at hpre
    -- the failing answer was consumed
    have hwf' : WriteFailed t c2.env.tr := by
      rcases hhit.rel.used with ⟨_, _, h, _⟩ | ⟨b', post', h, hsuf⟩ | ⟨_, _, h, _⟩
      · cases h
      · simp only [List.cons.injEq] at h
        obtain ⟨rfl, rfl⟩ := h
        obtain ⟨z, hz⟩ := hsuf
        left
        refine ⟨pre ++ bad :: z, by rw [hwr, ← hz]; simp, bad, by simp, by rcases hbad with rfl | rfl <;> rfl⟩
      · cases h
    obtain ⟨_, _, t1, t2, hcl, hfc, hws, hlog⟩ := runTask_write_failure hp2 hrun2 hwf'
    obtain ⟨e, inH, he, hlast⟩ := hhit.err
    have he' : WrErrOf bad e := by
      rcases he with ⟨⟨_, h⟩, _⟩ | ⟨⟨_, h⟩, h2⟩ | ⟨⟨_, h⟩, h2⟩ | ⟨⟨_, h⟩, _⟩
      · cases h
      · simp only [List.cons.injEq] at h; exact Or.inl ⟨h.1, h2⟩
      · simp only [List.cons.injEq] at h; exact Or.inr ⟨h.1, h2⟩
      · cases h
    refine ⟨c2, "RET", O1, O2, hrun2, hO, Or.inr ⟨rfl, hhit.ph, ⟨w, hw', (List.prefix_append_right_inj _).1 hpre⟩, ?_,
      ⟨e, inH, he', hlast⟩, t1, t2, hcl, hfc, hws, hlog⟩⟩
    have := hhit.rel.hs
    rw [ho.one_handler.1] at this
    exact this

/-! ## The `j`-th read answer is an error -/

/-- **The `j`-th read answer is an error** (`t.rd = pre ++ .err :: post`, everything before it
benign).  Either the run never issues a `j`-th read and is the benign one, or that read fails:
the task finishes; inside `parse_request` (also the one of a reused connection) and inside `close`
the error is swallowed resp. ends the connection without a trace event; inside the handler its op
returns exactly the transport's read error (never success, never `UnexpectedEof`) and the handler
returns it. -/
theorem read_error_at_index_e2e {p : Preamble} {recs : List Rec} {content : Bytes} {srecs : List Rec}
    {b mc : Nat} {data : Bytes} {st : ExitStatus} {t : Transport} {fuel : Nat}
    (pre post : List RdAns) (hrd : t.rd = pre ++ .err :: post)
    (hwf : WellFormedPreamble p recs) (hrole : p.role = 1)
    (hpairs : ∀ q ∈ p.pairs, (NV.enc q).length ≤ alignedBufsize b)
    (hnoise : NoiseFits (alignedBufsize b) recs)
    (hs : StreamRecs p.id 5 content srecs) (hsn : NoiseFits (alignedBufsize b) srecs)
    (hin : t.input = serAll recs ++ serAll srecs) (hben : Ben { t with rd := pre }) (hev : hsCount t.events = 0)
    (hfuel : pre.length + t.wr.length + 1 ≤ fuel)
    (hsize : 4 * t.input.length + 17 ≤ 100000)
    (hhf : alignedBufsize b / 32 + wcost data.length + 12 ≤ 1000) :
    ∃ c' fin O₁ O₂, runTask fuel (conn0 b mc t data st) 0 none = (c', fin) ∧
      O₁ ++ O₂ = owedStream p.id 5 mc srecs ∧
      ((∃ c1, c' = extC ⟨.err :: post, [], []⟩ c1 ∧
          OutcomeN p content b mc t.wlog (expectedLogN p recs mc data st O₁ O₂) { t with rd := pre } c1 fin) ∨
       (fin = "RET" ∧ c'.phase = .finished ∧
        (∃ w, c'.env.tr.wlog = t.wlog ++ w ∧ w <+: expectedLogN p recs mc data st O₁ O₂) ∧
        hsCount c'.env.tr.events ≤ 1 ∧
        (∃ e inH, (e = .connectionAborted ∨ e = .transportRead) ∧
          (inH = true → ∃ evs, c'.env.tr.events = evs ++ [handlerErrEv e])))) := by
  have hX : Bad ⟨.err :: post, [], []⟩ := ⟨Or.inr ⟨post, rfl⟩, Or.inl rfl, Or.inl rfl⟩
  obtain ⟨c1, fin1, O1, O2, hrun1, hO, ho⟩ :=
    single_request_e2e (data := data) (st := st) (fuel := fuel) (t := { t with rd := pre }) hwf hrole hpairs hnoise hs hsn
      hin hben hev hfuel hsize hhf
  have ht : t = ext ⟨.err :: post, [], []⟩ { t with rd := pre } := by
    obtain ⟨input, endMode, rd, wr, fl, wlog, events, hold, woken, readWaker, abortKind⟩ := t
    simp only at hrd
    subst hrd
    simp [ext]
  have hc : conn0 b mc t data st = extC ⟨.err :: post, [], []⟩ (conn0 b mc { t with rd := pre } data st) := by
    conv => lhs; rw [ht]
    rfl
  rcases Indep3.runTask_dich hX fuel (conn0 b mc { t with rd := pre } data st) 0 none (conn0_allProp _ _ _ _ _) with
    hsame | ⟨c2, h2, hhit⟩
  · rw [hrun1] at hsame
    exact ⟨extC ⟨.err :: post, [], []⟩ c1, fin1, O1, O2, by rw [hc]; exact hsame, hO, Or.inl ⟨c1, rfl, ho⟩⟩
  · rw [hrun1] at hhit
    simp only at hhit
    have hrun2 : runTask fuel (conn0 b mc t data st) 0 none = (c2, "RET") := by rw [hc]; exact h2
    obtain ⟨⟨w, hw⟩, _⟩ := Indep3.runTask_grow fuel (conn0 b mc t data st) 0 none
    rw [hrun2] at hw
    have hw' : c2.env.tr.wlog = t.wlog ++ w := hw
    have hpre := hhit.rel.log
    rw [hw', ho.log] at hpre
    obtain ⟨e, inH, he, hlast⟩ := hhit.err
    have he' : e = .connectionAborted ∨ e = .transportRead := by
      rcases he with ⟨_, h2⟩ | ⟨⟨_, h⟩, _⟩ | ⟨⟨_, h⟩, _⟩ | ⟨⟨_, h⟩, _⟩
      · exact h2
      · cases h
      · cases h
      · cases h
    refine ⟨c2, "RET", O1, O2, hrun2, hO, Or.inr ⟨rfl, hhit.ph, ⟨w, hw', (List.prefix_append_right_inj _).1 hpre⟩, ?_,
      e, inH, he', hlast⟩⟩
    have := hhit.rel.hs
    rw [ho.one_handler.1] at this
    exact this

/-- Non-vacuity of `write_error_e2e`: the run of `C07E.Example` with `Ok(0)` as the third write answer. -/
example : ∃ c' fin, runTask 20 (conn0 64 10 { C07E.Example.exT with wr := [.n 5, .pending, .zero, .all] }
      [104, 105] (.complete 0)) 0 none = (c', fin) ∧
    (([WrAns.zero, .all] <:+ c'.env.tr.wr) ∨ (fin = "RET" ∧ c'.phase = .finished ∧ hsCount c'.env.tr.events ≤ 1)) := by
  obtain ⟨c', fin, O1, O2, h1, _, h3⟩ := write_error_e2e (p := C01.Example.pre) (recs := C01.Example.recs)
    (content := [65, 66, 67]) (srecs := C07E.Example.exS) (b := 64) (mc := 10) (data := [104, 105])
    (st := .complete 0) (t := { C07E.Example.exT with wr := [.n 5, .pending, .zero, .all] }) (fuel := 20)
    [.n 5, .pending] [.all] .zero (Or.inr rfl) rfl
    C01.Example.recs_wf rfl (C01.Example.pre_pairs_fit 64) (C01.Example.noise_fits 64) C07E.Example.exS_ok
    (C07E.Example.exS_fits _) rfl ⟨by decide, by decide, rfl, by decide⟩ rfl (by decide) (by decide +kernel) (by decide)
  refine ⟨c', fin, h1, ?_⟩
  rcases h3 with ⟨c1, rfl, _⟩ | ⟨a, b, _, d, _⟩
  · exact Or.inl (List.suffix_append _ _)
  · exact Or.inr ⟨a, b, d⟩

/-- Non-vacuity of `read_error_at_index_e2e`: the same run with an error as the fourth read answer. -/
example : ∃ c' fin, runTask 20 (conn0 64 10 { C07E.Example.exT with rd := [.n 10, .pending, .n 7, .err, .all] }
      [104, 105] (.complete 0)) 0 none = (c', fin) ∧
    (([RdAns.err, .all] <:+ c'.env.tr.rd) ∨ (fin = "RET" ∧ c'.phase = .finished ∧ hsCount c'.env.tr.events ≤ 1)) := by
  obtain ⟨c', fin, O1, O2, h1, _, h3⟩ := read_error_at_index_e2e (p := C01.Example.pre) (recs := C01.Example.recs)
    (content := [65, 66, 67]) (srecs := C07E.Example.exS) (b := 64) (mc := 10) (data := [104, 105])
    (st := .complete 0) (t := { C07E.Example.exT with rd := [.n 10, .pending, .n 7, .err, .all] }) (fuel := 20)
    [.n 10, .pending, .n 7] [.all] rfl
    C01.Example.recs_wf rfl (C01.Example.pre_pairs_fit 64) (C01.Example.noise_fits 64) C07E.Example.exS_ok
    (C07E.Example.exS_fits _) rfl ⟨by decide, by decide, rfl, by decide⟩ rfl (by decide) (by decide +kernel) (by decide)
  refine ⟨c', fin, h1, ?_⟩
  rcases h3 with ⟨c1, rfl, _⟩ | ⟨a, b, _, d, _⟩
  · exact Or.inl (List.suffix_append _ _)
  · exact Or.inr ⟨a, b, d⟩

end Fcgi.C12E
