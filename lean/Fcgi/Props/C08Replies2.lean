import Fcgi.Proofs.ReplyLedger2
import Fcgi.Props.C08Replies

/-!
# C08 — the reply ledger as an invariant of the handler phase, and the two-phase ledger of the first request

Continuation of `Props/C08Replies.lean`.

* `handlerPoll_keeps_ledger` (= `C08R.handlerPoll_hi`): `HI` — `AInv`, `LockInv`, the mutex consistency of
  every `StreamWriter` (`Consistent (i+1)`, the `C10.OwnInv` discipline), and the stream parser's ledger
  `GLed` — is kept by `handlerPoll` for EVERY script of the handler DSL (`read`, `readAll`, `fill`,
  `consume`, `set_stream`, `writeable`, `open`, `drop`, `write_all`, `flush`, `ret`), any transport.
  For scripts without `set_stream` / `writeable()` (`Plain`) it also carries `LegalAll` and `NoSet`.
* `stall_in_first_handler_log`: WHOLE RUN, from the initial connection state: at EVERY stall of the
  executor inside the handler of the first request (mutex free), the write log is
  `wlog₀ ++ (reqRef mc D).out ++ mix` where `D` = the bytes the request parser consumed, and — for a
  `Plain` script of a Responder / Filter — every reply `streamReplies` prescribes for the stream bytes
  the stream parser was given (`leftover ++ fed`) is a sublist of `mix`, in order; the reply buffer is
  empty and nothing is left to process.  This is the combined two-phase ledger (request parser part,
  then stream parser part) for the first request.
* `HID mc` (every request the request parser completes has a 16-bit id) is a hypothesis: true of the wire
  format (`be16`), but `Req.WFState (.done _)` does not record it and there is no registered lemma.
-/
namespace Fcgi.C08R
open Fcgi Fcgi.Req Fcgi.Str Fcgi.Async Fcgi.Run Fcgi.Spec

/-- **`HI` is an invariant of `handlerPoll`** for every script of the handler DSL. -/
theorem handlerPoll_keeps_ledger {sp0 : Str.Parser} {wl0 : Bytes} {script0 : List HOp} (fuel : Nat) (r : AReq)
    (h : HState) (e : Run.Env) (hi : HI sp0 wl0 script0 r h.writers e) (hs : h.ops <:+ script0) :
    HI sp0 wl0 script0 (handlerPoll fuel r h e).1 (handlerPoll fuel r h e).2.1.writers (handlerPoll fuel r h e).2.2.1 ∧
      (handlerPoll fuel r h e).2.1.ops <:+ script0 :=
  handlerPoll_hi fuel r h e hi hs

theorem j_init (b mc : Nat) (env : Run.Env) (scripts : List (List HOp × Bool)) (stop : Bool)
    (hm : env.mutex = none) :
    J mc (hsCount env.tr.events) env.tr.wlog (wireOf env)
      { phase := .parseReq (Req.Parser.new b mc) .start, env, scripts, stop } :=
  ⟨firstPR_init b mc env scripts stop, fun _ => hm, fun _ r h hph => by cases hph⟩

/-- **The first request, whole run.** -/
theorem stall_in_first_handler_log {b mc : Nat} (hid : HID mc) {env : Run.Env}
    {scripts : List (List HOp × Bool)} {stop : Bool} {fuel n : Nat} {sa : Option Nat} {c' : Conn}
    (hm0 : env.mutex = none)
    (h : runTask fuel { phase := .parseReq (Req.Parser.new b mc) .start, env, scripts, stop } n sa
      = (c', "STALL"))
    (hm : c'.env.mutex = none) (hhs : hsCount c'.env.tr.events = hsCount env.tr.events + 1)
    {r : AReq} {hs : HState} (hph : c'.phase = .handler r hs) :
    ∃ (rp : Req.Parser) (rq : Request) (D : Bytes) (script0 : List HOp) (ops : List Op) (mix : Bytes),
      rp.state = .done rq ∧ rp.state = (run .header D mc).st ∧ rp.input = (run .header D mc).rem ∧
      hs.ops <:+ script0 ∧
      r.sp = applyOps (Str.Parser.fromParser rp.cap rq rp.input mc) ops ∧
      c'.env.tr.wlog = env.tr.wlog ++ (C04H.reqRef mc D).out ++ mix ∧
      r.sp.output = [] ∧ C08Inv.Quiescent r.sp ∧
      (Plain script0 → rq.role = 1 ∨ rq.role = 3 →
        List.Sublist (C04H.streamReplies ⟨rq.id, rq.role, 5, mc⟩ (rp.input ++ Str.fedBytes ops)) mix) := by
  have hinv : C08Inv.CInv { phase := .parseReq (Req.Parser.new b mc) .start, env, scripts, stop } :=
    C08Inv.CInv_init b mc env scripts stop
  obtain ⟨ho, hpr, _, _, _⟩ := C08Inv.runTask_stall_owes_nothing_partial hinv h hm
  rw [hph] at ho hpr
  have hj := j_run hid fuel _ n sa (j_init b mc env scripts stop hm0) (by rw [h])
  rw [h] at hj
  obtain ⟨rp, rq, D, script0, g1, g2, g3, g4, g5, g6, g7⟩ := hj.2.2 hhs r hs hph
  obtain ⟨ops, hg, hpl⟩ := g6.led
  obtain ⟨mix, hmix, hsub⟩ := hg.sent
  refine ⟨rp, rq, D, script0, ops, mix, g3, g4, g5, g7, hg.sp_eq, ?_, ho.1, hpr.1, fun hP hrole => ?_⟩
  · rw [hmix, (C04H.req_replies_hostile mc D).1]
  · obtain ⟨hl, hns⟩ := hpl hP
    have hidq : rq.id < 65536 := hid D rq (by rw [← g4, g3])
    have h0 := C03SI.start_fresh rp.cap rq rp.input mc g1.1 hidq hrole
    obtain ⟨mix', hm', hs'⟩ := handler_read_ledger h0 rfl hg hl hns hpr.1 ho.1
    have : mix' = mix := List.append_cancel_left (hm'.symm.trans hmix)
    rw [this] at hs'
    exact hs'

end Fcgi.C08R
