import Fcgi.Proofs.E2EBufRead2
import Fcgi.Props.C07BufRead
/-!
# C07 — `AsyncBufRead` handlers, the other two behaviours

`Props/C07BufRead.lean` has the handler that drains Stdin with `fill_buf` / `consume` alone.  Here:

1. `bufread_then_readall_e2e` — `bscript2 n k data st` = `n` × (`fill_buf; consume(k)`), `readAll`, write,
   `return st`: the handler consumes LESS than is shown (any `k`, also `0`) for any number of rounds and
   then reads the rest with `AsyncRead`.  Bytes shown and not consumed stay in the stream buffer and are
   what the `readAll` returns first, without a transport call.  Conclusion: exactly one handler start;
   `content = taken k shown ++ acc` (`shown` = the slices shown, `acc` = what `readAll` returned, both in
   the trace): every byte once, in order; write log and end of the task as in `single_request_e2e`.

2. `bufread_part_e2e` — `rounds n k ++ [ret st]`: the handler consumes part of its input and returns.
   `close()`: `set_stream(None)` drops what is still in the stream buffer, `record_boundary()` runs the
   parser in ignore mode to the next record boundary; the Stdin records split `srecs = s₁ ++ s₂`, `s₁`
   consumed, `s₂` handed to the next request parser — the outcome of `unread_prefix_e2e`.
-/
namespace Fcgi.C07B
open Fcgi Fcgi.Req Fcgi.Str Fcgi.Async Fcgi.Run Fcgi.Spec Fcgi.E2E Fcgi.C07E Fcgi.C07U

/-- a Responder request whose handler is `bscript2 n k data st` -/
def cfgBR2 (p : Preamble) (recs : List Rec) (content : Bytes) (body : List Rec) (pad : Bytes) (res : UInt8)
    (b mc n k : Nat) (data : Bytes) (st : ExitStatus) (L0 : Bytes) (h : Nat) (more : List (List HOp × Bool)) :
    E2E.Cfg :=
  ⟨p, recs, content, body, pad, res, [], [], [], 0, b, mc, data, st, L0, h, more,
    serAll body ++ (trec 5 p.id pad res).ser, [], (trec 5 p.id pad res).ser, [], [], bscript2 n k data st⟩

structure BufReadAllOutcome (p : Preamble) (recs : List Rec) (content : Bytes) (k : Nat) (shown : List Bytes) (acc : Bytes)
    (O₁ O₂ : Bytes) (pad : Bytes) (res : UInt8) (b mc : Nat) (data : Bytes) (st : ExitStatus)
    (more : List (List HOp × Bool)) (t : Transport) (c' : Conn) (fin : String) : Prop where
  /-- exactly one handler invocation, for the request sent -/
  one_handler : hsCount c'.env.tr.events = 1 ∧ startEvent p.request ∈ c'.env.tr.events
  /-- the slices shown, of which the first `k` bytes each were consumed, and what `readAll` then returned:
  together exactly the Stdin content, each byte once -/
  consumed : content = taken k shown ++ acc ∧ ∀ s ∈ shown, fillEvent s ∈ c'.env.tr.events
  /-- the `readAll` returned `acc` -/
  rest : readEvent acc ∈ c'.env.tr.events
  log : c'.env.tr.wlog = t.wlog ++ expectedLogN p recs mc data st O₁ O₂
  scripts : c'.scripts = more
  final : (p.flags.toNat % 2 = 0 ∧ fin = "RET" ∧ c'.phase = .finished) ∨
          (p.flags.toNat % 2 = 1 ∧ t.endMode = .eof ∧ fin = "RET" ∧ c'.phase = .finished) ∨
          (p.flags.toNat % 2 = 1 ∧ t.endMode = .pend ∧ fin = "STALL" ∧
            c'.phase = .parseReq (track (alignedBufsize b) mc (trec 5 p.id pad res).ser) .reading ∧
            c'.env.tr.input = [] ∧ c'.env.mutex = none ∧ c'.stop = false ∧ Ben c'.env.tr)

theorem lb2_eq {p : Preamble} {recs : List Rec} {content : Bytes} {body : List Rec} {pad : Bytes} {res : UInt8}
    {b mc n k : Nat} {data : Bytes} {st : ExitStatus} {L0 : Bytes} {h : Nat} {more : List (List HOp × Bool)}
    (O1 O2 : Bytes) :
    (cfgBR2 p recs content body pad res b mc n k data st L0 h more).Lb O1 O2 =
      L0 ++ expectedLogN p recs mc data st O1 O2 := by
  show (L0 ++ owedPreamble p mc recs) ++ O1 ++ streamRecords 6 p.id data ++ O2 ++
    makeRequestEpilogue p.id st [RT.stdout, RT.stderr] = _
  rw [(C17.epilogue_spec p.id st _).1]
  simp [expectedLogN, epilogue, List.append_assoc]

/-- **C07 end to end: the handler consumes (part of) what `fill_buf` shows for `n` rounds, then `readAll`s
the rest.**  Any `n`, any `k` (also `k = 0`: nothing is consumed, everything shown comes back from `readAll`). -/
theorem bufread_then_readall_e2e {p : Preamble} {recs : List Rec} {content : Bytes} {srecs : List Rec}
    {b mc n k : Nat} {data : Bytes} {st : ExitStatus} {more : List (List HOp × Bool)} {t : Transport} {fuel : Nat}
    (hwf : WellFormedPreamble p recs) (hrole : p.role = 1)
    (hpairs : ∀ q ∈ p.pairs, (NV.enc q).length ≤ alignedBufsize b)
    (hnoise : NoiseFits (alignedBufsize b) recs)
    (hs : StreamRecs p.id 5 content srecs) (hsn : NoiseFits (alignedBufsize b) srecs)
    (hin : t.input = serAll recs ++ serAll srecs) (hben : Ben t) (hev : hsCount t.events = 0)
    (hfuel : t.rd.length + t.wr.length + 1 ≤ fuel)
    (hsize : 6 * t.input.length + 26 ≤ 100000)
    (hhf : 2 * n + wcost data.length + 20 ≤ 1000) :
    ∃ c' fin O₁ O₂ shown acc pad res,
      runTask fuel (connS b mc t ((bscript2 n k data st, true) :: more)) 0 none = (c', fin) ∧
      O₁ ++ O₂ = owedStream p.id 5 mc srecs ∧
      BufReadAllOutcome p recs content k shown acc O₁ O₂ pad res b mc data st more t c' fin := by
  obtain ⟨body, pad, res, hpad, hbody, hsrecs⟩ := StreamRecs.split hs
  have hid := (pid_of_wf hwf).2
  have hsb : NoiseFits (alignedBufsize b) body := fun r hr => hsn r (by rw [hsrecs]; simp [hr])
  have ok : BR2OK (cfgBR2 p recs content body pad res b mc n k data st t.wlog 0 more) n k :=
    ⟨hwf, hrole, hpairs, hnoise, hbody, hsb, hpad, rfl, rfl, rfl, rfl, hhf⟩
  have hOt : owedStream p.id 5 mc srecs = owedStream p.id 5 mc body := by
    rw [hsrecs, owedStream_append, owedStream_term p.id 5 mc _ rfl, List.append_nil]
  have htwf : (trec 5 p.id pad res).WF := ⟨hid, by simp [trec], hpad⟩
  have hidle : ∀ e ∈ [trec 5 p.id pad res], IdleNoise e := by
    intro e he
    rw [List.mem_singleton.1 he]
    exact ⟨htwf, fun hx => absurd hx (by show (5 : UInt8).toNat ≠ RT.beginRequest; decide)⟩
  have hfit : NoiseFits (alignedBufsize b) [trec 5 p.id pad res] := by
    intro e he hg
    rw [List.mem_singleton.1 he] at hg
    exact absurd hg.1 (by show (5 : UInt8).toNat ≠ RT.getValues; decide)
  obtain ⟨hns, hNF⟩ := idle_front dummy_wf b mc (fun q hq => by cases hq) (dummy_fits _) hidle hfit []
  rw [C02.serAll_single] at hns hNF
  have hst : FStage (cfgBR2 p recs content body pad res b mc n k data st t.wlog 0 more)
      (connS b mc t ((bscript2 n k data st, true) :: more)) :=
    .start (raw := []) rfl (by
      show [] ++ t.input = _
      rw [hin, hsrecs, C02.serAll_append, C02.serAll_single]; rfl) (Nat.zero_le _) rfl hben rfl rfl rfl hev
  obtain ⟨c', fin, hrun, hres⟩ := run_bufread2 ok (Z := serAll dummyRecs ++ []) hns hNF
    t.endMode [] _ 0 fuel hst rfl (fun s hs => by cases hs) rfl (by show ans t + 1 ≤ fuel; unfold ans; omega) hsize
  have hro := (run_idle_out mc [trec 5 p.id pad res] hidle).1
  rw [C02.serAll_single] at hro
  have hio : idleOwed mc [trec 5 p.id pad res] = [] := by
    simp [idleOwed, owed, trec, RT.valid, RT.getValues, RT.beginRequest]
  rcases hres with ⟨⟨O1, O2, shown, acc⟩, ⟨hkp, hO, hcont⟩, hk', hem, _, _, _, hend⟩ |
      ⟨hfin, ⟨O1, O2, hO, ⟨shown, acc, q1, q2, q3⟩, hfu⟩, _, _⟩
  · have hout : ∀ F, F ++ (serAll dummyRecs ++ []) = (trec 5 p.id pad res).ser ++ (serAll dummyRecs ++ []) →
        (cfgBR2 p recs content body pad res b mc n k data st t.wlog 0 more).Lb O1 O2 ++ (run .header F mc).out =
        t.wlog ++ expectedLogN p recs mc data st O1 O2 := by
      intro F hF
      rw [List.append_cancel_right hF, hro, hio, List.append_nil, lb2_eq]
    refine ⟨c', fin, O1, O2, shown, acc, pad, res, hrun, hO.trans hOt.symm, ⟨hk'.hs, hk'.ev _ List.mem_cons_self⟩,
      ⟨hcont, fun s hs => hk'.ev _ (by simp [List.mem_map]; exact Or.inr (Or.inr ⟨s, hs, rfl⟩))⟩,
      hk'.ev _ (by simp), ?_, hk'.sc, ?_⟩
    · rcases hend with ⟨_, hp⟩ | ⟨_, hf⟩
      · obtain ⟨F, hF, _, _, hlg⟩ := hp.pst
        exact hlg.trans (hout F hF)
      · obtain ⟨F, hF, hlg⟩ := hf.log
        exact hlg.trans (hout F hF)
    · rcases hend with ⟨rfl, hp⟩ | ⟨rfl, hf⟩
      · obtain ⟨F, hF, hps, hph, _⟩ := hp.pst
        have hFe : F = (trec 5 p.id pad res).ser := List.append_cancel_right hF
        subst hFe
        exact Or.inr (Or.inr ⟨hkp, hem.symm.trans hp.em, rfl, hph, hp.inp, hk'.mx, hps.stop, hps.ben⟩)
      · exact Or.inr (Or.inl ⟨hkp, hem.symm.trans hf.em, rfl, hf.ph⟩)
  · exact ⟨c', fin, O1, O2, shown, acc, pad, res, hrun, hO.trans hOt.symm, ⟨hfu.ev.1, hfu.ev.2⟩, ⟨q1, q2⟩,
      q3, by rw [hfu.log, lb2_eq], hfu.sc, Or.inl ⟨hfu.nokeep, hfin, hfu.ph⟩⟩


/-! ## 2. Consume part of the input, return -/

/-- a Responder request whose handler is `rounds n k ++ [ret st]` -/
def cfgBR3 (p : Preamble) (recs : List Rec) (content : Bytes) (body : List Rec) (pad : Bytes) (res : UInt8)
    (b mc n k : Nat) (st : ExitStatus) (L0 : Bytes) (h : Nat) (more : List (List HOp × Bool)) : E2E.Cfg :=
  ⟨p, recs, content, body, pad, res, [], [], [], 0, b, mc, [], st, L0, h, more,
    serAll body ++ (trec 5 p.id pad res).ser, [], (trec 5 p.id pad res).ser, [], [], rounds n k ++ [.ret st]⟩

structure BufReadPartOutcome (p : Preamble) (recs : List Rec) (content : Bytes) (srecs s₁ s₂ : List Rec) (k : Nat)
    (shown : List Bytes) (b mc : Nat) (st : ExitStatus) (more : List (List HOp × Bool)) (t : Transport)
    (c' : Conn) (fin : String) : Prop where
  /-- `close()` consumed the records `s₁`, the records `s₂` are left -/
  split : srecs = s₁ ++ s₂
  /-- what the handler consumed — the first `k` bytes of each slice shown — is a prefix of the content -/
  consumed : taken k shown <+: content ∧ ∀ s ∈ shown, fillEvent s ∈ c'.env.tr.events
  one_handler : hsCount c'.env.tr.events = 1 ∧ startEvent p.request ∈ c'.env.tr.events
  scripts : c'.scripts = more
  final :
    (p.flags.toNat % 2 = 1 ∧
      c'.env.tr.wlog = t.wlog ++ (owedPreamble p mc recs ++ owedI p.id mc s₁ ++ epilogue p.id st ++
        idleOwed mc s₂) ∧
      ((t.endMode = .eof ∧ fin = "RET" ∧ c'.phase = .finished) ∨
       (t.endMode = .pend ∧ fin = "STALL" ∧
          c'.phase = .parseReq (track (alignedBufsize b) mc (serAll s₂)) .reading ∧
          c'.env.tr.input = [] ∧ c'.env.mutex = none ∧ c'.stop = false ∧ Ben c'.env.tr))) ∨
    (p.flags.toNat % 2 = 0 ∧ fin = "RET" ∧ c'.phase = .finished ∧
      c'.env.tr.wlog = t.wlog ++ (owedPreamble p mc recs ++ owedI p.id mc s₁ ++ epilogue p.id st))

theorem lu3_eq {p : Preamble} {recs : List Rec} {content : Bytes} {body : List Rec} {pad : Bytes} {res : UInt8}
    {b mc n k : Nat} {st : ExitStatus} {L0 : Bytes} {h : Nat} {more : List (List HOp × Bool)} (s1 s2 : List Rec) :
    (gC (cfgBR3 p recs content body pad res b mc n k st L0 h more) s1 s2).LU =
      L0 ++ (owedPreamble p mc recs ++ owedI p.id mc s1 ++ epilogue p.id st) := by
  rw [gC_LU]
  show (L0 ++ owedPreamble p mc recs) ++ owedI p.id mc s1 ++ makeRequestEpilogue p.id st [RT.stdout, RT.stderr] = _
  rw [(C17.epilogue_spec p.id st _).1]
  simp [epilogue, List.append_assoc]

/-- **C07 end to end: the handler consumes part of Stdin through `AsyncBufRead` and returns.**  Any `n`, any
`k`.  The outcome is that of `unread_prefix_e2e`: the Stdin records split at a record boundary. -/
theorem bufread_part_e2e {p : Preamble} {recs : List Rec} {content : Bytes} {srecs : List Rec}
    {b mc n k : Nat} {st : ExitStatus} {more : List (List HOp × Bool)} {t : Transport} {fuel : Nat}
    (hwf : WellFormedPreamble p recs) (hrole : p.role = 1)
    (hpairs : ∀ q ∈ p.pairs, (NV.enc q).length ≤ alignedBufsize b)
    (hnoise : NoiseFits (alignedBufsize b) recs)
    (hs : StreamRecs p.id 5 content srecs) (hsn : NoiseFits (alignedBufsize b) srecs)
    (hnb : ∀ r ∈ srecs, r.rtype.toNat ≠ RT.beginRequest)
    (hin : t.input = serAll recs ++ serAll srecs) (hben : Ben t) (hev : hsCount t.events = 0)
    (hfuel : t.rd.length + t.wr.length + 1 ≤ fuel)
    (hsize : 6 * t.input.length + 26 ≤ 100000) (hhf : 2 * n + 10 ≤ 1000) :
    ∃ c' fin s₁ s₂ shown,
      runTask fuel (connS b mc t ((rounds n k ++ [.ret st], true) :: more)) 0 none = (c', fin) ∧
      BufReadPartOutcome p recs content srecs s₁ s₂ k shown b mc st more t c' fin := by
  obtain ⟨body, pad, res, hpad, hbody, hsrecs⟩ := StreamRecs.split hs
  have hid := (pid_of_wf hwf).2
  have hsb : NoiseFits (alignedBufsize b) body := fun r hr => hsn r (by rw [hsrecs]; simp [hr])
  have hstr := streamRecs_stdin hid hs
  have hR : (cfgBR3 p recs content body pad res b mc n k st t.wlog 0 more).R = srecs := by rw [hsrecs]; rfl
  have ok : BR3OK (cfgBR3 p recs content body pad res b mc n k st t.wlog 0 more) n k :=
    ⟨hwf, hrole, hpairs, hnoise, hbody, hsb, hpad, rfl, rfl, by rw [hR]; exact hstr, rfl, hhf⟩
  have hwfs : ∀ r ∈ srecs, r.WF := fun r hr => (hstr r hr).1
  have hidle : ∀ s1 s2 : List Rec, (cfgBR3 p recs content body pad res b mc n k st t.wlog 0 more).R = s1 ++ s2 →
      ∀ e ∈ s2, IdleNoise e := by
    intro s1 s2 hsp e he
    have hm : e ∈ srecs := by rw [← hR, hsp]; exact List.mem_append_right _ he
    exact ⟨hwfs e hm, fun hx => absurd hx (hnb e hm)⟩
  have hfit : ∀ s1 s2 : List Rec, (cfgBR3 p recs content body pad res b mc n k st t.wlog 0 more).R = s1 ++ s2 →
      NoiseFits (alignedBufsize b) s2 := by
    intro s1 s2 hsp e he hg
    exact hsn e (by rw [← hR, hsp]; exact List.mem_append_right _ he) hg
  have hfront : ∀ s1 s2, (cfgBR3 p recs content body pad res b mc n k st t.wlog 0 more).R = s1 ++ s2 → _ :=
    fun s1 s2 hsp => idle_front dummy_wf b mc (fun q hq => by cases hq) (dummy_fits _) (hidle s1 s2 hsp) (hfit s1 s2 hsp) []
  have hst : FStage (cfgBR3 p recs content body pad res b mc n k st t.wlog 0 more)
      (connS b mc t ((rounds n k ++ [.ret st], true) :: more)) :=
    .start (raw := []) rfl (by
      show [] ++ t.input = _
      rw [hin, hsrecs, C02.serAll_append, C02.serAll_single]; rfl) (Nat.zero_le _) rfl hben rfl rfl rfl hev
  obtain ⟨c', fin, hrun, hres⟩ := run_bufread3 ok (Z := serAll dummyRecs ++ [])
    (fun s1 s2 hsp => (hfront s1 s2 hsp).1) (fun s1 s2 hsp => (hfront s1 s2 hsp).2)
    t.endMode [] _ 0 fuel hst rfl (fun s hs => by cases hs) rfl (by show ans t + 1 ≤ fuel; unfold ans; omega) hsize
  rcases hres with ⟨⟨s1, s2, shown⟩, ⟨hsp, hpre, hkeep⟩, hk', hem, _, _, _, hend⟩ | ⟨hfin, ⟨s1, s2, hsp, ⟨shown, q1, q2⟩, hfu⟩, _, _⟩
  · have hro := (run_idle_out mc s2 (hidle s1 s2 hsp)).1
    have hout : ∀ F, F ++ (serAll dummyRecs ++ []) = serAll s2 ++ (serAll dummyRecs ++ []) →
        (gC (cfgBR3 p recs content body pad res b mc n k st t.wlog 0 more) s1 s2).LU ++ (run .header F mc).out =
        t.wlog ++ (owedPreamble p mc recs ++ owedI p.id mc s1 ++ epilogue p.id st ++ idleOwed mc s2) := by
      intro F hF
      rw [List.append_cancel_right hF, hro, lu3_eq]
      simp only [List.append_assoc]
    refine ⟨c', fin, s1, s2, shown, hrun, by rw [← hR]; exact hsp,
      ⟨hpre, fun s hs => hk'.ev _ (by simp [List.mem_map]; exact Or.inr ⟨s, hs, rfl⟩)⟩,
      ⟨hk'.hs, hk'.ev _ List.mem_cons_self⟩, hk'.sc, Or.inl ⟨hkeep, ?_, ?_⟩⟩
    · rcases hend with ⟨_, hp⟩ | ⟨_, hf⟩
      · obtain ⟨F, hF, _, _, hlg⟩ := hp.pst
        exact hlg.trans (hout F hF)
      · obtain ⟨F, hF, hlg⟩ := hf.log
        exact hlg.trans (hout F hF)
    · rcases hend with ⟨rfl, hp⟩ | ⟨rfl, hf⟩
      · obtain ⟨F, hF, hps, hph, _⟩ := hp.pst
        have hFe : F = serAll s2 := List.append_cancel_right hF
        subst hFe
        exact Or.inr ⟨hem.symm.trans hp.em, rfl, hph, hp.inp, hk'.mx, hps.stop, hps.ben⟩
      · exact Or.inl ⟨hem.symm.trans hf.em, rfl, hf.ph⟩
  · exact ⟨c', fin, s1, s2, shown, hrun, by rw [← hR]; exact hsp, ⟨q1, q2⟩, ⟨hfu.ev.1, hfu.ev.2⟩, hfu.sc,
      Or.inr ⟨hfu.nokeep, hfin, hfu.ph, by rw [hfu.log, lu3_eq]⟩⟩

/-! ## Non-vacuity -/
namespace Example2
open Fcgi.C07E.Example Fcgi.C07B.Example

theorem sB_noBegin : ∀ r ∈ sB, r.rtype.toNat ≠ RT.beginRequest := by decide

/-- `bufread_then_readall_e2e`: two rounds consuming one byte each, then `readAll`.  Replayed
(`/verif/.run/replay-c07-bufread2.ops`, `# case c07buf2-keep-readall-n2-k1-split`, model driver = crate):
`f=3:414243 f=2:4243 … R=3:434445`: the two fills show `ABC`, `BC`; one byte of each is consumed; `readAll`
returns `CDE` — the byte left in the stream buffer first. -/
example : ∃ c' fin O₁ O₂ shown acc pad res,
    runTask 20 (connS 64 10 bT [(bscript2 2 1 [111, 107] (.complete 3), true)]) 0 none = (c', fin) ∧
    [65, 66, 67, 68, 69] = taken 1 shown ++ acc ∧ readEvent acc ∈ c'.env.tr.events ∧
    c'.env.tr.wlog = bT.wlog ++ expectedLogN preB recsB 10 [111, 107] (.complete 3) O₁ O₂ ∧
    BufReadAllOutcome preB recsB [65, 66, 67, 68, 69] 1 shown acc O₁ O₂ pad res 64 10 [111, 107] (.complete 3) []
      bT c' fin := by
  obtain ⟨c', fin, O1, O2, shown, acc, pad, res, hrun, _, ho⟩ := bufread_then_readall_e2e (p := preB) (recs := recsB)
    (content := [65, 66, 67, 68, 69]) (srecs := sB) (b := 64) (mc := 10) (n := 2) (k := 1) (data := [111, 107])
    (st := .complete 3) (more := []) (t := bT) (fuel := 20)
    recsB_wf rfl (fun q hq => by cases hq) (no_getValues_fits (by decide)) sB_ok (no_getValues_fits (by decide))
    rfl ⟨by decide, by decide, rfl, by decide⟩ rfl (by decide) (by decide +kernel) (by decide +kernel)
  exact ⟨c', fin, O1, O2, shown, acc, pad, res, hrun, ho.consumed.1, ho.rest, ho.log, ho⟩

/-- `bufread_part_e2e`: one round consuming two bytes, then `return`.  Replayed
(`# case c07buf2-keep-part-n1-k2-split`): `f=3:414243 HE(ok:complete:3) …`: `close()` drops the `C` still in the
stream buffer and `record_boundary()` stops at the next record boundary; what is left of Stdin is answered
as idle noise by the next `parse_request`. -/
example : ∃ c' fin s₁ s₂ shown,
    runTask 20 (connS 64 10 bT [(rounds 1 2 ++ [.ret (.complete 3)], true)]) 0 none = (c', fin) ∧
    BufReadPartOutcome preB recsB [65, 66, 67, 68, 69] sB s₁ s₂ 2 shown 64 10 (.complete 3) [] bT c' fin :=
  bufread_part_e2e (p := preB) (recs := recsB)
    (content := [65, 66, 67, 68, 69]) (srecs := sB) (b := 64) (mc := 10) (n := 1) (k := 2)
    (st := .complete 3) (more := []) (t := bT) (fuel := 20)
    recsB_wf rfl (fun q hq => by cases hq) (no_getValues_fits (by decide)) sB_ok (no_getValues_fits (by decide))
    sB_noBegin rfl ⟨by decide, by decide, rfl, by decide⟩ rfl (by decide) (by decide +kernel) (by decide)

end Example2

end Fcgi.C07B
