import Fcgi.Proofs.E2EWritersChain
import Fcgi.Props.C07BufRead2
import Fcgi.Props.E2EUnbounded
/-!
# C07 / C10 — end to end with TWO writers and any sequence of `write_all`s

`Props/C07E2E` … `C07BufRead2` have one writer (Stdout) and one `write_all`.  Here the handler is
`readAll; output_stream(Stdout); output_stream(Stderr); W; drop; drop; return st` with `W` an ARBITRARY list of
`write_all(data)` calls on writer 0 (Stdout) or 1 (Stderr) — any `data`: empty, or longer than 65 535 bytes (then
several records, `streamRecords`).  The transport splits writes and answers `Pending` wherever it likes, also
inside a record.

`single_request_writers_e2e`: one handler start; `readAll` returned exactly the Stdin content; the write log is

  `owedPreamble ++ O₁ ++ outOf id W ++ O₂ ++ [Stdout∅][Stderr∅][EndRequest(id, st)]`

with `outOf id W` = the concatenation, IN SCRIPT ORDER, of `streamRecords (6 or 7) id data` — so every byte of every
write is on the wire exactly once, as the payload of records of the writer's own stream type and the request's id;
records of the two writers are never interleaved (a record is complete before the next write starts); per-writer
order is preserved (the whole interleaving is the script's: `outOf_cons`, `outOf_append`); an empty write
contributes nothing (`outOf_empty`), a write of 1 … 65 535 bytes exactly one record (`outOf_small`).  The only model-fuel side condition is a bound on the total output
cost, `wcostAll W + 20 ≤ 1000` (`wcostAll W = Σ (⌈|data|/65535⌉ + 1)`); NO size hypothesis on the input, none on `b`.

NOT covered end to end: `flush` between writes.  The transport's scripted flush answers (`fl`) are not tracked by
the e2e invariants (`TStep`, `ans`: a `Pending` flush wakes the task without consuming a read/write answer).  At
handler level `E2E.flush_step` shows that a flush on an idle writer, with a transport whose flush succeeds at once,
leaves log, input and writers as they were; the replay `c07w-flush-between` agrees (model = crate).
-/
namespace Fcgi.C07W
open Fcgi Fcgi.Req Fcgi.Str Fcgi.Async Fcgi.Run Fcgi.Spec Fcgi.E2E Fcgi.C07E Fcgi.C07U Fcgi.C07B

/-- the handler: `readAll`, open both writers, the writes `W`, drop both, return `st` -/
def wscript (W : WList) (st : ExitStatus) : List HOp := .readAll :: otail W st

theorem wscript_eq (W : WList) (st : ExitStatus) : wscript W st = bscriptW 0 0 W st := rfl

/-- what the connection writes for the request: like `expectedLogN`, with the records of all the writes, in script
order, in place of the one Stdout stream -/
def expectedLogW (p : Preamble) (recs : List Rec) (mc : Nat) (W : WList) (st : ExitStatus) (O₁ O₂ : Bytes) : Bytes :=
  owedPreamble p mc recs ++ O₁ ++ outOf p.id W ++ O₂ ++ epilogue p.id st

/-- the writes of writer `i`, in order -/
def writesOf (i : _root_.Fin 2) (W : WList) : List Bytes := (W.filter fun x => x.1 = i).map Prod.snd

/-- **per-writer order**: for a script that only writes to writer `i`, the records are the records of its writes,
in order — and for any script `outOf` is the in-order interleaving, write by write (`outOf_cons`). -/
theorem outOf_cons (id : Nat) (i : _root_.Fin 2) (data : Bytes) (W : WList) :
    outOf id ((i, data) :: W) = streamRecords (6 + i.val) id data ++ outOf id W := rfl

theorem outOf_append (id : Nat) (W₁ W₂ : WList) : outOf id (W₁ ++ W₂) = outOf id W₁ ++ outOf id W₂ := by
  induction W₁ with
  | nil => rfl
  | cons x W ih => simp [outOf, ih, List.append_assoc]

/-- an empty write contributes nothing -/
theorem outOf_empty (id : Nat) (i : _root_.Fin 2) (W : WList) : outOf id ((i, []) :: W) = outOf id W := by
  simp [outOf, streamRecords_nil]

/-- a write of at most 65 535 bytes (not empty) is exactly ONE record of the writer's type -/
theorem outOf_small (id : Nat) (i : _root_.Fin 2) {data : Bytes} (h0 : data ≠ []) (h : data.length ≤ 65535) (W : WList) :
    outOf id ((i, data) :: W) = recordOf (6 + i.val) id data ++ outOf id W := by
  rw [outOf_cons, streamRecords_cons _ _ h0, List.take_of_length_le h, List.drop_of_length_le h, streamRecords_nil,
    List.append_nil]

def cfgW (p : Preamble) (recs : List Rec) (content : Bytes) (body : List Rec) (pad : Bytes) (res : UInt8)
    (b mc : Nat) (W : WList) (st : ExitStatus) (L0 : Bytes) (h : Nat) (more : List (List HOp × Bool)) :
    E2E.Cfg :=
  ⟨p, recs, content, body, pad, res, [], [], [], 0, b, mc, [], st, L0, h, more,
    serAll body ++ (trec 5 p.id pad res).ser, [], (trec 5 p.id pad res).ser, [], [], wscript W st⟩

structure WritersOutcome (p : Preamble) (recs : List Rec) (content : Bytes) (W : WList)
    (O₁ O₂ : Bytes) (pad : Bytes) (res : UInt8) (b mc : Nat) (st : ExitStatus)
    (more : List (List HOp × Bool)) (t : Transport) (c' : Conn) (fin : String) : Prop where
  /-- exactly one handler invocation, for the request sent -/
  one_handler : hsCount c'.env.tr.events = 1 ∧ startEvent p.request ∈ c'.env.tr.events
  /-- the `readAll` returned exactly the Stdin content -/
  read : readEvent content ∈ c'.env.tr.events
  /-- the write log: every write's records, in script order, between the replies owed for the stream's noise -/
  log : c'.env.tr.wlog = t.wlog ++ expectedLogW p recs mc W st O₁ O₂
  scripts : c'.scripts = more
  final : (p.flags.toNat % 2 = 0 ∧ fin = "RET" ∧ c'.phase = .finished) ∨
          (p.flags.toNat % 2 = 1 ∧ t.endMode = .eof ∧ fin = "RET" ∧ c'.phase = .finished) ∨
          (p.flags.toNat % 2 = 1 ∧ t.endMode = .pend ∧ fin = "STALL" ∧
            c'.phase = .parseReq (track (alignedBufsize b) mc (trec 5 p.id pad res).ser) .reading ∧
            c'.env.tr.input = [] ∧ c'.env.mutex = none ∧ c'.stop = false ∧ Ben c'.env.tr)

theorem lw_eq {p : Preamble} {recs : List Rec} {content : Bytes} {body : List Rec} {pad : Bytes} {res : UInt8}
    {b mc : Nat} {W : WList} {st : ExitStatus} {L0 : Bytes} {h : Nat} {more : List (List HOp × Bool)}
    (O1 O2 : Bytes) :
    (cfgW p recs content body pad res b mc W st L0 h more).Lw W O1 O2 =
      L0 ++ expectedLogW p recs mc W st O1 O2 := by
  show (L0 ++ owedPreamble p mc recs) ++ O1 ++ outOf p.id W ++ O2 ++
    makeRequestEpilogue p.id st [RT.stdout, RT.stderr] = _
  rw [(C17.epilogue_spec p.id st _).1]
  simp [expectedLogW, epilogue, List.append_assoc]

theorem taken_zero (shown : List Bytes) : taken 0 shown = [] := by
  induction shown with
  | nil => rfl
  | cons s l ih => simpa [taken] using ih

/-- **C07/C10 end to end: one request, two writers, any sequence of `write_all`s.** -/
theorem single_request_writers_e2e {p : Preamble} {recs : List Rec} {content : Bytes} {srecs : List Rec}
    {b mc : Nat} {W : WList} {st : ExitStatus} {more : List (List HOp × Bool)} {t : Transport} {fuel : Nat}
    (hwf : WellFormedPreamble p recs) (hrole : p.role = 1)
    (hpairs : ∀ q ∈ p.pairs, (NV.enc q).length ≤ alignedBufsize b)
    (hnoise : NoiseFits (alignedBufsize b) recs)
    (hs : StreamRecs p.id 5 content srecs) (hsn : NoiseFits (alignedBufsize b) srecs)
    (hin : t.input = serAll recs ++ serAll srecs) (hben : Ben t) (hev : hsCount t.events = 0)
    (hfuel : t.rd.length + t.wr.length + 1 ≤ fuel)
    (hhf : wcostAll W + 20 ≤ 1000) :
    ∃ c' fin O₁ O₂ pad res,
      runTask fuel (connS b mc t ((wscript W st, true) :: more)) 0 none = (c', fin) ∧
      O₁ ++ O₂ = owedStream p.id 5 mc srecs ∧
      WritersOutcome p recs content W O₁ O₂ pad res b mc st more t c' fin := by
  obtain ⟨body, pad, res, hpad, hbody, hsrecs⟩ := StreamRecs.split hs
  have hid := (pid_of_wf hwf).2
  have hsb : NoiseFits (alignedBufsize b) body := fun r hr => hsn r (by rw [hsrecs]; simp [hr])
  have ok : BR2OKW (cfgW p recs content body pad res b mc W st t.wlog 0 more) W 0 0 :=
    ⟨hwf, hrole, hpairs, hnoise, hbody, hsb, hpad, rfl, rfl, rfl, rfl, by omega⟩
  have hOt : owedStream p.id 5 mc srecs = owedStream p.id 5 mc body := by
    rw [hsrecs, owedStream_append, owedStream_term p.id 5 mc _ rfl, List.append_nil]
  have htwf : (trec 5 p.id pad res).WF := ⟨hid, by simp [trec], hpad⟩
  have hidle : ∀ e ∈ [trec 5 p.id pad res], IdleNoise e := by
    intro e he
    rw [List.mem_singleton.1 he]
    exact ⟨htwf, fun hx => absurd hx (by show (5 : UInt8).toNat ≠ RT.beginRequest; decide)⟩
  have hfit : NoiseFits (alignedBufsize b) [trec 5 p.id pad res] := by
    intro e he hg
    rw [List.mem_singleton.1 he] at hg
    exact absurd hg.1 (by show (5 : UInt8).toNat ≠ RT.getValues; decide)
  obtain ⟨hns, hNF⟩ := idle_front dummy_wf b mc (fun q hq => by cases hq) (dummy_fits _) hidle hfit []
  rw [C02.serAll_single] at hns hNF
  have hst : FStage (cfgW p recs content body pad res b mc W st t.wlog 0 more)
      (connS b mc t ((wscript W st, true) :: more)) :=
    .start (raw := []) rfl (by
      show [] ++ t.input = _
      rw [hin, hsrecs, C02.serAll_append, C02.serAll_single]; rfl) (Nat.zero_le _) rfl hben rfl rfl rfl hev
  obtain ⟨c', fin, hrun, hres⟩ := run_bufread2W' ok (Z := serAll dummyRecs ++ []) hns hNF
    t.endMode [] _ 0 fuel hst rfl (fun s hs => by cases hs) rfl (by show ans t + 1 ≤ fuel; unfold ans; omega)
  have hro := (run_idle_out mc [trec 5 p.id pad res] hidle).1
  rw [C02.serAll_single] at hro
  have hio : idleOwed mc [trec 5 p.id pad res] = [] := by
    simp [idleOwed, owed, trec, RT.valid, RT.getValues, RT.beginRequest]
  rcases hres with ⟨⟨O1, O2, shown, acc⟩, ⟨hkp, hO, hcont⟩, hk', hem, _, _, _, hend⟩ |
      ⟨hfin, ⟨O1, O2, hO, ⟨shown, acc, q1, q2, q3⟩, hfu⟩, _, _⟩
  · have hacc : acc = content := by
      have : content = taken 0 shown ++ acc := hcont
      rw [taken_zero, List.nil_append] at this
      exact this.symm
    have hout : ∀ F, F ++ (serAll dummyRecs ++ []) = (trec 5 p.id pad res).ser ++ (serAll dummyRecs ++ []) →
        (cfgW p recs content body pad res b mc W st t.wlog 0 more).Lw W O1 O2 ++ (run .header F mc).out =
        t.wlog ++ expectedLogW p recs mc W st O1 O2 := by
      intro F hF
      rw [List.append_cancel_right hF, hro, hio, List.append_nil, lw_eq]
    refine ⟨c', fin, O1, O2, pad, res, hrun, hO.trans hOt.symm, ⟨hk'.hs, hk'.ev _ List.mem_cons_self⟩,
      by rw [← hacc]; exact hk'.ev _ (by simp), ?_, hk'.sc, ?_⟩
    · rcases hend with ⟨_, hp⟩ | ⟨_, hf⟩
      · obtain ⟨F, hF, _, _, hlg⟩ := hp.pst
        exact hlg.trans (hout F hF)
      · obtain ⟨F, hF, hlg⟩ := hf.log
        exact hlg.trans (hout F hF)
    · rcases hend with ⟨rfl, hp⟩ | ⟨rfl, hf⟩
      · obtain ⟨F, hF, hps, hph, _⟩ := hp.pst
        have hFe : F = (trec 5 p.id pad res).ser := List.append_cancel_right hF
        subst hFe
        exact Or.inr (Or.inr ⟨hkp, hem.symm.trans hp.em, rfl, hph, hp.inp, hk'.mx, hps.stop, hps.ben⟩)
      · exact Or.inr (Or.inl ⟨hkp, hem.symm.trans hf.em, rfl, hf.ph⟩)
  · have hacc : acc = content := by
      have : content = taken 0 shown ++ acc := q1
      rw [taken_zero, List.nil_append] at this
      exact this.symm
    exact ⟨c', fin, O1, O2, pad, res, hrun, hO.trans hOt.symm, ⟨hfu.ev.1, hfu.ev.2⟩,
      by rw [← hacc]; exact q3, by rw [hfu.log, lw_eq], hfu.sc, Or.inl ⟨hfu.nokeep, hfin, hfu.ph⟩⟩

/-! ## The chain step -/

/-- **After the two-writer request, the next requests are served exactly as alone.**  A closed-loop client sends
the request of `single_request_writers_e2e` (with KEEP_CONN) and then the keep-alive requests `x :: xs`
(`UReq.OKu`: read to the end by a canonical handler, or a Responder request left unread).  Then: `1 + k` handler
starts; the log is the first request's (`expectedLogW`, all its writes' records in script order) followed by the `k`
segments `UReq.Seg`; all scripts are consumed; the task is parked behind what the last request left unread. -/
theorem writers_chain_e2e {p : Preamble} {recs : List Rec} {content : Bytes} {srecs : List Rec}
    {b mc : Nat} {W : WList} {st : ExitStatus} (x : UReq) (xs : List UReq) {t : Transport} {fuel : Nat}
    (hwf : WellFormedPreamble p recs) (hrole : p.role = 1) (hk : p.flags.toNat % 2 = 1)
    (hpairs : ∀ q ∈ p.pairs, (NV.enc q).length ≤ alignedBufsize b)
    (hnoise : NoiseFits (alignedBufsize b) recs)
    (hs : StreamRecs p.id 5 content srecs) (hsn : NoiseFits (alignedBufsize b) srecs)
    (hok : ∀ y ∈ x :: xs, y.OKu b)
    (hin : t.input = serAll recs ++ serAll srecs) (hben : Ben t) (hem : t.endMode = .pend)
    (hev : hsCount t.events = 0) (hfuel : t.rd.length + t.wr.length + 1 ≤ fuel)
    (hhf : wcostAll W + 20 ≤ 1000) :
    ∃ c' O₁ O₂ A,
      closedLoop fuel ((x :: xs).map UReq.wire)
        (connS b mc t ((wscript W st, true) :: (x :: xs).map UReq.handler)) 0 = (c', "STALL") ∧
      O₁ ++ O₂ = owedStream p.id 5 mc srecs ∧
      SegsAll mc (x :: xs) A ∧
      c'.env.tr.wlog = t.wlog ++ expectedLogW p recs mc W st O₁ O₂ ++ A ∧
      hsCount c'.env.tr.events = 1 + (x :: xs).length ∧
      startEvent p.request ∈ c'.env.tr.events ∧ readEvent content ∈ c'.env.tr.events ∧
      (∀ y ∈ x :: xs, startEvent y.p.request ∈ c'.env.tr.events) ∧ c'.scripts = [] ∧
      c'.env.tr.input = [] ∧
      c'.phase = .parseReq (track (alignedBufsize b) mc (serAll ((x :: xs).getLast (by simp)).left)) .reading := by
  have hid := (pid_of_wf hwf).2
  obtain ⟨body, pad, res, hpad, hbody, hsrecs⟩ := StreamRecs.split hs
  have hsb : NoiseFits (alignedBufsize b) body := fun r hr => hsn r (by rw [hsrecs]; simp [hr])
  have hOt : owedStream p.id 5 mc srecs = owedStream p.id 5 mc body := by
    rw [hsrecs, owedStream_append, owedStream_term p.id 5 mc _ rfl, List.append_nil]
  have ok : BR2OKW (cfgW p recs content body pad res b mc W st t.wlog 0
      (((x :: xs).map (UReq.spec mc)).map RSpec.handler)) W 0 0 :=
    ⟨hwf, hrole, hpairs, hnoise, hbody, hsb, hpad, rfl, rfl, rfl, rfl, by omega⟩
  have htw : (trec 5 p.id pad res).WF := ⟨hid, by simp [trec], hpad⟩
  have hT : IdleNoise (trec 5 p.id pad res) :=
    ⟨htw, fun hx => absurd hx (by show (5 : UInt8).toNat ≠ RT.beginRequest; decide)⟩
  have hlo : LeftOK (alignedBufsize b) [trec 5 p.id pad res] :=
    ⟨fun e he => by rw [List.mem_singleton.1 he]; exact hT, fun e he hg => by
      rw [List.mem_singleton.1 he] at hg
      exact absurd hg.1 (by show (5 : UInt8).toNat ≠ RT.getValues; decide)⟩
  have hW : (cfgW p recs content body pad res b mc W st t.wlog 0
      (((x :: xs).map (UReq.spec mc)).map RSpec.handler)).W = t.input := by
    rw [hin, hsrecs, C02.serAll_append, C02.serAll_single]
    rfl
  have hstart : StartAt (alignedBufsize b) mc [] t.wlog
      ((wscript W st, true) :: ((x :: xs).map (UReq.spec mc)).map RSpec.handler) 0 [] (ans t)
      (cfgW p recs content body pad res b mc W st t.wlog 0
        (((x :: xs).map (UReq.spec mc)).map RSpec.handler)).W
      (connS b mc t ((wscript W st, true) :: ((x :: xs).map (UReq.spec mc)).map RSpec.handler)) :=
    Or.inr ⟨rfl, rfl, by show t.input = _; rw [hW], rfl, hben, rfl, rfl, rfl, hev,
      (fun _ hs => nomatch hs), rfl, hem, Nat.le_refl _⟩
  have hleft0 : LeftOK (alignedBufsize b) [] := ⟨(fun _ he => nomatch he), (fun _ hr => nomatch hr)⟩
  obtain ⟨c1, O1, O2, hrun1, hO, hrd, hw1⟩ := serve_writers_core ok hk (left := []) hleft0 (Z := x.wire) hT
    (goodNext_of_oku (hok x List.mem_cons_self) hlo) 0 fuel (by simp [idleOwed]; rfl) hstart (by unfold ans; omega)
  have hz : idleOwed mc [trec 5 p.id pad res] = [] := by
    simp [idleOwed, owed, trec, RT.valid, RT.getValues, RT.beginRequest]
  have hLw : ((cfgW p recs content body pad res b mc W st t.wlog 0
      (((x :: xs).map (UReq.spec mc)).map RSpec.handler)).front []).Lw W O1 O2 ++ idleOwed mc [trec 5 p.id pad res] =
      t.wlog ++ expectedLogW p recs mc W st O1 O2 := by
    rw [hz, List.append_nil]
    exact lw_eq O1 O2
  have hw1' : Waiting (alignedBufsize b) mc [trec 5 p.id pad res]
      (t.wlog ++ expectedLogW p recs mc W st O1 O2)
      (((x :: xs).map (UReq.spec mc)).map RSpec.handler) 1 [hsEvent p.request, rEvent content] (ans t) c1 := by
    rw [← hLw]
    have hev' : ∀ s ∈ [hsEvent p.request, rEvent content], s ∈ c1.env.tr.events := by
      intro s hs
      rcases List.mem_cons.1 hs with rfl | hs
      · exact hw1.ev _ List.mem_cons_self
      · rw [List.mem_singleton.1 hs]; exact hrd
    exact { hw1 with ev := hev' }
  obtain ⟨c', A, hrun, hseg, hw⟩ := chain_serves (alignedBufsize b) mc (serAll dummyRecs ++ [])
    (xs.map (UReq.spec mc)) (UReq.spec mc x) _ _ 1 [hsEvent p.request, rEvent content] (ans t) (feed c1 x.wire) 1000 fuel
    (hall_of_oku x xs hok) hlo (Or.inl ⟨c1, hw1', rfl⟩) (by unfold ans; omega)
  have hrun' : closedLoop fuel ((x :: xs).map UReq.wire)
      (connS b mc t ((wscript W st, true) :: (x :: xs).map UReq.handler)) 0 = (c', "STALL") := by
    have e : (x :: xs).map UReq.handler = ((x :: xs).map (UReq.spec mc)).map RSpec.handler := by
      rw [List.map_map]; rfl
    rw [e]
    show closedLoop fuel (x.wire :: xs.map UReq.wire) _ 0 = _
    rw [closedLoop, hrun1]
    simp only [if_true]
    rw [← hrun, List.map_map]; rfl
  have hlast := lastLeft_specs mc x xs
  refine ⟨c', O1, O2, A, hrun', hO.trans hOt.symm, segAll_specs mc (x :: xs) A hseg, hw.log, ?_, ?_, ?_, ?_, hw.sc, hw.inp, ?_⟩
  · have := hw.hs; simpa [Nat.add_comm] using this
  · exact hw.ev _ (mem_evsAfter _ _ _ (Or.inl List.mem_cons_self))
  · exact hw.ev _ (mem_evsAfter _ _ _ (Or.inl (by simp)))
  · intro y hy
    exact hw.ev _ (mem_evsAfter _ _ _ (Or.inr ⟨UReq.spec mc y, List.mem_map_of_mem hy, rfl⟩))
  · rw [← hlast]; exact hw.ph

/-! ## Non-vacuity -/
namespace Example
open Fcgi.C01.Example Fcgi.C07E.Example

/-- Stdout "hi", Stderr "er", an EMPTY Stdout write, Stderr "rr", Stdout "ok" -/
def exW : WList := [(0, [104, 105]), (1, [101, 114]), (0, []), (1, [114, 114]), (0, [111, 107])]

def wT : Transport :=
  { input := serAll recs ++ serAll nS, endMode := .pend,
    rd := [.n 10, .pending, .n 7, .all, .n 3], wr := [.n 5, .pending, .n 3, .pending, .n 1, .n 1, .pending, .n 20, .pending, .all],
    fl := [] }

/-- `single_request_writers_e2e` applied (the driver line is case `c07w-interleaved-split` of
`/verif/.run/replay-c07-writers.ops`, model = crate): the five writes give four records, Stdout / Stderr / Stderr /
Stdout, in script order, between the replies owed for the noise in `nS`. -/
example : ∃ c' fin O₁ O₂, runTask 20 (connS 64 10 wT [(wscript exW (.complete 3), true)]) 0 none = (c', fin) ∧
    O₁ ++ O₂ = owedStream 1 5 10 nS ∧
    c'.env.tr.wlog = owedPreamble pre 10 recs ++ O₁ ++
      ([1, 6, 0, 1, 0, 2, 6, 0, 104, 105, 0, 0, 0, 0, 0, 0] ++ [1, 7, 0, 1, 0, 2, 6, 0, 101, 114, 0, 0, 0, 0, 0, 0] ++
       [1, 7, 0, 1, 0, 2, 6, 0, 114, 114, 0, 0, 0, 0, 0, 0] ++ [1, 6, 0, 1, 0, 2, 6, 0, 111, 107, 0, 0, 0, 0, 0, 0]) ++ O₂ ++
      epilogue 1 (.complete 3) ∧
    hsCount c'.env.tr.events = 1 ∧ readEvent [65, 66, 67] ∈ c'.env.tr.events := by
  obtain ⟨c', fin, O1, O2, pad, res, hrun, hO, ho⟩ := single_request_writers_e2e (p := pre) (recs := recs)
    (content := [65, 66, 67]) (srecs := nS) (b := 64) (mc := 10) (W := exW) (st := .complete 3) (more := []) (t := wT)
    (fuel := 20) recs_wf rfl (pre_pairs_fit 64) (noise_fits 64) nS_ok nS_fits rfl ⟨by decide, by decide, rfl, by decide⟩ rfl
    (by decide) (by decide)
  refine ⟨c', fin, O1, O2, hrun, hO, ?_, ho.one_handler.1, ho.read⟩
  rw [ho.log]
  show [] ++ (owedPreamble pre 10 recs ++ O1 ++ outOf pre.id exW ++ O2 ++ epilogue pre.id (.complete 3)) = _
  have h : outOf pre.id exW =
      [1, 6, 0, 1, 0, 2, 6, 0, 104, 105, 0, 0, 0, 0, 0, 0] ++ [1, 7, 0, 1, 0, 2, 6, 0, 101, 114, 0, 0, 0, 0, 0, 0] ++
       [1, 7, 0, 1, 0, 2, 6, 0, 114, 114, 0, 0, 0, 0, 0, 0] ++ [1, 6, 0, 1, 0, 2, 6, 0, 111, 107, 0, 0, 0, 0, 0, 0] := by
    decide +kernel
  rw [h, List.nil_append]; rfl

/-- a write longer than one record: 70 000 bytes to Stderr are two records (65 535 + 4 465), nothing else -/
example (d : Bytes) (hd : d.length = 70000) (W : WList) :
    outOf 1 ((1, d) :: W) = recordOf 7 1 (d.take 65535) ++ recordOf 7 1 (d.drop 65535) ++ outOf 1 W := by
  have h0 : d ≠ [] := by intro h; rw [h] at hd; cases hd
  have h1 : d.drop 65535 ≠ [] := by
    intro h; have := congrArg List.length h; simp [hd] at this
  rw [outOf_cons, streamRecords_cons _ _ h0, streamRecords_cons _ _ h1]
  have h2 : (d.drop 65535).length ≤ 65535 := by simp [hd]
  rw [List.take_of_length_le h2, List.drop_of_length_le h2, streamRecords_nil, List.append_nil]
  simp
end Example

end Fcgi.C07W
