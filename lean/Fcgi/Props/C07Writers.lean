import Fcgi.Proofs.E2EWriters
import Fcgi.Props.C07BufRead2
/-!
# C07 / C10 — end to end with TWO writers and any sequence of `write_all`s

`Props/C07E2E` … `C07BufRead2` have one writer (Stdout) and one `write_all`.  Here the handler is
`readAll; output_stream(Stdout); output_stream(Stderr); W; drop; drop; return st` with `W` an ARBITRARY list of
`write_all(data)` calls on writer 0 (Stdout) or 1 (Stderr) — any `data`: empty, or longer than 65 535 bytes (then
several records, `streamRecords`).  The transport splits writes and answers `Pending` wherever it likes, also
inside a record.

`single_request_writers_e2e`: one handler start; `readAll` returned exactly the Stdin content; the write log is

  `owedPreamble ++ O₁ ++ outOf id W ++ O₂ ++ [Stdout∅][Stderr∅][EndRequest(id, st)]`

with `outOf id W` = the concatenation, IN SCRIPT ORDER, of `streamRecords (6 or 7) id data` — so every byte of every
write is on the wire exactly once, as the payload of records of the writer's own stream type and the request's id;
records of the two writers are never interleaved (a record is complete before the next write starts); per-writer
order is preserved (`outOf_filter`: the Stdout records alone are the Stdout writes in order, same for Stderr);
empty writes contribute nothing (`outOf_empty`).  The only model-fuel side condition is a bound on the total output
cost, `wcostAll W + 20 ≤ 1000` (`wcostAll W = Σ (⌈|data|/65535⌉ + 1)`); NO size hypothesis on the input, none on `b`.

NOT covered: `flush` between writes.  The transport's scripted flush answers (`fl`) are not tracked by the e2e
invariants (`TStep`, `ans`: a `Pending` flush wakes the task without consuming a read/write answer), see the report.
-/
namespace Fcgi.C07W
open Fcgi Fcgi.Req Fcgi.Str Fcgi.Async Fcgi.Run Fcgi.Spec Fcgi.E2E Fcgi.C07E Fcgi.C07U Fcgi.C07B

/-- the handler: `readAll`, open both writers, the writes `W`, drop both, return `st` -/
def wscript (W : WList) (st : ExitStatus) : List HOp := .readAll :: otail W st

theorem wscript_eq (W : WList) (st : ExitStatus) : wscript W st = bscriptW 0 0 W st := rfl

/-- what the connection writes for the request: like `expectedLogN`, with the records of all the writes, in script
order, in place of the one Stdout stream -/
def expectedLogW (p : Preamble) (recs : List Rec) (mc : Nat) (W : WList) (st : ExitStatus) (O₁ O₂ : Bytes) : Bytes :=
  owedPreamble p mc recs ++ O₁ ++ outOf p.id W ++ O₂ ++ epilogue p.id st

/-- the writes of writer `i`, in order -/
def writesOf (i : _root_.Fin 2) (W : WList) : List Bytes := (W.filter fun x => x.1 = i).map Prod.snd

/-- **per-writer order**: for a script that only writes to writer `i`, the records are the records of its writes,
in order — and for any script `outOf` is the in-order interleaving, write by write (`outOf_cons`). -/
theorem outOf_cons (id : Nat) (i : _root_.Fin 2) (data : Bytes) (W : WList) :
    outOf id ((i, data) :: W) = streamRecords (6 + i.val) id data ++ outOf id W := rfl

theorem outOf_append (id : Nat) (W₁ W₂ : WList) : outOf id (W₁ ++ W₂) = outOf id W₁ ++ outOf id W₂ := by
  induction W₁ with
  | nil => rfl
  | cons x W ih => simp [outOf, ih, List.append_assoc]

/-- an empty write contributes nothing -/
theorem outOf_empty (id : Nat) (i : _root_.Fin 2) (W : WList) : outOf id ((i, []) :: W) = outOf id W := by
  simp [outOf, streamRecords_nil]

/-- a write of at most 65 535 bytes (not empty) is exactly ONE record of the writer's type -/
theorem outOf_small (id : Nat) (i : _root_.Fin 2) {data : Bytes} (h0 : data ≠ []) (h : data.length ≤ 65535) (W : WList) :
    outOf id ((i, data) :: W) = recordOf (6 + i.val) id data ++ outOf id W := by
  rw [outOf_cons, streamRecords_cons _ _ h0, List.take_of_length_le h, List.drop_of_length_le h, streamRecords_nil,
    List.append_nil]

def cfgW (p : Preamble) (recs : List Rec) (content : Bytes) (body : List Rec) (pad : Bytes) (res : UInt8)
    (b mc : Nat) (W : WList) (st : ExitStatus) (L0 : Bytes) (h : Nat) (more : List (List HOp × Bool)) :
    E2E.Cfg :=
  ⟨p, recs, content, body, pad, res, [], [], [], 0, b, mc, [], st, L0, h, more,
    serAll body ++ (trec 5 p.id pad res).ser, [], (trec 5 p.id pad res).ser, [], [], wscript W st⟩

structure WritersOutcome (p : Preamble) (recs : List Rec) (content : Bytes) (W : WList)
    (O₁ O₂ : Bytes) (pad : Bytes) (res : UInt8) (b mc : Nat) (st : ExitStatus)
    (more : List (List HOp × Bool)) (t : Transport) (c' : Conn) (fin : String) : Prop where
  /-- exactly one handler invocation, for the request sent -/
  one_handler : hsCount c'.env.tr.events = 1 ∧ startEvent p.request ∈ c'.env.tr.events
  /-- the `readAll` returned exactly the Stdin content -/
  read : readEvent content ∈ c'.env.tr.events
  /-- the write log: every write's records, in script order, between the replies owed for the stream's noise -/
  log : c'.env.tr.wlog = t.wlog ++ expectedLogW p recs mc W st O₁ O₂
  scripts : c'.scripts = more
  final : (p.flags.toNat % 2 = 0 ∧ fin = "RET" ∧ c'.phase = .finished) ∨
          (p.flags.toNat % 2 = 1 ∧ t.endMode = .eof ∧ fin = "RET" ∧ c'.phase = .finished) ∨
          (p.flags.toNat % 2 = 1 ∧ t.endMode = .pend ∧ fin = "STALL" ∧
            c'.phase = .parseReq (track (alignedBufsize b) mc (trec 5 p.id pad res).ser) .reading ∧
            c'.env.tr.input = [] ∧ c'.env.mutex = none ∧ c'.stop = false ∧ Ben c'.env.tr)

theorem lw_eq {p : Preamble} {recs : List Rec} {content : Bytes} {body : List Rec} {pad : Bytes} {res : UInt8}
    {b mc : Nat} {W : WList} {st : ExitStatus} {L0 : Bytes} {h : Nat} {more : List (List HOp × Bool)}
    (O1 O2 : Bytes) :
    (cfgW p recs content body pad res b mc W st L0 h more).Lw W O1 O2 =
      L0 ++ expectedLogW p recs mc W st O1 O2 := by
  show (L0 ++ owedPreamble p mc recs) ++ O1 ++ outOf p.id W ++ O2 ++
    makeRequestEpilogue p.id st [RT.stdout, RT.stderr] = _
  rw [(C17.epilogue_spec p.id st _).1]
  simp [expectedLogW, epilogue, List.append_assoc]

theorem taken_zero (shown : List Bytes) : taken 0 shown = [] := by
  induction shown with
  | nil => rfl
  | cons s l ih => simpa [taken] using ih

/-- **C07/C10 end to end: one request, two writers, any sequence of `write_all`s.** -/
theorem single_request_writers_e2e {p : Preamble} {recs : List Rec} {content : Bytes} {srecs : List Rec}
    {b mc : Nat} {W : WList} {st : ExitStatus} {more : List (List HOp × Bool)} {t : Transport} {fuel : Nat}
    (hwf : WellFormedPreamble p recs) (hrole : p.role = 1)
    (hpairs : ∀ q ∈ p.pairs, (NV.enc q).length ≤ alignedBufsize b)
    (hnoise : NoiseFits (alignedBufsize b) recs)
    (hs : StreamRecs p.id 5 content srecs) (hsn : NoiseFits (alignedBufsize b) srecs)
    (hin : t.input = serAll recs ++ serAll srecs) (hben : Ben t) (hev : hsCount t.events = 0)
    (hfuel : t.rd.length + t.wr.length + 1 ≤ fuel)
    (hhf : wcostAll W + 20 ≤ 1000) :
    ∃ c' fin O₁ O₂ pad res,
      runTask fuel (connS b mc t ((wscript W st, true) :: more)) 0 none = (c', fin) ∧
      O₁ ++ O₂ = owedStream p.id 5 mc srecs ∧
      WritersOutcome p recs content W O₁ O₂ pad res b mc st more t c' fin := by
  obtain ⟨body, pad, res, hpad, hbody, hsrecs⟩ := StreamRecs.split hs
  have hid := (pid_of_wf hwf).2
  have hsb : NoiseFits (alignedBufsize b) body := fun r hr => hsn r (by rw [hsrecs]; simp [hr])
  have ok : BR2OKW (cfgW p recs content body pad res b mc W st t.wlog 0 more) W 0 0 :=
    ⟨hwf, hrole, hpairs, hnoise, hbody, hsb, hpad, rfl, rfl, rfl, rfl, by omega⟩
  have hOt : owedStream p.id 5 mc srecs = owedStream p.id 5 mc body := by
    rw [hsrecs, owedStream_append, owedStream_term p.id 5 mc _ rfl, List.append_nil]
  have htwf : (trec 5 p.id pad res).WF := ⟨hid, by simp [trec], hpad⟩
  have hidle : ∀ e ∈ [trec 5 p.id pad res], IdleNoise e := by
    intro e he
    rw [List.mem_singleton.1 he]
    exact ⟨htwf, fun hx => absurd hx (by show (5 : UInt8).toNat ≠ RT.beginRequest; decide)⟩
  have hfit : NoiseFits (alignedBufsize b) [trec 5 p.id pad res] := by
    intro e he hg
    rw [List.mem_singleton.1 he] at hg
    exact absurd hg.1 (by show (5 : UInt8).toNat ≠ RT.getValues; decide)
  obtain ⟨hns, hNF⟩ := idle_front dummy_wf b mc (fun q hq => by cases hq) (dummy_fits _) hidle hfit []
  rw [C02.serAll_single] at hns hNF
  have hst : FStage (cfgW p recs content body pad res b mc W st t.wlog 0 more)
      (connS b mc t ((wscript W st, true) :: more)) :=
    .start (raw := []) rfl (by
      show [] ++ t.input = _
      rw [hin, hsrecs, C02.serAll_append, C02.serAll_single]; rfl) (Nat.zero_le _) rfl hben rfl rfl rfl hev
  obtain ⟨c', fin, hrun, hres⟩ := run_bufread2W' ok (Z := serAll dummyRecs ++ []) hns hNF
    t.endMode [] _ 0 fuel hst rfl (fun s hs => by cases hs) rfl (by show ans t + 1 ≤ fuel; unfold ans; omega)
  have hro := (run_idle_out mc [trec 5 p.id pad res] hidle).1
  rw [C02.serAll_single] at hro
  have hio : idleOwed mc [trec 5 p.id pad res] = [] := by
    simp [idleOwed, owed, trec, RT.valid, RT.getValues, RT.beginRequest]
  rcases hres with ⟨⟨O1, O2, shown, acc⟩, ⟨hkp, hO, hcont⟩, hk', hem, _, _, _, hend⟩ |
      ⟨hfin, ⟨O1, O2, hO, ⟨shown, acc, q1, q2, q3⟩, hfu⟩, _, _⟩
  · have hacc : acc = content := by
      have : content = taken 0 shown ++ acc := hcont
      rw [taken_zero, List.nil_append] at this
      exact this.symm
    have hout : ∀ F, F ++ (serAll dummyRecs ++ []) = (trec 5 p.id pad res).ser ++ (serAll dummyRecs ++ []) →
        (cfgW p recs content body pad res b mc W st t.wlog 0 more).Lw W O1 O2 ++ (run .header F mc).out =
        t.wlog ++ expectedLogW p recs mc W st O1 O2 := by
      intro F hF
      rw [List.append_cancel_right hF, hro, hio, List.append_nil, lw_eq]
    refine ⟨c', fin, O1, O2, pad, res, hrun, hO.trans hOt.symm, ⟨hk'.hs, hk'.ev _ List.mem_cons_self⟩,
      by rw [← hacc]; exact hk'.ev _ (by simp), ?_, hk'.sc, ?_⟩
    · rcases hend with ⟨_, hp⟩ | ⟨_, hf⟩
      · obtain ⟨F, hF, _, _, hlg⟩ := hp.pst
        exact hlg.trans (hout F hF)
      · obtain ⟨F, hF, hlg⟩ := hf.log
        exact hlg.trans (hout F hF)
    · rcases hend with ⟨rfl, hp⟩ | ⟨rfl, hf⟩
      · obtain ⟨F, hF, hps, hph, _⟩ := hp.pst
        have hFe : F = (trec 5 p.id pad res).ser := List.append_cancel_right hF
        subst hFe
        exact Or.inr (Or.inr ⟨hkp, hem.symm.trans hp.em, rfl, hph, hp.inp, hk'.mx, hps.stop, hps.ben⟩)
      · exact Or.inr (Or.inl ⟨hkp, hem.symm.trans hf.em, rfl, hf.ph⟩)
  · have hacc : acc = content := by
      have : content = taken 0 shown ++ acc := q1
      rw [taken_zero, List.nil_append] at this
      exact this.symm
    exact ⟨c', fin, O1, O2, pad, res, hrun, hO.trans hOt.symm, ⟨hfu.ev.1, hfu.ev.2⟩,
      by rw [← hacc]; exact q3, by rw [hfu.log, lw_eq], hfu.sc, Or.inl ⟨hfu.nokeep, hfin, hfu.ph⟩⟩

end Fcgi.C07W
