import Fcgi.Props.C12Fuel
import Fcgi.Props.C07

/-!
# The handler fuel now pays for the handler script: the model's fuel guard is unreachable

`Model/RunLoop.lean`: one poll of the handler runs with the fuel

  `1000 + 4·|pending input| + 4·Σ|queued segments| + 4·cap + scriptCost h`

where `scriptCost h` (moved into the model) is the cost of what is LEFT of the handler script `h`: one unit per
operation, `|data| + 1` per `write_all data` (the rest of it for a write in progress).  Before, the last term was
missing and a long script (or a long output) hit `PANIC "model: handler fuel exhausted"`, a guard the crate does not
have (`C12.handlerPoll_terminates_full_false`, which is about the script-independent part `handlerFuel e r` and is
still true of THAT fuel).

In the proofs the fuel of a connection `c` in phase `handler r h` reads `handlerFuel c.env r + scriptOf c`
(`scriptOf c = scriptCost h`, `Proofs/RunLoop.lean`); every lemma `need ≤ fuel` survived by monotonicity.

Here: with the stream parser's invariant (`SInv r.sp`: unconsumed input + stream buffer ≤ cap; it holds for every
parser the library constructs, `C03S`), NO script makes the handler poll of `pollConn` report the fuel guard —
the `_full` claim of `Props/C12.lean`, for the fuel that `pollConn` actually passes, is a theorem.
-/
namespace Fcgi.C07SF
open Fcgi Fcgi.Req Fcgi.Str Fcgi.Async Fcgi.Run

/-- **Any script.**  The handler poll with the fuel `pollConn` passes: a panic it reports is a modelled panic
site of the Rust, never the model's fuel guard. -/
theorem handlerPoll_guard_unreachable (r : AReq) (h : HState) (e : Env) {r' : AReq} {h' : HState}
    {e' : Env} {s : String} (hinv : SInv r.sp)
    (hp : handlerPoll (handlerFuel e r + scriptCost h) r h e = (r', h', e', .panic s)) :
    RealSite s ∧ s ∉ fuelMsgs := by
  have hc := hinv.1
  simp only [Str.Parser.freeStart] at hc
  have hh := handlerPoll_fuel2 _ r h e hp (by simp only [pool, handlerFuel]; omega)
  exact ⟨hh, hh.not_fuel⟩

/-- … in particular never the message of the guard. -/
theorem handlerPoll_never_fuel_msg (r : AReq) (h : HState) (e : Env) {r' : AReq} {h' : HState}
    {e' : Env} {s : String} (hinv : SInv r.sp)
    (hp : handlerPoll (handlerFuel e r + scriptCost h) r h e = (r', h', e', .panic s)) :
    s ≠ "model: handler fuel exhausted" := by
  intro hs
  exact (handlerPoll_guard_unreachable r h e hinv hp).2 (by rw [hs]; decide)

/-- **At the level of the connection task**: a phase transition out of the handler phase that panics, panics at a
modelled site of the Rust — whatever the script is. -/
theorem handler_phase_guard_unreachable (c : Conn) (r : AReq) (h : HState) (hph : c.phase = .handler r h)
    (hinv : SInv r.sp) {c1 : Conn} {s : String} (hs : stepConn c = .halt c1 (.panic s)) :
    RealSite s ∧ s ∉ fuelMsgs := by
  rw [C07.handler_step c r h hph, scriptOf_handler hph] at hs
  rcases hhp : handlerPoll (handlerFuel c.env r + scriptCost h) r h c.env with ⟨r', h', e', res⟩
  rw [hhp] at hs
  cases res with
  | pending => cases hs
  | panic x =>
    have : x = s := by
      simp only at hs
      cases hs; rfl
    subst this
    exact handlerPoll_guard_unreachable r h c.env hinv hhp
  | done res =>
    cases res with
    | ok st => cases hs
    | error x =>
      simp only at hs
      split at hs <;> cases hs

/-- the claim that `C12.handlerPoll_terminates_full` makes about `handlerFuel e r`, for the fuel `pollConn` passes -/
def handlerPoll_terminates_actual : Prop :=
  ∀ (r : AReq) (h : HState) (e : Env) (r' : AReq) (h' : HState) (e' : Env) (s : String), SInv r.sp →
    handlerPoll (handlerFuel e r + scriptCost h) r h e = (r', h', e', .panic s) → s ∉ fuelMsgs

theorem handlerPoll_terminates_actual_holds : handlerPoll_terminates_actual :=
  fun r h e _ _ _ _ hinv hp => (handlerPoll_guard_unreachable r h e hinv hp).2

/-- The witness of `C12.handlerPoll_terminates_full_false` — a script of `n + 1` trivial operations, for ANY `n` —
no longer reaches the guard. -/
theorem long_script_no_guard (n : Nat) (r : AReq) (e : Env) (hinv : SInv r.sp) {r' : AReq} {h' : HState}
    {e' : Env} {s : String}
    (hp : handlerPoll (handlerFuel e r + scriptCost { ops := List.replicate (n + 1) (.consume 0) }) r
      { ops := List.replicate (n + 1) (.consume 0) } e = (r', h', e', .panic s)) :
    s ≠ "model: handler fuel exhausted" :=
  handlerPoll_never_fuel_msg r _ e hinv hp

end Fcgi.C07SF
