import Fcgi.Proofs.FuelConn
import Fcgi.Props.C03Req
import Fcgi.Props.C03Str
/-!
# The model's fuel guards and "no progress" guards are unreachable (inventory of model-only panics)

The executable model reports `.panic "model: …"` when a loop runs out of fuel or fails its own
progress check.  None of these is a panic site of the crate.  This file shows they cannot be the
reason for a `PANIC` answer of the model, under explicit size bounds.

## Bounds

* **Connection task** (`pollConn_no_fuel_panic`): `pollConn fuel c` does not return
  `"model: connection fuel exhausted"` if `mu c < fuel`, where
  `mu c = 7·|transport input available in this poll| + 5·(bytes buffered in the current parser + 1) + rank ≤ 7·in + 5·buf + 10`
  (`mu_le`).  `runTask` passes `connFuel c = 100000 + 7·|input| + 5·|buffered|`, which satisfies the bound
  for EVERY well-formed configuration: `pollConn_connFuel`, `run_panics_are_code_panics` — no side condition
  on sizes.  (With the constant part alone — `pollConn_100000` — what is covered is every poll in which at
  most 8400 bytes of not-yet-read input are available and ≤ 8 KiB are buffered.)  The bound is
  per poll (the peer releases input segment by segment) and only the bytes read by `parse_request`
  count twice; bytes read by the handler are paid by the handler's own fuel.  Cost per step: two
  phase transitions per `read` that returns data while a preamble is parsed (`reading → writing →
  reading`), four per request served (`writing → handler → closing → start → writing`).
* **Handler interpreter** (`handlerPoll_no_fuel_panic`): the call `pollConn` makes,
  `handlerPoll (handlerFuel e r) r h e`, does not return `"model: handler fuel exhausted"` if
  `scriptCost h + |raw| + |stream buffer| ≤ 999 + 3·|input| + 4·Σ|segs| + 4·cap`.  Cost per op
  (`Run.opCost`): 1 for every op, `|data| + 1` for `writeAll data` (one unit per record written, at
  most one per byte); `readAll` costs 1 plus one unit per `read` into its 64-byte buffer that
  returned data — paid for by the `≥ 1` byte each such read takes out of `input + raw + buffer`.
  Under the stream parser's invariant (`raw + buffer ≤ cap`) this is implied by
  `scriptCost h < 1000` (`handlerPoll_no_fuel_panic_inv`): scripts of ≤ 40 ops with < 960 bytes of
  `writeAll` data in total — for ANY wire length.
* the inner loops (`writeLoop`, `outLoop`, `inLoop`, `boundaryLoop`, `writeAllLoop`): `C12.*_terminates`.

## Parser guards (`strParser_progress_guard_unreachable`, `reqParser_progress_guard_unreachable`)

## Summary (`pollConn_panic_cases`, `model_panics_are_code_panics`)
-/
namespace Fcgi.C12Fuel
open Fcgi Fcgi.Req Fcgi.Str Fcgi.Async Fcgi.Run

/-! ## 1. Connection fuel -/

/-- bytes buffered in the parser of the phase -/
def bufLen : Phase → Nat
  | .parseReq rp _ => rp.input.length
  | .handler r _ => r.sp.raw.length + r.sp.parsed.length
  | .closing r _ _ _ => r.sp.raw.length + r.sp.parsed.length
  | .finished => 0

theorem mu_le (c : Conn) : mu c ≤ 7 * c.env.tr.input.length + 5 * bufLen c.phase + 10 := by
  obtain ⟨phase, env, scripts, stop⟩ := c
  cases phase with
  | parseReq rp sub =>
    have : tok rp ≤ 1 := by unfold tok; split <;> omega
    cases sub <;> (simp only [mu, beff, prank, bufLen]; omega)
  | handler r h => simp only [mu, beff, prank, bufLen]; omega
  | closing r cs st al => simp only [mu, beff, prank, bufLen]; omega
  | finished => simp only [mu, beff, prank, bufLen]; omega

/-- **`pollConn_no_fuel_panic`.**  One poll of the connection task never reports the connection fuel
guard when its fuel exceeds `7·|input| + 5·|buffered| + 10`. -/
theorem pollConn_no_fuel_panic (fuel : Nat) (c : Conn) (hwf : ConnWF c)
    (hsize : 7 * c.env.tr.input.length + 5 * bufLen c.phase + 10 < fuel) :
    (pollConn fuel c).2 ≠ .panic "model: connection fuel exhausted" :=
  pollConn_mu fuel c hwf (Nat.lt_of_le_of_lt (mu_le c) hsize)

/-- With the fuel `runTask` passes: input available in the poll ≤ 8400 bytes, buffered ≤ 8192. -/
theorem pollConn_100000 (c : Conn) (hwf : ConnWF c) (hin : c.env.tr.input.length ≤ 8400)
    (hbuf : bufLen c.phase ≤ 8192) :
    (pollConn 100000 c).2 ≠ .panic "model: connection fuel exhausted" :=
  pollConn_no_fuel_panic 100000 c hwf (by omega)

theorem bufLen_eq (ph : Phase) : bufLen ph = ph.buffered := by cases ph <;> rfl

/-- **With the fuel `runTask` passes** (`connFuel c`, computed from the configuration it polls) the
connection fuel guard is never hit — no side condition on the amount of input or buffered bytes. -/
theorem pollConn_connFuel (c : Conn) (hwf : ConnWF c) :
    (pollConn (connFuel c) c).2 ≠ .panic "model: connection fuel exhausted" :=
  pollConn_no_fuel_panic (connFuel c) c hwf (by rw [bufLen_eq]; unfold connFuel; omega)

/-- A connection that starts in `parse_request` with a fresh request parser is well formed. -/
theorem connWF_new (b mc : Nat) (env : Env) (scripts : List (List HOp × Bool)) (stop : Bool) :
    ConnWF { phase := .parseReq (Req.Parser.new b mc) .start, env := env, scripts := scripts, stop := stop } :=
  trivial

def HaltWF : Step → Prop
  | .halt c1 _ => ConnWF c1
  | .next _ => True

theorem stepConn_wf (c : Conn) (hwf : ConnWF c) : HaltWF (stepConn c) := by
  obtain ⟨phase, env, scripts, stop⟩ := c
  cases phase with
  | finished => exact hwf
  | parseReq rp sub =>
    have hw : WFState rp.state := hwf
    cases sub
    all_goals (simp only [stepConn]; repeat' split)
    all_goals first | trivial | exact hw
  | handler r h =>
    simp only [stepConn]
    repeat' split
    all_goals trivial
  | closing r cs st al =>
    simp only [stepConn]
    repeat' split
    all_goals trivial

/-- … and every poll keeps it so. -/
theorem connWF_pollConn : ∀ (fuel : Nat) (c : Conn), ConnWF c → ConnWF (pollConn fuel c).1 := by
  intro fuel
  induction fuel with
  | zero => intro c h; exact h
  | succ n ih =>
    intro c h
    rw [pollConn_succ]
    have hs := stepConn_mu c h
    have hk := stepConn_wf c h
    cases hst : stepConn c with
    | next c1 => rw [hst] at hs; exact ih c1 hs.2
    | halt c1 r => rw [hst] at hk; exact hk


/-! ## 1'. Handler fuel -/

/-- **`handlerPoll_no_fuel_panic`.**  (Since the model's handler fuel has the extra term `scriptCost h`, the bound
`hb` below is no longer needed for the poll `pollConn` makes: `C07SF.handlerPoll_guard_unreachable`.)  The handler poll
with the script-independent part of the fuel `pollConn` passes — fuel
`handlerFuel e r = 1000 + 4·|input| + 4·Σ|segs| + 4·cap` — never reports the handler fuel guard (any
panic it reports is a modelled panic site of the Rust) if
`scriptCost h + |raw| + |stream buffer| ≤ 999 + 3·|input| + 4·Σ|segs| + 4·cap`. -/
theorem handlerPoll_no_fuel_panic (r : AReq) (h : HState) (e : Env) {r' : AReq} {h' : HState}
    {e' : Env} {s : String} (hp : handlerPoll (handlerFuel e r) r h e = (r', h', e', .panic s))
    (hb : scriptCost h + r.sp.raw.length + r.sp.parsed.length ≤
      999 + 3 * e.tr.input.length + 4 * (e.segs.map (·.2.length)).sum + 4 * r.sp.cap) :
    RealSite s ∧ s ∉ fuelMsgs := by
  have := handlerPoll_fuel2 _ _ _ _ hp (by simp only [pool, handlerFuel]; omega)
  exact ⟨this, this.not_fuel⟩

/-- With the stream parser's invariant (`raw + buffer ≤ cap`): any script of cost `< 1000`
(≤ 40 ops and < 960 bytes of `writeAll` data, say), any number of `readAll`s, any wire. -/
theorem handlerPoll_no_fuel_panic_inv (r : AReq) (h : HState) (e : Env) {r' : AReq} {h' : HState}
    {e' : Env} {s : String} (hp : handlerPoll (handlerFuel e r) r h e = (r', h', e', .panic s))
    (hinv : SInv r.sp) (hc : scriptCost h < 1000) : RealSite s ∧ s ∉ fuelMsgs := by
  refine handlerPoll_no_fuel_panic r h e hp ?_
  have := hinv.1
  simp only [Str.Parser.freeStart] at this
  omega

/-- the cost of a fresh script: one unit per op plus one per byte of `writeAll` data -/
theorem scriptCost_fresh' (ops : List HOp) (p : Bool) :
    scriptCost { ops := ops, propagate := p } = (ops.map opCost).sum := scriptCost_fresh ops [] p

/-! ## 2. The parsers' own progress guards -/

/-- **Stream parser**: `"model: parse loop made no progress"` is unreachable outright — for every
state and every call, legal or not. -/
theorem strLoop_progress_guard_unreachable (p : Str.Parser) (dest : Option Nat) (res : Status) :
    (loop p dest res).2 ≠ .panic "model: parse loop made no progress" := by
  generalize hn : p.raw.length = n
  induction n using Nat.strongRecOn generalizing p dest res with
  | _ n ih =>
    rw [loop]
    split
    · simp
    · cases hit : iter p dest res with
      | cont p' d' r' =>
        have hpr := C03S.iter_progress p dest res hit
        simp only [if_pos hpr]
        exact ih _ (by omega) p' d' r' rfl
      | stop p' r' => simp
      | err p' e => simp
      | panic s =>
        simp only
        intro hs
        have h1 : s = "model: parse loop made no progress" := by injection hs
        unfold iter at hit
        by_cases hp : p.pay > 0
        · simp only [hp, if_true] at hit
          cases hpp : parsePayload p dest res with
          | cont q d r => rw [hpp] at hit; rw [padHead_panic hit] at h1; exact absurd h1 (by decide)
          | panic s' => rw [hpp] at hit; cases hit; rw [parsePayload_panic hpp] at h1; exact absurd h1 (by decide)
          | stop q r => rw [hpp] at hit; cases hit
          | err q e => rw [hpp] at hit; cases hit
        · simp only [hp, if_false] at hit
          rw [padHead_panic hit] at h1
          exact absurd h1 (by decide)

theorem strParser_progress_guard_unreachable (p : Str.Parser) (new : Bytes) (dest : Option Nat) :
    (p.parse new dest).2 ≠ .panic "model: parse loop made no progress" := by
  unfold Str.Parser.parse
  split
  · simp
  · split
    · simp
    · exact strLoop_progress_guard_unreachable _ _ _

/-- … and a legal call from an invariant state does not panic at all (`C03S.parse_total`). -/
theorem strParser_no_panic (p : Str.Parser) (new : Bytes) (dest : Option Nat) (hinv : SInv p)
    (hd : dest = none ∨ p.parsed = []) (hfree : new.length ≤ p.free) :
    ∀ s, (p.parse new dest).2 ≠ .panic s := by
  intro s hs
  have := C03S.parse_total p new dest hinv hd hfree
  revert this
  generalize p.parse new dest = out at hs
  obtain ⟨p', pr⟩ := out
  simp only at hs
  subst hs
  exact id

/-- **Request parser**: from a well-formed state the loop reaches no panic site and its progress
guard `"model: drive loop made no progress"` never fails (`Req.run_ok`). -/
theorem reqParser_progress_guard_unreachable (st : Req.State) (d : Bytes) (mc : Nat) (hw : WFState st) :
    (run st d mc).panic = none ∧ (run st d mc).panic ≠ some "model: drive loop made no progress" := by
  have := (run_ok d mc hw).1
  exact ⟨this, by rw [this]; simp⟩

/-- Hence `request::Parser::parse` never "panics" on a legal call (`C03Req.parse_total`), so the
connection task's `"request parser panicked"` cannot come from the model's guard. -/
theorem reqParser_no_panic {p : Req.Parser} {new : Bytes} (hp : PInv p) (hn : new.length ≤ p.free) :
    (p.parse new).2 ≠ none := by
  obtain ⟨y, hy, -⟩ := C03.parse_total hp hn
  rw [hy]; simp

/-! ## 3. Summary -/

theorem writeAllLoop_no_panic {buf : Bytes} {t : Transport} {rest : Bytes} {t' : Transport} {s : String}
    (h : writeAllLoop (buf.length + 1) buf t = (rest, t', .panic s)) : False := by
  have := C12.writeAllLoop_terminates buf t s
  rw [h] at this
  exact this rfl

/-- **Every panic result of a poll of the connection task**, whatever the fuel: the connection fuel
guard, the handler fuel guard, or a modelled panic site of the Rust (`Run.asyncPanicSites`: the
assertions of `poll_write` / `poll_flush` / `poll_output` / `writeable` / `record_boundary` / `close` /
`set_stream` / `output_stream`, "request parser panicked"; `Run.strPanicSites`: the assertions of
`stream::Parser::parse`).  No other `"model: …"` string: not the write / output / input / boundary /
`write_all` loop guards, not `"model: unreachable close state"`. -/
theorem pollConn_panic_cases : ∀ (fuel : Nat) (c : Conn) {c' : Conn} {s : String},
    pollConn fuel c = (c', .panic s) →
    s = "model: connection fuel exhausted" ∨ s = "model: handler fuel exhausted" ∨ RealSite s := by
  intro fuel
  induction fuel with
  | zero => intro c c' s h; simp only [pollConn] at h; cases h; exact Or.inl rfl
  | succ n ih =>
    intro c c' s h
    rw [pollConn_succ] at h
    cases hst : stepConn c with
    | next c1 => rw [hst] at h; exact ih c1 h
    | halt c1 r =>
      rw [hst] at h
      simp only [Step.run] at h
      cases h
      obtain ⟨phase, env, scripts, stop⟩ := c
      cases phase with
      | finished => simp [stepConn] at hst
      | parseReq rp sub =>
        cases sub
        all_goals (simp only [stepConn] at hst; repeat' (split at hst))
        all_goals first
          | (cases hst; done)
          | (cases hst; exact Or.inr (Or.inr (.of_async (by decide))))
          | exact (writeAllLoop_no_panic ‹_›).elim
      | handler r h =>
        simp only [stepConn] at hst
        repeat' (split at hst)
        all_goals first
          | (cases hst; done)
          | (cases hst
             rcases handlerPoll_panic_cases _ _ _ _ ‹_› with h1 | h1
             · exact Or.inr (Or.inl h1)
             · exact Or.inr (Or.inr h1))
      | closing r cs st al =>
        simp only [stepConn] at hst
        repeat' (split at hst)
        all_goals first
          | (cases hst; done)
          | (cases hst; exact Or.inr (Or.inr (closePoll_panic ‹_›)))


/-- the `.panic` strings of the model that are NOT panic sites of the crate -/
def modelOnlyPanics : List String :=
  fuelMsgs ++ ["model: unreachable close state", "model: parse loop made no progress",
    "model: drive loop made no progress"]

/-- **`model_panics_are_code_panics`.**  A poll of the connection task with the fuel `runTask`
passes, from a well-formed state within the size bound: if the model answers `PANIC`, the reason is
a modelled panic site of the Rust —

* `StreamWriter`: "payload_idx underflow", "transport accepted more than offered", "lock was dropped
  mid-write", "poll_write called while poll_flush is pending", "buf shrunk between calls to
  poll_write", "poll_flush called while poll_write is pending";
* `Request`: "lock held with empty output", "final stream should always be valid to set",
  "stream_buffer not empty", "ignoring stream data should always be allowed", "output_buffer must
  be fully consumed", "streams should follow the order given by Role::input_streams",
  "output_stream assertion"; "request parser panicked";
* `stream::Parser::parse`: "stream_buffer must be fully consumed", "new_input exceeds input_buffer",
  "consumed > payload_len", "debug_assert input stream type"

— or the handler fuel guard, which `handlerPoll_no_fuel_panic` excludes for every handler poll
within its bound.  It is never the connection fuel guard, one of the five inner-loop fuel guards,
or "model: unreachable close state".  ("model: parse loop made no progress" is listed in
`strPanicSites` for historical reasons; `strParser_progress_guard_unreachable` excludes it at its
only source, `Str.loop`; "model: drive loop made no progress" can only surface as "request parser
panicked", which `reqParser_no_panic` excludes for legal calls.) -/
theorem model_panics_are_code_panics (c : Conn) (hwf : ConnWF c)
    (hsize : 7 * c.env.tr.input.length + 5 * bufLen c.phase + 10 < 100000)
    {c' : Conn} {s : String} (h : pollConn 100000 c = (c', .panic s)) :
    s = "model: handler fuel exhausted" ∨
      (RealSite s ∧ s ∉ fuelMsgs ∧ s ≠ "model: unreachable close state" ∧
        s ≠ "model: drive loop made no progress") := by
  rcases pollConn_panic_cases _ _ h with h1 | h1 | h1
  · exfalso
    have := pollConn_no_fuel_panic 100000 c hwf hsize
    rw [h, h1] at this
    exact this rfl
  · exact Or.inl h1
  · refine Or.inr ⟨h1, h1.not_fuel, h1.not_unreachable, ?_⟩
    rcases h1 with h2 | h2
    · simp only [asyncPanicSites, List.mem_cons, List.not_mem_nil, or_false] at h2
      rcases h2 with rfl | rfl | rfl | rfl | rfl | rfl | rfl | rfl | rfl | rfl | rfl | rfl | rfl | rfl <;> decide
    · simp only [strPanicSites, List.mem_cons, List.not_mem_nil, or_false] at h2
      rcases h2 with rfl | rfl | rfl | rfl | rfl <;> decide

/-- **`model_panics_are_code_panics` for the poll `runTask` makes**, unconditionally: a `PANIC` of a
poll with the fuel `connFuel c` is the handler fuel guard or a real panic site of the crate. -/
theorem run_panics_are_code_panics (c : Conn) (hwf : ConnWF c)
    {c' : Conn} {s : String} (h : pollConn (connFuel c) c = (c', .panic s)) :
    s = "model: handler fuel exhausted" ∨
      (RealSite s ∧ s ∉ fuelMsgs ∧ s ≠ "model: unreachable close state" ∧
        s ≠ "model: drive loop made no progress") := by
  rcases pollConn_panic_cases _ _ h with h1 | h1 | h1
  · exfalso
    have := pollConn_connFuel c hwf
    rw [h, h1] at this
    exact this rfl
  · exact Or.inl h1
  · refine Or.inr ⟨h1, h1.not_fuel, h1.not_unreachable, ?_⟩
    rcases h1 with h2 | h2
    · simp only [asyncPanicSites, List.mem_cons, List.not_mem_nil, or_false] at h2
      rcases h2 with rfl | rfl | rfl | rfl | rfl | rfl | rfl | rfl | rfl | rfl | rfl | rfl | rfl | rfl <;> decide
    · simp only [strPanicSites, List.mem_cons, List.not_mem_nil, or_false] at h2
      rcases h2 with rfl | rfl | rfl | rfl | rfl <;> decide

/-- For a poll that is in the handler phase: the handler's panic, if any, is a real site as soon
as the handler bound holds — the complete statement for the most common `PANIC` source. -/
theorem handler_phase_panic_real (c : Conn) (r : AReq) (h : HState) (hph : c.phase = .handler r h)
    (hb : scriptCost h + r.sp.raw.length + r.sp.parsed.length ≤
      999 + 3 * c.env.tr.input.length + 4 * (c.env.segs.map (·.2.length)).sum + 4 * r.sp.cap)
    {c1 : Conn} {s : String} (hs : stepConn c = .halt c1 (.panic s)) : RealSite s ∧ s ∉ fuelMsgs := by
  obtain ⟨phase, env, scripts, stop⟩ := c
  simp only at hph
  subst hph
  simp only [stepConn] at hs
  repeat' (split at hs)
  all_goals first
    | (cases hs; done)
    | (cases hs
       have hh := handlerPoll_fuel2 _ r h env ‹_› (by simp only [pool]; simp only at hb; omega)
       exact ⟨hh, hh.not_fuel⟩)

/-! ## Non-vacuity -/

/-- A fresh connection whose peer has released 8000 bytes, any scripts: the hypotheses hold. -/
example (env : Env) (scripts : List (List HOp × Bool)) (hin : env.tr.input.length ≤ 8000) :
    (pollConn 100000 ⟨.parseReq (Req.Parser.new 4096 10) .start, env, scripts, false⟩).2 ≠
      .panic "model: connection fuel exhausted" :=
  pollConn_100000 _ (connWF_new 4096 10 env scripts false) (by simpa using Nat.le_trans hin (by omega))
    (by simp [bufLen, Req.Parser.new])

/-- The handler bound for a typical harness script: read everything, write 30 bytes, return. -/
example : scriptCost ⟨[.readAll, .open_ 6, .writeAll 0 (List.replicate 30 0x41), .flush 0,
    .ret (.complete 0)], .fresh, [], true⟩ = 35 := by decide

end Fcgi.C12Fuel
