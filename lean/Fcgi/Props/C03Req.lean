import Fcgi.Model.ReqParser
import Fcgi.Proofs.ReqBasics
/-!
# C03 (request parser part) — every legal `parse` call returns; errors are final

Stated over the executable model `Model/ReqParser.lean`, in which every place the Rust can panic
(slice index, `split_at`, narrowing subtraction, `expect`, `debug_assert`, `unimplemented!`, the
`assert!` on `new_input`) is an explicit outcome (`Parser.parse` returning `none`).

* `parse_total`: from a parser satisfying the bookkeeping invariant `Req.PInv` (established by
  `Parser.new` and `Parser.fromParser`), every call whose new input fits the offered buffer returns
  normally and keeps the invariant — so by induction no sequence of legal calls can reach a panic
  site, for inputs of any length and content.
* `final_sticky`: once a call reported completion — a request or a fatal error — every later call
  reports completion again, produces no output, and `into_request` yields the same request /
  the same error.
* `interrupted`: before completion `into_request` yields `Interrupted`.
-/
namespace Fcgi.C03
open Fcgi Fcgi.Req

/-! ## 1. Totality and the invariant -/

theorem new_inv (b mc : Nat) : PInv (Parser.new b mc) := Req.new_inv b mc

theorem fromParser_inv {cap : Nat} {input : Bytes} (mc : Nat) (h1 : input.length ≤ cap)
    (h2 : 24 ≤ cap) : PInv (Parser.fromParser cap input mc) := Req.fromParser_inv mc h1 h2

/-- Every legal call returns (never panics) and keeps the bookkeeping invariant. -/
theorem parse_total {p : Parser} {new : Bytes} (hp : PInv p) (hn : new.length ≤ p.free) :
    ∃ y, (p.parse new).2 = some y ∧ PInv (p.parse new).1 := by
  obtain ⟨_, hw, hsuf⟩ := run_ok (p.input ++ new) p.maxConns hp.2.1
  have hle := hsuf.length_le
  have hcap : (p.input ++ new).length ≤ p.cap := by
    unfold Parser.free at hn; have := hp.1; simp only [List.length_append]; omega
  rw [parse_eq hp hn]
  split
  · exact ⟨_, rfl, by simp only []; omega, trivial, hp.2.2⟩
  · exact ⟨_, rfl, by simp only []; omega, hw, hp.2.2⟩

/-- The bytes kept for the next call are a suffix of the old ones followed by the new ones:
input is consumed strictly from the front, nothing is reordered or invented. -/
theorem parse_input_suffix {p : Parser} {new : Bytes} (hp : PInv p) (hn : new.length ≤ p.free) :
    ∃ c, p.input ++ new = c ++ (p.parse new).1.input := by
  obtain ⟨_, _, hsuf⟩ := run_ok (p.input ++ new) p.maxConns hp.2.1
  rw [parse_eq hp hn]
  split <;> exact hsuf

/-- The remaining fields are never touched. -/
theorem parse_cap {p : Parser} {new : Bytes} (hp : PInv p) (hn : new.length ≤ p.free) :
    (p.parse new).1.cap = p.cap ∧ (p.parse new).1.maxConns = p.maxConns := by
  rw [parse_eq hp hn]
  split <;> exact ⟨rfl, rfl⟩

/-- `done` is reported exactly when the state left behind is final. -/
theorem done_iff_final {p : Parser} {new : Bytes} {y : Yield} (hp : PInv p)
    (hn : new.length ≤ p.free) (h : (p.parse new).2 = some y) :
    y.done = (p.parse new).1.state.isFinal := by
  rw [parse_eq hp hn] at h ⊢
  split at h
  · rename_i hc; rw [if_pos hc]; cases h; rfl
  · rename_i hc; rw [if_neg hc]; cases h; rfl

/-- A sequence of calls, each within the buffer space offered at that point. -/
def Legal : Parser → List Bytes → Prop
  | _, [] => True
  | p, n :: ns => n.length ≤ p.free ∧ Legal (p.parse n).1 ns

/-- The parser after a sequence of calls. -/
def feed : Parser → List Bytes → Parser
  | p, [] => p
  | p, n :: ns => feed (p.parse n).1 ns

/-- No sequence of legal calls on a parser created by `new` / `from_parser` can panic: every call
in the sequence returns, and the invariant holds afterwards. -/
theorem feed_total {p : Parser} (ns : List Bytes) (hp : PInv p) (hl : Legal p ns) :
    PInv (feed p ns) ∧
      ∀ k, k < ns.length → ∃ y, ((feed p (ns.take k)).parse (ns.getD k [])).2 = some y := by
  induction ns generalizing p with
  | nil => exact ⟨hp, fun k hk => absurd hk (Nat.not_lt_zero _)⟩
  | cons n ns ih =>
    obtain ⟨hn, hl'⟩ := hl
    obtain ⟨y, hy, hp'⟩ := parse_total hp hn
    obtain ⟨a, b⟩ := ih hp' hl'
    refine ⟨a, fun k hk => ?_⟩
    cases k with
    | zero => exact ⟨y, hy⟩
    | succ k => exact b k (by simpa using hk)

/-! ## 2. Errors (and completion) are final -/

/-- The statement as first written, without any hypothesis tying `input` to `cap`.  It is false
for parser values that no sequence of calls can produce (`input` longer than the buffer): there
`free = 0`, the empty input is "legal", and the model's `assert!` arm answers. See
`final_sticky_full_false`; `final_sticky_partial` / `final_sticky` are the true statements. -/
def final_sticky_full : Prop :=
  ∀ (p : Parser) (new : Bytes), p.state.isFinal = true → new.length ≤ p.free →
    p.parse new = ({ p with input := p.input ++ new }, some { done := true, output := [] })

theorem final_sticky_full_false : ¬ final_sticky_full := by
  intro h
  have := h { cap := 0, input := [0], state := .fatal .protocol, maxConns := 1 } [] rfl (by decide)
  revert this
  decide

/-- Once the state is final, a call only appends the new bytes to the unread input, reports
completion again and produces no output.  (Needs only `input_len ≤ input.len()`.) -/
theorem final_sticky_partial {p : Parser} {new : Bytes} (hf : p.state.isFinal = true)
    (hc : p.input.length ≤ p.cap) (hn : new.length ≤ p.free) :
    p.parse new = ({ p with input := p.input ++ new }, some { done := true, output := [] }) := by
  unfold Parser.free at hn
  unfold Parser.parse
  rw [if_neg (by omega)]
  simp only [run_final _ _ hf, hf]
  rw [if_neg (by omega)]
  rfl

theorem final_sticky {p : Parser} {new : Bytes} (hp : PInv p) (hf : p.state.isFinal = true)
    (hn : new.length ≤ p.free) :
    p.parse new = ({ p with input := p.input ++ new }, some { done := true, output := [] }) :=
  final_sticky_partial hf hp.1 hn

/-- A fatal error once reported is reported again by every later call, with no further output,
and `into_request` keeps yielding that error. -/
theorem fatal_sticky {p : Parser} {new : Bytes} {e : PErr} (hp : PInv p)
    (hs : p.state = .fatal e) (hn : new.length ≤ p.free) :
    (p.parse new).2 = some { done := true, output := [] } ∧
      (p.parse new).1.state = .fatal e ∧
      (p.parse new).1.intoRequest = .error e ∧ p.intoRequest = .error e := by
  rw [final_sticky hp (by rw [hs]; rfl) hn]
  simp [Parser.intoRequest, hs]

/-- A completed request stays completed: later calls only accumulate the bytes that follow the
request preamble (they belong to the request's input streams) and `into_request` yields the same
request together with all of them. -/
theorem done_sticky {p : Parser} {new : Bytes} {r : Request} (hp : PInv p)
    (hs : p.state = .done r) (hn : new.length ≤ p.free) :
    (p.parse new).2 = some { done := true, output := [] } ∧
      (p.parse new).1.state = .done r ∧
      (p.parse new).1.intoRequest = .ok (r, p.input ++ new) ∧ p.intoRequest = .ok (r, p.input) := by
  rw [final_sticky hp (by rw [hs]; rfl) hn]
  simp [Parser.intoRequest, hs]

/-- Both cases at once: `into_request` after a further call equals `into_request` before it, up
to the appended unread bytes. -/
theorem final_sticky_request {p : Parser} {new : Bytes} (hp : PInv p)
    (hf : p.state.isFinal = true) (hn : new.length ≤ p.free) :
    (p.parse new).1.intoRequest = (p.intoRequest).map (fun x => (x.1, x.2 ++ new)) := by
  rw [final_sticky hp hf hn]
  cases hs : p.state <;> simp [hs, State.isFinal] at hf <;> simp [Parser.intoRequest, hs, Except.map]

/-- … and so for every later sequence of legal calls. -/
theorem final_sticky_feed {p : Parser} (ns : List Bytes) (hp : PInv p)
    (hf : p.state.isFinal = true) (hl : Legal p ns) :
    feed p ns = { p with input := p.input ++ ns.flatten } := by
  induction ns generalizing p with
  | nil => simp [feed]
  | cons n ns ih =>
    obtain ⟨hn, hl'⟩ := hl
    have hp' := (parse_total hp hn).choose_spec.2
    rw [final_sticky hp hf hn] at hl' hp'
    simp only [feed, final_sticky hp hf hn]
    rw [ih hp' hf hl']
    simp

/-! ## 3. Before completion -/

/-- Converting a parser that has not completed yields `Interrupted`. -/
theorem interrupted {p : Parser} (h : p.state.isFinal = false) :
    p.intoRequest = .error .interrupted := by
  cases hs : p.state <;> simp [hs, State.isFinal] at h <;> simp [Parser.intoRequest, hs]

/-- The call that violates the contract (`new_input` larger than the offered buffer) is the only
way to the `assert!`: the model answers `none` and leaves the parser untouched. -/
theorem illegal_call {p : Parser} {new : Bytes} (h : p.free < new.length) :
    p.parse new = (p, none) := by
  unfold Parser.free at h
  unfold Parser.parse
  rw [if_pos (Or.inl h)]

/-! ## Non-vacuity: concrete instances meeting the hypotheses -/

example : PInv (Parser.new 0 1) := new_inv 0 1
example : PInv (Parser.new 8192 10) := new_inv 8192 10
example : PInv (Parser.fromParser 24 [1, 1, 0] 1) := fromParser_inv 1 (by decide) (by decide)

/-- A record with protocol version 2 makes the header state fatal at once … -/
def exBadVersion : Bytes := [2, 1, 0, 1, 0, 8, 0, 0]

theorem ex_fatal_parse :
    (Parser.new 0 1).parse exBadVersion =
      ({ cap := 24, input := exBadVersion, state := .fatal (.unknownVersion 2), maxConns := 1 },
        some { done := true, output := [] }) := by
  have hs : step .header exBadVersion 1 = (.brk exBadVersion (.fatal (.unknownVersion 2)), []) := by
    decide
  have hr : run (Parser.new 0 1).state ((Parser.new 0 1).input ++ exBadVersion)
      (Parser.new 0 1).maxConns =
      { rem := exBadVersion, st := .fatal (.unknownVersion 2), out := [] } :=
    run_brk (st := .header) rfl hs
  rw [parse_eq (new_inv 0 1) (by decide), hr]
  rfl

/-- … and the next call (8 more bytes, within the 16 free) reports the same error, no output. -/
example :
    (((Parser.new 0 1).parse exBadVersion).1.parse [1, 1, 0, 1, 0, 8, 0, 0]).2 =
        some { done := true, output := [] } ∧
      (((Parser.new 0 1).parse exBadVersion).1.parse [1, 1, 0, 1, 0, 8, 0, 0]).1.intoRequest =
        .error (.unknownVersion 2) := by
  have hp : PInv ((Parser.new 0 1).parse exBadVersion).1 :=
    (parse_total (new_inv 0 1) (by decide)).choose_spec.2
  have hs : ((Parser.new 0 1).parse exBadVersion).1.state = .fatal (.unknownVersion 2) := by
    rw [ex_fatal_parse]
  have hn : ([1, 1, 0, 1, 0, 8, 0, 0] : Bytes).length ≤ ((Parser.new 0 1).parse exBadVersion).1.free := by
    rw [ex_fatal_parse]; decide
  obtain ⟨a, _, c, _⟩ := fatal_sticky hp hs hn
  exact ⟨a, c⟩

example : (Parser.new 0 1).intoRequest = .error .interrupted := interrupted rfl

example : final_sticky_full → False := final_sticky_full_false

end Fcgi.C03
