import Fcgi.Proofs.C09Reads
/-!
# C09 at handler level — reads, buffered reads and `consume` in any mix deliver exactly the stream

Setting (as in `Proofs/E2EStr.lean`): `K : RCtx` fixes the wire of the active stream and what the
reference interpreter makes of it (`K.C` = the stream content, ending in front of `K.U`); `K.OK` holds
for every well-formed stream whose management `GetValues` bodies fit the buffer (`rctx_ok_of_body`).
The transport is benign (`E2E.Ben`): arbitrary splitting of reads and writes, `Pending` at any call,
no errors.  `BSt K L P r m t handed dO` is the reader's view: `handed` = the bytes the handler has
received so far (returned by `read`s or consumed after `fill_buf`s), `r.sp.parsed` = the bytes
`fill_buf` shows.

Operation level (`Proofs/C09Reads.lean`): `read_spec`, `fill_spec`, `BSt.consume`, `read_zero`,
`read_buffered`, `fill_buffered`.

Handler level: `ledgerPoll fuel r h e` is the concatenation of the bytes the reading operations of
the script hand to the handler during one poll — defined by re-running the very `poll_input` calls
`handlerPoll` makes.  `reads_poll`: one poll of a script of `read n` / `fill` / `consume k` (any order,
any `n ≥ 0`, any `k`) keeps the reader's view with `handed ++ ledgerPoll …`, never fails, and stops
only `Pending` (transient), at the end of the script, or on the model's fuel guard.

* (a) `reads_are_prefix` — `handed ++ ledgerPoll … <+: K.C`: in order, each byte once;
* (b) `eof_only_at_end`, `eof_persists`, `eof_persists_script` — a `read(n)`, `n > 0`, returns `0`
  (a `fill_buf` shows an empty slice) only when `handed = K.C`; from then on every read returns `0`;
* (c) `zero_len_read` — `read(0)` returns `0`, touches nothing, and says nothing about end of file;
* (d) `buffered_first` — bytes shown by `fill_buf` and not consumed are exactly what the next `read`
  returns first, without a transport call;
* (e) `open_iff_writeable`, `writeable_only_by_ready`, `final_stream_sets_writeable`,
  `filter_select_not_writeable` — `output_stream(t)` succeeds iff the request is writeable (and `t` is
  an output stream of the role); the flag is never set by `set_stream`, and a `poll_input` sets it only
  by returning `Ready` on the final stream with at least one byte of that stream extracted from the
  wire or with the stream's end reached.
-/
namespace Fcgi.C09E
open Fcgi Fcgi.Req Fcgi.Str Fcgi.Async Fcgi.Run Fcgi.E2E

/-! ## 1. Scripts of reading operations and their ledger -/

def isReadingOp : HOp → Bool
  | .read _ | .fill | .consume _ => true
  | _ => false

/-- The bytes handed to the handler during one poll: what each completed `read` returned and what
each `consume` took from the stream buffer, in script order.  (It re-runs the `poll_input` calls of
`handlerPoll`, with the same arguments.) -/
def ledgerPoll : Nat → AReq → HState → Run.Env → Bytes
  | 0, _, _, _ => []
  | fuel + 1, r, h, e =>
    match h.ops with
    | .read n :: rest =>
      match r.pollInput (some n) e.mutex e.tr with
      | (r', m, t, .ready k d) =>
        d ++ ledgerPoll fuel r' { h with ops := rest, sub := .fresh }
          ({ e with mutex := m, tr := t }.ev s!"r={k}:{hexOrDash d}")
      | _ => []
    | .fill :: rest =>
      match r.pollInput none e.mutex e.tr with
      | (r', m, t, .ready _ _) =>
        ledgerPoll fuel r' { h with ops := rest, sub := .fresh }
          ({ e with mutex := m, tr := t }.ev s!"f={r'.sp.parsed.length}:{hexOrDash r'.sp.parsed}")
      | _ => []
    | .consume k :: rest =>
      r.sp.parsed.take k ++
        ledgerPoll fuel { r with sp := r.sp.consumeStream k } { h with ops := rest, sub := .fresh } e
    | _ => []

/-- The handler-level invariant: reader's view, benign transport, only reading operations left. -/
structure RdSt (K : RCtx) (L P handed : Bytes) (r : AReq) (h : HState) (e : Run.Env) : Prop where
  st : ∃ dO, BSt K L P r e.mutex e.tr handed dO
  ben : Ben e.tr
  ops : ∀ op ∈ h.ops, isReadingOp op = true

theorem BSt.ev {K : RCtx} {L P : Bytes} {r : AReq} {m : MutexSt} {t : Transport} {handed dO : Bytes}
    (h : BSt K L P r m t handed dO) (s : String) : BSt K L P r m (t.ev s) handed dO := by
  obtain ⟨⟨G, hi⟩, hl, hm, hlog⟩ := h
  exact ⟨⟨G, hi⟩, hl, hm, hlog⟩

theorem ben_ev {t : Transport} (h : Ben t) (s : String) : Ben (t.ev s) := ⟨h.rd, h.wr, h.hold, h.em⟩

/-- **One poll of a script of reading operations.** -/
theorem reads_poll {K : RCtx} (hK : K.OK) {L P : Bytes} : ∀ (fuel : Nat) (r : AReq) (h : HState) (e : Run.Env)
    (handed : Bytes) {r' : AReq} {h' : HState} {e' : Run.Env} {res : HRes},
    RdSt K L P handed r h e → handlerPoll fuel r h e = (r', h', e', res) →
    RdSt K L P (handed ++ ledgerPoll fuel r h e) r' h' e' ∧
    (res = .pending ∨ (res = .done (.ok (.complete 0)) ∧ h'.ops = []) ∨
      res = .panic "model: handler fuel exhausted") := by
  intro fuel
  induction fuel with
  | zero =>
    intro r h e handed r' h' e' res hs hh
    simp only [handlerPoll] at hh; cases hh
    exact ⟨by simpa [ledgerPoll] using hs, Or.inr (Or.inr rfl)⟩
  | succ f ih =>
    intro r h e handed r' h' e' res hs hh
    obtain ⟨⟨dO, hst⟩, hben, hops⟩ := hs
    rw [handlerPoll] at hh
    rw [ledgerPoll]
    rcases hopl : h.ops with _ | ⟨op, rest⟩
    · simp only [hopl] at hh ⊢
      cases hh
      exact ⟨⟨⟨dO, by simpa using hst⟩, hben, by rw [hopl]; nofun⟩, Or.inr (Or.inl ⟨rfl, hopl⟩)⟩
    · have hrest : ∀ op' ∈ rest, isReadingOp op' = true := fun o ho => hops o (by rw [hopl]; exact List.mem_cons_of_mem _ ho)
      have hop : isReadingOp op = true := hops op (by rw [hopl]; exact List.mem_cons_self ..)
      simp only [hopl] at hh ⊢
      cases op with
      | read n =>
        simp only at hh ⊢
        rcases Nat.eq_zero_or_pos n with hn | hn
        · subst hn
          rw [read_zero] at hh ⊢
          simp only at hh ⊢
          have : RdSt K L P (handed ++ ledgerPoll f r _ _) r' h' e' ∧ _ := ih r _ _ handed ?_ hh
          · simpa using this
          · exact ⟨⟨dO, hst.ev _⟩, ben_ev hben _, hrest⟩
        · cases hpi : r.pollInput (some n) e.mutex e.tr with
          | mk r1 x =>
            obtain ⟨m1, t1, ires⟩ := x
            rw [hpi] at hh
            obtain ⟨hts, hro, _⟩ := read_spec hK hn hben hst hpi
            have hben1 := hben.step hts
            cases ires with
            | pending =>
              simp only at hh ⊢
              cases hh
              obtain ⟨⟨dO', hs'⟩, _, _, _⟩ := hro
              exact ⟨⟨⟨dO', by simpa using hs'⟩, hben1, hops⟩, Or.inl rfl⟩
            | ready k d =>
              simp only at hh ⊢
              obtain ⟨_, ⟨dO', hs'⟩, _⟩ := hro
              have := ih r1 _ _ (handed ++ d) ?_ hh
              · rwa [List.append_assoc] at this
              · exact ⟨⟨dO', hs'.ev _⟩, ben_ev hben1 _, hrest⟩
            | err x => exact hro.elim
            | panic s => exact hro.elim
      | fill =>
        simp only at hh ⊢
        cases hpi : r.pollInput none e.mutex e.tr with
        | mk r1 x =>
          obtain ⟨m1, t1, ires⟩ := x
          rw [hpi] at hh
          obtain ⟨hts, hfo, _⟩ := fill_spec hK hben hst hpi
          have hben1 := hben.step hts
          cases ires with
          | pending =>
            simp only at hh ⊢
            cases hh
            obtain ⟨⟨dO', hs'⟩, _, _, _⟩ := hfo
            exact ⟨⟨⟨dO', by simpa using hs'⟩, hben1, hops⟩, Or.inl rfl⟩
          | ready k d =>
            simp only at hh ⊢
            obtain ⟨_, ⟨dO', hs'⟩, _⟩ := hfo
            refine ih r1 _ _ handed ?_ hh
            exact ⟨⟨dO', hs'.ev _⟩, ben_ev hben1 _, hrest⟩
          | err x => exact hfo.elim
          | panic s => exact hfo.elim
      | consume k =>
        simp only at hh ⊢
        have := ih _ _ _ (handed ++ r.sp.parsed.take k) ?_ hh
        · rwa [List.append_assoc] at this
        · exact ⟨⟨dO, hst.consume k⟩, hben, hrest⟩
      | readAll => cases hop
      | setStream _ => cases hop
      | writeable => cases hop
      | open_ _ => cases hop
      | dropW _ => cases hop
      | writeAll _ _ => cases hop
      | flush _ => cases hop
      | ret _ => cases hop
      | retErr _ => cases hop

section Main
variable {K : RCtx} {L P handed : Bytes} {r : AReq} {h : HState} {e : Run.Env}

/-- **(a)** What the reading operations of a script hand to the handler — over one poll, and by
composition over any number of polls — is a prefix of the content of the active stream: exactly its
bytes, in order, each once. -/
theorem reads_are_prefix (hK : K.OK) (fuel : Nat) (hs : RdSt K L P handed r h e) :
    handed ++ ledgerPoll fuel r h e <+: K.C := by
  rcases hp : handlerPoll fuel r h e with ⟨r', h', e', res⟩
  obtain ⟨⟨⟨dO, hst⟩, _, _⟩, _⟩ := reads_poll hK fuel r h e handed hs hp
  exact (List.prefix_append _ _).trans (hst.prefix hK)

/-- … and a script of reading operations never fails on a benign transport. -/
theorem reads_never_fail (hK : K.OK) (fuel : Nat) (hs : RdSt K L P handed r h e)
    {r' : AReq} {h' : HState} {e' : Run.Env} {res : HRes} (hp : handlerPoll fuel r h e = (r', h', e', res)) :
    (∀ x, res ≠ .done (.error x)) ∧ (∀ s, res = .panic s → s = "model: handler fuel exhausted") := by
  rcases (reads_poll hK fuel r h e handed hs hp).2 with h1 | ⟨h1, _⟩ | h1 <;> subst h1
  · exact ⟨nofun, nofun⟩
  · exact ⟨nofun, nofun⟩
  · exact ⟨nofun, fun s hs => by cases hs; rfl⟩

/-- **(b1)** A `read` into a non-empty buffer returns `0` only at the true end of the stream. -/
theorem eof_only_at_end (hK : K.OK) {n : Nat} (hn : 0 < n) {m : MutexSt} {t : Transport} {dO : Bytes}
    (hb : Ben t) (hs : BSt K L P r m t handed dO) {r' : AReq} {m' : MutexSt} {t' : Transport} {d : Bytes}
    (hp : r.pollInput (some n) m t = (r', m', t', .ready 0 d)) : handed = K.C ∧ d = [] := by
  obtain ⟨_, ⟨hk, _, hz⟩, _⟩ := read_spec hK hn hb hs hp
  exact ⟨(hz rfl).1, List.length_eq_zero_iff.1 hk.symm⟩

/-- … and a `fill_buf` shows an empty slice only at the true end of the stream. -/
theorem eof_only_at_end_fill (hK : K.OK) {m : MutexSt} {t : Transport} {dO : Bytes}
    (hb : Ben t) (hs : BSt K L P r m t handed dO) {r' : AReq} {m' : MutexSt} {t' : Transport} {k : Nat}
    {d : Bytes} (hp : r.pollInput none m t = (r', m', t', .ready k d)) (he : r'.sp.parsed = []) :
    handed = K.C := by
  obtain ⟨_, ⟨_, _, hz⟩, _⟩ := fill_spec hK hb hs hp
  exact hz he

/-- **(b2)** The end of file persists: once everything was handed over, a `read` returns `0` bytes
(or a transient `Pending` while replies are flushed), never data. -/
theorem eof_persists (hK : K.OK) {n : Nat} (hn : 0 < n) {m : MutexSt} {t : Transport} {dO : Bytes}
    (hb : Ben t) (hs : BSt K L P r m t K.C dO) {r' : AReq} {m' : MutexSt} {t' : Transport} {k : Nat}
    {d : Bytes} (hp : r.pollInput (some n) m t = (r', m', t', .ready k d)) : k = 0 ∧ d = [] := by
  obtain ⟨_, ⟨hk, ⟨dO', hs'⟩, _⟩, _⟩ := read_spec hK hn hb hs hp
  have hpre := hs'.prefix hK
  have hd : d = [] := by
    obtain ⟨z, hz⟩ := hpre
    have := congrArg List.length hz
    simp only [List.length_append] at this
    exact List.length_eq_zero_iff.1 (by omega)
  exact ⟨by rw [hk, hd]; rfl, hd⟩

/-- … at script level: after the end of the stream no reading operation hands over anything. -/
theorem eof_persists_script (hK : K.OK) (fuel : Nat) (hs : RdSt K L P K.C r h e) :
    ledgerPoll fuel r h e = [] := by
  obtain ⟨z, hz⟩ := reads_are_prefix hK fuel hs
  have := congrArg List.length hz
  simp only [List.length_append] at this
  exact List.length_eq_zero_iff.1 (by omega)

/-- **(c)** `read` into an empty buffer: `Ok(0)`, no state change, no transport call — and no
end-of-file indication (it happens whatever the position in the stream). -/
theorem zero_len_read (r : AReq) (m : MutexSt) (t : Transport) :
    r.pollInput (some 0) m t = (r, m, t, .ready 0 []) := read_zero r m t

/-- **(d)** Bytes shown by `fill_buf` and not consumed are what the next `read` returns first: it
returns `min n |buffered|` of them, from the front, without touching the transport, and keeps the
rest buffered. -/
theorem buffered_first (r : AReq) (n : Nat) (m : MutexSt) (t : Transport) (hn : 0 < n)
    (hb : r.sp.parsed ≠ []) :
    ∃ r', r.pollInput (some n) m t = (r', m, t, .ready (min n r.sp.parsed.length) (r.sp.parsed.take n)) ∧
      r'.sp.parsed = r.sp.parsed.drop n := by
  refine ⟨{ r with sp := r.sp.consumeStream (min n r.sp.parsed.length) }, ?_, ?_⟩
  · rw [read_buffered r n m t hn hb]
    congr 4
    rw [Nat.min_comm]; exact take_min_len _ _
  · show (r.sp.consumeStream _).parsed = _
    rw [consumeStream_parsed, Nat.min_comm]; exact drop_min_len _ _

end Main

/-! ## 2. The `writeable` gate at handler level -/

/-- **(e1)** `output_stream(ty)` in a handler succeeds iff `ty` is an output stream of the role and
the request is writeable; otherwise the documented panic (`async_io/mod.rs:324`). -/
theorem open_iff_writeable (fuel : Nat) (r : AReq) (ty : Nat) (rest : List HOp) (sub : HSub)
    (ws : List (Option Writer)) (pr : Bool) (e : Run.Env) :
    (((outputStreams r.sp.request.role).contains ty = true ∧ r.writeable = true) →
      handlerPoll (fuel + 1) r { ops := .open_ ty :: rest, sub := sub, writers := ws, propagate := pr } e =
        handlerPoll fuel r
          { ops := rest, sub := .fresh, writers := ws ++ [some { rtype := ty, id := r.sp.request.id }],
            propagate := pr } (e.ev s!"o=w{ws.length}")) ∧
    (¬ ((outputStreams r.sp.request.role).contains ty = true ∧ r.writeable = true) →
      handlerPoll (fuel + 1) r { ops := .open_ ty :: rest, sub := sub, writers := ws, propagate := pr } e =
        (r, { ops := .open_ ty :: rest, sub := sub, writers := ws, propagate := pr }, e,
          .panic "async_io:324 output_stream assertion")) := by
  rw [hp_open]
  constructor
  · rintro ⟨h1, h2⟩
    rw [if_neg (by rw [h1, h2]; decide)]
  · intro hn
    have : (!(outputStreams r.sp.request.role).contains ty || !r.writeable) = true := by
      cases h1 : (outputStreams r.sp.request.role).contains ty <;> cases h2 : r.writeable <;> simp_all
    rw [if_pos this]

/-- **(e2)** `poll_input` sets `writeable` only by returning `Ready`. -/
theorem writeable_only_by_ready {r : AReq} {dest : Option Nat} {m : MutexSt} {t : Transport}
    {r' : AReq} {m' : MutexSt} {t' : Transport} {res : IRes}
    (h : r.pollInput dest m t = (r', m', t', res)) (h0 : r.writeable = false) (h1 : r'.writeable = true) :
    ∃ k d, res = .ready k d := by
  cases res with
  | ready k d => exact ⟨k, d, rfl⟩
  | pending => rw [pollInput_wframe h nofun, h0] at h1; cases h1
  | err x => rw [pollInput_wframe h nofun, h0] at h1; cases h1
  | panic s => rw [pollInput_wframe h nofun, h0] at h1; cases h1

/-- **(e3)** On the simulated stream: a `read` that sets `writeable` has extracted at least one byte
of the active stream from the wire, or has reached the record that ends it.  (So for a Filter —
final stream `Data` — selecting `Data` does not make the request writeable: a `Data` record of this
request, or the end of `Data`, must have come in from the transport.) -/
theorem writeable_needs_stream_data {K : RCtx} (hK : K.OK) {n : Nat} (hn : 0 < n) {L P : Bytes}
    {r : AReq} {m : MutexSt} {t : Transport} {dC dO : Bytes} {r' : AReq} {m' : MutexSt} {t' : Transport}
    {res : IRes} (hb : Ben t) (hs : RSt K L P r m t dC dO) (h : r.pollInput (some n) m t = (r', m', t', res))
    (h0 : r.writeable = false) (h1 : r'.writeable = true) :
    ∃ k d, res = .ready k d ∧ (d ≠ [] ∨ ∃ dO', AtEnd K r' t' (dC ++ d) dO') := by
  obtain ⟨k, d, rfl⟩ := writeable_only_by_ready h h0 h1
  obtain ⟨_, ⟨hk, dO', _, _, _, hend, _⟩, _⟩ := pollInput_sim hK hn hb hs h
  refine ⟨k, d, rfl, ?_⟩
  rcases hend with hp | hat
  · left; intro hd; rw [hd] at hk; simp at hk; omega
  · exact Or.inr ⟨dO', hat⟩

/-- the same for `fill_buf` / `writeable()` (`poll_input(None)`) -/
theorem writeable_needs_stream_data_fill {K : RCtx} (hK : K.OK) {L P : Bytes}
    {r : AReq} {m : MutexSt} {t : Transport} {dC dO : Bytes} {r' : AReq} {m' : MutexSt} {t' : Transport}
    {res : IRes} (hb : Ben t) (hs : RSt K L P r m t dC dO) (h : r.pollInput none m t = (r', m', t', res))
    (h0 : r.writeable = false) (h1 : r'.writeable = true) :
    ∃ k d, res = .ready k d ∧ (r'.sp.parsed ≠ [] ∨ ∃ dO', AtEnd K r' t' (dC ++ r'.sp.parsed) dO') := by
  obtain ⟨k, d, rfl⟩ := writeable_only_by_ready h h0 h1
  obtain ⟨_, _, hk, dO', _, _, _, hend, _⟩ := pollInput_sim_none hK hb hs h
  refine ⟨k, d, rfl, ?_⟩
  rcases hend with hp | hat
  · left; intro hd; rw [hd] at hk; simp at hk; omega
  · exact Or.inr ⟨dO', hat⟩

/-- … and conversely a `Ready` on the final stream does set it. -/
theorem final_stream_sets_writeable {K : RCtx} (hK : K.OK) {n : Nat} (hn : 0 < n) {L P : Bytes}
    {r : AReq} {m : MutexSt} {t : Transport} {dC dO : Bytes} {r' : AReq} {m' : MutexSt} {t' : Transport}
    {k : Nat} {d : Bytes} (hb : Ben t) (hs : RSt K L P r m t dC dO) (hf : K.final = true)
    (h : r.pollInput (some n) m t = (r', m', t', .ready k d)) : r'.writeable = true := by
  obtain ⟨_, ⟨_, _, _, _, _, _, _, hw⟩, _⟩ := pollInput_sim hK hn hb hs h
  exact hw hf

/-- **(e4)** A new Filter request is not writeable, and selecting `Data` (`set_stream`) does not
change that. -/
theorem filter_select_not_writeable (sp : Str.Parser) (hr : sp.request.role = 3) {r' : AReq} {s : Nat}
    (h : (AReq.new sp).setStream s = some r') : (AReq.new sp).writeable = false ∧ r'.writeable = false := by
  have h0 := (C09.new_writeable_roles sp).2.2 hr
  exact ⟨h0, by rw [C09.writeable_setStream h]; exact h0⟩

/-! ## 3. Non-vacuity -/
section Examples

/-- The reader's view of a freshly created `Request` whose transport still holds the whole wire. -/
theorem BSt.init {K : RCtx} (L : Bytes) {t : Transport} (hid : K.rq.id = K.E.id) (hrole : K.rq.role = K.E.role)
    (hs : nextInputStream K.rq.role none = some K.E.s) (hmem : K.E.s ∈ inputStreams K.E.role)
    (hlt : K.rq.id < 65536) (hin : t.input = K.X) (hw : t.wlog = L) :
    BSt K L [] (AReq.new (Str.Parser.fromParser K.cap K.rq [] K.E.mc)) none t [] [] := by
  refine ⟨⟨[], ⟨hid, hrole, hs, rfl, hmem⟩, SInv_fromParser _ _ _ _ (by simp) hlt, rfl, rfl,
    by rw [List.nil_append, hin], fun x => ?_⟩, lockInv_free rfl, Or.inl rfl, [], by simp [hw], rfl⟩
  show refWire K.E ([] ++ x) = (ref K.E .skip 0 0 ([] ++ x)).pre [] []
  rw [RefOut.pre_nil, ref_eq_refWire]

/-- Responder request 1, active stream `Stdin`. -/
def exE : Str.Cfg := { id := 1, role := 1, s := 5, mc := 1 }
def exRq : Request := { id := 1, role := 1, flags := 0, env := [] }
/-- `Stdin("AB")`, then the empty `Stdin` record -/
def exBody : List Spec.Rec := [{ rtype := 5, id := 1, content := [65, 66], pad := [] }]
def exEnd : Spec.Rec := { rtype := 5, id := 1, content := [], pad := [] }
def exK : RCtx :=
  ⟨exE, exRq, 64, Spec.serAll (exBody ++ exEnd :: []), [65, 66], Spec.owedStream 1 5 1 exBody,
    Spec.serAll (exEnd :: [])⟩

theorem exK_ok : exK.OK := by
  have hb : Body 1 5 ([65, 66] ++ []) exBody :=
    Body.chunk [65, 66] [] 0 (by decide) (by decide) Body.nil
  refine rctx_ok_of_body exE (Or.inl rfl) (by decide) hb exEnd ⟨by decide, by decide, by decide⟩ (by decide) [] nofun exRq 64
    (by decide) ?_
  intro r hr hm
  simp only [exBody, List.cons_append, List.nil_append, List.mem_cons, List.not_mem_nil, or_false] at hr
  rcases hr with rfl | rfl <;> exact absurd hm.1 (by decide)

/-- the transport delivers one byte at a time and is busy now and then -/
def exT : Transport :=
  { input := exK.X, endMode := .pend, rd := [.n 1, .pending, .n 3, .n 1], wr := [], fl := [] }

def exR : AReq := AReq.new (Str.Parser.fromParser 64 exRq [] 1)

/-- `fill_buf`, `read(1)`, `consume(5)`, `read(0)`, `read(4)`, `read(4)` -/
def exScript : List HOp := [.fill, .read 1, .consume 5, .read 0, .read 4, .read 4]

theorem ex_rdst : RdSt exK [] [] [] exR { ops := exScript } { tr := exT } :=
  ⟨⟨[], BSt.init (K := exK) [] rfl rfl rfl (by decide) (by decide) rfl rfl⟩,
    ⟨by decide, by decide, rfl, by decide⟩, by decide⟩

/-- (a) instantiated: whatever this script hands over in its first poll is a prefix of "AB" … -/
example : ([] : Bytes) ++ ledgerPoll 50 exR { ops := exScript } { tr := exT } <+: [65, 66] :=
  reads_are_prefix exK_ok 50 ex_rdst

/-- … and with a transport that delivers everything at once the whole run is one poll: the ledger is
exactly "AB" (`fill_buf` shows "AB", `read(1)` returns "A", `consume` takes "B", `read(0)` returns `0`
in mid-stream, the two `read(4)`s return `0`: end of file, twice). -/
def exT1 : Transport := { input := exK.X, endMode := .pend, rd := [], wr := [], fl := [] }

example : ledgerPoll 50 exR { ops := exScript } { tr := exT1 } = [65, 66] := by decide +kernel

example : (match handlerPoll 50 exR { ops := exScript } { tr := exT1 } with
    | (_, h', e', .done (.ok _)) => h'.ops.isEmpty &&
        e'.tr.events == ["R64:18", "f=2:4142", "r=1:41", "r=0:-", "r=0:-", "r=0:-"]
    | _ => false) = true := by decide +kernel

/-- (d) instantiated: after `fill_buf` showed "AB", `read(1)` returns "A" and keeps "B" buffered. -/
example : (exR.pollInput none none exT1).2.2.2 = .ready 2 [] ∧
    (exR.pollInput none none exT1).1.sp.parsed = [65, 66] ∧
    ∃ r2, (exR.pollInput none none exT1).1.pollInput (some 1) (exR.pollInput none none exT1).2.1
        (exR.pollInput none none exT1).2.2.1 =
      (r2, (exR.pollInput none none exT1).2.1, (exR.pollInput none none exT1).2.2.1, .ready 1 [65]) ∧
      r2.sp.parsed = [66] := by
  have hp : (exR.pollInput none none exT1).1.sp.parsed = [65, 66] := by decide +kernel
  refine ⟨by decide +kernel, hp, ?_⟩
  obtain ⟨r2, h2, h3⟩ := buffered_first (exR.pollInput none none exT1).1 1 (exR.pollInput none none exT1).2.1
    (exR.pollInput none none exT1).2.2.1 (by decide) (by rw [hp]; decide)
  rw [hp] at h2 h3
  exact ⟨r2, h2, h3⟩

/-- (e) instantiated: a Filter request is not writeable when created nor after selecting `Data`;
`output_stream` then panics. -/
def exF : AReq := AReq.new (Str.Parser.fromParser 64 { id := 1, role := 3, flags := 0, env := [] } [] 1)

example : exF.writeable = false ∧ ∃ r', exF.setStream 8 = some r' ∧ r'.writeable = false ∧
    ∃ h' e', handlerPoll 5 r' { ops := [.open_ 6] } { tr := exT1 } =
      (r', h', e', .panic "async_io:324 output_stream assertion") := by
  have hsel : ∃ r', exF.setStream 8 = some r' := by
    cases h : exF.setStream 8 with
    | none => exact absurd h (by decide +kernel)
    | some r' => exact ⟨r', rfl⟩
  obtain ⟨r', hr'⟩ := hsel
  obtain ⟨h0, h1⟩ := filter_select_not_writeable _ rfl hr'
  exact ⟨h0, r', hr', h1, _, _,
    (open_iff_writeable 4 r' 6 [] .fresh [] true { tr := exT1 }).2 (fun hc => by rw [h1] at hc; cases hc.2)⟩

end Examples

end Fcgi.C09E
