import Fcgi.Proofs.StrPhase
import Fcgi.Props.C03StrInv
/-!
# C03, stream parser — histories WITH `set_stream`: phases, on arbitrary input

`Props/C03StrInv.lean` excludes `set_stream` (`NoSet`).  Here the caller may select streams.

Facts about `set_stream(Some(s'))` (`Proofs/StrPhase.lean`, `set_stream_phase`): if `s'` is the
active stream or not strictly later in the role's order, nothing changes (`Ok` resp.
`Err(SequenceError)`); if `s'` is strictly later, the buffered stream bytes are discarded, state
`Stream` is demoted to `Skip` (the rest of the current record's payload is skipped — exactly
`payload_rem + padding_rem` bytes, `rem_midrecord`; nothing at a record boundary, where a held-back
header is re-dispatched under `s'`, `rem_boundary`), and what is still to come under `s'` is
`switchRef` of what was still to come under the old stream, **over the same bytes**
(`ref_switch`): the replies owed stay owed; if the old stream's reference ends at an end mark the
new stream's reference runs from that header on, otherwise it ends where the old one ends.

Since the roles have at most two input streams, a legal history whose `set_stream` calls all name a
stream (`SetSome`) either never changes the active stream (`NoSwitch`, covered by `ops_refS` — all
theorems of `C03StrInv` extend) or has the shape `A ++ [set_stream(s')] ++ B` with exactly one
effective switch (`history_shape`).  For that shape:

* `two_phase_ledger` — the conserved quantities over both phases;
* `phase_prefix_sim` — whatever was fed: phase-1 bytes are a prefix of `(refWire E w).content`,
  phase-2 bytes a prefix of `(switchRef E' (refWire E w)).content`, the replies of both phases
  together a prefix of `(switchRef E' (refWire E w)).out`; no panic;
* `phase_drained_outcome` — drained: replies, next report, unread remainder ARE those of
  `switchRef E' (refWire E w)`; phase-2 bytes are its content; phase-1 bytes are all of
  `(refWire E w).content` if the switch happened at end-of-stream (`phase1_complete`);
* `set_chunk_invariance` — two such histories over the same bytes agree on the outcome and on the
  phase-2 stream bytes **wherever the two switches happen** — at end-of-stream, or early after any
  number of consumed bytes, mid-record or not, whatever was buffered at the time
  (`early_switch_invariance`): the early-switch statement is TRUE, there is no `_full_false` here.
  What does depend on the caller is, by definition, how much of the old stream it took before
  switching (always a prefix of the reference content of phase 1).

Restrictions kept visible: `set_stream(None)` (`SetSome`), active stream `some s` at the start.
-/
namespace Fcgi.C03SS
open Fcgi Fcgi.Str Fcgi.Spec Fcgi.C03SI
open Fcgi.Req (Request PErr)

/-! ## Shape of histories with `set_stream` -/

/-- Every `set_stream` call names a stream (`set_stream(None)` is not covered). -/
def SetSome (ops : List Op) : Prop := ∀ st, Op.setStream st ∈ ops → ∃ s', st = some s'

/-- **At most one effective switch.**  A history whose `set_stream` calls all name a stream either
never changes the active stream, or splits at its first effective switch into a part without
switch under `E` and a part without switch under the new stream. -/
theorem history_shape (E : Cfg) : ∀ (ops : List Op), SetSome ops →
    NoSwitch E ops ∨ ∃ A s' B, ops = A ++ [.setStream (some s')] ++ B ∧ NoSwitch E A ∧
      Later E.role (some E.s) s' ∧ NoSwitch (E.withStream s') B := by
  intro ops
  induction ops with
  | nil => intro _; exact Or.inl (fun st h => by cases h)
  | cons op t ih =>
    intro hs
    have hs' : SetSome t := fun st h => hs st (List.mem_cons_of_mem _ h)
    have cons_keep : (∀ st, op = .setStream st → ∃ s', st = some s' ∧ ¬ Later E.role (some E.s) s') →
        NoSwitch E (op :: t) ∨ ∃ A s' B, op :: t = A ++ [.setStream (some s')] ++ B ∧ NoSwitch E A ∧
          Later E.role (some E.s) s' ∧ NoSwitch (E.withStream s') B := by
      intro hop
      have hA : ∀ {A : List Op}, NoSwitch E A → NoSwitch E (op :: A) := by
        intro A hA st hm
        simp only [List.mem_cons] at hm
        rcases hm with h | h
        · exact hop st h.symm
        · exact hA st h
      rcases ih hs' with h | ⟨A, s', B, rfl, h1, h2, h3⟩
      · exact Or.inl (hA h)
      · exact Or.inr ⟨op :: A, s', B, by simp, hA h1, h2, h3⟩
    cases op with
    | setStream st =>
      obtain ⟨s', rfl⟩ := hs st List.mem_cons_self
      by_cases hl : Later E.role (some E.s) s'
      · refine Or.inr ⟨[], s', t, rfl, fun st h => (by cases h), hl, ?_⟩
        intro st hm
        obtain ⟨t', rfl⟩ := hs' st hm
        exact ⟨t', rfl, later_final hl t'⟩
      · exact cons_keep (fun st h => by cases h; exact ⟨s', rfl, hl⟩)
    | parse new dest => exact cons_keep (fun st h => by cases h)
    | consumeStream amt => exact cons_keep (fun st h => by cases h)
    | compress => exact cons_keep (fun st h => by cases h)
    | consumeOutput amt => exact cons_keep (fun st h => by cases h)

/-! ## (a) One `set_stream` call -/

/-- **`set_stream_phase`** (re-export of `Str.set_stream_phase`, see there). -/
theorem set_stream_phase {E : Cfg} {p : Parser} (hm : Match E p) (hinv : SInv p) {s' : Nat}
    (hleg : Legal p (.setStream (some s'))) :
    (¬ Later E.role (some E.s) s' ∧ applyOp p (.setStream (some s')) = p) ∨
    (Later E.role (some E.s) s' ∧
      Match (E.withStream s') (applyOp p (.setStream (some s'))) ∧
      SInv (applyOp p (.setStream (some s'))) ∧
      (applyOp p (.setStream (some s'))).output = p.output ∧
      (applyOp p (.setStream (some s'))).parsed = [] ∧
      (applyOp p (.setStream (some s'))).raw = p.raw ∧
      (applyOp p (.setStream (some s'))).pay = p.pay ∧
      (applyOp p (.setStream (some s'))).pad = p.pad ∧
      (applyOp p (.setStream (some s'))).state = demote p.state ∧
      ∀ fut, Rem (E.withStream s') (applyOp p (.setStream (some s'))) fut =
        switchRef (E.withStream s') (Rem E p fut)) :=
  Str.set_stream_phase hm hinv hleg

/-- "Minus exactly the bytes the demotion skips": after an effective switch, with the rest of the
current record available, the new stream's reference is its reference at the next record boundary,
`payload_rem + padding_rem` bytes further on (preceded by the reply a GetValues body still owes);
at a record boundary that is: from the first unconsumed byte — a held-back header stays and is
re-dispatched. -/
theorem switch_skips_exactly {E : Cfg} {p : Parser} (hm : Match E p) (hinv : SInv p) {s' : Nat}
    (hleg : Legal p (.setStream (some s'))) (hl : Later E.role (some E.s) s') (fut : Bytes)
    (hw : p.pay + p.pad ≤ (p.raw ++ fut).length) :
    Rem (E.withStream s') (applyOp p (.setStream (some s'))) fut =
      (refWire (E.withStream s') ((p.raw ++ fut).drop (p.pay + p.pad))).pre []
        (stateO E.mc p.state ((p.raw ++ fut).take p.pay)) := by
  rcases Str.set_stream_phase hm hinv hleg with ⟨h, -⟩ | ⟨-, -, -, -, -, e1, e2, e3, e4, -⟩
  · exact absurd hl h
  · have hst : (applyOp p (.setStream (some s'))).state ≠ .stream := by
      rw [e4]; cases p.state <;> simp [demote]
    have := rem_midrecord (E.withStream s') hst fut (by rw [e1, e2, e3]; exact hw)
    rw [e1, e2, e3, e4, stateO_demote] at this
    exact this

/-! ## (b) Two phases -/

/-- The hypotheses on a history with one effective switch: `A`, then `set_stream(Some(s'))` with
`s'` strictly later than `E.s`, then `B`. -/
structure TwoPhase (E : Cfg) (p0 : Parser) (A : List Op) (s' : Nat) (B : List Op) : Prop where
  legal : LegalAll p0 (A ++ [.setStream (some s')] ++ B)
  nsA : NoSwitch E A
  later : Later E.role (some E.s) s'
  nsB : NoSwitch (E.withStream s') B

/-- The parser after phase 1, after the switch. -/
def afterA (p0 : Parser) (A : List Op) : Parser := applyOps p0 A
def afterSwitch (p0 : Parser) (A : List Op) (s' : Nat) : Parser :=
  applyOp (applyOps p0 A) (.setStream (some s'))

theorem applyOps_twoPhase (p0 : Parser) (A : List Op) (s' : Nat) (B : List Op) :
    applyOps p0 (A ++ [.setStream (some s')] ++ B) = applyOps (afterSwitch p0 A s') B := by
  rw [applyOps_append, applyOps_append]; rfl

theorem fedBytes_twoPhase (A : List Op) (s' : Nat) (B : List Op) :
    fedBytes (A ++ [.setStream (some s')] ++ B) = fedBytes A ++ fedBytes B := by
  rw [C02.fedBytes_append, C02.fedBytes_append]; simp [fedBytes]

theorem grownAll_twoPhase (p0 : Parser) (A : List Op) (s' : Nat) (B : List Op) :
    C03S.grownAll p0 (A ++ [.setStream (some s')] ++ B) =
      C03S.grownAll p0 A ++ C03S.grownAll (afterSwitch p0 A s') B := by
  rw [grownAll_append, grownAll_append, applyOps_append]
  simp [C03S.grownAll, C03S.outGrowth, afterSwitch]

/-- **The ledger over both phases.**  `T1` = the old stream's reference on all the bytes (fed in
either phase, followed by any `x`); `T2 = switchRef E' T1` = the new stream's.  `lostA`, `lostB`:
bytes a call that returned `Err` had written into its `dest` (as in `C03StrInv`). -/
theorem two_phase_ledger {E : Cfg} {p0 : Parser} (h0 : Start E p0) {A B : List Op} {s' : Nat}
    (h : TwoPhase E p0 A s' B) (x : Bytes) :
    ∃ lostA lostB,
      Match (E.withStream s') (applyOps p0 (A ++ [.setStream (some s')] ++ B)) ∧
      SInv (applyOps p0 (A ++ [.setStream (some s')] ++ B)) ∧
      -- phase 1
      availOps p0 A ++ lostA ++ (Rem E (afterA p0 A) (fedBytes B ++ x)).content =
        (refWire E (p0.raw ++ (fedBytes A ++ fedBytes B) ++ x)).content ∧
      (FirstErrInternal p0 A → lostA = []) ∧
      -- phase 2
      availOps (afterSwitch p0 A s') B ++ lostB ++
          (Rem (E.withStream s') (applyOps p0 (A ++ [.setStream (some s')] ++ B)) x).content =
        (switchRef (E.withStream s') (refWire E (p0.raw ++ (fedBytes A ++ fedBytes B) ++ x))).content ∧
      (FirstErrInternal (afterSwitch p0 A s') B → lostB = []) ∧
      -- replies of both phases, verdict, unread remainder
      C03S.grownAll p0 (A ++ [.setStream (some s')] ++ B) ++
          (Rem (E.withStream s') (applyOps p0 (A ++ [.setStream (some s')] ++ B)) x).out =
        (switchRef (E.withStream s') (refWire E (p0.raw ++ (fedBytes A ++ fedBytes B) ++ x))).out ∧
      (Rem (E.withStream s') (applyOps p0 (A ++ [.setStream (some s')] ++ B)) x).verdict =
        (switchRef (E.withStream s') (refWire E (p0.raw ++ (fedBytes A ++ fedBytes B) ++ x))).verdict ∧
      (Rem (E.withStream s') (applyOps p0 (A ++ [.setStream (some s')] ++ B)) x).unread =
        (switchRef (E.withStream s') (refWire E (p0.raw ++ (fedBytes A ++ fedBytes B) ++ x))).unread := by
  obtain ⟨hlAS, hlB⟩ := C02.LegalAll_append.1 h.legal
  obtain ⟨hlA, hlS, -⟩ := C02.LegalAll_append.1 hlAS
  rw [applyOps_append] at hlB
  -- phase 1
  obtain ⟨lostA, mA, iA, cA, oA, vA, uA, nA⟩ :=
    ops_refS (E := E) (x := fedBytes B ++ x) A p0 h0.mtch h0.inv hlA h.nsA
  rw [rem_start h0, ← List.append_assoc, ← List.append_assoc, List.append_assoc p0.raw] at cA oA vA uA
  -- the switch
  rcases Str.set_stream_phase mA iA hlS with ⟨hn, -⟩ | ⟨-, mS, iS, -, -, -, -, -, -, hrem⟩
  · exact absurd h.later hn
  obtain ⟨s1, s2, s3, s4⟩ := switchRef_congr (E.withStream s') oA vA uA
  rw [← hrem] at s1 s2 s3 s4
  -- phase 2
  obtain ⟨lostB, mB, iB, cB, oB, vB, uB, nB⟩ :=
    ops_refS (E := E.withStream s') (x := x) B _ mS iS hlB h.nsB
  rw [applyOps_twoPhase]
  refine ⟨lostA, lostB, mB, iB, cA, nA, cB.trans s2, nB, ?_, vB.trans s3, uB.trans s4⟩
  rw [grownAll_twoPhase, List.append_assoc]
  show C03S.grownAll p0 A ++ (C03S.grownAll (applyOp (applyOps p0 A) (.setStream (some s'))) B ++
    (Rem (E.withStream s') (applyOps (applyOp (applyOps p0 A) (.setStream (some s'))) B) x).out) = _
  rw [oB]
  exact s1

/-- **Prefix simulation with a stream switch.**  Whatever prefix of `w` has been fed: no call
panics; the stream bytes made available in phase 1 are a prefix of the old stream's reference
content of `w`; those of phase 2 a prefix of the new stream's; the replies of both phases together
a prefix of the reference replies. -/
theorem phase_prefix_sim {E : Cfg} {p0 : Parser} (h0 : Start E p0) {A B : List Op} {s' : Nat}
    (h : TwoPhase E p0 A s' B) (w : Bytes)
    (hfed : p0.raw ++ fedBytes (A ++ [.setStream (some s')] ++ B) <+: w) :
    ¬ PanicsAny p0 (A ++ [.setStream (some s')] ++ B) ∧
    availOps p0 A <+: (refWire E w).content ∧
    availOps (afterSwitch p0 A s') B <+: (switchRef (E.withStream s') (refWire E w)).content ∧
    C03S.grownAll p0 (A ++ [.setStream (some s')] ++ B) <+:
      (switchRef (E.withStream s') (refWire E w)).out := by
  obtain ⟨x, hx⟩ := hfed
  rw [fedBytes_twoPhase] at hx
  obtain ⟨lostA, lostB, -, -, cA, -, cB, -, o, -, -⟩ := two_phase_ledger h0 h x
  rw [hx] at cA cB o
  refine ⟨(trace_safe h0.inv h.legal).2, ⟨_, by rw [← cA, List.append_assoc]⟩,
    ⟨_, by rw [← cB, List.append_assoc]⟩, ⟨_, o⟩⟩

/-- The reference outcome of a history with a switch to `s'`. -/
def refOutcome2 (E : Cfg) (s' : Nat) (w : Bytes) : Outcome :=
  ⟨(switchRef (E.withStream s') (refWire E w)).out,
   verdictRes (switchRef (E.withStream s') (refWire E w)).verdict,
   (switchRef (E.withStream s') (refWire E w)).unread⟩

/-- **Exactness with a stream switch.**  Once the history has processed everything it fed
(`Drained`): all replies generated in both phases, the report of the next call and the unread
remainder ARE those of `switchRef E' (refWire E w)`, `w` = the bytes fed in both phases; the stream
bytes made available in phase 2 are its content (up to `lostB`); those of phase 1 are a prefix of
`(refWire E w).content`. -/
theorem phase_drained_outcome {E : Cfg} {p0 : Parser} (h0 : Start E p0) {A B : List Op} {s' : Nat}
    (h : TwoPhase E p0 A s' B)
    (hdr : Drained (applyOps p0 (A ++ [.setStream (some s')] ++ B))) :
    outcome p0 (A ++ [.setStream (some s')] ++ B) =
      refOutcome2 E s' (p0.raw ++ fedBytes (A ++ [.setStream (some s')] ++ B)) ∧
    (∃ lostB, availOps (afterSwitch p0 A s') B ++ lostB =
        (switchRef (E.withStream s')
          (refWire E (p0.raw ++ fedBytes (A ++ [.setStream (some s')] ++ B)))).content ∧
      (FirstErrInternal (afterSwitch p0 A s') B → lostB = [])) ∧
    availOps p0 A <+: (refWire E (p0.raw ++ fedBytes (A ++ [.setStream (some s')] ++ B))).content := by
  obtain ⟨lostA, lostB, m, i, cA, -, cB, nB, o, v, u⟩ := two_phase_ledger h0 h []
  rw [fedBytes_twoPhase]
  simp only [List.append_nil] at cA cB o v u
  obtain ⟨vv, hr, hvi⟩ := ref_terminal (drained_terminal m i hdr)
  have hrem : Rem (E.withStream s') (applyOps p0 (A ++ [.setStream (some s')] ++ B)) [] =
      ⟨[], [], vv, (applyOps p0 (A ++ [.setStream (some s')] ++ B)).raw⟩ := by
    simp only [Rem, List.append_nil]; exact hr
  rw [hrem] at cB o v u
  simp only [List.append_nil] at cB o v u
  have hpr := probe_drained m i hdr hvi
  refine ⟨?_, ⟨lostB, cB, nB⟩, ⟨_, by rw [← cA, List.append_assoc]⟩⟩
  simp only [outcome, refOutcome2, o, hpr, v, u]

/-- At the switch, everything fed so far was processed and the parser stands at the end of the old
stream (the next call would report `stream_end` and nothing else): the well-behaved caller. -/
def AtEnd (p : Parser) : Prop := Drained p ∧ (p.parse [] none).2 = verdictRes .eos

instance (p : Parser) : Decidable (AtEnd p) := inferInstanceAs (Decidable (_ ∧ _))

theorem atEnd_stop {E : Cfg} {p : Parser} (hm : Match E p) (hinv : SInv p) (h : AtEnd p) :
    p.pay = 0 ∧ p.pad = 0 ∧ AtStopHdr E p.raw .eos := by
  obtain ⟨hd, hp⟩ := h
  obtain ⟨v, -, hvi⟩ := ref_terminal (drained_terminal hm hinv hd)
  have := probe_drained hm hinv hd hvi
  rw [hp] at this
  have hv : v = .eos := by
    cases v with
    | more => simp [verdictRes] at this
    | eos => rfl
    | err e => simp [verdictRes] at this
  subst hv
  rcases hvi with ⟨a, b, c⟩ | ⟨hx, -⟩
  · exact ⟨b, c, a⟩
  · cases hx

/-- **Phase 1 complete.**  If the switch happens at the end of the old stream, the stream bytes
made available in phase 1 are ALL of the old stream's reference content (given no `Err` into a
`dest`), whatever follows; and the new stream's reference starts at the held-back header:
`T2 = (refWire E' T1.unread).pre [] T1.out`. -/
theorem phase1_complete {E : Cfg} {p0 : Parser} (h0 : Start E p0) {A B : List Op} {s' : Nat}
    (h : TwoPhase E p0 A s' B) (hend : AtEnd (afterA p0 A)) (x : Bytes) :
    (refWire E (p0.raw ++ (fedBytes A ++ fedBytes B) ++ x)).verdict = .eos ∧
    (∃ lostA, availOps p0 A ++ lostA =
        (refWire E (p0.raw ++ (fedBytes A ++ fedBytes B) ++ x)).content ∧
      (FirstErrInternal p0 A → lostA = [])) ∧
    (ErrFree p0 A → deliveredOps p0 A =
      (refWire E (p0.raw ++ (fedBytes A ++ fedBytes B) ++ x)).content) ∧
    switchRef (E.withStream s') (refWire E (p0.raw ++ (fedBytes A ++ fedBytes B) ++ x)) =
      (refWire (E.withStream s')
        (refWire E (p0.raw ++ (fedBytes A ++ fedBytes B) ++ x)).unread).pre []
        (refWire E (p0.raw ++ (fedBytes A ++ fedBytes B) ++ x)).out := by
  obtain ⟨hlAS, -⟩ := C02.LegalAll_append.1 h.legal
  obtain ⟨hlA, -, -⟩ := C02.LegalAll_append.1 hlAS
  obtain ⟨lostA, mA, iA, cA, -, vA, -, nA⟩ :=
    ops_refS (E := E) (x := fedBytes B ++ x) A p0 h0.mtch h0.inv hlA h.nsA
  rw [rem_start h0, ← List.append_assoc, ← List.append_assoc, List.append_assoc p0.raw] at cA vA
  obtain ⟨a, b, c⟩ := atEnd_stop mA iA hend
  have hrem : Rem E (applyOps p0 A) (fedBytes B ++ x) =
      ⟨[], [], .eos, (applyOps p0 A).raw ++ (fedBytes B ++ x)⟩ := by
    simp only [Rem, a, b]; exact ref_atStop c _ _
  rw [hrem] at cA vA
  simp only [List.append_nil] at cA vA
  refine ⟨vA.symm, ⟨lostA, cA, nA⟩, fun hef => ?_, ?_⟩
  · rw [delivered_eq_avail h0.inv hlA hef, ← cA, nA hef.firstErrInternal, List.append_nil]
  · simp only [switchRef, ← vA]
    rw [ref_eq_refWire]

/-! ## (c) Chunk invariance with a stream switch — including early switches -/

/-- **C03, stream parser, with `set_stream`: chunk invariance.**  Two legal histories from the
same state that feed the same bytes, each with one effective switch to the same stream `s'` —
placed ANYWHERE: at end-of-stream or early, after any number of delivered bytes, mid-record or at
a boundary, with any amount buffered — and that have both processed what they fed, agree on: all
replies generated (both phases), the outcome of the next call (the specific fatal error,
`stream_end`, or neither), the unread remainder; and on the stream bytes made available in phase 2
unless the first `Err` of phase 2 was returned by a call into a `dest`.  The stream bytes of
phase 1 are, in both, prefixes of the same reference content. -/
theorem set_chunk_invariance {E : Cfg} {p0 : Parser} (h0 : Start E p0) {A₁ B₁ A₂ B₂ : List Op}
    {s' : Nat} (h₁ : TwoPhase E p0 A₁ s' B₁) (h₂ : TwoPhase E p0 A₂ s' B₂)
    (hfed : fedBytes A₁ ++ fedBytes B₁ = fedBytes A₂ ++ fedBytes B₂)
    (hd₁ : Drained (applyOps p0 (A₁ ++ [.setStream (some s')] ++ B₁)))
    (hd₂ : Drained (applyOps p0 (A₂ ++ [.setStream (some s')] ++ B₂))) :
    outcome p0 (A₁ ++ [.setStream (some s')] ++ B₁) =
      outcome p0 (A₂ ++ [.setStream (some s')] ++ B₂) ∧
    (FirstErrInternal (afterSwitch p0 A₁ s') B₁ → FirstErrInternal (afterSwitch p0 A₂ s') B₂ →
      availOps (afterSwitch p0 A₁ s') B₁ = availOps (afterSwitch p0 A₂ s') B₂) ∧
    (availOps p0 A₁ <+: availOps p0 A₂ ∨ availOps p0 A₂ <+: availOps p0 A₁) := by
  obtain ⟨a1, ⟨l1, a2, a3⟩, a4⟩ := phase_drained_outcome h0 h₁ hd₁
  obtain ⟨b1, ⟨l2, b2, b3⟩, b4⟩ := phase_drained_outcome h0 h₂ hd₂
  rw [fedBytes_twoPhase] at a1 a2 a4 b1 b2 b4
  rw [← hfed] at b1 b2 b4
  refine ⟨a1.trans b1.symm, fun n1 n2 => ?_, List.prefix_or_prefix_of_prefix a4 b4⟩
  have e1 := a3 n1
  have e2 := b3 n2
  subst e1 e2
  rw [List.append_nil] at a2 b2
  exact a2.trans b2.symm

/-- **Early switches**, in the words of the question: the outcome depends only on the bytes and on
the target stream — not on the chunking, and not even on the number `n` of stream bytes the
caller had consumed when it switched. -/
theorem early_switch_invariance {E : Cfg} {p0 : Parser} (h0 : Start E p0) {A B : List Op} {s' : Nat}
    (h : TwoPhase E p0 A s' B) (hdr : Drained (applyOps p0 (A ++ [.setStream (some s')] ++ B))) :
    outcome p0 (A ++ [.setStream (some s')] ++ B) =
      refOutcome2 E s' (p0.raw ++ (fedBytes A ++ fedBytes B)) := by
  have := (phase_drained_outcome h0 h hdr).1
  rwa [fedBytes_twoPhase] at this

/-- The well-behaved caller (each switch at end-of-stream): additionally the stream bytes of
phase 1 agree — they are all of the old stream's content. -/
theorem set_chunk_invariance_at_end {E : Cfg} {p0 : Parser} (h0 : Start E p0)
    {A₁ B₁ A₂ B₂ : List Op} {s' : Nat} (h₁ : TwoPhase E p0 A₁ s' B₁) (h₂ : TwoPhase E p0 A₂ s' B₂)
    (hfed : fedBytes A₁ ++ fedBytes B₁ = fedBytes A₂ ++ fedBytes B₂)
    (he₁ : AtEnd (afterA p0 A₁)) (he₂ : AtEnd (afterA p0 A₂))
    (hf₁ : FirstErrInternal p0 A₁) (hf₂ : FirstErrInternal p0 A₂) :
    availOps p0 A₁ = availOps p0 A₂ := by
  obtain ⟨-, ⟨l1, a2, a3⟩, -, -⟩ := phase1_complete h0 h₁ he₁ []
  obtain ⟨-, ⟨l2, b2, b3⟩, -, -⟩ := phase1_complete h0 h₂ he₂ []
  have e1 := a3 hf₁
  have e2 := b3 hf₂
  subst e1 e2
  rw [List.append_nil] at a2 b2
  rw [← hfed] at b2
  exact a2.trans b2.symm


/-! ## Histories whose `set_stream` calls never change the active stream -/

/-- `drained_outcome` of `C03StrInv` with `set_stream` calls that are no-ops or rejected. -/
theorem noSwitch_drained_outcome {E : Cfg} {p0 : Parser} (h0 : Start E p0) (ops : List Op)
    (hl : LegalAll p0 ops) (hns : NoSwitch E ops) (hdr : Drained (applyOps p0 ops)) :
    outcome p0 ops = refOutcome E (p0.raw ++ fedBytes ops) ∧
    (∃ lost, availOps p0 ops ++ lost = (refWire E (p0.raw ++ fedBytes ops)).content ∧
      (FirstErrInternal p0 ops → lost = [])) := by
  obtain ⟨lost, m, i, hc, ho, hv, hu, hn⟩ :=
    ops_refS (E := E) (x := []) ops p0 h0.mtch h0.inv hl hns
  rw [rem_start h0, List.append_nil] at hc ho hv hu
  obtain ⟨v, hr, hvi⟩ := ref_terminal (drained_terminal m i hdr)
  have hrem : Rem E (applyOps p0 ops) [] = ⟨[], [], v, (applyOps p0 ops).raw⟩ := by
    simp only [Rem, List.append_nil]; exact hr
  rw [hrem] at hc ho hv hu
  simp only [List.append_nil] at hc ho hv hu
  have hpr := probe_drained m i hdr hvi
  refine ⟨?_, ⟨lost, hc, hn⟩⟩
  simp only [outcome, refOutcome, ho, hpr, hv, hu]

/-- **Every legal history with `set_stream(Some(_))` calls**, drained: its outcome is the
reference outcome of the bytes fed — of the start stream if no call changed the active stream, of
the one switch otherwise.  (Chunk invariance for all such histories follows: the right-hand sides
depend on the bytes and on whether / to which stream the caller switched, on nothing else.) -/
theorem setSome_drained_outcome {E : Cfg} {p0 : Parser} (h0 : Start E p0) (ops : List Op)
    (hl : LegalAll p0 ops) (hs : SetSome ops) (hdr : Drained (applyOps p0 ops)) :
    (NoSwitch E ops ∧ outcome p0 ops = refOutcome E (p0.raw ++ fedBytes ops)) ∨
    (∃ A s' B, ops = A ++ [.setStream (some s')] ++ B ∧ TwoPhase E p0 A s' B ∧
      outcome p0 ops = refOutcome2 E s' (p0.raw ++ fedBytes ops)) := by
  rcases history_shape E ops hs with h | ⟨A, s', B, rfl, h1, h2, h3⟩
  · exact Or.inl ⟨h, (noSwitch_drained_outcome h0 ops hl h hdr).1⟩
  · have ht : TwoPhase E p0 A s' B := ⟨hl, h1, h2, h3⟩
    exact Or.inr ⟨A, s', B, rfl, ht, (phase_drained_outcome h0 ht hdr).1⟩

/-! ## Concrete instances (non-vacuity): a Filter request, `Stdin` then `Data`, hostile input -/

section Examples

def fReq : Request := { id := 1, role := 3, flags := 0, env := [] }
/-- A fresh parser (`Stdin` active), 160-byte buffer. -/
def fP : Parser := Parser.fromParser 160 fReq [] 10
def fE : Cfg := ⟨1, 3, 5, 10⟩
theorem fStart : Start fE fP := start_fresh 160 fReq [] 10 (by decide) (by decide) (Or.inr rfl)

def fRecs : List Rec :=
  [{ rtype := 5, id := 1, content := [65, 66, 67, 68], pad := [0, 0] },     -- Stdin "ABCD"
   { rtype := 200, id := 7, content := [1, 2, 3], pad := [] },              -- unknown type 200
   { rtype := 5, id := 1, content := [69, 70], pad := [] },                 -- Stdin "EF"
   { rtype := 5, id := 1, content := [], pad := [0] },                      -- end of Stdin
   C02.exNoise,                                                             -- management GetValues
   { rtype := 8, id := 1, content := [88, 89], pad := [0, 0] },             -- Data "XY"
   { rtype := 5, id := 1, content := [90, 90], pad := [] },                 -- own-id Stdin AFTER its end
   { rtype := 1, id := 9, content := [0, 1, 0, 0, 0, 0, 0, 0], pad := [] }, -- foreign BeginRequest
   { rtype := 8, id := 1, content := [90], pad := [] },                     -- Data "Z"
   { rtype := 2, id := 1, content := [], pad := [] }]                       -- AbortRequest
def fWire : Bytes := serAll fRecs ++ [9, 9]

example : fWire.length = 133 := by decide +kernel

/-- The reference, phase by phase: `Stdin` carries "ABCDEF", one reply, and ends at its empty
record (record 3); `Data` from there carries "XYZ" — the late own-id `Stdin` record is a record of
an earlier stream now, skipped —, two more replies, and fails in front of the `AbortRequest`. -/
example : refRun fE fRecs = ⟨[65, 66, 67, 68, 69, 70], UnknownType.toRecord 200 7, .endOfStream 3⟩ ∧
    (switchRef (fE.withStream 8) (refWire fE fWire)).content = [88, 89, 90] ∧
    (switchRef (fE.withStream 8) (refWire fE fWire)).verdict = .err .abortRequest ∧
    (switchRef (fE.withStream 8) (refWire fE fWire)).unread = [1, 2, 0, 1, 0, 0, 0, 0, 9, 9] ∧
    (switchRef (fE.withStream 8) (refWire fE fWire)).out =
      UnknownType.toRecord 200 7 ++ owed (some 1) 10 C02.exNoise ++
        EndRequest.toRecord { appStatus := 0, protocolStatus := 1 } 9 := by decide +kernel

/-- Schedule 1, the well-behaved caller: everything at once into the internal buffer (reports
`stream_end`), take the 6 bytes, switch to `Data`, ask again. -/
def fA1 : List Op := [.parse fWire none, .consumeStream 6]
def fB1 : List Op := [.parse [] none]
/-- Schedule 2, an EARLY switch: 11 bytes into a 2-byte `dest` ("AB" delivered, the parser stands
mid-record: 2 payload + 2 padding bytes to go), switch to `Data` right there, then the rest in
pieces through 1-byte `dest`s, with compaction and flushing. -/
def fA2 : List Op := [.parse (fWire.take 11) (some 2)]
def fB2 : List Op :=
  [.parse ((fWire.drop 11).take 40) (some 1), .compress, .consumeOutput 5,
   .parse ((fWire.drop 51).take 40) (some 1), .parse [] (some 1), .parse (fWire.drop 91) none,
   .consumeStream 5, .parse [] (some 4)]

theorem fTwo1 : TwoPhase fE fP fA1 8 fB1 :=
  ⟨by decide +kernel, fun st h => by simp [fA1] at h, by decide, fun st h => by simp [fB1] at h⟩
theorem fTwo2 : TwoPhase fE fP fA2 8 fB2 :=
  ⟨by decide +kernel, fun st h => by simp [fA2] at h, by decide, fun st h => by simp [fB2] at h⟩
theorem fFed : fedBytes fA1 ++ fedBytes fB1 = fedBytes fA2 ++ fedBytes fB2 := by decide +kernel
theorem fDr1 : Drained (applyOps fP (fA1 ++ [.setStream (some 8)] ++ fB1)) := by decide +kernel
theorem fDr2 : Drained (applyOps fP (fA2 ++ [.setStream (some 8)] ++ fB2)) := by decide +kernel

/-- The early switch happens mid-record in state `Stream`; it is demoted to `Skip`, position kept. -/
example : (afterA fP fA2).state = .stream ∧ (afterA fP fA2).pay = 2 ∧ (afterA fP fA2).pad = 2 ∧
    (afterSwitch fP fA2 8).state = .skip ∧ (afterSwitch fP fA2 8).pay = 2 ∧
    (afterSwitch fP fA2 8).pad = 2 ∧ (afterSwitch fP fA2 8).stream = some 8 ∧
    AtEnd (afterA fP fA1) ∧ ¬ AtEnd (afterA fP fA2) := by decide +kernel

/-- The theorem on the instance: same outcome, same `Data` bytes … -/
example : outcome fP (fA1 ++ [.setStream (some 8)] ++ fB1) =
      outcome fP (fA2 ++ [.setStream (some 8)] ++ fB2) ∧
    availOps (afterSwitch fP fA1 8) fB1 = availOps (afterSwitch fP fA2 8) fB2 := by
  have h := set_chunk_invariance fStart fTwo1 fTwo2 fFed fDr1 fDr2
  exact ⟨h.1, h.2.1 (by decide +kernel) (by decide +kernel)⟩

example : outcome fP (fA2 ++ [.setStream (some 8)] ++ fB2) = refOutcome2 fE 8 fWire := by
  have := early_switch_invariance fStart fTwo2 fDr2
  rwa [show fP.raw ++ (fedBytes fA2 ++ fedBytes fB2) = fWire by decide +kernel] at this

/-- … and computed: the three replies, `Err(AbortRequest)` next, the `AbortRequest` record unread;
`Data` delivered "XYZ" in both; of `Stdin` the first caller took all six bytes, the second two. -/
example : outcome fP (fA1 ++ [.setStream (some 8)] ++ fB1) =
      ⟨UnknownType.toRecord 200 7 ++ owed (some 1) 10 C02.exNoise ++
        EndRequest.toRecord { appStatus := 0, protocolStatus := 1 } 9,
       .err .abortRequest, [1, 2, 0, 1, 0, 0, 0, 0, 9, 9]⟩ ∧
    availOps (afterSwitch fP fA1 8) fB1 = [88, 89, 90] ∧
    availOps (afterSwitch fP fA2 8) fB2 = [88, 89, 90] ∧
    availOps fP fA1 = [65, 66, 67, 68, 69, 70] ∧ availOps fP fA2 = [65, 66] := by decide +kernel

/-- `phase1_complete` on schedule 1: all of `Stdin` was made available. -/
example : ∃ lostA, availOps fP fA1 ++ lostA = (refWire fE fWire).content ∧
    (FirstErrInternal fP fA1 → lostA = []) := by
  have := (phase1_complete fStart fTwo1 (by decide +kernel) []).2.1
  rwa [show fP.raw ++ (fedBytes fA1 ++ fedBytes fB1) ++ [] = fWire by decide +kernel] at this

/-- Going backwards is rejected and changes nothing (`NoSwitch`): `set_stream(Stdin)` while
`Data` is active, in the middle of phase 2. -/
example : applyOp (afterSwitch fP fA1 8) (.setStream (some 5)) = afterSwitch fP fA1 8 ∧
    (match (afterSwitch fP fA1 8).setStream (some 5) with | .rejected => true | _ => false) = true := by
  decide +kernel

end Examples

end Fcgi.C03SS
