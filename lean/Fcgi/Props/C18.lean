import Fcgi.Proofs.StrBasics
/-!
# C18 — Input stream sequencing follows the role's order exactly

Over the literal model of `parser/stream.rs` (`Model/StreamParser.lean`) and the role tables of
`protocol/fields.rs` (`Model/Header.lean`, tied to the source by `Gen/Tables.lean` through C17).

* `tables`, `next_is_find_then_next` — the role tables;
* `cmp_table`, `cmp_*_iff` — `cmp_input_streams` as a comparison of positions (`rankOf`);
* `setStream_accept_iff`, `setStream_rejected_unchanged`, `setStream_same_keeps`,
  `setStream_changed` — `set_stream` accepts exactly "same or strictly later";
* `active_mono`, `none_absorbing` (+ trace versions) — the active stream only moves forward;
* `only_active_delivered`, `head_activates`, `held_back` — only the active stream's payload is
  delivered; a header of a later stream (or the empty end record) is held back.
-/
namespace Fcgi.C18
open Fcgi Fcgi.Str
open Fcgi.Req (Request PErr)

/-! ## B.6 Tables -/

/-- The role tables of the model are the ones of the source (re-exported from C17). -/
theorem tables :
    (Gen.inputStreamsTable.map (·.1) = [1, 2, 3]) ∧
    (∀ r ∈ [1, 2, 3], Gen.inputStreamsTable.lookup r = some (inputStreams r) ∧
      outputStreams r = Gen.outputStreams) ∧
    (∀ a ∈ Gen.nextInputStreamArms, nextInputStream a.1 a.2.1 = a.2.2) ∧
    (∀ r ∈ [1, 2, 3], ∀ c ∈ none :: (inputStreams r).map some,
      (∀ x, (r, c, x) ∉ Gen.nextInputStreamArms) → nextInputStream r c = none) ∧
    (∀ t, RT.isInputStream t = Gen.isInputStreamList.contains t) :=
  ⟨C17.tables_agree_streams.1, C17.tables_agree_streams.2, C17.tables_agree_nextInputStream.1,
   C17.tables_agree_nextInputStream.2, fun t => (C17.tables_agree_classes t).2.1⟩

/-- `Role::next_input_stream` is "find the current stream in `input_streams`, take the next":
for every role and every current value that can occur. -/
theorem next_is_find_then_next :
    ∀ r ∈ [1, 2, 3], ∀ cur ∈ none :: (inputStreams r).map some,
      nextInputStream r cur =
        (match cur with
         | none => (inputStreams r).head?
         | some c => ((inputStreams r).dropWhile (· != c)).tail.head?) := by decide

/-- In terms of positions: the next stream sits one position further, `None` past the end. -/
theorem next_rank :
    ∀ r ∈ [1, 2, 3], ∀ c ∈ inputStreams r,
      (nextInputStream r none = (inputStreams r)[0]?) ∧
      nextInputStream r (some c) = (inputStreams r)[rankOf r (some c) + 1]? := by decide

/-- A new stream parser starts at the first stream of its role. -/
theorem fromParser_stream (cap : Nat) (req : Request) (input : Bytes) (mc : Nat) :
    (Parser.fromParser cap req input mc).stream = nextInputStream req.role none := rfl

/-! ## B.7 `cmp_input_streams` -/

theorem cmp_table :
    (cmpInputStreams 1 5 none = some .lt ∧ cmpInputStreams 1 5 (some 5) = some .eq ∧
     cmpInputStreams 1 5 (some 8) = some .lt ∧ cmpInputStreams 1 8 none = some .lt ∧
     cmpInputStreams 1 8 (some 5) = some .lt ∧ cmpInputStreams 1 8 (some 8) = some .eq) ∧
    (cmpInputStreams 2 5 none = some .lt ∧ cmpInputStreams 2 5 (some 5) = some .eq ∧
     cmpInputStreams 2 5 (some 8) = some .lt ∧ cmpInputStreams 2 8 none = some .lt ∧
     cmpInputStreams 2 8 (some 5) = some .lt ∧ cmpInputStreams 2 8 (some 8) = some .eq) ∧
    (cmpInputStreams 3 5 none = some .lt ∧ cmpInputStreams 3 5 (some 5) = some .eq ∧
     cmpInputStreams 3 5 (some 8) = some .lt ∧ cmpInputStreams 3 8 none = some .lt ∧
     cmpInputStreams 3 8 (some 5) = some .gt ∧ cmpInputStreams 3 8 (some 8) = some .eq) := by
  decide

/-- `rankOf` on the three roles. -/
theorem rank_table :
    [1, 2, 3].map (fun r => (rankOf r (some 5), rankOf r (some 8), rankOf r none)) =
      [(0, 1, 1), (0, 0, 0), (0, 1, 2)] := by decide

theorem cmp_none (role recv : Nat) : cmpInputStreams role recv none = some .lt := rfl

/-- The debug assertions of `cmp_input_streams` fire iff one argument is not an input-stream type. -/
theorem cmp_panic_iff (role recv e : Nat) :
    cmpInputStreams role recv (some e) = none ↔
      (RT.isInputStream recv = false ∨ RT.isInputStream e = false) := Str.cmp_panic_iff role recv e

/-- For input-stream types, any role (also an invalid one): `Equal` iff same type; `Greater` iff
`recv` is in the role's list strictly after `e`; `Less` otherwise (earlier, or not in the role). -/
theorem cmp_char (role : Nat) {recv e : Nat} (hr : RT.isInputStream recv = true)
    (he : RT.isInputStream e = true) :
    (cmpInputStreams role recv (some e) = some .eq ↔ recv = e) ∧
    (cmpInputStreams role recv (some e) = some .gt ↔
      (rankOf role (some e) < rankOf role (some recv) ∧ recv ∈ inputStreams role)) ∧
    (cmpInputStreams role recv (some e) = some .lt ↔
      (recv ≠ e ∧ ¬ (rankOf role (some e) < rankOf role (some recv) ∧ recv ∈ inputStreams role))) := by
  have hmem : rankOf role (some recv) < rankOf role none ↔ recv ∈ inputStreams role :=
    List.idxOf_lt_length_iff
  refine ⟨cmp_eq_iff role hr he, ?_, ?_⟩
  · rw [cmp_gt_iff role hr he, Later, hmem]
  · rw [cmp_lt_iff role hr he, Later, hmem]

/-! ## B.8 `set_stream` -/

/-- `set_stream(None)` always succeeds. -/
theorem setStream_none_ok (p : Parser) : ∃ p', p.setStream none = .ok p' :=
  ⟨_, setStream_none p⟩

/-- For an input-stream type `s` (the active stream being `None` or an input-stream type, which
`SInv` guarantees): accepted iff `s` is the active stream or strictly later in the role's order;
otherwise rejected with `SequenceError`; never a panic. -/
theorem setStream_accept_iff {p : Parser} (hinv : SInv p) {s : Nat}
    (hs : RT.isInputStream s = true) :
    ((∃ p', p.setStream (some s) = .ok p') ↔
      (p.stream = some s ∨ Later p.request.role p.stream s)) ∧
    (¬ (p.stream = some s ∨ Later p.request.role p.stream s) → p.setStream (some s) = .rejected) := by
  have hcur : ∀ e, p.stream = some e → RT.isInputStream e = true := by
    intro e he
    obtain ⟨-, -, -, -, hst, -⟩ := hinv
    rcases hst with hst | ⟨x, hst, hm⟩
    · rw [hst] at he; cases he
    · rw [hst] at he; cases he; exact mem_inputStreams_isInput hm
  rw [setStream_some_input p hs hcur]
  by_cases h1 : p.stream = some s
  · simp [h1]
  · by_cases h2 : Later p.request.role p.stream s
    · simp [h1, h2]
    · simp [h1, h2]

/-- The same without `SInv`, the side condition spelled out. -/
theorem setStream_some_input_eq (p : Parser) {s : Nat} (hs : RT.isInputStream s = true)
    (hcur : ∀ e, p.stream = some e → RT.isInputStream e = true) :
    p.setStream (some s) =
      if p.stream = some s then .ok p
      else if Later p.request.role p.stream s then .ok (p.switchTo (some s))
      else .rejected := setStream_some_input p hs hcur

/-- `Later` unfolded: `s` is in the role's list and the active stream is a `Some` before it. -/
theorem later_iff (role : Nat) (cur : Option Nat) (s : Nat) :
    Later role cur s ↔ (rankOf role cur < rankOf role (some s) ∧ s ∈ inputStreams role) := by
  unfold Later
  rw [show rankOf role (some s) < rankOf role none ↔ s ∈ inputStreams role from
    List.idxOf_lt_length_iff]

theorem later_none (role s : Nat) : ¬ Later role none s := by unfold Later; omega

/-- A type that is not an input-stream type: `SequenceError` when the active stream is `None`,
otherwise the Rust debug assertion (`cmp_input_streams`) fires. -/
theorem setStream_nonInput (p : Parser) {s : Nat} (hs : RT.isInputStream s = false) :
    p.setStream (some s) =
      if p.stream = none then .rejected
      else .panic "stream.rs:66 debug_assert input stream type" := setStream_some_nonInput p hs

/-- `Err(SequenceError)` carries no parser (the `&mut self` is untouched): the only way to obtain
a new parser state from `set_stream` is `Ok`, and then it is one of the two shapes below. -/
theorem setStream_rejected_unchanged (p : Parser) (st : Option Nat) :
    (∃ p', p.setStream st = .ok p' ∧ (p' = p ∨ p' = p.switchTo st)) ∨
    p.setStream st = .rejected ∨ ∃ site, p.setStream st = .panic site := by
  cases hr : p.setStream st with
  | ok p' =>
    refine Or.inl ⟨p', rfl, ?_⟩
    rcases setStream_ok_cases hr with ⟨-, h⟩ | ⟨-, h, -⟩
    · exact Or.inl h
    · exact Or.inr h
  | rejected => exact Or.inr (Or.inl rfl)
  | panic s => exact Or.inr (Or.inr ⟨s, rfl⟩)

/-- Re-selecting the active stream is the identity (in particular keeps `parsed`). -/
theorem setStream_same_keeps {p : Parser} (hinv : SInv p) : p.setStream p.stream = .ok p := by
  cases hst : p.stream with
  | none => rw [setStream_none]; simp [hst]
  | some e =>
    obtain ⟨-, -, -, -, hs, -⟩ := hinv
    rcases hs with hs | ⟨x, hs, hm⟩
    · rw [hs] at hst; cases hst
    · rw [hs] at hst; cases hst
      have he := mem_inputStreams_isInput hm
      rw [setStream_some_input p he (fun e' he' => by rw [hs] at he'; cases he'; exact he)]
      simp [hs]

theorem setStream_changed {p p' : Parser} {st : Option Nat} (h : p.setStream st = .ok p')
    (hne : st ≠ p.stream) :
    p'.stream = st ∧ p'.parsed = [] ∧ p'.raw = p.raw ∧ p'.output = p.output ∧ p'.pay = p.pay ∧
    p'.pad = p.pad ∧ p'.state = (if p.state = .stream then .skip else p.state) ∧
    p'.request = p.request ∧ p'.cap = p.cap ∧ p'.g0 = 0 ∧ p'.g1 = 0 ∧
    (st = none ∨ ∃ s, st = some s ∧ Later p.request.role p.stream s) := by
  rcases setStream_ok_cases h with ⟨h1, -⟩ | ⟨-, rfl, hc⟩
  · exact absurd h1 hne
  · refine ⟨rfl, rfl, rfl, rfl, rfl, rfl, ?_, rfl, rfl, rfl, rfl, hc⟩
    simp only [Parser.switchTo]
    cases p.state <;> simp

/-! ## B.9 The active stream only moves forward -/

theorem op_frame (p : Parser) (op : Op) :
    (applyOp p op).request = p.request ∧
    rankOf p.request.role p.stream ≤ rankOf p.request.role (applyOp p op).stream ∧
    (p.stream = none → (applyOp p op).stream = none) ∧
    (∀ new dest, op = .parse new dest → (applyOp p op).stream = p.stream) := by
  cases op with
  | parse new dest =>
    obtain ⟨h1, h2, -⟩ := parse_frame p new dest
    simp only [applyOp]
    refine ⟨h2, by rw [h1]; exact Nat.le_refl _, fun h => by rw [h1]; exact h, fun _ _ _ => h1⟩
  | consumeStream amt => exact ⟨rfl, Nat.le_refl _, id, fun _ _ h => by cases h⟩
  | compress => exact ⟨rfl, Nat.le_refl _, id, fun _ _ h => by cases h⟩
  | consumeOutput amt => exact ⟨rfl, Nat.le_refl _, id, fun _ _ h => by cases h⟩
  | setStream st =>
    simp only [applyOp]
    cases hr : p.setStream st with
    | rejected => exact ⟨rfl, Nat.le_refl _, id, fun _ _ h => by cases h⟩
    | panic s => exact ⟨rfl, Nat.le_refl _, id, fun _ _ h => by cases h⟩
    | ok p' =>
      rcases setStream_ok_cases hr with ⟨-, rfl⟩ | ⟨-, rfl, hc⟩
      · exact ⟨rfl, Nat.le_refl _, id, fun _ _ h => by cases h⟩
      · refine ⟨rfl, ?_, ?_, fun _ _ h => by cases h⟩
        · rcases hc with rfl | ⟨s, rfl, hl⟩
          · exact rankOf_le_none _ _
          · exact Nat.le_of_lt hl.1
        · intro hn
          rcases hc with rfl | ⟨s, rfl, hl⟩
          · rfl
          · rw [hn] at hl; exact absurd hl (later_none _ _)

/-- One operation: the position of the active stream never decreases (`parse` keeps it, an
accepted `set_stream` keeps it or moves it forward, a rejected one changes nothing). -/
theorem active_mono (p : Parser) (op : Op) :
    rankOf p.request.role p.stream ≤ rankOf p.request.role (applyOp p op).stream :=
  (op_frame p op).2.1

theorem parse_keeps_stream (p : Parser) (new : Bytes) (dest : Option Nat) :
    (p.parse new dest).1.stream = p.stream := (parse_frame p new dest).1

/-- `None` is absorbing: once all streams are closed no operation reopens one. -/
theorem none_absorbing (p : Parser) (op : Op) (h : p.stream = none) :
    (applyOp p op).stream = none := (op_frame p op).2.2.1 h

theorem setStream_some_of_none_rejected (p : Parser) (s : Nat) (h : p.stream = none) :
    p.setStream (some s) = .rejected := by
  unfold Parser.setStream; simp [h, Str.cmp_none]

/-- Over any list of operations (legal or not). -/
theorem active_mono_trace (p : Parser) (ops : List Op) :
    (applyOps p ops).request = p.request ∧
    rankOf p.request.role p.stream ≤ rankOf p.request.role (applyOps p ops).stream ∧
    (p.stream = none → (applyOps p ops).stream = none) := by
  induction ops generalizing p with
  | nil => exact ⟨rfl, Nat.le_refl _, id⟩
  | cons op t ih =>
    obtain ⟨h1, h2, h3, -⟩ := op_frame p op
    obtain ⟨i1, i2, i3⟩ := ih (applyOp p op)
    rw [h1] at i1 i2
    exact ⟨i1, Nat.le_trans h2 i2, fun h => i3 (h3 h)⟩

/-! ## B.10 Only the active stream is delivered; later streams are held back -/

/-- No stream data was produced between `(p, res)` and `(p', res')`. -/
def NoData (p : Parser) (res : Status) (p' : Parser) (res' : Status) : Prop :=
  p'.parsed = p.parsed ∧ res'.delivered = res.delivered ∧ res'.stream = res.stream

/-- The outcome of a loop-body step produced no stream data (and consumed no `dest` space). -/
def StepNoData (p : Parser) (dest : Option Nat) (res : Status) : Iter → Prop
  | .cont p' d' r' => NoData p res p' r' ∧ d' = dest
  | .stop p' r' => NoData p res p' r'
  | .err p' _ => p'.parsed = p.parsed
  | .panic _ => True

/-- `parse_payload` produces stream data only in state `Stream`. -/
theorem only_active_delivered (p : Parser) (dest : Option Nat) (res : Status)
    (hs : p.state ≠ .stream) : StepNoData p dest res (parsePayload p dest res) := by
  unfold parsePayload
  cases hst : p.state with
  | stream => exact absurd hst hs
  | skip =>
    simp only []
    split
    · trivial
    · split <;> simp [StepNoData, NoData]
  | values v =>
    by_cases hlt : p.raw.length < p.pay
    · simp only [hlt, if_true]
      split
      · trivial
      · split <;> simp [StepNoData, NoData]
    · simp only [hlt, if_false]
      split
      · trivial
      · split <;> simp [StepNoData, NoData]

/-- The step appended exactly `d` to the internal stream buffer. -/
def StepAppends (p : Parser) (res : Status) (d : Bytes) : Iter → Prop
  | .cont p' _ r' => p'.parsed = p.parsed ++ d ∧ r'.stream = res.stream + d.length
  | .stop p' r' => p'.parsed = p.parsed ++ d ∧ r'.stream = res.stream + d.length
  | _ => False

/-- In state `Stream` with the internal buffer as destination, exactly the available payload bytes
are appended, verbatim. -/
theorem active_payload_verbatim (p : Parser) (res : Status) (hs : p.state = .stream) :
    StepAppends p res (p.raw.take (min p.pay p.raw.length)) (parsePayload p none res) := by
  unfold parsePayload
  simp only [hs]
  split
  · exfalso; omega
  · split <;> simp [StepAppends]

/-- `parse_head` never produces stream data. -/
theorem head_no_data (p : Parser) (dest : Option Nat) (res : Status) :
    StepNoData p dest res (parseHead p dest res) := by
  unfold parseHead
  split
  · split
    · simp [StepNoData, NoData]
    · simp [StepNoData]
    · rename_i head hh
      by_cases hin : (RT.isInputStream head.rtype && head.requestId == p.request.id) = true
      · rw [if_pos hin]
        split
        · trivial
        · split <;> simp [StepNoData, NoData]
        · simp [StepNoData, NoData]
        · simp [StepNoData, NoData]
      · rw [if_neg hin]
        split
        · simp [StepNoData]
        · split
          · simp [StepNoData, NoData]
          · split <;> simp [StepNoData, NoData]
    · simp [StepNoData]
  · simp [StepNoData, NoData]

theorem StepNoData.trans {p q : Parser} {dest : Option Nat} {res r : Status} {it : Iter}
    (h1 : NoData p res q r) (h2 : StepNoData q dest r it) : StepNoData p dest res it := by
  obtain ⟨a, b, c⟩ := h1
  cases it with
  | cont p' d' r' =>
    obtain ⟨⟨a', b', c'⟩, e⟩ := h2
    exact ⟨⟨a'.trans a, b'.trans b, c'.trans c⟩, e⟩
  | stop p' r' =>
    obtain ⟨a', b', c'⟩ := h2
    exact ⟨a'.trans a, b'.trans b, c'.trans c⟩
  | err p' e => exact Eq.trans h2 a
  | panic s => trivial

/-- The padding step and `parse_head` produce no stream data. -/
theorem padHead_no_data (q : Parser) (d : Option Nat) (r : Status) :
    StepNoData q d r
      (if q.pad > 0 then
        if q.raw.length ≤ q.pad then
          .stop { q with raw := [], g1 := q.g1 + q.raw.length, pad := q.pad - q.raw.length } r
        else parseHead { q with raw := q.raw.drop q.pad, g1 := q.g1 + q.pad, pad := 0 } d r
      else parseHead q d r) := by
  split
  · split
    · exact ⟨rfl, rfl, rfl⟩
    · exact StepNoData.trans (q := { q with raw := q.raw.drop q.pad, g1 := q.g1 + q.pad, pad := 0 })
        ⟨rfl, rfl, rfl⟩ (head_no_data _ _ _)
  · exact head_no_data _ _ _

/-- A whole loop iteration produces stream data only if it starts in state `Stream` with payload
outstanding: records of other streams, other requests, management records and padding are never
delivered. -/
theorem iter_only_active (p : Parser) (dest : Option Nat) (res : Status)
    (hs : p.state ≠ .stream ∨ p.pay = 0) : StepNoData p dest res (iter p dest res) := by
  unfold iter
  by_cases hpay : p.pay > 0
  · have hst : p.state ≠ .stream := by
      rcases hs with hs | hs
      · exact hs
      · omega
    simp only [hpay, if_true]
    have hp := only_active_delivered p dest res hst
    cases hpp : parsePayload p dest res with
    | cont q d r =>
      rw [hpp] at hp
      obtain ⟨h1, rfl⟩ := hp
      exact StepNoData.trans h1 (padHead_no_data q d r)
    | stop q r => rw [hpp] at hp; exact hp
    | err q e => rw [hpp] at hp; exact hp
    | panic s => trivial
  · simp only [hpay, if_false]
    exact padHead_no_data p dest res

/-- `parse_head` switches to state `Stream` only for a non-empty record of the active stream of
this request. -/
theorem head_activates {p p' : Parser} {dest d' : Option Nat} {res r' : Status} (hinv : SInv p)
    (h : parseHead p dest res = .cont p' d' r') (hs : p'.state = .stream) :
    ∃ b0 b1 b2 b3 b4 b5 b6 b7 rest head,
      p.raw = b0 :: b1 :: b2 :: b3 :: b4 :: b5 :: b6 :: b7 :: rest ∧
      RecordHeader.fromBytes [b0, b1, b2, b3, b4, b5, b6, b7] = some (.ok head) ∧
      p.stream = some head.rtype ∧ head.requestId = p.request.id ∧ head.contentLength ≠ 0 ∧
      p'.pay = head.contentLength ∧ p'.pad = head.paddingLength ∧ p'.raw = rest := by
  unfold parseHead at h
  split at h
  · rename_i b0 b1 b2 b3 b4 b5 b6 b7 rest hraw
    split at h
    · cases h; cases hs
    · cases h
    · rename_i head hh
      by_cases hin : (RT.isInputStream head.rtype && head.requestId == p.request.id) = true
      · rw [if_pos hin] at h
        simp only [Bool.and_eq_true, beq_iff_eq] at hin
        split at h
        · cases h
        · rename_i hc
          split at h
          · rename_i hz
            cases h
            refine ⟨b0, b1, b2, b3, b4, b5, b6, b7, rest, head, hraw, hh, ?_, hin.2, by simpa using hz,
              rfl, rfl, rfl⟩
            obtain ⟨-, -, -, -, hst, -⟩ := hinv
            rcases hst with hst | ⟨e, hst, hm⟩
            · rw [hst, Str.cmp_none] at hc; cases hc
            · rw [hst] at hc
              rw [hst, (cmp_eq_iff _ hin.1 (mem_inputStreams_isInput hm)).1 hc]
          · cases h
        · cases h; cases hs
        · cases h
      · rw [if_neg hin] at h
        split at h
        · cases h
        · split at h
          · cases h; cases hs
          · split at h <;> (cases h; cases hs)
    · cases h
  · cases h

/-- The end of the active stream: when `parse_head` raises `stream_end`, the header is *not*
consumed; it carries this request's id and is either the empty record of the active stream or a
record of a stream strictly later in the role's order. -/
theorem held_back {p p' : Parser} {dest : Option Nat} {res res' : Status} (hinv : SInv p)
    (h : parseHead p dest res = .stop p' res') (h1 : res'.streamEnd = true)
    (h0 : res.streamEnd = false) :
    p' = p ∧ res' = { res with streamEnd := true } ∧ HeldBack p ∧
    ∃ b0 b1 b2 b3 b4 b5 b6 b7 rest head e,
      p.raw = b0 :: b1 :: b2 :: b3 :: b4 :: b5 :: b6 :: b7 :: rest ∧
      RecordHeader.fromBytes [b0, b1, b2, b3, b4, b5, b6, b7] = some (.ok head) ∧
      head.requestId = p.request.id ∧ p.stream = some e ∧
      ((head.rtype = e ∧ head.contentLength = 0) ∨ Later p.request.role (some e) head.rtype) := by
  obtain ⟨a, b, c⟩ := parseHead_stop_se h h1 h0
  exact ⟨a, b, c, HeldBack.stream hinv c⟩

/-- …and `parse` keeps reporting `stream_end` without delivering anything, leaving the parser
exactly as it is, on every later call without new input. -/
theorem held_back_repeats {p : Parser} (hinv : SInv p) (hb : p.isRecordBoundary = true)
    (h : HeldBack p) (dest : Option Nat) (hd : dest = none ∨ p.parsed = []) :
    p.parse [] dest = (p, .ok { stream := 0, streamEnd := true, output := 0, delivered := [] }) :=
  held_repeat hb h dest hinv.1 hd

/-- Consuming the stream buffer or the output, or compressing, does not release the header. -/
theorem held_back_persists {p : Parser} (hb : p.isRecordBoundary = true) (h : HeldBack p)
    (op : Op) (hop : (∃ n, op = .consumeStream n) ∨ op = .compress ∨ ∃ n, op = .consumeOutput n) :
    (applyOp p op).isRecordBoundary = true ∧ HeldBack (applyOp p op) := by
  rcases hop with ⟨n, rfl⟩ | rfl | ⟨n, rfl⟩ <;> exact ⟨hb, h⟩

/-! ## Concrete instances (non-vacuity) -/

section Examples

/-- A Filter request (role 3, id 1). -/
def demoReq : Request := { id := 1, role := 3, flags := 0, env := [] }
/-- `Stdin(id 1, "AB")`, empty `Stdin(id 1)`, `Data(id 1, 3 bytes)`. -/
def demoInput : Bytes :=
  [1, 5, 0, 1, 0, 2, 0, 0, 65, 66,   1, 5, 0, 1, 0, 0, 0, 0,   1, 8, 0, 1, 0, 3, 0, 0, 9, 9, 9]
def demo : Parser := Parser.fromParser 64 demoReq demoInput 10
/-- `demo` after the first `parse`: "AB" delivered, standing at the empty Stdin record. -/
def demo1 : Parser :=
  { demo with parsed := [65, 66], g1 := 8, state := .stream,
              raw := [1, 5, 0, 1, 0, 0, 0, 0, 1, 8, 0, 1, 0, 3, 0, 0, 9, 9, 9] }
/-- `demo1` after `set_stream(Some(Data))`. -/
def demo2 : Parser := demo1.switchTo (some 8)

/-- Observers for `SetRes` (it has no `DecidableEq`). -/
def okParser : SetRes → Option Parser
  | .ok p => some p
  | _ => none
def isRejected : SetRes → Bool
  | .rejected => true
  | _ => false

example : SInv demo := SInv_fromParser _ _ _ _ (by decide) (by decide)
example : demo.stream = some RT.stdin ∧ rankOf 3 demo.stream = 0 := by decide

/-- The Stdin payload is delivered, then the empty Stdin record is held back with `stream_end`. -/
example : demo.parse [] none =
    (demo1, .ok { stream := 2, streamEnd := true, output := 0, delivered := [] }) := by
  decide +kernel

example : HeldBack demo1 :=
  ⟨1, 5, 0, 1, 0, 0, 0, 0, [1, 8, 0, 1, 0, 3, 0, 0, 9, 9, 9],
    { rtype := 5, requestId := 1, contentLength := 0, paddingLength := 0 },
    rfl, rfl, by decide, rfl, Or.inl ⟨by decide, rfl⟩⟩

/-- Asking again changes nothing and reports `stream_end` again. -/
example : demo1.parse [] none =
    (demo1, .ok { stream := 0, streamEnd := true, output := 0, delivered := [] }) := by
  decide +kernel

/-- Moving on to Data is accepted (Data is later than Stdin for a Filter), … -/
example : okParser (demo1.setStream (some 8)) = some demo2 := by decide +kernel
example : Later 3 (some 5) 8 := by decide
/-- … the Data payload is then delivered (the empty Stdin record is skipped), … -/
example : (demo2.parse [] none).2 =
    .ok { stream := 3, streamEnd := false, output := 0, delivered := [] } ∧
    (demo2.parse [] none).1.parsed = [9, 9, 9] := by
  decide +kernel
/-- … and going back to Stdin is a `SequenceError`. -/
example : isRejected (demo2.setStream (some 5)) = true := by decide +kernel

/-- A Filter parser standing directly in front of a Data header while Stdin is active. -/
def demo3 : Parser := Parser.fromParser 64 demoReq [1, 8, 0, 1, 0, 3, 0, 0, 9, 9, 9] 10
example : HeldBack demo3 :=
  ⟨1, 8, 0, 1, 0, 3, 0, 0, [9, 9, 9],
    { rtype := 8, requestId := 1, contentLength := 3, paddingLength := 0 },
    rfl, rfl, by decide, rfl, Or.inr (by decide)⟩
example : demo3.parse [] none =
    (demo3, .ok { stream := 0, streamEnd := true, output := 0, delivered := [] }) :=
  held_back_repeats (SInv_fromParser _ _ _ _ (by decide) (by decide)) rfl
    ⟨1, 8, 0, 1, 0, 3, 0, 0, [9, 9, 9],
      { rtype := 8, requestId := 1, contentLength := 3, paddingLength := 0 },
      rfl, rfl, by decide, rfl, Or.inr (by decide)⟩ none (Or.inl rfl)

/-- For a Responder (role 1) a Data record is simply skipped: Data is not in its stream list. -/
example : (({ demo3 with request := { demoReq with role := 1 } } : Parser).parse [] none).2 =
    .ok { stream := 0, streamEnd := false, output := 0, delivered := [] } := by
  decide +kernel

/-- `None` is absorbing: after closing all streams, `Stdin` cannot be reopened. -/
example : okParser (demo.setStream none) = some (demo.switchTo none) ∧
    (demo.switchTo none).stream = none ∧
    isRejected ((demo.switchTo none).setStream (some 5)) = true := by
  decide +kernel

end Examples

end Fcgi.C18
