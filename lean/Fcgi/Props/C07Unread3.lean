import Fcgi.Proofs.E2EUnread3
import Fcgi.Props.C07Unread2
/-!
# C07 / C05 — handlers that leave input unread: bookkeeping and the Filter

* `unread_prefix_e2e_full_holds`: the statement `unread_prefix_e2e_full` of `Props/C07Unread.lean` (written
  before the proof existed) holds: for `n > 0` it is `unread_prefix_e2e`; for `n = 0` (which that
  statement also covers) `poll_input(Some(0))` returns at once and the run is that of a handler that
  reads nothing (`run_read0`), split `s₁ = []`.
-/
namespace Fcgi.C07U
open Fcgi Fcgi.Req Fcgi.Str Fcgi.Async Fcgi.Run Fcgi.Spec Fcgi.E2E Fcgi.C07E

/-- **`unread_prefix_e2e_full` holds.** -/
theorem unread_prefix_e2e_full_holds : unread_prefix_e2e_full := by
  intro p recs content srecs b mc n st t fuel hwf hrole hk hpairs hnoise hstr hsn hnb hin hben hem hev hfuel hsize
  by_cases hn : n = 0
  · -- `read(&mut [])`: nothing is consumed
    subst hn
    have hidle := srecs_idle hwf hstr hnb
    have ok : U0OK (cfgU p recs srecs b mc [] st [.read 0, .ret st] t.wlog 0 []) :=
      ⟨hwf, hrole, hpairs, hnoise, rfl, rfl, rfl⟩
    obtain ⟨hns, hNF⟩ := idle_front dummy_wf b mc (fun q hq => by cases hq) (dummy_fits _) hidle hsn []
    have hst : FStage (cfgU p recs srecs b mc [] st [.read 0, .ret st] t.wlog 0 [])
        (connS b mc t [([.read 0, .ret st], true)]) :=
      .start (raw := []) rfl (by show [] ++ t.input = _; rw [hin]; rfl) (Nat.zero_le _) rfl hben rfl rfl rfl hev
    obtain ⟨c', fin, hrun, _, _, hkp, hem', _, _, _, hend⟩ := run_read0 ok hk (Z := serAll dummyRecs ++ []) hns hNF
      t.endMode [] _ 0 fuel hst rfl (fun s hs => by cases hs) rfl (by show ans t + 1 ≤ fuel; unfold ans; omega) hsize
    have hLU : (cfgU p recs srecs b mc [] st [.read 0, .ret st] t.wlog 0 []).LU =
        t.wlog ++ (owedPreamble p mc recs ++ epilogue p.id st) := by
      show ((t.wlog ++ owedPreamble p mc recs) ++ streamRecords 6 p.id [] ++
        makeRequestEpilogue p.id st [RT.stdout, RT.stderr]) = _
      rw [epilogue_eq, streamRecords_nil]; simp only [List.append_assoc, List.append_nil]
    rcases hend with ⟨rfl, hp⟩ | ⟨_, hf⟩
    · obtain ⟨F, hF, _, _, hlg⟩ := hp.pst
      have hFe : F = serAll srecs := List.append_cancel_right hF
      refine ⟨c', [], srecs, [], [], hrun, rfl, rfl, ?_, hkp.hs, hp.inp⟩
      have hlg' : c'.env.tr.wlog = (cfgU p recs srecs b mc [] st [.read 0, .ret st] t.wlog 0 []).LU ++
          (run .header F mc).out := hlg
      rw [hlg', hFe, (run_idle_out mc srecs hidle).1, hLU]
      simp only [List.append_assoc, List.append_nil]
    · rw [hf.em] at hem'
      rw [hem] at hem'
      cases hem'
  · obtain ⟨c', fin, s1, s2, d, hrun, ho⟩ := unread_prefix_e2e (mc := mc) (st := st) (more := []) (fuel := fuel) (by omega : 0 < n)
      hwf hrole hk hpairs hnoise hstr hsn hnb hin hben hev hfuel hsize
    rcases ho.final with ⟨h, _⟩ | ⟨_, hfin, _, hinp, _⟩
    · rw [hem] at h; cases h
    · subst hfin
      have hnb2 : ∀ r ∈ s2, r.rtype.toNat ≠ RT.beginRequest := fun r hr => hnb r (by
        rw [ho.split]; exact List.mem_append_right _ hr)
      refine ⟨c', s1, s2, owedStream p.id 5 mc s1, [], hrun, ho.split, List.append_nil _, ?_, ho.one_handler.1, hinp⟩
      rw [ho.log, idleOwed_eq_owedStream5 p.id mc hnb2]
      simp only [List.append_assoc, List.append_nil]

end Fcgi.C07U
