import Fcgi.Proofs.E2EUnread3
import Fcgi.Props.C07Unread2
/-!
# C07 / C05 — handlers that leave input unread: bookkeeping and the Filter

* `unread_prefix_e2e_full_holds`: the statement `unread_prefix_e2e_full` of `Props/C07Unread.lean` (written
  before the proof existed) holds: for `n > 0` it is `unread_prefix_e2e`; for `n = 0` (which that
  statement also covers) `poll_input(Some(0))` returns at once and the run is that of a handler that
  reads nothing (`run_read0`), split `s₁ = []`.
* `unread_filter_e2e_partial`, `unread_filter_chain_e2e_partial`: a Filter left wholly unread
  (`[.ret st]`, KEEP_CONN) whose Data stream carries NO content (noise and the terminator only — the
  empty Data stream `drecs = [terminator]` in particular, `Example`): `close()`'s `writeable()` passes
  over all of Stdin and the Data noise in buffering mode, the request becomes writeable at the
  END-OF-STREAM exit of `poll_input(None)`, the epilogue carries the empty Stdout and Stderr records,
  the Data terminator is left to the next `parse_request`; and the chain step.
* Missing for `unread_filter_e2e_full` (Data WITH content), which stays open — neither proved nor
  refuted; the replays `c07-filter-unread-*` agree with it: then `poll_input(None)` returns with Data
  bytes buffered, possibly in the middle of a record, and `record_boundary()` has to run the parser
  in ignore mode over own-id DATA records.  The bisimulation of `Proofs/E2EIgnore` ("ignoring =
  a Filter's parser in stream 8") is wrong there — the stream-8 parser delivers those records —;
  the right view is "a Responder's parser in stream 5" (`cmpInputStreams 1 8 (some 5) = lt`, and a
  well-formed Data stream has no own-id Stdin records), so `E2EIgnore`/`E2EPrefixRef`/`E2EPrefixStr`
  have to be redone for that view, plus a lemma that at the switch the replies still owed are the
  same under `⟨id,3,8⟩` and `⟨id,1,5⟩`.  `writeable()` itself (`fu_wpoll`, on `pollInput_sim_none`) and
  the tail of `close` (`uclose_out_m`: entered with the mutex still held) carry over unchanged.
-/
namespace Fcgi.C07U
open Fcgi Fcgi.Req Fcgi.Str Fcgi.Async Fcgi.Run Fcgi.Spec Fcgi.E2E Fcgi.C07E

/-- **`unread_prefix_e2e_full` holds.** -/
theorem unread_prefix_e2e_full_holds : unread_prefix_e2e_full := by
  intro p recs content srecs b mc n st t fuel hwf hrole hk hpairs hnoise hstr hsn hnb hin hben hem hev hfuel hsize
  by_cases hn : n = 0
  · -- `read(&mut [])`: nothing is consumed
    subst hn
    have hidle := srecs_idle hwf hstr hnb
    have ok : U0OK (cfgU p recs srecs b mc [] st [.read 0, .ret st] t.wlog 0 []) :=
      ⟨hwf, hrole, hpairs, hnoise, rfl, rfl, rfl⟩
    obtain ⟨hns, hNF⟩ := idle_front dummy_wf b mc (fun q hq => by cases hq) (dummy_fits _) hidle hsn []
    have hst : FStage (cfgU p recs srecs b mc [] st [.read 0, .ret st] t.wlog 0 [])
        (connS b mc t [([.read 0, .ret st], true)]) :=
      .start (raw := []) rfl (by show [] ++ t.input = _; rw [hin]; rfl) (Nat.zero_le _) rfl hben rfl rfl rfl hev
    obtain ⟨c', fin, hrun, _, _, hkp, hem', _, _, _, hend⟩ := run_read0 ok hk (Z := serAll dummyRecs ++ []) hns hNF
      t.endMode [] _ 0 fuel hst rfl (fun s hs => by cases hs) rfl (by show ans t + 1 ≤ fuel; unfold ans; omega) hsize
    have hLU : (cfgU p recs srecs b mc [] st [.read 0, .ret st] t.wlog 0 []).LU =
        t.wlog ++ (owedPreamble p mc recs ++ epilogue p.id st) := by
      show ((t.wlog ++ owedPreamble p mc recs) ++ streamRecords 6 p.id [] ++
        makeRequestEpilogue p.id st [RT.stdout, RT.stderr]) = _
      rw [epilogue_eq, streamRecords_nil]; simp only [List.append_assoc, List.append_nil]
    rcases hend with ⟨rfl, hp⟩ | ⟨_, hf⟩
    · obtain ⟨F, hF, _, _, hlg⟩ := hp.pst
      have hFe : F = serAll srecs := List.append_cancel_right hF
      refine ⟨c', [], srecs, [], [], hrun, rfl, rfl, ?_, hkp.hs, hp.inp⟩
      have hlg' : c'.env.tr.wlog = (cfgU p recs srecs b mc [] st [.read 0, .ret st] t.wlog 0 []).LU ++
          (run .header F mc).out := hlg
      rw [hlg', hFe, (run_idle_out mc srecs hidle).1, hLU]
      simp only [List.append_assoc, List.append_nil]
    · rw [hf.em] at hem'
      rw [hem] at hem'
      cases hem'
  · obtain ⟨c', fin, s1, s2, d, hrun, ho⟩ := unread_prefix_e2e (mc := mc) (st := st) (more := []) (fuel := fuel) (by omega : 0 < n)
      hwf hrole hk hpairs hnoise hstr hsn hnb hin hben hev hfuel hsize
    rcases ho.final with ⟨h, _⟩ | ⟨_, hfin, _, hinp, _⟩
    · rw [hem] at h; cases h
    · subst hfin
      have hnb2 : ∀ r ∈ s2, r.rtype.toNat ≠ RT.beginRequest := fun r hr => hnb r (by
        rw [ho.split]; exact List.mem_append_right _ hr)
      refine ⟨c', s1, s2, owedStream p.id 5 mc s1, [], hrun, ho.split, List.append_nil _, ?_, ho.one_handler.1, hinp⟩
      rw [ho.log, idleOwed_eq_owedStream5 p.id mc hnb2]
      simp only [List.append_assoc, List.append_nil]

/-! ## A Filter left wholly unread, Data stream without content -/

/-- the configuration of a Filter request whose handler is `[.ret st]`; `body`, `pad`, `res` /
`body2`, `pad2`, `res2`: the records of Stdin / Data before the terminator, the terminator's padding
and reserved byte -/
def cfgFU (p : Preamble) (recs : List Rec) (content : Bytes) (body : List Rec) (pad : Bytes) (res : UInt8)
    (body2 : List Rec) (pad2 : Bytes) (res2 : UInt8)
    (b mc : Nat) (st : ExitStatus) (L0 : Bytes) (h : Nat) (more : List (List HOp × Bool)) : E2E.Cfg :=
  ⟨p, recs, content, body, pad, res, [], body2, pad2, res2, b, mc, [], st, L0, h, more,
    serAll body ++ (({ rtype := 5, id := p.id, content := [], pad := pad, reserved := res } : Rec).ser ++
      (serAll body2 ++ ({ rtype := 8, id := p.id, content := [], pad := pad2, reserved := res2 } : Rec).ser)),
    serAll body2 ++ ({ rtype := 8, id := p.id, content := [], pad := pad2, reserved := res2 } : Rec).ser,
    [], [], [], [.ret st]⟩

/-- what the run of a Filter request left unread ends in; `tm` = the Data stream's terminator -/
structure FilterUnreadOutcome (p : Preamble) (recs srecs d₁ : List Rec) (tm : Rec)
    (b mc : Nat) (st : ExitStatus) (more : List (List HOp × Bool)) (t : Transport) (c' : Conn) (fin : String) :
    Prop where
  /-- exactly one handler start, for the request sent -/
  one_handler : hsCount c'.env.tr.events = 1 ∧ startEvent p.request ∈ c'.env.tr.events
  /-- the log: preamble replies, the replies owed for the noise in Stdin and in the Data stream, and
  the epilogue of a WRITEABLE request: `[Stdout∅][Stderr∅][EndRequest(id, st)]` -/
  log : c'.env.tr.wlog = t.wlog ++ (owedPreamble p mc recs ++
    (owedStream p.id 5 mc srecs ++ owedStream p.id 8 mc d₁) ++ epilogue p.id st)
  scripts : c'.scripts = more
  /-- the next `parse_request` was handed exactly the Data terminator, has swallowed it (no reply) and
  waits for the next request — or the peer has closed and the task returned -/
  final : (t.endMode = .eof ∧ fin = "RET" ∧ c'.phase = .finished) ∨
          (t.endMode = .pend ∧ fin = "STALL" ∧
            c'.phase = .parseReq (track (alignedBufsize b) mc tm.ser) .reading ∧
            c'.env.tr.input = [] ∧ c'.env.mutex = none ∧ c'.stop = false ∧ Ben c'.env.tr)

/-- **C07/C05 end to end: a Filter left wholly unread, its Data stream without content**
(`_partial`: `unread_filter_e2e_full` restricted to `content2 = []`, i.e. `drecs` = noise records and
the terminator — in particular `drecs = [terminator]`).

A Filter request with KEEP_CONN: well-formed preamble, a Stdin stream with any content, segmentation
and noise, a Data stream with any noise but no content, all of it in the transport; ANY transport
chunking without error answers; the handler returns `st` without reading.  Then `close()`:
`writeable()` does `set_stream(Data)` and `poll_input(None)`, which passes over ALL of Stdin and the
noise of the Data stream (`d₁`; their replies are written) and returns at its END-OF-STREAM exit in
front of the Data terminator `tm` — where the request becomes writeable —; `record_boundary()` returns
at once; the epilogue therefore carries the empty Stdout and Stderr records; the next
`parse_request` is handed exactly `tm.ser`, swallows it without reply and parks (or the task
returns at end-of-file).  Missing for `content2 ≠ []`: see the module docstring. -/
theorem unread_filter_e2e_partial {p : Preamble} {recs : List Rec} {content : Bytes} {srecs drecs : List Rec}
    {b mc : Nat} {st : ExitStatus} {more : List (List HOp × Bool)} {t : Transport} {fuel : Nat}
    (hwf : WellFormedPreamble p recs) (hrole : p.role = 3) (hk : p.flags.toNat % 2 = 1)
    (hpairs : ∀ q ∈ p.pairs, (NV.enc q).length ≤ alignedBufsize b)
    (hnoise : NoiseFits (alignedBufsize b) recs)
    (hs : StreamRecs p.id 5 content srecs) (hsn : NoiseFits (alignedBufsize b) srecs)
    (hd : StreamRecs p.id 8 [] drecs) (hdn : NoiseFits (alignedBufsize b) drecs)
    (hin : t.input = serAll recs ++ (serAll srecs ++ serAll drecs)) (hben : Ben t) (hev : hsCount t.events = 0)
    (hfuel : t.rd.length + t.wr.length + 1 ≤ fuel)
    (hsize : 6 * t.input.length + 26 ≤ 100000) :
    ∃ c' fin d₁ tm, runTask fuel (connS b mc t (([.ret st], true) :: more)) 0 none = (c', fin) ∧
      drecs = d₁ ++ [tm] ∧ tm.rtype = 8 ∧ tm.id = p.id ∧ tm.content = [] ∧
      FilterUnreadOutcome p recs srecs d₁ tm b mc st more t c' fin := by
  have hid := (pid_of_wf hwf).2
  obtain ⟨body, pad, res, hpad, hbody, hsrecs⟩ := StreamRecs.split hs
  obtain ⟨body2, pad2, res2, hpad2, hbody2, hdrecs⟩ := StreamRecs.split hd
  subst hsrecs hdrecs
  have ok : FUOK (cfgFU p recs content body pad res body2 pad2 res2 b mc st t.wlog 0 more) :=
    ⟨hwf, hrole, hpairs, hnoise, streamRecs_stdin hid hs, fun r hr hg => hsn r (List.mem_append_left _ hr) hg, rfl,
      hbody2, fun r hr hg => hdn r (List.mem_append_left _ hr) hg, hpad2, rfl, rfl, rfl⟩
  have htw : ({ rtype := 8, id := p.id, content := [], pad := pad2, reserved := res2 } : Rec).WF :=
    ⟨hid, by simp, hpad2⟩
  have hidle : ∀ e ∈ [({ rtype := 8, id := p.id, content := [], pad := pad2, reserved := res2 } : Rec)], IdleNoise e := by
    intro e he
    rw [List.mem_singleton.1 he]
    exact ⟨htw, fun hx => absurd hx (by show ¬ ((8 : UInt8).toNat = RT.beginRequest); decide)⟩
  have hfit1 : NoiseFits (alignedBufsize b) [({ rtype := 8, id := p.id, content := [], pad := pad2, reserved := res2 } : Rec)] := by
    intro e he hg
    rw [List.mem_singleton.1 he] at hg
    exact absurd hg.1 (by simp [RT.getValues])
  obtain ⟨hns, hNF⟩ := idle_front dummy_wf b mc (fun q hq => by cases hq) (dummy_fits _) hidle hfit1 []
  rw [C02.serAll_single] at hns hNF
  have hst : FStage (cfgFU p recs content body pad res body2 pad2 res2 b mc st t.wlog 0 more)
      (connS b mc t (([.ret st], true) :: more)) :=
    .start (raw := []) rfl (by
      show [] ++ t.input = _
      rw [hin, C02.serAll_append, C02.serAll_single, C02.serAll_append, C02.serAll_single, List.append_assoc (serAll body)]
      rfl)
      (Nat.zero_le _) rfl hben rfl rfl rfl hev
  obtain ⟨c', fin, hrun, _, _, hkp, hem, _, _, _, hend⟩ := run_filter0 ok hk (Z := serAll dummyRecs ++ []) hns hNF
    t.endMode [] _ 0 fuel hst rfl (fun s hs => by cases hs) rfl (by show ans t + 1 ≤ fuel; unfold ans; omega) hsize
  have hLU : (gF (cfgFU p recs content body pad res body2 pad2 res2 b mc st t.wlog 0 more)).LU =
      t.wlog ++ (owedPreamble p mc recs ++
        (owedStream p.id 5 mc (body ++ [{ rtype := UInt8.ofNat 5, id := p.id, content := [], pad := pad, reserved := res }]) ++
          owedStream p.id 8 mc body2) ++ epilogue p.id st) := by
    rw [gF, gC_LU]
    show (t.wlog ++ owedPreamble p mc recs) ++
      owedI p.id mc ((body ++ [{ rtype := 5, id := p.id, content := [], pad := pad, reserved := res }]) ++ body2) ++
      makeRequestEpilogue p.id st [RT.stdout, RT.stderr] = _
    rw [epilogue_eq, ← owedI_eq_owedStream, ← owedI_eq_owedStream8]
    simp only [owedI, List.flatMap_append, List.append_assoc]
    rfl
  have hout : ∀ F, F ++ (serAll dummyRecs ++ []) =
      ({ rtype := 8, id := p.id, content := [], pad := pad2, reserved := res2 } : Rec).ser ++ (serAll dummyRecs ++ []) →
      (gF (cfgFU p recs content body pad res body2 pad2 res2 b mc st t.wlog 0 more)).LU ++ (run .header F mc).out =
      t.wlog ++ (owedPreamble p mc recs ++
        (owedStream p.id 5 mc (body ++ [{ rtype := UInt8.ofNat 5, id := p.id, content := [], pad := pad, reserved := res }]) ++
          owedStream p.id 8 mc body2) ++ epilogue p.id st) := by
    intro F hF
    have hro := (run_idle_out mc _ hidle).1
    rw [C02.serAll_single] at hro
    have hz : idleOwed mc [({ rtype := 8, id := p.id, content := [], pad := pad2, reserved := res2 } : Rec)] = [] := by
      simp only [idleOwed, List.flatMap_cons, List.flatMap_nil, List.append_nil]
      exact C04.owed_other none mc _ (by show RT.valid (8 : UInt8).toNat = true; decide)
        (by show (8 : UInt8).toNat ≠ RT.beginRequest; decide)
        (fun hx => absurd hx.1 (by show ¬ ((8 : UInt8).toNat = RT.getValues); decide))
    rw [List.append_cancel_right hF, hro, hz, List.append_nil, hLU]
  refine ⟨c', fin, body2, _, hrun, rfl, rfl, rfl, rfl, ⟨hkp.hs, hkp.ev _ List.mem_cons_self⟩, ?_, hkp.sc, ?_⟩
  · rcases hend with ⟨_, hp⟩ | ⟨_, hf⟩
    · obtain ⟨F, hF, _, _, hlg⟩ := hp.pst
      have hlg' : c'.env.tr.wlog = (gF (cfgFU p recs content body pad res body2 pad2 res2 b mc st t.wlog 0 more)).LU ++
          (run .header F mc).out := hlg
      rw [hlg']; exact hout F hF
    · obtain ⟨F, hF, hlg⟩ := hf.log
      have hlg' : c'.env.tr.wlog = (gF (cfgFU p recs content body pad res body2 pad2 res2 b mc st t.wlog 0 more)).LU ++
          (run .header F mc).out := hlg
      rw [hlg']; exact hout F hF
  · rcases hend with ⟨rfl, hp⟩ | ⟨rfl, hf⟩
    · obtain ⟨F, hF, hps, hph, _⟩ := hp.pst
      have hFe : F = ({ rtype := 8, id := p.id, content := [], pad := pad2, reserved := res2 } : Rec).ser :=
        List.append_cancel_right hF
      subst hFe
      exact Or.inr ⟨hem.symm.trans hp.em, rfl, hph, hp.inp, hkp.mx, hps.stop, hps.ben⟩
    · exact Or.inl ⟨hem.symm.trans hf.em, rfl, hf.ph⟩

/-- **The chain step for the Filter left unread** (`_partial` as above: Data stream without content).
A closed-loop client sends the Filter request of `unread_filter_e2e_partial` and then the keep-alive
requests `x :: xs` (`UReq.OK`: read to the end, or a Responder left wholly unread): `1 + k` handler
starts; the log is the Filter's segment followed by the `k` segments `UReq.Seg`, each exactly what a
connection serving that request alone writes; the task is parked behind what the last request left. -/
theorem unread_filter_chain_e2e_partial {p : Preamble} {recs : List Rec} {content : Bytes} {srecs drecs : List Rec}
    {b mc : Nat} {st : ExitStatus} (x : UReq) (xs : List UReq) {t : Transport} {fuel : Nat}
    (hwf : WellFormedPreamble p recs) (hrole : p.role = 3) (hk : p.flags.toNat % 2 = 1)
    (hpairs : ∀ q ∈ p.pairs, (NV.enc q).length ≤ alignedBufsize b)
    (hnoise : NoiseFits (alignedBufsize b) recs)
    (hs : StreamRecs p.id 5 content srecs) (hsn : NoiseFits (alignedBufsize b) srecs)
    (hd : StreamRecs p.id 8 [] drecs) (hdn : NoiseFits (alignedBufsize b) drecs)
    (hok : ∀ y ∈ x :: xs, y.OK b)
    (hin : t.input = serAll recs ++ (serAll srecs ++ serAll drecs)) (hben : Ben t) (hem : t.endMode = .pend)
    (hev : hsCount t.events = 0) (hfuel : t.rd.length + t.wr.length + 1 ≤ fuel)
    (hsize : 6 * t.input.length + 26 ≤ 100000) :
    ∃ c' d₁ tm A,
      closedLoop fuel ((x :: xs).map UReq.wire)
        (connS b mc t (([.ret st], true) :: (x :: xs).map UReq.handler)) 0 = (c', "STALL") ∧
      drecs = d₁ ++ [tm] ∧
      SegsAll mc (x :: xs) A ∧
      c'.env.tr.wlog = t.wlog ++ (owedPreamble p mc recs ++
        (owedStream p.id 5 mc srecs ++ owedStream p.id 8 mc d₁) ++ epilogue p.id st) ++ A ∧
      hsCount c'.env.tr.events = 1 + (x :: xs).length ∧
      startEvent p.request ∈ c'.env.tr.events ∧
      (∀ y ∈ x :: xs, startEvent y.p.request ∈ c'.env.tr.events) ∧ c'.scripts = [] ∧
      c'.env.tr.input = [] ∧
      c'.phase = .parseReq (track (alignedBufsize b) mc (serAll ((x :: xs).getLast (by simp)).left)) .reading := by
  have hid := (pid_of_wf hwf).2
  obtain ⟨body, pad, res, hpad, hbody, hsrecs⟩ := StreamRecs.split hs
  obtain ⟨body2, pad2, res2, hpad2, hbody2, hdrecs⟩ := StreamRecs.split hd
  subst hsrecs hdrecs
  have ok : FUOK (cfgFU p recs content body pad res body2 pad2 res2 b mc st t.wlog 0
      (((x :: xs).map (UReq.spec mc)).map RSpec.handler)) :=
    ⟨hwf, hrole, hpairs, hnoise, streamRecs_stdin hid hs, fun r hr hg => hsn r (List.mem_append_left _ hr) hg, rfl,
      hbody2, fun r hr hg => hdn r (List.mem_append_left _ hr) hg, hpad2, rfl, rfl, rfl⟩
  have htw : ({ rtype := 8, id := p.id, content := [], pad := pad2, reserved := res2 } : Rec).WF :=
    ⟨hid, by simp, hpad2⟩
  have hT : IdleNoise ({ rtype := 8, id := p.id, content := [], pad := pad2, reserved := res2 } : Rec) :=
    ⟨htw, fun hx => absurd hx (by show ¬ ((8 : UInt8).toNat = RT.beginRequest); decide)⟩
  have hlo : LeftOK (alignedBufsize b) [({ rtype := 8, id := p.id, content := [], pad := pad2, reserved := res2 } : Rec)] :=
    ⟨fun e he => by rw [List.mem_singleton.1 he]; exact hT, fun e he hg => by
      rw [List.mem_singleton.1 he] at hg
      exact absurd hg.1 (by simp [RT.getValues])⟩
  have hW : (cfgFU p recs content body pad res body2 pad2 res2 b mc st t.wlog 0
      (((x :: xs).map (UReq.spec mc)).map RSpec.handler)).W = t.input := by
    rw [hin, C02.serAll_append, C02.serAll_single, C02.serAll_append, C02.serAll_single, List.append_assoc (serAll body)]
    rfl
  have hstart : StartAt (alignedBufsize b) mc [] t.wlog
      (([.ret st], true) :: ((x :: xs).map (UReq.spec mc)).map RSpec.handler) 0 [] (ans t)
      (cfgFU p recs content body pad res body2 pad2 res2 b mc st t.wlog 0
        (((x :: xs).map (UReq.spec mc)).map RSpec.handler)).W
      (connS b mc t (([.ret st], true) :: ((x :: xs).map (UReq.spec mc)).map RSpec.handler)) :=
    Or.inr ⟨rfl, rfl, by show t.input = _; rw [hW], rfl, hben, rfl, rfl, rfl, hev,
      (fun _ hs => nomatch hs), rfl, hem, Nat.le_refl _⟩
  have hleft0 : LeftOK (alignedBufsize b) [] := ⟨(fun _ he => nomatch he), (fun _ hr => nomatch hr)⟩
  obtain ⟨c1, hrun1, hw1⟩ := serve_filter0_core ok hk (left := []) hleft0 (Z := x.wire) hT
    (goodNext_of_ok (hok x List.mem_cons_self) hlo) 0 fuel (by simp [idleOwed]; rfl) hstart (by unfold ans; omega)
    (by rw [hW]; exact hsize)
  have hz : idleOwed mc [({ rtype := 8, id := p.id, content := [], pad := pad2, reserved := res2 } : Rec)] = [] := by
    simp only [idleOwed, List.flatMap_cons, List.flatMap_nil, List.append_nil]
    exact C04.owed_other none mc _ (by show RT.valid (8 : UInt8).toNat = true; decide)
      (by show (8 : UInt8).toNat ≠ RT.beginRequest; decide)
      (fun hx => absurd hx.1 (by show ¬ ((8 : UInt8).toNat = RT.getValues); decide))
  have hLU : (gF ((cfgFU p recs content body pad res body2 pad2 res2 b mc st t.wlog 0
      (((x :: xs).map (UReq.spec mc)).map RSpec.handler)).front [])).LU ++
      idleOwed mc [({ rtype := 8, id := p.id, content := [], pad := pad2, reserved := res2 } : Rec)] =
      t.wlog ++ (owedPreamble p mc recs ++
        (owedStream p.id 5 mc (body ++ [{ rtype := UInt8.ofNat 5, id := p.id, content := [], pad := pad, reserved := res }]) ++
          owedStream p.id 8 mc body2) ++ epilogue p.id st) := by
    rw [hz, List.append_nil, gF, gC_LU]
    show (t.wlog ++ owedPreamble p mc ([] ++ recs)) ++
      owedI p.id mc ((body ++ [{ rtype := 5, id := p.id, content := [], pad := pad, reserved := res }]) ++ body2) ++
      makeRequestEpilogue p.id st [RT.stdout, RT.stderr] = _
    rw [epilogue_eq, ← owedI_eq_owedStream, ← owedI_eq_owedStream8]
    simp only [owedI, List.flatMap_append, List.append_assoc, List.nil_append]
    rfl
  have hw1' : Waiting (alignedBufsize b) mc
      [({ rtype := 8, id := p.id, content := [], pad := pad2, reserved := res2 } : Rec)]
      (t.wlog ++ (owedPreamble p mc recs ++
        (owedStream p.id 5 mc (body ++ [{ rtype := UInt8.ofNat 5, id := p.id, content := [], pad := pad, reserved := res }]) ++
          owedStream p.id 8 mc body2) ++ epilogue p.id st))
      (((x :: xs).map (UReq.spec mc)).map RSpec.handler) 1 [hsEvent p.request] (ans t) c1 := by
    rw [← hLU]; exact hw1
  obtain ⟨c', A, hrun, hseg, hw⟩ := chain_serves (alignedBufsize b) mc (serAll dummyRecs ++ [])
    (xs.map (UReq.spec mc)) (UReq.spec mc x) _ _ 1 [hsEvent p.request] (ans t) (feed c1 x.wire) 1000 fuel
    (hall_of_ok x xs hok) hlo (Or.inl ⟨c1, hw1', rfl⟩) (by unfold ans; omega)
  have hrun' : closedLoop fuel ((x :: xs).map UReq.wire)
      (connS b mc t (([.ret st], true) :: (x :: xs).map UReq.handler)) 0 = (c', "STALL") := by
    have e : (x :: xs).map UReq.handler = ((x :: xs).map (UReq.spec mc)).map RSpec.handler := by
      rw [List.map_map]; rfl
    rw [e]
    show closedLoop fuel (x.wire :: xs.map UReq.wire) _ 0 = _
    rw [closedLoop, hrun1]
    simp only [if_true]
    rw [← hrun, List.map_map]; rfl
  have hlast := lastLeft_specs mc x xs
  refine ⟨c', body2, _, A, hrun', rfl, segAll_specs mc (x :: xs) A hseg, hw.log, ?_, ?_, ?_, hw.sc, hw.inp, ?_⟩
  · have := hw.hs; simpa [Nat.add_comm] using this
  · exact hw.ev _ (mem_evsAfter _ _ _ (Or.inl List.mem_cons_self))
  · intro y hy
    exact hw.ev _ (mem_evsAfter _ _ _ (Or.inr ⟨UReq.spec mc y, List.mem_map_of_mem hy, rfl⟩))
  · rw [← hlast]; exact hw.ph

/-! ## Non-vacuity -/
namespace Example
open Fcgi.C01.Example Fcgi.C07E.Example

/-- Filter request 1 with KEEP_CONN, no parameters. -/
def preFK : Preamble := { id := 1, role := 3, flags := 1, pairs := [] }
def recsFK : List Rec :=
  [ { rtype := 1, id := 1, content := [0, 3, 1, 0, 0, 0, 0, 0], pad := [] },
    { rtype := 4, id := 1, content := [], pad := [] } ]

theorem recsFK_wf : WellFormedPreamble preFK recsFK :=
  .begin [] 0 [0, 0, 0, 0, 0] rfl (by decide) (by decide) (by decide) (fun q hq => by cases hq) (.done [] 0 (by decide))

theorem recsFK_fits (M : Nat) : NoiseFits M recsFK := no_getValues_fits (by decide)

/-- an EMPTY Data stream: the terminator only -/
def dE : List Rec := [ { rtype := 8, id := 1, content := [], pad := [0] } ]

theorem dE_ok : StreamRecs 1 8 [] dE := .term [0] 0 (by decide)

theorem dE_fits (M : Nat) : NoiseFits M dE := no_getValues_fits (by decide)

/-- the Filter request with Stdin `"AB"` (`fS`) and the empty Data stream -/
def fkT : Transport :=
  { input := serAll recsFK ++ (serAll fS ++ serAll dE), endMode := .pend,
    rd := [.n 20, .pending, .n 30, .n 1, .pending, .all], wr := [.n 5, .pending, .all, .n 1], fl := [] }

theorem fS_fits (M : Nat) : NoiseFits M fS := no_getValues_fits (by decide)

/-- **The empty-Data case, explicitly**: `unread_filter_e2e_partial` applied to a Filter whose Data
stream is just its terminator and whose handler returns `Complete(3)` without reading.  `writeable()`
passes over Stdin and becomes writeable at the end-of-stream exit of `poll_input(None)`; the log is
exactly `[Stdout∅][Stderr∅][EndRequest(1, Complete(3))]` — the epilogue of a writeable request —; the
Data terminator `01 08 00 01 00 00 01 00 00` is left to, and swallowed by, the next `parse_request`.
Replayed (`# case c07-filter-unread-emptydata`): compiled model driver and real crate print the same
line. -/
example : ∃ c', runTask 20 (connS 64 10 fkT [([.ret (.complete 3)], true)]) 0 none = (c', "STALL") ∧
    c'.env.tr.wlog =
      [1, 6, 0, 1, 0, 0, 0, 0, 1, 7, 0, 1, 0, 0, 0, 0, 1, 3, 0, 1, 0, 8, 0, 0, 0, 0, 0, 3, 0, 0, 0, 0] ∧
    c'.phase = .parseReq (track 64 10 [1, 8, 0, 1, 0, 0, 1, 0, 0]) .reading ∧
    hsCount c'.env.tr.events = 1 ∧ c'.env.tr.input = [] := by
  obtain ⟨c', fin, d1, tm, hrun, hsp, _, _, _, ho⟩ := unread_filter_e2e_partial (p := preFK) (recs := recsFK)
    (content := [65, 66]) (srecs := fS) (drecs := dE) (b := 64) (mc := 10) (st := .complete 3) (more := [])
    (t := fkT) (fuel := 20) recsFK_wf rfl (by decide) (fun q hq => by cases hq) (recsFK_fits _) fS_ok (fS_fits _)
    dE_ok (dE_fits _) rfl ⟨by decide, by decide, rfl, by decide⟩ rfl (by decide) (by decide +kernel)
  have hd1 : d1 = [] ∧ tm = { rtype := 8, id := 1, content := [], pad := [0] } := by
    cases d1 with
    | nil => simp only [dE, List.nil_append, List.cons.injEq, and_true] at hsp; exact ⟨rfl, hsp.symm⟩
    | cons a d1' =>
      exfalso
      have := congrArg List.length hsp
      simp [dE] at this
  obtain ⟨rfl, rfl⟩ := hd1
  rcases ho.final with ⟨h, _⟩ | ⟨_, hfin, hph, hin, _⟩
  · exact absurd h (by decide)
  · subst hfin
    refine ⟨c', hrun, ?_, ?_, ho.one_handler.1, hin⟩
    · rw [ho.log]
      decide +kernel
    · rw [hph]
      rfl

/-- `unread_filter_chain_e2e_partial` applied: the Filter left unread (empty Data stream), then the
unread Responder request `u1` and the Authorizer request `q2` of `Props/C07Unread`: three handler
starts, the Filter's segment is its epilogue, the two later segments are those of the requests alone. -/
example : ∃ c' A, closedLoop 20 [u1.wire, q2.wire]
      (connS 64 10 fkT [([.ret (.complete 3)], true), u1.handler, q2.handler]) 0 = (c', "STALL") ∧
    SegsAll 10 [u1, .full q2] A ∧
    c'.env.tr.wlog =
      [1, 6, 0, 1, 0, 0, 0, 0, 1, 7, 0, 1, 0, 0, 0, 0, 1, 3, 0, 1, 0, 8, 0, 0, 0, 0, 0, 3, 0, 0, 0, 0] ++ A ∧
    hsCount c'.env.tr.events = 3 ∧ c'.scripts = [] ∧ c'.env.tr.input = [] := by
  obtain ⟨c', d1, tm, A, hrun, hsp, hseg, hlog, hhs, _, _, hsc, hin, _⟩ :=
    unread_filter_chain_e2e_partial (p := preFK) (recs := recsFK)
    (content := [65, 66]) (srecs := fS) (drecs := dE) (b := 64) (mc := 10) (st := .complete 3) u1 [.full q2]
    (t := fkT) (fuel := 20) recsFK_wf rfl (by decide) (fun q hq => by cases hq) (recsFK_fits _) fS_ok (fS_fits _)
    dE_ok (dE_fits _)
    (fun y hy => by
      simp only [List.mem_cons, List.not_mem_nil, or_false] at hy
      rcases hy with rfl | rfl
      · exact u1_ok
      · exact ⟨q2_ok, by decide⟩)
    rfl ⟨by decide, by decide, rfl, by decide⟩ rfl rfl (by decide) (by decide +kernel)
  have hd1 : d1 = [] := by
    cases d1 with
    | nil => rfl
    | cons a d1' =>
      exfalso
      have := congrArg List.length hsp
      simp [dE] at this
  subst hd1
  refine ⟨c', A, hrun, hseg, ?_, hhs, hsc, hin⟩
  rw [hlog]
  congr 1

end Example

end Fcgi.C07U
