import Fcgi.Proofs.E2EAuthEofNF
import Fcgi.Proofs.E2ETrunc3NF
import Fcgi.Props.C12NoFuel3

/-!
# C12 — the Authorizer and the Filter cut at any offset, WITHOUT the model-fuel hypothesis

The `_unbounded` theorems of `Props/C12Unbounded.lean` for the Authorizer (minus `hhf : wcost |data| + 8 ≤ 1000`; engine
`Proofs/E2EAuthEofNF.lean` over `AOKN`) and for the Filter (minus `hhf : wcost |data| + 24 ≤ 1000`; engine `Proofs/E2ETrunc3NF.lean`).  Each `X_nofuel` is stated exactly like `X_unbounded` minus `hhf`.
-/
namespace Fcgi.C12E
open Fcgi Fcgi.Req Fcgi.Str Fcgi.Async Fcgi.Run Fcgi.Spec Fcgi.E2E Fcgi.C07E Fcgi.C07U Fcgi.C12Inv Fcgi.Indep3 Fcgi.EofErr

/-- **`eof_in_auth_tail_closed_e2e_unbounded` without `hhf`.** -/
theorem eof_in_auth_tail_closed_e2e_nofuel {p : Preamble} {recs tail : List Rec} {b mc : Nat} {rd : ARead} {wr : Bool}
    {data : Bytes} {st : ExitStatus} {more : List (List HOp × Bool)} {t : Transport} {fuel : Nat} {X lost : Bytes}
    (hwf : WellFormedPreamble p recs) (hrole : p.role = 2)
    (hpairs : ∀ q ∈ p.pairs, (NV.enc q).length ≤ alignedBufsize b)
    (hnoise : NoiseFits (alignedBufsize b) recs)
    (htail : ∀ r ∈ tail, StreamNoise p.id r) (htn : NoiseFits (alignedBufsize b) tail)
    (hnb : ∀ r ∈ tail, r.rtype.toNat ≠ RT.beginRequest)
    (hwd : wr = false → data = [])
    (hcut : X ++ lost = serAll tail)
    (hin : t.input = serAll recs ++ X) (hben : Ben t) (hem : t.endMode = .eof) (hev : hsCount t.events = 0)
    (hfuel : t.rd.length + t.wr.length + 1 ≤ fuel) :
    ∃ c', runTask fuel (connS b mc t ((aHandler rd wr data st, true) :: more)) 0 none = (c', "RET") ∧
      (AuthCutFail2 p recs tail rd mc data more lost t c' ∨
       ∃ t₁ t₂ O₁ O₂ U, AuthCutEnd p recs tail t₁ t₂ O₁ O₂ U rd mc data st more lost t c') := by
  have hidle : ∀ r ∈ tail, IdleNoise r := idle_of_noBegin (fun r hr => (htail r hr).1) hnb
  have ok := aok_ofN (mc := mc) (rd := rd) (st := st) t.wlog 0 more hwf hrole hpairs hnoise htail htn hwd
  have hmem : ∀ t1 t2 : List Rec, (C07U.cfgA p recs tail b mc rd wr data st t.wlog 0 more).body = t1 ++ t2 →
      ∀ e ∈ t2, e ∈ tail := by
    intro t1 t2 hsp e he
    have : e ∈ (C07U.cfgA p recs tail b mc rd wr data st t.wlog 0 more).body := by
      rw [hsp]; exact List.mem_append_right _ he
    exact this
  have hgood : ∀ t1 t2 : List Rec, (C07U.cfgA p recs tail b mc rd wr data st t.wlog 0 more).body = t1 ++ t2 →
      GoodNext (alignedBufsize b) mc t2 (serAll dummyRecs ++ []) := fun t1 t2 hsp =>
    idle_front dummy_wf b mc (fun q hq => by cases hq) (dummy_fits _) (fun e he => hidle e (hmem t1 t2 hsp e he))
      (fun e he hg => htn e (hmem t1 t2 hsp e he) hg) []
  have hst : E2E.FStage (cutX (C07U.cfgA p recs tail b mc rd wr data st t.wlog 0 more) X)
      (connS b mc t ((aHandler rd wr data st, true) :: more)) :=
    .start (raw := []) rfl (by show [] ++ t.input = _; rw [hin]; rfl) (Nat.zero_le _) rfl hben rfl rfl rfl hev
  obtain ⟨c', fin, hrun, hres⟩ :=
    run_authCNF' ok (X := X) (lost := lost) (Zd := serAll dummyRecs ++ []) hcut
      (fun t1 t2 h => (hgood t1 t2 h).1) (fun t1 t2 h => (hgood t1 t2 h).2)
      _ 0 fuel hst hem rfl (by show ans t + 1 ≤ fuel; unfold ans; omega)
  have hL1 : (C07U.cfgA p recs tail b mc rd wr data st t.wlog 0 more).L1 = t.wlog ++ owedPreamble p mc recs := rfl
  have hLeq : ∀ O1 O2 : Bytes, ((C07U.cfgA p recs tail b mc rd wr data st t.wlog 0 more).L1 ++ O1) ++
      (C07U.cfgA p recs tail b mc rd wr data st t.wlog 0 more).D ++ O2 ++
      (C07U.cfgA p recs tail b mc rd wr data st t.wlog 0 more).epi =
      t.wlog ++ (owedPreamble p mc recs ++ O1 ++ streamRecords 6 p.id data ++ O2 ++ epilogue p.id st) := by
    intro O1 O2
    show ((t.wlog ++ owedPreamble p mc recs) ++ O1) ++ streamRecords 6 p.id data ++ O2 ++
      makeRequestEpilogue p.id st [RT.stdout, RT.stderr] = _
    rw [epilogue_eq]
    simp only [List.append_assoc]
  rcases hres with ⟨i, ⟨⟨hsp, hO, hU⟩, hk⟩, hkp, hem', _, _, _, hend⟩ | ⟨hfin, hfa, _, _⟩
  · rcases hend with ⟨_, hp⟩ | ⟨rfl, hf⟩
    · rw [hp.em] at hem'; cases hem'
    · obtain ⟨F, hF, hlg⟩ := hf.log
      have hFU : F = i.U := by
        have e : serAll i.t2 ++ (serAll dummyRecs ++ []) = i.U ++ (lost ++ (serAll dummyRecs ++ [])) := by
          rw [← hU, List.append_assoc]
        have hF' : F ++ (lost ++ (serAll dummyRecs ++ [])) = serAll i.t2 ++ (serAll dummyRecs ++ []) := hF
        rw [e] at hF'
        exact List.append_cancel_right hF'
      subst hFU
      have hs2 : ∀ e ∈ i.t2, IdleNoise e := fun e he => hidle e (hmem i.t1 i.t2 hsp e he)
      refine ⟨c', hrun, Or.inr ⟨i.t1, i.t2, i.O1, i.O2, i.U, hsp, hO, hU, hf.ph,
        ⟨hkp.hs, hkp.ev _ List.mem_cons_self⟩, fun s hs => hkp.ev _ (List.mem_cons_of_mem _ hs), hkp.sc,
        Or.inl ⟨hk, ?_, idle_out_prefix mc hs2 hU⟩⟩⟩
      rw [hlg, CIdx.L, hLeq]
      simp only [List.append_assoc]
      rfl
  · subst hfin
    rcases hfa with ⟨s1, s2, O1, O2, U', hsp, hO, hU, hrd, hfu⟩ | hfe
    · refine ⟨c', hrun, Or.inr ⟨s1, s2, O1, O2, U', hsp, hO, hU, hfu.ph, ⟨hfu.ev.1, hfu.ev.2⟩,
        fun s hs => hrd s hs, hfu.sc, Or.inr ⟨hfu.nokeep, ?_⟩⟩⟩
      rw [hfu.log, gU_LU]
      exact hLeq O1 O2
    · obtain ⟨O1, O2, hpre, hlg⟩ := hfe.wlog
      refine ⟨c', hrun, Or.inl ⟨hfe.phase, ⟨O1, O2, hpre, ?_⟩, hfe.input, hfe.lost, ⟨hfe.ev.1, hfe.ev.2⟩,
        fun s hs => hfe.reads s hs, hfe.scripts⟩⟩
      rw [hlg, hL1]
      show ((t.wlog ++ owedPreamble p mc recs) ++ O1) ++ streamRecords 6 p.id data = _
      simp only [List.append_assoc]

/-- **`eof_any_offset_auth_closed_e2e_unbounded` without `hhf`.** -/
theorem eof_any_offset_auth_closed_e2e_nofuel {p : Preamble} {recs tail : List Rec} {b mc : Nat} {rd : ARead} {wr : Bool}
    {data : Bytes} {st : ExitStatus} {more : List (List HOp × Bool)} {t : Transport} {fuel : Nat} (k : Nat)
    (hwf : WellFormedPreamble p recs) (hrole : p.role = 2)
    (hpairs : ∀ q ∈ p.pairs, (NV.enc q).length ≤ alignedBufsize b)
    (hnoise : NoiseFits (alignedBufsize b) recs)
    (htail : ∀ r ∈ tail, StreamNoise p.id r) (htn : NoiseFits (alignedBufsize b) tail)
    (hnb : ∀ r ∈ tail, r.rtype.toNat ≠ RT.beginRequest)
    (hwd : wr = false → data = [])
    (hin : t.input = (serAll recs ++ serAll tail).take k) (hben : Ben t) (hem : t.endMode = .eof)
    (hev : hsCount t.events = 0)
    (hfuel : t.rd.length + t.wr.length + 1 ≤ fuel) :
    ∃ c', runTask fuel (connS b mc t ((aHandler rd wr data st, true) :: more)) 0 none = (c', "RET") ∧
      c'.phase = .finished ∧
      ((k < (serAll recs).length ∧ c'.env.tr.input = [] ∧ hsCount c'.env.tr.events = 0 ∧
          ∃ out, c'.env.tr.wlog = t.wlog ++ out ∧ out <+: owedPreamble p mc recs) ∨
       ((serAll recs).length ≤ k ∧
          (AuthCutFail2 p recs tail rd mc data more ((serAll tail).drop (k - (serAll recs).length)) t c' ∨
           ∃ t₁ t₂ O₁ O₂ U, AuthCutEnd p recs tail t₁ t₂ O₁ O₂ U rd mc data st more
             ((serAll tail).drop (k - (serAll recs).length)) t c'))) := by
  by_cases hk : k < (serAll recs).length
  · obtain ⟨c', h1, h2, h3, h4, _, h6, h7⟩ := eof_in_preamble_e2e_partial_unbounded (serAll tail) b mc k
      ((aHandler rd wr data st, true) :: more) t fuel hwf hpairs hnoise hk hin hben hem hfuel
    exact ⟨c', h1, h2, Or.inl ⟨hk, h3, h4.trans hev, _, h6, h7⟩⟩
  · have hk' : (serAll recs).length ≤ k := Nat.le_of_not_lt hk
    obtain ⟨d, rfl⟩ : ∃ d, k = (serAll recs).length + d := ⟨k - (serAll recs).length, by omega⟩
    rw [take_len_add] at hin
    rw [show (serAll recs).length + d - (serAll recs).length = d by omega]
    obtain ⟨c', h1, h2⟩ := eof_in_auth_tail_closed_e2e_nofuel (more := more) (fuel := fuel) hwf hrole hpairs hnoise htail htn
      hnb hwd (List.take_append_drop d (serAll tail)) hin hben hem hev hfuel
    refine ⟨c', h1, ?_, Or.inr ⟨hk', h2⟩⟩
    rcases h2 with h | ⟨_, _, _, _, _, h⟩
    · exact h.phase
    · exact h.phase

/-- **`read_err_any_offset_auth_closed_e2e_unbounded` without `hhf`.** -/
theorem read_err_any_offset_auth_closed_e2e_nofuel {p : Preamble} {recs tail : List Rec} {b mc : Nat} {rd : ARead} {wr : Bool}
    {data : Bytes} {st : ExitStatus} {more : List (List HOp × Bool)} {t : Transport} {fuel : Nat} (k : Nat)
    (hwf : WellFormedPreamble p recs) (hrole : p.role = 2)
    (hpairs : ∀ q ∈ p.pairs, (NV.enc q).length ≤ alignedBufsize b)
    (hnoise : NoiseFits (alignedBufsize b) recs)
    (htail : ∀ r ∈ tail, StreamNoise p.id r) (htn : NoiseFits (alignedBufsize b) tail)
    (hnb : ∀ r ∈ tail, r.rtype.toNat ≠ RT.beginRequest)
    (hwd : wr = false → data = []) (hmore : ∀ s ∈ more, s.2 = true)
    (hin : t.input = (serAll recs ++ serAll tail).take k) (hben : Ben t) (hem : t.endMode = .eof)
    (hev : hsCount t.events = 0)
    (hfuel : t.rd.length + t.wr.length + 1 ≤ fuel) :
    ∃ ce c', runTask fuel (connS b mc t ((aHandler rd wr data st, true) :: more)) 0 none = (ce, "RET") ∧
      runTask fuel (connS b mc (em .err t) ((aHandler rd wr data st, true) :: more)) 0 none = (c', "RET") ∧
      c'.phase = .finished ∧ c'.env.tr.wlog = ce.env.tr.wlog ∧
      hsCount c'.env.tr.events = hsCount ce.env.tr.events ∧ c'.scripts = ce.scripts ∧
      (c' = emC .err ce ∨ HitC ce c') ∧
      -- the EOF run's closed form
      ((k < (serAll recs).length ∧ hsCount ce.env.tr.events = 0 ∧
          ∃ out, ce.env.tr.wlog = t.wlog ++ out ∧ out <+: owedPreamble p mc recs) ∨
       ((serAll recs).length ≤ k ∧
          (AuthCutFail2 p recs tail rd mc data more ((serAll tail).drop (k - (serAll recs).length)) t ce ∨
           ∃ t₁ t₂ O₁ O₂ U, AuthCutEnd p recs tail t₁ t₂ O₁ O₂ U rd mc data st more
             ((serAll tail).drop (k - (serAll recs).length)) t ce))) := by
  obtain ⟨ce, hrun, hph, hcl⟩ := eof_any_offset_auth_closed_e2e_nofuel (more := more) (fuel := fuel) (rd := rd) (wr := wr)
    (data := data) (st := st) k hwf hrole hpairs hnoise htail htn hnb hwd hin hben hem hev hfuel
  obtain ⟨c', hr, a1, a2, a3, a4, _, _, a7⟩ :=
    eof_err_lift (connS_allProp b mc t (aHandler rd wr data st) more hmore) hem hrun
  refine ⟨ce, c', hrun, hr, a1.trans hph, a2, a3, a4, a7, ?_⟩
  rcases hcl with ⟨h1, _, h3, h4⟩ | h
  · exact Or.inl ⟨h1, h3, h4⟩
  · exact Or.inr h

/-- **`eof_in_data_filter_e2e_unbounded` without `hhf`.** -/
theorem eof_in_data_filter_e2e_nofuel {p : Preamble} {recs srecs drecs : List Rec} {content content2 : Bytes} (Z : Bytes)
    (b mc : Nat) (data : Bytes) (st : ExitStatus) (t : Transport) (fuel : Nat)
    (hwf : WellFormedPreamble p recs) (hrole : p.role = 3)
    (hpairs : ∀ q ∈ p.pairs, (NV.enc q).length ≤ alignedBufsize b) (hnoise : NoiseFits (alignedBufsize b) recs)
    (hs : StreamRecs p.id 5 content srecs) (hsn : NoiseFits (alignedBufsize b) srecs)
    (hd : StreamRecs p.id 8 content2 drecs) (hdn : NoiseFits (alignedBufsize b) drecs)
    (hZ : serAll srecs.dropLast ++ Z <+: serAll srecs ++ serAll drecs) (hZ8 : 8 ≤ Z.length)
    (hZl : (serAll srecs.dropLast).length + Z.length < (serAll srecs).length + (serAll drecs.dropLast).length + 8)
    (hin : t.input = serAll recs ++ (serAll srecs.dropLast ++ Z)) (hb : Ben t) (hem : t.endMode = .eof)
    (hev : hsCount t.events = 0)
    (hfuel : t.rd.length + t.wr.length + 1 ≤ fuel) :
    ∃ c' C2 O2, runTask fuel (connS b mc t [(canonicalF data st, true)]) 0 none = (c', "RET") ∧
      c'.phase = .finished ∧ c'.env.tr.input = [] ∧ C2 <+: content2 ∧ O2 <+: owedStream p.id 8 mc drecs ∧
      c'.env.tr.wlog = t.wlog ++ owedPreamble p mc recs ++ (owedStream p.id 5 mc srecs ++ O2) ∧
      hsCount c'.env.tr.events = 1 ∧ startEvent p.request ∈ c'.env.tr.events ∧
      readEvent content ∈ c'.env.tr.events ∧ readEofEvent C2 ∈ c'.env.tr.events ∧
      handlerEofEvent ∈ c'.env.tr.events := by
  obtain ⟨body, pad, res, hpad, hbody, hsr⟩ := Str.StreamRecs.split hs
  obtain ⟨body2, pad2, res2, hpad2, hbody2, hdr⟩ := Str.StreamRecs.split hd
  have hdl : srecs.dropLast = body := by rw [hsr]; exact List.dropLast_concat
  have hdl2 : drecs.dropLast = body2 := by rw [hdr]; exact List.dropLast_concat
  rw [hdl] at hZ hZl hin
  rw [hdl2] at hZl
  have hsb : NoiseFits (alignedBufsize b) body := fun r hr => hsn r (by rw [hsr]; simp [hr])
  have hdb : NoiseFits (alignedBufsize b) body2 := fun r hr => hdn r (by rw [hdr]; simp [hr])
  have ok : (cfgF p recs content body pad res content2 body2 pad2 res2 b mc data st t.wlog 0 []).OKn :=
    ⟨hwf, hpairs, hnoise, .filterU hrole hbody hbody2 hsb hdb hpad hpad2 rfl rfl rfl rfl rfl rfl⟩
  obtain ⟨hK1, hK2, _⟩ := kokFN ok hrole hbody hbody2 hsb hdb hpad hpad2 rfl rfl
  have hid : p.id < 65536 := wf_id_lt hwf
  have h8 : 8 ≤ alignedBufsize b := by have := alignedBufsize_ge b; omega
  have htw : (trec 5 p.id pad res).WF := ⟨hid, by simp [trec], hpad⟩
  -- `Z` is a prefix of the Stdin terminator and the Data stream
  have hser : serAll srecs ++ serAll drecs =
      serAll body ++ ((trec 5 p.id pad res).ser ++ (serAll body2 ++ (trec 8 p.id pad2 res2).ser)) := by
    rw [hsr, hdr, C02.serAll_append, C02.serAll_single, C02.serAll_append, C02.serAll_single, List.append_assoc]
    rfl
  rw [hser] at hZ
  have hZ' : Z <+: (trec 5 p.id pad res).ser ++ (serAll body2 ++ (trec 8 p.id pad2 res2).ser) :=
    (List.prefix_append_right_inj _).1 hZ
  have hserl : (serAll srecs).length = (serAll body).length + (trec 5 p.id pad res).ser.length := by
    rw [hsr, C02.serAll_append, C02.serAll_single, List.length_append]; rfl
  -- cut the Data terminator down to the (fewer than 8) bytes of it that arrived
  obtain ⟨h, hh, hZh⟩ := prefix_cut hZ' (by omega)
  have htrole : rclass ⟨p.id, 3, 5, mc⟩ (trec 5 p.id pad res) = .endStream := by
    simp [rclass, trec, RT.isInputStream]
  have hpc : rclass ⟨p.id, 3, 8, mc⟩ (trec 5 p.id pad res) = .noise := by
    have hl : ¬ Later 3 (some 8) 5 := by decide
    simp [rclass, trec, RT.isInputStream, hl]
  have hpo : owed (some p.id) mc (trec 5 p.id pad res) = [] := by
    simp [owed, trec, RT.valid, RT.getValues, RT.beginRequest]
  obtain ⟨C2, O2, U2, hcut2, hC2, hO2⟩ := k2_cut p.id mc hid (trec 5 p.id pad res) htw hpc hpo hbody2 h8 hdb hh hZh
  have href1 := k1_ref p.id mc hid hbody (trec 5 p.id pad res) htw htrole hZ' hZ8
  -- the configuration
  let g : FCfg := ⟨p, recs, b, mc,
    ⟨⟨p.id, p.role, 5, mc⟩, p.request, alignedBufsize b, serAll body ++ Z, content, owedStream p.id 5 mc body, Z⟩,
    ⟨⟨p.id, 3, 8, mc⟩, p.request, alignedBufsize b, Z, C2, O2, U2⟩,
    oscript data st, [], t.wlog, 0⟩
  have hXpre : serAll body ++ Z <+: (cfgF p recs content body pad res content2 body2 pad2 res2 b mc data st t.wlog 0 []).X :=
    hZ
  have ok2 : g.OKu := by
    refine ⟨hwf, hrole, hpairs, hnoise, ⟨?_, fun G hG hv => hK1.fits G (hG.trans hXpre) hv, h8⟩,
      ⟨hcut2, fun G hG hv => hK2.fits G (hG.trans hZ') hv, h8⟩,
      ⟨by show (⟨p.id, p.role, 5, mc⟩ : Str.Cfg) = ⟨p.id, 3, 5, mc⟩; rw [hrole], rfl, rfl, rfl, rfl⟩, rfl, rfl, rfl⟩
    show refWire ⟨p.id, p.role, 5, mc⟩ (serAll body ++ Z) = _
    rw [hrole]; exact href1
  obtain ⟨c', hrun, hfin⟩ := fmid_run_start' ok2 (c := connS b mc t [(canonicalF data st, true)]) (n := 0) (fuel := fuel)
    rfl rfl hin rfl hb hem rfl rfl rfl hev hfuel
  have hO5 : owedStream p.id 5 mc srecs = owedStream p.id 5 mc body := by
    rw [hsr, owedStream_append, owedStream_term p.id 5 mc _ rfl, List.append_nil]
  have hO2' : O2 <+: owedStream p.id 8 mc drecs := by
    rw [hdr, Str.owedStream_append]
    exact hO2.trans (List.prefix_append _ _)
  refine ⟨c', C2, O2, hrun, hfin.phase, hfin.input, hC2, hO2', ?_, hfin.hs, hfin.start, hfin.read1, hfin.rerr, hfin.herr⟩
  rw [hO5]
  have hw : c'.env.tr.wlog = (t.wlog ++ owedPreamble p mc recs) ++ (owedStream p.id 5 mc body ++ O2) := hfin.wlog
  rw [hw]

/-- **`eof_any_offset_filter_e2e_unbounded` without `hhf`.** -/
theorem eof_any_offset_filter_e2e_nofuel {p : Preamble} {recs srecs drecs : List Rec} {content content2 : Bytes}
    {b mc : Nat} {data : Bytes} {st : ExitStatus} {t : Transport} {fuel : Nat} (k : Nat)
    (hwf : WellFormedPreamble p recs) (hrole : p.role = 3)
    (hpairs : ∀ q ∈ p.pairs, (NV.enc q).length ≤ alignedBufsize b) (hnoise : NoiseFits (alignedBufsize b) recs)
    (hs : StreamRecs p.id 5 content srecs) (hsn : NoiseFits (alignedBufsize b) srecs)
    (hd : StreamRecs p.id 8 content2 drecs) (hdn : NoiseFits (alignedBufsize b) drecs)
    (hin : t.input = (serAll recs ++ (serAll srecs ++ serAll drecs)).take k)
    (hk : k < (serAll recs).length + (serAll srecs).length + (serAll drecs.dropLast).length + 8 ∨
      (serAll recs ++ (serAll srecs ++ serAll drecs)).length ≤ k)
    (hb : Ben t) (hem : t.endMode = .eof) (hev : hsCount t.events = 0)
    (hfuel : t.rd.length + t.wr.length + 1 ≤ fuel) :
    ∃ c' O₁ O₂, runTask fuel (connS b mc t [(canonicalF data st, true)]) 0 none = (c', "RET") ∧
      c'.phase = .finished ∧ O₁ ++ O₂ = owedStream p.id 5 mc srecs ++ owedStream p.id 8 mc drecs ∧
      (∃ w, c'.env.tr.wlog = t.wlog ++ w ∧ w <+: expectedLogN p recs mc data st O₁ O₂) ∧
      hsCount c'.env.tr.events ≤ 1 ∧
      (k < (serAll recs).length → hsCount c'.env.tr.events = 0) ∧
      ((serAll recs).length ≤ k → hsCount c'.env.tr.events = 1 ∧ startEvent p.request ∈ c'.env.tr.events) ∧
      -- inside Stdin: the first read fails with UnexpectedEof after a prefix of the content
      ((serAll recs).length ≤ k → k < (serAll recs).length + (serAll srecs.dropLast).length + 8 →
        ∃ C, C <+: content ∧ readEofEvent C ∈ c'.env.tr.events ∧ handlerEofEvent ∈ c'.env.tr.events) ∧
      -- inside Data: Stdin was read completely, the second read fails with UnexpectedEof
      ((serAll recs).length + (serAll srecs.dropLast).length + 8 ≤ k →
        k < (serAll recs).length + (serAll srecs).length + (serAll drecs.dropLast).length + 8 →
        readEvent content ∈ c'.env.tr.events ∧
        ∃ C2, C2 <+: content2 ∧ readEofEvent C2 ∈ c'.env.tr.events ∧ handlerEofEvent ∈ c'.env.tr.events) ∧
      -- the whole wire: everything read, everything answered
      ((serAll recs ++ (serAll srecs ++ serAll drecs)).length ≤ k →
        readEvent content ∈ c'.env.tr.events ∧ readEvent content2 ∈ c'.env.tr.events ∧
        c'.env.tr.wlog = t.wlog ++ expectedLogN p recs mc data st O₁ O₂) := by
  obtain ⟨body, pad, res, hpad, hbody, hsr⟩ := Str.StreamRecs.split hs
  obtain ⟨body2, pad2, res2, hpad2, hbody2, hdr⟩ := Str.StreamRecs.split hd
  have hdl : srecs.dropLast = body := by rw [hsr]; exact List.dropLast_concat
  have hdl2 : drecs.dropLast = body2 := by rw [hdr]; exact List.dropLast_concat
  have hdll : (serAll srecs.dropLast).length = (serAll body).length := by rw [hdl]
  have hdll2 : (serAll drecs.dropLast).length = (serAll body2).length := by rw [hdl2]
  have hsl : (serAll srecs).length = (serAll body).length + (8 + pad.length) := by
    rw [hsr, C02.serAll_append, C02.serAll_single, List.length_append, ser_length]; rfl
  have hdlen : (serAll drecs).length = (serAll body2).length + (8 + pad2.length) := by
    rw [hdr, C02.serAll_append, C02.serAll_single, List.length_append, ser_length]; rfl
  have hO5 : owedStream p.id 5 mc srecs = owedStream p.id 5 mc body := by
    rw [hsr, owedStream_append, owedStream_term p.id 5 mc _ rfl, List.append_nil]
  by_cases h1 : k < (serAll recs).length
  · obtain ⟨c', hrun, hph, _, hhs, _, hlog, hpre⟩ := eof_in_preamble_e2e_partial_unbounded (p := p) (recs := recs)
      (serAll srecs ++ serAll drecs) b mc k [(canonicalF data st, true)] t fuel hwf hpairs hnoise h1 hin hb hem hfuel
    refine ⟨c', owedStream p.id 5 mc srecs ++ owedStream p.id 8 mc drecs, [], hrun, hph, List.append_nil _,
      ⟨_, hlog, ?_⟩, by omega, fun _ => hhs.trans hev, fun h => by omega, fun h => by omega, fun h => by omega,
      fun h => by simp only [List.length_append] at h; omega⟩
    refine hpre.trans ?_
    simp only [expectedLogN, List.append_assoc]
    exact List.prefix_append _ _
  · by_cases h2 : k < (serAll recs).length + (serAll srecs.dropLast).length + 8
    · obtain ⟨j, rfl⟩ : ∃ j, k = (serAll recs).length + j := ⟨k - (serAll recs).length, by omega⟩
      rw [take_add_append] at hin
      obtain ⟨c', C, O, hrun, hph, _, hC, hO, hlog, hhs, hst, hre, hhe⟩ := eof_in_stdin_filter_e2e_unbounded
        (p := p) (recs := recs) (srecs := srecs) (drecs := drecs) (content := content)
        ((serAll srecs ++ serAll drecs).take j) b mc data st t fuel hwf hrole hpairs hnoise hs hsn
        (List.take_prefix _ _) (by have := List.length_take_le j (serAll srecs ++ serAll drecs); omega)
        hin hb hem hfuel
      have hhs1 : hsCount c'.env.tr.events = 1 := by rw [hhs, hev]
      refine ⟨c', owedStream p.id 5 mc srecs ++ owedStream p.id 8 mc drecs, [], hrun, hph, List.append_nil _,
        ⟨owedPreamble p mc recs ++ O, by rw [hlog, List.append_assoc], ?_⟩, by omega,
        fun h => by omega, fun _ => ⟨hhs1, hst⟩, fun _ _ => ⟨C, hC, hre, hhe⟩, fun h => by omega,
        fun h => by simp only [List.length_append] at h; omega⟩
      obtain ⟨z, hz⟩ := hO
      simp only [expectedLogN, List.append_assoc, ← hz]
      exact ⟨z ++ (owedStream p.id 8 mc drecs ++ (streamRecords 6 p.id data ++ ([] ++ epilogue p.id st))), by
        simp only [List.append_assoc]⟩
    · by_cases h3 : k < (serAll recs).length + (serAll srecs).length + (serAll drecs.dropLast).length + 8
      · -- inside Data
        obtain ⟨z, rfl⟩ : ∃ z, k = (serAll recs).length + ((serAll body).length + z) :=
          ⟨k - (serAll recs).length - (serAll body).length, by omega⟩
        have hXs : serAll srecs ++ serAll drecs = serAll body ++ ((trec 5 p.id pad res).ser ++ serAll drecs) := by
          rw [hsr, C02.serAll_append, C02.serAll_single, List.append_assoc]; rfl
        rw [take_add_append, hXs, take_add_append] at hin
        have hZlen : (((trec 5 p.id pad res).ser ++ serAll drecs).take z).length = z := by
          rw [List.length_take, List.length_append, ser_length]
          have : (trec 5 p.id pad res).content.length = 0 := rfl
          have : (trec 5 p.id pad res).pad.length = pad.length := rfl
          omega
        obtain ⟨c', C2, O2, hrun, hph, _, hC2, hO2, hlog, hhs, hst, hr1, hre, hhe⟩ := eof_in_data_filter_e2e_nofuel
          (p := p) (recs := recs) (srecs := srecs) (drecs := drecs) (content := content) (content2 := content2)
          (((trec 5 p.id pad res).ser ++ serAll drecs).take z) b mc data st t fuel hwf hrole hpairs hnoise hs hsn hd hdn
          (by rw [hdl, hXs]; exact (List.prefix_append_right_inj _).2 (List.take_prefix _ _))
          (by rw [hZlen]; omega) (by rw [hdl, hdl2, hZlen]; omega) (by rw [hdl]; exact hin) hb hem hev hfuel
        refine ⟨c', owedStream p.id 5 mc srecs ++ owedStream p.id 8 mc drecs, [], hrun, hph, List.append_nil _,
          ⟨owedPreamble p mc recs ++ (owedStream p.id 5 mc srecs ++ O2), by rw [hlog, List.append_assoc], ?_⟩, by omega,
          fun h => by omega, fun _ => ⟨hhs, hst⟩, fun _ h => by omega,
          fun _ _ => ⟨hr1, C2, hC2, hre, hhe⟩, fun h => by simp only [List.length_append] at h; omega⟩
        obtain ⟨z', hz'⟩ := hO2
        simp only [expectedLogN, List.append_assoc, ← hz']
        exact ⟨z' ++ (streamRecords 6 p.id data ++ ([] ++ epilogue p.id st)), by simp only [List.append_assoc]⟩
      · -- the whole wire
        have hge : (serAll recs ++ (serAll srecs ++ serAll drecs)).length ≤ k := by
          rcases hk with hk | hk
          · exact absurd hk h3
          · exact hk
        have hin' : t.input = serAll recs ++ (serAll srecs ++ serAll drecs) := by
          rw [hin, List.take_of_length_le hge]
        obtain ⟨c', fin, O1, O2, hrun, hO, ho⟩ := single_request_e2e_filter_nofuel (data := data) (st := st) (fuel := fuel)
          hwf hrole hpairs hnoise hs hsn hd hdn hin' hb hev hfuel
        have hfinal : fin = "RET" ∧ c'.phase = .finished := by
          rcases ho.final with ⟨_, h, hph⟩ | ⟨_, _, h, hph⟩ | ⟨_, hp, _⟩
          · exact ⟨h, hph⟩
          · exact ⟨h, hph⟩
          · rw [hem] at hp; cases hp
        obtain ⟨rfl, hph⟩ := hfinal
        have hk' : ¬ k < (serAll recs).length := h1
        refine ⟨c', O1, O2, hrun, hph, hO, ⟨_, ho.log, List.prefix_refl _⟩, by rw [ho.one_handler.1]; omega,
          fun h => absurd h h1, fun _ => ho.one_handler, fun _ h => absurd h h2, fun _ h => absurd h h3,
          fun _ => ⟨ho.read_content _ (by simp), ho.read_content _ (by simp), ho.log⟩⟩

/-- **`eof_in_data_terminator_filter_e2e_unbounded` without `hhf`.** -/
theorem eof_in_data_terminator_filter_e2e_nofuel {p : Preamble} {recs srecs drecs : List Rec} {content content2 : Bytes}
    {b mc : Nat} {data : Bytes} {st : ExitStatus} {t : Transport} {fuel : Nat} (k : Nat)
    (hwf : WellFormedPreamble p recs) (hrole : p.role = 3)
    (hpairs : ∀ q ∈ p.pairs, (NV.enc q).length ≤ alignedBufsize b) (hnoise : NoiseFits (alignedBufsize b) recs)
    (hs : StreamRecs p.id 5 content srecs) (hsn : NoiseFits (alignedBufsize b) srecs)
    (hd : StreamRecs p.id 8 content2 drecs) (hdn : NoiseFits (alignedBufsize b) drecs)
    (hk : (serAll recs).length + (serAll srecs).length + (serAll drecs.dropLast).length + 8 ≤ k)
    (hin : t.input = (serAll recs ++ (serAll srecs ++ serAll drecs)).take k)
    (hb : Ben t) (hem : t.endMode = .eof) (hev : hsCount t.events = 0)
    (hfuel : t.rd.length + t.wr.length + 1 ≤ fuel) :
    ∃ c' O₁ O₂, runTask fuel (connS b mc t [(canonicalF data st, true)]) 0 none = (c', "RET") ∧
      O₁ ++ O₂ = owedStream p.id 5 mc srecs ++ owedStream p.id 8 mc drecs ∧ c'.phase = .finished ∧
      c'.env.tr.wlog = t.wlog ++ expectedLogN p recs mc data st O₁ O₂ ∧
      hsCount c'.env.tr.events = 1 ∧ startEvent p.request ∈ c'.env.tr.events ∧
      readEvent content ∈ c'.env.tr.events ∧ readEvent content2 ∈ c'.env.tr.events := by
  by_cases hlt : k < (serAll recs ++ (serAll srecs ++ serAll drecs)).length
  · obtain ⟨body, pad, res, hpad, hbody, hsr⟩ := Str.StreamRecs.split hs
    obtain ⟨body2, pad2, res2, hpad2, hbody2, hdr⟩ := Str.StreamRecs.split hd
    have hdl2 : drecs.dropLast = body2 := by rw [hdr]; exact List.dropLast_concat
    rw [hdl2] at hk
    have hsb : NoiseFits (alignedBufsize b) body := fun r hr => hsn r (by rw [hsr]; simp [hr])
    have hdb : NoiseFits (alignedBufsize b) body2 := fun r hr => hdn r (by rw [hdr]; simp [hr])
    have ok : (cfgF p recs content body pad res content2 body2 pad2 res2 b mc data st t.wlog 0 []).OKn :=
      ⟨hwf, hpairs, hnoise, .filterU hrole hbody hbody2 hsb hdb hpad hpad2 rfl rfl rfl rfl rfl rfl⟩
    have hser : serAll srecs ++ serAll drecs =
        serAll body ++ ((trec 5 p.id pad res).ser ++ (serAll body2 ++ (trec 8 p.id pad2 res2).ser)) := by
      rw [hsr, hdr, C02.serAll_append, C02.serAll_single, C02.serAll_append, C02.serAll_single, List.append_assoc]
      rfl
    have hsl : (serAll srecs).length = (serAll body).length + (trec 5 p.id pad res).ser.length := by
      rw [hsr, C02.serAll_append, C02.serAll_single, List.length_append]; rfl
    rw [hser] at hin hlt
    rw [hsl] at hk
    obtain ⟨n, rfl⟩ : ∃ n, k = (serAll recs).length + ((serAll body).length + ((trec 5 p.id pad res).ser.length +
        ((serAll body2).length + n))) :=
      ⟨k - (serAll recs).length - (serAll body).length - (trec 5 p.id pad res).ser.length - (serAll body2).length,
        by omega⟩
    have h8 : 8 ≤ n := by omega
    have hn : n < (trec 8 p.id pad2 res2).ser.length := by
      simp only [List.length_append] at hlt; omega
    rw [take_len_add, take_len_add, take_len_add, take_len_add] at hin
    have ok3 := cfg3_cutN ok hrole h8 hn
    have hstage : Stage (cutCfgF (cfgF p recs content body pad res content2 body2 pad2 res2 b mc data st t.wlog 0 []) n)
        (connS b mc t [(canonicalF data st, true)]) :=
      .start (raw := []) rfl (by show [] ++ t.input = _; rw [hin]; rfl) (Nat.zero_le _) rfl hb rfl rfl rfl hev
    obtain ⟨c', O1, O2, hO, hrun, hfin⟩ := run_from_stage3N' ok3 (ans t) (connS b mc t [(canonicalF data st, true)]) 0 fuel
      hstage hem rfl (Nat.le_refl _) (by unfold ans; omega)
    have hOt : owedStream p.id 5 mc srecs ++ owedStream p.id 8 mc drecs =
        owedStream p.id 5 mc body ++ owedStream p.id 8 mc body2 := by
      rw [hsr, hdr, owedStream_append, owedStream_append, owedStream_term p.id 5 mc _ rfl,
        owedStream_term p.id 8 mc _ rfl, List.append_nil, List.append_nil]
    have hlog : c'.env.tr.wlog =
        (cfgF p recs content body pad res content2 body2 pad2 res2 b mc data st t.wlog 0 []).L3 O1 O2 := hfin.log
    rw [L3_eq] at hlog
    have hev1 : hsCount c'.env.tr.events = 0 + 1 ∧ hsEvent p.request ∈ c'.env.tr.events := hfin.ev
    exact ⟨c', O1, O2, hrun, hO.trans hOt.symm, hfin.ph, hlog, hev1.1, hev1.2,
      hfin.re _ (by show rEvent content ∈ [rEvent content, rEvent content2]; simp),
      hfin.re _ (by show rEvent content2 ∈ [rEvent content, rEvent content2]; simp)⟩
  · have hin' : t.input = serAll recs ++ (serAll srecs ++ serAll drecs) := by
      rw [hin, List.take_of_length_le (by omega)]
    obtain ⟨c', fin, O1, O2, hrun, hO, ho⟩ := single_request_e2e_filter_nofuel (data := data) (st := st) (fuel := fuel)
      hwf hrole hpairs hnoise hs hsn hd hdn hin' hb hev hfuel
    have hfinal : fin = "RET" ∧ c'.phase = .finished := by
      rcases ho.final with ⟨_, h, hph⟩ | ⟨_, _, h, hph⟩ | ⟨_, hp, _⟩
      · exact ⟨h, hph⟩
      · exact ⟨h, hph⟩
      · rw [hem] at hp; cases hp
    obtain ⟨rfl, hph⟩ := hfinal
    exact ⟨c', O1, O2, hrun, hO, hph, ho.log, ho.one_handler.1, ho.one_handler.2, ho.read_content _ (by simp),
      ho.read_content _ (by simp)⟩

/-- **`eof_any_offset_filter_all_e2e_unbounded` without `hhf`.** -/
theorem eof_any_offset_filter_all_e2e_nofuel {p : Preamble} {recs srecs drecs : List Rec} {content content2 : Bytes}
    {b mc : Nat} {data : Bytes} {st : ExitStatus} {t : Transport} {fuel : Nat} (k : Nat)
    (hwf : WellFormedPreamble p recs) (hrole : p.role = 3)
    (hpairs : ∀ q ∈ p.pairs, (NV.enc q).length ≤ alignedBufsize b) (hnoise : NoiseFits (alignedBufsize b) recs)
    (hs : StreamRecs p.id 5 content srecs) (hsn : NoiseFits (alignedBufsize b) srecs)
    (hd : StreamRecs p.id 8 content2 drecs) (hdn : NoiseFits (alignedBufsize b) drecs)
    (hin : t.input = (serAll recs ++ (serAll srecs ++ serAll drecs)).take k)
    (hb : Ben t) (hem : t.endMode = .eof) (hev : hsCount t.events = 0)
    (hfuel : t.rd.length + t.wr.length + 1 ≤ fuel) :
    ∃ c' O₁ O₂, runTask fuel (connS b mc t [(canonicalF data st, true)]) 0 none = (c', "RET") ∧
      c'.phase = .finished ∧ O₁ ++ O₂ = owedStream p.id 5 mc srecs ++ owedStream p.id 8 mc drecs ∧
      (∃ w, c'.env.tr.wlog = t.wlog ++ w ∧ w <+: expectedLogN p recs mc data st O₁ O₂) ∧
      hsCount c'.env.tr.events ≤ 1 ∧
      (k < (serAll recs).length → hsCount c'.env.tr.events = 0) ∧
      ((serAll recs).length ≤ k → hsCount c'.env.tr.events = 1 ∧ startEvent p.request ∈ c'.env.tr.events) ∧
      ((serAll recs).length ≤ k → k < (serAll recs).length + (serAll srecs.dropLast).length + 8 →
        ∃ C, C <+: content ∧ readEofEvent C ∈ c'.env.tr.events ∧ handlerEofEvent ∈ c'.env.tr.events) ∧
      ((serAll recs).length + (serAll srecs.dropLast).length + 8 ≤ k →
        k < (serAll recs).length + (serAll srecs).length + (serAll drecs.dropLast).length + 8 →
        readEvent content ∈ c'.env.tr.events ∧
        ∃ C2, C2 <+: content2 ∧ readEofEvent C2 ∈ c'.env.tr.events ∧ handlerEofEvent ∈ c'.env.tr.events) ∧
      -- behind the header of the Data terminator: everything read, everything answered
      ((serAll recs).length + (serAll srecs).length + (serAll drecs.dropLast).length + 8 ≤ k →
        readEvent content ∈ c'.env.tr.events ∧ readEvent content2 ∈ c'.env.tr.events ∧
        c'.env.tr.wlog = t.wlog ++ expectedLogN p recs mc data st O₁ O₂) := by
  by_cases h3 : k < (serAll recs).length + (serAll srecs).length + (serAll drecs.dropLast).length + 8
  · obtain ⟨c', O1, O2, a1, a2, a3, a4, a5, a6, a7, a8, a9, _⟩ := eof_any_offset_filter_e2e_nofuel (data := data) (st := st)
      (fuel := fuel) k hwf hrole hpairs hnoise hs hsn hd hdn hin (Or.inl h3) hb hem hev hfuel
    exact ⟨c', O1, O2, a1, a2, a3, a4, a5, a6, a7, a8, a9, fun h => absurd h3 (by omega)⟩
  · have hge : (serAll recs).length + (serAll srecs).length + (serAll drecs.dropLast).length + 8 ≤ k := by omega
    obtain ⟨c', O1, O2, hrun, hO, hph, hlog, hhs, hst, hr1, hr2⟩ := eof_in_data_terminator_filter_e2e_nofuel (data := data)
      (st := st) (fuel := fuel) k hwf hrole hpairs hnoise hs hsn hd hdn hge hin hb hem hev hfuel
    have hsd : (serAll srecs.dropLast).length ≤ (serAll srecs).length := by
      obtain ⟨body, pad, res, _, _, hsr⟩ := Str.StreamRecs.split hs
      rw [hsr, List.dropLast_concat, C02.serAll_append, List.length_append]; omega
    refine ⟨c', O1, O2, hrun, hph, hO, ⟨_, hlog, List.prefix_refl _⟩, by omega, fun h => by omega,
      fun _ => ⟨hhs, hst⟩, fun _ h => by omega, fun _ h => absurd h h3, fun _ => ⟨hr1, hr2, hlog⟩⟩

/-- **`read_err_any_offset_filter_e2e_unbounded` without `hhf`.** -/
theorem read_err_any_offset_filter_e2e_nofuel {p : Preamble} {recs srecs drecs : List Rec} {content content2 : Bytes}
    {b mc : Nat} {data : Bytes} {st : ExitStatus} {t : Transport} {fuel : Nat} (k : Nat)
    (hwf : WellFormedPreamble p recs) (hrole : p.role = 3)
    (hpairs : ∀ q ∈ p.pairs, (NV.enc q).length ≤ alignedBufsize b) (hnoise : NoiseFits (alignedBufsize b) recs)
    (hs : StreamRecs p.id 5 content srecs) (hsn : NoiseFits (alignedBufsize b) srecs)
    (hd : StreamRecs p.id 8 content2 drecs) (hdn : NoiseFits (alignedBufsize b) drecs)
    (hin : t.input = (serAll recs ++ (serAll srecs ++ serAll drecs)).take k)
    (hb : Ben t) (hem : t.endMode = .eof) (hev : hsCount t.events = 0)
    (hfuel : t.rd.length + t.wr.length + 1 ≤ fuel) :
    ∃ c' O₁ O₂, runTask fuel (connS b mc (em .err t) [(canonicalF data st, true)]) 0 none = (c', "RET") ∧
      c'.phase = .finished ∧ O₁ ++ O₂ = owedStream p.id 5 mc srecs ++ owedStream p.id 8 mc drecs ∧
      (∃ w, c'.env.tr.wlog = t.wlog ++ w ∧ w <+: expectedLogN p recs mc data st O₁ O₂) ∧
      hsCount c'.env.tr.events ≤ 1 ∧
      (k < (serAll recs).length → hsCount c'.env.tr.events = 0) ∧
      ((serAll recs).length ≤ k → hsCount c'.env.tr.events = 1 ∧ startEvent p.request ∈ c'.env.tr.events) ∧
      ((serAll recs).length + (serAll srecs).length + (serAll drecs.dropLast).length + 8 ≤ k →
        c'.env.tr.wlog = t.wlog ++ expectedLogN p recs mc data st O₁ O₂) ∧
      ∃ ce, runTask fuel (connS b mc t [(canonicalF data st, true)]) 0 none = (ce, "RET") ∧
        (c' = emC .err ce ∨ HitC ce c') := by
  obtain ⟨ce, O1, O2, hrun, hph, hO, ⟨w, hw1, hw2⟩, h5, h6, h7, _, _, h10⟩ := eof_any_offset_filter_all_e2e_nofuel
    (data := data) (st := st) (fuel := fuel) k hwf hrole hpairs hnoise hs hsn hd hdn hin hb hem hev hfuel
  obtain ⟨c', hr, a1, a2, a3, _, _, a6, a7⟩ :=
    eof_err_lift (connS_allProp b mc t (canonicalF data st) [] (fun _ h => nomatch h)) hem hrun
  refine ⟨c', O1, O2, hr, a1.trans hph, hO, ⟨w, a2.trans hw1, hw2⟩, by rw [a3]; exact h5,
    fun h => a3.trans (h6 h), fun h => ⟨a3.trans (h7 h).1, a6 _ (isHS_start _) (h7 h).2⟩,
    fun h => a2.trans (h10 h).2.2, ce, hrun, a7⟩

/-- non-vacuity: the hypothesis bundle with an output of 70 000 000 bytes (the old `hhf` is false for it), for an arbitrary
compliant Authorizer wire cut at any offset `k` -/
example {p : Preamble} {recs tail : List Rec} {b mc : Nat} {rd : ARead} {st : ExitStatus}
    {more : List (List HOp × Bool)} {t : Transport} {fuel : Nat} (k : Nat)
    (hwf : WellFormedPreamble p recs) (hrole : p.role = 2)
    (hpairs : ∀ q ∈ p.pairs, (NV.enc q).length ≤ alignedBufsize b) (hnoise : NoiseFits (alignedBufsize b) recs)
    (htail : ∀ r ∈ tail, StreamNoise p.id r) (htn : NoiseFits (alignedBufsize b) tail)
    (hnb : ∀ r ∈ tail, r.rtype.toNat ≠ RT.beginRequest)
    (hin : t.input = (serAll recs ++ serAll tail).take k) (hben : Ben t) (hem : t.endMode = .eof)
    (hev : hsCount t.events = 0) (hfuel : t.rd.length + t.wr.length + 1 ≤ fuel) :
    ¬ (wcost C07E.ExampleNoFuel.bigData.length + 8 ≤ 1000) ∧
    ∃ c', runTask fuel (connS b mc t ((aHandler rd true C07E.ExampleNoFuel.bigData st, true) :: more)) 0 none = (c', "RET") ∧
      c'.phase = .finished := by
  refine ⟨by rw [C07E.ExampleNoFuel.bigData_len]; unfold wcost; omega, ?_⟩
  obtain ⟨c', h1, h2, _⟩ := eof_any_offset_auth_closed_e2e_nofuel (rd := rd) (wr := true) (data := C07E.ExampleNoFuel.bigData)
    (st := st) (more := more) k hwf hrole hpairs hnoise htail htn hnb (fun h => nomatch h) hin hben hem hev hfuel
  exact ⟨c', h1, h2⟩

end Fcgi.C12E
