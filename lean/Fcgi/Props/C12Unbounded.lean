import Fcgi.Proofs.E2ETruncUnb
import Fcgi.Props.C12E2E4
import Fcgi.Props.C12E2E9
import Fcgi.Props.C07Unbounded

/-!
# C12 — the end-to-end fault theorems without the size side conditions

`Props/C07Unbounded.lean` removed `… ≤ 100000` and the buffer-size term of `hhf` from the benign core
theorems.  This file does the same for the C12 end-to-end families: every theorem `X_unbounded` below is the
registered theorem `X` of `Props/C12E2E*.lean` with

* the hypothesis `hsize`/`hlen : K·|input| + M ≤ 100000` DROPPED (each poll takes `≤ 6·|input| + 26 ≤ connFuel c`
  steps: `Halts.pollB`; the primed executors of `Proofs/E2ETruncUnb.lean`), and
* the model-fuel hypothesis made independent of the buffer size `b`: `hcap : alignedBufsize b / 32 + 8 ≤ 1000`
  is DROPPED, `hhf` is `wcost |data| + 12 ≤ 1000` (Responder) resp. `wcost |data| + 24 ≤ 1000` (Filter) — the
  `4·cap` term of the handler fuel pays for the reads (`MCfg.OKu`, `FCfg.OKu`: `OK` without the `fuel` field).

So the statements speak about wires, records and buffers of ANY size; what is left of `hhf` bounds only the
length of the handler's own output `data` (the model's handler fuel is `1000 + …`; the crate has no such bound).
Proofs are verbatim copies (text transformation) of the registered ones.

Contents: truncation at EVERY offset, all three roles (`eof_any_offset_e2e_unbounded`,
`eof_any_offset_filter_all_e2e_unbounded`, `eof_any_offset_auth_closed_e2e_unbounded` and the lemmas they are made
of); the read-error twins (`read_err_*`, including the `C12E2E9` transfer corollaries `read_err_any_offset_*`);
the write-error / read-error-at-any-index theorems of `C12E2E4` (`write_error_e2e_unbounded`,
`read_error_at_index_e2e_unbounded`).  `runTask_script_indep3`, `runTask_eof_err`, `eof_err_lift` never had a size
hypothesis.
-/
namespace Fcgi.C12E
open Fcgi Fcgi.Req Fcgi.Str Fcgi.Async Fcgi.Run Fcgi.Spec Fcgi.E2E Fcgi.C07E Fcgi.C07U Fcgi.C12Inv Fcgi.Indep3 Fcgi.EofErr

/-! ## Truncation and read errors (`C12E2E`, `2`, `5`, `6`, `7`, `9`) -/

/-- `eof_in_preamble_e2e_partial` without the size hypothesis (and with a model-fuel bound free of `b`). -/
theorem eof_in_preamble_e2e_partial_unbounded {p : Preamble} {recs : List Rec} (X : Bytes) (b mc k : Nat)
    (scripts : List (List HOp × Bool)) (t : Transport) (fuel : Nat)
    (hwf : WellFormedPreamble p recs)
    (hpairs : ∀ q ∈ p.pairs, (NV.enc q).length ≤ alignedBufsize b) (hnoise : NoiseFits (alignedBufsize b) recs)
    (hk : k < (serAll recs).length) (hin : t.input = (serAll recs ++ X).take k)
    (hb : Ben t) (hem : t.endMode = .eof)
    (hfuel : t.rd.length + t.wr.length + 1 ≤ fuel) :
    ∃ c', runTask fuel (connS b mc t scripts) 0 none = (c', "RET") ∧ c'.phase = .finished ∧
      c'.env.tr.input = [] ∧ hsCount c'.env.tr.events = hsCount t.events ∧ c'.scripts = scripts ∧
      c'.env.tr.wlog = t.wlog ++ (run .header t.input mc).out ∧
      (run .header t.input mc).out <+: owedPreamble p mc recs := by
  have htake : t.input = (serAll recs).take k := by
    rw [hin, List.take_append_of_le_length (Nat.le_of_lt hk)]
  have hdrop : (serAll recs).drop k ≠ [] := by
    intro h
    have := congrArg List.length h
    simp only [List.length_drop, List.length_nil] at this
    omega
  have hK : TCtx (alignedBufsize b) mc t.input ((serAll recs ++ X).drop k) (serAll recs ++ X) :=
    ⟨alignedBufsize_ge b, by rw [hin]; exact List.take_append_drop _ _, noStuck_of hwf X b mc hpairs hnoise, by
      rintro F ⟨z, hz⟩
      refine prefix_not_final hwf (w := F) (t := z ++ (serAll recs).drop k) ?_ ?_ mc
      · rw [← List.append_assoc, hz, htake, List.take_append_drop]
      · intro h; exact hdrop (List.append_eq_nil_iff.mp h).2⟩
  obtain ⟨c', hrun, hfin, hsc⟩ := trunc_run_start' hK (c := connS b mc t scripts) (n := 0) (fuel := fuel)
    rfl rfl rfl hb hem rfl hfuel
  refine ⟨c', hrun, hfin.phase, hfin.input, hfin.hs, hsc, hfin.wlog, ?_⟩
  have hsplit := Req.run_split (st := .header) trivial ((serAll recs).take k) ((serAll recs).drop k) mc hdrop
  rw [List.take_append_drop] at hsplit
  have hone := C01.C01_oneshot hwf [] mc
  rw [List.append_nil] at hone
  have hout : owedPreamble p mc recs = (run .header (serAll recs) mc).out := by rw [hone]
  rw [hout, hsplit, htake]
  exact List.prefix_append _ _

/-- `eof_mid_stream_e2e` without the size hypothesis (and with a model-fuel bound free of `b`). -/
theorem eof_mid_stream_e2e_unbounded {p : Preamble} {recs : List Rec} (Y C O U : Bytes) (b mc : Nat) (rest : List HOp)
    (more : List (List HOp × Bool)) (t : Transport) (fuel : Nat)
    (hwf : WellFormedPreamble p recs) (hrole : p.role = 1 ∨ p.role = 3)
    (hpairs : ∀ q ∈ p.pairs, (NV.enc q).length ≤ alignedBufsize b) (hnoise : NoiseFits (alignedBufsize b) recs)
    (hcut : refWire ⟨p.id, p.role, 5, mc⟩ Y = ⟨C, O, .more, U⟩)
    (hfits : ∀ G, G <+: Y → (refWire ⟨p.id, p.role, 5, mc⟩ G).verdict = .more →
      (refWire ⟨p.id, p.role, 5, mc⟩ G).unread.length < alignedBufsize b)
    (hin : t.input = serAll recs ++ Y) (hb : Ben t) (hem : t.endMode = .eof)
    (hfuel : t.rd.length + t.wr.length + 1 ≤ fuel) :
    ∃ c', runTask fuel (connS b mc t ((.readAll :: rest, true) :: more)) 0 none = (c', "RET") ∧
      c'.phase = .finished ∧ c'.env.tr.input = [] ∧
      c'.env.tr.wlog = t.wlog ++ owedPreamble p mc recs ++ O ∧
      hsCount c'.env.tr.events = hsCount t.events + 1 ∧ startEvent p.request ∈ c'.env.tr.events ∧
      readEofEvent C ∈ c'.env.tr.events ∧ handlerEofEvent ∈ c'.env.tr.events ∧ c'.scripts = more := by
  let g : MCfg := ⟨p, recs, b, mc, Y, C, O, U, rest, more, t.wlog, hsCount t.events⟩
  have ok : g.OKu := ⟨hwf, hrole, hpairs, hnoise, ⟨hcut, hfits, by have := alignedBufsize_ge b; show 8 ≤ alignedBufsize b; omega⟩⟩
  obtain ⟨c', hrun, hfin⟩ := mid_run_start' ok (c := connS b mc t ((.readAll :: rest, true) :: more)) (n := 0)
    (fuel := fuel) rfl rfl hin rfl hb hem rfl rfl rfl rfl hfuel
  exact ⟨c', hrun, hfin.phase, hfin.input, hfin.wlog, hfin.hs, hfin.start, hfin.rerr, hfin.herr, hfin.scripts⟩

/-- `eof_mid_stream_e2e_body` without the size hypothesis (and with a model-fuel bound free of `b`). -/
theorem eof_mid_stream_e2e_body_unbounded {p : Preamble} {recs srecs : List Rec} {content : Bytes} (Y : Bytes)
    (b mc : Nat) (data : Bytes) (st : ExitStatus) (t : Transport) (fuel : Nat)
    (hwf : WellFormedPreamble p recs) (hrole : p.role = 1)
    (hpairs : ∀ q ∈ p.pairs, (NV.enc q).length ≤ alignedBufsize b) (hnoise : NoiseFits (alignedBufsize b) recs)
    (hs : StreamRecs p.id 5 content srecs) (hsn : NoiseFits (alignedBufsize b) srecs)
    (hY : Y <+: serAll srecs) (hYl : Y.length < (serAll srecs.dropLast).length + 8)
    (hin : t.input = serAll recs ++ Y) (hb : Ben t) (hem : t.endMode = .eof)
    (hfuel : t.rd.length + t.wr.length + 1 ≤ fuel) :
    ∃ c' C O, runTask fuel (conn0 b mc t data st) 0 none = (c', "RET") ∧
      c'.phase = .finished ∧ c'.env.tr.input = [] ∧ C <+: content ∧ O <+: owedStream p.id 5 mc srecs ∧
      c'.env.tr.wlog = t.wlog ++ owedPreamble p mc recs ++ O ∧
      hsCount c'.env.tr.events = hsCount t.events + 1 ∧ startEvent p.request ∈ c'.env.tr.events ∧
      readEofEvent C ∈ c'.env.tr.events ∧ handlerEofEvent ∈ c'.env.tr.events := by
  obtain ⟨body, pad, res, _, hbody, hsr⟩ := Str.StreamRecs.split hs
  have hdl : srecs.dropLast = body := by rw [hsr]; exact List.dropLast_concat
  rw [hdl] at hYl
  rw [hsr, C02.serAll_append] at hY
  have hid : p.id < 65536 := wf_id_lt hwf
  have hfitb : NoiseFits (alignedBufsize b) body := fun r hr => hsn r (by rw [hsr]; exact List.mem_append_left _ hr)
  have h8 : 8 ≤ alignedBufsize b := by have := alignedBufsize_ge b; omega
  have hcutY : ∃ C O U, refWire ⟨p.id, p.role, 5, mc⟩ Y = ⟨C, O, .more, U⟩ ∧ C <+: content ∧
      O <+: owedStream p.id 5 mc body ∧ (∀ G, G <+: Y → (refWire ⟨p.id, p.role, 5, mc⟩ G).verdict = .more →
        (refWire ⟨p.id, p.role, 5, mc⟩ G).unread.length < alignedBufsize b) := by
    rcases prefix_append_cases hY with ⟨w, rfl, _⟩ | ⟨z, _, hz⟩
    · refine cut_of_body' p.id p.role mc hid hbody h8 hfitb (h := w) ?_ (List.prefix_refl _)
      simp only [List.length_append] at hYl
      omega
    · exact cut_of_body p.id p.role mc hid hbody h8 hfitb ⟨z, hz⟩
  obtain ⟨C, O, U, hcut, hC, hO, hfits⟩ := hcutY
  have hO' : O <+: owedStream p.id 5 mc srecs := by
    rw [hsr, Str.owedStream_append]
    exact hO.trans (List.prefix_append _ _)
  obtain ⟨c', h1, h2, h3, h4, h5, h6, h7, h8, _⟩ := eof_mid_stream_e2e_unbounded Y C O U b mc _ [] t fuel hwf (Or.inl hrole)
    hpairs hnoise hcut hfits hin hb hem hfuel
  exact ⟨c', C, O, h1, h2, h3, hC, hO', h4, h5, h6, h7, h8⟩

/-- `eof_in_terminator_e2e` without the size hypothesis (and with a model-fuel bound free of `b`). -/
theorem eof_in_terminator_e2e_unbounded {p : Preamble} {recs : List Rec} {content : Bytes} {srecs : List Rec}
    {b mc : Nat} {data : Bytes} {st : ExitStatus} {t : Transport} {fuel : Nat} (k : Nat)
    (hwf : WellFormedPreamble p recs) (hrole : p.role = 1)
    (hpairs : ∀ q ∈ p.pairs, (NV.enc q).length ≤ alignedBufsize b)
    (hnoise : NoiseFits (alignedBufsize b) recs)
    (hs : StreamRecs p.id 5 content srecs) (hsn : NoiseFits (alignedBufsize b) srecs)
    (hk : (serAll recs).length + (serAll srecs.dropLast).length + 8 ≤ k)
    (hin : t.input = (serAll recs ++ serAll srecs).take k) (hben : Ben t) (hem : t.endMode = .eof)
    (hev : hsCount t.events = 0) (hfuel : t.rd.length + t.wr.length + 1 ≤ fuel)
    (hhf : wcost data.length + 12 ≤ 1000) :
    ∃ c' O₁ O₂, runTask fuel (conn0 b mc t data st) 0 none = (c', "RET") ∧
      O₁ ++ O₂ = owedStream p.id 5 mc srecs ∧ c'.phase = .finished ∧
      c'.env.tr.wlog = t.wlog ++ expectedLogN p recs mc data st O₁ O₂ ∧
      hsCount c'.env.tr.events = 1 ∧ startEvent p.request ∈ c'.env.tr.events ∧
      readEvent content ∈ c'.env.tr.events := by
  by_cases hlt : k < (serAll recs ++ serAll srecs).length
  · obtain ⟨body, pad, res, hpad, hbody, hsrecs⟩ := Str.StreamRecs.split hs
    have hdl : srecs.dropLast = body := by rw [hsrecs]; exact List.dropLast_concat
    rw [hdl] at hk
    have hsb : NoiseFits (alignedBufsize b) body := fun r hr => hsn r (by rw [hsrecs]; simp [hr])
    have ok : (cfgR p recs content body pad res b mc data st t.wlog 0 []).OK :=
      ⟨hwf, hpairs, hnoise, .responderU hrole hbody hsb hpad rfl rfl rfl rfl rfl rfl hhf⟩
    have hser : serAll srecs = serAll body ++ (trec 5 p.id pad res).ser := by
      rw [hsrecs, C02.serAll_append, C02.serAll_single]; rfl
    rw [hser] at hin hlt
    obtain ⟨n, rfl⟩ : ∃ n, k = (serAll recs).length + ((serAll body).length + n) :=
      ⟨k - (serAll recs).length - (serAll body).length, by omega⟩
    have h8 : 8 ≤ n := by omega
    have hn : n < (trec 5 p.id pad res).ser.length := by
      simp only [List.length_append] at hlt; omega
    rw [take_add_append, take_add_append] at hin
    have ok2 := cfg2_cut ok hrole h8 hn
    have hstage : Stage (cutCfg (cfgR p recs content body pad res b mc data st t.wlog 0 []) n)
        (conn0 b mc t data st) :=
      .start (raw := []) rfl (by show [] ++ t.input = _; rw [hin]; rfl) (Nat.zero_le _) rfl hben rfl rfl rfl hev
    obtain ⟨c', O1, O2, hO, hrun, hfin⟩ := run_from_stage2' ok2 (ans t) (conn0 b mc t data st) 0 fuel hstage hem rfl
      (Nat.le_refl _) (by unfold ans; omega)
    have hOt : owedStream p.id 5 mc srecs = owedStream p.id 5 mc body := by
      rw [hsrecs, owedStream_append, owedStream_term p.id 5 mc _ rfl, List.append_nil]
    have hlog : c'.env.tr.wlog = (cfgR p recs content body pad res b mc data st t.wlog 0 []).L3 O1 O2 := hfin.log
    rw [L3_eq] at hlog
    have hev1 : hsCount c'.env.tr.events = 0 + 1 ∧ hsEvent p.request ∈ c'.env.tr.events := hfin.ev
    exact ⟨c', O1, O2, hrun, hO.trans hOt.symm, hfin.ph, hlog, hev1.1, hev1.2,
      hfin.re _ (by show rEvent content ∈ [rEvent content]; simp)⟩
  · have hin' : t.input = serAll recs ++ serAll srecs := by
      rw [hin, List.take_of_length_le (by omega)]
    obtain ⟨c', fin, O1, O2, hrun, hO, ho⟩ :=
      single_request_e2e_unbounded (data := data) (st := st) (fuel := fuel) hwf hrole hpairs hnoise hs hsn hin' hben hev hfuel hhf
    rcases ho.final with ⟨_, rfl, hph⟩ | ⟨_, _, rfl, hph⟩ | ⟨_, hp, _⟩
    · exact ⟨c', O1, O2, hrun, hO, hph, ho.log, ho.one_handler.1, ho.one_handler.2, ho.read_content⟩
    · exact ⟨c', O1, O2, hrun, hO, hph, ho.log, ho.one_handler.1, ho.one_handler.2, ho.read_content⟩
    · rw [hem] at hp; cases hp

/-- `eof_any_offset_e2e` without the size hypothesis (and with a model-fuel bound free of `b`). -/
theorem eof_any_offset_e2e_unbounded {p : Preamble} {recs : List Rec} {content : Bytes} {srecs : List Rec}
    {b mc : Nat} {data : Bytes} {st : ExitStatus} {t : Transport} {fuel : Nat} (k : Nat)
    (hwf : WellFormedPreamble p recs) (hrole : p.role = 1)
    (hpairs : ∀ q ∈ p.pairs, (NV.enc q).length ≤ alignedBufsize b)
    (hnoise : NoiseFits (alignedBufsize b) recs)
    (hs : StreamRecs p.id 5 content srecs) (hsn : NoiseFits (alignedBufsize b) srecs)
    (hin : t.input = (serAll recs ++ serAll srecs).take k) (hben : Ben t) (hem : t.endMode = .eof)
    (hev : hsCount t.events = 0) (hfuel : t.rd.length + t.wr.length + 1 ≤ fuel)
    (hhf : wcost data.length + 12 ≤ 1000) :
    ∃ c' O₁ O₂, runTask fuel (conn0 b mc t data st) 0 none = (c', "RET") ∧ c'.phase = .finished ∧
      O₁ ++ O₂ = owedStream p.id 5 mc srecs ∧
      -- the log is a byte prefix of a complete log
      (∃ w, c'.env.tr.wlog = t.wlog ++ w ∧ w <+: expectedLogN p recs mc data st O₁ O₂) ∧
      -- at most one handler start; none for an incomplete preamble
      hsCount c'.env.tr.events ≤ 1 ∧
      (k < (serAll recs).length → hsCount c'.env.tr.events = 0) ∧
      ((serAll recs).length ≤ k → hsCount c'.env.tr.events = 1 ∧ startEvent p.request ∈ c'.env.tr.events) ∧
      -- a `readAll` that cannot be completed fails with `UnexpectedEof`, after a prefix of the content
      ((serAll recs).length ≤ k → k < (serAll recs).length + (serAll srecs.dropLast).length + 8 →
        ∃ C, C <+: content ∧ readEofEvent C ∈ c'.env.tr.events ∧ handlerEofEvent ∈ c'.env.tr.events) ∧
      -- behind the header of the terminating record: everything is read, everything is answered
      ((serAll recs).length + (serAll srecs.dropLast).length + 8 ≤ k →
        readEvent content ∈ c'.env.tr.events ∧
        c'.env.tr.wlog = t.wlog ++ expectedLogN p recs mc data st O₁ O₂) := by
  by_cases h1 : k < (serAll recs).length
  · -- inside the preamble
    obtain ⟨c', hrun, hph, _, hhs, _, hlog, hpre⟩ := eof_in_preamble_e2e_partial_unbounded (p := p) (recs := recs) (serAll srecs)
      b mc k [(canonical data st, true)] t fuel hwf hpairs hnoise h1 hin hben hem hfuel
    refine ⟨c', owedStream p.id 5 mc srecs, [], hrun, hph, List.append_nil _, ⟨_, hlog, ?_⟩, by omega,
      fun _ => hhs.trans hev, fun h => by omega, fun h => by omega, fun h => by omega⟩
    refine hpre.trans ?_
    simp only [expectedLogN, List.append_assoc]
    exact List.prefix_append _ _
  · by_cases h2 : k < (serAll recs).length + (serAll srecs.dropLast).length + 8
    · -- inside the stream, in front of the 8th byte of the terminating record
      obtain ⟨j, rfl⟩ : ∃ j, k = (serAll recs).length + j := ⟨k - (serAll recs).length, by omega⟩
      rw [take_add_append] at hin
      obtain ⟨c', C, O, hrun, hph, _, hC, hO, hlog, hhs, hst, hre, hhe⟩ := eof_mid_stream_e2e_body_unbounded
        (p := p) (recs := recs) (srecs := srecs) (content := content) ((serAll srecs).take j) b mc data st t fuel
        hwf hrole hpairs hnoise hs hsn (List.take_prefix _ _)
        (by have := List.length_take_le j (serAll srecs); omega) hin hben hem hfuel
      have hhs1 : hsCount c'.env.tr.events = 1 := by rw [hhs, hev]
      refine ⟨c', owedStream p.id 5 mc srecs, [], hrun, hph, List.append_nil _,
        ⟨owedPreamble p mc recs ++ O, by rw [hlog, List.append_assoc], ?_⟩, by omega,
        fun h => by omega, fun _ => ⟨hhs1, hst⟩, fun _ _ => ⟨C, hC, hre, hhe⟩, fun h => by omega⟩
      obtain ⟨z, hz⟩ := hO
      simp only [expectedLogN, List.append_assoc, ← hz]
      exact ⟨z ++ (streamRecords 6 p.id data ++ ([] ++ epilogue p.id st)), by simp only [List.append_assoc]⟩
    · -- behind the header of the terminating record
      obtain ⟨c', O1, O2, hrun, hO, hph, hlog, hhs, hst, hre⟩ := eof_in_terminator_e2e_unbounded (data := data) (st := st)
        (fuel := fuel) k hwf hrole hpairs hnoise hs hsn (by omega) hin hben hem hev hfuel hhf
      exact ⟨c', O1, O2, hrun, hph, hO, ⟨_, hlog, List.prefix_refl _⟩, by omega, fun h => by omega,
        fun _ => ⟨hhs, hst⟩, fun _ h => by omega, fun _ => ⟨hre, hlog⟩⟩

/-- `read_err_in_preamble_e2e` without the size hypothesis (and with a model-fuel bound free of `b`). -/
theorem read_err_in_preamble_e2e_unbounded {p : Preamble} {recs : List Rec} (X : Bytes) (b mc k : Nat)
    (scripts : List (List HOp × Bool)) (t : Transport) (fuel : Nat)
    (hwf : WellFormedPreamble p recs)
    (hpairs : ∀ q ∈ p.pairs, (NV.enc q).length ≤ alignedBufsize b) (hnoise : NoiseFits (alignedBufsize b) recs)
    (hk : k < (serAll recs).length) (hin : t.input = (serAll recs ++ X).take k)
    (hb : BenE t) (hem : t.endMode = .err)
    (hfuel : t.rd.length + t.wr.length + 1 ≤ fuel) :
    ∃ c', runTask fuel (connS b mc t scripts) 0 none = (c', "RET") ∧ c'.phase = .finished ∧
      c'.env.tr.input = [] ∧ hsCount c'.env.tr.events = hsCount t.events ∧ c'.scripts = scripts ∧
      c'.env.tr.wlog = t.wlog ++ (run .header t.input mc).out ∧
      (run .header t.input mc).out <+: owedPreamble p mc recs := by
  have htake : t.input = (serAll recs).take k := by
    rw [hin, List.take_append_of_le_length (Nat.le_of_lt hk)]
  have hdrop : (serAll recs).drop k ≠ [] := by
    intro h
    have := congrArg List.length h
    simp only [List.length_drop, List.length_nil] at this
    omega
  have hK : TCtx (alignedBufsize b) mc t.input ((serAll recs ++ X).drop k) (serAll recs ++ X) :=
    ⟨alignedBufsize_ge b, by rw [hin]; exact List.take_append_drop _ _, noStuck_of hwf X b mc hpairs hnoise, by
      rintro F ⟨z, hz⟩
      refine prefix_not_final hwf (w := F) (t := z ++ (serAll recs).drop k) ?_ ?_ mc
      · rw [← List.append_assoc, hz, htake, List.take_append_drop]
      · intro h; exact hdrop (List.append_eq_nil_iff.mp h).2⟩
  obtain ⟨c', hrun, hfin, hsc⟩ := trunc_run_startE' hK (c := connS b mc t scripts) (n := 0) (fuel := fuel)
    rfl rfl rfl hb hem rfl hfuel
  refine ⟨c', hrun, hfin.phase, hfin.input, hfin.hs, hsc, hfin.wlog, ?_⟩
  have hsplit := Req.run_split (st := .header) trivial ((serAll recs).take k) ((serAll recs).drop k) mc hdrop
  rw [List.take_append_drop] at hsplit
  have hone := C01.C01_oneshot hwf [] mc
  rw [List.append_nil] at hone
  have hout : owedPreamble p mc recs = (run .header (serAll recs) mc).out := by rw [hone]
  rw [hout, hsplit, htake]
  exact List.prefix_append _ _

/-- `read_err_mid_stream_e2e` without the size hypothesis (and with a model-fuel bound free of `b`). -/
theorem read_err_mid_stream_e2e_unbounded {p : Preamble} {recs : List Rec} (Y C O U : Bytes) (b mc : Nat) (rest : List HOp)
    (more : List (List HOp × Bool)) (t : Transport) (fuel : Nat)
    (hwf : WellFormedPreamble p recs) (hrole : p.role = 1 ∨ p.role = 3)
    (hpairs : ∀ q ∈ p.pairs, (NV.enc q).length ≤ alignedBufsize b) (hnoise : NoiseFits (alignedBufsize b) recs)
    (hcut : refWire ⟨p.id, p.role, 5, mc⟩ Y = ⟨C, O, .more, U⟩)
    (hfits : ∀ G, G <+: Y → (refWire ⟨p.id, p.role, 5, mc⟩ G).verdict = .more →
      (refWire ⟨p.id, p.role, 5, mc⟩ G).unread.length < alignedBufsize b)
    (hin : t.input = serAll recs ++ Y) (hb : BenE t) (hem : t.endMode = .err)
    (hfuel : t.rd.length + t.wr.length + 1 ≤ fuel) :
    ∃ c' x, runTask fuel (connS b mc t ((.readAll :: rest, true) :: more)) 0 none = (c', "RET") ∧
      x = c'.env.tr.rdErr ∧ c'.phase = .finished ∧ c'.env.tr.input = [] ∧
      c'.env.tr.wlog = t.wlog ++ owedPreamble p mc recs ++ O ∧
      hsCount c'.env.tr.events = hsCount t.events + 1 ∧ startEvent p.request ∈ c'.env.tr.events ∧
      readErrEvent x C ∈ c'.env.tr.events ∧ handlerErrEvent x ∈ c'.env.tr.events ∧ c'.scripts = more := by
  let g : MCfg := ⟨p, recs, b, mc, Y, C, O, U, rest, more, t.wlog, hsCount t.events⟩
  have ok : g.OKu := ⟨hwf, hrole, hpairs, hnoise, ⟨hcut, hfits, by have := alignedBufsize_ge b; show 8 ≤ alignedBufsize b; omega⟩⟩
  obtain ⟨c', hrun, hfin⟩ := mid_run_startE' ok (c := connS b mc t ((.readAll :: rest, true) :: more)) (n := 0)
    (fuel := fuel) rfl rfl hin rfl hb hem rfl rfl rfl rfl hfuel
  exact ⟨c', _, hrun, rfl, hfin.phase, hfin.input, hfin.wlog, hfin.hs, hfin.start, hfin.rerr, hfin.herr, hfin.scripts⟩

/-- `read_err_mid_stream_e2e_body` without the size hypothesis (and with a model-fuel bound free of `b`). -/
theorem read_err_mid_stream_e2e_body_unbounded {p : Preamble} {recs srecs : List Rec} {content : Bytes} (Y : Bytes)
    (b mc : Nat) (data : Bytes) (st : ExitStatus) (t : Transport) (fuel : Nat)
    (hwf : WellFormedPreamble p recs) (hrole : p.role = 1)
    (hpairs : ∀ q ∈ p.pairs, (NV.enc q).length ≤ alignedBufsize b) (hnoise : NoiseFits (alignedBufsize b) recs)
    (hs : StreamRecs p.id 5 content srecs) (hsn : NoiseFits (alignedBufsize b) srecs)
    (hY : Y <+: serAll srecs) (hYl : Y.length < (serAll srecs.dropLast).length + 8)
    (hin : t.input = serAll recs ++ Y) (hb : BenE t) (hem : t.endMode = .err)
    (hfuel : t.rd.length + t.wr.length + 1 ≤ fuel) :
    ∃ c' x C O, runTask fuel (conn0 b mc t data st) 0 none = (c', "RET") ∧
      x = c'.env.tr.rdErr ∧ (x = .connectionAborted ∨ x = .transportRead) ∧
      c'.phase = .finished ∧ c'.env.tr.input = [] ∧ C <+: content ∧ O <+: owedStream p.id 5 mc srecs ∧
      c'.env.tr.wlog = t.wlog ++ owedPreamble p mc recs ++ O ∧
      hsCount c'.env.tr.events = hsCount t.events + 1 ∧ startEvent p.request ∈ c'.env.tr.events ∧
      readErrEvent x C ∈ c'.env.tr.events ∧ handlerErrEvent x ∈ c'.env.tr.events := by
  obtain ⟨body, pad, res, _, hbody, hsr⟩ := Str.StreamRecs.split hs
  have hdl : srecs.dropLast = body := by rw [hsr]; exact List.dropLast_concat
  rw [hdl] at hYl
  rw [hsr, C02.serAll_append] at hY
  have hid : p.id < 65536 := wf_id_lt hwf
  have hfitb : NoiseFits (alignedBufsize b) body := fun r hr => hsn r (by rw [hsr]; exact List.mem_append_left _ hr)
  have h8 : 8 ≤ alignedBufsize b := by have := alignedBufsize_ge b; omega
  have hcutY : ∃ C O U, refWire ⟨p.id, p.role, 5, mc⟩ Y = ⟨C, O, .more, U⟩ ∧ C <+: content ∧
      O <+: owedStream p.id 5 mc body ∧ (∀ G, G <+: Y → (refWire ⟨p.id, p.role, 5, mc⟩ G).verdict = .more →
        (refWire ⟨p.id, p.role, 5, mc⟩ G).unread.length < alignedBufsize b) := by
    rcases prefix_append_cases hY with ⟨w, rfl, _⟩ | ⟨z, _, hz⟩
    · refine cut_of_body' p.id p.role mc hid hbody h8 hfitb (h := w) ?_ (List.prefix_refl _)
      simp only [List.length_append] at hYl
      omega
    · exact cut_of_body p.id p.role mc hid hbody h8 hfitb ⟨z, hz⟩
  obtain ⟨C, O, U, hcut, hC, hO, hfits⟩ := hcutY
  have hO' : O <+: owedStream p.id 5 mc srecs := by
    rw [hsr, Str.owedStream_append]
    exact hO.trans (List.prefix_append _ _)
  obtain ⟨c', x, h1, hx, h2, h3, h4, h5, h6, h7, h8, _⟩ := read_err_mid_stream_e2e_unbounded Y C O U b mc _ [] t fuel hwf (Or.inl hrole)
    hpairs hnoise hcut hfits hin hb hem hfuel
  exact ⟨c', x, C, O, h1, hx, by rw [hx]; exact rdErr_kinds _, h2, h3, hC, hO', h4, h5, h6, h7, h8⟩

/-- `eof_in_stdin_filter_e2e` without the size hypothesis (and with a model-fuel bound free of `b`). -/
theorem eof_in_stdin_filter_e2e_unbounded {p : Preamble} {recs srecs drecs : List Rec} {content : Bytes} (Y : Bytes)
    (b mc : Nat) (data : Bytes) (st : ExitStatus) (t : Transport) (fuel : Nat)
    (hwf : WellFormedPreamble p recs) (hrole : p.role = 3)
    (hpairs : ∀ q ∈ p.pairs, (NV.enc q).length ≤ alignedBufsize b) (hnoise : NoiseFits (alignedBufsize b) recs)
    (hs : StreamRecs p.id 5 content srecs) (hsn : NoiseFits (alignedBufsize b) srecs)
    (hY : Y <+: serAll srecs ++ serAll drecs) (hYl : Y.length < (serAll srecs.dropLast).length + 8)
    (hin : t.input = serAll recs ++ Y) (hb : Ben t) (hem : t.endMode = .eof)
    (hfuel : t.rd.length + t.wr.length + 1 ≤ fuel) :
    ∃ c' C O, runTask fuel (connS b mc t [(canonicalF data st, true)]) 0 none = (c', "RET") ∧
      c'.phase = .finished ∧ c'.env.tr.input = [] ∧ C <+: content ∧ O <+: owedStream p.id 5 mc srecs ∧
      c'.env.tr.wlog = t.wlog ++ owedPreamble p mc recs ++ O ∧
      hsCount c'.env.tr.events = hsCount t.events + 1 ∧ startEvent p.request ∈ c'.env.tr.events ∧
      readEofEvent C ∈ c'.env.tr.events ∧ handlerEofEvent ∈ c'.env.tr.events := by
  obtain ⟨body, pad, res, _, hbody, hsr⟩ := Str.StreamRecs.split hs
  have hdl : srecs.dropLast = body := by rw [hsr]; exact List.dropLast_concat
  rw [hdl] at hYl
  rw [hsr, C02.serAll_append, List.append_assoc] at hY
  have hid : p.id < 65536 := wf_id_lt hwf
  have hfitb : NoiseFits (alignedBufsize b) body := fun r hr => hsn r (by rw [hsr]; exact List.mem_append_left _ hr)
  have h8 : 8 ≤ alignedBufsize b := by have := alignedBufsize_ge b; omega
  have hcutY : ∃ C O U, refWire ⟨p.id, p.role, 5, mc⟩ Y = ⟨C, O, .more, U⟩ ∧ C <+: content ∧
      O <+: owedStream p.id 5 mc body ∧ (∀ G, G <+: Y → (refWire ⟨p.id, p.role, 5, mc⟩ G).verdict = .more →
        (refWire ⟨p.id, p.role, 5, mc⟩ G).unread.length < alignedBufsize b) := by
    rcases prefix_append_cases hY with ⟨w, rfl, _⟩ | ⟨z, _, hz⟩
    · refine cut_of_body' p.id p.role mc hid hbody h8 hfitb (h := w) ?_ (List.prefix_refl _)
      simp only [List.length_append] at hYl
      omega
    · exact cut_of_body p.id p.role mc hid hbody h8 hfitb ⟨z, hz⟩
  obtain ⟨C, O, U, hcut, hC, hO, hfits⟩ := hcutY
  have hO' : O <+: owedStream p.id 5 mc srecs := by
    rw [hsr, Str.owedStream_append]
    exact hO.trans (List.prefix_append _ _)
  obtain ⟨c', h1, h2, h3, h4, h5, h6, h7, h8, _⟩ := eof_mid_stream_e2e_unbounded Y C O U b mc
    [.setStream 8, .readAll, .open_ 6, .writeAll 0 data, .dropW 0, .ret st] [] t fuel hwf (Or.inr hrole)
    hpairs hnoise hcut hfits hin hb hem hfuel
  exact ⟨c', C, O, h1, h2, h3, hC, hO', h4, h5, h6, h7, h8⟩

/-- `eof_in_data_filter_e2e` without the size hypothesis (and with a model-fuel bound free of `b`). -/
theorem eof_in_data_filter_e2e_unbounded {p : Preamble} {recs srecs drecs : List Rec} {content content2 : Bytes} (Z : Bytes)
    (b mc : Nat) (data : Bytes) (st : ExitStatus) (t : Transport) (fuel : Nat)
    (hwf : WellFormedPreamble p recs) (hrole : p.role = 3)
    (hpairs : ∀ q ∈ p.pairs, (NV.enc q).length ≤ alignedBufsize b) (hnoise : NoiseFits (alignedBufsize b) recs)
    (hs : StreamRecs p.id 5 content srecs) (hsn : NoiseFits (alignedBufsize b) srecs)
    (hd : StreamRecs p.id 8 content2 drecs) (hdn : NoiseFits (alignedBufsize b) drecs)
    (hZ : serAll srecs.dropLast ++ Z <+: serAll srecs ++ serAll drecs) (hZ8 : 8 ≤ Z.length)
    (hZl : (serAll srecs.dropLast).length + Z.length < (serAll srecs).length + (serAll drecs.dropLast).length + 8)
    (hin : t.input = serAll recs ++ (serAll srecs.dropLast ++ Z)) (hb : Ben t) (hem : t.endMode = .eof)
    (hev : hsCount t.events = 0)
    (hfuel : t.rd.length + t.wr.length + 1 ≤ fuel)
    (hhf : wcost data.length + 24 ≤ 1000) :
    ∃ c' C2 O2, runTask fuel (connS b mc t [(canonicalF data st, true)]) 0 none = (c', "RET") ∧
      c'.phase = .finished ∧ c'.env.tr.input = [] ∧ C2 <+: content2 ∧ O2 <+: owedStream p.id 8 mc drecs ∧
      c'.env.tr.wlog = t.wlog ++ owedPreamble p mc recs ++ (owedStream p.id 5 mc srecs ++ O2) ∧
      hsCount c'.env.tr.events = 1 ∧ startEvent p.request ∈ c'.env.tr.events ∧
      readEvent content ∈ c'.env.tr.events ∧ readEofEvent C2 ∈ c'.env.tr.events ∧
      handlerEofEvent ∈ c'.env.tr.events := by
  obtain ⟨body, pad, res, hpad, hbody, hsr⟩ := Str.StreamRecs.split hs
  obtain ⟨body2, pad2, res2, hpad2, hbody2, hdr⟩ := Str.StreamRecs.split hd
  have hdl : srecs.dropLast = body := by rw [hsr]; exact List.dropLast_concat
  have hdl2 : drecs.dropLast = body2 := by rw [hdr]; exact List.dropLast_concat
  rw [hdl] at hZ hZl hin
  rw [hdl2] at hZl
  have hsb : NoiseFits (alignedBufsize b) body := fun r hr => hsn r (by rw [hsr]; simp [hr])
  have hdb : NoiseFits (alignedBufsize b) body2 := fun r hr => hdn r (by rw [hdr]; simp [hr])
  have ok : (cfgF p recs content body pad res content2 body2 pad2 res2 b mc data st t.wlog 0 []).OK :=
    ⟨hwf, hpairs, hnoise, .filterU hrole hbody hbody2 hsb hdb hpad hpad2 rfl rfl rfl rfl rfl rfl hhf⟩
  obtain ⟨hK1, hK2, _⟩ := kokF ok hrole hbody hbody2 hsb hdb hpad hpad2 rfl rfl
  have hid : p.id < 65536 := wf_id_lt hwf
  have h8 : 8 ≤ alignedBufsize b := by have := alignedBufsize_ge b; omega
  have htw : (trec 5 p.id pad res).WF := ⟨hid, by simp [trec], hpad⟩
  -- `Z` is a prefix of the Stdin terminator and the Data stream
  have hser : serAll srecs ++ serAll drecs =
      serAll body ++ ((trec 5 p.id pad res).ser ++ (serAll body2 ++ (trec 8 p.id pad2 res2).ser)) := by
    rw [hsr, hdr, C02.serAll_append, C02.serAll_single, C02.serAll_append, C02.serAll_single, List.append_assoc]
    rfl
  rw [hser] at hZ
  have hZ' : Z <+: (trec 5 p.id pad res).ser ++ (serAll body2 ++ (trec 8 p.id pad2 res2).ser) :=
    (List.prefix_append_right_inj _).1 hZ
  have hserl : (serAll srecs).length = (serAll body).length + (trec 5 p.id pad res).ser.length := by
    rw [hsr, C02.serAll_append, C02.serAll_single, List.length_append]; rfl
  -- cut the Data terminator down to the (fewer than 8) bytes of it that arrived
  obtain ⟨h, hh, hZh⟩ := prefix_cut hZ' (by omega)
  have htrole : rclass ⟨p.id, 3, 5, mc⟩ (trec 5 p.id pad res) = .endStream := by
    simp [rclass, trec, RT.isInputStream]
  have hpc : rclass ⟨p.id, 3, 8, mc⟩ (trec 5 p.id pad res) = .noise := by
    have hl : ¬ Later 3 (some 8) 5 := by decide
    simp [rclass, trec, RT.isInputStream, hl]
  have hpo : owed (some p.id) mc (trec 5 p.id pad res) = [] := by
    simp [owed, trec, RT.valid, RT.getValues, RT.beginRequest]
  obtain ⟨C2, O2, U2, hcut2, hC2, hO2⟩ := k2_cut p.id mc hid (trec 5 p.id pad res) htw hpc hpo hbody2 h8 hdb hh hZh
  have href1 := k1_ref p.id mc hid hbody (trec 5 p.id pad res) htw htrole hZ' hZ8
  -- the configuration
  let g : FCfg := ⟨p, recs, b, mc,
    ⟨⟨p.id, p.role, 5, mc⟩, p.request, alignedBufsize b, serAll body ++ Z, content, owedStream p.id 5 mc body, Z⟩,
    ⟨⟨p.id, 3, 8, mc⟩, p.request, alignedBufsize b, Z, C2, O2, U2⟩,
    oscript data st, [], t.wlog, 0⟩
  have hXpre : serAll body ++ Z <+: (cfgF p recs content body pad res content2 body2 pad2 res2 b mc data st t.wlog 0 []).X :=
    hZ
  have ok2 : g.OKu := by
    refine ⟨hwf, hrole, hpairs, hnoise, ⟨?_, fun G hG hv => hK1.fits G (hG.trans hXpre) hv, h8⟩,
      ⟨hcut2, fun G hG hv => hK2.fits G (hG.trans hZ') hv, h8⟩,
      ⟨by show (⟨p.id, p.role, 5, mc⟩ : Str.Cfg) = ⟨p.id, 3, 5, mc⟩; rw [hrole], rfl, rfl, rfl, rfl⟩, rfl, rfl, rfl⟩
    show refWire ⟨p.id, p.role, 5, mc⟩ (serAll body ++ Z) = _
    rw [hrole]; exact href1
  obtain ⟨c', hrun, hfin⟩ := fmid_run_start' ok2 (c := connS b mc t [(canonicalF data st, true)]) (n := 0) (fuel := fuel)
    rfl rfl hin rfl hb hem rfl rfl rfl hev hfuel
  have hO5 : owedStream p.id 5 mc srecs = owedStream p.id 5 mc body := by
    rw [hsr, owedStream_append, owedStream_term p.id 5 mc _ rfl, List.append_nil]
  have hO2' : O2 <+: owedStream p.id 8 mc drecs := by
    rw [hdr, Str.owedStream_append]
    exact hO2.trans (List.prefix_append _ _)
  refine ⟨c', C2, O2, hrun, hfin.phase, hfin.input, hC2, hO2', ?_, hfin.hs, hfin.start, hfin.read1, hfin.rerr, hfin.herr⟩
  rw [hO5]
  have hw : c'.env.tr.wlog = (t.wlog ++ owedPreamble p mc recs) ++ (owedStream p.id 5 mc body ++ O2) := hfin.wlog
  rw [hw]

/-- `eof_any_offset_filter_e2e` without the size hypothesis (and with a model-fuel bound free of `b`). -/
theorem eof_any_offset_filter_e2e_unbounded {p : Preamble} {recs srecs drecs : List Rec} {content content2 : Bytes}
    {b mc : Nat} {data : Bytes} {st : ExitStatus} {t : Transport} {fuel : Nat} (k : Nat)
    (hwf : WellFormedPreamble p recs) (hrole : p.role = 3)
    (hpairs : ∀ q ∈ p.pairs, (NV.enc q).length ≤ alignedBufsize b) (hnoise : NoiseFits (alignedBufsize b) recs)
    (hs : StreamRecs p.id 5 content srecs) (hsn : NoiseFits (alignedBufsize b) srecs)
    (hd : StreamRecs p.id 8 content2 drecs) (hdn : NoiseFits (alignedBufsize b) drecs)
    (hin : t.input = (serAll recs ++ (serAll srecs ++ serAll drecs)).take k)
    (hk : k < (serAll recs).length + (serAll srecs).length + (serAll drecs.dropLast).length + 8 ∨
      (serAll recs ++ (serAll srecs ++ serAll drecs)).length ≤ k)
    (hb : Ben t) (hem : t.endMode = .eof) (hev : hsCount t.events = 0)
    (hfuel : t.rd.length + t.wr.length + 1 ≤ fuel)
    (hhf : wcost data.length + 24 ≤ 1000) :
    ∃ c' O₁ O₂, runTask fuel (connS b mc t [(canonicalF data st, true)]) 0 none = (c', "RET") ∧
      c'.phase = .finished ∧ O₁ ++ O₂ = owedStream p.id 5 mc srecs ++ owedStream p.id 8 mc drecs ∧
      (∃ w, c'.env.tr.wlog = t.wlog ++ w ∧ w <+: expectedLogN p recs mc data st O₁ O₂) ∧
      hsCount c'.env.tr.events ≤ 1 ∧
      (k < (serAll recs).length → hsCount c'.env.tr.events = 0) ∧
      ((serAll recs).length ≤ k → hsCount c'.env.tr.events = 1 ∧ startEvent p.request ∈ c'.env.tr.events) ∧
      -- inside Stdin: the first read fails with UnexpectedEof after a prefix of the content
      ((serAll recs).length ≤ k → k < (serAll recs).length + (serAll srecs.dropLast).length + 8 →
        ∃ C, C <+: content ∧ readEofEvent C ∈ c'.env.tr.events ∧ handlerEofEvent ∈ c'.env.tr.events) ∧
      -- inside Data: Stdin was read completely, the second read fails with UnexpectedEof
      ((serAll recs).length + (serAll srecs.dropLast).length + 8 ≤ k →
        k < (serAll recs).length + (serAll srecs).length + (serAll drecs.dropLast).length + 8 →
        readEvent content ∈ c'.env.tr.events ∧
        ∃ C2, C2 <+: content2 ∧ readEofEvent C2 ∈ c'.env.tr.events ∧ handlerEofEvent ∈ c'.env.tr.events) ∧
      -- the whole wire: everything read, everything answered
      ((serAll recs ++ (serAll srecs ++ serAll drecs)).length ≤ k →
        readEvent content ∈ c'.env.tr.events ∧ readEvent content2 ∈ c'.env.tr.events ∧
        c'.env.tr.wlog = t.wlog ++ expectedLogN p recs mc data st O₁ O₂) := by
  obtain ⟨body, pad, res, hpad, hbody, hsr⟩ := Str.StreamRecs.split hs
  obtain ⟨body2, pad2, res2, hpad2, hbody2, hdr⟩ := Str.StreamRecs.split hd
  have hdl : srecs.dropLast = body := by rw [hsr]; exact List.dropLast_concat
  have hdl2 : drecs.dropLast = body2 := by rw [hdr]; exact List.dropLast_concat
  have hdll : (serAll srecs.dropLast).length = (serAll body).length := by rw [hdl]
  have hdll2 : (serAll drecs.dropLast).length = (serAll body2).length := by rw [hdl2]
  have hsl : (serAll srecs).length = (serAll body).length + (8 + pad.length) := by
    rw [hsr, C02.serAll_append, C02.serAll_single, List.length_append, ser_length]; rfl
  have hdlen : (serAll drecs).length = (serAll body2).length + (8 + pad2.length) := by
    rw [hdr, C02.serAll_append, C02.serAll_single, List.length_append, ser_length]; rfl
  have hO5 : owedStream p.id 5 mc srecs = owedStream p.id 5 mc body := by
    rw [hsr, owedStream_append, owedStream_term p.id 5 mc _ rfl, List.append_nil]
  by_cases h1 : k < (serAll recs).length
  · obtain ⟨c', hrun, hph, _, hhs, _, hlog, hpre⟩ := eof_in_preamble_e2e_partial_unbounded (p := p) (recs := recs)
      (serAll srecs ++ serAll drecs) b mc k [(canonicalF data st, true)] t fuel hwf hpairs hnoise h1 hin hb hem hfuel
    refine ⟨c', owedStream p.id 5 mc srecs ++ owedStream p.id 8 mc drecs, [], hrun, hph, List.append_nil _,
      ⟨_, hlog, ?_⟩, by omega, fun _ => hhs.trans hev, fun h => by omega, fun h => by omega, fun h => by omega,
      fun h => by simp only [List.length_append] at h; omega⟩
    refine hpre.trans ?_
    simp only [expectedLogN, List.append_assoc]
    exact List.prefix_append _ _
  · by_cases h2 : k < (serAll recs).length + (serAll srecs.dropLast).length + 8
    · obtain ⟨j, rfl⟩ : ∃ j, k = (serAll recs).length + j := ⟨k - (serAll recs).length, by omega⟩
      rw [take_add_append] at hin
      obtain ⟨c', C, O, hrun, hph, _, hC, hO, hlog, hhs, hst, hre, hhe⟩ := eof_in_stdin_filter_e2e_unbounded
        (p := p) (recs := recs) (srecs := srecs) (drecs := drecs) (content := content)
        ((serAll srecs ++ serAll drecs).take j) b mc data st t fuel hwf hrole hpairs hnoise hs hsn
        (List.take_prefix _ _) (by have := List.length_take_le j (serAll srecs ++ serAll drecs); omega)
        hin hb hem hfuel
      have hhs1 : hsCount c'.env.tr.events = 1 := by rw [hhs, hev]
      refine ⟨c', owedStream p.id 5 mc srecs ++ owedStream p.id 8 mc drecs, [], hrun, hph, List.append_nil _,
        ⟨owedPreamble p mc recs ++ O, by rw [hlog, List.append_assoc], ?_⟩, by omega,
        fun h => by omega, fun _ => ⟨hhs1, hst⟩, fun _ _ => ⟨C, hC, hre, hhe⟩, fun h => by omega,
        fun h => by simp only [List.length_append] at h; omega⟩
      obtain ⟨z, hz⟩ := hO
      simp only [expectedLogN, List.append_assoc, ← hz]
      exact ⟨z ++ (owedStream p.id 8 mc drecs ++ (streamRecords 6 p.id data ++ ([] ++ epilogue p.id st))), by
        simp only [List.append_assoc]⟩
    · by_cases h3 : k < (serAll recs).length + (serAll srecs).length + (serAll drecs.dropLast).length + 8
      · -- inside Data
        obtain ⟨z, rfl⟩ : ∃ z, k = (serAll recs).length + ((serAll body).length + z) :=
          ⟨k - (serAll recs).length - (serAll body).length, by omega⟩
        have hXs : serAll srecs ++ serAll drecs = serAll body ++ ((trec 5 p.id pad res).ser ++ serAll drecs) := by
          rw [hsr, C02.serAll_append, C02.serAll_single, List.append_assoc]; rfl
        rw [take_add_append, hXs, take_add_append] at hin
        have hZlen : (((trec 5 p.id pad res).ser ++ serAll drecs).take z).length = z := by
          rw [List.length_take, List.length_append, ser_length]
          have : (trec 5 p.id pad res).content.length = 0 := rfl
          have : (trec 5 p.id pad res).pad.length = pad.length := rfl
          omega
        obtain ⟨c', C2, O2, hrun, hph, _, hC2, hO2, hlog, hhs, hst, hr1, hre, hhe⟩ := eof_in_data_filter_e2e_unbounded
          (p := p) (recs := recs) (srecs := srecs) (drecs := drecs) (content := content) (content2 := content2)
          (((trec 5 p.id pad res).ser ++ serAll drecs).take z) b mc data st t fuel hwf hrole hpairs hnoise hs hsn hd hdn
          (by rw [hdl, hXs]; exact (List.prefix_append_right_inj _).2 (List.take_prefix _ _))
          (by rw [hZlen]; omega) (by rw [hdl, hdl2, hZlen]; omega) (by rw [hdl]; exact hin) hb hem hev hfuel hhf
        refine ⟨c', owedStream p.id 5 mc srecs ++ owedStream p.id 8 mc drecs, [], hrun, hph, List.append_nil _,
          ⟨owedPreamble p mc recs ++ (owedStream p.id 5 mc srecs ++ O2), by rw [hlog, List.append_assoc], ?_⟩, by omega,
          fun h => by omega, fun _ => ⟨hhs, hst⟩, fun _ h => by omega,
          fun _ _ => ⟨hr1, C2, hC2, hre, hhe⟩, fun h => by simp only [List.length_append] at h; omega⟩
        obtain ⟨z', hz'⟩ := hO2
        simp only [expectedLogN, List.append_assoc, ← hz']
        exact ⟨z' ++ (streamRecords 6 p.id data ++ ([] ++ epilogue p.id st)), by simp only [List.append_assoc]⟩
      · -- the whole wire
        have hge : (serAll recs ++ (serAll srecs ++ serAll drecs)).length ≤ k := by
          rcases hk with hk | hk
          · exact absurd hk h3
          · exact hk
        have hin' : t.input = serAll recs ++ (serAll srecs ++ serAll drecs) := by
          rw [hin, List.take_of_length_le hge]
        obtain ⟨c', fin, O1, O2, hrun, hO, ho⟩ := single_request_e2e_filter_unbounded (data := data) (st := st) (fuel := fuel)
          hwf hrole hpairs hnoise hs hsn hd hdn hin' hb hev hfuel hhf
        have hfinal : fin = "RET" ∧ c'.phase = .finished := by
          rcases ho.final with ⟨_, h, hph⟩ | ⟨_, _, h, hph⟩ | ⟨_, hp, _⟩
          · exact ⟨h, hph⟩
          · exact ⟨h, hph⟩
          · rw [hem] at hp; cases hp
        obtain ⟨rfl, hph⟩ := hfinal
        have hk' : ¬ k < (serAll recs).length := h1
        refine ⟨c', O1, O2, hrun, hph, hO, ⟨_, ho.log, List.prefix_refl _⟩, by rw [ho.one_handler.1]; omega,
          fun h => absurd h h1, fun _ => ho.one_handler, fun _ h => absurd h h2, fun _ h => absurd h h3,
          fun _ => ⟨ho.read_content _ (by simp), ho.read_content _ (by simp), ho.log⟩⟩

/-- `eof_in_auth_tail_e2e` without the size hypothesis (and with a model-fuel bound free of `b`). -/
theorem eof_in_auth_tail_e2e_unbounded {p : Preamble} {recs tail : List Rec} {b mc : Nat} {rd : ARead}
    {st : ExitStatus} {more : List (List HOp × Bool)} {t : Transport} {fuel : Nat} {X lost : Bytes}
    (hwf : WellFormedPreamble p recs) (hrole : p.role = 2)
    (hpairs : ∀ q ∈ p.pairs, (NV.enc q).length ≤ alignedBufsize b)
    (hnoise : NoiseFits (alignedBufsize b) recs)
    (htail : ∀ r ∈ tail, StreamNoise p.id r) (htn : NoiseFits (alignedBufsize b) tail)
    (hcut : X ++ lost = serAll tail)
    (hin : t.input = serAll recs ++ X) (hben : Ben t) (hem : t.endMode = .eof) (hev : hsCount t.events = 0)
    (hfuel : t.rd.length + t.wr.length + 1 ≤ fuel) :
    AuthCutOutcome p recs tail b mc rd st more lost t fuel := by
  have ok := aok_of (mc := mc) (rd := rd) (wr := false) (data := []) (st := st) t.wlog 0 more hwf hrole hpairs hnoise
    htail htn (fun _ => rfl) (by decide)
  have hst : E2E.FStage (cutX (cfgA p recs tail b mc rd false [] st t.wlog 0 more) X)
      (connS b mc t ((aHandler rd false [] st, true) :: more)) :=
    .start (raw := []) rfl (by show [] ++ t.input = _; rw [hin]; rfl) (Nat.zero_le _) rfl hben rfl rfl rfl hev
  have hrun := cut_run' ok (X := X) (lost := lost) hcut (ans t) (connS b mc t ((aHandler rd false [] st, true) :: more))
    0 fuel (Or.inl hst) hem rfl (Nat.le_refl _) (by unfold ans; omega)
  rcases hrun with ⟨c', h1, hf⟩ | ⟨c0, n0, f0, k, c1, h1, _, h3, h4⟩
  · exact Or.inl ⟨c', h1, ⟨hf.phase, hf.wlog, hf.input, hf.lost, ⟨hf.ev.1, hf.ev.2⟩, hf.reads, hf.scripts⟩⟩
  · exact Or.inr ⟨c0, n0, f0, k, c1, h1, h3, h4⟩

/-- `eof_any_offset_auth_e2e` without the size hypothesis (and with a model-fuel bound free of `b`). -/
theorem eof_any_offset_auth_e2e_unbounded {p : Preamble} {recs tail : List Rec} {b mc : Nat} {rd : ARead}
    {st : ExitStatus} {more : List (List HOp × Bool)} {t : Transport} {fuel : Nat} (k : Nat)
    (hwf : WellFormedPreamble p recs) (hrole : p.role = 2)
    (hpairs : ∀ q ∈ p.pairs, (NV.enc q).length ≤ alignedBufsize b)
    (hnoise : NoiseFits (alignedBufsize b) recs)
    (htail : ∀ r ∈ tail, StreamNoise p.id r) (htn : NoiseFits (alignedBufsize b) tail)
    (hin : t.input = (serAll recs ++ serAll tail).take k) (hben : Ben t) (hem : t.endMode = .eof)
    (hev : hsCount t.events = 0)
    (hfuel : t.rd.length + t.wr.length + 1 ≤ fuel) :
    (k < (serAll recs).length ∧
      ∃ c', runTask fuel (connS b mc t ((aHandler rd false [] st, true) :: more)) 0 none = (c', "RET") ∧
        c'.phase = .finished ∧ c'.env.tr.input = [] ∧ hsCount c'.env.tr.events = 0 ∧
        ∃ out, c'.env.tr.wlog = t.wlog ++ out ∧ out <+: owedPreamble p mc recs) ∨
    ((serAll recs).length ≤ k ∧
      AuthCutOutcome p recs tail b mc rd st more ((serAll tail).drop (k - (serAll recs).length)) t fuel) := by
  by_cases hk : k < (serAll recs).length
  · obtain ⟨c', h1, h2, h3, h4, _, h6, h7⟩ := eof_in_preamble_e2e_partial_unbounded (serAll tail) b mc k
      ((aHandler rd false [] st, true) :: more) t fuel hwf hpairs hnoise hk hin hben hem hfuel
    exact Or.inl ⟨hk, c', h1, h2, h3, h4.trans hev, _, h6, h7⟩
  · have hk' : (serAll recs).length ≤ k := Nat.le_of_not_lt hk
    obtain ⟨d, rfl⟩ : ∃ d, k = (serAll recs).length + d := ⟨k - (serAll recs).length, by omega⟩
    rw [take_len_add] at hin
    refine Or.inr ⟨hk', ?_⟩
    rw [show (serAll recs).length + d - (serAll recs).length = d by omega]
    exact eof_in_auth_tail_e2e_unbounded hwf hrole hpairs hnoise htail htn (List.take_append_drop d (serAll tail)) hin hben hem
      hev hfuel

/-- `eof_in_auth_tail_closed_e2e` without the size hypothesis (and with a model-fuel bound free of `b`). -/
theorem eof_in_auth_tail_closed_e2e_unbounded {p : Preamble} {recs tail : List Rec} {b mc : Nat} {rd : ARead} {wr : Bool}
    {data : Bytes} {st : ExitStatus} {more : List (List HOp × Bool)} {t : Transport} {fuel : Nat} {X lost : Bytes}
    (hwf : WellFormedPreamble p recs) (hrole : p.role = 2)
    (hpairs : ∀ q ∈ p.pairs, (NV.enc q).length ≤ alignedBufsize b)
    (hnoise : NoiseFits (alignedBufsize b) recs)
    (htail : ∀ r ∈ tail, StreamNoise p.id r) (htn : NoiseFits (alignedBufsize b) tail)
    (hnb : ∀ r ∈ tail, r.rtype.toNat ≠ RT.beginRequest)
    (hwd : wr = false → data = [])
    (hcut : X ++ lost = serAll tail)
    (hin : t.input = serAll recs ++ X) (hben : Ben t) (hem : t.endMode = .eof) (hev : hsCount t.events = 0)
    (hfuel : t.rd.length + t.wr.length + 1 ≤ fuel)
    (hhf : wcost data.length + 8 ≤ 1000) :
    ∃ c', runTask fuel (connS b mc t ((aHandler rd wr data st, true) :: more)) 0 none = (c', "RET") ∧
      (AuthCutFail2 p recs tail rd mc data more lost t c' ∨
       ∃ t₁ t₂ O₁ O₂ U, AuthCutEnd p recs tail t₁ t₂ O₁ O₂ U rd mc data st more lost t c') := by
  have hidle : ∀ r ∈ tail, IdleNoise r := idle_of_noBegin (fun r hr => (htail r hr).1) hnb
  have ok := aok_of (mc := mc) (rd := rd) (st := st) t.wlog 0 more hwf hrole hpairs hnoise htail htn hwd hhf
  have hmem : ∀ t1 t2 : List Rec, (C07U.cfgA p recs tail b mc rd wr data st t.wlog 0 more).body = t1 ++ t2 →
      ∀ e ∈ t2, e ∈ tail := by
    intro t1 t2 hsp e he
    have : e ∈ (C07U.cfgA p recs tail b mc rd wr data st t.wlog 0 more).body := by
      rw [hsp]; exact List.mem_append_right _ he
    exact this
  have hgood : ∀ t1 t2 : List Rec, (C07U.cfgA p recs tail b mc rd wr data st t.wlog 0 more).body = t1 ++ t2 →
      GoodNext (alignedBufsize b) mc t2 (serAll dummyRecs ++ []) := fun t1 t2 hsp =>
    idle_front dummy_wf b mc (fun q hq => by cases hq) (dummy_fits _) (fun e he => hidle e (hmem t1 t2 hsp e he))
      (fun e he hg => htn e (hmem t1 t2 hsp e he) hg) []
  have hst : E2E.FStage (cutX (C07U.cfgA p recs tail b mc rd wr data st t.wlog 0 more) X)
      (connS b mc t ((aHandler rd wr data st, true) :: more)) :=
    .start (raw := []) rfl (by show [] ++ t.input = _; rw [hin]; rfl) (Nat.zero_le _) rfl hben rfl rfl rfl hev
  obtain ⟨c', fin, hrun, hres⟩ :=
    run_authC' ok (X := X) (lost := lost) (Zd := serAll dummyRecs ++ []) hcut
      (fun t1 t2 h => (hgood t1 t2 h).1) (fun t1 t2 h => (hgood t1 t2 h).2)
      _ 0 fuel hst hem rfl (by show ans t + 1 ≤ fuel; unfold ans; omega)
  have hL1 : (C07U.cfgA p recs tail b mc rd wr data st t.wlog 0 more).L1 = t.wlog ++ owedPreamble p mc recs := rfl
  have hLeq : ∀ O1 O2 : Bytes, ((C07U.cfgA p recs tail b mc rd wr data st t.wlog 0 more).L1 ++ O1) ++
      (C07U.cfgA p recs tail b mc rd wr data st t.wlog 0 more).D ++ O2 ++
      (C07U.cfgA p recs tail b mc rd wr data st t.wlog 0 more).epi =
      t.wlog ++ (owedPreamble p mc recs ++ O1 ++ streamRecords 6 p.id data ++ O2 ++ epilogue p.id st) := by
    intro O1 O2
    show ((t.wlog ++ owedPreamble p mc recs) ++ O1) ++ streamRecords 6 p.id data ++ O2 ++
      makeRequestEpilogue p.id st [RT.stdout, RT.stderr] = _
    rw [epilogue_eq]
    simp only [List.append_assoc]
  rcases hres with ⟨i, ⟨⟨hsp, hO, hU⟩, hk⟩, hkp, hem', _, _, _, hend⟩ | ⟨hfin, hfa, _, _⟩
  · rcases hend with ⟨_, hp⟩ | ⟨rfl, hf⟩
    · rw [hp.em] at hem'; cases hem'
    · obtain ⟨F, hF, hlg⟩ := hf.log
      have hFU : F = i.U := by
        have e : serAll i.t2 ++ (serAll dummyRecs ++ []) = i.U ++ (lost ++ (serAll dummyRecs ++ [])) := by
          rw [← hU, List.append_assoc]
        have hF' : F ++ (lost ++ (serAll dummyRecs ++ [])) = serAll i.t2 ++ (serAll dummyRecs ++ []) := hF
        rw [e] at hF'
        exact List.append_cancel_right hF'
      subst hFU
      have hs2 : ∀ e ∈ i.t2, IdleNoise e := fun e he => hidle e (hmem i.t1 i.t2 hsp e he)
      refine ⟨c', hrun, Or.inr ⟨i.t1, i.t2, i.O1, i.O2, i.U, hsp, hO, hU, hf.ph,
        ⟨hkp.hs, hkp.ev _ List.mem_cons_self⟩, fun s hs => hkp.ev _ (List.mem_cons_of_mem _ hs), hkp.sc,
        Or.inl ⟨hk, ?_, idle_out_prefix mc hs2 hU⟩⟩⟩
      rw [hlg, CIdx.L, hLeq]
      simp only [List.append_assoc]
      rfl
  · subst hfin
    rcases hfa with ⟨s1, s2, O1, O2, U', hsp, hO, hU, hrd, hfu⟩ | hfe
    · refine ⟨c', hrun, Or.inr ⟨s1, s2, O1, O2, U', hsp, hO, hU, hfu.ph, ⟨hfu.ev.1, hfu.ev.2⟩,
        fun s hs => hrd s hs, hfu.sc, Or.inr ⟨hfu.nokeep, ?_⟩⟩⟩
      rw [hfu.log, gU_LU]
      exact hLeq O1 O2
    · obtain ⟨O1, O2, hpre, hlg⟩ := hfe.wlog
      refine ⟨c', hrun, Or.inl ⟨hfe.phase, ⟨O1, O2, hpre, ?_⟩, hfe.input, hfe.lost, ⟨hfe.ev.1, hfe.ev.2⟩,
        fun s hs => hfe.reads s hs, hfe.scripts⟩⟩
      rw [hlg, hL1]
      show ((t.wlog ++ owedPreamble p mc recs) ++ O1) ++ streamRecords 6 p.id data = _
      simp only [List.append_assoc]

/-- `eof_any_offset_auth_closed_e2e` without the size hypothesis (and with a model-fuel bound free of `b`). -/
theorem eof_any_offset_auth_closed_e2e_unbounded {p : Preamble} {recs tail : List Rec} {b mc : Nat} {rd : ARead} {wr : Bool}
    {data : Bytes} {st : ExitStatus} {more : List (List HOp × Bool)} {t : Transport} {fuel : Nat} (k : Nat)
    (hwf : WellFormedPreamble p recs) (hrole : p.role = 2)
    (hpairs : ∀ q ∈ p.pairs, (NV.enc q).length ≤ alignedBufsize b)
    (hnoise : NoiseFits (alignedBufsize b) recs)
    (htail : ∀ r ∈ tail, StreamNoise p.id r) (htn : NoiseFits (alignedBufsize b) tail)
    (hnb : ∀ r ∈ tail, r.rtype.toNat ≠ RT.beginRequest)
    (hwd : wr = false → data = [])
    (hin : t.input = (serAll recs ++ serAll tail).take k) (hben : Ben t) (hem : t.endMode = .eof)
    (hev : hsCount t.events = 0)
    (hfuel : t.rd.length + t.wr.length + 1 ≤ fuel)
    (hhf : wcost data.length + 8 ≤ 1000) :
    ∃ c', runTask fuel (connS b mc t ((aHandler rd wr data st, true) :: more)) 0 none = (c', "RET") ∧
      c'.phase = .finished ∧
      ((k < (serAll recs).length ∧ c'.env.tr.input = [] ∧ hsCount c'.env.tr.events = 0 ∧
          ∃ out, c'.env.tr.wlog = t.wlog ++ out ∧ out <+: owedPreamble p mc recs) ∨
       ((serAll recs).length ≤ k ∧
          (AuthCutFail2 p recs tail rd mc data more ((serAll tail).drop (k - (serAll recs).length)) t c' ∨
           ∃ t₁ t₂ O₁ O₂ U, AuthCutEnd p recs tail t₁ t₂ O₁ O₂ U rd mc data st more
             ((serAll tail).drop (k - (serAll recs).length)) t c'))) := by
  by_cases hk : k < (serAll recs).length
  · obtain ⟨c', h1, h2, h3, h4, _, h6, h7⟩ := eof_in_preamble_e2e_partial_unbounded (serAll tail) b mc k
      ((aHandler rd wr data st, true) :: more) t fuel hwf hpairs hnoise hk hin hben hem hfuel
    exact ⟨c', h1, h2, Or.inl ⟨hk, h3, h4.trans hev, _, h6, h7⟩⟩
  · have hk' : (serAll recs).length ≤ k := Nat.le_of_not_lt hk
    obtain ⟨d, rfl⟩ : ∃ d, k = (serAll recs).length + d := ⟨k - (serAll recs).length, by omega⟩
    rw [take_len_add] at hin
    rw [show (serAll recs).length + d - (serAll recs).length = d by omega]
    obtain ⟨c', h1, h2⟩ := eof_in_auth_tail_closed_e2e_unbounded (more := more) (fuel := fuel) hwf hrole hpairs hnoise htail htn
      hnb hwd (List.take_append_drop d (serAll tail)) hin hben hem hev hfuel hhf
    refine ⟨c', h1, ?_, Or.inr ⟨hk', h2⟩⟩
    rcases h2 with h | ⟨_, _, _, _, _, h⟩
    · exact h.phase
    · exact h.phase


/-- `eof_in_data_terminator_filter_e2e` without the size hypothesis (and with a model-fuel bound free of `b`). -/
theorem eof_in_data_terminator_filter_e2e_unbounded {p : Preamble} {recs srecs drecs : List Rec} {content content2 : Bytes}
    {b mc : Nat} {data : Bytes} {st : ExitStatus} {t : Transport} {fuel : Nat} (k : Nat)
    (hwf : WellFormedPreamble p recs) (hrole : p.role = 3)
    (hpairs : ∀ q ∈ p.pairs, (NV.enc q).length ≤ alignedBufsize b) (hnoise : NoiseFits (alignedBufsize b) recs)
    (hs : StreamRecs p.id 5 content srecs) (hsn : NoiseFits (alignedBufsize b) srecs)
    (hd : StreamRecs p.id 8 content2 drecs) (hdn : NoiseFits (alignedBufsize b) drecs)
    (hk : (serAll recs).length + (serAll srecs).length + (serAll drecs.dropLast).length + 8 ≤ k)
    (hin : t.input = (serAll recs ++ (serAll srecs ++ serAll drecs)).take k)
    (hb : Ben t) (hem : t.endMode = .eof) (hev : hsCount t.events = 0)
    (hfuel : t.rd.length + t.wr.length + 1 ≤ fuel)
    (hhf : wcost data.length + 24 ≤ 1000) :
    ∃ c' O₁ O₂, runTask fuel (connS b mc t [(canonicalF data st, true)]) 0 none = (c', "RET") ∧
      O₁ ++ O₂ = owedStream p.id 5 mc srecs ++ owedStream p.id 8 mc drecs ∧ c'.phase = .finished ∧
      c'.env.tr.wlog = t.wlog ++ expectedLogN p recs mc data st O₁ O₂ ∧
      hsCount c'.env.tr.events = 1 ∧ startEvent p.request ∈ c'.env.tr.events ∧
      readEvent content ∈ c'.env.tr.events ∧ readEvent content2 ∈ c'.env.tr.events := by
  by_cases hlt : k < (serAll recs ++ (serAll srecs ++ serAll drecs)).length
  · obtain ⟨body, pad, res, hpad, hbody, hsr⟩ := Str.StreamRecs.split hs
    obtain ⟨body2, pad2, res2, hpad2, hbody2, hdr⟩ := Str.StreamRecs.split hd
    have hdl2 : drecs.dropLast = body2 := by rw [hdr]; exact List.dropLast_concat
    rw [hdl2] at hk
    have hsb : NoiseFits (alignedBufsize b) body := fun r hr => hsn r (by rw [hsr]; simp [hr])
    have hdb : NoiseFits (alignedBufsize b) body2 := fun r hr => hdn r (by rw [hdr]; simp [hr])
    have ok : (cfgF p recs content body pad res content2 body2 pad2 res2 b mc data st t.wlog 0 []).OK :=
      ⟨hwf, hpairs, hnoise, .filterU hrole hbody hbody2 hsb hdb hpad hpad2 rfl rfl rfl rfl rfl rfl hhf⟩
    have hser : serAll srecs ++ serAll drecs =
        serAll body ++ ((trec 5 p.id pad res).ser ++ (serAll body2 ++ (trec 8 p.id pad2 res2).ser)) := by
      rw [hsr, hdr, C02.serAll_append, C02.serAll_single, C02.serAll_append, C02.serAll_single, List.append_assoc]
      rfl
    have hsl : (serAll srecs).length = (serAll body).length + (trec 5 p.id pad res).ser.length := by
      rw [hsr, C02.serAll_append, C02.serAll_single, List.length_append]; rfl
    rw [hser] at hin hlt
    rw [hsl] at hk
    obtain ⟨n, rfl⟩ : ∃ n, k = (serAll recs).length + ((serAll body).length + ((trec 5 p.id pad res).ser.length +
        ((serAll body2).length + n))) :=
      ⟨k - (serAll recs).length - (serAll body).length - (trec 5 p.id pad res).ser.length - (serAll body2).length,
        by omega⟩
    have h8 : 8 ≤ n := by omega
    have hn : n < (trec 8 p.id pad2 res2).ser.length := by
      simp only [List.length_append] at hlt; omega
    rw [take_len_add, take_len_add, take_len_add, take_len_add] at hin
    have ok3 := cfg3_cut ok hrole h8 hn
    have hstage : Stage (cutCfgF (cfgF p recs content body pad res content2 body2 pad2 res2 b mc data st t.wlog 0 []) n)
        (connS b mc t [(canonicalF data st, true)]) :=
      .start (raw := []) rfl (by show [] ++ t.input = _; rw [hin]; rfl) (Nat.zero_le _) rfl hb rfl rfl rfl hev
    obtain ⟨c', O1, O2, hO, hrun, hfin⟩ := run_from_stage3' ok3 (ans t) (connS b mc t [(canonicalF data st, true)]) 0 fuel
      hstage hem rfl (Nat.le_refl _) (by unfold ans; omega)
    have hOt : owedStream p.id 5 mc srecs ++ owedStream p.id 8 mc drecs =
        owedStream p.id 5 mc body ++ owedStream p.id 8 mc body2 := by
      rw [hsr, hdr, owedStream_append, owedStream_append, owedStream_term p.id 5 mc _ rfl,
        owedStream_term p.id 8 mc _ rfl, List.append_nil, List.append_nil]
    have hlog : c'.env.tr.wlog =
        (cfgF p recs content body pad res content2 body2 pad2 res2 b mc data st t.wlog 0 []).L3 O1 O2 := hfin.log
    rw [L3_eq] at hlog
    have hev1 : hsCount c'.env.tr.events = 0 + 1 ∧ hsEvent p.request ∈ c'.env.tr.events := hfin.ev
    exact ⟨c', O1, O2, hrun, hO.trans hOt.symm, hfin.ph, hlog, hev1.1, hev1.2,
      hfin.re _ (by show rEvent content ∈ [rEvent content, rEvent content2]; simp),
      hfin.re _ (by show rEvent content2 ∈ [rEvent content, rEvent content2]; simp)⟩
  · have hin' : t.input = serAll recs ++ (serAll srecs ++ serAll drecs) := by
      rw [hin, List.take_of_length_le (by omega)]
    obtain ⟨c', fin, O1, O2, hrun, hO, ho⟩ := single_request_e2e_filter_unbounded (data := data) (st := st) (fuel := fuel)
      hwf hrole hpairs hnoise hs hsn hd hdn hin' hb hev hfuel hhf
    have hfinal : fin = "RET" ∧ c'.phase = .finished := by
      rcases ho.final with ⟨_, h, hph⟩ | ⟨_, _, h, hph⟩ | ⟨_, hp, _⟩
      · exact ⟨h, hph⟩
      · exact ⟨h, hph⟩
      · rw [hem] at hp; cases hp
    obtain ⟨rfl, hph⟩ := hfinal
    exact ⟨c', O1, O2, hrun, hO, hph, ho.log, ho.one_handler.1, ho.one_handler.2, ho.read_content _ (by simp),
      ho.read_content _ (by simp)⟩

/-- `eof_any_offset_filter_all_e2e` without the size hypothesis (and with a model-fuel bound free of `b`). -/
theorem eof_any_offset_filter_all_e2e_unbounded {p : Preamble} {recs srecs drecs : List Rec} {content content2 : Bytes}
    {b mc : Nat} {data : Bytes} {st : ExitStatus} {t : Transport} {fuel : Nat} (k : Nat)
    (hwf : WellFormedPreamble p recs) (hrole : p.role = 3)
    (hpairs : ∀ q ∈ p.pairs, (NV.enc q).length ≤ alignedBufsize b) (hnoise : NoiseFits (alignedBufsize b) recs)
    (hs : StreamRecs p.id 5 content srecs) (hsn : NoiseFits (alignedBufsize b) srecs)
    (hd : StreamRecs p.id 8 content2 drecs) (hdn : NoiseFits (alignedBufsize b) drecs)
    (hin : t.input = (serAll recs ++ (serAll srecs ++ serAll drecs)).take k)
    (hb : Ben t) (hem : t.endMode = .eof) (hev : hsCount t.events = 0)
    (hfuel : t.rd.length + t.wr.length + 1 ≤ fuel)
    (hhf : wcost data.length + 24 ≤ 1000) :
    ∃ c' O₁ O₂, runTask fuel (connS b mc t [(canonicalF data st, true)]) 0 none = (c', "RET") ∧
      c'.phase = .finished ∧ O₁ ++ O₂ = owedStream p.id 5 mc srecs ++ owedStream p.id 8 mc drecs ∧
      (∃ w, c'.env.tr.wlog = t.wlog ++ w ∧ w <+: expectedLogN p recs mc data st O₁ O₂) ∧
      hsCount c'.env.tr.events ≤ 1 ∧
      (k < (serAll recs).length → hsCount c'.env.tr.events = 0) ∧
      ((serAll recs).length ≤ k → hsCount c'.env.tr.events = 1 ∧ startEvent p.request ∈ c'.env.tr.events) ∧
      ((serAll recs).length ≤ k → k < (serAll recs).length + (serAll srecs.dropLast).length + 8 →
        ∃ C, C <+: content ∧ readEofEvent C ∈ c'.env.tr.events ∧ handlerEofEvent ∈ c'.env.tr.events) ∧
      ((serAll recs).length + (serAll srecs.dropLast).length + 8 ≤ k →
        k < (serAll recs).length + (serAll srecs).length + (serAll drecs.dropLast).length + 8 →
        readEvent content ∈ c'.env.tr.events ∧
        ∃ C2, C2 <+: content2 ∧ readEofEvent C2 ∈ c'.env.tr.events ∧ handlerEofEvent ∈ c'.env.tr.events) ∧
      -- behind the header of the Data terminator: everything read, everything answered
      ((serAll recs).length + (serAll srecs).length + (serAll drecs.dropLast).length + 8 ≤ k →
        readEvent content ∈ c'.env.tr.events ∧ readEvent content2 ∈ c'.env.tr.events ∧
        c'.env.tr.wlog = t.wlog ++ expectedLogN p recs mc data st O₁ O₂) := by
  by_cases h3 : k < (serAll recs).length + (serAll srecs).length + (serAll drecs.dropLast).length + 8
  · obtain ⟨c', O1, O2, a1, a2, a3, a4, a5, a6, a7, a8, a9, _⟩ := eof_any_offset_filter_e2e_unbounded (data := data) (st := st)
      (fuel := fuel) k hwf hrole hpairs hnoise hs hsn hd hdn hin (Or.inl h3) hb hem hev hfuel hhf
    exact ⟨c', O1, O2, a1, a2, a3, a4, a5, a6, a7, a8, a9, fun h => absurd h3 (by omega)⟩
  · have hge : (serAll recs).length + (serAll srecs).length + (serAll drecs.dropLast).length + 8 ≤ k := by omega
    obtain ⟨c', O1, O2, hrun, hO, hph, hlog, hhs, hst, hr1, hr2⟩ := eof_in_data_terminator_filter_e2e_unbounded (data := data)
      (st := st) (fuel := fuel) k hwf hrole hpairs hnoise hs hsn hd hdn hge hin hb hem hev hfuel hhf
    have hsd : (serAll srecs.dropLast).length ≤ (serAll srecs).length := by
      obtain ⟨body, pad, res, _, _, hsr⟩ := Str.StreamRecs.split hs
      rw [hsr, List.dropLast_concat, C02.serAll_append, List.length_append]; omega
    refine ⟨c', O1, O2, hrun, hph, hO, ⟨_, hlog, List.prefix_refl _⟩, by omega, fun h => by omega,
      fun _ => ⟨hhs, hst⟩, fun _ h => by omega, fun _ h => absurd h h3, fun _ => ⟨hr1, hr2, hlog⟩⟩

/-- `read_err_any_offset_e2e` without the size hypothesis (and with a model-fuel bound free of `b`). -/
theorem read_err_any_offset_e2e_unbounded {p : Preamble} {recs : List Rec} {content : Bytes} {srecs : List Rec}
    {b mc : Nat} {data : Bytes} {st : ExitStatus} {t : Transport} {fuel : Nat} (k : Nat)
    (hwf : WellFormedPreamble p recs) (hrole : p.role = 1)
    (hpairs : ∀ q ∈ p.pairs, (NV.enc q).length ≤ alignedBufsize b)
    (hnoise : NoiseFits (alignedBufsize b) recs)
    (hs : StreamRecs p.id 5 content srecs) (hsn : NoiseFits (alignedBufsize b) srecs)
    (hin : t.input = (serAll recs ++ serAll srecs).take k) (hben : Ben t) (hem : t.endMode = .eof)
    (hev : hsCount t.events = 0) (hfuel : t.rd.length + t.wr.length + 1 ≤ fuel)
    (hhf : wcost data.length + 12 ≤ 1000) :
    ∃ c' O₁ O₂, runTask fuel (conn0 b mc (em .err t) data st) 0 none = (c', "RET") ∧ c'.phase = .finished ∧
      O₁ ++ O₂ = owedStream p.id 5 mc srecs ∧
      (∃ w, c'.env.tr.wlog = t.wlog ++ w ∧ w <+: expectedLogN p recs mc data st O₁ O₂) ∧
      hsCount c'.env.tr.events ≤ 1 ∧
      (k < (serAll recs).length → hsCount c'.env.tr.events = 0) ∧
      ((serAll recs).length ≤ k → hsCount c'.env.tr.events = 1 ∧ startEvent p.request ∈ c'.env.tr.events) ∧
      ((serAll recs).length + (serAll srecs.dropLast).length + 8 ≤ k →
        c'.env.tr.wlog = t.wlog ++ expectedLogN p recs mc data st O₁ O₂) ∧
      -- the relation to the EOF run
      ∃ ce, runTask fuel (conn0 b mc t data st) 0 none = (ce, "RET") ∧ (c' = emC .err ce ∨ HitC ce c') := by
  obtain ⟨ce, O1, O2, hrun, hph, hO, ⟨w, hw1, hw2⟩, h5, h6, h7, _, h9⟩ := eof_any_offset_e2e_unbounded (data := data) (st := st)
    (fuel := fuel) k hwf hrole hpairs hnoise hs hsn hin hben hem hev hfuel hhf
  obtain ⟨c', hr, a1, a2, a3, _, _, a6, a7⟩ := eof_err_lift (c := conn0 b mc t data st) (connS_allProp b mc t (canonical data st) [] (fun _ h => nomatch h)) hem hrun
  refine ⟨c', O1, O2, hr, a1.trans hph, hO, ⟨w, a2.trans hw1, hw2⟩, by rw [a3]; exact h5,
    fun h => a3.trans (h6 h), fun h => ⟨a3.trans (h7 h).1, a6 _ (isHS_start _) (h7 h).2⟩,
    fun h => a2.trans (h9 h).2, ce, hrun, a7⟩

/-- `read_err_any_offset_filter_e2e` without the size hypothesis (and with a model-fuel bound free of `b`). -/
theorem read_err_any_offset_filter_e2e_unbounded {p : Preamble} {recs srecs drecs : List Rec} {content content2 : Bytes}
    {b mc : Nat} {data : Bytes} {st : ExitStatus} {t : Transport} {fuel : Nat} (k : Nat)
    (hwf : WellFormedPreamble p recs) (hrole : p.role = 3)
    (hpairs : ∀ q ∈ p.pairs, (NV.enc q).length ≤ alignedBufsize b) (hnoise : NoiseFits (alignedBufsize b) recs)
    (hs : StreamRecs p.id 5 content srecs) (hsn : NoiseFits (alignedBufsize b) srecs)
    (hd : StreamRecs p.id 8 content2 drecs) (hdn : NoiseFits (alignedBufsize b) drecs)
    (hin : t.input = (serAll recs ++ (serAll srecs ++ serAll drecs)).take k)
    (hb : Ben t) (hem : t.endMode = .eof) (hev : hsCount t.events = 0)
    (hfuel : t.rd.length + t.wr.length + 1 ≤ fuel)
    (hhf : wcost data.length + 24 ≤ 1000) :
    ∃ c' O₁ O₂, runTask fuel (connS b mc (em .err t) [(canonicalF data st, true)]) 0 none = (c', "RET") ∧
      c'.phase = .finished ∧ O₁ ++ O₂ = owedStream p.id 5 mc srecs ++ owedStream p.id 8 mc drecs ∧
      (∃ w, c'.env.tr.wlog = t.wlog ++ w ∧ w <+: expectedLogN p recs mc data st O₁ O₂) ∧
      hsCount c'.env.tr.events ≤ 1 ∧
      (k < (serAll recs).length → hsCount c'.env.tr.events = 0) ∧
      ((serAll recs).length ≤ k → hsCount c'.env.tr.events = 1 ∧ startEvent p.request ∈ c'.env.tr.events) ∧
      ((serAll recs).length + (serAll srecs).length + (serAll drecs.dropLast).length + 8 ≤ k →
        c'.env.tr.wlog = t.wlog ++ expectedLogN p recs mc data st O₁ O₂) ∧
      ∃ ce, runTask fuel (connS b mc t [(canonicalF data st, true)]) 0 none = (ce, "RET") ∧
        (c' = emC .err ce ∨ HitC ce c') := by
  obtain ⟨ce, O1, O2, hrun, hph, hO, ⟨w, hw1, hw2⟩, h5, h6, h7, _, _, h10⟩ := eof_any_offset_filter_all_e2e_unbounded
    (data := data) (st := st) (fuel := fuel) k hwf hrole hpairs hnoise hs hsn hd hdn hin hb hem hev hfuel hhf
  obtain ⟨c', hr, a1, a2, a3, _, _, a6, a7⟩ :=
    eof_err_lift (connS_allProp b mc t (canonicalF data st) [] (fun _ h => nomatch h)) hem hrun
  refine ⟨c', O1, O2, hr, a1.trans hph, hO, ⟨w, a2.trans hw1, hw2⟩, by rw [a3]; exact h5,
    fun h => a3.trans (h6 h), fun h => ⟨a3.trans (h7 h).1, a6 _ (isHS_start _) (h7 h).2⟩,
    fun h => a2.trans (h10 h).2.2, ce, hrun, a7⟩

/-- `read_err_any_offset_auth_closed_e2e` without the size hypothesis (and with a model-fuel bound free of `b`). -/
theorem read_err_any_offset_auth_closed_e2e_unbounded {p : Preamble} {recs tail : List Rec} {b mc : Nat} {rd : ARead} {wr : Bool}
    {data : Bytes} {st : ExitStatus} {more : List (List HOp × Bool)} {t : Transport} {fuel : Nat} (k : Nat)
    (hwf : WellFormedPreamble p recs) (hrole : p.role = 2)
    (hpairs : ∀ q ∈ p.pairs, (NV.enc q).length ≤ alignedBufsize b)
    (hnoise : NoiseFits (alignedBufsize b) recs)
    (htail : ∀ r ∈ tail, StreamNoise p.id r) (htn : NoiseFits (alignedBufsize b) tail)
    (hnb : ∀ r ∈ tail, r.rtype.toNat ≠ RT.beginRequest)
    (hwd : wr = false → data = []) (hmore : ∀ s ∈ more, s.2 = true)
    (hin : t.input = (serAll recs ++ serAll tail).take k) (hben : Ben t) (hem : t.endMode = .eof)
    (hev : hsCount t.events = 0)
    (hfuel : t.rd.length + t.wr.length + 1 ≤ fuel)
    (hhf : wcost data.length + 8 ≤ 1000) :
    ∃ ce c', runTask fuel (connS b mc t ((aHandler rd wr data st, true) :: more)) 0 none = (ce, "RET") ∧
      runTask fuel (connS b mc (em .err t) ((aHandler rd wr data st, true) :: more)) 0 none = (c', "RET") ∧
      c'.phase = .finished ∧ c'.env.tr.wlog = ce.env.tr.wlog ∧
      hsCount c'.env.tr.events = hsCount ce.env.tr.events ∧ c'.scripts = ce.scripts ∧
      (c' = emC .err ce ∨ HitC ce c') ∧
      -- the EOF run's closed form
      ((k < (serAll recs).length ∧ hsCount ce.env.tr.events = 0 ∧
          ∃ out, ce.env.tr.wlog = t.wlog ++ out ∧ out <+: owedPreamble p mc recs) ∨
       ((serAll recs).length ≤ k ∧
          (AuthCutFail2 p recs tail rd mc data more ((serAll tail).drop (k - (serAll recs).length)) t ce ∨
           ∃ t₁ t₂ O₁ O₂ U, AuthCutEnd p recs tail t₁ t₂ O₁ O₂ U rd mc data st more
             ((serAll tail).drop (k - (serAll recs).length)) t ce))) := by
  obtain ⟨ce, hrun, hph, hcl⟩ := eof_any_offset_auth_closed_e2e_unbounded (more := more) (fuel := fuel) (rd := rd) (wr := wr)
    (data := data) (st := st) k hwf hrole hpairs hnoise htail htn hnb hwd hin hben hem hev hfuel hhf
  obtain ⟨c', hr, a1, a2, a3, a4, _, _, a7⟩ :=
    eof_err_lift (connS_allProp b mc t (aHandler rd wr data st) more hmore) hem hrun
  refine ⟨ce, c', hrun, hr, a1.trans hph, a2, a3, a4, a7, ?_⟩
  rcases hcl with ⟨h1, _, h3, h4⟩ | h
  · exact Or.inl ⟨h1, h3, h4⟩
  · exact Or.inr h


/-! ## A failing write / an erroring read at any index (`C12E2E4`) -/


/-- **The `j`-th write answer fails** — `write_error_e2e` for a wire and a buffer of ANY size (no `hsize`;
`hhf` bounds only the handler's own write). -/
theorem write_error_e2e_unbounded {p : Preamble} {recs : List Rec} {content : Bytes} {srecs : List Rec}
    {b mc : Nat} {data : Bytes} {st : ExitStatus} {t : Transport} {fuel : Nat}
    (pre post : List WrAns) (bad : WrAns) (hbad : bad = .err ∨ bad = .zero) (hwr : t.wr = pre ++ bad :: post)
    (hwf : WellFormedPreamble p recs) (hrole : p.role = 1)
    (hpairs : ∀ q ∈ p.pairs, (NV.enc q).length ≤ alignedBufsize b)
    (hnoise : NoiseFits (alignedBufsize b) recs)
    (hs : StreamRecs p.id 5 content srecs) (hsn : NoiseFits (alignedBufsize b) srecs)
    (hin : t.input = serAll recs ++ serAll srecs) (hben : Ben { t with wr := pre }) (hev : hsCount t.events = 0)
    (hfuel : t.rd.length + pre.length + 1 ≤ fuel)
    (hhf : wcost data.length + 12 ≤ 1000) :
    ∃ c' fin O₁ O₂, runTask fuel (conn0 b mc t data st) 0 none = (c', fin) ∧
      O₁ ++ O₂ = owedStream p.id 5 mc srecs ∧
      (-- the failing answer is never reached: the benign outcome, `bad :: post` still in the script
       (∃ c1, c' = extC ⟨[], bad :: post, []⟩ c1 ∧
          OutcomeN p content b mc t.wlog (expectedLogN p recs mc data st O₁ O₂) { t with wr := pre } c1 fin) ∨
       -- it is consumed
       (fin = "RET" ∧ c'.phase = .finished ∧
        -- what was written is a prefix of the complete log
        (∃ w, c'.env.tr.wlog = t.wlog ++ w ∧ w <+: expectedLogN p recs mc data st O₁ O₂) ∧
        -- (a) at most one handler start
        hsCount c'.env.tr.events ≤ 1 ∧
        -- (b) the error; if the handler got it, the trace ends with the handler returning it
        (∃ e inH, WrErrOf bad e ∧ (inH = true → ∃ evs, c'.env.tr.events = evs ++ [handlerErrEv e])) ∧
        -- (c) the failing call was the last transport write: nothing was written after it
        (∃ t1 t2, Clean t t1 ∧ FailCall t1 t2 ∧ WSame t2 c'.env.tr ∧ c'.env.tr.wlog = t1.wlog))) := by
  have hX : Bad ⟨[], bad :: post, []⟩ :=
    ⟨Or.inl rfl, Or.inr ⟨bad, post, rfl, by rcases hbad with rfl | rfl <;> rfl⟩, Or.inl rfl⟩
  obtain ⟨c1, fin1, O1, O2, hrun1, hO, ho⟩ :=
    single_request_e2e_unbounded (data := data) (st := st) (fuel := fuel) (t := { t with wr := pre }) hwf hrole hpairs hnoise hs hsn
      hin hben hev hfuel hhf
  have ht : t = ext ⟨[], bad :: post, []⟩ { t with wr := pre } := by
    obtain ⟨input, endMode, rd, wr, fl, wlog, events, hold, woken, readWaker, abortKind⟩ := t
    simp only at hwr
    subst hwr
    simp [ext]
  have hc : conn0 b mc t data st = extC ⟨[], bad :: post, []⟩ (conn0 b mc { t with wr := pre } data st) := by
    conv => lhs; rw [ht]
    rfl
  rcases Indep3.runTask_dich hX fuel (conn0 b mc { t with wr := pre } data st) 0 none (conn0_allProp _ _ _ _ _) with
    hsame | ⟨c2, h2, hhit⟩
  · rw [hrun1] at hsame
    exact ⟨extC ⟨[], bad :: post, []⟩ c1, fin1, O1, O2, by rw [hc]; exact hsame, hO, Or.inl ⟨c1, rfl, ho⟩⟩
  · rw [hrun1] at hhit
    simp only at hhit
    have hp2 := conn0_allProp b mc t data st
    have hrun2 : runTask fuel (conn0 b mc t data st) 0 none = (c2, "RET") := by rw [hc]; exact h2
    obtain ⟨⟨w, hw⟩, _⟩ := Indep3.runTask_grow fuel (conn0 b mc t data st) 0 none
    rw [hrun2] at hw
    have hw' : c2.env.tr.wlog = t.wlog ++ w := hw
    have hpre := hhit.rel.log
    rw [hw', ho.log] at hpre
    -- the failing answer was consumed
    have hwf' : WriteFailed t c2.env.tr := by
      rcases hhit.rel.used with ⟨_, _, h, _⟩ | ⟨b', post', h, hsuf⟩ | ⟨_, _, h, _⟩
      · cases h
      · simp only [List.cons.injEq] at h
        obtain ⟨rfl, rfl⟩ := h
        obtain ⟨z, hz⟩ := hsuf
        left
        refine ⟨pre ++ bad :: z, by rw [hwr, ← hz]; simp, bad, by simp, by rcases hbad with rfl | rfl <;> rfl⟩
      · cases h
    obtain ⟨_, _, t1, t2, hcl, hfc, hws, hlog⟩ := runTask_write_failure hp2 hrun2 hwf'
    obtain ⟨e, inH, he, hlast⟩ := hhit.err
    have he' : WrErrOf bad e := by
      rcases he with ⟨⟨_, h⟩, _⟩ | ⟨⟨_, h⟩, h2⟩ | ⟨⟨_, h⟩, h2⟩ | ⟨⟨_, h⟩, _⟩
      · cases h
      · simp only [List.cons.injEq] at h; exact Or.inl ⟨h.1, h2⟩
      · simp only [List.cons.injEq] at h; exact Or.inr ⟨h.1, h2⟩
      · cases h
    refine ⟨c2, "RET", O1, O2, hrun2, hO, Or.inr ⟨rfl, hhit.ph, ⟨w, hw', (List.prefix_append_right_inj _).1 hpre⟩, ?_,
      ⟨e, inH, he', hlast⟩, t1, t2, hcl, hfc, hws, hlog⟩⟩
    have := hhit.rel.hs
    rw [ho.one_handler.1] at this
    exact this

/-! ## The `j`-th read answer is an error -/

/-- **The `j`-th read answer is an error**, any wire and buffer size (`t.rd = pre ++ .err :: post`, everything before it
benign).  Either the run never issues a `j`-th read and is the benign one, or that read fails:
the task finishes; inside `parse_request` (also the one of a reused connection) and inside `close`
the error is swallowed resp. ends the connection without a trace event; inside the handler its op
returns exactly the transport's read error (never success, never `UnexpectedEof`) and the handler
returns it. -/
theorem read_error_at_index_e2e_unbounded {p : Preamble} {recs : List Rec} {content : Bytes} {srecs : List Rec}
    {b mc : Nat} {data : Bytes} {st : ExitStatus} {t : Transport} {fuel : Nat}
    (pre post : List RdAns) (hrd : t.rd = pre ++ .err :: post)
    (hwf : WellFormedPreamble p recs) (hrole : p.role = 1)
    (hpairs : ∀ q ∈ p.pairs, (NV.enc q).length ≤ alignedBufsize b)
    (hnoise : NoiseFits (alignedBufsize b) recs)
    (hs : StreamRecs p.id 5 content srecs) (hsn : NoiseFits (alignedBufsize b) srecs)
    (hin : t.input = serAll recs ++ serAll srecs) (hben : Ben { t with rd := pre }) (hev : hsCount t.events = 0)
    (hfuel : pre.length + t.wr.length + 1 ≤ fuel)
    (hhf : wcost data.length + 12 ≤ 1000) :
    ∃ c' fin O₁ O₂, runTask fuel (conn0 b mc t data st) 0 none = (c', fin) ∧
      O₁ ++ O₂ = owedStream p.id 5 mc srecs ∧
      ((∃ c1, c' = extC ⟨.err :: post, [], []⟩ c1 ∧
          OutcomeN p content b mc t.wlog (expectedLogN p recs mc data st O₁ O₂) { t with rd := pre } c1 fin) ∨
       (fin = "RET" ∧ c'.phase = .finished ∧
        (∃ w, c'.env.tr.wlog = t.wlog ++ w ∧ w <+: expectedLogN p recs mc data st O₁ O₂) ∧
        hsCount c'.env.tr.events ≤ 1 ∧
        (∃ e inH, (e = .connectionAborted ∨ e = .transportRead) ∧
          (inH = true → ∃ evs, c'.env.tr.events = evs ++ [handlerErrEv e])))) := by
  have hX : Bad ⟨.err :: post, [], []⟩ := ⟨Or.inr ⟨post, rfl⟩, Or.inl rfl, Or.inl rfl⟩
  obtain ⟨c1, fin1, O1, O2, hrun1, hO, ho⟩ :=
    single_request_e2e_unbounded (data := data) (st := st) (fuel := fuel) (t := { t with rd := pre }) hwf hrole hpairs hnoise hs hsn
      hin hben hev hfuel hhf
  have ht : t = ext ⟨.err :: post, [], []⟩ { t with rd := pre } := by
    obtain ⟨input, endMode, rd, wr, fl, wlog, events, hold, woken, readWaker, abortKind⟩ := t
    simp only at hrd
    subst hrd
    simp [ext]
  have hc : conn0 b mc t data st = extC ⟨.err :: post, [], []⟩ (conn0 b mc { t with rd := pre } data st) := by
    conv => lhs; rw [ht]
    rfl
  rcases Indep3.runTask_dich hX fuel (conn0 b mc { t with rd := pre } data st) 0 none (conn0_allProp _ _ _ _ _) with
    hsame | ⟨c2, h2, hhit⟩
  · rw [hrun1] at hsame
    exact ⟨extC ⟨.err :: post, [], []⟩ c1, fin1, O1, O2, by rw [hc]; exact hsame, hO, Or.inl ⟨c1, rfl, ho⟩⟩
  · rw [hrun1] at hhit
    simp only at hhit
    have hrun2 : runTask fuel (conn0 b mc t data st) 0 none = (c2, "RET") := by rw [hc]; exact h2
    obtain ⟨⟨w, hw⟩, _⟩ := Indep3.runTask_grow fuel (conn0 b mc t data st) 0 none
    rw [hrun2] at hw
    have hw' : c2.env.tr.wlog = t.wlog ++ w := hw
    have hpre := hhit.rel.log
    rw [hw', ho.log] at hpre
    obtain ⟨e, inH, he, hlast⟩ := hhit.err
    have he' : e = .connectionAborted ∨ e = .transportRead := by
      rcases he with ⟨_, h2⟩ | ⟨⟨_, h⟩, _⟩ | ⟨⟨_, h⟩, _⟩ | ⟨⟨_, h⟩, _⟩
      · exact h2
      · cases h
      · cases h
      · cases h
    refine ⟨c2, "RET", O1, O2, hrun2, hO, Or.inr ⟨rfl, hhit.ph, ⟨w, hw', (List.prefix_append_right_inj _).1 hpre⟩, ?_,
      e, inH, he', hlast⟩⟩
    have := hhit.rel.hs
    rw [ho.one_handler.1] at this
    exact this


/-! ## Non-vacuity: a 65 535-byte record, a 64 KiB buffer -/
namespace ExampleBig12
open Fcgi.C01.Example Fcgi.C07E.Example Fcgi.C07U.ExampleBig

/-- the big transport of `C07Unbounded` with `Ok(0)` as the third write answer: far outside `write_error_e2e` -/
example : ∃ c' fin, runTask 20 (conn0 65536 10 { bigT with wr := [.n 5, .pending, .zero, .all] }
      [104, 105] (.complete 0)) 0 none = (c', fin) ∧
    (([WrAns.zero, .all] <:+ c'.env.tr.wr) ∨ (fin = "RET" ∧ c'.phase = .finished ∧ hsCount c'.env.tr.events ≤ 1)) := by
  obtain ⟨c', fin, O1, O2, hrun, _, h⟩ := write_error_e2e_unbounded (p := pre) (recs := recs) (content := big)
    (srecs := bigS) (b := 65536) (mc := 10) (data := [104, 105]) (st := .complete 0)
    (t := { bigT with wr := [.n 5, .pending, .zero, .all] }) (fuel := 20)
    [.n 5, .pending] [.all] .zero (Or.inr rfl) rfl recs_wf rfl (pre_pairs_fit _) (noise_fits _) bigS_ok (bigS_fits _) rfl
    ⟨by decide, by decide, rfl, by decide⟩ rfl (by decide) (by decide)
  refine ⟨c', fin, hrun, ?_⟩
  rcases h with ⟨c1, rfl, _⟩ | ⟨h1, h2, _, h4, _⟩
  · exact Or.inl ⟨c1.env.tr.wr, rfl⟩
  · exact Or.inr ⟨h1, h2, h4⟩

end ExampleBig12


/-! ## Non-vacuity of the truncation family: the 65 535-byte record cut after 40 000 bytes -/
namespace ExampleBig12
open Fcgi.C01.Example Fcgi.C07E.Example Fcgi.C07U.ExampleBig

/-- the big wire of `C07Unbounded` cut 40 000 bytes into the 65 535-byte Stdin record, then EOF -/
def bigK : Nat := (serAll recs).length + 40000
theorem bigK_ge : (serAll recs).length ≤ bigK := Nat.le_add_right _ _
def bigIn : Bytes := (serAll recs ++ serAll bigS).take bigK
def bigCut : Transport := { bigT with input := bigIn, endMode := .eof }
theorem bigCut_input : bigCut.input = (serAll recs ++ serAll bigS).take bigK := by
  have h1 : bigCut.input = bigIn := by simp only [bigCut]
  have h2 : bigIn = (serAll recs ++ serAll bigS).take bigK := by unfold bigIn; exact Eq.refl _
  exact h1.trans h2

/-- `eof_any_offset_e2e_unbounded` on it (`b = 65536`, 40 000+ bytes on the wire: outside `eof_any_offset_e2e`,
whose `hhf` alone would need `alignedBufsize b / 32 ≤ 988`): the task returns, one handler start -/
example : ∃ c', runTask 20 (conn0 65536 10 bigCut [104, 105] (.complete 0)) 0 none = (c', "RET") ∧
    c'.phase = .finished ∧ hsCount c'.env.tr.events = 1 ∧ startEvent pre.request ∈ c'.env.tr.events := by
  obtain ⟨c', O1, O2, h1, h2, _, _, _, _, h7, _⟩ := eof_any_offset_e2e_unbounded (p := pre) (recs := recs)
    (content := big) (srecs := bigS) (b := 65536) (mc := 10) (data := [104, 105]) (st := .complete 0) (fuel := 20)
    (t := bigCut) bigK
    recs_wf rfl (pre_pairs_fit _) (noise_fits _) bigS_ok (bigS_fits _) bigCut_input ⟨by decide, by decide, rfl, by decide⟩ rfl rfl
    (by decide) (by decide)
  exact ⟨c', h1, h2, (h7 bigK_ge).1, (h7 bigK_ge).2⟩

/-- … and the same wire on a transport whose reads FAIL at the cut (`read_err_any_offset_e2e_unbounded`) -/
example : ∃ c', runTask 20 (conn0 65536 10 (em .err bigCut) [104, 105] (.complete 0)) 0 none = (c', "RET") ∧
    c'.phase = .finished ∧ hsCount c'.env.tr.events = 1 := by
  obtain ⟨c', O1, O2, h1, h2, _, _, _, _, h7, _⟩ := read_err_any_offset_e2e_unbounded (p := pre) (recs := recs)
    (content := big) (srecs := bigS) (b := 65536) (mc := 10) (data := [104, 105]) (st := .complete 0) (fuel := 20)
    (t := bigCut) bigK
    recs_wf rfl (pre_pairs_fit _) (noise_fits _) bigS_ok (bigS_fits _) bigCut_input ⟨by decide, by decide, rfl, by decide⟩ rfl rfl
    (by decide) (by decide)
  exact ⟨c', h1, h2, (h7 bigK_ge).1⟩

end ExampleBig12

end Fcgi.C12E
