import Fcgi.Props.C12E2E4
import Fcgi.Props.C12E2E9
import Fcgi.Props.C07Unbounded

/-!
# C12 — the fault theorems without the size side conditions

`Props/C07Unbounded.lean` removed `… ≤ 100000` and the buffer-size term of `hhf` from
`single_request_e2e`.  The script-independence theorems (`Indep3.runTask_dich`, `runTask_eof_err`) never
had a size hypothesis; only their instances did, through the benign theorem they transfer.  Here:

* `write_error_e2e_unbounded`, `read_error_at_index_e2e_unbounded` (`C12E2E4`): a failing write answer /
  an erroring read answer at ANY index, for a wire and a buffer of any size;
* `eof_err_lift` (`C12E2E9`) has no size hypothesis either: every `…_unbounded` EOF theorem of
  `Props/E2EUnbounded.lean` lifts to the failing transport by it (see the end of this file).
-/
namespace Fcgi.C12E
open Fcgi Fcgi.Req Fcgi.Str Fcgi.Async Fcgi.Run Fcgi.Spec Fcgi.E2E Fcgi.C07E Fcgi.C12Inv Fcgi.Indep3

/-- **The `j`-th write answer fails** — `write_error_e2e` for a wire and a buffer of ANY size (no `hsize`;
`hhf` bounds only the handler's own write). -/
theorem write_error_e2e_unbounded {p : Preamble} {recs : List Rec} {content : Bytes} {srecs : List Rec}
    {b mc : Nat} {data : Bytes} {st : ExitStatus} {t : Transport} {fuel : Nat}
    (pre post : List WrAns) (bad : WrAns) (hbad : bad = .err ∨ bad = .zero) (hwr : t.wr = pre ++ bad :: post)
    (hwf : WellFormedPreamble p recs) (hrole : p.role = 1)
    (hpairs : ∀ q ∈ p.pairs, (NV.enc q).length ≤ alignedBufsize b)
    (hnoise : NoiseFits (alignedBufsize b) recs)
    (hs : StreamRecs p.id 5 content srecs) (hsn : NoiseFits (alignedBufsize b) srecs)
    (hin : t.input = serAll recs ++ serAll srecs) (hben : Ben { t with wr := pre }) (hev : hsCount t.events = 0)
    (hfuel : t.rd.length + pre.length + 1 ≤ fuel)
    (hhf : wcost data.length + 12 ≤ 1000) :
    ∃ c' fin O₁ O₂, runTask fuel (conn0 b mc t data st) 0 none = (c', fin) ∧
      O₁ ++ O₂ = owedStream p.id 5 mc srecs ∧
      (-- the failing answer is never reached: the benign outcome, `bad :: post` still in the script
       (∃ c1, c' = extC ⟨[], bad :: post, []⟩ c1 ∧
          OutcomeN p content b mc t.wlog (expectedLogN p recs mc data st O₁ O₂) { t with wr := pre } c1 fin) ∨
       -- it is consumed
       (fin = "RET" ∧ c'.phase = .finished ∧
        -- what was written is a prefix of the complete log
        (∃ w, c'.env.tr.wlog = t.wlog ++ w ∧ w <+: expectedLogN p recs mc data st O₁ O₂) ∧
        -- (a) at most one handler start
        hsCount c'.env.tr.events ≤ 1 ∧
        -- (b) the error; if the handler got it, the trace ends with the handler returning it
        (∃ e inH, WrErrOf bad e ∧ (inH = true → ∃ evs, c'.env.tr.events = evs ++ [handlerErrEv e])) ∧
        -- (c) the failing call was the last transport write: nothing was written after it
        (∃ t1 t2, Clean t t1 ∧ FailCall t1 t2 ∧ WSame t2 c'.env.tr ∧ c'.env.tr.wlog = t1.wlog))) := by
  have hX : Bad ⟨[], bad :: post, []⟩ :=
    ⟨Or.inl rfl, Or.inr ⟨bad, post, rfl, by rcases hbad with rfl | rfl <;> rfl⟩, Or.inl rfl⟩
  obtain ⟨c1, fin1, O1, O2, hrun1, hO, ho⟩ :=
    single_request_e2e_unbounded (data := data) (st := st) (fuel := fuel) (t := { t with wr := pre }) hwf hrole hpairs hnoise hs hsn
      hin hben hev hfuel hhf
  have ht : t = ext ⟨[], bad :: post, []⟩ { t with wr := pre } := by
    obtain ⟨input, endMode, rd, wr, fl, wlog, events, hold, woken, readWaker, abortKind⟩ := t
    simp only at hwr
    subst hwr
    simp [ext]
  have hc : conn0 b mc t data st = extC ⟨[], bad :: post, []⟩ (conn0 b mc { t with wr := pre } data st) := by
    conv => lhs; rw [ht]
    rfl
  rcases Indep3.runTask_dich hX fuel (conn0 b mc { t with wr := pre } data st) 0 none (conn0_allProp _ _ _ _ _) with
    hsame | ⟨c2, h2, hhit⟩
  · rw [hrun1] at hsame
    exact ⟨extC ⟨[], bad :: post, []⟩ c1, fin1, O1, O2, by rw [hc]; exact hsame, hO, Or.inl ⟨c1, rfl, ho⟩⟩
  · rw [hrun1] at hhit
    simp only at hhit
    have hp2 := conn0_allProp b mc t data st
    have hrun2 : runTask fuel (conn0 b mc t data st) 0 none = (c2, "RET") := by rw [hc]; exact h2
    obtain ⟨⟨w, hw⟩, _⟩ := Indep3.runTask_grow fuel (conn0 b mc t data st) 0 none
    rw [hrun2] at hw
    have hw' : c2.env.tr.wlog = t.wlog ++ w := hw
    have hpre := hhit.rel.log
    rw [hw', ho.log] at hpre
    -- the failing answer was consumed
    have hwf' : WriteFailed t c2.env.tr := by
      rcases hhit.rel.used with ⟨_, _, h, _⟩ | ⟨b', post', h, hsuf⟩ | ⟨_, _, h, _⟩
      · cases h
      · simp only [List.cons.injEq] at h
        obtain ⟨rfl, rfl⟩ := h
        obtain ⟨z, hz⟩ := hsuf
        left
        refine ⟨pre ++ bad :: z, by rw [hwr, ← hz]; simp, bad, by simp, by rcases hbad with rfl | rfl <;> rfl⟩
      · cases h
    obtain ⟨_, _, t1, t2, hcl, hfc, hws, hlog⟩ := runTask_write_failure hp2 hrun2 hwf'
    obtain ⟨e, inH, he, hlast⟩ := hhit.err
    have he' : WrErrOf bad e := by
      rcases he with ⟨⟨_, h⟩, _⟩ | ⟨⟨_, h⟩, h2⟩ | ⟨⟨_, h⟩, h2⟩ | ⟨⟨_, h⟩, _⟩
      · cases h
      · simp only [List.cons.injEq] at h; exact Or.inl ⟨h.1, h2⟩
      · simp only [List.cons.injEq] at h; exact Or.inr ⟨h.1, h2⟩
      · cases h
    refine ⟨c2, "RET", O1, O2, hrun2, hO, Or.inr ⟨rfl, hhit.ph, ⟨w, hw', (List.prefix_append_right_inj _).1 hpre⟩, ?_,
      ⟨e, inH, he', hlast⟩, t1, t2, hcl, hfc, hws, hlog⟩⟩
    have := hhit.rel.hs
    rw [ho.one_handler.1] at this
    exact this

/-! ## The `j`-th read answer is an error -/

/-- **The `j`-th read answer is an error**, any wire and buffer size (`t.rd = pre ++ .err :: post`, everything before it
benign).  Either the run never issues a `j`-th read and is the benign one, or that read fails:
the task finishes; inside `parse_request` (also the one of a reused connection) and inside `close`
the error is swallowed resp. ends the connection without a trace event; inside the handler its op
returns exactly the transport's read error (never success, never `UnexpectedEof`) and the handler
returns it. -/
theorem read_error_at_index_e2e_unbounded {p : Preamble} {recs : List Rec} {content : Bytes} {srecs : List Rec}
    {b mc : Nat} {data : Bytes} {st : ExitStatus} {t : Transport} {fuel : Nat}
    (pre post : List RdAns) (hrd : t.rd = pre ++ .err :: post)
    (hwf : WellFormedPreamble p recs) (hrole : p.role = 1)
    (hpairs : ∀ q ∈ p.pairs, (NV.enc q).length ≤ alignedBufsize b)
    (hnoise : NoiseFits (alignedBufsize b) recs)
    (hs : StreamRecs p.id 5 content srecs) (hsn : NoiseFits (alignedBufsize b) srecs)
    (hin : t.input = serAll recs ++ serAll srecs) (hben : Ben { t with rd := pre }) (hev : hsCount t.events = 0)
    (hfuel : pre.length + t.wr.length + 1 ≤ fuel)
    (hhf : wcost data.length + 12 ≤ 1000) :
    ∃ c' fin O₁ O₂, runTask fuel (conn0 b mc t data st) 0 none = (c', fin) ∧
      O₁ ++ O₂ = owedStream p.id 5 mc srecs ∧
      ((∃ c1, c' = extC ⟨.err :: post, [], []⟩ c1 ∧
          OutcomeN p content b mc t.wlog (expectedLogN p recs mc data st O₁ O₂) { t with rd := pre } c1 fin) ∨
       (fin = "RET" ∧ c'.phase = .finished ∧
        (∃ w, c'.env.tr.wlog = t.wlog ++ w ∧ w <+: expectedLogN p recs mc data st O₁ O₂) ∧
        hsCount c'.env.tr.events ≤ 1 ∧
        (∃ e inH, (e = .connectionAborted ∨ e = .transportRead) ∧
          (inH = true → ∃ evs, c'.env.tr.events = evs ++ [handlerErrEv e])))) := by
  have hX : Bad ⟨.err :: post, [], []⟩ := ⟨Or.inr ⟨post, rfl⟩, Or.inl rfl, Or.inl rfl⟩
  obtain ⟨c1, fin1, O1, O2, hrun1, hO, ho⟩ :=
    single_request_e2e_unbounded (data := data) (st := st) (fuel := fuel) (t := { t with rd := pre }) hwf hrole hpairs hnoise hs hsn
      hin hben hev hfuel hhf
  have ht : t = ext ⟨.err :: post, [], []⟩ { t with rd := pre } := by
    obtain ⟨input, endMode, rd, wr, fl, wlog, events, hold, woken, readWaker, abortKind⟩ := t
    simp only at hrd
    subst hrd
    simp [ext]
  have hc : conn0 b mc t data st = extC ⟨.err :: post, [], []⟩ (conn0 b mc { t with rd := pre } data st) := by
    conv => lhs; rw [ht]
    rfl
  rcases Indep3.runTask_dich hX fuel (conn0 b mc { t with rd := pre } data st) 0 none (conn0_allProp _ _ _ _ _) with
    hsame | ⟨c2, h2, hhit⟩
  · rw [hrun1] at hsame
    exact ⟨extC ⟨.err :: post, [], []⟩ c1, fin1, O1, O2, by rw [hc]; exact hsame, hO, Or.inl ⟨c1, rfl, ho⟩⟩
  · rw [hrun1] at hhit
    simp only at hhit
    have hrun2 : runTask fuel (conn0 b mc t data st) 0 none = (c2, "RET") := by rw [hc]; exact h2
    obtain ⟨⟨w, hw⟩, _⟩ := Indep3.runTask_grow fuel (conn0 b mc t data st) 0 none
    rw [hrun2] at hw
    have hw' : c2.env.tr.wlog = t.wlog ++ w := hw
    have hpre := hhit.rel.log
    rw [hw', ho.log] at hpre
    obtain ⟨e, inH, he, hlast⟩ := hhit.err
    have he' : e = .connectionAborted ∨ e = .transportRead := by
      rcases he with ⟨_, h2⟩ | ⟨⟨_, h⟩, _⟩ | ⟨⟨_, h⟩, _⟩ | ⟨⟨_, h⟩, _⟩
      · exact h2
      · cases h
      · cases h
      · cases h
    refine ⟨c2, "RET", O1, O2, hrun2, hO, Or.inr ⟨rfl, hhit.ph, ⟨w, hw', (List.prefix_append_right_inj _).1 hpre⟩, ?_,
      e, inH, he', hlast⟩⟩
    have := hhit.rel.hs
    rw [ho.one_handler.1] at this
    exact this


/-! ## Non-vacuity: a 65 535-byte record, a 64 KiB buffer -/
namespace ExampleBig12
open Fcgi.C01.Example Fcgi.C07E.Example Fcgi.C07U.ExampleBig

/-- the big transport of `C07Unbounded` with `Ok(0)` as the third write answer: far outside `write_error_e2e` -/
example : ∃ c' fin, runTask 20 (conn0 65536 10 { bigT with wr := [.n 5, .pending, .zero, .all] }
      [104, 105] (.complete 0)) 0 none = (c', fin) ∧
    (([WrAns.zero, .all] <:+ c'.env.tr.wr) ∨ (fin = "RET" ∧ c'.phase = .finished ∧ hsCount c'.env.tr.events ≤ 1)) := by
  obtain ⟨c', fin, O1, O2, hrun, _, h⟩ := write_error_e2e_unbounded (p := pre) (recs := recs) (content := big)
    (srecs := bigS) (b := 65536) (mc := 10) (data := [104, 105]) (st := .complete 0)
    (t := { bigT with wr := [.n 5, .pending, .zero, .all] }) (fuel := 20)
    [.n 5, .pending] [.all] .zero (Or.inr rfl) rfl recs_wf rfl (pre_pairs_fit _) (noise_fits _) bigS_ok (bigS_fits _) rfl
    ⟨by decide, by decide, rfl, by decide⟩ rfl (by decide) (by decide)
  refine ⟨c', fin, hrun, ?_⟩
  rcases h with ⟨c1, rfl, _⟩ | ⟨h1, h2, _, h4, _⟩
  · exact Or.inl ⟨c1.env.tr.wr, rfl⟩
  · exact Or.inr ⟨h1, h2, h4⟩

end ExampleBig12

end Fcgi.C12E
