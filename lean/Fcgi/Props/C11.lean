import Fcgi.Proofs.RunLoop
import Fcgi.Props.C07
/-!
# C11 — client abort (async half)

The parser halves (an `AbortRequest` record for the active request id makes `parse` return
`Err(AbortRequest)`, repeatably) are proved in the stream-parser files.  Here: what the async layer
makes of it (`Model/Async.lean`, `Model/RunLoop.lean`).

* `abort_maps_to_connection_aborted`: `parser::Error::AbortRequest` becomes
  `io::ErrorKind::ConnectionAborted`; `poll_input` returns it.
* `handler_abort_status`: a handler returning that error leads to `close(ExitStatus::ABORT)`, whose
  `EndRequest` is `RequestComplete` with application status `"ABRT"`; a handler returning `Ok(st)`
  closes with its own `st`.
* `close_tolerates_abort`: inside `close`, `writeable()` failing with `ConnectionAborted` is ignored
  and `record_boundary()` skips over `AbortRequest`; the aborted request gets the same single epilogue.
-/
namespace Fcgi.C11
open Fcgi Fcgi.Req Fcgi.Str Fcgi.Async Fcgi.Run

/-! ## 1. The error mapping -/

/-- `impl From<parser::Error> for io::Error`: `AbortRequest ↦ ConnectionAborted`, and it is the only
parser error mapped there. -/
theorem abort_maps_to_connection_aborted :
    ioOfPErr .abortRequest = .abortRequest ∧
    ∀ e, ioOfPErr e = .abortRequest → e = .abortRequest := by
  refine ⟨rfl, fun e h => ?_⟩
  cases e <;> first | rfl | cases h

/-- `poll_input`: when the parser reports `AbortRequest`, the call returns
`Err(ConnectionAborted)` at once (no transport call; the parser state is the one `parse` left). -/
theorem inLoop_abort (fuel : Nat) (r : AReq) (new : Bytes) (dest : Option Nat) (m : MutexSt) (t : Transport)
    (sp : Str.Parser) (h : r.sp.parse new dest = (sp, .err .abortRequest)) :
    inLoop (fuel + 1) r new dest m t = ({ r with sp := sp }, m, t, .err .abortRequest) := by
  simp [inLoop, h, ioOfPErr]

/-- more generally every parser error is returned as its `io::Error` kind -/
theorem inLoop_parser_error (fuel : Nat) (r : AReq) (new : Bytes) (dest : Option Nat) (m : MutexSt)
    (t : Transport) (sp : Str.Parser) (e : PErr) (h : r.sp.parse new dest = (sp, .err e)) :
    inLoop (fuel + 1) r new dest m t = ({ r with sp := sp }, m, t, .err (ioOfPErr e)) := by
  simp [inLoop, h]

/-! ## 2. The status the aborted request is closed with -/

/-- `ExitStatus::ABORT` is `RequestComplete` with application status `u32::from_be_bytes(*b"ABRT")`. -/
theorem abort_status :
    ExitStatus.abort.toEndRequest = ⟨1094865492, 0⟩ ∧
    1094865492 = 0x41 * 16777216 + 0x42 * 65536 + 0x52 * 256 + 0x54 ∧
    (ExitStatus.abort.toEndRequest).toBytes = [0x41, 0x42, 0x52, 0x54, 0, 0, 0, 0] := by
  refine ⟨rfl, by decide, by decide⟩

/-- The handler's result decides the status `close` is called with: `Err(ConnectionAborted)` ⇒
`ExitStatus::ABORT`; `Ok(st)` ⇒ `st` (the handler's own status wins, also for an aborted request).
In both cases `close` starts from its beginning (`.start`) in the same poll. -/
theorem handler_abort_status (c : Conn) (r : AReq) (h : HState) (r' : AReq) (h' : HState) (e : Env)
    (hp : c.phase = .handler r h) :
    (handlerPoll ((handlerFuel c.env r + scriptOf c)) r h c.env = (r', h', e, .done (.error .abortRequest)) →
      stepConn c = .next { c with
        phase := .closing r' .start ExitStatus.abort (h'.writers.filter Option.isSome).length,
        env := e.ev "HE(err:abort-request)" }) ∧
    (∀ st, handlerPoll ((handlerFuel c.env r + scriptOf c)) r h c.env = (r', h', e, .done (.ok st)) →
      stepConn c = .next { c with
        phase := .closing r' .start st (h'.writers.filter Option.isSome).length,
        env := e.ev s!"HE(ok:{showStatus st})" }) := by
  constructor
  · intro hh; rw [C07.handler_step c r h hp, hh]; simp
  · intro st hh; rw [C07.handler_step c r h hp, hh]

/-! ## 3. `close` tolerates the abort -/

/-- `close`, phase 1: `writeable()` failing with `ConnectionAborted` is treated like `Ok(())` — `close`
goes on with phase 2 from the state `writeable()` left. -/
theorem close_ignores_aborted_writeable (r : AReq) (cs : CloseSt) (status : ExitStatus) (alive : Nat)
    (m : MutexSt) (t : Transport) (r1 : AReq) (b : Bool) (m1 : MutexSt) (t1 : Transport)
    (hcs : cs = .start ∨ cs = .inWriteable)
    (hw : r.writeablePoll (cs == .inWriteable) m t = (r1, b, m1, t1, .err .abortRequest)) :
    closeP1 r cs m t = .ok (r1, m1, t1, .start) ∧
    closePoll r cs status alive m t = closeFrom2 r1 m1 t1 .start status alive := by
  have h1 : closeP1 r cs m t = .ok (r1, m1, t1, .start) := by
    rcases hcs with rfl | rfl
    · simp [closeP1, hw]
    · have hw' : r.writeablePoll true m t = _ := hw
      simp [closeP1, hw']
  exact ⟨h1, by rw [closePoll_eq', h1]⟩

/-- … exactly as after a successful `writeable()`. -/
theorem close_after_ok_writeable (r : AReq) (cs : CloseSt) (status : ExitStatus) (alive : Nat)
    (m : MutexSt) (t : Transport) (r1 : AReq) (b : Bool) (m1 : MutexSt) (t1 : Transport)
    (hcs : cs = .start ∨ cs = .inWriteable)
    (hw : r.writeablePoll (cs == .inWriteable) m t = (r1, b, m1, t1, .ready)) :
    closePoll r cs status alive m t = closeFrom2 r1 m1 t1 .start status alive := by
  have h1 : closeP1 r cs m t = .ok (r1, m1, t1, .start) := by
    rcases hcs with rfl | rfl
    · simp [closeP1, hw]
    · have hw' : r.writeablePoll true m t = _ := hw
      simp [closeP1, hw']
  rw [closePoll_eq', h1]

/-- any other error of `writeable()` is returned by `close` -/
theorem close_returns_other_writeable_errors (r : AReq) (cs : CloseSt) (status : ExitStatus) (alive : Nat)
    (m : MutexSt) (t : Transport) (r1 : AReq) (b : Bool) (m1 : MutexSt) (t1 : Transport) (e : IoErr)
    (hcs : cs = .start ∨ cs = .inWriteable) (he : e ≠ .abortRequest)
    (hw : r.writeablePoll (cs == .inWriteable) m t = (r1, b, m1, t1, .err e)) :
    closePoll r cs status alive m t = (r1, .inWriteable, m1, t1, .err e) := by
  have h1 : closeP1 r cs m t = .error (r1, .inWriteable, m1, t1, .err e) := by
    rcases hcs with rfl | rfl
    · simp [closeP1, hw, he]
    · have hw' : r.writeablePoll true m t = _ := hw
      simp [closeP1, hw', he]
  rw [closePoll_eq', h1]

/-- `record_boundary()`: `Err(AbortRequest)` from the parser is ignored, like `Ok(_)` — the loop goes
on to the boundary check with the parser state `parse` left. -/
theorem boundary_ignores_abort (fuel : Nat) (sp sp1 : Str.Parser) (new : Bytes) (t : Transport)
    (h : sp.parse new none = (sp1, .err .abortRequest)) :
    boundaryLoop (fuel + 1) sp new t = boundaryLoop.cont sp1 t fuel := by
  simp [boundaryLoop, h]

theorem boundary_continues_on_ok (fuel : Nat) (sp sp1 : Str.Parser) (new : Bytes) (t : Transport) (st : Status)
    (h : sp.parse new none = (sp1, .ok st)) :
    boundaryLoop (fuel + 1) sp new t = boundaryLoop.cont sp1 t fuel := by
  simp [boundaryLoop, h]

/-- any other parser error ends `record_boundary()` (and so `close`) with that error -/
theorem boundary_returns_other_errors (fuel : Nat) (sp sp1 : Str.Parser) (new : Bytes) (t : Transport)
    (e : PErr) (he : e ≠ .abortRequest) (h : sp.parse new none = (sp1, .err e)) :
    boundaryLoop (fuel + 1) sp new t = (sp1, t, .err (ioOfPErr e)) := by
  simp [boundaryLoop, h, he]

/-- So an aborted request still gets exactly one epilogue: whatever happened in `writeable()` and
`record_boundary()`, a `close` that returns `Ok` has written — once, last — the epilogue of this
request with the status it was called with (for `Err(ConnectionAborted)` from the handler that is
`ExitStatus::ABORT`, `C07.close_writes_epilogue` + `handler_abort_status`). -/
theorem close_tolerates_abort {r : AReq} {cs : CloseSt} {alive : Nat} {m : MutexSt}
    {t : Transport} {r' : AReq} {cs' : CloseSt} {m' : MutexSt} {t' : Transport} {rp : Req.Parser}
    (h : closePoll r cs ExitStatus.abort alive m t = (r', cs', m', t', .reuse rp)) (hl : cs.late = false) :
    ∃ (X : Bytes) (r2 : AReq), r2.sp.request = r.sp.request ∧
      t'.wlog = t.wlog ++ X ++ r2.sp.output ++
        ((if r2.writeable then
            RecordHeader.toBytes ⟨RT.stdout, r.sp.request.id, 0, 0⟩ ++ RecordHeader.toBytes ⟨RT.stderr, r.sp.request.id, 0, 0⟩
          else []) ++ EndRequest.toRecord ⟨1094865492, 0⟩ r.sp.request.id) := by
  obtain ⟨X, r2, hreq, hw, _⟩ := C07.close_writes_epilogue h hl
  refine ⟨X, r2, hreq, ?_⟩
  rw [hw, (C07.epilogue_shape r2 ExitStatus.abort).1, hreq]
  rfl

/-! ## Concrete instances (non-vacuity) -/

def exReq : Request := { id := 1, role := 1, flags := 1, env := [] }
def exTr : Transport := { input := [], endMode := .pend, rd := [], wr := [], fl := [] }
/-- a request whose buffer holds an `AbortRequest` record for its id -/
def exAborted : AReq := AReq.new (Str.Parser.fromParser 64 exReq [1, 2, 0, 1, 0, 0, 0, 0] 1)

theorem exParseAbort : exAborted.sp.parse [] (some 4) = (exAborted.sp, .err .abortRequest) := by
  unfold Str.Parser.parse
  rw [loop]
  rfl

/-- the handler's `read` returns `Err(ConnectionAborted)` -/
example : inLoop 5 exAborted [] (some 4) none exTr = (exAborted, none, exTr, .err .abortRequest) :=
  inLoop_abort 4 exAborted [] (some 4) none exTr _ exParseAbort

/-- `close(ABORT)` of that request: one epilogue, `EndRequest` carries `"ABRT"`/`RequestComplete`; the
unread `AbortRequest` record is handed over to the next request parser -/
example : ∃ r' m' t' rp, closePoll exAborted .start ExitStatus.abort 0 none exTr
      = (r', .writeEnd [], m', t', .reuse rp) ∧
    t'.wlog = [1, 6, 0, 1, 0, 0, 0, 0, 1, 7, 0, 1, 0, 0, 0, 0,
               1, 3, 0, 1, 0, 8, 0, 0, 0x41, 0x42, 0x52, 0x54, 0, 0, 0, 0] ∧
    rp.input = [1, 2, 0, 1, 0, 0, 0, 0] := ⟨_, _, _, _, rfl, rfl, rfl⟩

end Fcgi.C11
