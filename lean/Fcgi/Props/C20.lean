import Fcgi.Model.Response
import Fcgi.Gen.Tables
/-!
# C20 — CGI response-header writers emit exactly the grammar and report exactly the byte count

`write_headers` emits `Status: <code> <reason>`, then `\n<name>: <value>` per header in order, then
`\n\n`; `simple_redirect` emits `Location: <loc>\n\n`.  Both return exactly the number of bytes they
appended, and when the destination is a too-short `&mut [u8]` they fail (never `Ok(n)`), leaving a
prefix of the full output behind.  All statements quantify over every code / reason / header list /
starting sink; no bounds.
-/
namespace Fcgi.C20
open Fcgi Fcgi.Response

/-! ## Tie to the source -/

theorem location_bytes : Response.location = [76, 111, 99, 97, 116, 105, 111, 110, 58, 32] := by
  with_unfolding_all decide

theorem customReason_bytes : Response.customReason = [67, 117, 115, 116, 111, 109] := by
  with_unfolding_all decide

theorem statusPrefix_bytes : "Status: ".toUTF8.toList = [83, 116, 97, 116, 117, 115, 58, 32] := by
  with_unfolding_all decide

/-- The literals the model hard-codes are the ones in `cgi/response.rs` now. -/
theorem tables_agree :
    Gen.respLocation = Response.location ∧
    Gen.respRedirectEnd = [10, 10] ∧
    Gen.respRedirectEndCount = 2 ∧
    Gen.respStatusTemplate = "Status: ".toUTF8.toList ++ [0, 0, 0, 32] ∧
    Gen.respStatusSlot = (8, 11) ∧
    Gen.respCustomReason = Response.customReason ∧
    Gen.respHeaderLead = [10] ∧
    Gen.respHeaderSep = [58, 32] ∧
    Gen.respHeaderCount = 3 ∧
    Gen.respHeadersEnd = [10, 10] ∧
    Gen.respHeadersEndCount = 2 := by
  rw [location_bytes, customReason_bytes, statusPrefix_bytes]
  decide

/-! ## Sink lemmas -/

/-- Growable sink, arbitrary prior contents: every write succeeds and appends. -/
theorem writeAlls_none (o : Bytes) (ds : List Bytes) :
    Sink.writeAlls { cap := none, out := o } ds = ({ cap := none, out := o ++ ds.flatten }, true) := by
  induction ds generalizing o with
  | nil => simp [Sink.writeAlls]
  | cons d ds ih => simp [Sink.writeAlls, Sink.writeAll, ih]

theorem writeAlls_vec (pre : Bytes) (ds : List Bytes) :
    (Sink.vec pre).writeAlls ds = ({ cap := none, out := pre ++ ds.flatten }, true) :=
  writeAlls_none pre ds

/-- Bounded sink, arbitrary remaining capacity and prior contents. -/
theorem writeAlls_some (c : Nat) (o : Bytes) (ds : List Bytes) :
    Sink.writeAlls { cap := some c, out := o } ds =
      if ds.flatten.length ≤ c then
        ({ cap := some (c - ds.flatten.length), out := o ++ ds.flatten }, true)
      else ({ cap := some 0, out := o ++ ds.flatten.take c }, false) := by
  induction ds generalizing c o with
  | nil => simp [Sink.writeAlls]
  | cons d ds ih =>
    simp only [Sink.writeAlls, Sink.writeAll, List.flatten_cons, List.length_append]
    by_cases hd : d.length ≤ c
    · rw [if_pos hd]
      simp only [ih]
      by_cases hr : ds.flatten.length ≤ c - d.length
      · have h' : d.length + ds.flatten.length ≤ c := by omega
        rw [if_pos hr, if_pos h', Nat.sub_add_eq, List.append_assoc]
      · have h' : ¬ d.length + ds.flatten.length ≤ c := by omega
        rw [if_neg hr, if_neg h', List.take_append, List.take_of_length_le hd, List.append_assoc]
    · have h' : ¬ d.length + ds.flatten.length ≤ c := by omega
      have h0 : c - d.length = 0 := by omega
      rw [if_neg hd, if_neg h', List.take_append, h0, List.take_zero, List.append_nil]

theorem writeAlls_slice (n : Nat) (ds : List Bytes) :
    (Sink.slice n).writeAlls ds =
      if ds.flatten.length ≤ n then
        ({ cap := some (n - ds.flatten.length), out := ds.flatten }, true)
      else ({ cap := some 0, out := ds.flatten.take n }, false) := by
  simpa [Sink.slice] using writeAlls_some n [] ds

/-- Any sink: a successful `writeAlls` appended exactly the concatenation of the writes. -/
theorem writeAlls_ok_out (w w' : Sink) (ds : List Bytes) (h : w.writeAlls ds = (w', true)) :
    w'.out = w.out ++ ds.flatten := by
  obtain ⟨cap, o⟩ := w
  cases cap with
  | none =>
    rw [writeAlls_none] at h
    cases h; rfl
  | some c =>
    rw [writeAlls_some] at h
    split at h
    · cases h; rfl
    · cases h

/-- Any sink: after a failed `writeAlls` what was appended is a proper prefix of the concatenation,
and the sink is full. -/
theorem writeAlls_err_out (w w' : Sink) (ds : List Bytes) (h : w.writeAlls ds = (w', false)) :
    ∃ c, w.cap = some c ∧ c < ds.flatten.length ∧ w'.cap = some 0 ∧
      w'.out = w.out ++ ds.flatten.take c := by
  obtain ⟨cap, o⟩ := w
  cases cap with
  | none =>
    rw [writeAlls_none] at h
    cases h
  | some c =>
    rw [writeAlls_some] at h
    split at h
    · cases h
    · cases h
      exact ⟨c, rfl, by omega, rfl, rfl⟩

/-! ## The output grammar -/

/-- `\n<name>: <value>` per header, in the given order. -/
def headerLines : List (Bytes × Bytes) → Bytes
  | [] => []
  | (n, v) :: r => [10] ++ n ++ [58, 32] ++ v ++ headerLines r

/-- Everything `write_headers` is supposed to emit. -/
def headersOutput (code : Nat) (reason : Option Bytes) (hs : List (Bytes × Bytes)) : Bytes :=
  "Status: ".toUTF8.toList ++ Response.digits3 code ++ [32] ++ reason.getD Response.customReason ++
    headerLines hs ++ [10, 10]

/-- Everything `simple_redirect` is supposed to emit. -/
def redirectOutput (loc : Bytes) : Bytes := Response.location ++ loc ++ [10, 10]

theorem headerWrites_flatten (hs : List (Bytes × Bytes)) :
    (headerWrites hs).flatten = headerLines hs := by
  induction hs with
  | nil => rfl
  | cons p r ih =>
    obtain ⟨n, v⟩ := p
    simp [headerWrites, headerLines, ih]

theorem headerLines_length (hs : List (Bytes × Bytes)) :
    (headerLines hs).length = headersCount hs := by
  induction hs with
  | nil => rfl
  | cons p r ih =>
    obtain ⟨n, v⟩ := p
    simp [headerLines, headersCount, ih]
    omega

/-- One line per header: `headerLines` distributes over list append (order is preserved). -/
theorem headerLines_append (a b : List (Bytes × Bytes)) :
    headerLines (a ++ b) = headerLines a ++ headerLines b := by
  induction a with
  | nil => rfl
  | cons p r ih =>
    obtain ⟨n, v⟩ := p
    simp [headerLines, ih]

theorem writes_flatten (code : Nat) (reason : Option Bytes) (hs : List (Bytes × Bytes)) :
    ([statusBuf code, reason.getD customReason] ++ headerWrites hs ++ [[10, 10]]).flatten =
      headersOutput code reason hs := by
  simp [headersOutput, statusBuf, headerWrites_flatten]

theorem count_eq (code : Nat) (reason : Option Bytes) (hs : List (Bytes × Bytes)) :
    (statusBuf code).length + (reason.getD customReason).length + headersCount hs + 2 =
      (headersOutput code reason hs).length := by
  simp [headersOutput, statusBuf, headerLines_length]
  omega

theorem redirect_flatten (loc : Bytes) :
    ([location, loc, [10, 10]] : List Bytes).flatten = redirectOutput loc := by
  simp [redirectOutput]

theorem redirectOutput_length (loc : Bytes) :
    (redirectOutput loc).length = location.length + loc.length + 2 := by
  simp [redirectOutput]
  omega

/-- The status code is rendered as its three ASCII decimal digits (most significant first): each
byte is `'0' + digit` without wrap-around, lies in `'0'..'9'`, and the digits read back the code. -/
theorem digits3_spec (code : Nat) (h1 : 100 ≤ code) (h2 : code ≤ 999) :
    Response.digits3 code =
      [UInt8.ofNat (48 + code / 100), UInt8.ofNat (48 + code / 10 % 10), UInt8.ofNat (48 + code % 10)] ∧
    (UInt8.ofNat (48 + code / 100)).toNat = 48 + code / 100 ∧
    (UInt8.ofNat (48 + code / 10 % 10)).toNat = 48 + code / 10 % 10 ∧
    (UInt8.ofNat (48 + code % 10)).toNat = 48 + code % 10 ∧
    (∀ b ∈ Response.digits3 code, 48 ≤ b.toNat ∧ b.toNat ≤ 57) ∧
    ((UInt8.ofNat (48 + code / 100)).toNat - 48) * 100 +
      ((UInt8.ofNat (48 + code / 10 % 10)).toNat - 48) * 10 +
      ((UInt8.ofNat (48 + code % 10)).toNat - 48) = code := by
  refine ⟨rfl, ?_, ?_, ?_, ?_, ?_⟩
  · simp only [UInt8.toNat_ofNat']; omega
  · simp only [UInt8.toNat_ofNat']; omega
  · simp only [UInt8.toNat_ofNat']; omega
  · intro b hb
    simp only [digits3, List.mem_cons, List.not_mem_nil, or_false] at hb
    rcases hb with rfl | rfl | rfl <;> (simp only [UInt8.toNat_ofNat']; omega)
  · simp only [UInt8.toNat_ofNat']; omega

theorem digits3_length (code : Nat) : (Response.digits3 code).length = 3 := rfl

/-! ## `write_headers` -/

/-- Exact grammar and exact byte count on a growable destination. -/
theorem headers_bytes (pre : Bytes) (code : Nat) (reason : Option Bytes) (hs : List (Bytes × Bytes)) :
    Response.writeHeaders (Sink.vec pre) code reason hs =
      ({ cap := none, out := pre ++ headersOutput code reason hs },
        some (headersOutput code reason hs).length) := by
  simp only [writeHeaders, writeAlls_vec, writes_flatten, count_eq]

/-- Any starting sink: `Ok(n)` means exactly the full output was appended and `n` is its length. -/
theorem count_eq_len (w w' : Sink) (code n : Nat) (reason : Option Bytes) (hs : List (Bytes × Bytes))
    (h : Response.writeHeaders w code reason hs = (w', some n)) :
    w'.out = w.out ++ headersOutput code reason hs ∧ n = (headersOutput code reason hs).length := by
  simp only [writeHeaders] at h
  split at h
  · next w'' hw =>
    cases h
    exact ⟨by rw [writeAlls_ok_out _ _ _ hw, writes_flatten], (count_eq code reason hs)⟩
  · cases h

/-- Any starting sink: on `Err` the sink was bounded, is now full, and holds a proper prefix. -/
theorem err_prefix (w w' : Sink) (code : Nat) (reason : Option Bytes) (hs : List (Bytes × Bytes))
    (h : Response.writeHeaders w code reason hs = (w', none)) :
    ∃ c, w.cap = some c ∧ c < (headersOutput code reason hs).length ∧ w'.cap = some 0 ∧
      w'.out = w.out ++ (headersOutput code reason hs).take c := by
  simp only [writeHeaders] at h
  split at h
  · cases h
  · next w'' hw =>
    cases h
    rw [← writes_flatten]
    exact writeAlls_err_out _ _ _ hw

theorem short_dest_fails (c code : Nat) (reason : Option Bytes) (hs : List (Bytes × Bytes))
    (h : c < (headersOutput code reason hs).length) :
    Response.writeHeaders (Sink.slice c) code reason hs =
      ({ cap := some 0, out := (headersOutput code reason hs).take c }, none) := by
  have : ¬ (headersOutput code reason hs).length ≤ c := by omega
  simp only [writeHeaders, writeAlls_slice, writes_flatten, this, if_false]

theorem fits_ok (c code : Nat) (reason : Option Bytes) (hs : List (Bytes × Bytes))
    (h : (headersOutput code reason hs).length ≤ c) :
    Response.writeHeaders (Sink.slice c) code reason hs =
      ({ cap := some (c - (headersOutput code reason hs).length),
         out := headersOutput code reason hs },
        some (headersOutput code reason hs).length) := by
  simp only [writeHeaders, writeAlls_slice, writes_flatten, h, if_true, count_eq]

/-- The written part of a failed call is a prefix of the full output. -/
theorem short_dest_prefix (c code : Nat) (reason : Option Bytes) (hs : List (Bytes × Bytes))
    (h : c < (headersOutput code reason hs).length) :
    (Response.writeHeaders (Sink.slice c) code reason hs).2 = none ∧
    (Response.writeHeaders (Sink.slice c) code reason hs).1.out <+: headersOutput code reason hs ∧
    (Response.writeHeaders (Sink.slice c) code reason hs).1.out.length = c := by
  rw [short_dest_fails c code reason hs h]
  exact ⟨rfl, List.take_prefix _ _, by simp; omega⟩

/-- Success on a slice happens exactly when the whole output fits. -/
theorem slice_ok_iff (c code : Nat) (reason : Option Bytes) (hs : List (Bytes × Bytes)) :
    (Response.writeHeaders (Sink.slice c) code reason hs).2.isSome ↔
      (headersOutput code reason hs).length ≤ c := by
  by_cases h : (headersOutput code reason hs).length ≤ c
  · simp [fits_ok c code reason hs h, h]
  · simp [short_dest_fails c code reason hs (by omega), h]

/-! ## `simple_redirect` -/

theorem redirect_bytes (pre loc : Bytes) :
    Response.simpleRedirect (Sink.vec pre) loc =
      ({ cap := none, out := pre ++ Response.location ++ loc ++ [10, 10] },
        some (Response.location.length + loc.length + 2)) ∧
    Response.location.length + loc.length + 2 = (Response.location ++ loc ++ [10, 10]).length := by
  refine ⟨?_, by simp; omega⟩
  simp [simpleRedirect, writeAlls_vec]
  omega

theorem redirect_count_eq_len (w w' : Sink) (n : Nat) (loc : Bytes)
    (h : Response.simpleRedirect w loc = (w', some n)) :
    w'.out = w.out ++ redirectOutput loc ∧ n = (redirectOutput loc).length := by
  simp only [simpleRedirect] at h
  split at h
  · next w'' hw =>
    cases h
    refine ⟨by rw [writeAlls_ok_out _ _ _ hw, redirect_flatten], ?_⟩
    rw [redirectOutput_length]; omega
  · cases h

theorem redirect_err_prefix (w w' : Sink) (loc : Bytes)
    (h : Response.simpleRedirect w loc = (w', none)) :
    ∃ c, w.cap = some c ∧ c < (redirectOutput loc).length ∧ w'.cap = some 0 ∧
      w'.out = w.out ++ (redirectOutput loc).take c := by
  simp only [simpleRedirect] at h
  split at h
  · cases h
  · next w'' hw =>
    cases h
    rw [← redirect_flatten]
    exact writeAlls_err_out _ _ _ hw

theorem redirect_short_dest_fails (c : Nat) (loc : Bytes) (h : c < (redirectOutput loc).length) :
    Response.simpleRedirect (Sink.slice c) loc =
      ({ cap := some 0, out := (redirectOutput loc).take c }, none) := by
  have : ¬ (redirectOutput loc).length ≤ c := by omega
  simp only [simpleRedirect, writeAlls_slice, redirect_flatten, this, if_false]

theorem redirect_fits_ok (c : Nat) (loc : Bytes) (h : (redirectOutput loc).length ≤ c) :
    Response.simpleRedirect (Sink.slice c) loc =
      ({ cap := some (c - (redirectOutput loc).length), out := redirectOutput loc },
        some (redirectOutput loc).length) := by
  have e : location.length + 2 + loc.length = (redirectOutput loc).length := by
    rw [redirectOutput_length]; omega
  simp only [simpleRedirect, writeAlls_slice, redirect_flatten, h, if_true, e]

/-! ## Concrete instances -/

/-- `"Status: 404 Not Found\na: b\n\n"` -/
example : headersOutput 404 (some "Not Found".toUTF8.toList) [("a".toUTF8.toList, "b".toUTF8.toList)] =
    [83, 116, 97, 116, 117, 115, 58, 32, 52, 48, 52, 32, 78, 111, 116, 32, 70, 111, 117, 110, 100,
     10, 97, 58, 32, 98, 10, 10] := by with_unfolding_all decide

/-- no canonical reason ⇒ `Custom`; no headers ⇒ just the status line and the blank line. -/
example : headersOutput 599 none [] =
    [83, 116, 97, 116, 117, 115, 58, 32, 53, 57, 57, 32, 67, 117, 115, 116, 111, 109, 10, 10] := by
  with_unfolding_all decide

example : Response.writeHeaders (Sink.vec) 404 (some "Not Found".toUTF8.toList)
      [("a".toUTF8.toList, "b".toUTF8.toList)] =
    ({ cap := none, out := "Status: 404 Not Found\na: b\n\n".toUTF8.toList }, some 28) := by with_unfolding_all decide

/-- a 5-byte destination fails and holds `Statu`. -/
example : Response.writeHeaders (Sink.slice 5) 404 (some "Not Found".toUTF8.toList)
      [("a".toUTF8.toList, "b".toUTF8.toList)] =
    ({ cap := some 0, out := [83, 116, 97, 116, 117] }, none) := by with_unfolding_all decide

example : Response.simpleRedirect (Sink.vec) "/x".toUTF8.toList =
    ({ cap := none, out := "Location: /x\n\n".toUTF8.toList }, some 14) := by with_unfolding_all decide

example : Response.simpleRedirect (Sink.slice 5) "/x".toUTF8.toList =
    ({ cap := some 0, out := "Locat".toUTF8.toList }, none) := by with_unfolding_all decide

example : Response.simpleRedirect (Sink.slice 14) "/x".toUTF8.toList =
    ({ cap := some 0, out := "Location: /x\n\n".toUTF8.toList }, some 14) := by with_unfolding_all decide

end Fcgi.C20
