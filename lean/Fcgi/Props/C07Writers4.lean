import Fcgi.Proofs.E2EWriters4
import Fcgi.Props.C07Writers3
/-!
# C07 / C10 — the writers theorems without the hypothesis on the later handler scripts

`single_request_writers_flush_e2e` (`Props/C07Writers2`) and `filter_writers_flush_e2e` (`Props/C07Writers3`) carried
`hmore : ∀ s ∈ more, s.2 = true` (the handler scripts still to come propagate I/O errors).  It was forced by the
proof only: "a poll consumes a prefix of the flush script" was taken from `C12Inv.stepConn_w`, which is stated for
such connections because it proves more.  `E2E.stepConn_fs` (`Proofs/E2EWriters4`) proves exactly that fact for
EVERY connection; with it the hypothesis is gone.  The statements below are those of the originals minus `hmore`.
-/
namespace Fcgi.C07W
open Fcgi Fcgi.Req Fcgi.Str Fcgi.Async Fcgi.Run Fcgi.Spec Fcgi.E2E Fcgi.C07E Fcgi.C07U Fcgi.C07B

/-- `single_request_writers_flush_e2e` without `hmore`: any later handler scripts, propagating or not. -/
theorem single_request_writers_flush_e2e_nomore {p : Preamble} {recs : List Rec} {content : Bytes} {srecs : List Rec}
    {b mc : Nat} {W : FList} {st : ExitStatus} {more : List (List HOp × Bool)} {t : Transport} {fuel : Nat}
    (hwf : WellFormedPreamble p recs) (hrole : p.role = 1)
    (hpairs : ∀ q ∈ p.pairs, (NV.enc q).length ≤ alignedBufsize b)
    (hnoise : NoiseFits (alignedBufsize b) recs)
    (hs : StreamRecs p.id 5 content srecs) (hsn : NoiseFits (alignedBufsize b) srecs)
    (hin : t.input = serAll recs ++ serAll srecs) (hben : Ben t) (hev : hsCount t.events = 0)
    (hfl : ∀ a ∈ t.fl, a ≠ FlAns.err)
    (hfuel : t.rd.length + t.wr.length + t.fl.length + 1 ≤ fuel)
    (hhf : fcost W + 20 ≤ 1000) :
    ∃ c' fin O₁ O₂ pad res,
      runTask fuel (connS b mc t ((fscriptW W st, true) :: more)) 0 none = (c', fin) ∧
      O₁ ++ O₂ = owedStream p.id 5 mc srecs ∧
      WritersOutcome p recs content (E2E.writesOf W) O₁ O₂ pad res b mc st more t c' fin := by
  obtain ⟨body, pad, res, hpad, hbody, hsrecs⟩ := StreamRecs.split hs
  have hid := (pid_of_wf hwf).2
  have hsb : NoiseFits (alignedBufsize b) body := fun r hr => hsn r (by rw [hsrecs]; simp [hr])
  have ok : WFOK (cfgW2 p recs content body pad res b mc W st t.wlog 0 more) W :=
    ⟨hwf, hrole, hpairs, hnoise, hbody, hsb, hpad, rfl, rfl, rfl, rfl, hhf⟩
  have hOt : owedStream p.id 5 mc srecs = owedStream p.id 5 mc body := by
    rw [hsrecs, owedStream_append, owedStream_term p.id 5 mc _ rfl, List.append_nil]
  have htwf : (trec 5 p.id pad res).WF := ⟨hid, by simp [trec], hpad⟩
  have hidle : ∀ e ∈ [trec 5 p.id pad res], IdleNoise e := by
    intro e he
    rw [List.mem_singleton.1 he]
    exact ⟨htwf, fun hx => absurd hx (by show (5 : UInt8).toNat ≠ RT.beginRequest; decide)⟩
  have hfit : NoiseFits (alignedBufsize b) [trec 5 p.id pad res] := by
    intro e he hg
    rw [List.mem_singleton.1 he] at hg
    exact absurd hg.1 (by show (5 : UInt8).toNat ≠ RT.getValues; decide)
  obtain ⟨hns, hNF⟩ := idle_front dummy_wf b mc (fun q hq => by cases hq) (dummy_fits _) hidle hfit []
  rw [C02.serAll_single] at hns hNF
  have hst : FStage (cfgW2 p recs content body pad res b mc W st t.wlog 0 more)
      (connS b mc t ((fscriptW W st, true) :: more)) :=
    .start (raw := []) rfl (by
      show [] ++ t.input = _
      rw [hin, hsrecs, C02.serAll_append, C02.serAll_single]; rfl) (Nat.zero_le _) rfl hben rfl rfl rfl hev
  obtain ⟨c', fin, hrun, hres⟩ := run_writersN ok (Z := serAll dummyRecs ++ []) hns hNF
    t.endMode [] _ 0 fuel hst rfl (fun s hs => by cases hs) hfl rfl (by show mu t + 1 ≤ fuel; unfold mu ans; omega)
  have hro := (run_idle_out mc [trec 5 p.id pad res] hidle).1
  rw [C02.serAll_single] at hro
  have hio : idleOwed mc [trec 5 p.id pad res] = [] := by
    simp [idleOwed, owed, trec, RT.valid, RT.getValues, RT.beginRequest]
  rcases hres with ⟨⟨O1, O2⟩, ⟨hkp, hO⟩, hk', hem, _, _, _, hend⟩ |
      ⟨hfin, ⟨O1, O2, hO, q3, hfu⟩, _, _⟩
  · have hout : ∀ F, F ++ (serAll dummyRecs ++ []) = (trec 5 p.id pad res).ser ++ (serAll dummyRecs ++ []) →
        (cfgW2 p recs content body pad res b mc W st t.wlog 0 more).Lw (E2E.writesOf W) O1 O2 ++ (run .header F mc).out =
        t.wlog ++ expectedLogW p recs mc (E2E.writesOf W) st O1 O2 := by
      intro F hF
      rw [List.append_cancel_right hF, hro, hio, List.append_nil, lw_eq2]
    refine ⟨c', fin, O1, O2, pad, res, hrun, hO.trans hOt.symm, ⟨hk'.hs, hk'.ev _ List.mem_cons_self⟩,
      hk'.ev _ (List.mem_cons_of_mem _ List.mem_cons_self), ?_, hk'.sc, ?_⟩
    · rcases hend with ⟨_, hp⟩ | ⟨_, hf⟩
      · obtain ⟨F, hF, _, _, hlg⟩ := hp.pst
        exact hlg.trans (hout F hF)
      · obtain ⟨F, hF, hlg⟩ := hf.log
        exact hlg.trans (hout F hF)
    · rcases hend with ⟨rfl, hp⟩ | ⟨rfl, hf⟩
      · obtain ⟨F, hF, hps, hph, _⟩ := hp.pst
        have hFe : F = (trec 5 p.id pad res).ser := List.append_cancel_right hF
        subst hFe
        exact Or.inr (Or.inr ⟨hkp, hem.symm.trans hp.em, rfl, hph, hp.inp, hk'.mx, hps.stop, hps.ben⟩)
      · exact Or.inr (Or.inl ⟨hkp, hem.symm.trans hf.em, rfl, hf.ph⟩)
  · exact ⟨c', fin, O1, O2, pad, res, hrun, hO.trans hOt.symm, ⟨hfu.ev.1, hfu.ev.2⟩,
      q3, by rw [hfu.log, lw_eq2], hfu.sc, Or.inl ⟨hfu.nokeep, hfin, hfu.ph⟩⟩

/-- `filter_writers_flush_e2e` without `hmore`. -/
theorem filter_writers_flush_e2e_nomore {p : Preamble} {recs : List Rec} {content : Bytes} {srecs : List Rec}
    {content2 : Bytes} {drecs : List Rec}
    {b mc : Nat} {W : FList} {st : ExitStatus} {more : List (List HOp × Bool)} {t : Transport} {fuel : Nat}
    (hwf : WellFormedPreamble p recs) (hrole : p.role = 3)
    (hpairs : ∀ q ∈ p.pairs, (NV.enc q).length ≤ alignedBufsize b)
    (hnoise : NoiseFits (alignedBufsize b) recs)
    (hs : StreamRecs p.id 5 content srecs) (hsn : NoiseFits (alignedBufsize b) srecs)
    (hd : StreamRecs p.id 8 content2 drecs) (hdn : NoiseFits (alignedBufsize b) drecs)
    (hin : t.input = serAll recs ++ (serAll srecs ++ serAll drecs)) (hben : Ben t) (hev : hsCount t.events = 0)
    (hfl : ∀ a ∈ t.fl, a ≠ FlAns.err)
    (hfuel : t.rd.length + t.wr.length + t.fl.length + 1 ≤ fuel)
    (hhf : fcost W + 40 ≤ 1000) :
    ∃ c' fin O₁ O₂ pad2 res2,
      runTask fuel (connS b mc t ((ffscriptW W st, true) :: more)) 0 none = (c', fin) ∧
      O₁ ++ O₂ = owedStream p.id 5 mc srecs ++ owedStream p.id 8 mc drecs ∧
      FilterWritersOutcome p recs content content2 (E2E.writesOf W) O₁ O₂ pad2 res2 b mc st more t c' fin := by
  obtain ⟨body, pad, res, hpad, hbody, hsrecs⟩ := StreamRecs.split hs
  obtain ⟨body2, pad2, res2, hpad2, hbody2, hdrecs⟩ := StreamRecs.split hd
  have hid := (pid_of_wf hwf).2
  have hsb : NoiseFits (alignedBufsize b) body := fun r hr => hsn r (by rw [hsrecs]; simp [hr])
  have hdb : NoiseFits (alignedBufsize b) body2 := fun r hr => hdn r (by rw [hdrecs]; simp [hr])
  have ok : WFOK3 (cfgW3 p recs content body pad res content2 body2 pad2 res2 b mc W st t.wlog 0 more) W :=
    ⟨hwf, hrole, hpairs, hnoise, hbody, hbody2, hsb, hdb, hpad, hpad2, rfl, rfl, rfl, rfl, rfl, hhf⟩
  have hOt : owedStream p.id 5 mc srecs ++ owedStream p.id 8 mc drecs =
      owedStream p.id 5 mc body ++ owedStream p.id 8 mc body2 := by
    rw [hsrecs, hdrecs, owedStream_append, owedStream_append, owedStream_term p.id 5 mc _ rfl,
      owedStream_term p.id 8 mc _ rfl, List.append_nil, List.append_nil]
  have htwf : (trec 8 p.id pad2 res2).WF := ⟨hid, by simp [trec], hpad2⟩
  have hidle : ∀ e ∈ [trec 8 p.id pad2 res2], IdleNoise e := by
    intro e he
    rw [List.mem_singleton.1 he]
    exact ⟨htwf, fun hx => absurd hx (by show (8 : UInt8).toNat ≠ RT.beginRequest; decide)⟩
  have hfit : NoiseFits (alignedBufsize b) [trec 8 p.id pad2 res2] := by
    intro e he hg
    rw [List.mem_singleton.1 he] at hg
    exact absurd hg.1 (by show (8 : UInt8).toNat ≠ RT.getValues; decide)
  obtain ⟨hns, hNF⟩ := idle_front dummy_wf b mc (fun q hq => by cases hq) (dummy_fits _) hidle hfit []
  rw [C02.serAll_single] at hns hNF
  have hst : FStage (cfgW3 p recs content body pad res content2 body2 pad2 res2 b mc W st t.wlog 0 more)
      (connS b mc t ((ffscriptW W st, true) :: more)) :=
    .start (raw := []) rfl (by
      show [] ++ t.input = _
      rw [hin, hsrecs, hdrecs, C02.serAll_append, C02.serAll_single, C02.serAll_append, C02.serAll_single,
        List.append_assoc]; rfl) (Nat.zero_le _) rfl hben rfl rfl rfl hev
  obtain ⟨c', fin, hrun, hres⟩ := run_filterWN ok (Z := serAll dummyRecs ++ []) hns hNF
    t.endMode [] _ 0 fuel hst rfl (fun s hs => by cases hs) hfl rfl (by show mu t + 1 ≤ fuel; unfold mu ans; omega)
  have hro := (run_idle_out mc [trec 8 p.id pad2 res2] hidle).1
  rw [C02.serAll_single] at hro
  have hio : idleOwed mc [trec 8 p.id pad2 res2] = [] := by
    simp [idleOwed, owed, trec, RT.valid, RT.getValues, RT.beginRequest]
  rcases hres with ⟨⟨O1, O2⟩, ⟨hkp, hO⟩, hk', hem, _, _, _, hend⟩ |
      ⟨hfin, ⟨O1, O2, hO, q3, hfu⟩, _, _⟩
  · have hout : ∀ F, F ++ (serAll dummyRecs ++ []) = (trec 8 p.id pad2 res2).ser ++ (serAll dummyRecs ++ []) →
        (cfgW3 p recs content body pad res content2 body2 pad2 res2 b mc W st t.wlog 0 more).Lw (E2E.writesOf W) O1 O2 ++ (run .header F mc).out =
        t.wlog ++ expectedLogW p recs mc (E2E.writesOf W) st O1 O2 := by
      intro F hF
      rw [List.append_cancel_right hF, hro, hio, List.append_nil, lw_eq3]
    refine ⟨c', fin, O1, O2, pad2, res2, hrun, hO.trans hOt.symm, ⟨hk'.hs, hk'.ev _ List.mem_cons_self⟩,
      hk'.ev _ (List.mem_cons_of_mem _ List.mem_cons_self),
      hk'.ev _ (List.mem_cons_of_mem _ (List.mem_cons_of_mem _ List.mem_cons_self)), ?_, hk'.sc, ?_⟩
    · rcases hend with ⟨_, hp⟩ | ⟨_, hf⟩
      · obtain ⟨F, hF, _, _, hlg⟩ := hp.pst
        exact hlg.trans (hout F hF)
      · obtain ⟨F, hF, hlg⟩ := hf.log
        exact hlg.trans (hout F hF)
    · rcases hend with ⟨rfl, hp⟩ | ⟨rfl, hf⟩
      · obtain ⟨F, hF, hps, hph, _⟩ := hp.pst
        have hFe : F = (trec 8 p.id pad2 res2).ser := List.append_cancel_right hF
        subst hFe
        exact Or.inr (Or.inr ⟨hkp, hem.symm.trans hp.em, rfl, hph, hp.inp, hk'.mx, hps.stop, hps.ben⟩)
      · exact Or.inr (Or.inl ⟨hkp, hem.symm.trans hf.em, rfl, hf.ph⟩)
  · exact ⟨c', fin, O1, O2, pad2, res2, hrun, hO.trans hOt.symm, ⟨hfu.ev.1, hfu.ev.2⟩,
      q3.1, q3.2, by rw [hfu.log, lw_eq3], hfu.sc, Or.inl ⟨hfu.nokeep, hfin, hfu.ph⟩⟩

/-! ## Non-vacuity: a NON-propagating script waiting behind the request -/
namespace Example4
open Fcgi.C01.Example Fcgi.C07E.Example Fcgi.C07W.Example2 Fcgi.C07W.Example3

/-- the runs of `Example2` / `Example3` with a later handler script that IGNORES I/O errors (`false`) — outside
the theorems with `hmore` -/
example : ∃ c' fin O₁ O₂, runTask 20 (connS 64 10 Example2.fT [(fscriptW exF (.complete 0), true), ([.ret (.complete 1)], false)]) 0 none
      = (c', fin) ∧ O₁ ++ O₂ = owedStream 1 5 10 nS ∧ hsCount c'.env.tr.events = 1 ∧
    c'.scripts = [([.ret (.complete 1)], false)] ∧ readEvent [65, 66, 67] ∈ c'.env.tr.events := by
  obtain ⟨c', fin, O1, O2, pad, res, hrun, hO, ho⟩ := single_request_writers_flush_e2e_nomore (p := pre) (recs := recs)
    (content := [65, 66, 67]) (srecs := nS) (b := 64) (mc := 10) (W := exF) (st := .complete 0)
    (more := [([.ret (.complete 1)], false)]) (t := Example2.fT)
    (fuel := 20) recs_wf rfl (pre_pairs_fit 64) (noise_fits 64) nS_ok nS_fits rfl ⟨by decide, by decide, rfl, by decide⟩ rfl
    (by decide) (by decide) (by decide)
  exact ⟨c', fin, O1, O2, hrun, hO, ho.one_handler.1, ho.scripts, ho.read⟩

example : ∃ c' fin O₁ O₂, runTask 20 (connS 64 10 f3T [(ffscriptW exF3 (.complete 0), true), ([.ret (.complete 1)], false)]) 0 none
      = (c', fin) ∧ O₁ ++ O₂ = owedStream 1 5 10 nS ++ owedStream 1 8 10 fD ∧ hsCount c'.env.tr.events = 1 ∧
    readEvent [65, 66, 67] ∈ c'.env.tr.events ∧ readEvent [120, 121, 122] ∈ c'.env.tr.events := by
  obtain ⟨c', fin, O1, O2, pad2, res2, hrun, hO, ho⟩ := filter_writers_flush_e2e_nomore (p := preF) (recs := recsF)
    (content := [65, 66, 67]) (srecs := nS) (content2 := [120, 121, 122]) (drecs := fD) (b := 64) (mc := 10) (W := exF3)
    (st := .complete 0) (more := [([.ret (.complete 1)], false)]) (t := f3T) (fuel := 20) recsF_wf rfl
    (fun q hq => by cases hq) (recsF_fits _)
    nS_ok nS_fits fD_ok fD_fits rfl ⟨by decide, by decide, rfl, by decide⟩ rfl (by decide) (by decide) (by decide)
  exact ⟨c', fin, O1, O2, hrun, hO, ho.one_handler.1, ho.read, ho.read2⟩
end Example4

end Fcgi.C07W
